/-
  C03 — a cluster start without UNSAFE_TO_BREAK is a safe place to break the text.

  Proved here, for the Lean model of buffer.rs / ot_shape.rs and every buffer (any length, any contents):
  the contract of the flag primitive every one of the ~40 call sites goes through — `unsafe_to_break(s, e)` flags
  exactly the glyphs of `[s, e)` outside the range's minimum cluster ("everything but the first cluster") at all three
  cluster levels on monotone ranges, one-sided and two-sided (out-buffer + in-buffer) — and what the final
  `propagate_flags` pass makes of the per-glyph bits.  That each call site passes a span covering what it inspected is
  NOT proved (the lookup interpreter is not modelled here); the end-to-end sentence of the property is carried by the
  break-safety verifier through shape() in tools/props/C03.py.

  Second part (`C03_set_cluster_flags` … `C03_merge_out_renamed_no_flags`): what happens to the flags when a cluster primitive
  RENAMES a glyph.  The flag on the first glyph of cluster c governs the boundary at the text start of c, so a primitive that
  changes cluster values decides which boundary the old flags now speak about.  `delete_glyph` in a descending buffer hands the
  deleted glyph's flags to the run that takes over its cluster value (the boundary at the start of c is still there);
  every other path (`merge_clusters`, `merge_out_clusters`, the forward merge of `delete_glyph`) clears the flags of a renamed
  glyph and leaves every other glyph alone, as HarfBuzz does.  `delete_glyphs_inplace` repeats the same branches in place:
  its "Merge cluster backward" iteration is `C03_delin_backward_carries_flags` (the run that takes over the deleted glyph's
  cluster value carries the DELETED glyph's flags); its other branches are checked by the `flags-carry` correspondence and the
  `carry-exact` oracle (tools/props/C03.py).

  Third part (`C03_stch_span`, `C03_stch_flag_call`, `C03_stch_flags`): the one shaper routine whose flag contract is modelled
  here, the Arabic shaper's `stch` post-processing (Stch.lean, tied to the crate by the `stch-prims` stream): the span it flags
  is the stretching mark's tiles plus the whole word whose advances decide the tiling, and every glyph of that span outside the
  mark's cluster ends up UNSAFE_TO_BREAK.

  Fourth part (`C03_value_worked_iff` … `C03_pair_kerning_flagged`): GPOS value records and PairPos.  `apply_to_pos` returns
  `worked`; PairPos flags the pair unsafe_to_break iff one of the two records worked (GposFlag.lean, tied to the crate by the
  `gpos-value-worked` / `gpos-pair-flags` streams).  `worked` is true exactly when an enabled component of the record — a
  static value on an axis the direction uses, or a Device / VariationIndex table the face state (ppem, variation
  coordinates) makes live — is present; hence a record that moved the glyph says so, hence a pair whose kerning comes from a
  device delta alone is flagged like any other kerned pair.  `C03_gen_value_worked` ties the statement to the compiled crate:
  the `worked` value the crate returns on every unit record x direction x face state (regenerated) is the model's.

  `Upd l l' p q test upd`: `l'` is `l` with `upd` applied to exactly the entries `p ≤ j < q` that pass `test`
  (same length, everything else untouched).  `neCl m x` = "cluster of x differs from m", `orMask f x` = `x.mask |= f`.
-/
import RbModel.Lemmas.Flags
import RbModel.Lemmas.FlagCarry
import RbModel.Lemmas.Stch
import RbModel.Lemmas.HangulFlags
import RbModel.Lemmas.GposFlag
import RbModel.Gen.GposWorked
import RbModel.Lemmas.MatchSpanFlags
import RbModel.Lemmas.PairSpanKern
import RbModel.Gen.PairFlag

namespace RbModel.Flags

/-- **unsafe_to_break(s, e) on a monotone range** (clusters non-decreasing or non-increasing — the state every caller is in):
    no panic; the glyphs of `[s, e)` whose cluster differs from the range's minimum cluster `m` get
    `mask |= UNSAFE_TO_BREAK | UNSAFE_TO_CONCAT`, every other entry of the buffer (inside and outside the range) is
    untouched, only `info` and the scratch flag change.  For all three cluster levels (level 0 looks at the two ends, level 1
    scans, level 2 flags by inequality), every length and every mask content. -/
theorem C03_interior (b : Buf) (s e : Nat) (hse : s < e) (he : e ≤ b.len) (hlen : b.len ≤ b.info.length)
    (hu32 : ∀ j x, s ≤ j → j < e → b.info[j]? = some x → x.cluster ≤ U32MAX) (hmono : MonoRange b.info s e) :
    ∃ b' m, b.unsafeToBreak s (some e) = .ok b' ∧ IsRangeMin b.info s e m ∧
      Upd b.info b'.info s e (neCl m) (orMask (Flag.UNSAFE_TO_BREAK ||| Flag.UNSAFE_TO_CONCAT)) ∧
      b' = { b with info := b'.info, scratch := b'.scratch } := by
  by_cases h2 : s + 2 ≤ e
  · obtain ⟨info, r, p, q, hr, _, _, _, _, hatt, hlb, hex⟩ :=
      setGlyphFlags_interior_in b (Flag.UNSAFE_TO_BREAK ||| Flag.UNSAFE_TO_CONCAT) s e h2 he hlen hu32
    exact ⟨_, r, hr, ⟨hlb (Or.inr hmono), hatt⟩, hex hmono, rfl⟩
  · -- a single glyph: the call returns at once
    have hes : e = s + 1 := by omega
    subst hes
    have hs : s < b.info.length := by omega
    have hx : b.info[s]? = some b.info[s] := List.getElem?_eq_getElem hs
    refine ⟨b, b.info[s].cluster, ?_, ⟨?_, s, b.info[s], Nat.le_refl _, by omega, hx, rfl⟩, ?_, rfl⟩
    · have hmin : min (s + 1) b.len = s + 1 := by omega
      simp [Buf.unsafeToBreak, Buf.setGlyphFlags, hmin]
      rfl
    · intro j x h1 h2 hjx
      have : j = s := by omega
      subst this
      rw [hx] at hjx; cases hjx; exact Nat.le_refl _
    · apply Upd.widen (Upd.empty b.info s _ _) (Nat.le_refl _) (by omega)
      intro j x h1 h2 _ hjx
      have : j = s := by omega
      subst this
      rw [hx] at hjx; cases hjx
      simp [neCl]

example : ∃ (b : Buf) (s e : Nat), s < e ∧ e ≤ b.len ∧ b.len ≤ b.info.length ∧
    (∀ j x, s ≤ j → j < e → b.info[j]? = some x → x.cluster ≤ U32MAX) ∧ MonoRange b.info s e := by
  refine ⟨{ info := [{ cluster := 1 }, { cluster := 0 }], len := 2 }, 0, 2, by decide, by decide, by decide, ?_, Or.inr ?_⟩
  · intro j x _ hj hx
    have : j = 0 ∨ j = 1 := by omega
    rcases this with h | h <;> subst h <;> simp at hx <;> subst hx <;> decide
  · intro i j x y _ hij hj hx hy
    have : (i = 0 ∧ j = 0) ∨ (i = 0 ∧ j = 1) ∨ (i = 1 ∧ j = 1) := by omega
    rcases this with ⟨h1, h2⟩ | ⟨h1, h2⟩ | ⟨h1, h2⟩ <;> subst h1 <;> subst h2 <;> simp at hx hy <;> subst hx <;> subst hy <;> decide

/-- **two-sided variant** `unsafe_to_break_from_outbuffer(s, e)` over `out[s, out_len)` followed by `info[idx, e)`, each part
    monotone: no panic; with `m` the minimum cluster over both parts, exactly the glyphs of the two parts whose cluster differs
    from `m` get `mask |= BREAK | CONCAT` — first in the out-buffer (`o1`; in shared-output mode the out-buffer is the front of
    `info`), then in the in-buffer; nothing else changes.  All three levels, both output modes. -/
theorem C03_interior_out (b : Buf) (s e : Nat) (hho : b.haveOutput = true) (hs : s ≤ b.outLen)
    (hol : b.outLen ≤ b.outArr.length) (hie : b.idx ≤ e) (he : e ≤ b.len) (hlen : b.len ≤ b.info.length)
    (hu1 : ∀ j x, s ≤ j → j < b.outLen → b.outArr[j]? = some x → x.cluster ≤ U32MAX)
    (hu2 : ∀ j x, b.idx ≤ j → j < e → b.info[j]? = some x → x.cluster ≤ U32MAX)
    (hne : s < b.outLen ∨ b.idx < e)
    (hmo : MonoRange b.outArr s b.outLen) (hmi : MonoRange b.info b.idx e) :
    ∃ b' m o1, b.unsafeToBreakFromOut s (some e) = .ok b' ∧
      LowerBound b.outArr s b.outLen m ∧ LowerBound b.info b.idx e m ∧
      ((∃ j x, s ≤ j ∧ j < b.outLen ∧ b.outArr[j]? = some x ∧ x.cluster = m) ∨
       (∃ j x, b.idx ≤ j ∧ j < e ∧ b.info[j]? = some x ∧ x.cluster = m)) ∧
      Upd b.outArr o1 s b.outLen (neCl m) (orMask (Flag.UNSAFE_TO_BREAK ||| Flag.UNSAFE_TO_CONCAT)) ∧
      Upd (if b.sepOut then b.info else o1) b'.info b.idx e (neCl m) (orMask (Flag.UNSAFE_TO_BREAK ||| Flag.UNSAFE_TO_CONCAT)) ∧
      b'.out = (if b.sepOut then o1 else b.out) ∧
      b' = { b with info := b'.info, out := b'.out, scratch := b'.scratch } := by
  obtain ⟨b', r, o1, p1, q1, p2, q2, hr, _, _, _, _, _, _, hout, hb', hatt, hlb, hex⟩ :=
    setGlyphFlags_interior_out b (Flag.UNSAFE_TO_BREAK ||| Flag.UNSAFE_TO_CONCAT) s e hho hs hol hie he hlen hu1 hu2 hne
  obtain ⟨l1, l2⟩ := hlb (Or.inr ⟨hmo, hmi⟩)
  obtain ⟨u1, u2⟩ := hex hmo hmi
  refine ⟨b', r, o1, hr, l1, l2, hatt, u1, u2, hout, ?_⟩
  rw [hb']

example : ∃ (b : Buf) (s e : Nat), b.haveOutput = true ∧ s ≤ b.outLen ∧ b.outLen ≤ b.outArr.length ∧ b.idx ≤ e ∧
    e ≤ b.len ∧ b.len ≤ b.info.length ∧ (s < b.outLen ∨ b.idx < e) :=
  ⟨{ info := [{ cluster := 0 }, { cluster := 1 }], len := 2, idx := 1, outLen := 1, haveOutput := true }, 0, 2,
    rfl, by decide, by decide, by decide, by decide, by decide, by decide⟩

/-- **arbitrary range**: whatever the clusters of `[s, e)` look like, `unsafe_to_break(s, e)` never panics, touches nothing
    outside `[s, e)`, only ORs `BREAK | CONCAT` into masks, and flags only glyphs whose cluster differs from a reference
    cluster `r` that occurs in the range; at level 1 (scan) `r` is the range minimum, so the minimum cluster is never
    flagged.  (At levels 0 and 2 only the two ends are inspected and `r` is the smaller end: the stronger claim with the true
    minimum is false there on non-monotone ranges, see `C03_interior_subset_ends_only`.) -/
theorem C03_interior_subset (b : Buf) (s e : Nat) (hse : s + 2 ≤ e) (he : e ≤ b.len) (hlen : b.len ≤ b.info.length)
    (hu32 : ∀ j x, s ≤ j → j < e → b.info[j]? = some x → x.cluster ≤ U32MAX) :
    ∃ b' r p q, b.unsafeToBreak s (some e) = .ok b' ∧ s ≤ p ∧ q ≤ e ∧
      Upd b.info b'.info p q (neCl r) (orMask (Flag.UNSAFE_TO_BREAK ||| Flag.UNSAFE_TO_CONCAT)) ∧
      (∃ j x, s ≤ j ∧ j < e ∧ b.info[j]? = some x ∧ x.cluster = r) ∧
      (b.level = 1 → LowerBound b.info s e r) ∧
      b' = { b with info := b'.info, scratch := b'.scratch } := by
  obtain ⟨info, r, p, q, hr, h1, _, h3, hu, hatt, hlb, _⟩ :=
    setGlyphFlags_interior_in b (Flag.UNSAFE_TO_BREAK ||| Flag.UNSAFE_TO_CONCAT) s e hse he hlen hu32
  exact ⟨_, r, p, q, hr, h1, h3, hu, hatt, fun h => hlb (Or.inl h), rfl⟩

/-- the witness for the remark above: level 0, clusters 2,1,3 — the ends give the reference cluster 2, so the glyph of the
    true minimum cluster 1 is flagged (HarfBuzz does the same; callers only pass monotone ranges) -/
theorem C03_interior_subset_ends_only :
    ∃ b', ({ info := [{ cluster := 2 }, { cluster := 1 }, { cluster := 3 }], len := 3, level := 0 } : Buf).unsafeToBreak 0 (some 3)
        = .ok b' ∧ b'.info.map (·.mask) = [0, 3, 3] := ⟨_, rfl, rfl⟩

/-- the write-back loop of `propagate_flags` runs for every cluster (generated from the compiled crate by a probe call) -/
theorem C03_gen_write_back_unguarded : Gen.Flags.propagateWriteBackGuarded = false := by decide

/-- **propagate_flags and UNSAFE_TO_BREAK**: after the pass, every glyph lies in a maximal run of equal clusters `[s, e)`, and
    a glyph of the run exposes UNSAFE_TO_BREAK iff some glyph of the run carried UNSAFE_TO_BREAK before — or, when
    PRODUCE_SAFE_TO_INSERT_TATWEEL is requested, carried SAFE_TO_INSERT_TATWEEL (the reconciliation turns that into
    UNSAFE_TO_BREAK).  So a cluster carries the flag iff one of its glyphs did. -/
theorem C03_propagate (b : Buf) (hlen : b.len ≤ b.info.length) (hsc : b.scratch &&& SCRATCH_HAS_GLYPH_FLAGS ≠ 0) :
    ∃ b', propagateFlags b = .ok b' ∧ SameButMasks b.info b'.info ∧
      ∀ i, i < b.len → ∃ s e, s ≤ i ∧ i < e ∧ e ≤ b.len ∧
        (∀ j, s ≤ j → j < e → clAt b.info j = clAt b.info s) ∧
        (s = 0 ∨ clAt b.info (s - 1) ≠ clAt b.info s) ∧ (e = b.len ∨ clAt b.info e ≠ clAt b.info s) ∧
        ∀ j x', s ≤ j → j < e → b'.info[j]? = some x' →
          (exposed x' &&& Flag.UNSAFE_TO_BREAK ≠ 0 ↔
            ∃ k y, s ≤ k ∧ k < e ∧ b.info[k]? = some y ∧
              (y.mask &&& Flag.UNSAFE_TO_BREAK ≠ 0 ∨
               (contains b.flags Gen.Buf.produceSafeToInsertTatweel = true ∧ y.mask &&& Flag.SAFE_TO_INSERT_TATWEEL ≠ 0))) := by
  obtain ⟨info, hr, hsb, _, hruns⟩ := propagateFlags_spec b C03_gen_write_back_unguarded hlen hsc
  refine ⟨_, hr, hsb, ?_⟩
  intro i hi
  obtain ⟨s, e, h1, h2, ⟨_, r2, r3, r4, r5, r6⟩⟩ := hruns i hi
  refine ⟨s, e, h1, h2, r2, r3, r4, r5, ?_⟩
  intro j x' hj1 hj2 hx'
  obtain ⟨x0, _, hx0⟩ := r6 j hj1 hj2
  simp only at hx'
  rw [hx'] at hx0; cases hx0
  rw [exposed_bit _ _ (by decide)]
  have hse : s + (e - s) = e := by omega
  have hb1 := orSpec_bit b.info 1 (by decide) (e - s) s
  have hb4 := orSpec_bit b.info 4 (by decide) (e - s) s
  rw [hse] at hb1 hb4
  have key := rec_break_iff _ (orSpec_lt8 b.info (e - s) s) (contains b.flags Gen.Buf.produceSafeToInsertTatweel)
    (!contains b.flags Gen.Buf.produceUnsafeToConcat)
  constructor
  · intro h
    rcases key.mp h with h | ⟨hf, h⟩
    · obtain ⟨k, y, a1, a2, a3, a4⟩ := hb1.mp h
      exact ⟨k, y, a1, a2, a3, Or.inl a4⟩
    · obtain ⟨k, y, a1, a2, a3, a4⟩ := hb4.mp h
      exact ⟨k, y, a1, a2, a3, Or.inr ⟨hf, a4⟩⟩
  · rintro ⟨k, y, a1, a2, a3, a4⟩
    apply key.mpr
    rcases a4 with a4 | ⟨hf, a4⟩
    · exact Or.inl (hb1.mpr ⟨k, y, a1, a2, a3, a4⟩)
    · exact Or.inr ⟨hf, hb4.mpr ⟨k, y, a1, a2, a3, a4⟩⟩

example : ∃ b : Buf, b.len ≤ b.info.length ∧ b.scratch &&& SCRATCH_HAS_GLYPH_FLAGS ≠ 0 :=
  ⟨{ info := [{ mask := 3 }, {}], len := 2, scratch := 0x20 }, by decide, by decide⟩

/-! ### the Arabic shaper's `stch` post-processing (apply_stch, model Stch.lean) -/

open RbModel.Stch in
/-- **which span apply_stch flags.**  When the part of the buffer still to be processed ends in a tile, the routine looks at
    `[tileStart, length)` = the maximal run of tiles at its end and `[wordStart, tileStart)` = the maximal run, in front of the
    tiles, of glyphs that are no tiles and are default ignorable or of a word category (in a right-to-left buffer: the
    characters that follow the stretching mark in the text).  The advances of exactly these word glyphs decide how many copies
    of the repeating tiles are made (`cut`), so they are what the tiles depend on. -/
theorem C03_stch_span (l : List G) (last : G) (hl : l.getLast? = some last) (hs : last.isStch = true) :
    wordStart l ≤ tileStart l ∧ tileStart l < l.length ∧
    (∀ q g, tileStart l ≤ q → l[q]? = some g → g.isStch = true) ∧
    (tileStart l = 0 ∨ ∃ g, l[tileStart l - 1]? = some g ∧ g.isStch = false) ∧
    (∀ q g, wordStart l ≤ q → q < tileStart l → l[q]? = some g → g.isWord = true) ∧
    (wordStart l = 0 ∨ ∃ g, l[wordStart l - 1]? = some g ∧ g.isWord = false) :=
  span_spec l last hl hs

open RbModel.Stch in
/-- **the flag call of apply_stch** (`buffer.unsafe_to_break(Some(context), Some(end))` on clusters monotone over the span, as
    they are after shaping): no panic; with `m` the minimum cluster of `[s, length)` — the stretching mark's own cluster — every
    glyph of the span whose cluster differs from `m` gets `mask |= UNSAFE_TO_BREAK | UNSAFE_TO_CONCAT`, every other glyph and
    every other field is untouched.  All three cluster levels, every length, every mask content. -/
theorem C03_stch_flag_call (level : Nat) (l : List G) (s : Nat) (hs : s < l.length)
    (hu32 : ∀ q g, s ≤ q → l[q]? = some g → g.cluster ≤ U32MAX)
    (hmono : MonoRange (l.map G.toInfo) s l.length) :
    ∃ l' m, flagRange level l s l.length = .ok l' ∧ IsRangeMin (l.map G.toInfo) s l.length m ∧ l'.length = l.length ∧
      ∀ q g, l[q]? = some g →
        l'[q]? = some (if s ≤ q ∧ g.cluster ≠ m then { g with mask := g.mask ||| (Flag.UNSAFE_TO_BREAK ||| Flag.UNSAFE_TO_CONCAT) }
                       else g) := by
  have hu : ∀ j x, s ≤ j → j < l.length → (l.map G.toInfo)[j]? = some x → x.cluster ≤ U32MAX := by
    intro j x h1 _ hx
    rw [List.getElem?_map] at hx
    cases hg : l[j]? with
    | none => simp [hg] at hx
    | some g =>
      simp only [hg, Option.map_some, Option.some.injEq] at hx
      subst hx
      exact hu32 j g h1 hg
  obtain ⟨b', m, hr, hmin, hupd, _⟩ :=
    C03_interior ({ info := l.map G.toInfo, len := l.length, level := level } : Buf) s l.length hs (Nat.le_refl _)
      (by simp) hu hmono
  have hlen' : b'.info.length = l.length := by rw [hupd.1]; simp
  refine ⟨List.zipWith (fun g x => { g with mask := x.mask }) l b'.info, m, ?_, hmin, ?_, ?_⟩
  · simp only [flagRange, hr]; rfl
  · simp [hlen']
  · intro q g hg
    have hql : q < l.length := (List.getElem?_eq_some_iff.mp hg).1
    have h2 := hupd.2 q
    simp only [List.getElem?_map, hg, Option.map_some] at h2
    rw [List.getElem?_zipWith, hg, h2]
    by_cases hc : s ≤ q ∧ g.cluster ≠ m
    · have : s ≤ q ∧ q < l.length ∧ neCl m g.toInfo = true := ⟨hc.1, hql, by simpa [neCl, G.toInfo] using hc.2⟩
      rw [if_pos this, if_pos hc]
      rfl
    · have : ¬ (s ≤ q ∧ q < l.length ∧ neCl m g.toInfo = true) := by
        intro h; exact hc ⟨h.1, by simpa [neCl, G.toInfo] using h.2.2⟩
      rw [if_neg this, if_neg hc]
      rfl

open RbModel.Stch in
/-- **apply_stch flags everything the tiles depend on.**  One iteration of the CUT pass on a buffer part `l` that ends in a tile,
    clusters monotone over the span `[wordStart l, length)` (every direction, every cluster level, every mask content, any
    advances): no panic in the flag call; the pass continues on the flagged array `l'` — the tiles that are copied out are those
    of `l'`, and the word glyphs, still to be copied, are those of `l'` — and in `l'` EVERY glyph of the word and of the tile run
    whose cluster differs from the span's minimum cluster `m` (the stretching mark's own cluster) carries
    UNSAFE_TO_BREAK | UNSAFE_TO_CONCAT; nothing else changed.  So every cluster boundary between the mark and the end of its
    word — the glyphs whose advances decide the number and the offsets of the tiles — is flagged unsafe to break. -/
theorem C03_stch_flags (rtl : Bool) (level fuel : Nat) (l : List G) (last : G) (hl : l.getLast? = some last)
    (hs : last.isStch = true)
    (hu32 : ∀ q g, wordStart l ≤ q → l[q]? = some g → g.cluster ≤ U32MAX)
    (hmono : MonoRange (l.map G.toInfo) (wordStart l) l.length) :
    ∃ (l' : List G) (m : Nat) (n o w : Int),
      cut rtl level (fuel + 1) l =
        (cut rtl level fuel (l'.take (tileStart l)) >>= fun rest =>
          pure (rest ++ (emit rtl n o (l'.drop (tileStart l)).reverse w).reverse)) ∧
      l'.length = l.length ∧ IsRangeMin (l.map G.toInfo) (wordStart l) l.length m ∧
      ∀ q g, l[q]? = some g →
        l'[q]? = some (if wordStart l ≤ q ∧ g.cluster ≠ m
                       then { g with mask := g.mask ||| (Flag.UNSAFE_TO_BREAK ||| Flag.UNSAFE_TO_CONCAT) } else g) := by
  obtain ⟨hw, ht, _⟩ := span_spec l last hl hs
  obtain ⟨l', m, hr, hmin, hlen, hpt⟩ := C03_stch_flag_call level l (wordStart l) (by omega) hu32 hmono
  have hns : (!last.isStch) = false := by simp [hs]
  rcases hfit : fit (sumBy (·.adv) ((l.take (tileStart l)).drop (wordStart l)))
      (sumBy (·.width) ((l.drop (tileStart l)).filter (·.act == 1)))
      (sumBy (·.width) ((l.drop (tileStart l)).filter (·.act != 1)))
      (((l.drop (tileStart l)).filter (·.act != 1)).length : Int) with ⟨n, o, w⟩
  refine ⟨l', m, n, o, w.tdiv 2, ?_, hlen, hmin, hpt⟩
  simp only [cut, hl, hns, Bool.false_eq_true, if_false, hfit, hr]
  rfl

example : ∃ (l : List Stch.G) (last : Stch.G), l.getLast? = some last ∧ last.isStch = true ∧
    (∀ q g, Stch.wordStart l ≤ q → l[q]? = some g → g.cluster ≤ U32MAX) ∧
    MonoRange (l.map Stch.G.toInfo) (Stch.wordStart l) l.length := by
  refine ⟨[{ gid := 1, cluster := 1, word := true, adv := 500 }, { gid := 2, act := 1, width := 100 }],
          { gid := 2, act := 1, width := 100 }, rfl, rfl, ?_, Or.inr ?_⟩
  · intro q g _ hg
    have hq : q = 0 ∨ q = 1 := by
      have := (List.getElem?_eq_some_iff.mp hg).1; simp at this; omega
    rcases hq with h | h <;> subst h <;> simp at hg <;> subst hg <;> decide
  · intro i j x y _ hij hj hx hy
    have hj' : j < 2 := by simpa using hj
    have : (i = 0 ∧ j = 0) ∨ (i = 0 ∧ j = 1) ∨ (i = 1 ∧ j = 1) := by omega
    rcases this with ⟨h1, h2⟩ | ⟨h1, h2⟩ | ⟨h1, h2⟩ <;> subst h1 <;> subst h2 <;> simp at hx hy <;> subst hx <;> subst hy <;> decide

/-- the whole routine on a closed instance, as the crate answers the same request (`stch` stream): right-to-left buffer
    <word glyph (cluster 1, advance 500)> <fixed 100> <repeating 60> <fixed 80> (cluster 0): the word glyph gets
    UNSAFE_TO_BREAK | UNSAFE_TO_CONCAT, the repeating tile is written 6 times with overlap 8 -/
theorem C03_stch_witness :
    (Stch.applyStch true 0
      [{ gid := 1, cluster := 1, word := true, adv := 500, width := 500 }, { gid := 2, act := 1, width := 100 },
       { gid := 3, act := 2, width := 60 }, { gid := 4, act := 1, width := 80 }]).map
      (fun r => r.map (fun g => (g.gid, g.cluster, g.mask, g.adv, g.xoff)))
      = .ok [(1, 1, 3, 500, 0), (2, 0, 0, 0, -500), (3, 0, 0, 0, -400), (3, 0, 0, 0, -348), (3, 0, 0, 0, -296),
             (3, 0, 0, 0, -244), (3, 0, 0, 0, -192), (3, 0, 0, 0, -140), (4, 0, 0, 0, -80)] := by rfl

/-! ### the Hangul shaper's text pre-processing (HangulBuf.lean: preprocess_text_hangul on the buffer model, masks included;
    tied to the crate by the `hangul-pre-flags` stream)

  Whenever the decision for a syllable depends on a character of ANOTHER cluster, the branch starts with a flag call over
  the characters it looked at: `<LV, T>` that cannot be one glyph — LV is decomposed only BECAUSE a trailing jamo follows
  (`C03_hangul_decomposition_flagged`); `<L, V, T?>` composed or tagged as one syllable (`C03_hangul_conjoining_flagged`); a
  tone mark that is moved in front of the syllable before it (`C03_hangul_tone_flagged`: the syllable's glyphs; the mark
  itself is a grapheme continuation, merged at level 0 and flagged by the cluster formation at level 1).  The flag calls are
  the `unsafe_to_break` / `unsafe_to_break_from_outbuffer` of Buf.lean (`C03_interior`, `C03_interior_out`): every glyph of
  the span outside its minimum cluster is flagged, nothing else changes; what follows in the branch (`decomposeS`, `lvTail`,
  `toneTail`) copies glyph records with their masks (`replace_glyphs`, `next_glyph`) or merges the clusters
  (`merge_out_clusters`). -/

open RbModel.HangulBuf in
/-- **the flag call between LV and T** (`buffer.unsafe_to_break(idx, idx + 2)`): no panic; of the two glyphs the one with the
    LARGER cluster value gets `mask |= UNSAFE_TO_BREAK | UNSAFE_TO_CONCAT` (none if they share a cluster), nothing else in the
    buffer changes.  Every level, both cluster orders, every mask content. -/
theorem C03_hangul_flag_call (b : Buf) (x0 x1 : Info) (h2 : b.idx + 2 ≤ b.len) (hlen : b.len ≤ b.info.length)
    (hx0 : b.info[b.idx]? = some x0) (hx1 : b.info[b.idx + 1]? = some x1)
    (hu0 : x0.cluster ≤ U32MAX) (hu1 : x1.cluster ≤ U32MAX) :
    ∃ b', flagLVandT b = .ok b' ∧ b' = { b with info := b'.info, scratch := b'.scratch } ∧
      b'.info.length = b.info.length ∧
      (∀ j, j ≠ b.idx → j ≠ b.idx + 1 → b'.info[j]? = b.info[j]?) ∧
      b'.info[b.idx]? = some (if x1.cluster < x0.cluster then orMask (Flag.UNSAFE_TO_BREAK ||| Flag.UNSAFE_TO_CONCAT) x0 else x0) ∧
      b'.info[b.idx + 1]? = some (if x0.cluster < x1.cluster then orMask (Flag.UNSAFE_TO_BREAK ||| Flag.UNSAFE_TO_CONCAT) x1 else x1) := by
  have hu : ∀ j x, b.idx ≤ j → j < b.idx + 2 → b.info[j]? = some x → x.cluster ≤ U32MAX := by
    intro j x hj1 hj2 hx
    have : j = b.idx ∨ j = b.idx + 1 := by omega
    rcases this with rfl | rfl
    · rw [hx0] at hx; cases hx; exact hu0
    · rw [hx1] at hx; cases hx; exact hu1
  obtain ⟨b', m, hr, ⟨hlb, jm, xm, hjm1, hjm2, hxm, hcm⟩, hupd, hb'⟩ :=
    C03_interior b b.idx (b.idx + 2) (by omega) h2 hlen hu (monoRange_pair b.info b.idx x0 x1 hx0 hx1)
  have hm0 : m ≤ x0.cluster := hlb b.idx x0 (Nat.le_refl _) (by omega) hx0
  have hm1 : m ≤ x1.cluster := hlb (b.idx + 1) x1 (by omega) (by omega) hx1
  have hmin : m = x0.cluster ∨ m = x1.cluster := by
    have : jm = b.idx ∨ jm = b.idx + 1 := by omega
    rcases this with rfl | rfl
    · rw [hx0] at hxm; cases hxm; exact Or.inl hcm.symm
    · rw [hx1] at hxm; cases hxm; exact Or.inr hcm.symm
  refine ⟨b', hr, hb', hupd.1, ?_, ?_, ?_⟩
  · intro j hj0 hj1
    rw [hupd.2 j]
    cases hy : b.info[j]? with
    | none => rfl
    | some y =>
      have : ¬ (b.idx ≤ j ∧ j < b.idx + 2 ∧ neCl m y = true) := by omega
      simp [this]
  · rw [hupd.2 b.idx, hx0]
    simp only [Option.map_some, Option.some.injEq]
    by_cases hc : x1.cluster < x0.cluster
    · have : neCl m x0 = true := by simp [neCl]; omega
      simp [this, hc]
    · have : neCl m x0 = false := by simp [neCl]; omega
      simp [this, hc]
  · rw [hupd.2 (b.idx + 1), hx1]
    simp only [Option.map_some, Option.some.injEq]
    by_cases hc : x0.cluster < x1.cluster
    · have : neCl m x1 = true := by simp [neCl]; omega
      simp [this, hc]
    · have : neCl m x1 = false := by simp [neCl]; omega
      simp [this, hc]


example : ∃ (b : Buf) (x0 x1 : Info), b.idx + 2 ≤ b.len ∧ b.len ≤ b.info.length ∧ b.info[b.idx]? = some x0 ∧
    b.info[b.idx + 1]? = some x1 ∧ x0.cluster ≤ U32MAX ∧ x1.cluster ≤ U32MAX :=
  ⟨{ info := [{ gid := 0xAC00 }, { gid := 0x11A8, cluster := 1 }], len := 2 }, { gid := 0xAC00 }, { gid := 0x11A8, cluster := 1 },
    by decide, by decide, rfl, rfl, by decide, by decide⟩

open RbModel.HangulBuf RbModel.Hangul in
/-- **LV decomposed because a trailing jamo follows ⇒ LV | T flagged.**  `cur(0)` is an LV syllable the font maps, `cur(1)` a
    trailing jamo (combining U+11A8..11C2 or old Hangul), the font has the L and V jamo and cannot render the pair as one LVT
    glyph: the `is_combined_s` branch is `decomposeS` run on the buffer `b'` the flag call leaves — LV alone would have stayed
    LV — and in `b'` the T (ascending clusters; the LV in a reversed buffer) carries UNSAFE_TO_BREAK unless both share one
    cluster.  For every buffer, position, cluster level and font. -/
theorem C03_hangul_decomposition_flagged (c : Hangul.Cfg) (b : Buf) (x0 x1 : Info) (h2 : b.idx + 2 ≤ b.len)
    (hlen : b.len ≤ b.info.length) (hx0 : b.info[b.idx]? = some x0) (hx1 : b.info[b.idx + 1]? = some x1)
    (hu0 : x0.cluster ≤ U32MAX) (hu1 : x1.cluster ≤ U32MAX)
    (hlv : (sIndices x0.gid).2.2 = 0) (ht : isT x1.gid = true)
    (hS : c.has x0.gid = true) (hj : hasJamo c x0.gid = true)
    (hno : (isCombiningT x1.gid && c.has (x0.gid + (x1.gid - Gen.Hangul.TBase))) = false) :
    ∃ b', flagLVandT b = .ok b' ∧ stepS c b x0.gid = decomposeS c b' x0.gid ∧
      b' = { b with info := b'.info, scratch := b'.scratch } ∧ b'.info.length = b.info.length ∧
      (∀ j, j ≠ b.idx → j ≠ b.idx + 1 → b'.info[j]? = b.info[j]?) ∧
      b'.info[b.idx]? = some (if x1.cluster < x0.cluster then orMask (Flag.UNSAFE_TO_BREAK ||| Flag.UNSAFE_TO_CONCAT) x0 else x0) ∧
      b'.info[b.idx + 1]? = some (if x0.cluster < x1.cluster then orMask (Flag.UNSAFE_TO_BREAK ||| Flag.UNSAFE_TO_CONCAT) x1 else x1) := by
  obtain ⟨b', hr, h1, h3, h4, h5, h6⟩ := C03_hangul_flag_call b x0 x1 h2 hlen hx0 hx1 hu0 hu1
  refine ⟨b', hr, ?_, h1, h3, h4, h5, h6⟩
  have h := stepS_LV_T c b x0 x1 h2 hx1 hlv ht hS hj hno
  rw [hr, hb_ok_bind] at h
  exact h


example : ∃ (c : Hangul.Cfg) (b : Buf) (x0 x1 : Info), b.idx + 2 ≤ b.len ∧ b.len ≤ b.info.length ∧
    b.info[b.idx]? = some x0 ∧ b.info[b.idx + 1]? = some x1 ∧ (HangulBuf.sIndices x0.gid).2.2 = 0 ∧ Hangul.isT x1.gid = true ∧
    c.has x0.gid = true ∧ HangulBuf.hasJamo c x0.gid = true ∧
    (Hangul.isCombiningT x1.gid && c.has (x0.gid + (x1.gid - Gen.Hangul.TBase))) = false :=
  ⟨lvFont, { info := [{ gid := 0xAC00 }, { gid := 0x11A8, cluster := 1 }], len := 2 }, { gid := 0xAC00 },
    { gid := 0x11A8, cluster := 1 }, by decide, by decide, rfl, rfl, by decide, by decide, by decide, by decide, by decide⟩

/-- the whole routine on closed instances, as the crate answers the same requests (`hangul prem 1 0 …`): level 1, font with
    U+AC00, U+1100, U+1161, U+11A8, U+11C3 and no LVT syllable: `<AC00, 11A8>` and `<AC00, 11C3>` come out as three tagged
    jamo, the T in its own cluster WITH the flags; `<AC00>` alone stays the precomposed glyph -/
theorem C03_hangul_decomposition_witness :
    HangulBuf.preprocess lvFont [(0xAC00, 0), (0x11A8, 1)] = .ok [(0x1100, 0, 1, 0), (0x1161, 0, 2, 0), (0x11A8, 1, 3, 3)] ∧
    HangulBuf.preprocess lvFont [(0xAC00, 0), (0x11C3, 1)] = .ok [(0x1100, 0, 1, 0), (0x1161, 0, 2, 0), (0x11C3, 1, 3, 3)] ∧
    HangulBuf.preprocess lvFont [(0xAC00, 0)] = .ok [(0xAC00, 0, 0, 0)] := by
  refine ⟨?_, ?_, ?_⟩ <;> rfl


open RbModel.HangulBuf in
/-- `<L,V,T?>`: the branch starts with `unsafe_to_break(idx, idx + offset)` over the two or three jamo -/
theorem C03_hangul_conjoining_flagged (c : Hangul.Cfg) (b : Buf) (l v t off : Nat)
    (ht : trailing b = .ok t) (hoff : off = if t != 0 then 3 else 2)
    (h2 : b.idx + off ≤ b.len) (hlen : b.len ≤ b.info.length)
    (hu32 : ∀ j x, b.idx ≤ j → j < b.idx + off → b.info[j]? = some x → x.cluster ≤ U32MAX)
    (hmono : MonoRange b.info b.idx (b.idx + off)) :
    ∃ b' m, flagLVT b off = .ok b' ∧ stepLV c b l v = lvTail c b' l v t ∧
      IsRangeMin b.info b.idx (b.idx + off) m ∧
      Upd b.info b'.info b.idx (b.idx + off) (neCl m) (orMask (Flag.UNSAFE_TO_BREAK ||| Flag.UNSAFE_TO_CONCAT)) ∧
      b' = { b with info := b'.info, scratch := b'.scratch } := by
  have ho : 0 < off := by rw [hoff]; split <;> omega
  obtain ⟨b', m, hr, hmin, hupd, hb'⟩ := C03_interior b b.idx (b.idx + off) (by omega) h2 hlen hu32 hmono
  refine ⟨b', m, hr, ?_, hmin, hupd, hb'⟩
  unfold stepLV
  rw [ht, hb_ok_bind, ← hoff]
  have hr' : flagLVT b off = .ok b' := hr
  rw [hr', hb_ok_bind]


example : ∃ (b : Buf) (t off : Nat), HangulBuf.trailing b = .ok t ∧ (off = if t != 0 then 3 else 2) ∧ b.idx + off ≤ b.len ∧
    b.len ≤ b.info.length :=
  ⟨{ info := [{ gid := 0x1100 }, { gid := 0x1161, cluster := 1 }, { gid := 0x11A8, cluster := 2 }], len := 3 }, 0x11A8, 3,
    rfl, rfl, by decide, by decide⟩

open RbModel.HangulBuf in
/-- tone mark after a valid syllable `out[start, out_len)`: the branch starts with
    `unsafe_to_break_from_outbuffer(start, idx)` over the syllable's glyphs -/
theorem C03_hangul_tone_flagged (c : Hangul.Cfg) (st : HangulBuf.St) (u : Nat)
    (hsyl : st.start < st.end_) (hend : st.end_ = st.b.outLen)
    (hho : st.b.haveOutput = true) (hol : st.b.outLen ≤ st.b.outArr.length)
    (hie : st.b.idx ≤ st.b.len) (hlen : st.b.len ≤ st.b.info.length)
    (hu1 : ∀ j x, st.start ≤ j → j < st.b.outLen → st.b.outArr[j]? = some x → x.cluster ≤ U32MAX)
    (hmo : MonoRange st.b.outArr st.start st.b.outLen) :
    ∃ b' m o1, flagTone st.b st.start = .ok b' ∧ stepTone c st u = toneTail c b' st.start st.end_ u ∧
      IsRangeMin st.b.outArr st.start st.b.outLen m ∧
      Upd st.b.outArr o1 st.start st.b.outLen (neCl m) (orMask (Flag.UNSAFE_TO_BREAK ||| Flag.UNSAFE_TO_CONCAT)) ∧
      b'.outArr = o1 ∧ b'.idx = st.b.idx ∧ b'.outLen = st.b.outLen ∧ b'.len = st.b.len := by
  have hs : st.start ≤ st.b.outLen := by omega
  have hu2 : ∀ j x, st.b.idx ≤ j → j < st.b.idx → st.b.info[j]? = some x → x.cluster ≤ U32MAX := by
    intro j x h1 h2; omega
  have hmi : MonoRange st.b.info st.b.idx st.b.idx := by
    left; intro i j x y h1 h2 h3; omega
  obtain ⟨b', m, o1, hr, hlb, _, hex, hup1, hup2, hout, hb'⟩ :=
    C03_interior_out st.b st.start st.b.idx hho hs hol (Nat.le_refl _) hie hlen hu1 hu2 (Or.inl (by omega)) hmo hmi
  have hmin : IsRangeMin st.b.outArr st.start st.b.outLen m := by
    refine ⟨hlb, ?_⟩
    rcases hex with h | ⟨j, x, h1, h2, _⟩
    · exact h
    · omega
  have hinfo : b'.info = (if st.b.sepOut then st.b.info else o1) := by
    apply List.ext_getElem?
    intro j
    rw [hup2.2 j]
    cases hy : (if st.b.sepOut then st.b.info else o1)[j]? with
    | none => rfl
    | some y =>
      have : ¬ (st.b.idx ≤ j ∧ j < st.b.idx ∧ neCl m y = true) := by omega
      simp [this]
  refine ⟨b', m, o1, hr, ?_, hmin, hup1, ?_, by rw [hb'], by rw [hb'], by rw [hb']⟩
  · unfold stepTone
    have hc : (decide (st.start < st.end_) && st.end_ == st.b.outLen) = true := by
      simp only [hend, beq_self_eq_true, Bool.and_true, decide_eq_true_eq]; omega
    simp only [hc, if_true]
    have hr' : flagTone st.b st.start = .ok b' := hr
    rw [hr', hb_ok_bind]
  · have hsep : b'.sepOut = st.b.sepOut := by rw [hb']
    unfold Buf.outArr
    rw [hsep]
    by_cases hso : st.b.sepOut = true
    · simp [hso, hout]
    · have : st.b.sepOut = false := by simpa using hso
      simp [this, hinfo]

example : ∃ (st : HangulBuf.St), st.start < st.end_ ∧ st.end_ = st.b.outLen ∧ st.b.haveOutput = true ∧
    st.b.outLen ≤ st.b.outArr.length ∧ st.b.idx ≤ st.b.len ∧ st.b.len ≤ st.b.info.length :=
  ⟨{ b := { info := [{ gid := 0xAC00 }, { gid := 0x302E, cluster := 1 }], len := 2, idx := 1, outLen := 1, haveOutput := true },
     start := 0, end_ := 1 }, by decide, rfl, rfl, by decide, by decide, by decide⟩

/-! ### renamed glyphs: who carries the flags afterwards -/

/-- **set_cluster(info, cluster, mask)**: a glyph whose cluster value does not change keeps its whole mask; a glyph that is
    renamed keeps every non-flag bit of its mask and exposes exactly the flag bits of `mask` — its own flags are gone. -/
theorem C03_set_cluster_flags (x : Info) (c mask : Nat) :
    (Buf.setCluster x c mask).cluster = c ∧
    (x.cluster = c → Buf.setCluster x c mask = x) ∧
    (x.cluster ≠ c →
      exposed (Buf.setCluster x c mask) = mask &&& Flag.DEFINED ∧
      (Buf.setCluster x c mask).mask &&& (U32MAX - Flag.DEFINED) = x.mask &&& (U32MAX - Flag.DEFINED) ∧
      Buf.setCluster x c mask = { x with cluster := c, mask := (Buf.setCluster x c mask).mask }) := by
  refine ⟨rfl, Buf.setCluster_same x c mask, ?_⟩
  intro h
  rw [Buf.setCluster_ne x c mask h]
  exact ⟨Buf.renamed_flags _ _, Buf.renamed_rest _ _, rfl⟩

/-- **delete_glyph, "Merge cluster backward"** (the state of a buffer that is shaped reversed: clusters descend).  The current
    glyph `cur` is alone in its cluster (the next glyph has another cluster value) and the last glyph `p` of the out-buffer has
    a LARGER cluster value.  Then: no panic; the maximal run `[k, out_len)` of the out-buffer with `p`'s cluster value is
    renamed to `cur`'s cluster, every glyph of it keeps its non-flag mask bits and carries EXACTLY the glyph flags of the
    deleted glyph (`mask = (mask & !DEFINED) | (cur.mask & DEFINED)`); every other entry of the out-buffer (and, in shared
    mode, of `info`) is untouched; the glyph is skipped.  So an UNSAFE_TO_BREAK / UNSAFE_TO_CONCAT that sat on the deleted
    glyph is still exposed by the cluster that took its place.  Both output modes, every level, every length. -/
theorem C03_delete_backward_carries_flags (b : Buf) (hwf : Buf.WF b) (hcur : b.idx < b.len) (ho : b.outLen ≠ 0)
    (cur p : Info) (hc : b.info[b.idx]? = some cur) (hp : b.outArr[b.outLen - 1]? = some p)
    (hnext : ∀ nx, b.idx + 1 < b.len → b.info[b.idx + 1]? = some nx → nx.cluster ≠ cur.cluster)
    (hlt : cur.cluster < p.cluster) :
    ∃ o k, b.deleteGlyph = .ok (b.setOutArr o).skipGlyph ∧ k < b.outLen ∧ o.length = b.outArr.length ∧
      (∀ q, k ≤ q → q < b.outLen → ∃ x, b.outArr[q]? = some x ∧ x.cluster = p.cluster ∧
          o[q]? = some { x with cluster := cur.cluster,
                                mask := (x.mask &&& (U32MAX - Flag.DEFINED)) ||| (cur.mask &&& Flag.DEFINED) }) ∧
      (∀ q, ¬ (k ≤ q ∧ q < b.outLen) → o[q]? = b.outArr[q]?) ∧
      (k = 0 ∨ Buf.cl? b.outArr (k - 1) ≠ some p.cluster) ∧
      (∀ q x', k ≤ q → q < b.outLen → o[q]? = some x' → x'.cluster = cur.cluster ∧ exposed x' = exposed cur) := by
  have hlen := hwf.len_le
  have hcap := hwf.out_cap
  have hi : b.idx < b.info.length := by omega
  have hpl : b.outLen - 1 < b.outArr.length := by omega
  have hcur' : b.info[b.idx] = cur := by
    have := List.getElem?_eq_getElem hi; rw [this] at hc; exact Option.some.inj hc
  have hp' : b.outArr[b.outLen - 1] = p := by
    have := List.getElem?_eq_getElem hpl; rw [this] at hp; exact Option.some.inj hp
  have hnx : ∀ h : b.idx + 1 < b.info.length, b.idx + 1 < b.len → b.info[b.idx].cluster ≠ b.info[b.idx + 1].cluster := by
    intro h hn heq
    exact hnext b.info[b.idx + 1] hn (List.getElem?_eq_getElem h) (by rw [← heq, hcur'])
  have heq := Buf.deleteGlyph_backward b hwf hcur ho hi hpl hnx (by rw [hcur', hp']; exact hlt)
  rw [hcur', hp'] at heq
  obtain ⟨o, k, hr, hk, holen, hoq, hrun, hstop⟩ :=
    Buf.relabelOutBack_spec p.cluster cur.cluster cur.mask b.outLen b.outArr hcap
  have hk1 : k < b.outLen := by
    rcases hstop with h | h
    · omega
    · by_cases h2 : k < b.outLen
      · exact h2
      · exfalso
        have : k = b.outLen := by omega
        rw [this] at h
        exact h (Buf.cl?_of_get hp)
  have hin : ∀ q, k ≤ q → q < b.outLen → ∃ x, b.outArr[q]? = some x ∧ x.cluster = p.cluster ∧
      o[q]? = some { x with cluster := cur.cluster,
                            mask := (x.mask &&& (U32MAX - Flag.DEFINED)) ||| (cur.mask &&& Flag.DEFINED) } := by
    intro q h1 h2
    have hql : q < b.outArr.length := by omega
    have hxq : b.outArr[q]? = some b.outArr[q] := List.getElem?_eq_getElem hql
    have hcl : b.outArr[q].cluster = p.cluster := by
      have := hrun q h1 h2
      rw [Buf.cl?_lt hql] at this
      exact Option.some.inj this
    refine ⟨b.outArr[q], hxq, hcl, ?_⟩
    rw [hoq q, if_pos ⟨h1, h2⟩, hxq]
    simp only [Option.map_some]
    rw [Buf.setCluster_ne _ _ _ (by rw [hcl]; omega)]
  refine ⟨o, k, by rw [heq, hr]; rfl, hk1, holen, hin, ?_, hstop, ?_⟩
  · intro q hq
    rw [hoq q, if_neg hq]
  · intro q x' h1 h2 hx'
    obtain ⟨x, _, _, hox⟩ := hin q h1 h2
    rw [hox] at hx'
    have := Option.some.inj hx'
    subst this
    exact ⟨rfl, Buf.renamed_flags _ _⟩

example : ∃ (b : Buf) (cur p : Info), Buf.WF b ∧ b.idx < b.len ∧ b.outLen ≠ 0 ∧ b.info[b.idx]? = some cur ∧
    b.outArr[b.outLen - 1]? = some p ∧
    (∀ nx, b.idx + 1 < b.len → b.info[b.idx + 1]? = some nx → nx.cluster ≠ cur.cluster) ∧ cur.cluster < p.cluster := by
  refine ⟨{ info := [{ gid := 3, cluster := 2 }, { gid := 2, cluster := 1, mask := 3 }, { gid := 1, cluster := 0 }],
            len := 3, idx := 1, outLen := 1, haveOutput := true },
          { gid := 2, cluster := 1, mask := 3 }, { gid := 3, cluster := 2 },
          ⟨by decide, by decide, by simp, by decide⟩, by decide, by decide, rfl, rfl, ?_, by decide⟩
  intro nx _ h
  simp at h
  subst h
  decide

/-- the seeded situation as a closed instance: text a b c shaped right-to-left is c(2) b(1) a(0); b carries BREAK|CONCAT and is
    deleted after c went to the out-buffer: c is renamed to cluster 1 and exposes b's flags -/
theorem C03_delete_backward_witness :
    (({ info := [{ gid := 3, cluster := 2 }, { gid := 2, cluster := 1, mask := 3 }, { gid := 1, cluster := 0 }],
        len := 3, idx := 1, outLen := 1, haveOutput := true } : Buf).deleteGlyph).map
      (fun b => (b.info.map (fun x => (x.cluster, exposed x)), b.idx, b.outLen))
      = .ok ([(1, 3), (1, 3), (0, 0)], 2, 1) := by rfl

/-- **delete_glyphs_inplace, "Merge cluster backward"** (what `hide_default_ignorables` runs after positioning, i.e. after the
    final reversal of a right-to-left run: clusters descend).  One iteration of its loop, read head `i`, write head `j`
    (`[0, j)` = the glyphs kept so far): the glyph `x = info[i]` is to be deleted (`var2 = 1` is the filter of the model), is
    alone in its cluster (the next glyph has another cluster value) and the last kept glyph `p = info[j-1]` has a LARGER cluster
    value.  Then the iteration does not panic and continues with read head `i + 1`, the SAME write head and an `info` array in
    which the maximal run `[k, j)` of kept glyphs with `p`'s cluster value is renamed to `x`'s cluster, keeps its non-flag mask
    bits and carries EXACTLY the glyph flags of the deleted glyph `x` — not those of `p`, not none; every other entry is
    untouched.  For every buffer, every position, every level, every mask content. -/
theorem C03_delin_backward_carries_flags (b : Buf) (i j fuel : Nat) (x p : Info) (hi : i < b.len)
    (hlen : b.len ≤ b.info.length) (hji : j ≤ i) (hj : j ≠ 0)
    (hx : b.info[i]? = some x) (hdel : x.var2 = 1) (hp : b.info[j - 1]? = some p)
    (hnext : ∀ nx, i + 1 < b.len → b.info[i + 1]? = some nx → nx.cluster ≠ x.cluster)
    (hlt : x.cluster < p.cluster) :
    ∃ info k, Buf.deleteGlyphsInplace.loop b i j (fuel + 1) = Buf.deleteGlyphsInplace.loop { b with info := info } (i + 1) j fuel ∧
      k < j ∧ info.length = b.info.length ∧
      (∀ q, k ≤ q → q < j → ∃ y, b.info[q]? = some y ∧ y.cluster = p.cluster ∧
          info[q]? = some { y with cluster := x.cluster,
                                   mask := (y.mask &&& (U32MAX - Flag.DEFINED)) ||| (x.mask &&& Flag.DEFINED) }) ∧
      (∀ q, ¬ (k ≤ q ∧ q < j) → info[q]? = b.info[q]?) ∧
      (k = 0 ∨ Buf.cl? b.info (k - 1) ≠ some p.cluster) ∧
      (∀ q y', k ≤ q → q < j → info[q]? = some y' → y'.cluster = x.cluster ∧ exposed y' = exposed x) :=
  Buf.delin_backward_carries b i j fuel x p hi hlen hji hj hx hdel hp hnext hlt

example : ∃ (b : Buf) (i j : Nat) (x p : Info), i < b.len ∧ b.len ≤ b.info.length ∧ j ≤ i ∧ j ≠ 0 ∧ b.info[i]? = some x ∧
    x.var2 = 1 ∧ b.info[j - 1]? = some p ∧
    (∀ nx, i + 1 < b.len → b.info[i + 1]? = some nx → nx.cluster ≠ x.cluster) ∧ x.cluster < p.cluster := by
  refine ⟨{ info := [{ gid := 3, cluster := 3 }, { gid := 2, cluster := 2 }, { gid := 0, cluster := 1, mask := 2, var2 := 1 },
                     { gid := 1, cluster := 0, mask := 2 }], len := 4 }, 2, 2,
          { gid := 0, cluster := 1, mask := 2, var2 := 1 }, { gid := 2, cluster := 2 }, by decide, by decide, by decide, by decide,
          rfl, rfl, rfl, ?_, by decide⟩
  intro nx _ h
  simp at h
  subst h
  decide

/-- the seeded situation as a closed instance of the whole routine: Hebrew ALEF ZWNJ BET LAMED, right to left, the buffer after
    the final reversal is LAMED(3) BET(2) ZWNJ(1) ALEF(0); a ligature attempt ALEF + LAMED failed AT the ZWNJ, so ALEF and ZWNJ
    carry UNSAFE_TO_CONCAT; the font has no space glyph and the ZWNJ is deleted: BET takes over cluster 1 AND the ZWNJ's flag
    (reading the mask of the kept glyph instead would leave BET = 1 without the flag) -/
theorem C03_delin_backward_witness :
    (({ info := [{ gid := 3, cluster := 3 }, { gid := 2, cluster := 2 }, { gid := 0, cluster := 1, mask := 2, var2 := 1 },
                 { gid := 1, cluster := 0, mask := 2 }],
        out := [{}, {}, {}, {}], len := 4 } : Buf).deleteGlyphsInplace).map
      (fun b => ((b.info.take b.len).map (fun x => (x.gid, x.cluster, exposed x)), b.len))
      = .ok ([(3, 3, 0), (2, 1, 2), (1, 0, 2)], 3) := by rfl

/-- **delete_glyph, every other case with a non-empty out-buffer or a surviving cluster**: when the next glyph or the last
    out-buffer glyph shares the deleted glyph's cluster value ("Cluster survives") or the last out-buffer glyph has a SMALLER
    cluster value (ascending buffer: the boundary at the deleted cluster disappears), nothing but the skip happens — no
    cluster value and no mask of a kept glyph changes (in particular the deleted glyph's own flags are dropped). -/
theorem C03_delete_keeps (b : Buf) (hwf : Buf.WF b) (hcur : b.idx < b.len)
    (h : (b.idx + 1 < b.len ∧ Buf.cl? b.info (b.idx + 1) = Buf.cl? b.info b.idx) ∨
         (b.outLen ≠ 0 ∧ Buf.cl? b.outArr (b.outLen - 1) = Buf.cl? b.info b.idx) ∨
         (b.outLen ≠ 0 ∧ ∃ p c, Buf.cl? b.outArr (b.outLen - 1) = some p ∧ Buf.cl? b.info b.idx = some c ∧ p < c)) :
    b.deleteGlyph = .ok b.skipGlyph := by
  obtain ⟨b1, heq, hcase⟩ := Buf.deleteGlyph_cases b hwf hcur
  rcases hcase with ⟨hb1, _⟩ | ⟨ho, hnn, p, c, mask, hp, hc, hlt, _⟩ | ⟨ho, hn, hne, _⟩
  · rw [heq, hb1]; rfl
  · exfalso
    rcases h with h | ⟨_, h⟩ | ⟨_, p', c', hp', hc', hlt'⟩
    · exact hnn h
    · rw [hp, hc] at h; have := Option.some.inj h; omega
    · rw [hp] at hp'; rw [hc] at hc'
      have := Option.some.inj hp'; have := Option.some.inj hc'; omega
  · exfalso
    rcases h with h | ⟨h, _⟩ | ⟨h, _⟩
    · exact hne h.2
    · exact h ho
    · exact h ho

example : ∃ b : Buf, Buf.WF b ∧ b.idx < b.len ∧ b.outLen ≠ 0 ∧
    ∃ p c, Buf.cl? b.outArr (b.outLen - 1) = some p ∧ Buf.cl? b.info b.idx = some c ∧ p < c :=
  ⟨{ info := [{ cluster := 0 }, { cluster := 1 }], len := 2, idx := 1, outLen := 1, haveOutput := true },
    ⟨by decide, by decide, by simp, by decide⟩, by decide, by decide, 0, 1, rfl, rfl, by decide⟩

/-- **merge_clusters(s, e)** at levels 0 and 1 (the routine behind ligatures, the forward merge of `delete_glyph`, reordering):
    no panic, and every glyph of the logical sequence (out-buffer followed by the unconsumed input) is either untouched or
    renamed to the range's minimum cluster `m` with ALL its glyph flags cleared and every other field kept — a merge never hands
    flags on (`set_cluster(.., cluster, 0)`, as in HarfBuzz).  `C03_gen_extend_start` is the source variant this needs. -/
theorem C03_merge_renamed_no_flags (b : Buf) (s e : Nat) (hwf : Buf.WF b) (hs : b.idx ≤ s) (hse : s + 2 ≤ e) (he : e ≤ b.len)
    (hl : b.level ≠ 2) (hg : Gen.Buf.extendStartGuard = 1) :
    ∃ b' m, b.mergeClusters s e = .ok b' ∧ (Buf.lview b').length = (Buf.lview b).length ∧
      ∀ (q : Nat) (x : Info), (Buf.lview b)[q]? = some x →
        (Buf.lview b')[q]? = some x ∨
        (x.cluster ≠ m ∧ (Buf.lview b')[q]? = some { x with cluster := m, mask := x.mask &&& (U32MAX - Flag.DEFINED) }) := by
  obtain ⟨b', m, hr, _, hm⟩ := Buf.mergeClusters_isMerge b s e hwf hs hse he hl hg
  exact ⟨b', m, hr, hm.len, fun q x hx => hm.pointwise q x hx⟩

/-- the extend-start guard of `merge_clusters_impl` is HarfBuzz's (`idx < start`; generated from the source, D4) -/
theorem C03_gen_extend_start : Gen.Buf.extendStartGuard = 1 := by decide

/-- **merge_out_clusters(s, e)**: the same for the out-buffer variant -/
theorem C03_merge_out_renamed_no_flags (b : Buf) (s e : Nat) (hwf : Buf.WF b) (hse : s + 2 ≤ e) (he : e ≤ b.outLen)
    (hl : b.level ≠ 2) :
    ∃ b' m, b.mergeOutClusters s e = .ok b' ∧ (Buf.lview b').length = (Buf.lview b).length ∧
      ∀ (q : Nat) (x : Info), (Buf.lview b)[q]? = some x →
        (Buf.lview b')[q]? = some x ∨
        (x.cluster ≠ m ∧ (Buf.lview b')[q]? = some { x with cluster := m, mask := x.mask &&& (U32MAX - Flag.DEFINED) }) := by
  obtain ⟨b', m, hr, _, hm⟩ := Buf.mergeOutClusters_isMerge b s e hwf hse he hl
  exact ⟨b', m, hr, hm.len, fun q x hx => hm.pointwise q x hx⟩

example : ∃ (b : Buf) (s e : Nat), Buf.WF b ∧ b.idx ≤ s ∧ s + 2 ≤ e ∧ e ≤ b.len ∧ b.level ≠ 2 :=
  ⟨{ info := [{ cluster := 1, mask := 3 }, { cluster := 0 }], len := 2 }, 0, 2,
    ⟨by decide, by decide, by simp, by decide⟩, by decide, by decide, by decide, by decide⟩

/-- **delete_glyph, "Merge cluster forward"**: nothing was output yet and the next glyph has another cluster value — the
    routine is `merge_clusters(idx, idx + 2)` followed by the skip, so by `C03_merge_renamed_no_flags` the glyph that takes over
    the smaller cluster value carries no flags (when it is the deleted glyph that is renamed, it is dropped anyway). -/
theorem C03_delete_forward_is_merge (b : Buf) (hwf : Buf.WF b) (hcur : b.idx < b.len) (ho : b.outLen = 0)
    (hn : b.idx + 1 < b.len) (hne : Buf.cl? b.info (b.idx + 1) ≠ Buf.cl? b.info b.idx) :
    b.deleteGlyph = (b.mergeClusters b.idx (b.idx + 2) >>= fun b1 => pure b1.skipGlyph) := by
  obtain ⟨b1, heq, hcase⟩ := Buf.deleteGlyph_cases b hwf hcur
  rcases hcase with ⟨_, h⟩ | ⟨ho', _⟩ | ⟨_, _, _, hb1⟩
  · exfalso
    rcases h with h | ⟨h, _⟩ | ⟨h, _⟩ | ⟨_, h⟩
    · exact hne h.2
    · exact h ho
    · exact h ho
    · omega
  · exact absurd ho ho'
  · rw [heq, hb1]

example : ∃ b : Buf, Buf.WF b ∧ b.idx < b.len ∧ b.outLen = 0 ∧ b.idx + 1 < b.len ∧
    Buf.cl? b.info (b.idx + 1) ≠ Buf.cl? b.info b.idx :=
  ⟨{ info := [{ cluster := 1 }, { cluster := 0 }], len := 2, haveOutput := true },
    ⟨by decide, by decide, by simp, by decide⟩, by decide, rfl, by decide, by decide⟩

end RbModel.Flags

/-! ### GPOS value records and PairPos: who reports `worked`, which pairs are flagged -/
namespace RbModel.GposFlag
open RbModel RbModel.Gpos RbModel.Flags

/-- **`apply_to_pos` returns `worked = true` iff an enabled component of the record is present**: a non-zero static
    placement, a non-zero static advance on the axis of the run, or a Device / VariationIndex table on a face whose
    state (`useX` = `ppem_x != 0 || coords != 0`, `useY` likewise) makes it live — placements on either axis, advances
    on the axis of the run.  For every record, direction, face state and position. -/
theorem C03_value_worked_iff (v : ValueRecordD) (useX useY : Bool) (d : Dir) (q : Pos) :
    (valueApplyToPosD v useX useY d q).2 = true ↔
      (v.xPlacement ≠ 0 ∨ v.yPlacement ≠ 0 ∨ (d.isHorizontal = true ∧ v.xAdvance ≠ 0) ∨
       (d.isHorizontal = false ∧ v.yAdvance ≠ 0) ∨
       (useX = true ∧ v.xPlaDevice.isSome = true) ∨ (useY = true ∧ v.yPlaDevice.isSome = true) ∨
       (d.isHorizontal = true ∧ useX = true ∧ v.xAdvDevice.isSome = true) ∨
       (d.isHorizontal = false ∧ useY = true ∧ v.yAdvDevice.isSome = true)) :=
  valueApplyToPosD_worked v useX useY d q

/-- **a record that moved the glyph reports it** (whatever moved it: a static value or a device / variation delta) -/
theorem C03_value_moved_worked (v : ValueRecordD) (useX useY : Bool) (d : Dir) (q : Pos)
    (h : (valueApplyToPosD v useX useY d q).1 ≠ q) : (valueApplyToPosD v useX useY d q).2 = true :=
  valueApplyToPosD_moved v useX useY d q h

-- non-vacuity: a record whose ONLY content is an x-advance device (all static parts zero) moves a glyph of a horizontal run
example : (valueApplyToPosD { xAdvDevice := some (-200) } true false .ltr { xa := 600 }).1 ≠ { xa := 600 } := by decide

/-- **the compiled crate's `worked` is the model's** on every unit record (one component: static value, live device,
    device whose delta is 0) x horizontal / vertical x ppem_x set / unset x ppem_y set / unset — the table is regenerated
    from the crate on every run (tools/gens/gposworked.py), so a branch of `apply_to_pos` that stops reporting breaks this. -/
theorem C03_gen_value_worked : ∀ r ∈ Gen.GposWorked.probes, probeWorked r = r.2.2.2.2 := by decide

/-- **PairPos: a pair that moved a glyph is flagged**: when the two records changed any position, `PairAdjustment::apply`
    calls `unsafe_to_break(idx, second + 1)` (and then `finish`, which only adds the flags of the wider span when record 2
    is present). -/
theorem C03_pair_flag_call (b b' : Buf) (p p' : Array Pos) (j : Nat) (v1 v2 : ValueRecordD) (useX useY : Bool) (d : Dir)
    (ap : Bool) (h : pairPosApply b p (.records j v1 v2) useX useY d = .ok (b', p', ap)) (hne : p' ≠ p) :
    ∃ b1, b.unsafeToBreak b.idx (some (j + 1)) = .ok b1 ∧ pairFinish b1 j (!v2.isEmpty) = .ok b' :=
  pairPosApply_moved b b' p p' j v1 v2 useX useY d ap h hne

/-- **kerning pairs (record 2 empty): every glyph of `[idx, second]` outside the span's first cluster ends up
    UNSAFE_TO_BREAK** whenever the pair changed a position — by a static value or by a device / variation delta alone.
    On a monotone span (what GPOS sees), all cluster levels. -/
theorem C03_pair_kerning_flagged (b b' : Buf) (p p' : Array Pos) (j : Nat) (v1 v2 : ValueRecordD) (useX useY : Bool)
    (d : Dir) (ap : Bool) (h : pairPosApply b p (.records j v1 v2) useX useY d = .ok (b', p', ap)) (hne : p' ≠ p)
    (h2 : v2.isEmpty = true) (hij : b.idx ≤ j) (he : j + 1 ≤ b.len) (hlen : b.len ≤ b.info.length)
    (hu32 : ∀ k x, b.idx ≤ k → k < j + 1 → b.info[k]? = some x → x.cluster ≤ U32MAX)
    (hmono : MonoRange b.info b.idx (j + 1)) :
    ∃ m, IsRangeMin b.info b.idx (j + 1) m ∧
      Upd b.info b'.info b.idx (j + 1) (neCl m) (orMask (Flag.UNSAFE_TO_BREAK ||| Flag.UNSAFE_TO_CONCAT)) ∧
      b'.idx = j := by
  obtain ⟨b1, hb1, hfin⟩ := pairPosApply_moved b b' p p' j v1 v2 useX useY d ap h hne
  obtain ⟨b2, m, hb2, hmin, hupd, _⟩ := C03_interior b b.idx (j + 1) (by omega) he hlen hu32 hmono
  rw [hb1] at hb2
  cases hb2
  simp only [pairFinish, h2, Bool.not_true] at hfin
  cases hfin
  exact ⟨m, hmin, hupd, rfl⟩

-- non-vacuity of both: two glyphs in two clusters, record 1 = an x-advance device alone, ppem set, left to right
example : ∃ (b b' : Buf) (p p' : Array Pos) (v1 v2 : ValueRecordD),
    pairPosApply b p (.records 1 v1 v2) true false .ltr = .ok (b', p', true) ∧ p' ≠ p ∧ v2.isEmpty = true ∧
    v1.xPlacement = 0 ∧ v1.yPlacement = 0 ∧ v1.xAdvance = 0 ∧ v1.yAdvance = 0 ∧
    (b'.info.map (·.mask)) = [0, 3] :=
  ⟨{ info := [{ cluster := 0 }, { cluster := 1 }], len := 2 },
   { info := [{ cluster := 0 }, { cluster := 1, mask := 3 }], len := 2, idx := 1, scratch := SCRATCH_HAS_GLYPH_FLAGS },
   #[{ xa := 600 }, { xa := 600 }], #[{ xa := 400 }, { xa := 600 }],
   { xAdvDevice := some (-200) }, {}, by rfl, by decide, by decide, rfl, rfl, rfl, rfl, by decide⟩

end RbModel.GposFlag


/-! ### the flagged span covers what the GSUB matching machinery inspected (contextual rules, ligatures)

  `matchInputI`, `matchLookaheadI`, `matchBacktrackI`, `chainMatchI` (Lemmas/MatchSpan*.lean) are the matchers of Gsub.lean
  (the line-by-line models of ot_layout_gsubgpos.rs match_input / match_lookahead / match_backtrack / apply_chain_context, tied
  to the crate by the `gsub-interp` and `gsub-flags` streams) that additionally return the list of glyphs they READ:
  `Rd.inp i` = `buffer.info[i]` (the current glyph, every glyph the skipping iterator stepped over or stopped at),
  `Rd.out j` = `out_info()[j]` read by the backward iterator, `Rd.lig j` = `out_info()[j]` read by the lig-base scan of
  match_input.  `C03_match_instrumented_same`: forgetting the list gives the plain matcher, and the model's rules are
  "instrumented matching phase, then flag call, then action" — equations, nothing new is trusted.

  The statements about flags are compositions with `C03_interior` / `C03_interior_out`, so they are stated at the level
  those allow: clusters monotone over the unconsumed input `[idx, len)` (and over the out-buffer), cluster values ≤ u32::MAX.
  They speak about the buffer right after the flag call (`b`); the nested lookups of the rule then run on `b`
  (`applyLookup … { c with buf := b } … = .ok c'`) and may move glyphs — what they do to flags is the subject of the
  primitives' theorems above (`C03_set_cluster_flags` …).

  NOT covered by the flagged span (and said so in each statement): the `Rd.lig j` reads.  When the current glyph is a mark
  attached to a component of a ligature, match_input scans the out-buffer backwards over the glyphs with the same lig_id for the
  ligature itself and asks whether it is ignorable; `unsafe_to_break(idx, end)` / `merge_clusters(idx, end)` of Context and
  Ligature lookups do not reach into the out-buffer.  Those glyphs carry the lig_id of the current glyph, i.e. they are the
  ligature the mark was attached to by an earlier `ligate_input`, which merged that mark into the ligature's cluster (levels 0/1)
  or flagged the range (level 2) — that argument is about the history of the buffer and is not proved here. -/
namespace RbModel.Flags
open RbModel RbModel.Gsub

/-- **the instrumented matchers are the matchers**: dropping the list of reads gives exactly `matchInput`, `matchLookahead`,
    `matchBacktrack` of the model, and the contextual rules of the model are the instrumented matching phase followed by the
    flag call on the reported span and the action.  For every context, font, rule. -/
theorem C03_match_instrumented_same (recurse : Ctx → Nat → M (Ctx × Bool)) (c : Ctx) (n : Nat) (fn : Nat → Nat → Bool)
    (p : List Nat) (s : Nat) (input : List Nat) (mf : Nat → Nat → Bool) (lookups : List Rec)
    (nBack nIn nAhead : Nat) (fBack fIn fAhead : Nat → Nat → Bool) :
    (matchInputI c n fn p).map (·.r) = matchInput c n fn p ∧
    (matchLookaheadI c n fn s).map (·.1) = matchLookahead c n fn s ∧
    (matchBacktrackI c n fn).map (·.1) = matchBacktrack c n fn ∧
    applyContextRule recurse c input mf lookups =
      (matchInputI c input.length (fun g i => mf g (input.getD i 0)) [0, 0, 0, 0] >>=
        contextFinish recurse c input.length lookups) ∧
    applyChainRule recurse c nBack nIn nAhead fBack fIn fAhead lookups =
      (chainMatchI c nBack nIn nAhead fBack fIn fAhead >>= chainFinish recurse c nIn lookups) :=
  ⟨matchInputI_erase c n fn p, matchLookaheadI_erase c n fn s, matchBacktrackI_erase c n fn,
   applyContextRule_eq recurse c input mf lookups, applyChainRule_eq recurse c nBack nIn nAhead fBack fIn fAhead lookups⟩

/-- **INSPECTED ⊆ SPAN for the three matchers**, success and failure alike, every font / lookup / buffer:
    * match_input: every in-buffer glyph read lies in `[idx, end_position)`, `end_position ∈ (idx, len]`, on every path that
      read anything — success, iterator failure and (since the repair "fix: match_input left end_position unset …"; before it
      `end_position` stayed 0 there, see `C04_ligcomp_fail_flagged` in Props/C04.lean) the ligature-component `return false`;
      out-buffer glyphs are read by the lig-base scan only (`Rd.lig`);
    * match_lookahead from `s`: reads lie in `[s, end_index)`, `s ≤ end_index ≤ len`;
    * match_backtrack: reads lie in `[match_start, backtrack_len)` of the out-buffer. -/
theorem C03_match_reads_in_span (c : Ctx) (n : Nat) (fn : Nat → Nat → Bool) (hidx : c.buf.idx < c.buf.len) :
    (∀ p R, matchInputI c n fn p = .ok R →
      (R.r.ok = true ↔ R.why = .matched) ∧ (R.why = .tooLong → R.reads = [] ∧ R.r.endPos = 0) ∧
      (R.why ≠ .tooLong → c.buf.idx < R.r.endPos ∧ R.r.endPos ≤ c.buf.len) ∧
      (∀ i, Rd.inp i ∈ R.reads → c.buf.idx ≤ i ∧ i < c.buf.len ∧ i < R.r.endPos) ∧
      (∀ j, Rd.out j ∉ R.reads) ∧ (∀ j, Rd.lig j ∈ R.reads → j < c.buf.outLen)) ∧
    (∀ s ok e rs, matchLookaheadI c n fn s = .ok ((ok, e), rs) → s ≤ c.buf.len →
      s ≤ e ∧ e ≤ c.buf.len ∧ ∀ i ∈ rs, s ≤ i ∧ i < e) ∧
    (∀ ok st rs, matchBacktrackI c n fn = .ok ((ok, st), rs) →
      st ≤ backtrackLen c.buf ∧ ∀ j ∈ rs, st ≤ j ∧ j < backtrackLen c.buf) := by
  refine ⟨?_, ?_, ?_⟩
  · intro p R hR
    obtain ⟨r1, r2, r4, r5⟩ := matchInputI_span c n fn p R hR hidx
    refine ⟨r1, r2, r4, ?_, ?_, ?_⟩
    · intro i hi
      rcases r5 _ hi with ⟨i', a1, a2, a3, a4⟩ | ⟨j, a1, _⟩
      · cases a1; exact ⟨a2, a3, a4⟩
      · cases a1
    · intro j hj
      rcases r5 _ hj with ⟨i', a1, _⟩ | ⟨j', a1, _⟩ <;> cases a1
    · intro j hj
      rcases r5 _ hj with ⟨i', a1, _⟩ | ⟨j', a1, a2⟩
      · cases a1
      · cases a1; exact a2
  · intro s ok e rs h hs
    exact matchLookaheadI_span c n fn s ok e rs h hs
  · intro ok st rs h
    exact matchBacktrackI_span c n fn ok st rs h

-- non-vacuity: the matcher steps over the ignored mark (index 2) and stops at index 3; both are among the reads
example : (matchInputI spanCtx 1 (fun g i => g == [2].getD i 0) [0, 0, 0, 0]).map MatchInI.view
    = .ok (true, 4, [.inp 1, .inp 2, .inp 3], .matched) := by rfl
example : (matchInputI spanCtx 1 (fun g i => g == [3].getD i 0) [0, 0, 0, 0]).map MatchInI.view
    = .ok (false, 4, [.inp 1, .inp 2, .inp 3], .iter) := by rfl
example : matchLookaheadI spanCtx 1 (fun g _ => g == 3) 4 = .ok ((true, 5), [4]) := by rfl
example : matchBacktrackI spanCtx 1 (fun g _ => g == 5) = .ok ((true, 0), [0]) := by rfl
example : spanCtx.buf.idx < spanCtx.buf.len := by decide

/-- **a context rule that matched flagged everything it inspected — the common form of Context formats 1, 2 and 3**: the rule
    is "match_input with the match function `fn` over `n` further glyphs, then `contextFinish`" (`C03_match_instrumented_same` /
    `C03_context3_instrumented_same` are the equations with the model's rules).  When it returns `(c', true)`: match_input
    succeeded with reads `R.reads`, the flag call was `unsafe_to_break(idx, end_position)` on the buffer the rule found, the nested
    lookups ran on the flagged buffer `b`, and every in-buffer glyph the matcher read — skipped glyphs and the last matched glyph
    included — lies in `[idx, end_position)` and in `b` either belongs to the minimum cluster `m` of that range or carries
    UNSAFE_TO_BREAK (`BreakFlagged`: it is the old glyph with `mask |= BREAK | CONCAT` iff its cluster differs from `m`).
    Monotone clusters over `[idx, len)` (the level `C03_interior` allows), all three cluster levels.  The backward iterator is
    not used (`Rd.out` never occurs); the lig-base scan's out-buffer reads are outside the span (see the section comment). -/
theorem C03_contextI_match_flags_inspected (recurse : Ctx → Nat → M (Ctx × Bool)) (c c' : Ctx) (n : Nat)
    (fn : Nat → Nat → Bool) (lookups : List Rec)
    (h : (matchInputI c n fn [0, 0, 0, 0] >>= contextFinish recurse c n lookups) = .ok (c', true))
    (hidx : c.buf.idx < c.buf.len) (hlen : c.buf.len ≤ c.buf.info.length)
    (hu32 : ∀ j x, c.buf.idx ≤ j → j < c.buf.len → c.buf.info[j]? = some x → x.cluster ≤ U32MAX)
    (hmono : MonoRange c.buf.info c.buf.idx c.buf.len) :
    ∃ (R : MatchInI) (b : Buf) (m : Nat),
      matchInputI c n fn [0, 0, 0, 0] = .ok R ∧ R.r.ok = true ∧
      c.buf.idx < R.r.endPos ∧ R.r.endPos ≤ c.buf.len ∧
      c.buf.unsafeToBreak c.buf.idx (some R.r.endPos) = .ok b ∧
      applyLookup recurse { c with buf := b } n R.r.positions R.r.endPos lookups = .ok c' ∧
      IsRangeMin c.buf.info c.buf.idx R.r.endPos m ∧
      (∀ i, Rd.inp i ∈ R.reads → c.buf.idx ≤ i ∧ i < R.r.endPos ∧
          ∃ x, c.buf.info[i]? = some x ∧ BreakFlagged b.info i x m) ∧
      (∀ j, Rd.out j ∉ R.reads) ∧ (∀ j, Rd.lig j ∈ R.reads → j < c.buf.outLen) := by
  cases hR : matchInputI c n fn [0, 0, 0, 0] with
  | error e => simp only [hR, bind, Except.bind] at h; cases h
  | ok R =>
    simp only [hR, bind, Except.bind, contextFinish] at h
    cases hok : R.r.ok with
    | false =>
      simp only [hok, Bool.false_eq_true, if_false] at h
      cases hb : c.buf.unsafeToConcat c.buf.idx (some R.r.endPos) with
      | error e => simp [hb] at h
      | ok b => simp [hb, pure, Except.pure] at h
    | true =>
      obtain ⟨r1, _, r4, r5⟩ := matchInputI_span c _ _ _ R hR hidx
      have hwm := r1.mp hok
      obtain ⟨q1, q2⟩ := r4 (by simp [hwm])
      obtain ⟨b, m, hb, hmin, hupd, _⟩ := C03_interior c.buf c.buf.idx R.r.endPos q1 q2 hlen
        (fun j x a1 a2 a3 => hu32 j x a1 (by omega) a3) (MonoRange.shrink hmono q2)
      simp only [hok, if_true, hb] at h
      cases hal : applyLookup recurse { c with buf := b } n R.r.positions R.r.endPos lookups with
      | error e => simp [hal] at h
      | ok c2 =>
        simp only [hal, pure, Except.pure, Except.ok.injEq, Prod.mk.injEq, and_true] at h
        subst h
        refine ⟨R, b, m, rfl, hok, q1, q2, hb, hal, hmin, ?_, ?_, ?_⟩
        · intro i hi
          rcases r5 _ hi with ⟨i', a1, a2, a3, a4⟩ | ⟨j, a1, _⟩
          · cases a1
            have hil : i < c.buf.info.length := by omega
            exact ⟨a2, a4, _, List.getElem?_eq_getElem hil,
              BreakFlagged.of_upd hupd (List.getElem?_eq_getElem hil) a2 a4⟩
          · cases a1
        · intro j hj
          rcases r5 _ hj with ⟨i', a1, _⟩ | ⟨j', a1, _⟩ <;> cases a1
        · intro j hj
          rcases r5 _ hj with ⟨i', a1, _⟩ | ⟨j', a1, a2⟩
          · cases a1
          · cases a1; exact a2

/-- **a context rule that matched flagged everything it inspected** (`apply_context`, Context formats 1 and 2): the instance
    of `C03_contextI_match_flags_inspected` for `applyContextRule`. -/
theorem C03_context_match_flags_inspected (recurse : Ctx → Nat → M (Ctx × Bool)) (c c' : Ctx) (input : List Nat)
    (matchFn : Nat → Nat → Bool) (lookups : List Rec)
    (h : applyContextRule recurse c input matchFn lookups = .ok (c', true))
    (hidx : c.buf.idx < c.buf.len) (hlen : c.buf.len ≤ c.buf.info.length)
    (hu32 : ∀ j x, c.buf.idx ≤ j → j < c.buf.len → c.buf.info[j]? = some x → x.cluster ≤ U32MAX)
    (hmono : MonoRange c.buf.info c.buf.idx c.buf.len) :
    ∃ (R : MatchInI) (b : Buf) (m : Nat),
      matchInputI c input.length (fun g i => matchFn g (input.getD i 0)) [0, 0, 0, 0] = .ok R ∧ R.r.ok = true ∧
      c.buf.idx < R.r.endPos ∧ R.r.endPos ≤ c.buf.len ∧
      c.buf.unsafeToBreak c.buf.idx (some R.r.endPos) = .ok b ∧
      applyLookup recurse { c with buf := b } input.length R.r.positions R.r.endPos lookups = .ok c' ∧
      IsRangeMin c.buf.info c.buf.idx R.r.endPos m ∧
      (∀ i, Rd.inp i ∈ R.reads → c.buf.idx ≤ i ∧ i < R.r.endPos ∧
          ∃ x, c.buf.info[i]? = some x ∧ BreakFlagged b.info i x m) ∧
      (∀ j, Rd.out j ∉ R.reads) ∧ (∀ j, Rd.lig j ∈ R.reads → j < c.buf.outLen) := by
  rw [applyContextRule_eq] at h
  exact C03_contextI_match_flags_inspected recurse c c' _ _ lookups h hidx hlen hu32 hmono

/-- **Context format 3 is the same rule**: `applySubtable (.context3 (cov :: rest) lookups)` is the coverage test of the current
    glyph followed by `matchInputI c rest.length (fun g i => nthCov rest i g) [0,0,0,0] >>= contextFinish …` — an equation. -/
theorem C03_context3_instrumented_same (recurse : Ctx → Nat → M (Ctx × Bool)) (nf : Bool) (c : Ctx) (cov : Cov)
    (restCovs : List Cov) (lookups : List Rec) :
    applySubtable recurse nf c (.context3 (cov :: restCovs) lookups) = (do
      let cur ← Mem.get c.buf.info c.buf.idx
      match cov.index (cur.gid % 65536) with
      | none => pure (c, false)
      | some _ =>
        matchInputI c restCovs.length (fun g i => nthCov restCovs i g) [0, 0, 0, 0] >>=
          contextFinish recurse c restCovs.length lookups) :=
  context3_eq recurse nf c cov restCovs lookups

/-- **a Context format 3 subtable that applied flagged everything it inspected**: the instance of
    `C03_contextI_match_flags_inspected` for the inline code of format 3 (through `C03_context3_instrumented_same`). -/
theorem C03_context3_match_flags_inspected (recurse : Ctx → Nat → M (Ctx × Bool)) (nf : Bool) (c c' : Ctx) (cov : Cov)
    (restCovs : List Cov) (lookups : List Rec)
    (h : applySubtable recurse nf c (.context3 (cov :: restCovs) lookups) = .ok (c', true))
    (hidx : c.buf.idx < c.buf.len) (hlen : c.buf.len ≤ c.buf.info.length)
    (hu32 : ∀ j x, c.buf.idx ≤ j → j < c.buf.len → c.buf.info[j]? = some x → x.cluster ≤ U32MAX)
    (hmono : MonoRange c.buf.info c.buf.idx c.buf.len) :
    ∃ (R : MatchInI) (b : Buf) (m : Nat),
      matchInputI c restCovs.length (fun g i => nthCov restCovs i g) [0, 0, 0, 0] = .ok R ∧ R.r.ok = true ∧
      c.buf.idx < R.r.endPos ∧ R.r.endPos ≤ c.buf.len ∧
      c.buf.unsafeToBreak c.buf.idx (some R.r.endPos) = .ok b ∧
      applyLookup recurse { c with buf := b } restCovs.length R.r.positions R.r.endPos lookups = .ok c' ∧
      IsRangeMin c.buf.info c.buf.idx R.r.endPos m ∧
      (∀ i, Rd.inp i ∈ R.reads → c.buf.idx ≤ i ∧ i < R.r.endPos ∧
          ∃ x, c.buf.info[i]? = some x ∧ BreakFlagged b.info i x m) ∧
      (∀ j, Rd.out j ∉ R.reads) ∧ (∀ j, Rd.lig j ∈ R.reads → j < c.buf.outLen) := by
  rw [context3_eq] at h
  cases hg : Mem.get c.buf.info c.buf.idx with
  | error e => simp only [hg, bind, Except.bind] at h; cases h
  | ok cur =>
    simp only [hg, bind, Except.bind] at h
    cases hc : cov.index (cur.gid % 65536) with
    | none => simp [hc, pure, Except.pure] at h
    | some i =>
      simp only [hc] at h
      exact C03_contextI_match_flags_inspected recurse c c' _ _ lookups h hidx hlen hu32 hmono

-- non-vacuity: the rule "1 (marks ignored) 2" on glyphs 5 | 1 mark 2 3: matched, reads = [1, 2, 3], the mark (cluster 2) and
-- the glyph 2 (cluster 3) are flagged, the first glyph of the range (minimum cluster 1) is not
example : ∃ c', applyContextRule spanNoRecurse spanCtx [2] (fun g v => g == v) [] = .ok (c', true) ∧
    c'.buf.info.map (·.mask) = [1, 1, 3, 3, 1] ∧
    spanCtx.buf.idx < spanCtx.buf.len ∧ spanCtx.buf.len ≤ spanCtx.buf.info.length ∧
    (∀ j x, spanCtx.buf.idx ≤ j → j < spanCtx.buf.len → spanCtx.buf.info[j]? = some x → x.cluster ≤ U32MAX) ∧
    MonoRange spanCtx.buf.info spanCtx.buf.idx spanCtx.buf.len :=
  ⟨_, rfl, rfl, by decide, by decide, fun j x _ _ hx => u32_of_all (by decide) j x hx, MonoRange.of_pairwise (by decide) _ _⟩

-- non-vacuity of the format 3 instance: coverages [1] [2] (marks ignored) on the same buffer
example : ∃ c', applySubtable spanNoRecurse true spanCtx (.context3 [[1], [2]] []) = .ok (c', true) ∧
    c'.buf.info.map (·.mask) = [1, 1, 3, 3, 1] := ⟨_, rfl, rfl⟩

/-- **a chain rule that matched flagged everything it inspected** (`apply_chain_context`, ChainContext formats 1-3), in the
    state every forward GSUB pass is in (`have_output`).  When the rule returns `(c', true)`: the matching phase `chainMatchI`
    ended `matched` with the span `out[start_index, out_len) ++ info[idx, end_index)`, the flag call was
    `unsafe_to_break_from_outbuffer(start_index, end_index)`, the nested lookups ran on the flagged buffer `b`, and every glyph
    read by match_input, match_lookahead (`Rd.inp`) and match_backtrack (`Rd.out`) lies in that span and in `b` either belongs to
    the minimum cluster `r` of the two-sided range or carries UNSAFE_TO_BREAK.  Monotone clusters over the out-buffer and over
    `[idx, len)`, both output modes, all three cluster levels. -/
theorem C03_chain_match_flags_inspected (recurse : Ctx → Nat → M (Ctx × Bool)) (c c' : Ctx) (nBack nIn nAhead : Nat)
    (fBack fIn fAhead : Nat → Nat → Bool) (lookups : List Rec)
    (h : applyChainRule recurse c nBack nIn nAhead fBack fIn fAhead lookups = .ok (c', true))
    (hidx : c.buf.idx < c.buf.len) (hwf : Buf.WF c.buf) (hho : c.buf.haveOutput = true)
    (hu1 : ∀ j x, j < c.buf.outLen → c.buf.outArr[j]? = some x → x.cluster ≤ U32MAX)
    (hu2 : ∀ j x, c.buf.idx ≤ j → j < c.buf.len → c.buf.info[j]? = some x → x.cluster ≤ U32MAX)
    (hmo : MonoRange c.buf.outArr 0 c.buf.outLen) (hmi : MonoRange c.buf.info c.buf.idx c.buf.len) :
    ∃ (m : ChainM) (b : Buf) (r : Nat),
      chainMatchI c nBack nIn nAhead fBack fIn fAhead = .ok m ∧ m.verdict = .matched ∧
      m.startIndex ≤ c.buf.outLen ∧ c.buf.idx < m.endIndex ∧ m.endIndex ≤ c.buf.len ∧
      c.buf.unsafeToBreakFromOut m.startIndex (some m.endIndex) = .ok b ∧
      applyLookup recurse { c with buf := b } nIn m.R.r.positions m.R.r.endPos lookups = .ok c' ∧
      LowerBound c.buf.outArr m.startIndex c.buf.outLen r ∧ LowerBound c.buf.info c.buf.idx m.endIndex r ∧
      ((∃ j x, m.startIndex ≤ j ∧ j < c.buf.outLen ∧ c.buf.outArr[j]? = some x ∧ x.cluster = r) ∨
       (∃ j x, c.buf.idx ≤ j ∧ j < m.endIndex ∧ c.buf.info[j]? = some x ∧ x.cluster = r)) ∧
      (∀ i, Rd.inp i ∈ m.reads → c.buf.idx ≤ i ∧ i < m.endIndex ∧
          ∃ x, c.buf.info[i]? = some x ∧ BreakFlagged b.info i x r) ∧
      (∀ j, Rd.out j ∈ m.reads → m.startIndex ≤ j ∧ j < c.buf.outLen ∧
          ∃ x, c.buf.outArr[j]? = some x ∧ BreakFlagged b.outArr j x r) ∧
      (∀ j, Rd.lig j ∈ m.reads → j < c.buf.outLen) := by
  rw [applyChainRule_eq] at h
  cases hm : chainMatchI c nBack nIn nAhead fBack fIn fAhead with
  | error e => simp only [hm, bind, Except.bind] at h; cases h
  | ok m =>
    obtain ⟨_, _, s3, s4, s5, s6, s7⟩ := chainMatchI_span c _ _ _ _ _ _ m hm hidx
    simp only [hm, bind, Except.bind, chainFinish] at h
    have hbl : backtrackLen c.buf = c.buf.outLen := by simp [backtrackLen, hho]
    cases hv : m.verdict with
    | inputFail | aheadFail =>
      simp only [hv] at h
      cases hb : c.buf.unsafeToConcat c.buf.idx (some m.endIndex) with
      | error e => simp [hb] at h
      | ok b => simp [hb, pure, Except.pure] at h
    | backFail =>
      simp only [hv] at h
      cases hb : c.buf.unsafeToConcatFromOut m.startIndex (some m.endIndex) with
      | error e => simp [hb] at h
      | ok b => simp [hb, pure, Except.pure] at h
    | matched =>
      simp only [hv] at h
      have hst : m.startIndex ≤ c.buf.outLen := by rw [← hbl]; exact s6 (Or.inr hv)
      have hlt : c.buf.idx < m.endIndex := s5 (by simp [hv])
      obtain ⟨b, r, o1, hb, l1, l2, hatt, U1, U2, hout, hb'⟩ :=
        C03_interior_out c.buf m.startIndex m.endIndex hho hst hwf.out_cap s3 s4 hwf.len_le
          (fun j x _ a2 a3 => hu1 j x a2 a3) (fun j x a1 a2 a3 => hu2 j x a1 (by omega) a3) (Or.inr hlt)
          (MonoRange.shrinkL hmo (Nat.zero_le _)) (MonoRange.shrink hmi s4)
      have hsep : b.sepOut = c.buf.sepOut := by rw [hb']
      obtain ⟨t1, t2⟩ := twoSided_at U1 U2 hout hsep hwf.nosep_ok
      simp only [hb] at h
      cases hal : applyLookup recurse { c with buf := b } nIn m.R.r.positions m.R.r.endPos lookups with
      | error e => simp [hal] at h
      | ok c2 =>
        simp only [hal, pure, Except.pure, Except.ok.injEq, Prod.mk.injEq, and_true] at h
        subst h
        refine ⟨m, b, r, rfl, hv, hst, hlt, s4, hb, hal, l1, l2, hatt, ?_, ?_, ?_⟩
        · intro i hi
          rcases s7 _ hi with ⟨i', a1, a2, a3, a4⟩ | ⟨j, a1, _⟩ | ⟨j, a1, _⟩
          · cases a1
            have hlt' := a4
            have hil : i < c.buf.info.length := by have := hwf.len_le; omega
            exact ⟨a2, hlt', _, List.getElem?_eq_getElem hil,
              BreakFlagged.of_eq (t1 i _ a2 hlt' (List.getElem?_eq_getElem hil))⟩
          · cases a1
          · cases a1
        · intro j hj
          rcases s7 _ hj with ⟨i', a1, _⟩ | ⟨j', a1, _, a3, a4⟩ | ⟨j', a1, _⟩
          · cases a1
          · cases a1
            rw [hbl] at a4
            have hjl : j < c.buf.outArr.length := by have := hwf.out_cap; omega
            exact ⟨a3, a4, _, List.getElem?_eq_getElem hjl,
              BreakFlagged.of_eq (t2 j _ a3 a4 (List.getElem?_eq_getElem hjl))⟩
          · cases a1
        · intro j hj
          rcases s7 _ hj with ⟨i', a1, _⟩ | ⟨j', a1, _⟩ | ⟨j', a1, a2⟩
          · cases a1
          · cases a1
          · cases a1; exact a2

-- non-vacuity: backtrack 5, input "1 (marks ignored) 2", lookahead 3 on glyphs 5 | 1 mark 2 3: matched, the span is the whole
-- buffer, reads = input [1, 2, 3] + lookahead [4] + backtrack out[0]; everything outside cluster 0 is flagged
example : (chainMatchI spanCtx 1 1 1 (fun g _ => g == 5) (fun g _ => g == 2) (fun g _ => g == 3)).map ChainM.view
    = .ok (.matched, 0, 5, [.inp 1, .inp 2, .inp 3, .inp 4, .out 0]) := by rfl
example : ∃ c', applyChainRule spanNoRecurse spanCtx 1 1 1 (fun g _ => g == 5) (fun g _ => g == 2) (fun g _ => g == 3) []
      = .ok (c', true) ∧ c'.buf.info.map (·.mask) = [1, 3, 3, 3, 3] ∧
    spanCtx.buf.idx < spanCtx.buf.len ∧ Buf.WF spanCtx.buf ∧ spanCtx.buf.haveOutput = true ∧
    (∀ j x, j < spanCtx.buf.outLen → spanCtx.buf.outArr[j]? = some x → x.cluster ≤ U32MAX) ∧
    (∀ j x, spanCtx.buf.idx ≤ j → j < spanCtx.buf.len → spanCtx.buf.info[j]? = some x → x.cluster ≤ U32MAX) ∧
    MonoRange spanCtx.buf.outArr 0 spanCtx.buf.outLen ∧ MonoRange spanCtx.buf.info spanCtx.buf.idx spanCtx.buf.len :=
  ⟨_, rfl, rfl, by decide, ⟨by decide, by decide, by simp [spanCtx], by decide⟩, rfl,
   fun j x _ hx => u32_of_all (l := spanCtx.buf.outArr) (by decide) j x hx,
   fun j x _ _ hx => u32_of_all (by decide) j x hx,
   MonoRange.of_pairwise (l := spanCtx.buf.outArr) (by decide) _ _, MonoRange.of_pairwise (by decide) _ _⟩

/-- **Ligature::apply, a ligature that forms**: everything match_input read in the in-buffer lies in `[idx, match_end)`, the
    range `ligate_input` merges into one cluster (`merge_clusters(idx, match_end)`; at cluster level 2 that call IS
    `unsafe_to_break(idx, match_end)`) -/
theorem C03_ligature_match_reads_merged (c c' : Ctx) (comps : List Nat) (lig : Nat) (hne : comps.isEmpty = false)
    (h : ligatureRule c (comps, lig) = .ok (c', true)) (hidx : c.buf.idx < c.buf.len) :
    ∃ (R : MatchInI),
      matchInputI c comps.length (fun g i => g == comps.getD i 0) [0, 0, 0, 0] = .ok R ∧ R.r.ok = true ∧
      c.buf.idx < R.r.endPos ∧ R.r.endPos ≤ c.buf.len ∧
      ligateInput c (comps.length + 1) R.r.positions R.r.endPos R.r.totalComps lig = .ok c' ∧
      (∀ i, Rd.inp i ∈ R.reads → c.buf.idx ≤ i ∧ i < R.r.endPos) ∧
      (∀ j, Rd.out j ∉ R.reads) ∧ (∀ j, Rd.lig j ∈ R.reads → j < c.buf.outLen) := by
  rw [ligatureRule_eq c (comps, lig) hne] at h
  cases hR : matchInputI c comps.length (fun g i => g == comps.getD i 0) [0, 0, 0, 0] with
  | error e => simp only [hR, bind, Except.bind] at h; cases h
  | ok R =>
    simp only [hR, bind, Except.bind, ligatureFinish] at h
    cases hok : R.r.ok with
    | false =>
      simp only [hok, Bool.not_false, if_true] at h
      cases hb : c.buf.unsafeToConcat c.buf.idx (some R.r.endPos) with
      | error e => simp [hb] at h
      | ok b => simp [hb, pure, Except.pure] at h
    | true =>
      obtain ⟨r1, _, r4, r5⟩ := matchInputI_span c _ _ _ R hR hidx
      have hwm := r1.mp hok
      obtain ⟨q1, q2⟩ := r4 (by simp [hwm])
      simp only [hok, Bool.not_true, Bool.false_eq_true, if_false] at h
      cases hl : ligateInput c (comps.length + 1) R.r.positions R.r.endPos R.r.totalComps lig with
      | error e => simp [hl] at h
      | ok c2 =>
        simp only [hl, pure, Except.pure, Except.ok.injEq, Prod.mk.injEq, and_true] at h
        subst h
        refine ⟨R, rfl, hok, q1, q2, hl, ?_, ?_, ?_⟩
        · intro i hi
          rcases r5 _ hi with ⟨i', a1, a2, a3, a4⟩ | ⟨j, a1, _⟩
          · cases a1; exact ⟨a2, a4⟩
          · cases a1
        · intro j hj
          rcases r5 _ hj with ⟨i', a1, _⟩ | ⟨j', a1, _⟩ <;> cases a1
        · intro j hj
          rcases r5 _ hj with ⟨i', a1, _⟩ | ⟨j', a1, a2⟩
          · cases a1
          · cases a1; exact a2

-- non-vacuity: "x (ligatures ignored) mark -> 99" on x, ligature, unattached mark, mark: the ligature forms, the skipped
-- ligature glyph (index 1) and the mark (index 2) are among the reads, `match_end` = 3
example : (matchInputI (spanLigCtx 8) 1 (fun g i => g == [10].getD i 0) [0, 0, 0, 0]).map MatchInI.view
    = .ok (true, 3, [.inp 0, .inp 1, .inp 2], .matched) := by rfl
example : (ligatureRule (spanLigCtx 8) ([10], 99)).map (fun r => ((r.1.buf.outArr.take r.1.buf.outLen).map (·.gid), r.2))
    = .ok ([99, 20], true) := by rfl

end RbModel.Flags


/-! ### frame: glyphs that were not inspected do not influence the decision of a rule -/
namespace RbModel.Flags
open RbModel RbModel.Gsub

/-- **the decision of a contextual rule is local to what it inspected.**  `c1`, `c2`: two apply contexts with the same font,
    lookup settings and buffer geometry (`Similar`: idx, len, out_len, have_output; the glyph arrays — and the output mode —
    are free) that hold the same current glyph.  If the buffers agree on the glyphs ONE run of the matcher on `c1` read
    (`AgreeOn c1 c2 reads`: `info[i]` for `Rd.inp i`, `out_info()[j]` for `Rd.out j` / `Rd.lig j`) then the run on `c2` is
    the same run: same verdict (match, or the same kind of failure), same match positions, same `end_position` /
    `start_index` / `end_index`, same reads — for match_input (Context, Ligature) and for the whole matching phase of a chain
    rule — and therefore the plain matchers return the same result and the rules of the model take the same branch with the
    same span (`contextFinish` / `chainFinish` on the same `R` / `m`).  Every glyph outside the reads — in particular everything
    at or beyond `end_position` / `end_index` and everything before `start_index` — may be changed, inserted or removed (the
    lengths are part of `Similar`: changing `len` is visible to a matcher only if it ran into the end of the buffer, which is
    then its stop position).  Together with `C03_match_reads_in_span` this is the statement that makes "safe to break" true
    for one rule application: a cut outside the flagged span leaves the decision unchanged. -/
theorem C03_context_decision_local (c1 c2 : Ctx) (hs : Similar c1 c2)
    (hcur : c1.buf.info[c1.buf.idx]? = c2.buf.info[c1.buf.idx]?) :
    (∀ n fn p R, matchInputI c1 n fn p = .ok R → AgreeOn c1 c2 R.reads →
      matchInputI c2 n fn p = .ok R ∧ matchInput c2 n fn p = .ok R.r) ∧
    (∀ nBack nIn nAhead fBack fIn fAhead m, chainMatchI c1 nBack nIn nAhead fBack fIn fAhead = .ok m →
      AgreeOn c1 c2 m.reads → chainMatchI c2 nBack nIn nAhead fBack fIn fAhead = .ok m) ∧
    (∀ recurse input mf lookups R,
      matchInputI c1 input.length (fun g i => mf g (input.getD i 0)) [0, 0, 0, 0] = .ok R → AgreeOn c1 c2 R.reads →
      applyContextRule recurse c1 input mf lookups = contextFinish recurse c1 input.length lookups R ∧
      applyContextRule recurse c2 input mf lookups = contextFinish recurse c2 input.length lookups R) ∧
    (∀ recurse nBack nIn nAhead fBack fIn fAhead lookups m,
      chainMatchI c1 nBack nIn nAhead fBack fIn fAhead = .ok m → AgreeOn c1 c2 m.reads →
      applyChainRule recurse c1 nBack nIn nAhead fBack fIn fAhead lookups = chainFinish recurse c1 nIn lookups m ∧
      applyChainRule recurse c2 nBack nIn nAhead fBack fIn fAhead lookups = chainFinish recurse c2 nIn lookups m) := by
  refine ⟨?_, ?_, ?_, ?_⟩
  · intro n fn p R h hag
    have h2 := matchInputI_local hs n fn p R h hcur hag
    exact ⟨h2, by rw [← matchInputI_erase, h2]; rfl⟩
  · intro nBack nIn nAhead fBack fIn fAhead m h hag
    exact chainMatchI_local hs _ _ _ _ _ _ m h hcur hag
  · intro recurse input mf lookups R h hag
    have h2 := matchInputI_local hs _ _ _ R h hcur hag
    constructor
    · rw [applyContextRule_eq, h]; rfl
    · rw [applyContextRule_eq, h2]; rfl
  · intro recurse nBack nIn nAhead fBack fIn fAhead lookups m h hag
    have h2 := chainMatchI_local hs _ _ _ _ _ _ m h hcur hag
    constructor
    · rw [applyChainRule_eq, h]; rfl
    · rw [applyChainRule_eq, h2]; rfl

-- non-vacuity: the last glyph of the example buffer (index 4, not read by the rule "1 (marks ignored) 2") is replaced by
-- another glyph: the two contexts are Similar, agree on the reads [1, 2, 3] (which contain the skipped mark and the stop
-- glyph), and differ at index 4
example : ∃ c2 : Ctx, Similar spanCtx c2 ∧ spanCtx.buf.info[spanCtx.buf.idx]? = c2.buf.info[spanCtx.buf.idx]? ∧
    AgreeOn spanCtx c2 [.inp 1, .inp 2, .inp 3] ∧ spanCtx.buf.info[4]? ≠ c2.buf.info[4]? ∧
    (matchInputI spanCtx 1 (fun g i => g == [2].getD i 0) [0, 0, 0, 0]).map MatchInI.view
      = .ok (true, 4, [.inp 1, .inp 2, .inp 3], .matched) := by
  refine ⟨{ spanCtx with buf := { spanCtx.buf with info := spanCtx.buf.info.set 4 { gid := 77, mask := 1, cluster := 4, var1 := 2 } } },
    ⟨rfl, rfl, rfl, rfl, rfl, rfl, rfl, rfl, rfl, rfl, rfl⟩, rfl, ?_, by decide, rfl⟩
  intro x hx
  simp only [List.mem_cons, List.not_mem_nil, or_false] at hx
  rcases hx with rfl | rfl | rfl <;> rfl

end RbModel.Flags


/-! ### the ligature and the reverse-chaining subtables through the same instruments -/
namespace RbModel.Flags
open RbModel RbModel.Gsub

/-- **the ligature and the reverse-chaining subtables of the model are "instrumented matching phase, then flag call / action"**:
    the Ligature subtable is `firstRule` over `ligatureRule`; a ligature with components is `matchInputI` followed by
    `unsafe_to_concat(idx, end_position)` or `ligate_input`; ReverseChainSingleSubst is the coverage test followed by `revMatchI`
    (match_backtrack, then match_lookahead from `idx + 1`, with the reads) and
    `unsafe_to_break_from_outbuffer` / `unsafe_to_concat_from_outbuffer(start_index, end_index)`.  Equations — nothing trusted. -/
theorem C03_ligature_reverse_instrumented_same (recurse : Ctx → Nat → M (Ctx × Bool)) (nf : Bool) (c : Ctx) (cov : Cov)
    (sets : List (List (List Nat × Nat))) (cl : List Nat × Nat) (hne : cl.1.isEmpty = false)
    (back ahead : List Cov) (subst : List Nat) :
    applySubtable recurse nf c (.ligature cov sets) = (do
      let cur ← Mem.get c.buf.info c.buf.idx
      match cov.index (cur.gid % 65536) with
      | none => pure (c, false)
      | some i => match sets[i]? with
        | none => pure (c, false)
        | some ligs => firstRule ligs c ligatureRule) ∧
    ligatureRule c cl =
      (matchInputI c cl.1.length (fun g i => g == cl.1.getD i 0) [0, 0, 0, 0] >>= ligatureFinish c cl) ∧
    applySubtable recurse true c (.reverse cov back ahead subst) = (do
      let cur ← Mem.get c.buf.info c.buf.idx
      match cov.index (cur.gid % 65536) with
      | none => pure (c, false)
      | some i =>
        if i ≥ subst.length then pure (c, false)
        else revMatchI c back ahead >>= revFinish c (subst.getD i 0)) :=
  ⟨applySubtable_ligature recurse nf c cov sets, ligatureRule_eq c cl hne, reverseRule_eq recurse c cov back ahead subst⟩

/-- **a reverse-chaining substitution that applied flagged everything it inspected** (ReverseChainSingleSubst::apply, in the
    state `apply_string` guarantees for reverse lookups: no out-buffer — `have_output = false`, so `backtrack_len = idx`,
    `out_info()` is `info` and `unsafe_to_break_from_outbuffer(start, end)` is the one-sided call on `info[start, end)`, without
    the short-range early return of `unsafe_to_break`).  When the matching phase and the action return `(c', true)`: the
    matching phase ended with the span `[start_index, end_index)`, `start_index ≤ idx < end_index ≤ len`, and every glyph read —
    the current glyph, the backtrack glyphs `Rd.out j` (`start_index ≤ j < idx`), the lookahead glyphs `Rd.inp i`
    (`idx < i < end_index`), skipped glyphs included — in the flagged buffer `b` either belongs to the minimum cluster `m` of the
    span or carries UNSAFE_TO_BREAK.  Monotone clusters over the buffer, all three cluster levels. -/
theorem C03_reverse_match_flags_inspected (c c' : Ctx) (back ahead : List Cov) (s : Nat)
    (h : (revMatchI c back ahead >>= revFinish c s) = .ok (c', true))
    (hidx : c.buf.idx < c.buf.len) (hlen : c.buf.len ≤ c.buf.info.length) (hho : c.buf.haveOutput = false)
    (hso : c.buf.sepOut = false)
    (hu32 : ∀ j x, j < c.buf.len → c.buf.info[j]? = some x → x.cluster ≤ U32MAX)
    (hmono : MonoRange c.buf.info 0 c.buf.len) :
    ∃ (st e : Nat) (rs : List Rd) (b : Buf) (m : Nat),
      revMatchI c back ahead = .ok (true, st, e, rs) ∧ c.buf.outArr = c.buf.info ∧ st ≤ c.buf.idx ∧ c.buf.idx < e ∧ e ≤ c.buf.len ∧
      c.buf.unsafeToBreakFromOut st (some e) = .ok b ∧ IsRangeMin c.buf.info st e m ∧
      ∀ x ∈ rs, RevRead c st e (fun i y => BreakFlagged b.info i y m) x := by
  cases hm : revMatchI c back ahead with
  | error er => simp only [hm, bind, Except.bind] at h; cases h
  | ok v =>
    obtain ⟨ok, st, e, rs⟩ := v
    obtain ⟨s1, s2, s3, s4⟩ := revMatchI_span c back ahead ok st e rs hm hidx
    have hbl : backtrackLen c.buf = c.buf.idx := by simp [backtrackLen, hho]
    rw [hbl] at s1 s4
    simp only [hm, bind, Except.bind, revFinish] at h
    cases ok with
    | false =>
      simp only [Bool.false_eq_true, if_false] at h
      cases hb : c.buf.unsafeToConcatFromOut st (some e) with
      | error er => simp [hb] at h
      | ok b => simp [hb, pure, Except.pure] at h
    | true =>
      obtain ⟨info, m, hb, hmin, hupd⟩ := setGlyphFlags_interior_noOutput c.buf
        (Flag.UNSAFE_TO_BREAK ||| Flag.UNSAFE_TO_CONCAT) st e hho (by omega) s3 hlen
        (fun j x _ a2 a3 => hu32 j x (by omega) a3) (MonoRange.shrink (MonoRange.shrinkL hmono (Nat.zero_le _)) s3)
      refine ⟨st, e, rs, _, m, rfl, by simp [Buf.outArr, hso], s1, s2, s3, hb, hmin, ?_⟩
      intro x hx
      rcases s4 x hx with ⟨i, a1, a2, a3⟩ | ⟨j, a1, a2, a3⟩
      · have hil : i < c.buf.info.length := by omega
        exact Or.inl ⟨i, _, a1, a2, a3, List.getElem?_eq_getElem hil,
          BreakFlagged.of_upd hupd (List.getElem?_eq_getElem hil) (by omega) a3⟩
      · have hjl : j < c.buf.info.length := by omega
        exact Or.inr ⟨j, _, a1, a2, a3, List.getElem?_eq_getElem hjl,
          BreakFlagged.of_upd hupd (List.getElem?_eq_getElem hjl) a2 (by omega)⟩

-- non-vacuity: backtrack [5], lookahead [3] (marks ignored) on 5 mark [1] mark 3: reads = current glyph, backtrack out[1]
-- (the skipped mark), out[0], lookahead inp 3 (the skipped mark), inp 4; span = the whole buffer
example : revMatchI spanRevCtx [[5]] [[3]] = .ok (true, 0, 5, [.inp 2, .out 1, .out 0, .inp 3, .inp 4]) := by rfl
example : ∃ c', (revMatchI spanRevCtx [[5]] [[3]] >>= revFinish spanRevCtx 7) = .ok (c', true) ∧
    c'.buf.info.map (fun x => (x.gid, x.mask)) = [(5, 1), (10, 3), (7, 3), (10, 3), (3, 3)] ∧
    spanRevCtx.buf.idx < spanRevCtx.buf.len ∧ spanRevCtx.buf.len ≤ spanRevCtx.buf.info.length ∧ spanRevCtx.buf.haveOutput = false ∧
    spanRevCtx.buf.sepOut = false ∧
    (∀ j x, j < spanRevCtx.buf.len → spanRevCtx.buf.info[j]? = some x → x.cluster ≤ U32MAX) ∧
    MonoRange spanRevCtx.buf.info 0 spanRevCtx.buf.len :=
  ⟨_, rfl, rfl, by decide, by decide, rfl, rfl, fun j x _ hx => u32_of_all (by decide) j x hx,
   MonoRange.of_pairwise (by decide) _ _⟩

end RbModel.Flags


/-! ### the flagged span covers what pair kerning and pair positioning inspected (machine_kern, kerx simple formats, PairPos)

  PairFlag.lean models `machine_kern` (kerning.rs: legacy `kern` formats 0 / 2), the copy of its loop in
  aat_layout_kerx_table.rs::apply_simple_kerning (kerx formats 0 / 2 / 6; one more statement: `unsafe_to_concat(i, unsafe_to)`
  when the iterator fails) and `PairAdjustment::apply` (GPOS PairPos formats 1 / 2) WITH the real skipping iterator
  (`Gsub.It`, the model of ot_layout_gsubgpos.rs::skipping_iterator_t) and every `unsafe_to_break` / `unsafe_to_concat` call on
  the buffer model, tied to the crate by the streams `kern-machine-flags`, `kerx-simple-flags`, `gpos-pair-iter` (hooks
  kerning::machine_kern_flags, kerx::simple_kerning_flags, gpos::apply_subtable_flags).  The instrumented versions
  (Lemmas/PairSpan.lean, Lemmas/PairSpanKern.lean) additionally return what was READ: per iteration of the kern loop an event
  (left glyph `i`, the indices the iterator read, whether it found a right glyph, `stop` = that glyph `j` / `unsafe_to`, the
  kerning value), for PairPos the list of indices read and the path taken.  `C03_kern_instrumented_same` /
  `C03_pairpos_instrumented_same`: forgetting these gives the plain functions, so nothing new is trusted.

  Statements about flags are compositions with `C03_interior`, hence for monotone clusters and cluster values ≤ u32::MAX. -/
namespace RbModel.PairFlag
open RbModel RbModel.Gsub RbModel.GposFlag RbModel.Flags
open RbModel.Gpos (Pos Dir ValueRecordD pairApplyD)

/-- **the instrumented kern functions are the kern functions** (one iteration, the loop for every fuel, `machine_kern`, the
    kerx copy): dropping the events gives exactly the model functions the correspondence streams run. -/
theorem C03_kern_instrumented_same (cm : Bool) (f : Font) (kernMask : Nat) (h cs : Bool) (kernOf : Nat → Nat → Int)
    (fuel i : Nat) (b : Buf) (p : Array Pos) (fl : Bool) (d : Dir) (lc : Bool) :
    (kernStepFI cm f kernMask h cs kernOf i b p fl).map (·.1) = kernStepF cm f kernMask h cs kernOf i b p fl ∧
    (machineKernLoopFI cm f kernMask h cs kernOf fuel i b p fl).map (·.1) =
      machineKernLoopF cm f kernMask h cs kernOf fuel i b p fl ∧
    (machineKernFI f b p kernMask d cs kernOf).map (·.1) = machineKernF f b p kernMask d cs kernOf ∧
    (kerxSimpleFI lc f b p kernMask d cs kernOf).map (·.1) = kerxSimpleF lc f b p kernMask d cs kernOf :=
  ⟨kernStepFI_erase .., machineKernLoopFI_erase .., machineKernFI_erase .., kerxSimpleFI_erase ..⟩

/-- **one kerned pair (a) — `machine_kern` and its kerx copy (`cm`)**: an iteration of the loop at `i < len` that applied a
    non-zero kerning value found its right glyph `j` with the mark-skipping iterator; every index the iterator READ — the skipped
    glyphs and `j` itself — lies in `(i, j + 1)`; the positions were updated by `kernPair` (split `kern >> 1` / rest, or
    cross-stream: only `pos[j]`'s cross-axis offset, HAS_GPOS_ATTACHMENT); the flag call was `unsafe_to_break(i, j + 1)` —
    NOT `(i, i + 2)` —, after which exactly the glyphs of `[i, j]` outside the span's minimum cluster `m` carry
    `UNSAFE_TO_BREAK | UNSAFE_TO_CONCAT` (`Upd`, `BreakFlagged` glyph by glyph) and the loop continues at `j`.
    Frame: no position outside `{i, j}` changes (cross-stream: none but `j`).  Monotone clusters, all three cluster levels,
    every font / kern mask / direction / kerning function. -/
theorem C03_kern_pair_flags_inspected (cm : Bool) (f : Font) (kernMask : Nat) (h cs : Bool) (kernOf : Nat → Nat → Int)
    (i : Nat) (b : Buf) (p : Array Pos) (fl : Bool) (i' : Nat) (b' : Buf) (p' : Array Pos) (fl' : Bool) (e : KEvent)
    (hs : kernStepFI cm f kernMask h cs kernOf i b p fl = .ok ((i', b', p', fl'), some e)) (hk : e.kern ≠ 0)
    (hi : i < b.len) (hlen : b.len ≤ b.info.length)
    (hu32 : ∀ q x, q < b.len → b.info[q]? = some x → x.cluster ≤ U32MAX) (hmono : MonoRange b.info 0 b.len) :
    ∃ j gi gj f1 m, e.i = i ∧ e.found = true ∧ e.stop = j ∧ i' = j ∧ i < j ∧ j < b.len ∧
      b.info[i]? = some gi ∧ b.info[j]? = some gj ∧ gi.mask &&& kernMask ≠ 0 ∧ e.kern = kernOf gi.gid gj.gid ∧
      (∀ r ∈ e.reads, i < r ∧ r < j + 1) ∧ j ∈ e.reads ∧
      liftG (Kern.kernPair p i j e.kern h cs) = .ok (p', f1) ∧ fl' = (fl || f1) ∧
      b.unsafeToBreak i (some (j + 1)) = .ok b' ∧
      IsRangeMin b.info i (j + 1) m ∧
      Upd b.info b'.info i (j + 1) (neCl m) (orMask (Flag.UNSAFE_TO_BREAK ||| Flag.UNSAFE_TO_CONCAT)) ∧
      (∀ q, i ≤ q → q ≤ j → ∃ x, b.info[q]? = some x ∧ BreakFlagged b'.info q x m) ∧
      p'.size = p.size ∧ (∀ q, q ≠ i → q ≠ j → p'[q]? = p[q]?) ∧
      (cs = true → f1 = true ∧ ∀ q, q ≠ j → p'[q]? = p[q]?) := by
  obtain ⟨gi, hgi, _, s2⟩ := kernStepFI_spec cm f kernMask h cs kernOf i b p fl i' b' p' fl' _ hs hi
  obtain ⟨hm, hei, t1, t2⟩ := s2 e rfl
  have hf : e.found = true := by
    cases hf : e.found with
    | true => rfl
    | false => exact absurd (t1 hf).2.2.2.1 hk
  obtain ⟨hi', hij, hjl, hjm, hrd, gj, hgj, hke, _, k1⟩ := t2 hf
  obtain ⟨f1, hl, hfl, hb⟩ := k1 hk
  obtain ⟨m, hmin, hupd, hall⟩ := kernStepFI_break b b' i e.stop hb hij hjl ⟨hlen, hu32, hmono⟩
  have hkp := liftG_ok _ _ hl
  obtain ⟨hsz, hfr⟩ := Kern.kernPair_frame hkp
  refine ⟨e.stop, gi, gj, f1, m, hei, hf, rfl, hi', hij, hjl, hgi, hgj, hm, hke, ?_, hjm, hl, hfl, hb, hmin, hupd, hall,
    hsz, hfr, ?_⟩
  · intro r hr; have := hrd r hr; omega
  · intro hc; subst hc; exact kernPair_cross hkp

-- non-vacuity: base 1 | mark | mark | base 2 with the pair (1, 2) = -50: the iterator reads 1, 2, 3 and stops at j = 3, the
-- span is [0, 4): the two marks AND the right base are flagged (a span [0, 2) would leave glyphs 2 and 3 without the flag)
example : (kernStepFI false {} 256 true false spanKernOf 0 (spanKernBuf 64 256) spanKernPos false).map
      (fun r => (r.1.1, r.1.2.1.info.map (·.mask), r.1.2.2.1.toList.map (·.xa), r.2.map KEvent.view))
    = .ok (3, [256, 259, 259, 259], [575, 0, 0, 475], some (0, [1, 2, 3], true, 3, -50)) := by rfl
example : (0 : Nat) < (spanKernBuf 64 256).len ∧ (spanKernBuf 64 256).len ≤ (spanKernBuf 64 256).info.length ∧
    (∀ q x, q < (spanKernBuf 64 256).len → (spanKernBuf 64 256).info[q]? = some x → x.cluster ≤ U32MAX) ∧
    MonoRange (spanKernBuf 64 256).info 0 (spanKernBuf 64 256).len :=
  ⟨by decide, by decide, fun q x _ hx => u32_of_all (by decide) q x hx, MonoRange.of_pairwise (by decide) _ _⟩
-- cross-stream: only the right base moves (y_offset), the attachment flag is set
example : (kernStepFI false {} 256 true true spanKernOf 0 (spanKernBuf 64 256) spanKernPos false).map
      (fun r => (r.1.2.2.1.toList.map (·.xa), r.1.2.2.1.toList.map (·.yo), r.1.2.2.2))
    = .ok ([600, 0, 0, 500], [0, 0, 0, -50], true) := by rfl

/-- **the whole `machine_kern` (a)**: the loop runs to the end of the buffer (`len ≤ iEnd`: the fuel never ends it), only ORs
    flag bits into masks (`Grown`; nothing else of the buffer but the scratch flag changes), and for EVERY iteration that
    reached the iterator (`evs`, in loop order): the reads lie in `(i, stop]` resp. `(i, stop)`, and when a non-zero value was
    applied to the pair `(i, j = stop)`, at the END of `machine_kern` every glyph of `[i, j]` whose cluster differs from the
    span's minimum cluster `m` carries UNSAFE_TO_BREAK — later iterations never take it away.  Monotone clusters. -/
theorem C03_kern_machine_flags_inspected (f : Font) (b : Buf) (p : Array Pos) (kernMask : Nat) (d : Dir) (cs : Bool)
    (kernOf : Nat → Nat → Int) (bF : Buf) (pF : Array Pos) (flF : Bool) (evs : List KEvent) (iEnd : Nat)
    (h : machineKernFI f b p kernMask d cs kernOf = .ok ((bF, pF, flF), evs, iEnd))
    (hlen : b.len ≤ b.info.length) (hu32 : ∀ q x, q < b.len → b.info[q]? = some x → x.cluster ≤ U32MAX)
    (hmono : MonoRange b.info 0 b.len) :
    machineKernF f b p kernMask d cs kernOf = .ok (bF, pF, flF) ∧ b.len ≤ iEnd ∧
    bF = { b with info := bF.info, scratch := bF.scratch } ∧ Grown b.info bF.info ∧
    ∀ e ∈ evs, e.i < b.len ∧
      (e.found = false → e.kern = 0 ∧ e.i < e.stop ∧ e.stop ≤ b.len ∧ ∀ r ∈ e.reads, e.i < r ∧ r < e.stop) ∧
      (e.found = true → e.i < e.stop ∧ e.stop < b.len ∧ e.stop ∈ e.reads ∧ (∀ r ∈ e.reads, e.i < r ∧ r ≤ e.stop) ∧
        (e.kern ≠ 0 → ∃ m, IsRangeMin b.info e.i (e.stop + 1) m ∧
          ∀ q x, e.i ≤ q → q ≤ e.stop → b.info[q]? = some x → x.cluster ≠ m →
            ∃ y, bF.info[q]? = some y ∧ y.cluster = x.cluster ∧ y.mask &&& Flag.UNSAFE_TO_BREAK ≠ 0)) := by
  have he := machineKernFI_erase f b p kernMask d cs kernOf
  rw [h] at he
  unfold machineKernFI at h
  cases h0 : b.unsafeToConcat 0 none with
  | error e => simp [h0] at h
  | ok b0 =>
    simp only [h0] at h
    obtain ⟨hg0, _⟩ := leadingConcat_spec b b0 h0 hlen
    obtain ⟨hg, _, hend, hevs⟩ := kernEntry_spec false f kernMask _ cs kernOf b b0 p bF pF flF evs iEnd hg0 h ⟨hlen, hu32, hmono⟩
    refine ⟨he.symm, hend, hg.1, hg.2, ?_⟩
    intro e hm
    obtain ⟨a0, a1, a2⟩ := hevs e hm
    refine ⟨a0, ?_, a2⟩
    intro hf
    obtain ⟨c0, c1, c2, c3, _⟩ := a1 hf
    exact ⟨c0, c1, c2, c3⟩

example : (machineKernFI {} (spanKernBuf 64 256) spanKernPos 256 .ltr false spanKernOf).map kernView
    = .ok ([258, 259, 259, 259], [575, 0, 0, 475], [(0, [1, 2, 3], true, 3, -50), (3, [], false, 4, 0)], 4) := by rfl

/-- **(d) the kerx simple-format driver**: `apply_simple_kerning` of aat_layout_kerx_table.rs (formats 0 / 2 / 6) does NOT call
    `machine_kern`; it is a textual copy of the loop (`C03_kern_pair_flags_inspected` is stated for both, parameter `cm`).  The
    whole-function statement for the copy: same conclusion as `C03_kern_machine_flags_inspected`. -/
theorem C03_kerx_simple_flags_inspected (lc : Bool) (f : Font) (b : Buf) (p : Array Pos) (kernMask : Nat) (d : Dir)
    (cs : Bool) (kernOf : Nat → Nat → Int) (bF : Buf) (pF : Array Pos) (flF : Bool) (evs : List KEvent) (iEnd : Nat)
    (h : kerxSimpleFI lc f b p kernMask d cs kernOf = .ok ((bF, pF, flF), evs, iEnd))
    (hlen : b.len ≤ b.info.length) (hu32 : ∀ q x, q < b.len → b.info[q]? = some x → x.cluster ≤ U32MAX)
    (hmono : MonoRange b.info 0 b.len) :
    kerxSimpleF lc f b p kernMask d cs kernOf = .ok (bF, pF, flF) ∧ b.len ≤ iEnd ∧
    bF = { b with info := bF.info, scratch := bF.scratch } ∧ Grown b.info bF.info ∧
    ∀ e ∈ evs, e.i < b.len ∧
      (e.found = true → e.i < e.stop ∧ e.stop < b.len ∧ e.stop ∈ e.reads ∧ (∀ r ∈ e.reads, e.i < r ∧ r ≤ e.stop) ∧
        (e.kern ≠ 0 → ∃ m, IsRangeMin b.info e.i (e.stop + 1) m ∧
          ∀ q x, e.i ≤ q → q ≤ e.stop → b.info[q]? = some x → x.cluster ≠ m →
            ∃ y, bF.info[q]? = some y ∧ y.cluster = x.cluster ∧ y.mask &&& Flag.UNSAFE_TO_BREAK ≠ 0)) := by
  have he := kerxSimpleFI_erase lc f b p kernMask d cs kernOf
  rw [h] at he
  unfold kerxSimpleFI at h
  cases h0 : (if lc = true then b.unsafeToConcat 0 none else .ok b) with
  | error e => simp [h0] at h
  | ok b0 =>
    simp only [h0] at h
    have hg0 : BufGrown b b0 := by
      cases lc with
      | false => simp only [Bool.false_eq_true, if_false, Except.ok.injEq] at h0; subst h0; exact BufGrown.refl _
      | true => simp only [if_true] at h0; exact (leadingConcat_spec b b0 h0 hlen).1
    obtain ⟨hg, _, hend, hevs⟩ := kernEntry_spec true f kernMask _ cs kernOf b b0 p bF pF flF evs iEnd hg0 h ⟨hlen, hu32, hmono⟩
    refine ⟨he.symm, hend, hg.1, hg.2, ?_⟩
    intro e hm
    obtain ⟨a0, _, a2⟩ := hevs e hm
    exact ⟨a0, a2⟩

example : (kerxSimpleFI false {} (spanKernBuf 64 256) spanKernPos 256 .ltr false spanKernOf).map kernView
    = .ok ([256, 259, 259, 259], [575, 0, 0, 475], [(0, [1, 2, 3], true, 3, -50), (3, [], false, 4, 0)], 4) := by rfl

/-- **the instrumented PairPos find is the find**: dropping the reads and the path tag gives `pairFind`, and
    `pairPosApplyIt` is "find, then act" (`pairPosApply` of GposFlag.lean) by definition. -/
theorem C03_pairpos_instrumented_same (c : Ctx) (pd : PairData) : (pairFindI c pd).map (·.1) = pairFind c pd :=
  pairFindI_erase c pd

/-- **(b) PairPos formats 1 and 2, success**: `PairAdjustment::apply` returns `Some(())` exactly on the path where the pair has
    records; then the second glyph `j` was found by the skipping iterator, every index READ (the current glyph, the skipped
    glyphs, `j`) lies in `[idx, j + 1)`, and the span is flagged UNSAFE_TO_BREAK iff a value record "worked"
    (`f1 || f2`, `f_k` = record k non-empty and `apply_to_pos` returned true — characterised by `C03_value_worked_iff`):
    then the call is `unsafe_to_break(idx, j + 1)` and right after it (`b1`) every read glyph outside the span's minimum
    cluster carries the flag, and still does in the final buffer `b'` (after `finish`, which with a second record only adds
    the flags of `[idx, j + 2)`); otherwise the call is `unsafe_to_concat(idx, j + 1)` (see
    `C04_pairpos_fail_flags_inspected`).  Monotone clusters over `[idx, len)`, all cluster levels, every subtable content. -/
theorem C03_pairpos_flags_inspected (c : Ctx) (p p' : Array Pos) (pd : PairData) (useX useY : Bool) (d : Dir) (b' : Buf)
    (ap : Bool) (h : pairPosApplyIt c p pd useX useY d = .ok (b', p', ap))
    (hidx : c.buf.idx < c.buf.len) (hlen : c.buf.len ≤ c.buf.info.length)
    (hu32 : ∀ k x, c.buf.idx ≤ k → k < c.buf.len → c.buf.info[k]? = some x → x.cluster ≤ U32MAX)
    (hmono : MonoRange c.buf.info c.buf.idx c.buf.len) :
    ∃ found rs why, pairFindI c pd = .ok (found, rs, why) ∧
      pairPosApply c.buf p found useX useY d = .ok (b', p', ap) ∧
      (ap = true ↔ why = .records) ∧
      (ap = true → ∃ j v1 v2 f1 f2, found = .records j v1 v2 ∧
        c.buf.idx < j ∧ j < c.buf.len ∧ c.buf.idx ∈ rs ∧ j ∈ rs ∧ (∀ i ∈ rs, c.buf.idx ≤ i ∧ i < j + 1) ∧
        liftG (pairApplyD v1 v2 useX useY d p c.buf.idx j) = .ok (p', f1, f2) ∧
        ((f1 || f2) = true →
          ∃ b1 m, c.buf.unsafeToBreak c.buf.idx (some (j + 1)) = .ok b1 ∧ pairFinish b1 j (!v2.isEmpty) = .ok b' ∧
            IsRangeMin c.buf.info c.buf.idx (j + 1) m ∧
            ∀ i ∈ rs, ∃ x, c.buf.info[i]? = some x ∧ BreakFlagged b1.info i x m ∧
              (x.cluster ≠ m → ∃ y, b'.info[i]? = some y ∧ y.cluster = x.cluster ∧ y.mask &&& Flag.UNSAFE_TO_BREAK ≠ 0)) ∧
        ((f1 || f2) = false →
          ∃ b1, c.buf.unsafeToConcat c.buf.idx (some (j + 1)) = .ok b1 ∧ pairFinish b1 j (!v2.isEmpty) = .ok b')) := by
  obtain ⟨found, rs, why, hF, _, hA⟩ := pairPosApplyIt_split c p p' pd useX useY d b' ap h
  obtain ⟨s1, s2, s3, s4, s5, s6, s7, s8⟩ := pairFindI_span c pd found rs why hF hidx
  refine ⟨found, rs, why, hF, hA, ?_⟩
  cases found with
  | notCovered =>
    obtain ⟨_, _, rfl⟩ := pairPosApply_notCovered _ _ _ _ _ _ _ _ hA
    refine ⟨⟨(fun h => by cases h), fun hw => ?_⟩, fun h => by cases h⟩
    obtain ⟨_, _, _, hc, _⟩ := s5 hw; cases hc
  | noSecond u =>
    obtain ⟨_, _, rfl⟩ := pairPosApply_noSecond _ _ _ _ _ _ _ _ _ hA
    refine ⟨⟨(fun h => by cases h), fun hw => ?_⟩, fun h => by cases h⟩
    obtain ⟨_, _, _, hc, _⟩ := s5 hw; cases hc
  | noRecord j =>
    obtain ⟨_, _, rfl⟩ := pairPosApply_noRecord _ _ _ _ _ _ _ _ _ hA
    refine ⟨⟨(fun h => by cases h), fun hw => ?_⟩, fun h => by cases h⟩
    obtain ⟨_, _, _, hc, _⟩ := s5 hw; cases hc
  | records j v1 v2 =>
    have hw := s8 j v1 v2 rfl
    obtain ⟨j', v1', v2', hc, hij, hjm, sp⟩ := s5 hw
    cases hc
    obtain ⟨rfl, f1, f2, hl, hbr, hco⟩ := pairPosApply_records _ _ _ _ _ _ _ _ _ _ _ hA
    refine ⟨⟨fun _ => hw, fun _ => rfl⟩, fun _ => ⟨j, v1, v2, f1, f2, rfl, hij, by have := sp.hi; omega, sp.cur, hjm, sp.all, hl, ?_, hco⟩⟩
    intro hf
    obtain ⟨b1, hb1, hfin⟩ := hbr hf
    obtain ⟨hb1', hg1, m, hmin, hfl⟩ := sp.breakFlagged hb1 hlen hu32 hmono
    refine ⟨b1, m, hb1, hfin, hmin, ?_⟩
    have hidx1 : b1.idx = c.buf.idx := by rw [hb1']
    have hlen1 : b1.len = c.buf.len := by rw [hb1']
    obtain ⟨hg2, _⟩ := pairFinish_grown b1 b' j (!v2.isEmpty) hfin (by omega) (by have := sp.hi; omega)
      (by rw [hlen1, ← hg1.1] at *; exact hlen)
      (by rw [hidx1, hlen1]; exact hg1.u32 hu32)
    intro i hi
    obtain ⟨x, hx, hbf⟩ := hfl i hi
    refine ⟨x, hx, hbf, ?_⟩
    intro hne
    obtain ⟨y, hy, hyeq, hor⟩ := hbf
    rcases hor with hor | hor
    · exact absurd hor hne
    · obtain ⟨z, hz, hzc, hzm⟩ := hg2.bit hy Flag.UNSAFE_TO_BREAK hor
      refine ⟨z, hz, ?_, hzm⟩
      rw [hzc, hyeq]; split <;> rfl

-- non-vacuity: first 1 | mark | second 3 under IgnoreMarks: reads [0, 1, 2], the record moves glyph 0 by -50, the mark and the
-- second glyph are flagged, the cursor moves to the second glyph
example : (pairPosApplyIt (spanPairCtx 64 3) spanPairPos spanPairData false false .ltr).map pairView
    = .ok ([256, 259, 259], 2, [550, 0, 500], true) := by rfl
example : (pairFindI (spanPairCtx 64 3) spanPairData).map (fun r => (r.2.1, r.2.2)) = .ok ([0, 1, 2], .records) := by rfl
example : (spanPairCtx 64 3).buf.idx < (spanPairCtx 64 3).buf.len ∧
    (spanPairCtx 64 3).buf.len ≤ (spanPairCtx 64 3).buf.info.length ∧
    (∀ k x, (spanPairCtx 64 3).buf.idx ≤ k → k < (spanPairCtx 64 3).buf.len → (spanPairCtx 64 3).buf.info[k]? = some x →
      x.cluster ≤ U32MAX) ∧
    MonoRange (spanPairCtx 64 3).buf.info (spanPairCtx 64 3).buf.idx (spanPairCtx 64 3).buf.len :=
  ⟨by decide, by decide, fun k x _ _ hx => u32_of_all (by decide) k x hx, MonoRange.of_pairwise (by decide) _ _⟩

/-- **the compiled crate flags the span the theorems say** (regenerated on every run, tools/gens/pairflag.py → Gen/PairFlag.lean):
    on `base mark mark base` with the pair kerned by -50 the masks `machine_kern` of the crate left are the masks of the model,
    whose one kerned pair is `(i, j) = (0, 3)` with reads `[1, 2, 3]` and span `[0, j + 1)`
    (`C03_kern_pair_flags_inspected`) — a crate that flags `[i, i + 2)` leaves glyphs 2 and 3 without the flag and breaks this. -/
theorem C03_gen_kern_span :
    (machineKernFI {} { info := Gen.PairFlag.kernInfos.map infoK, len := 4, flags := Gen.PairFlag.bufFlags }
        spanKernPos Gen.PairFlag.kernMask .ltr false spanKernOf).map
      (fun r => (r.1.1.info.map (·.mask), r.2.1.map KEvent.view))
    = .ok (Gen.PairFlag.kernMasks, [(0, [1, 2, 3], true, 3, -50), (3, [], false, 4, 0)]) := by rfl

/-- the same for `apply_simple_kerning` of the kerx table (format 0 subtable, the plan's own kern mask) -/
theorem C03_gen_kerx_span :
    (kerxSimpleFI false {}
        { info := Gen.PairFlag.kernInfos.map (fun t => infoK (t.1, Gen.PairFlag.kerxMask, t.2.2)), len := 4,
          flags := Gen.PairFlag.bufFlags }
        spanKernPos Gen.PairFlag.kerxMask .ltr false spanKernOf).map
      (fun r => (r.1.1.info.map (·.mask), r.2.1.map KEvent.view))
    = .ok (Gen.PairFlag.kerxMasks, [(0, [1, 2, 3], true, 3, -50), (3, [], false, 4, 0)]) := by rfl

/-- the same for PairPos format 1 on `first mark second` under IgnoreMarks (`C03_pairpos_flags_inspected`: span `[idx, j + 1)`) -/
theorem C03_gen_pairpos_span :
    (pairPosApplyIt { spanPairCtx Gen.PairFlag.bufFlags 3 with
        buf := { (spanPairCtx Gen.PairFlag.bufFlags 3).buf with info := Gen.PairFlag.pairInfosHit.map infoP } }
      spanPairPos spanPairData false false .ltr).map (fun r => (r.1.info.map (·.mask), r.2.2))
    = .ok (Gen.PairFlag.pairMasksHit, Gen.PairFlag.pairAppliedHit) := by rfl

end RbModel.PairFlag

/-! ### pair kerning / pair positioning: the reads are complete (decision locality), and the frame of the whole kern loop -/
namespace RbModel.PairFlag
open RbModel RbModel.Gsub RbModel.GposFlag RbModel.Flags
open RbModel.Gpos (Pos Dir ValueRecordD)

/-- **the kern decision depends on the glyphs read and on nothing else**: two buffers of the same length that hold the same
    glyph at `i` and at every index the iterator read (in the first) go through the same iteration — same event (pair, reads,
    kerning value), same next `i`, same new positions, same attachment flag.  So the list of reads in
    `C03_kern_pair_flags_inspected` is complete: nothing outside `{i} ∪ reads ⊆ [i, j + 1)` can influence what the pair does. -/
theorem C03_kern_decision_local (cm : Bool) (f : Font) (kernMask : Nat) (h cs : Bool) (kernOf : Nat → Nat → Int) (i : Nat)
    (b1 b2 : Buf) (p : Array Pos) (fl : Bool) (i1 i2 : Nat) (b1' b2' : Buf) (p1 p2 : Array Pos) (fl1 fl2 : Bool)
    (ev1 ev2 : Option KEvent)
    (h1 : kernStepFI cm f kernMask h cs kernOf i b1 p fl = .ok ((i1, b1', p1, fl1), ev1))
    (h2 : kernStepFI cm f kernMask h cs kernOf i b2 p fl = .ok ((i2, b2', p2, fl2), ev2))
    (hi : i < b1.len) (hlen : b2.len = b1.len) (hcur : b1.info[i]? = b2.info[i]?)
    (hag : ∀ e, ev1 = some e → ∀ r ∈ e.reads, b1.info[r]? = b2.info[r]?) :
    ev2 = ev1 ∧ i2 = i1 ∧ p2 = p1 ∧ fl2 = fl1 := by
  have d1 := kernStepFI_decide _ _ _ _ _ _ _ _ _ _ _ _ h1
  have d2 := kernStepFI_decide _ _ _ _ _ _ _ _ _ _ _ _ h2
  have d1' := kernDecideI_local f kernMask kernOf i b1.info b2.info b1.len ev1 d1 hcur hag
  rw [hlen, d1'] at d2
  have hev : ev2 = ev1 := (Except.ok.inj d2).symm
  subst hev
  obtain ⟨g1, hg1, s1, s2⟩ := kernStepFI_spec _ _ _ _ _ _ _ _ _ _ _ _ _ _ _ h1 hi
  obtain ⟨g2, hg2, t1, t2⟩ := kernStepFI_spec _ _ _ _ _ _ _ _ _ _ _ _ _ _ _ h2 (by omega)
  refine ⟨rfl, ?_⟩
  cases ev2 with
  | none =>
    obtain ⟨_, a1, _, a2, a3⟩ := s1 rfl
    obtain ⟨_, c1, _, c2, c3⟩ := t1 rfl
    exact ⟨by omega, by rw [a2, c2], by rw [a3, c3]⟩
  | some e =>
    obtain ⟨_, _, u1, u2⟩ := s2 e rfl
    obtain ⟨_, _, v1, v2⟩ := t2 e rfl
    cases hf : e.found with
    | false =>
      obtain ⟨a1, a2, a3, _⟩ := u1 hf
      obtain ⟨c1, c2, c3, _⟩ := v1 hf
      exact ⟨by omega, by rw [a2, c2], by rw [a3, c3]⟩
    | true =>
      obtain ⟨a1, _, _, _, _, _, _, _, k0, k1⟩ := u2 hf
      obtain ⟨c1, _, _, _, _, _, _, _, l0, l1⟩ := v2 hf
      refine ⟨by omega, ?_⟩
      by_cases hk : e.kern = 0
      · obtain ⟨_, a2, a3⟩ := k0 hk
        obtain ⟨_, c2, c3⟩ := l0 hk
        exact ⟨by rw [a2, c2], by rw [a3, c3]⟩
      · obtain ⟨f1, x1, x2, _⟩ := k1 hk
        obtain ⟨f2, y1, y2, _⟩ := l1 hk
        rw [x1] at y1
        simp only [Except.ok.injEq, Prod.mk.injEq] at y1
        exact ⟨y1.1.symm, by rw [x2, y2, y1.2]⟩

-- non-vacuity: change the glyph AFTER the right base (index 4, never read) — the pair (0, 3) is kerned all the same
example : ((kernStepFI false {} 256 true false spanKernOf 0
      { spanKernBuf 64 256 with info := (spanKernBuf 64 256).info ++ [infoK (5, 256, 2, 7, 4)], len := 5 } spanKernPos false).map
        (fun r => r.2.map KEvent.view),
    (kernStepFI false {} 256 true false spanKernOf 0
      { spanKernBuf 64 256 with info := (spanKernBuf 64 256).info ++ [infoK (9, 0, 8, 39, 9)], len := 5 } spanKernPos false).map
        (fun r => r.2.map KEvent.view))
    = (.ok (some (0, [1, 2, 3], true, 3, -50)), .ok (some (0, [1, 2, 3], true, 3, -50))) := by rfl

/-- **the PairPos decision depends on the glyphs read and on nothing else**: a context with the same lookup settings and buffer
    geometry whose buffer holds the same glyphs at the indices read finds the same second glyph on the same path. -/
theorem C03_pairpos_decision_local (c1 c2 : Ctx) (hs : Similar c1 c2) (pd : PairData) (found : PairFound) (rs : List Nat)
    (why : PairWhy) (h : pairFindI c1 pd = .ok (found, rs, why))
    (hag : ∀ i ∈ rs, c1.buf.info[i]? = c2.buf.info[i]?) : pairFindI c2 pd = .ok (found, rs, why) :=
  pairFindI_local hs pd found rs why h hag

example : ∃ c2 : Ctx, Similar (spanPairCtx 64 3) c2 ∧ c2.buf.info ≠ (spanPairCtx 64 3).buf.info ∧
    ∀ i ∈ [0, 1, 2], (spanPairCtx 64 3).buf.info[i]? = c2.buf.info[i]? :=
  ⟨{ spanPairCtx 64 3 with buf := { (spanPairCtx 64 3).buf with info := (spanPairCtx 64 3).buf.info ++ [{ gid := 77 }] } },
   ⟨rfl, rfl, rfl, rfl, rfl, rfl, rfl, rfl, rfl, rfl, rfl⟩, by decide, by decide⟩

/-- **frame of the whole kern loop** (machine_kern and the kerx copy, any fuel, any start): the position array keeps its size and
    a glyph that is neither the left nor the right glyph of a pair with a non-zero value keeps its position — in particular the
    skipped marks between the two bases of a pair (cross-stream subtables included: they write `pos[j]` only, see
    `C03_kern_pair_flags_inspected`; the offsets that `position_finish_offsets` later accumulates along the attachment chain are
    the recorded finding C03-cross-stream-kern). -/
theorem C03_kern_loop_frame (cm : Bool) (f : Font) (kernMask : Nat) (h cs : Bool) (kernOf : Nat → Nat → Int) (fuel i : Nat)
    (b : Buf) (p : Array Pos) (fl : Bool) (bF : Buf) (pF : Array Pos) (flF : Bool) (evs : List KEvent) (iEnd : Nat)
    (hr : machineKernLoopFI cm f kernMask h cs kernOf fuel i b p fl = .ok ((bF, pF, flF), evs, iEnd)) :
    pF.size = p.size ∧
    ∀ q, (∀ e ∈ evs, e.found = true → e.kern ≠ 0 → q ≠ e.i ∧ q ≠ e.stop) → pF[q]? = p[q]? :=
  machineKernLoopFI_frame cm f kernMask h cs kernOf fuel i b p fl bF pF flF evs iEnd hr

end RbModel.PairFlag
