/-
  C10 — Lookup prefilters (glyph-set digests) never change the shaping result.
  Property theorems only; helper lemmas are in Lemmas/Digest.lean.
  All theorems are for every shift, every prior mask, every glyph id / range (no enumeration).
-/
import RbModel.Lemmas.Digest
import RbModel.Lemmas.GsubCoverage
import RbModel.Gen.Digest

namespace RbModel.Digest

/-! ## one bit pattern -/

/-- `add` then `may_have_glyph` answers true. -/
theorem C10_add_sound (s m g : Nat) : mayHaveGlyph s (add s m g) g = true := by
  rw [mayHaveGlyph_iff]; unfold add maskFor
  rw [Nat.testBit_or, Nat.testBit_two_pow]; simp

/-- `add` never clears a bit: what was reported present stays present. -/
theorem C10_add_mono (s m g h : Nat) (hh : mayHaveGlyph s m h = true) :
    mayHaveGlyph s (add s m g) h = true := by
  rw [mayHaveGlyph_iff] at *; unfold add
  rw [Nat.testBit_or, hh]; rfl

/-- `add_range(a, b)` reports every glyph of `[a, b]` present — for every shift, every prior mask
    and every range of 16-bit (indeed 64-bit) ids, including the wrap-around and saturation paths. -/
theorem C10_range_sound (s m a b g : Nat) (hb : b < 2 ^ 64) (hag : a ≤ g) (hgb : g ≤ b) :
    mayHaveGlyph s (addRange s m a b).1 g = true := by
  rw [mayHaveGlyph_iff]
  have hk : (g >>> s) % 64 < 64 := Nat.mod_lt _ (by decide)
  unfold addRange
  split
  · rename_i h; simp only; rw [h]; exact testBit_FULL hk
  · split
    · exact testBit_FULL hk
    · rename_i _ hguard
      simp only
      rw [Nat.testBit_or, rangeMask_testBit hb hag hgb hguard]; simp

theorem C10_range_mono (s m a b h : Nat) (hh : mayHaveGlyph s m h = true) :
    mayHaveGlyph s (addRange s m a b).1 h = true := by
  rw [mayHaveGlyph_iff] at *
  have hk : (h >>> s) % 64 < 64 := Nat.mod_lt _ (by decide)
  unfold addRange
  split
  · exact hh
  · split
    · exact testBit_FULL hk
    · simp only; rw [Nat.testBit_or, hh]; rfl

/-- two masks that both report `g` intersect. -/
theorem C10_may_have_sound (s m o g : Nat) (h1 : mayHaveGlyph s m g = true)
    (h2 : mayHaveGlyph s o g = true) : mayHave m o = true := by
  rw [mayHaveGlyph_iff] at h1 h2
  unfold mayHave
  rw [bne_iff_ne]
  intro h0
  have : (m &&& o).testBit ((g >>> s) % 64) = true := by rw [Nat.testBit_and, h1, h2]; rfl
  rw [h0] at this; simp at this

/-- The overflow-checked build does not trap inside `add_range` for an ordered range. -/
theorem C10_range_no_trap (s m a b : Nat) (hb : b < 2 ^ 64) (hab : a ≤ b) :
    addRangeTraps s m a b = false := by
  unfold addRangeTraps
  have hA := shiftRight_mono s hab
  have hBlt : b >>> s < W64 := Nat.lt_of_le_of_lt (shiftRight_le_self b s) hb
  split
  · rfl
  · split
    · omega
    · split
      · rfl
      · rename_i _ _ hg
        unfold maskFor
        generalize a >>> s = A at *
        generalize b >>> s = B at *
        by_cases hij : A % 64 ≤ B % 64
        · have hP : 2 ^ (A % 64) ≤ 2 ^ (B % 64) := Nat.pow_le_pow_right (by decide) hij
          have hQ : 2 ^ (B % 64) ≤ 2 ^ 63 := Nat.pow_le_pow_right (by decide) (by omega)
          have h63 : (2:Nat) ^ 63 = 9223372036854775808 := by decide
          have hpos := Nat.two_pow_pos (A % 64)
          generalize 2 ^ (A % 64) = P at *
          generalize 2 ^ (B % 64) = Q at *
          unfold wsub
          rw [W64_eq]
          have : ¬ Q < P := by omega
          simp only [this, if_false]
          simp
          omega
        · have h1 : B % 64 + 2 ≤ A % 64 := by omega
          have hP : 2 ^ (B % 64 + 2) ≤ 2 ^ (A % 64) := Nat.pow_le_pow_right (by decide) h1
          have hQ : 2 ^ (A % 64) ≤ 2 ^ 63 := Nat.pow_le_pow_right (by decide) (by omega)
          have h63 : (2:Nat) ^ 63 = 9223372036854775808 := by decide
          have hs2 : 2 ^ (B % 64 + 2) = 4 * 2 ^ (B % 64) := by rw [Nat.pow_succ, Nat.pow_succ]; omega
          have hpos := Nat.two_pow_pos (B % 64)
          rw [hs2] at hP
          generalize 2 ^ (A % 64) = P at *
          generalize 2 ^ (B % 64) = Q at *
          unfold wsub
          rw [W64_eq]
          have : Q < P := by omega
          simp only [this, if_true]
          simp
          omega

/-- …but an inverted range record (malformed coverage table) does trap there: known finding D18. -/
theorem known_C01_add_range_inverted : addRangeTraps 0 0 5 3 = true := by decide

/-! ## the three-pattern combiner, coverage collection, buffer digest -/

theorem Digest.add_length (shifts : List Nat) (d : Digest) (g : Nat) :
    (Digest.add shifts d g).length = d.length := by
  induction shifts generalizing d with
  | nil => simp [Digest.add]
  | cons s ss ih => cases d with
    | nil => simp [Digest.add]
    | cons m ms => simp [Digest.add, ih]

theorem Digest.addRange_length (shifts : List Nat) (d : Digest) (a b : Nat) :
    (Digest.addRange shifts d a b).1.length = d.length := by
  induction shifts generalizing d with
  | nil => simp [Digest.addRange]
  | cons s ss ih => cases d with
    | nil => simp [Digest.addRange]
    | cons m ms => simp [Digest.addRange, ih]

theorem C10_combiner_add_sound (shifts : List Nat) (d : Digest) (g : Nat) :
    Digest.mayHaveGlyph shifts (Digest.add shifts d g) g = true := by
  induction shifts generalizing d with
  | nil => simp [Digest.mayHaveGlyph]
  | cons s ss ih => cases d with
    | nil => simp [Digest.add, Digest.mayHaveGlyph]
    | cons m ms => simp [Digest.add, Digest.mayHaveGlyph, C10_add_sound, ih]

theorem C10_combiner_add_mono (shifts : List Nat) (d : Digest) (g h : Nat)
    (hh : Digest.mayHaveGlyph shifts d h = true) :
    Digest.mayHaveGlyph shifts (Digest.add shifts d g) h = true := by
  induction shifts generalizing d with
  | nil => simp [Digest.mayHaveGlyph]
  | cons s ss ih => cases d with
    | nil => simp [Digest.add, Digest.mayHaveGlyph]
    | cons m ms =>
      simp [Digest.add, Digest.mayHaveGlyph] at *
      exact ⟨C10_add_mono s m g h hh.1, ih ms hh.2⟩

theorem C10_combiner_range_sound (shifts : List Nat) (d : Digest) (a b g : Nat) (hb : b < 2 ^ 64)
    (hag : a ≤ g) (hgb : g ≤ b) :
    Digest.mayHaveGlyph shifts (Digest.addRange shifts d a b).1 g = true := by
  induction shifts generalizing d with
  | nil => simp [Digest.mayHaveGlyph]
  | cons s ss ih => cases d with
    | nil => simp [Digest.addRange, Digest.mayHaveGlyph]
    | cons m ms =>
      simp [Digest.addRange, Digest.mayHaveGlyph]
      exact ⟨C10_range_sound s m a b g hb hag hgb, ih ms⟩

theorem C10_combiner_range_mono (shifts : List Nat) (d : Digest) (a b h : Nat)
    (hh : Digest.mayHaveGlyph shifts d h = true) :
    Digest.mayHaveGlyph shifts (Digest.addRange shifts d a b).1 h = true := by
  induction shifts generalizing d with
  | nil => simp [Digest.mayHaveGlyph]
  | cons s ss ih => cases d with
    | nil => simp [Digest.addRange, Digest.mayHaveGlyph]
    | cons m ms =>
      simp [Digest.addRange, Digest.mayHaveGlyph] at *
      exact ⟨C10_range_mono s m a b h hh.1, ih ms hh.2⟩

/-- soundness lifts through `hb_set_digest_combiner_t::may_have` -/
theorem C10_combiner_may_have_sound (shifts : List Nat) (d o : Digest) (g : Nat)
    (hd : d.length = shifts.length) (ho : o.length = shifts.length)
    (h1 : Digest.mayHaveGlyph shifts d g = true) (h2 : Digest.mayHaveGlyph shifts o g = true) :
    Digest.mayHave d o = true := by
  induction shifts generalizing d o with
  | nil =>
    cases d with
    | nil => simp [Digest.mayHave]
    | cons _ _ => simp at hd
  | cons s ss ih =>
    cases d with
    | nil => simp at hd
    | cons m ms => cases o with
      | nil => simp at ho
      | cons n ns =>
        simp [Digest.mayHaveGlyph, Digest.mayHave] at *
        exact ⟨C10_may_have_sound s m n g h1.1 h2.1, ih ms ns hd ho h1.2 h2.2⟩

theorem Digest.addArray_length (shifts : List Nat) (d : Digest) (gs : List Nat) :
    (Digest.addArray shifts d gs).length = d.length := by
  unfold Digest.addArray
  induction gs generalizing d with
  | nil => rfl
  | cons g gs ih => simp [List.foldl, ih, Digest.add_length]

theorem C10_array_mono (shifts : List Nat) (d : Digest) (gs : List Nat) (h : Nat)
    (hh : Digest.mayHaveGlyph shifts d h = true) :
    Digest.mayHaveGlyph shifts (Digest.addArray shifts d gs) h = true := by
  unfold Digest.addArray
  induction gs generalizing d with
  | nil => exact hh
  | cons g gs ih => exact ih _ (C10_combiner_add_mono shifts d g h hh)

/-- `add_array` reports every element of the array. -/
theorem C10_array_sound (shifts : List Nat) (d : Digest) (gs : List Nat) (g : Nat) (hg : g ∈ gs) :
    Digest.mayHaveGlyph shifts (Digest.addArray shifts d gs) g = true := by
  unfold Digest.addArray
  induction gs generalizing d with
  | nil => cases hg
  | cons x xs ih =>
    simp only [List.foldl]
    cases List.mem_cons.mp hg with
    | inl h =>
      subst h
      exact C10_array_mono shifts _ xs g (C10_combiner_add_sound shifts d g)
    | inr h => exact ih _ h

def Coverage.WF : Coverage → Prop
  | .glyphs _ => True
  | .ranges rs => ∀ r ∈ rs, r.2 < 2 ^ 64

theorem collect_length (shifts : List Nat) (d : Digest) (c : Coverage) :
    (collect shifts d c).length = d.length := by
  cases c with
  | glyphs gs => exact Digest.addArray_length shifts d gs
  | ranges rs =>
    unfold collect
    induction rs generalizing d with
    | nil => rfl
    | cons r rs ih => simp [List.foldl, ih, Digest.addRange_length]

theorem collect_mono (shifts : List Nat) (d : Digest) (c : Coverage) (h : Nat)
    (hh : Digest.mayHaveGlyph shifts d h = true) :
    Digest.mayHaveGlyph shifts (collect shifts d c) h = true := by
  cases c with
  | glyphs gs => exact C10_array_mono shifts d gs h hh
  | ranges rs =>
    unfold collect
    induction rs generalizing d with
    | nil => exact hh
    | cons r rs ih => exact ih _ (C10_combiner_range_mono shifts d r.1 r.2 h hh)

/-- Collecting a coverage table into a digest reports every covered glyph. -/
theorem C10_collect_sound (shifts : List Nat) (d : Digest) (c : Coverage) (hwf : c.WF) (g : Nat)
    (hg : c.covers g = true) : Digest.mayHaveGlyph shifts (collect shifts d c) g = true := by
  cases c with
  | glyphs gs =>
    simp [Coverage.covers] at hg
    exact C10_array_sound shifts d gs g hg
  | ranges rs =>
    unfold collect
    simp only [Coverage.covers] at hg
    induction rs generalizing d with
    | nil => simp at hg
    | cons r rs ih =>
      simp only [List.foldl]
      simp only [List.any_cons, Bool.or_eq_true, Bool.and_eq_true, decide_eq_true_eq] at hg
      cases hg with
      | inl h =>
        have hr : r.2 < 2 ^ 64 := hwf r (List.mem_cons_self ..)
        have := C10_combiner_range_sound shifts d r.1 r.2 g hr h.1 h.2
        exact collect_mono shifts _ (.ranges rs) g this
      | inr h =>
        exact ih _ (fun r' hr' => hwf r' (List.mem_cons_of_mem _ hr')) h

theorem lookupDigest_length (shifts : List Nat) (covs : List Coverage) :
    (lookupDigest shifts covs).length = shifts.length := by
  unfold lookupDigest
  have : ∀ d : Digest, (covs.foldl (collect shifts) d).length = d.length := by
    induction covs with
    | nil => intro d; rfl
    | cons c cs ih => intro d; simp [List.foldl, ih, collect_length]
  rw [this]; simp [Digest.new]

/-- A lookup's digest reports every glyph covered by any of its subtables. -/
theorem C10_lookup_digest_sound (shifts : List Nat) (covs : List Coverage)
    (hwf : ∀ c ∈ covs, c.WF) (c : Coverage) (hc : c ∈ covs) (g : Nat) (hg : c.covers g = true) :
    Digest.mayHaveGlyph shifts (lookupDigest shifts covs) g = true := by
  unfold lookupDigest
  have mono : ∀ (cs : List Coverage) (d : Digest), Digest.mayHaveGlyph shifts d g = true →
      Digest.mayHaveGlyph shifts (cs.foldl (collect shifts) d) g = true := by
    intro cs
    induction cs with
    | nil => intro d h; exact h
    | cons x xs ih => intro d h; exact ih _ (collect_mono shifts d x g h)
  generalize Digest.new shifts = d0
  induction covs generalizing d0 with
  | nil => cases hc
  | cons x xs ih =>
    simp only [List.foldl]
    cases List.mem_cons.mp hc with
    | inl h =>
      subst h
      exact mono xs _ (C10_collect_sound shifts d0 c (hwf c (List.mem_cons_self ..)) g hg)
    | inr h => exact ih (fun c' hc' => hwf c' (List.mem_cons_of_mem _ hc')) h _

theorem bufferDigest_length (shifts : List Nat) (gids : List Nat) :
    (bufferDigest shifts gids).length = shifts.length := by
  unfold bufferDigest; rw [Digest.addArray_length]; simp [Digest.new]

/-- The buffer digest reports every glyph in the buffer. -/
theorem C10_buffer_digest_sound (shifts : List Nat) (gids : List Nat) (g : Nat) (hg : g ∈ gids) :
    Digest.mayHaveGlyph shifts (bufferDigest shifts gids) g = true :=
  C10_array_sound shifts _ gids g hg

/-- The digest stays valid while substitutions introduce new glyphs in the middle of a run:
    `set_glyph_class` calls `digest.add(new_glyph)`; afterwards the digest reports the new glyph
    and everything it reported before. -/
theorem C10_buffer_digest_inv (shifts : List Nat) (d : Digest) (present : List Nat) (g : Nat)
    (hinv : ∀ x ∈ present, Digest.mayHaveGlyph shifts d x = true) :
    ∀ x ∈ g :: present, Digest.mayHaveGlyph shifts (Digest.add shifts d g) x = true := by
  intro x hx
  cases List.mem_cons.mp hx with
  | inl h => subst h; exact C10_combiner_add_sound shifts d x
  | inr h => exact C10_combiner_add_mono shifts d g x (hinv x h)

/-- Skipping a whole lookup is sound: if the lookup digest and the buffer digest do not intersect,
    no glyph in the buffer is covered by any subtable of the lookup (so applying it is the identity).
    `bd` is any digest that is valid for the buffer (see `C10_buffer_digest_inv`). -/
theorem C10_skip_lookup_sound (shifts : List Nat) (covs : List Coverage) (hwf : ∀ c ∈ covs, c.WF)
    (bd : Digest) (hbd : bd.length = shifts.length) (gids : List Nat)
    (hinv : ∀ x ∈ gids, Digest.mayHaveGlyph shifts bd x = true)
    (hskip : Digest.mayHave (lookupDigest shifts covs) bd = false) :
    ∀ g ∈ gids, ∀ c ∈ covs, c.covers g = false := by
  intro g hg c hc
  cases hcov : c.covers g with
  | false => rfl
  | true =>
    have h1 := C10_lookup_digest_sound shifts covs hwf c hc g hcov
    have h2 := hinv g hg
    have := C10_combiner_may_have_sound shifts _ bd g (lookupDigest_length shifts covs) hbd h1 h2
    rw [this] at hskip; cases hskip

/-- Skipping one position is sound: if the lookup digest does not report the current glyph,
    no subtable covers it. -/
theorem C10_skip_position_sound (shifts : List Nat) (covs : List Coverage) (hwf : ∀ c ∈ covs, c.WF)
    (g : Nat) (hskip : Digest.mayHaveGlyph shifts (lookupDigest shifts covs) g = false) :
    ∀ c ∈ covs, c.covers g = false := by
  intro c hc
  cases hcov : c.covers g with
  | false => rfl
  | true =>
    have h1 := C10_lookup_digest_sound shifts covs hwf c hc g hcov
    rw [h1] at hskip; cases hskip

/-! ## tables that are not sorted: whatever the binary search of `Coverage::get` can find is in the digest

`Coverage.covers` is membership, not the search; the theorems above therefore never assumed a sorted table.  The search
itself (`Coverage.find`, ttf-parser's `binary_search_by` as written) is tied to membership here, for EVERY list — sorted,
unsorted, with duplicates, with overlapping or inverted ranges: a glyph the search finds is an entry of the table. -/

theorem bsearchBy_spec {α : Type} (gt eq : α → Bool) (xs : List α) (i : Nat) (v : α)
    (h : bsearchBy gt eq xs = some (i, v)) : xs[i]? = some v ∧ eq v = true := by
  unfold bsearchBy at h
  split at h
  · cases h
  · split at h
    · cases h
    · rename_i base _
      split at h
      · cases h
      · rename_i w hw
        split at h
        · rename_i he
          injection h with h
          injection h with h1 h2
          subst h1; subst h2
          exact ⟨hw, he⟩
        · cases h

/-- A glyph that the binary search of `Coverage::get` finds is an entry of the table (no order assumed). -/
theorem C10_find_covers (c : Coverage) (g i : Nat) (h : c.find g = some i) : c.covers g = true := by
  cases c with
  | glyphs gs =>
    simp only [Coverage.find, Option.map_eq_some_iff] at h
    obtain ⟨⟨j, v⟩, hb, _⟩ := h
    obtain ⟨hv, he⟩ := bsearchBy_spec _ _ gs j v hb
    have hmem : v ∈ gs := List.mem_of_getElem? hv
    have : v = g := by simpa using he
    subst this
    simp [Coverage.covers, hmem]
  | ranges rs =>
    simp only [Coverage.find, Option.map_eq_some_iff] at h
    obtain ⟨⟨j, v⟩, hb, _⟩ := h
    obtain ⟨hv, he⟩ := bsearchBy_spec _ _ rs j v hb
    have hmem : v ∈ rs := List.mem_of_getElem? hv
    simp only [Coverage.covers, List.any_eq_true]
    exact ⟨v, hmem, he⟩

/-- Collecting a coverage table — in whatever order it is written — reports every glyph `Coverage::get` can find. -/
theorem C10_collect_sound_found (shifts : List Nat) (d : Digest) (c : Coverage) (hwf : c.WF) (g i : Nat)
    (h : c.find g = some i) : Digest.mayHaveGlyph shifts (collect shifts d c) g = true :=
  C10_collect_sound shifts d c hwf g (C10_find_covers c g i h)

/-- The lookup digest reports every glyph that the coverage search of any subtable can find. -/
theorem C10_lookup_digest_sound_found (shifts : List Nat) (covs : List Coverage)
    (hwf : ∀ c ∈ covs, c.WF) (c : Coverage) (hc : c ∈ covs) (g i : Nat) (h : c.find g = some i) :
    Digest.mayHaveGlyph shifts (lookupDigest shifts covs) g = true :=
  C10_lookup_digest_sound shifts covs hwf c hc g (C10_find_covers c g i h)

/-- Skipping a position is sound on malformed tables too: if the lookup digest does not report the glyph, the coverage
    search of no subtable finds it. -/
theorem C10_skip_position_sound_found (shifts : List Nat) (covs : List Coverage) (hwf : ∀ c ∈ covs, c.WF)
    (g : Nat) (hskip : Digest.mayHaveGlyph shifts (lookupDigest shifts covs) g = false) :
    ∀ c ∈ covs, c.find g = none := by
  intro c hc
  cases hf : c.find g with
  | none => rfl
  | some i =>
    have := C10_lookup_digest_sound_found shifts covs hwf c hc g i hf
    rw [this] at hskip; cases hskip

/-! ## the digest discipline of `apply_layout_table` around a pause function

    src: ot_layout.rs::apply_layout_table — `if func(plan, face, ctx.buffer) { ctx.digest = ctx.buffer.digest(); }`.
    `d` is the context digest before the pause, `gids` / `gids'` the glyph ids of the buffer before / after it and
    `changed` what the pause function returned.  The contract a pause function owes: when it answers `false` it has not
    brought a new glyph id into the buffer (reordering is fine).  Under it the hypothesis `hinv` of
    `C10_skip_lookup_sound` survives every stage; the monitor `digestmon` (hook `layout::digest_monitor`) checks that
    very hypothesis on the crate after every stage. -/
theorem C10_pause_keeps_digest_valid (shifts : List Nat) (d : Digest) (gids gids' : List Nat) (changed : Bool)
    (hinv : ∀ x ∈ gids, Digest.mayHaveGlyph shifts d x = true)
    (hcontract : changed = false → ∀ x ∈ gids', x ∈ gids) :
    ∀ x ∈ gids', Digest.mayHaveGlyph shifts (if changed then bufferDigest shifts gids' else d) x = true := by
  intro x hx
  cases changed with
  | true => simpa using C10_buffer_digest_sound shifts gids' x hx
  | false => simpa using hinv x (hcontract rfl x hx)

/-- non-vacuity of the hypotheses (an inserted glyph, reported) -/
example : ∀ x ∈ [7, 3, 5], Digest.mayHaveGlyph [4, 0, 9]
    (if true then bufferDigest [4, 0, 9] [7, 3, 5] else bufferDigest [4, 0, 9] [3, 5]) x = true :=
  C10_pause_keeps_digest_valid [4, 0, 9] _ [3, 5] [7, 3, 5] true
    (fun x hx => C10_buffer_digest_sound _ _ x hx) (by intro h; cases h)

/-- The contract is needed: a pause function that inserts glyph 2 next to glyph 1 and answers `false` leaves a digest
    that does not report the new glyph — and a lookup covering only glyph 2 is then skipped as a whole although the buffer
    holds a glyph it covers (with the compiled crate's shifts). -/
theorem C10_stale_digest_skips_covering_lookup :
    Digest.mayHaveGlyph RbModel.Gen.Digest.shifts (bufferDigest RbModel.Gen.Digest.shifts [1]) 2 = false ∧
    Digest.mayHave (lookupDigest RbModel.Gen.Digest.shifts [.glyphs [2]]) (bufferDigest RbModel.Gen.Digest.shifts [1]) = false ∧
    (Coverage.glyphs [2]).covers 2 = true := by decide

/-! ## non-vacuity -/
-- an array that is not sorted: the search still finds 13 (at index 3) and 3 (at index 2), not 10 and 11
example : (Coverage.glyphs [10, 11, 3, 13]).find 13 = some 3 ∧ (Coverage.glyphs [10, 11, 3, 13]).find 3 = some 2
    ∧ (Coverage.glyphs [10, 11, 3, 13]).find 10 = none := by decide
example : (Coverage.ranges [(20, 30), (5, 8), (25, 40)]).find 33 = some 2 ∧ (Coverage.ranges [(9, 2)]).find 5 = none := by decide
example : Digest.mayHaveGlyph [4, 0, 9] (lookupDigest [4, 0, 9] [.glyphs [10, 11, 3, 13]]) 13 = true := by decide
example : mayHaveGlyph 4 (addRange 4 0 1000 1900).1 1500 = true := by decide
example : (addRange 0 0 60 70).2 = true ∧ (addRange 0 0 0 63).2 = false := by decide
example : Digest.mayHave (lookupDigest [4, 0, 9] [.ranges [(10, 20)]]) (bufferDigest [4, 0, 9] [300])
    = false := by decide

end RbModel.Digest

/-! ## end-to-end: skipping is a no-op of the lookup interpreter (Gsub.lean) -/

namespace RbModel.Gsub
open RbModel RbModel.Digest

/-- the digest `SubstLookup::parse` builds for a lookup of the interpreter model -/
def Lookup.digest (shifts : List Nat) (l : Lookup) : Digest.Digest :=
  lookupDigest shifts (l.subtables.map fun st => Coverage.glyphs st.coverage)

/-- **Per-position prefilter.** If the lookup's digest does not report the current glyph, applying the lookup
    at this position (`SubstLookup::apply`, any nesting level, any recursion callback) leaves the whole apply
    context unchanged and reports "not applied" — exactly what the skipped call would have produced. -/
theorem C10_skip_position_is_noop (shifts : List Nat) (recurse : Ctx → Nat → M (Ctx × Bool)) (full : Bool)
    (c : Ctx) (l : Lookup) (cur : Info) (hcur : c.buf.info[c.buf.idx]? = some cur)
    (hskip : Digest.Digest.mayHaveGlyph shifts (l.digest shifts) (cur.gid % 65536) = false) :
    applySubtables recurse full c l.subtables = .ok (c, false) := by
  apply applySubtables_not_covered recurse full c l.subtables cur hcur
  intro st hst hmem
  have hwf : ∀ cv ∈ l.subtables.map (fun st => Coverage.glyphs st.coverage), cv.WF := by
    intro cv hcv
    obtain ⟨s, _, rfl⟩ := List.mem_map.mp hcv
    trivial
  have := C10_skip_position_sound shifts _ hwf (cur.gid % 65536) hskip (Coverage.glyphs st.coverage)
    (List.mem_map.mpr ⟨st, hst, rfl⟩)
  simp [Coverage.covers] at this
  exact this hmem

/-- **Whole-lookup prefilter.** If the lookup digest and a digest that is valid for the buffer do not intersect,
    the lookup applies at no position of the buffer. -/
theorem C10_skip_lookup_is_noop (shifts : List Nat) (recurse : Ctx → Nat → M (Ctx × Bool)) (full : Bool)
    (c : Ctx) (l : Lookup) (bd : Digest.Digest) (hbd : bd.length = shifts.length)
    (hinv : ∀ x ∈ c.buf.info, Digest.Digest.mayHaveGlyph shifts bd (x.gid % 65536) = true)
    (hskip : Digest.Digest.mayHave (l.digest shifts) bd = false)
    (cur : Info) (hcur : c.buf.info[c.buf.idx]? = some cur) :
    applySubtables recurse full c l.subtables = .ok (c, false) := by
  apply applySubtables_not_covered recurse full c l.subtables cur hcur
  intro st hst hmem
  have hwf : ∀ cv ∈ l.subtables.map (fun st => Coverage.glyphs st.coverage), cv.WF := by
    intro cv hcv
    obtain ⟨s, _, rfl⟩ := List.mem_map.mp hcv
    trivial
  have hmemcur : cur ∈ c.buf.info := List.mem_of_getElem? hcur
  have := C10_skip_lookup_sound shifts _ hwf bd hbd (c.buf.info.map fun x => x.gid % 65536)
    (by intro g hg; obtain ⟨x, hx, rfl⟩ := List.mem_map.mp hg; exact hinv x hx) hskip
    (cur.gid % 65536) (List.mem_map.mpr ⟨cur, hmemcur, rfl⟩) (Coverage.glyphs st.coverage)
    (List.mem_map.mpr ⟨st, hst, rfl⟩)
  simp [Coverage.covers] at this
  exact this hmem

end RbModel.Gsub
