/-
  C06 — GSUB lookups follow the OpenType substitution model.
  Part 1 (this file, so far): the streaming buffer refines a list zipper.
-/
import RbModel.Buf

namespace RbModel.Buf

/-- The source has the memmove-safe variants of the two buffer routines the refinement rests on:
    the rewind loop of `move_to` copies backwards, and `ensure` never shrinks the two Vecs.
    (Recovered from the compiled crate by three probe calls on every run, see tools/gens/buf.py.) -/
theorem C06_gen_buffer_variants :
    Gen.Buf.moveToRewindReversed = true ∧ Gen.Buf.ensureGrowOnly = true := by decide

end RbModel.Buf
