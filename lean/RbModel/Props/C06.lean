/-
  C06 — GSUB lookups follow the OpenType substitution model.
  Part 1: the streaming in/out buffer refines a list zipper.

  `Buf.seq b q` is the q-th glyph of the logical sequence `out[0..outLen) ++ info[idx..len)`,
  `Buf.Inv` the representation invariant of the in/out mode (Lemmas/BufZipper.lean).  Every theorem is for
  all buffers satisfying `Inv` (any sizes, any contents, separate or shared out-buffer) and is a statement
  about the operational model of buffer.rs, tied to the crate by the `buf-walks` correspondence stream.
  A primitive may also refuse at the length budget; then it only marks the buffer unsuccessful.
-/
import RbModel.Lemmas.BufZipper

namespace RbModel.Buf

/-- The source has the memmove-safe variants of the two buffer routines the refinement rests on:
    the rewind loop of `move_to` copies backwards, and `ensure` never shrinks the two Vecs.
    (Recovered from the compiled crate by probe calls on every run, see tools/gens/buf.py.) -/
theorem C06_gen_buffer_variants :
    Gen.Buf.moveToRewindReversed = true ∧ Gen.Buf.ensureGrowOnly = true := by decide

/-- the logical glyph sequence as a list -/
def logical (b : Buf) : List Info :=
  b.outArr.take b.outLen ++ (b.info.drop b.idx).take (b.len - b.idx)

theorem logical_getElem? (b : Buf) (hinv : Inv b) (q : Nat) : (logical b)[q]? = seq b q := by
  have hidx := hinv.idx_le
  have hlen := hinv.len_le
  have hcap : b.outLen ≤ b.outArr.length := by
    cases hs : b.sepOut with
    | true => have := hinv.sep_ok hs; simp [outArr, hs]; omega
    | false => have := hinv.nosep_ok hs; simp [outArr, hs]; omega
  have hl1 : (b.outArr.take b.outLen).length = b.outLen := by simp; omega
  unfold logical seq
  by_cases h1 : q < b.outLen
  · simp only [h1, if_true]
    rw [List.getElem?_append_left (by omega), List.getElem?_take]
    simp [h1]
  · simp only [h1, if_false]
    rw [List.getElem?_append_right (by omega), hl1, List.getElem?_take]
    by_cases h2 : q - b.outLen < b.len - b.idx
    · simp only [h2, if_true, List.getElem?_drop]
    · simp only [h2, if_false]

theorem logical_length (b : Buf) (hinv : Inv b) : (logical b).length = total b := by
  have hidx := hinv.idx_le
  have hlen := hinv.len_le
  have hcap : b.outLen ≤ b.outArr.length := by
    cases hs : b.sepOut with
    | true => have := hinv.sep_ok hs; simp [outArr, hs]; omega
    | false => have := hinv.nosep_ok hs; simp [outArr, hs]; omega
  unfold logical total
  simp; omega

/-- **move_to is a zipper move.** For every in/out buffer state and every target `i` within the logical
    sequence: `move_to(i)` does not panic; if it returns `true`, the logical glyph sequence is unchanged
    (nothing duplicated, lost or reordered — in both output modes, forwards and backwards, with or without
    the shift of the unconsumed input) and exactly `i` glyphs are on the output side; if it returns `false`,
    the buffer is marked unsuccessful.  (False before the repairs D5, D6, D19 of DESIGN.md §4.) -/
theorem C06_zipper_move_to (b : Buf) (i : Nat) (hinv : Inv b) (hi : i ≤ total b) :
    ∃ b' r, b.moveTo i = .ok (b', r) ∧
      (r = false → b'.successful = false) ∧
      (r = true → Inv b' ∧ b'.outLen = i ∧ logical b' = logical b ∧ b'.successful = b.successful) := by
  obtain ⟨b', r, h, hf, ht⟩ := moveTo_spec b i hinv hi (by decide) (by decide)
  refine ⟨b', r, h, hf, ?_⟩
  intro hr
  obtain ⟨hinv', ho, htot, hseq, hsu, _⟩ := ht hr
  refine ⟨hinv', ho, ?_, hsu⟩
  apply List.ext_getElem?
  intro q
  rw [logical_getElem? b' hinv', logical_getElem? b hinv, hseq q]

/-- `next_glyph` moves the current glyph across the cursor and changes nothing else. -/
theorem C06_zipper_next (b : Buf) (hinv : Inv b) (hcur : b.idx < b.len) :
    ∃ b', b.nextGlyph = .ok b' ∧
      (b' = { b with successful := false } ∨
       (Inv b' ∧ b'.outLen = b.outLen + 1 ∧ logical b' = logical b ∧ b'.successful = b.successful)) := by
  obtain ⟨b', h, hc⟩ := nextGlyph_spec b hinv hcur (by decide)
  refine ⟨b', h, ?_⟩
  rcases hc with hf | ⟨hinv', ho, _, _, hsu, hseq⟩
  · exact Or.inl hf
  · refine Or.inr ⟨hinv', ho, ?_, hsu⟩
    apply List.ext_getElem?
    intro q
    rw [logical_getElem? b' hinv', logical_getElem? b hinv, hseq q]

/-- `next_glyphs n` -/
theorem C06_zipper_next_n (b : Buf) (n : Nat) (hinv : Inv b) (hn : b.idx + n ≤ b.len) :
    ∃ b', b.nextGlyphs n = .ok b' ∧
      (b' = { b with successful := false } ∨
       (Inv b' ∧ b'.outLen = b.outLen + n ∧ logical b' = logical b ∧ b'.successful = b.successful)) := by
  obtain ⟨b', h, hc⟩ := nextGlyphs_spec b n hinv hn (by decide)
  refine ⟨b', h, ?_⟩
  rcases hc with hf | ⟨hinv', ho, _, _, hsu, hseq⟩
  · exact Or.inl hf
  · refine Or.inr ⟨hinv', ho, ?_, hsu⟩
    apply List.ext_getElem?
    intro q
    rw [logical_getElem? b' hinv', logical_getElem? b hinv, hseq q]

/-- `replace_glyph g` replaces the glyph id of the current glyph (everything else of that glyph and every
    other glyph unchanged) and moves it across the cursor. -/
theorem C06_zipper_replace (b : Buf) (g : Nat) (hinv : Inv b) (hcur : b.idx < b.len) :
    ∃ b', b.replaceGlyph g = .ok b' ∧
      (b' = { b with successful := false } ∨
       (Inv b' ∧ b'.outLen = b.outLen + 1 ∧ b'.successful = b.successful ∧
        ∃ x, (logical b)[b.outLen]? = some x ∧ logical b' = (logical b).set b.outLen { x with gid := g })) := by
  obtain ⟨b', h, hc⟩ := replaceGlyph_spec b g hinv hcur (by decide)
  refine ⟨b', h, ?_⟩
  rcases hc with hf | ⟨hinv', ho, _, _, hsu, x, hx, hseq⟩
  · exact Or.inl hf
  · refine Or.inr ⟨hinv', ho, hsu, x, ?_, ?_⟩
    · rw [logical_getElem? b hinv, seq_at_outLen b hcur]; exact hx
    · apply List.ext_getElem?
      intro q
      rw [logical_getElem? b' hinv', hseq q]
      by_cases hq : q = b.outLen
      · subst hq
        have hlt : b.outLen < (logical b).length := by
          rw [logical_length b hinv]; unfold total; omega
        simp only [if_true]
        rw [List.getElem?_set_self hlt]
      · simp only [hq, if_false]
        rw [List.getElem?_set_ne (by omega), logical_getElem? b hinv]

/-- `output_info x` inserts `x` at the cursor. -/
theorem C06_zipper_output_info (b : Buf) (x : Info) (hinv : Inv b) :
    ∃ b', b.outputInfo x = .ok b' ∧
      (b' = { b with successful := false } ∨
       (Inv b' ∧ b'.outLen = b.outLen + 1 ∧ b'.successful = b.successful ∧
        logical b' = (logical b).take b.outLen ++ x :: (logical b).drop b.outLen)) := by
  obtain ⟨b', h, hc⟩ := outputInfo_spec b x hinv (by decide)
  refine ⟨b', h, ?_⟩
  rcases hc with hf | ⟨hinv', ho, _, _, hsu, hseq⟩
  · exact Or.inl hf
  · refine Or.inr ⟨hinv', ho, hsu, ?_⟩
    have hlen := logical_length b hinv
    have hol : b.outLen ≤ (logical b).length := by rw [hlen]; unfold total; omega
    apply List.ext_getElem?
    intro q
    rw [logical_getElem? b' hinv', hseq q]
    have htl : ((logical b).take b.outLen).length = b.outLen := by simp; omega
    by_cases h1 : q < b.outLen
    · simp only [h1, if_true]
      rw [List.getElem?_append_left (by omega), List.getElem?_take, ← logical_getElem? b hinv]
      simp [h1]
    · simp only [h1, if_false]
      rw [List.getElem?_append_right (by omega), htl]
      by_cases h2 : q = b.outLen
      · subst h2; simp
      · simp only [h2, if_false]
        have : q - b.outLen = (q - b.outLen - 1) + 1 := by omega
        rw [this, List.getElem?_cons_succ, List.getElem?_drop, ← logical_getElem? b hinv]
        congr 1; omega

/-- `skip_glyph` (the core of `delete_glyph`) removes the current glyph from the logical sequence. -/
theorem C06_zipper_skip (b : Buf) (hinv : Inv b) (hcur : b.idx < b.len) :
    Inv b.skipGlyph ∧ logical b.skipGlyph = (logical b).eraseIdx b.outLen := by
  obtain ⟨hinv', hseq⟩ := skipGlyph_spec b hinv hcur hinv.nosep_ok
  refine ⟨hinv', ?_⟩
  apply List.ext_getElem?
  intro q
  rw [logical_getElem? _ hinv', hseq q, List.getElem?_eraseIdx]
  by_cases h1 : q < b.outLen
  · simp only [h1, if_true]; exact (logical_getElem? b hinv q).symm
  · simp only [h1, if_false]; exact (logical_getElem? b hinv (q + 1)).symm

/-- `sync` ends the pass: the buffer content is the logical sequence. -/
theorem C06_zipper_sync (b : Buf) (hinv : Inv b) :
    ∃ b' r, b.sync = .ok (b', r) ∧
      (b'.successful = false ∨
       (r = true ∧ b'.idx = 0 ∧ b'.haveOutput = false ∧ b'.info.take b'.len = logical b)) := by
  obtain ⟨b', r, h, hc⟩ := sync_spec b hinv (by decide)
  refine ⟨b', r, h, ?_⟩
  rcases hc with hf | ⟨hr, hl, hi, _, hho, _, hle, _, hq⟩
  · exact Or.inl hf
  · refine Or.inr ⟨hr, hi, hho, ?_⟩
    apply List.ext_getElem?
    intro q
    rw [List.getElem?_take, logical_getElem? b hinv]
    by_cases h1 : q < b'.len
    · simp only [h1, if_true]; exact hq q h1
    · simp only [h1, if_false]
      symm
      rw [← logical_getElem? b hinv]
      apply List.getElem?_eq_none
      rw [logical_length b hinv]; omega

/-! ## non-vacuity: a reachable state with both an out-part and an in-part, in separate-output mode -/
def exampleBuf : Buf :=
  { info := [⟨1,0,0,0,0⟩, ⟨2,0,1,0,0⟩, ⟨3,0,2,0,0⟩, ⟨4,0,3,0,0⟩], out := [⟨9,0,0,0,0⟩, ⟨8,0,0,0,0⟩, ⟨7,0,1,0,0⟩, {}],
    idx := 2, len := 4, outLen := 3, haveOutput := true, sepOut := true }

example : Inv exampleBuf := ⟨by decide, by decide, by decide, by decide, by decide, by decide⟩
example : (logical exampleBuf).map (·.gid) = [9, 8, 7, 3, 4] := by decide
example : (match exampleBuf.moveTo 1 with
    | .ok (b', r) => ((logical b').map (·.gid), b'.outLen, r) == ([9, 8, 7, 3, 4], 1, true)
    | .error _ => false) = true := by decide

end RbModel.Buf
