/-
  C06 — GSUB lookups follow the OpenType substitution model.
  Part 1: the streaming in/out buffer refines a list zipper.

  `Buf.seq b q` is the q-th glyph of the logical sequence `out[0..outLen) ++ info[idx..len)`,
  `Buf.Inv` the representation invariant of the in/out mode (Lemmas/BufZipper.lean).  Every theorem is for
  all buffers satisfying `Inv` (any sizes, any contents, separate or shared out-buffer) and is a statement
  about the operational model of buffer.rs, tied to the crate by the `buf-walks` correspondence stream.
  A primitive may also refuse at the length budget; then it only marks the buffer unsuccessful.
-/
import RbModel.Lemmas.BufZipper
import RbModel.Lemmas.GsubFill
import RbModel.Lemmas.GsubSingleSpec
import RbModel.Lemmas.GsubAlternateSpec
import RbModel.Lemmas.GsubMultiSpec
import RbModel.Lemmas.GsubMultiDel
import RbModel.Lemmas.GsubMultiMixed
import RbModel.Lemmas.GsubLigFwd
import RbModel.Lemmas.GsubLigFlags
import RbModel.Lemmas.GsubLigMixed
import RbModel.Lemmas.GsubCtxMixed

namespace RbModel.Buf

/-- The source has the memmove-safe variants of the two buffer routines the refinement rests on:
    the rewind loop of `move_to` copies backwards, and `ensure` never shrinks the two Vecs.
    (Recovered from the compiled crate by probe calls on every run, see tools/gens/buf.py.) -/
theorem C06_gen_buffer_variants :
    Gen.Buf.moveToRewindReversed = true ∧ Gen.Buf.ensureGrowOnly = true := by decide

/-- the logical glyph sequence as a list -/
def logical (b : Buf) : List Info :=
  b.outArr.take b.outLen ++ (b.info.drop b.idx).take (b.len - b.idx)

theorem logical_getElem? (b : Buf) (hinv : Inv b) (q : Nat) : (logical b)[q]? = seq b q := by
  have hidx := hinv.idx_le
  have hlen := hinv.len_le
  have hcap : b.outLen ≤ b.outArr.length := by
    cases hs : b.sepOut with
    | true => have := hinv.sep_ok hs; simp [outArr, hs]; omega
    | false => have := hinv.nosep_ok hs; simp [outArr, hs]; omega
  have hl1 : (b.outArr.take b.outLen).length = b.outLen := by simp; omega
  unfold logical seq
  by_cases h1 : q < b.outLen
  · simp only [h1, if_true]
    rw [List.getElem?_append_left (by omega), List.getElem?_take]
    simp [h1]
  · simp only [h1, if_false]
    rw [List.getElem?_append_right (by omega), hl1, List.getElem?_take]
    by_cases h2 : q - b.outLen < b.len - b.idx
    · simp only [h2, if_true, List.getElem?_drop]
    · simp only [h2, if_false]

theorem logical_length (b : Buf) (hinv : Inv b) : (logical b).length = total b := by
  have hidx := hinv.idx_le
  have hlen := hinv.len_le
  have hcap : b.outLen ≤ b.outArr.length := by
    cases hs : b.sepOut with
    | true => have := hinv.sep_ok hs; simp [outArr, hs]; omega
    | false => have := hinv.nosep_ok hs; simp [outArr, hs]; omega
  unfold logical total
  simp; omega

/-- **move_to is a zipper move.** For every in/out buffer state and every target `i` within the logical
    sequence: `move_to(i)` does not panic; if it returns `true`, the logical glyph sequence is unchanged
    (nothing duplicated, lost or reordered — in both output modes, forwards and backwards, with or without
    the shift of the unconsumed input) and exactly `i` glyphs are on the output side; if it returns `false`,
    the buffer is marked unsuccessful.  (False before the repairs D5, D6, D19 of DESIGN.md §4.) -/
theorem C06_zipper_move_to (b : Buf) (i : Nat) (hinv : Inv b) (hi : i ≤ total b) :
    ∃ b' r, b.moveTo i = .ok (b', r) ∧
      (r = false → b'.successful = false) ∧
      (r = true → Inv b' ∧ b'.outLen = i ∧ logical b' = logical b ∧ b'.successful = b.successful) := by
  obtain ⟨b', r, h, hf, ht⟩ := moveTo_spec b i hinv hi (by decide) (by decide)
  refine ⟨b', r, h, hf, ?_⟩
  intro hr
  obtain ⟨hinv', ho, htot, hseq, hsu, _⟩ := ht hr
  refine ⟨hinv', ho, ?_, hsu⟩
  apply List.ext_getElem?
  intro q
  rw [logical_getElem? b' hinv', logical_getElem? b hinv, hseq q]

/-- `next_glyph` moves the current glyph across the cursor and changes nothing else. -/
theorem C06_zipper_next (b : Buf) (hinv : Inv b) (hcur : b.idx < b.len) :
    ∃ b', b.nextGlyph = .ok b' ∧
      (b' = { b with successful := false } ∨
       (Inv b' ∧ b'.outLen = b.outLen + 1 ∧ logical b' = logical b ∧ b'.successful = b.successful)) := by
  obtain ⟨b', h, hc⟩ := nextGlyph_spec b hinv hcur (by decide)
  refine ⟨b', h, ?_⟩
  rcases hc with hf | ⟨hinv', ho, _, _, hsu, hseq⟩
  · exact Or.inl hf
  · refine Or.inr ⟨hinv', ho, ?_, hsu⟩
    apply List.ext_getElem?
    intro q
    rw [logical_getElem? b' hinv', logical_getElem? b hinv, hseq q]

/-- `next_glyphs n` -/
theorem C06_zipper_next_n (b : Buf) (n : Nat) (hinv : Inv b) (hn : b.idx + n ≤ b.len) :
    ∃ b', b.nextGlyphs n = .ok b' ∧
      (b' = { b with successful := false } ∨
       (Inv b' ∧ b'.outLen = b.outLen + n ∧ logical b' = logical b ∧ b'.successful = b.successful)) := by
  obtain ⟨b', h, hc⟩ := nextGlyphs_spec b n hinv hn (by decide)
  refine ⟨b', h, ?_⟩
  rcases hc with hf | ⟨hinv', ho, _, _, hsu, hseq⟩
  · exact Or.inl hf
  · refine Or.inr ⟨hinv', ho, ?_, hsu⟩
    apply List.ext_getElem?
    intro q
    rw [logical_getElem? b' hinv', logical_getElem? b hinv, hseq q]

/-- `replace_glyph g` replaces the glyph id of the current glyph (everything else of that glyph and every
    other glyph unchanged) and moves it across the cursor. -/
theorem C06_zipper_replace (b : Buf) (g : Nat) (hinv : Inv b) (hcur : b.idx < b.len) :
    ∃ b', b.replaceGlyph g = .ok b' ∧
      (b' = { b with successful := false } ∨
       (Inv b' ∧ b'.outLen = b.outLen + 1 ∧ b'.successful = b.successful ∧
        ∃ x, (logical b)[b.outLen]? = some x ∧ logical b' = (logical b).set b.outLen { x with gid := g })) := by
  obtain ⟨b', h, hc⟩ := replaceGlyph_spec b g hinv hcur (by decide)
  refine ⟨b', h, ?_⟩
  rcases hc with hf | ⟨hinv', ho, _, _, hsu, x, hx, hseq⟩
  · exact Or.inl hf
  · refine Or.inr ⟨hinv', ho, hsu, x, ?_, ?_⟩
    · rw [logical_getElem? b hinv, seq_at_outLen b hcur]; exact hx
    · apply List.ext_getElem?
      intro q
      rw [logical_getElem? b' hinv', hseq q]
      by_cases hq : q = b.outLen
      · subst hq
        have hlt : b.outLen < (logical b).length := by
          rw [logical_length b hinv]; unfold total; omega
        simp only [if_true]
        rw [List.getElem?_set_self hlt]
      · simp only [hq, if_false]
        rw [List.getElem?_set_ne (by omega), logical_getElem? b hinv]

/-- `output_info x` inserts `x` at the cursor. -/
theorem C06_zipper_output_info (b : Buf) (x : Info) (hinv : Inv b) :
    ∃ b', b.outputInfo x = .ok b' ∧
      (b' = { b with successful := false } ∨
       (Inv b' ∧ b'.outLen = b.outLen + 1 ∧ b'.successful = b.successful ∧
        logical b' = (logical b).take b.outLen ++ x :: (logical b).drop b.outLen)) := by
  obtain ⟨b', h, hc⟩ := outputInfo_spec b x hinv (by decide)
  refine ⟨b', h, ?_⟩
  rcases hc with hf | ⟨hinv', ho, _, _, hsu, hseq⟩
  · exact Or.inl hf
  · refine Or.inr ⟨hinv', ho, hsu, ?_⟩
    have hlen := logical_length b hinv
    have hol : b.outLen ≤ (logical b).length := by rw [hlen]; unfold total; omega
    apply List.ext_getElem?
    intro q
    rw [logical_getElem? b' hinv', hseq q]
    have htl : ((logical b).take b.outLen).length = b.outLen := by simp; omega
    by_cases h1 : q < b.outLen
    · simp only [h1, if_true]
      rw [List.getElem?_append_left (by omega), List.getElem?_take, ← logical_getElem? b hinv]
      simp [h1]
    · simp only [h1, if_false]
      rw [List.getElem?_append_right (by omega), htl]
      by_cases h2 : q = b.outLen
      · subst h2; simp
      · simp only [h2, if_false]
        have : q - b.outLen = (q - b.outLen - 1) + 1 := by omega
        rw [this, List.getElem?_cons_succ, List.getElem?_drop, ← logical_getElem? b hinv]
        congr 1; omega

/-- `skip_glyph` (the core of `delete_glyph`) removes the current glyph from the logical sequence. -/
theorem C06_zipper_skip (b : Buf) (hinv : Inv b) (hcur : b.idx < b.len) :
    Inv b.skipGlyph ∧ logical b.skipGlyph = (logical b).eraseIdx b.outLen := by
  obtain ⟨hinv', hseq⟩ := skipGlyph_spec b hinv hcur hinv.nosep_ok
  refine ⟨hinv', ?_⟩
  apply List.ext_getElem?
  intro q
  rw [logical_getElem? _ hinv', hseq q, List.getElem?_eraseIdx]
  by_cases h1 : q < b.outLen
  · simp only [h1, if_true]; exact (logical_getElem? b hinv q).symm
  · simp only [h1, if_false]; exact (logical_getElem? b hinv (q + 1)).symm

/-- `sync` ends the pass: the buffer content is the logical sequence. -/
theorem C06_zipper_sync (b : Buf) (hinv : Inv b) :
    ∃ b' r, b.sync = .ok (b', r) ∧
      (b'.successful = false ∨
       (r = true ∧ b'.idx = 0 ∧ b'.haveOutput = false ∧ b'.info.take b'.len = logical b)) := by
  obtain ⟨b', r, h, hc⟩ := sync_spec b hinv (by decide)
  refine ⟨b', r, h, ?_⟩
  rcases hc with hf | ⟨hr, hl, hi, _, hho, _, hle, _, hq⟩
  · exact Or.inl hf
  · refine Or.inr ⟨hr, hi, hho, ?_⟩
    apply List.ext_getElem?
    intro q
    rw [List.getElem?_take, logical_getElem? b hinv]
    by_cases h1 : q < b'.len
    · simp only [h1, if_true]; exact hq q h1
    · simp only [h1, if_false]
      symm
      rw [← logical_getElem? b hinv]
      apply List.getElem?_eq_none
      rw [logical_length b hinv]; omega

/-! ## non-vacuity: a reachable state with both an out-part and an in-part, in separate-output mode -/
def exampleBuf : Buf :=
  { info := [⟨1,0,0,0,0⟩, ⟨2,0,1,0,0⟩, ⟨3,0,2,0,0⟩, ⟨4,0,3,0,0⟩], out := [⟨9,0,0,0,0⟩, ⟨8,0,0,0,0⟩, ⟨7,0,1,0,0⟩, {}],
    idx := 2, len := 4, outLen := 3, haveOutput := true, sepOut := true }

example : Inv exampleBuf := ⟨by decide, by decide, by decide, by decide, by decide, by decide⟩
example : (logical exampleBuf).map (·.gid) = [9, 8, 7, 3, 4] := by decide
example : (match exampleBuf.moveTo 1 with
    | .ok (b', r) => ((logical b').map (·.gid), b'.outLen, r) == ([9, 8, 7, 3, 4], 1, true)
    | .error _ => false) = true := by decide

end RbModel.Buf

/-! ## Part 2: the interpreter refines the OpenType substitution model — single substitution (GSUB type 1)

`Gsub.applyString` is the operational model of `apply_string` (in/out buffer, skipping iterator, `replace_glyph`,
`sync`); `Spec.Subst.applyLookupFwd` is the model written from the OpenType text over plain glyph lists.  For a
lookup all of whose subtables are single substitutions (format 1 or 2) the two give the same glyph string: same
glyph ids, same clusters, same masks, for every font, every lookup flag / mark filtering set, every buffer.
The other lookup types are tied to the specification by the `gsub-spec` search only (see DESIGN.md C06). -/
namespace RbModel.Gsub
open RbModel RbModel.Buf RbModel.Spec.Subst

/-- what the specification sees of a buffer item -/
def toG (x : Info) : G := { gid := x.gid, cluster := x.cluster, mask := x.mask }

theorem toG_substInfo (f : Font) (l : Lookup) (lm : Nat) (x : Info) (hgid : x.gid < 65536)
    (hsync : checkGlyphProperty f x l.props = !ignored f l.props (toG x)) :
    toG (substInfo f lm l.props l.subtables x) = specStep f l lm (toG x) := by
  unfold substInfo specStep
  rw [hsync, Nat.mod_eq_of_lt hgid]
  have hm : (toG x).mask = x.mask := rfl
  have hg : (toG x).gid = x.gid := rfl
  rw [hm, hg]
  by_cases hc : (x.mask &&& lm != 0 && !ignored f l.props (toG x)) = true
  · simp only [hc, if_true]
    cases singleSubst? l.subtables x.gid with
    | none => rfl
    | some s => simp [toG, setGlyphProps]
  · simp only [hc, Bool.false_eq_true, if_false]

/-- **C06, single substitution**: running the streaming interpreter over a buffer equals applying the OpenType
    model to the glyph list.  `hsync` says that the cached glyph properties agree with GDEF for the glyph ids in
    the buffer (what `_hb_ot_layout_set_glyph_props` establishes, `glyphProps_sync` below). -/
theorem C06_single_subst_refines_spec (l : Lookup) (hall : l.subtables.all Subtable.isSingle = true)
    (c : Ctx) (fuel level : Nat)
    (hsu : c.buf.successful = true) (hlen : c.buf.len ≤ c.buf.info.length) (hf : c.buf.len ≤ fuel)
    (hgid : ∀ x ∈ c.buf.info.take c.buf.len, x.gid < 65536)
    (hsync : ∀ x ∈ c.buf.info.take c.buf.len,
      checkGlyphProperty c.font x l.props = !ignored c.font l.props (toG x)) :
    ∃ c', applyString c l fuel = .ok c' ∧ c'.buf.len = c.buf.len ∧
      (c'.buf.info.take c'.buf.len).map toG
        = applyLookupFwd c.font level l c.lookupMask fuel ((c.buf.info.take c.buf.len).map toG) 0 := by
  obtain ⟨c', hrun, hl, hil, _, _, hq⟩ := applyString_single l hall c fuel hsu hlen hf
  refine ⟨c', hrun, hl, ?_⟩
  rw [applyLookupFwd_single c.font level l c.lookupMask hall fuel _ 0 (by simp; omega) (Nat.zero_le _)]
  simp only [List.take_zero, List.nil_append, List.drop_zero, List.map_map]
  rw [hl]
  apply List.ext_getElem?
  intro q
  simp only [List.getElem?_map, List.getElem?_take, hq]
  by_cases hql : q < c.buf.len
  · simp only [hql, if_true, Option.map_map]
    cases hx : c.buf.info[q]? with
    | none => rfl
    | some x =>
      have hmem : x ∈ c.buf.info.take c.buf.len := by
        rw [List.mem_iff_getElem?]
        exact ⟨q, by simp [List.getElem?_take, hql, hx]⟩
      simp only [Option.map_some, Function.comp]
      rw [toG_substInfo c.font l c.lookupMask x (hgid x hmem) (hsync x hmem)]
  · simp [hql]

/-- the hypothesis `hsync` of the theorem holds after `_hb_ot_layout_set_glyph_props` -/
theorem glyphProps_sync (f : Font) (props : Nat) (x : Info) (hgid : x.gid < 65536) :
    let y := setLigProps (setGlyphProps x (f.props (x.gid % 65536))) 0
    checkGlyphProperty f y props = !ignored f props (toG y) := by
  intro y
  have hy : y.gid = x.gid := rfl
  have hgp : glyphProps y = f.props x.gid % 65536 := by
    show (setLigProps (setGlyphProps x (f.props (x.gid % 65536))) 0).var1 % 65536 = _
    simp only [setLigProps, setGlyphProps, Nat.mod_eq_of_lt hgid]
    omega
  have hgp' : y.var1 % 65536 = f.props x.gid % 65536 := hgp
  unfold ignored checkGlyphProperty
  simp only [Bool.not_not, toG, hy, glyphProps, Nat.mod_mod, hgp', Nat.mod_eq_of_lt hgid]

/-! non-vacuity: a font with a mark class, a lookup that ignores marks, a buffer with a base and a mark -/
def exFont : Font := { hasGdef := true, hasGlyphClasses := true, glyphProps := [(1, GP.BASE_GLYPH), (2, GP.MARK), (11, GP.BASE_GLYPH)] }
def exLookup : Lookup := { props := 0x0008, subtables := [.single1 [1, 2] 10] }
def exCtx : Ctx := { font := exFont, lookupMask := 1, buf := { info := [⟨1,1,0,GP.BASE_GLYPH,0⟩, ⟨2,1,1,GP.MARK,0⟩, ⟨1,0,2,GP.BASE_GLYPH,0⟩], len := 3 } }

example : exLookup.subtables.all Subtable.isSingle = true := by decide
example : ∀ x ∈ exCtx.buf.info.take exCtx.buf.len, checkGlyphProperty exCtx.font x exLookup.props = !ignored exCtx.font exLookup.props (toG x) := by decide
example : (match applyString exCtx exLookup 3 with
    | .ok c' => (c'.buf.info.take c'.buf.len).map (·.gid) == [11, 2, 1]
    | .error _ => false) = true := by decide

end RbModel.Gsub

/-! ## Part 3: alternate substitution (GSUB type 3) — the feature VALUE selects the alternate

Same refinement for lookups all of whose subtables are alternate substitutions, outside the `rand` feature: the glyph at
a position where the feature is on is replaced by the `k`-th alternate, `k` being the value the glyph's mask carries for
the lookup (`(lookup_mask & mask) >> trailing_zeros(lookup_mask)`); value 0, a value beyond the set, an uncovered or
ignored glyph leave it alone.  `hshort`: alternate sets have at most 65535 members (their count is a 16-bit field). -/
namespace RbModel.Gsub
open RbModel RbModel.Buf RbModel.Spec.Subst

theorem toG_posInfo (f : Font) (l : Lookup) (lm : Nat) (sub : Info → Option Nat) (subG : G → Option Nat) (x : Info)
    (hsub : sub x = subG (toG x))
    (hsync : checkGlyphProperty f x l.props = !ignored f l.props (toG x)) :
    toG (posInfo f lm l.props sub x) = specStepP f l lm subG (toG x) := by
  unfold posInfo specStepP
  rw [hsync, hsub]
  have hm : (toG x).mask = x.mask := rfl
  rw [hm]
  by_cases hc : (x.mask &&& lm != 0 && !ignored f l.props (toG x)) = true
  · simp only [hc, if_true]
    cases subG (toG x) with
    | none => rfl
    | some s => simp [toG, setGlyphProps]
  · simp only [hc, Bool.false_eq_true, if_false]

theorem C06_alternate_subst_refines_spec (l : Lookup) (hall : l.subtables.all Subtable.isAlternate = true)
    (hshort : AltSetsShort l.subtables)
    (c : Ctx) (fuel level : Nat) (hrnd : c.random = false) (hlm : c.lookupMask < 2 ^ 32)
    (hsu : c.buf.successful = true) (hlen : c.buf.len ≤ c.buf.info.length) (hf : c.buf.len ≤ fuel)
    (hgid : ∀ x ∈ c.buf.info.take c.buf.len, x.gid < 65536)
    (hsync : ∀ x ∈ c.buf.info.take c.buf.len,
      checkGlyphProperty c.font x l.props = !ignored c.font l.props (toG x)) :
    ∃ c', applyString c l fuel = .ok c' ∧ c'.buf.len = c.buf.len ∧
      (c'.buf.info.take c'.buf.len).map toG
        = applyLookupFwd c.font level l c.lookupMask fuel ((c.buf.info.take c.buf.len).map toG) 0 := by
  obtain ⟨c', hrun, hl, hil, _, _, hq⟩ :=
    applyString_pos l (altSubst? c.lookupMask l.subtables) (alternate_not_reverse l hall) c
      (actsAs_alternate l hall c.lookupMask) hrnd fuel hsu hlen hf
  refine ⟨c', hrun, hl, ?_⟩
  -- the specification side on the projected string: every glyph still to be visited is an original one (16-bit id)
  rw [applyLookupFwd_pos_guarded c.font level l c.lookupMask (altSubstG? c.lookupMask l.subtables) (fun g => g.gid < 65536)
        (fun gs i g hg hgid' => firstSubtable_alternate c.font level l.props c.lookupMask hlm gs i g hg hgid' l.subtables hall hshort)
        fuel _ 0
        (by
          intro q g _ hg
          have hmem : g ∈ (c.buf.info.take c.buf.len).map toG := List.mem_of_getElem? hg
          obtain ⟨x, hx, rfl⟩ := List.mem_map.mp hmem
          exact hgid x hx)
        (by simp; omega) (Nat.zero_le _)]
  simp only [List.take_zero, List.nil_append, List.drop_zero, List.map_map]
  rw [hl]
  apply List.ext_getElem?
  intro q
  simp only [List.getElem?_map, List.getElem?_take, hq]
  by_cases hql : q < c.buf.len
  · simp only [hql, if_true, Option.map_map]
    cases hx : c.buf.info[q]? with
    | none => rfl
    | some x =>
      have hmem : x ∈ c.buf.info.take c.buf.len := by
        rw [List.mem_iff_getElem?]
        exact ⟨q, by simp [List.getElem?_take, hql, hx]⟩
      simp only [Option.map_some, Function.comp]
      rw [toG_posInfo c.font l c.lookupMask _ (altSubstG? c.lookupMask l.subtables) x rfl (hsync x hmem)]
  · simp [hql]

/-! non-vacuity: feature value 2 (mask bits 4-5 hold the value, lookup mask 0x30) picks the second alternate -/
def exAltLookup : Lookup := { props := 0, subtables := [.alternate [1] [[7, 8, 9]]] }
def exAltBuf : Buf := { info := [⟨1, 0x20, 0, GP.BASE_GLYPH, 0⟩, ⟨1, 0x10, 1, GP.BASE_GLYPH, 0⟩, ⟨1, 0, 2, GP.BASE_GLYPH, 0⟩], len := 3 }
def exAltCtx : Ctx := { font := exFont, lookupMask := 48, buf := exAltBuf }
example : exAltLookup.subtables.all Subtable.isAlternate = true := by decide
example : (match applyString exAltCtx exAltLookup 3 with
    | .ok c' => (c'.buf.info.take c'.buf.len).map (·.gid) == [8, 7, 1]
    | .error _ => false) = true := by decide

end RbModel.Gsub

/-! ## Part 4: multiple substitution (GSUB type 2) — the string grows

Same refinement for lookups all of whose subtables are multiple substitutions.  Unlike Parts 2 and 3 the pass is not in
place: `Sequence::apply` puts out one copy of the current glyph per substitute (`output_glyph`, after `make_room_for`
has separated the out-buffer from the in-buffer), then skips the current glyph; `sync` swaps the two buffers at the end.
The proof invariant is over the pair (out-part `out[0..out_len)`, in-part `info[idx..len)`), Lemmas/GsubMulti*.lean.

Guards of the real code on this path, and the hypotheses they become:
* `make_room_for` → `ensure(out_len + n)` refuses (buffer marked unsuccessful, result discarded by `sync`) iff
  `out_len + n ≥ len` and `out_len + n > max_len`.  `out_len + n` never exceeds the length of the final string, so
  `hbudget` (final string ≤ `max_len`) is the guard; for a growing pass it is also necessary (the final `sync` asks for
  exactly that size).  `max_ops` is not consulted on this path (it is charged by `recurse` / `apply_lookup` only).
* `hout`: the `pos` Vec (which holds the separate out-buffer) is as long as the `info` Vec — an invariant of buffer.rs
  (`ensure` resizes both); Parts 2/3 never touch `pos` and do not need it.
* `hseq`: no empty sequence.  OpenType forbids them ("glyphCount should always be greater than 0"); the crate then
  deletes the glyph and merges its cluster into a neighbour (`delete_glyph`), which the specification — it just removes
  the glyph — does not describe: see `C06_multiple_delete_partial` below for what holds there. -/
namespace RbModel.Gsub
open RbModel RbModel.Buf RbModel.Spec.Subst

theorem toG_eq_projG : toG = projG := rfl

/-- **C06, multiple substitution**: for every font, every forward lookup made of multiple-substitution subtables with
    non-empty sequences, every lookup mask and every well-formed buffer whose final string fits the length budget, the
    streaming interpreter succeeds and yields exactly the glyph string (ids, clusters, masks) of the OpenType model. -/
theorem C06_multiple_subst_refines_spec (l : Lookup) (hall : l.subtables.all Subtable.isMultiple = true)
    (hseq : SeqsNonempty l.subtables)
    (c : Ctx) (fuel level : Nat)
    (hsu : c.buf.successful = true) (hlen : c.buf.len ≤ c.buf.info.length)
    (hout : c.buf.out.length = c.buf.info.length) (hf : c.buf.len ≤ fuel)
    (hgid : ∀ x ∈ c.buf.info.take c.buf.len, x.gid < 65536)
    (hsync : ∀ x ∈ c.buf.info.take c.buf.len,
      checkGlyphProperty c.font x l.props = !ignored c.font l.props (toG x))
    (hbudget : (applyLookupFwd c.font level l c.lookupMask fuel ((c.buf.info.take c.buf.len).map toG) 0).length
      ≤ c.buf.maxLen) :
    ∃ c', applyString c l fuel = .ok c' ∧ c'.buf.successful = true ∧ c'.buf.len ≤ c'.buf.info.length ∧
      (c'.buf.info.take c'.buf.len).map toG
        = applyLookupFwd c.font level l c.lookupMask fuel ((c.buf.info.take c.buf.len).map toG) 0 := by
  -- the specification side in closed form
  have hspec : applyLookupFwd c.font level l c.lookupMask fuel ((c.buf.info.take c.buf.len).map toG) 0
      = (c.buf.info.take c.buf.len).flatMap
          (stepL c.font c.lookupMask l.props (fun x => multiSeq? l.subtables (x.gid % 65536))) := by
    rw [applyLookupFwd_list c.font level l c.lookupMask (fun g => multiSeq? l.subtables g.gid) (fun _ => True)
          (fun gs i g hg _ => firstSubtable_multiple c.font level l.props c.lookupMask gs i g hg l.subtables hall)
          fuel _ 0 (fun _ _ _ _ => trivial) (by simp; omega) (Nat.zero_le _)]
    simp only [List.take_zero, List.nil_append, List.drop_zero, List.flatMap_map]
    symm
    apply flatMap_congr_mem
    intro x hx
    rw [toG_eq_projG]
    apply stepL_eq_specStepL
    · show multiSeq? l.subtables (x.gid % 65536) = multiSeq? l.subtables x.gid
      rw [Nat.mod_eq_of_lt (hgid x hx)]
    · exact hsync x hx
  rw [hspec] at hbudget ⊢
  obtain ⟨c', hrun, hsu', hle', hres⟩ :=
    applyString_list l (fun x => multiSeq? l.subtables (x.gid % 65536)) (multiple_not_reverse l hall) c false
      (actsAsL_multiple l hall c.lookupMask) (fun x ss h => multiSeq?_ne_nil l.subtables hseq _ ss h)
      C06_gen_buffer_variants.2 (fun h => by cases h) fuel hsu hlen hout hf hbudget
  exact ⟨c', hrun, hsu', hle', by rw [toG_eq_projG]; exact hres⟩

/-! non-vacuity: "ignore marks" lookup; base 1 → 11 2 11 (three glyphs, the middle one a mark), glyph 3 → 5; the mark in the
    text is skipped, the marks put in by the substitution are not visited again; four glyphs become eight -/
def exMultiLookup : Lookup := { props := 0x0008, subtables := [.multiple [1, 3] [[11, 2, 11], [5]]] }
def exMultiCtx : Ctx :=
  { font := exFont, lookupMask := 1,
    buf := { info := [⟨1,1,0,GP.BASE_GLYPH,0⟩, ⟨2,1,1,GP.MARK,0⟩, ⟨1,1,2,GP.BASE_GLYPH,0⟩, ⟨3,1,3,0,0⟩],
             out := [{}, {}, {}, {}], len := 4 } }

example : exMultiLookup.subtables.all Subtable.isMultiple = true := by decide
example : SeqsNonempty exMultiLookup.subtables := by
  intro st hst cov seqs he ss hss
  simp [exMultiLookup] at hst
  subst hst
  cases he
  simp at hss
  rcases hss with h | h <;> subst h <;> simp
example : exMultiCtx.buf.out.length = exMultiCtx.buf.info.length := by decide
example : ∀ x ∈ exMultiCtx.buf.info.take exMultiCtx.buf.len, x.gid < 65536 := by decide
example : ∀ x ∈ exMultiCtx.buf.info.take exMultiCtx.buf.len,
    checkGlyphProperty exMultiCtx.font x exMultiLookup.props = !ignored exMultiCtx.font exMultiLookup.props (toG x) := by decide
example : (applyLookupFwd exMultiCtx.font 0 exMultiLookup exMultiCtx.lookupMask 4
    ((exMultiCtx.buf.info.take exMultiCtx.buf.len).map toG) 0).length ≤ exMultiCtx.buf.maxLen := by decide
example : (match applyString exMultiCtx exMultiLookup 4 with
    | .ok c' => (c'.buf.info.take c'.buf.len).map (fun x => (x.gid, x.cluster)) ==
                  [(11, 0), (2, 0), (11, 0), (2, 1), (11, 2), (2, 2), (11, 2), (5, 3)]
    | .error _ => false) = true := by decide

/-- The source has the HarfBuzz guard in the "extend start" loop of `merge_clusters` (`delete_glyph` with an empty
    out-buffer goes through it). -/
theorem C06_gen_extend_start_guard : Gen.Buf.extendStartGuard = 1 := by decide

/-- **C06, multiple substitution with empty sequences allowed (partial: clusters and glyph flags are left out).**
    An empty sequence makes the crate delete the glyph (`delete_glyph`: HarfBuzz follows Uniscribe here) and merge its
    cluster into a neighbour, rewriting cluster values and `glyph_flag` bits of OTHER glyphs; the specification removes the
    glyph and touches nothing else, so the two strings differ in clusters (example below) and the full statement of
    `C06_multiple_subst_refines_spec` is false there.  What holds for every sequence length: the pass succeeds, and glyph
    ids and feature bits (the mask outside `glyph_flag::DEFINED`) are exactly those of the specification.
    `hlmf`: the lookup mask is made of feature bits (the feature map never allocates the three glyph-flag bits). -/
theorem C06_multiple_delete_partial (l : Lookup) (hall : l.subtables.all Subtable.isMultiple = true)
    (c : Ctx) (fuel level : Nat)
    (hlmf : c.lookupMask &&& (U32MAX - Flag.DEFINED) = c.lookupMask)
    (hsu : c.buf.successful = true) (hlen : c.buf.len ≤ c.buf.info.length)
    (hout : c.buf.out.length = c.buf.info.length) (hf : c.buf.len ≤ fuel)
    (hgid : ∀ x ∈ c.buf.info.take c.buf.len, x.gid < 65536)
    (hsync : ∀ x ∈ c.buf.info.take c.buf.len,
      checkGlyphProperty c.font x l.props = !ignored c.font l.props (toG x))
    (hbudget : (applyLookupFwd c.font level l c.lookupMask fuel ((c.buf.info.take c.buf.len).map toG) 0).length
      ≤ c.buf.maxLen) :
    ∃ c', applyString c l fuel = .ok c' ∧ c'.buf.successful = true ∧ c'.buf.len ≤ c'.buf.info.length ∧
      (c'.buf.info.take c'.buf.len).map (fun x => (x.gid, featBits x.mask))
        = (applyLookupFwd c.font level l c.lookupMask fuel ((c.buf.info.take c.buf.len).map toG) 0).map
            (fun g => (g.gid, featBits g.mask)) := by
  have hspec : (applyLookupFwd c.font level l c.lookupMask fuel ((c.buf.info.take c.buf.len).map toG) 0).map piG
      = (c.buf.info.take c.buf.len).flatMap
          (stepF c.font c.lookupMask l.props (fun x => multiSeq? l.subtables (x.gid % 65536))) := by
    rw [applyLookupFwd_list c.font level l c.lookupMask (fun g => multiSeq? l.subtables g.gid) (fun _ => True)
          (fun gs i g hg _ => firstSubtable_multiple c.font level l.props c.lookupMask gs i g hg l.subtables hall)
          fuel _ 0 (fun _ _ _ _ => trivial) (by simp; omega) (Nat.zero_le _)]
    simp only [List.take_zero, List.nil_append, List.drop_zero, List.flatMap_map, List.map_flatMap]
    symm
    apply flatMap_congr_mem
    intro x hx
    rw [toG_eq_projG]
    apply stepF_eq_specStepL
    · show multiSeq? l.subtables (x.gid % 65536) = multiSeq? l.subtables x.gid
      rw [Nat.mod_eq_of_lt (hgid x hx)]
    · exact hsync x hx
  have hbudget' : ((c.buf.info.take c.buf.len).flatMap
      (stepF c.font c.lookupMask l.props (fun x => multiSeq? l.subtables (x.gid % 65536)))).length ≤ c.buf.maxLen := by
    rw [← hspec]; simpa using hbudget
  obtain ⟨c', hrun, hsu', hle', hres⟩ :=
    applyString_feat l (fun x => multiSeq? l.subtables (x.gid % 65536)) (multiple_not_reverse l hall) c false
      (actsAsL_multiple l hall c.lookupMask) hlmf (fun x y h => by simp only [h])
      C06_gen_buffer_variants.2 C06_gen_extend_start_guard (fun h => by cases h) fuel hsu hlen hout hf hbudget'
  refine ⟨c', hrun, hsu', hle', ?_⟩
  exact hres.trans hspec.symm

/-! non-vacuity, and the difference that makes this theorem partial.  First text: glyph 2 (cluster 1) is deleted between
    glyph 1 (cluster 0, grows to 11 12) and glyph 3 (cluster 2); its cluster is larger than its predecessor's, nothing is
    relabelled.  Second text: the deleted glyph comes FIRST and `delete_glyph` gives its cluster 0 to the next glyph
    (`merge_clusters`), where the specification keeps cluster 1. -/
def exDelLookup : Lookup := { props := 0, subtables := [.multiple [1, 2] [[11, 12], []]] }
def exDelCtx : Ctx :=
  { font := exFont, lookupMask := 8,
    buf := { info := [⟨1,8,0,GP.BASE_GLYPH,0⟩, ⟨2,8,1,0,0⟩, ⟨3,8,2,0,0⟩], out := [{}, {}, {}], len := 3 } }
def exDelCtx2 : Ctx :=
  { font := exFont, lookupMask := 8,
    buf := { info := [⟨2,8,0,0,0⟩, ⟨3,8,1,0,0⟩], out := [{}, {}], len := 2 } }

example : exDelLookup.subtables.all Subtable.isMultiple = true := by decide
example : exDelCtx.lookupMask &&& (U32MAX - Flag.DEFINED) = exDelCtx.lookupMask := by decide
example : ∀ x ∈ exDelCtx.buf.info.take exDelCtx.buf.len,
    checkGlyphProperty exDelCtx.font x exDelLookup.props = !ignored exDelCtx.font exDelLookup.props (toG x) := by decide
example : (match applyString exDelCtx exDelLookup 3 with
    | .ok c' => (c'.buf.info.take c'.buf.len).map (fun x => (x.gid, x.cluster)) == [(11, 0), (12, 0), (3, 2)]
    | .error _ => false) = true := by decide
/-- the crate's cluster merge: the glyph after a deleted first glyph takes over cluster 0 … -/
example : (match applyString exDelCtx2 exDelLookup 2 with
    | .ok c' => (c'.buf.info.take c'.buf.len).map (fun x => (x.gid, x.cluster)) == [(3, 0)]
    | .error _ => false) = true := by decide
/-- … which the specification does not describe (it keeps cluster 1) -/
example : (applyLookupFwd exDelCtx2.font 0 exDelLookup 8 2 ((exDelCtx2.buf.info.take 2).map toG) 0).map
    (fun g => (g.gid, g.cluster)) = [(3, 1)] := by decide

/-- **C06, mixed single / multiple / alternate lookups** (the generic scheme "replace the current glyph by a list"; it
    contains Parts 2, 3 and `C06_multiple_subst_refines_spec` as special cases, with the union of their hypotheses): for a
    lookup whose subtables are single, multiple (non-empty sequences) or alternate substitutions in any order, the first
    subtable that applies decides, exactly as in the OpenType model. -/
theorem C06_simple_subst_refines_spec (l : Lookup) (hall : l.subtables.all Subtable.isSimple = true)
    (hseq : SeqsNonempty l.subtables) (hshort : AltSetsShort l.subtables)
    (c : Ctx) (fuel level : Nat) (hrnd : c.random = false) (hlm : c.lookupMask < 2 ^ 32)
    (hsu : c.buf.successful = true) (hlen : c.buf.len ≤ c.buf.info.length)
    (hout : c.buf.out.length = c.buf.info.length) (hf : c.buf.len ≤ fuel)
    (hgid : ∀ x ∈ c.buf.info.take c.buf.len, x.gid < 65536)
    (hsync : ∀ x ∈ c.buf.info.take c.buf.len,
      checkGlyphProperty c.font x l.props = !ignored c.font l.props (toG x))
    (hbudget : (applyLookupFwd c.font level l c.lookupMask fuel ((c.buf.info.take c.buf.len).map toG) 0).length
      ≤ c.buf.maxLen) :
    ∃ c', applyString c l fuel = .ok c' ∧ c'.buf.successful = true ∧ c'.buf.len ≤ c'.buf.info.length ∧
      (c'.buf.info.take c'.buf.len).map toG
        = applyLookupFwd c.font level l c.lookupMask fuel ((c.buf.info.take c.buf.len).map toG) 0 := by
  have hspec : applyLookupFwd c.font level l c.lookupMask fuel ((c.buf.info.take c.buf.len).map toG) 0
      = (c.buf.info.take c.buf.len).flatMap
          (stepL c.font c.lookupMask l.props (simpleSeq? c.lookupMask l.subtables)) := by
    rw [applyLookupFwd_list c.font level l c.lookupMask (simpleSeqG? c.lookupMask l.subtables) (fun g => g.gid < 65536)
          (fun gs i g hg hgid' =>
            firstSubtable_simple c.font level l.props c.lookupMask hlm gs i g hg hgid' l.subtables hall hshort)
          fuel _ 0
          (by
            intro q g _ hg
            have hmem : g ∈ (c.buf.info.take c.buf.len).map toG := List.mem_of_getElem? hg
            obtain ⟨x, hx, rfl⟩ := List.mem_map.mp hmem
            exact hgid x hx)
          (by simp; omega) (Nat.zero_le _)]
    simp only [List.take_zero, List.nil_append, List.drop_zero, List.flatMap_map]
    symm
    apply flatMap_congr_mem
    intro x hx
    rw [toG_eq_projG]
    exact stepL_eq_specStepL c.font l c.lookupMask _ (simpleSeqG? c.lookupMask l.subtables) x rfl (hsync x hx)
  rw [hspec] at hbudget ⊢
  obtain ⟨c', hrun, hsu', hle', hres⟩ :=
    applyString_list l (simpleSeq? c.lookupMask l.subtables) (simple_not_reverse l hall) c true
      (actsAsL_simple l hall c.lookupMask)
      (fun x ss h => simpleSeqGM_ne_nil c.lookupMask l.subtables hseq _ _ ss h)
      C06_gen_buffer_variants.2 (fun _ => hrnd) fuel hsu hlen hout hf hbudget
  exact ⟨c', hrun, hsu', hle', by rw [toG_eq_projG]; exact hres⟩

/-! non-vacuity: one lookup with a single, a multiple and an alternate subtable; feature value 2 in mask bits 4-5 -/
def exMixLookup : Lookup :=
  { props := 0, subtables := [.single1 [1] 10, .multiple [1, 3] [[9], [7, 8, 7]], .alternate [2, 3] [[5, 6], [4]]] }
def exMixCtx : Ctx :=
  { font := exFont, lookupMask := 48,
    buf := { info := [⟨1,0x20,0,GP.BASE_GLYPH,0⟩, ⟨2,0x20,1,GP.MARK,0⟩, ⟨3,0x10,2,0,0⟩, ⟨3,0,3,0,0⟩],
             out := [{}, {}, {}, {}], len := 4 } }
example : exMixLookup.subtables.all Subtable.isSimple = true := by decide
example : ∀ x ∈ exMixCtx.buf.info.take exMixCtx.buf.len,
    checkGlyphProperty exMixCtx.font x exMixLookup.props = !ignored exMixCtx.font exMixLookup.props (toG x) := by decide
example : (match applyString exMixCtx exMixLookup 4 with
    | .ok c' => (c'.buf.info.take c'.buf.len).map (fun x => (x.gid, x.cluster)) ==
                  [(11, 0), (6, 1), (7, 2), (8, 2), (7, 2), (3, 3)]
    | .error _ => false) = true := by decide


/-- **C06, one application of a multiple-substitution subtable** at the current glyph of any in/out buffer state is the
    specification's `applySimple` on the projected string `toG (out[0..out_len) ++ info[idx..len))` at position `out_len`:
    same decision (apply / decline), same new string, and the specification's resume index is the new `out_len`. -/
theorem C06_multiple_step_refines_spec (recurse : Ctx → Nat → M (Ctx × Bool)) (full : Bool) (c : Ctx)
    (cov : Cov) (seqs : List (List Nat)) (x : Info) (R : List Info) (alt : Nat)
    (hinv : Inv c.buf) (hin : inP c.buf = x :: R) (hgid : x.gid < 65536)
    (hseq : ∀ ss ∈ seqs, ss ≠ []) (hb : ∀ ss ∈ seqs, c.buf.outLen + ss.length ≤ c.buf.maxLen) :
    match applySimple (.multiple cov seqs) ((outP c.buf ++ inP c.buf).map toG) c.buf.outLen alt with
    | none => applySubtable recurse full c (.multiple cov seqs) = .ok (c, false)
    | some (gs', nxt) =>
      ∃ b', applySubtable recurse full c (.multiple cov seqs) = .ok ({ c with buf := b' }, true) ∧ Inv b' ∧
        b'.successful = c.buf.successful ∧ (outP b' ++ inP b').map toG = gs' ∧ b'.outLen = nxt := by
  obtain ⟨hcur, hx⟩ := inP_head c.buf hinv x R hin
  have hget : Mem.get c.buf.info c.buf.idx = .ok x := by unfold Mem.get; rw [hx]; rfl
  have hol := outP_length c.buf hinv
  have hgs : ((outP c.buf ++ inP c.buf).map toG)[c.buf.outLen]? = some (toG x) := by
    rw [hin, List.getElem?_map, List.getElem?_append_right (by omega), hol]
    simp
  have hxg : (toG x).gid = x.gid := rfl
  simp only [applySimple, hgs, hxg]
  simp only [applySubtable, bind, Except.bind, hget, Nat.mod_eq_of_lt hgid]
  cases hc : cov.index x.gid with
  | none => simp only [Option.bind, pure, Except.pure]
  | some k =>
    cases hs : seqs[k]? with
    | none => simp only [Option.bind, hs, pure, Except.pure]
    | some ss =>
      have hmem : ss ∈ seqs := List.mem_of_getElem? hs
      obtain ⟨b', outs, hrun, hinv', ho, hi, hm, hsu, _⟩ :=
        applySeq_spec C06_gen_buffer_variants.2 c ss (hseq ss hmem) x R hinv hin (hb ss hmem)
      have hol' : b'.outLen = c.buf.outLen + ss.length := by
        have h1 := outP_length b' hinv'
        rw [ho] at h1
        have h2 : outs.length = ss.length := by
          have := congrArg List.length hm
          simpa using this
        simp [hol, h2] at h1
        omega
      simp only [Option.bind, hs, pure]
      refine ⟨b', ?_, hinv', hsu, ?_, hol'⟩
      · match ss, hrun with
        | [], hrun => exact absurd rfl (hseq [] hmem)
        | [s], hrun =>
          simp only [applySeq] at hrun
          simp only [hrun]
          rfl
        | s1 :: s2 :: r, hrun =>
          simp only [applySeq, bind, Except.bind] at hrun
          cases hl : applySubtable.loop (if isLigature x then GP.BASE_GLYPH else 0) (ligId x) c 0 (s1 :: s2 :: r) with
          | error e => rw [hl] at hrun; cases hrun
          | ok c1 =>
            rw [hl] at hrun
            simp only [pure, Except.pure] at hrun
            simp only [hl]
            exact congrArg (fun z => z.map (fun c' => (c', true))) hrun
      · rw [ho, hi, hin]
        simp only [replaceAt, List.map_append, List.map_cons]
        rw [toG_eq_projG, hm]
        have dropA : ∀ {α} (A B : List α) (y : α) (o : Nat), A.length = o → (A ++ y :: B).drop (o + 1) = B := by
          intro α A B y o h; subst h; simp
        have takeA : ∀ {α} (A B : List α) (y : α) (o : Nat), A.length = o → (A ++ y :: B).take o = A := by
          intro α A B y o h; subst h; simp
        have hl : (List.map projG (outP c.buf)).length = c.buf.outLen := by simp [hol]
        have h1 := takeA (List.map projG (outP c.buf)) (List.map projG R) (projG x) c.buf.outLen hl
        have h2 := dropA (List.map projG (outP c.buf)) (List.map projG R) (projG x) c.buf.outLen hl
        rw [h1, h2]

/-! non-vacuity of the step theorem: a separate-output state (two glyphs out, two to come), glyph 1 → 11 2 11 -/
def exStepBuf : Buf :=
  { info := [⟨9,1,0,0,0⟩, ⟨9,1,0,0,0⟩, ⟨1,1,2,GP.BASE_GLYPH,0⟩, ⟨3,1,3,0,0⟩], out := [⟨7,1,0,0,0⟩, ⟨8,1,1,0,0⟩, {}, {}],
    idx := 2, len := 4, outLen := 2, haveOutput := true, sepOut := true }
example : Inv exStepBuf := ⟨by decide, by decide, by decide, by decide, by decide, by decide⟩
example : inP exStepBuf = [⟨1,1,2,GP.BASE_GLYPH,0⟩, ⟨3,1,3,0,0⟩] := by decide
example : (match applySubtable (recurseAt MAX_NESTING_LEVEL) true { exMultiCtx with buf := exStepBuf } (.multiple [1, 3] [[11, 2, 11], [5]]) with
    | .ok (c', ok) => (ok, (outP c'.buf ++ inP c'.buf).map (·.gid), c'.buf.outLen) == (true, [7, 8, 11, 2, 11, 3], 5)
    | .error _ => false) = true := by decide

/-! the budget hypothesis is not idle: the same text with `max_len = 5` (final string: 8 glyphs) — `make_room_for` refuses,
    the buffer is marked unsuccessful and `sync` throws the output away -/
example : (match applyString { exMultiCtx with buf := { exMultiCtx.buf with maxLen := 5 } } exMultiLookup 4 with
    | .ok c' => (c'.buf.successful, (c'.buf.info.take c'.buf.len).map (·.gid)) == (false, [1, 2, 1, 3])
    | .error _ => false) = true := by decide

end RbModel.Gsub

/-! ## Part 5: ligature substitution (GSUB type 4) — several glyphs become one, clusters merge

Same refinement for lookups all of whose subtables are ligature subtables, on the specification's documented domain for
ligatures: nothing is skipped inside a match, so the components are consecutive glyphs.  `Ligature::apply` runs
`match_input` (skipping iterator, ligature-id compatibility tests), then `ligate_input`: `merge_clusters` over the span,
ligature-id allocation and lig-props / glyph-class bookkeeping on the first component, `replace_glyph`, and a loop that
skips the other components and re-numbers marks in between (there are none here).  The specification
(`Spec.Subst.applySubtableAt … (.ligature …)`) matches the components at the next visible positions, merges the clusters of
the span (`Spec.Subst.mergeClusters`), turns the first component into the ligature glyph and removes the others.
Lemmas: `Lemmas/GsubLig*.lean`; the proof is a simulation over the pair (out-part, in-part) of Part 4, the
specification's string being the projection of `out ++ in` and its position `out_len`.

Hypotheses, and the guard of the code (or the silence of the specification) each one stands for:
* `NoSkipFlags l.props` — the lookup flags exclude nothing (no IGNORE_BASE_GLYPHS / IGNORE_LIGATURES / IGNORE_MARKS, no mark
  filtering set, no mark attachment type): the Spec's domain.  `Plain x` — `x` is not default-ignorable (else the
  iterator may skip it: HarfBuzz-specific) and carries no ligature id / component (what `substitute_start` establishes;
  `match_input` refuses to ligate across components of different earlier ligatures, which the OpenType text does not know).
* `c.perSyllable = false` — `match_input` stops at syllable borders for per-syllable features (Indic shapers only).
* `LigsShort` — a ligature has at most 63 components behind the first glyph: `match_input` gives up on longer inputs
  (`MAX_CONTEXT_LENGTH = 64`); the specification has no such limit (replayed on the crate: a ligature of 1 + 64 glyphs is not
  formed, one of 1 + 63 glyphs is).
* `c.buf.level ≠ 2` — cluster levels 0 / 1 (level 2 does not merge; it flags the span unsafe-to-break instead).
* `NonDecr ∨ NonIncr` — cluster values are monotone along the buffer (what HarfBuzz maintains at levels 0 / 1).
  `merge_clusters` extends the merged span over the adjacent RUNS of the first / last component's cluster, the
  specification relabels every glyph carrying one of the span's cluster values; the two agree when equal cluster values
  are adjacent (counter-example without it below).
* `FeatMask x` — the mask holds feature bits only, none of the three `glyph_flag` bits: `set_cluster` clears the glyph
  flags of a glyph whose cluster it changes, the specification leaves masks alone (counter-example below).
  `c.buf.flags &&& PRODUCE_UNSAFE_TO_CONCAT = 0` — otherwise every FAILED match sets the unsafe-to-concat flag on the
  inspected glyphs (a mask change the specification does not describe).
* `c.buf.len ≤ c.buf.maxLen` — `replace_glyph` / `next_glyph` go through `make_room_for`; the string only shrinks.
* `x.gid < 65536`, `hlen`, `hout`, `hsu` as in Parts 2–4.  No `hsync` is needed: with flag-free lookups `check_glyph_property`
  accepts every glyph whatever its cached class. -/
namespace RbModel.Gsub
open RbModel RbModel.Buf RbModel.Spec.Subst

/-- **C06, ligature, step lemma 1: `match_input` without skippable glyphs is the specification's `matchSeq` on consecutive
    positions.**  On any in/out buffer state whose unconsumed input is plain, under a flag-free lookup: `match_input` for
    the components `comps` does not panic; it succeeds exactly when `matchSeq` finds the components at the visible
    positions behind `out_len` of the projected string `toG (out ++ in)` with the feature on; the matched positions are
    consecutive and are the same offsets from the current glyph on both sides, `match_end` is just behind the last. -/
theorem C06_ligature_match_refines_spec (c : Ctx) (comps : List Nat) (x : Info) (R : List Info)
    (hinv : Inv c.buf) (hin : inP c.buf = x :: R) (hpl : ∀ y ∈ x :: R, Plain y) (hgid : ∀ y ∈ R, y.gid < 65536)
    (hp : NoSkipFlags c.lookupProps) (hps : c.perSyllable = false) (hshort : comps.length + 1 ≤ MAX_CONTEXT_LENGTH) :
    ∃ r, matchInput c comps.length (fun g i => g == comps.getD i 0) [0, 0, 0, 0] = .ok r ∧
      match matchSeq ((outP c.buf ++ inP c.buf).map toG)
              (visibleFrom c.font c.lookupProps ((outP c.buf ++ inP c.buf).map toG) (c.buf.outLen + 1))
              (comps.map fun v => fun g => g == v) (some c.lookupMask) with
      | none => r.ok = false
      | some ins => r.ok = true ∧ r.endPos = c.buf.idx + comps.length + 1 ∧ ins.length = comps.length ∧
          ∀ j, j < comps.length → ins[j]? = some (c.buf.outLen + 1 + j) ∧ r.positions[1 + j]? = some (c.buf.idx + 1 + j) := by
  obtain ⟨r, hrun, hok, hrest⟩ := matchInput_plain c comps x R hinv.len_le hin hpl hp hps hshort
  refine ⟨r, hrun, ?_⟩
  have hol := outP_length c.buf hinv
  have hdrop : ((outP c.buf ++ inP c.buf).map toG).drop (c.buf.outLen + 1) = R.map projG := by
    rw [hin, List.map_append, List.map_cons]
    exact drop_succ_append _ _ _ _ (by simp [hol])
  rw [visibleFrom_noSkip c.font c.lookupProps _ _ hp, matchSeq_consecutive, hdrop, ← ligMatch_proj c.lookupMask comps R hgid, ← hok]
  cases hr : r.ok with
  | false => simp
  | true =>
    obtain ⟨hend, hpos⟩ := hrest hr
    simp only [if_true]
    refine ⟨trivial, hend, by simp, ?_⟩
    intro j hj
    refine ⟨by rw [List.getElem?_range' hj]; simp, ?_⟩
    rw [hpos (1 + j) (by omega)]
    congr 1; omega

/-- the hypotheses of the step theorems about one state of the forward scan: current glyph `x`, rest of the input `R` -/
structure LigStepHyp (c : Ctx) (x : Info) (R : List Info) : Prop where
  inv : Inv c.buf
  inp : inP c.buf = x :: R
  plain : ∀ y ∈ x :: R, Plain y ∧ y.gid < 65536
  feat : ∀ y ∈ outP c.buf ++ inP c.buf, FeatMask y
  mono : NonDecr (outP c.buf ++ inP c.buf) ∨ NonIncr (outP c.buf ++ inP c.buf)
  noskip : NoSkipFlags c.lookupProps
  nosyl : c.perSyllable = false
  level : c.buf.level ≠ 2
  noconcat : c.buf.flags &&& Gen.Buf.produceUnsafeToConcat = 0
  budget : c.buf.outLen + 1 ≤ c.buf.maxLen

/-- **C06, ligature, step theorem 2: one application of a lookup's ligature subtables at the current glyph** of any in/out
    buffer state is the specification's `firstSubtable` on the projected string at position `out_len`: same decision
    (first subtable that covers the glyph and has a matching ligature; first matching ligature of its set; a ligature with
    zero extra components is a plain replacement), same new string — glyph ids, merged clusters, masks — and the
    specification's resume index is the new `out_len`.  `ligate_input`'s ligature-id / component bookkeeping never
    panics and is invisible in the projection. -/
theorem C06_ligature_step_refines_spec (recurse : Ctx → Nat → M (Ctx × Bool)) (full : Bool) (c : Ctx)
    (sts : List Subtable) (hall : sts.all Subtable.isLigatureSt = true) (hshort : LigsShort sts)
    (x : Info) (R : List Info) (level : Nat) (hlv : level ≠ 2) (h : LigStepHyp c x R) :
    match firstSubtable c.font level c.lookupProps c.lookupMask ((outP c.buf ++ inP c.buf).map toG) c.buf.outLen sts with
    | none => applySubtables recurse full c sts = .ok (c, false)
    | some (gs', nxt) =>
      ∃ b', applySubtables recurse full c sts = .ok ({ c with buf := b' }, true) ∧ Inv b' ∧
        b'.successful = c.buf.successful ∧ (outP b' ++ inP b').map toG = gs' ∧ b'.outLen = nxt := by
  have hol := outP_length c.buf h.inv
  have hctx : LigCtx c x R :=
    ⟨h.inv, h.inp, fun y hy => (h.plain y hy).1, h.noskip, h.nosyl, h.level, h.noconcat, h.budget⟩
  have happ := applySubtables_ligature C06_gen_buffer_variants.2 C06_gen_extend_start_guard recurse full c x R hctx sts hall hshort
  have hxg : x.gid < 65536 := (h.plain x List.mem_cons_self).2
  have hRg : ∀ y ∈ R, y.gid < 65536 := fun y hy => (h.plain y (List.mem_cons_of_mem _ hy)).2
  rw [ligFor?_proj c.lookupMask x R hxg hRg sts] at happ
  have hgs : ((outP c.buf ++ inP c.buf).map toG)[c.buf.outLen]? = some (projG x) := by
    rw [h.inp, List.getElem?_map, List.getElem?_append_right (by omega), hol]; simp; rfl
  have hdrop : ((outP c.buf ++ inP c.buf).map toG).drop (c.buf.outLen + 1) = R.map projG := by
    rw [h.inp, List.map_append, List.map_cons]
    exact drop_succ_append _ _ _ _ (by simp [hol])
  rw [firstSubtable_ligature c.font level c.lookupProps c.lookupMask h.noskip _ c.buf.outLen (projG x) hgs sts hall, hdrop]
  cases hsel : ligForG? c.lookupMask sts (projG x) (R.map projG) with
  | none =>
    rw [hsel] at happ
    exact happ
  | some p =>
    rw [hsel] at happ
    obtain ⟨b1, O1, x1, T1, y, hres, hinv1, hrel, hO1, hy, ho1, hi1, hcfg⟩ := happ
    have hgs1 := mergeRel_spec _ _ c.buf.outLen p.1.length level hrel h.mono h.feat hlv
    have hres2 := ligResult_eq level ((outP c.buf ++ inP c.buf).map projG) c.buf.outLen (projG x) p.1 p.2 O1 T1 x1 y
      hgs1 hO1 hy
    simp only [Option.map_some]
    rw [toG_eq_projG, hres2]
    refine ⟨b1, hres, hinv1, hcfg.1, by rw [ho1, hi1], ?_⟩
    have := outP_length b1 hinv1
    rw [ho1] at this
    simp [hO1] at this
    omega

/-- the same for ONE ligature subtable, against `Spec.Subst.applySubtableAt` -/
theorem C06_ligature_subtable_refines_spec (recurse : Ctx → Nat → M (Ctx × Bool)) (full : Bool) (c : Ctx)
    (cov : Cov) (sets : List (List (List Nat × Nat)))
    (hshort : ∀ ligs ∈ sets, ∀ p ∈ ligs, p.1.length + 1 ≤ MAX_CONTEXT_LENGTH)
    (x : Info) (R : List Info) (level : Nat) (hlv : level ≠ 2) (h : LigStepHyp c x R) :
    match applySubtableAt c.font level c.lookupProps c.lookupMask (.ligature cov sets)
            ((outP c.buf ++ inP c.buf).map toG) c.buf.outLen with
    | none => applySubtable recurse full c (.ligature cov sets) = .ok (c, false)
    | some (gs', nxt) =>
      ∃ b', applySubtable recurse full c (.ligature cov sets) = .ok ({ c with buf := b' }, true) ∧ Inv b' ∧
        b'.successful = c.buf.successful ∧ (outP b' ++ inP b').map toG = gs' ∧ b'.outLen = nxt := by
  have := C06_ligature_step_refines_spec recurse full c [.ligature cov sets] (by rfl)
    (by
      intro st hst cov' sets' he ligs hl p hp
      simp only [List.mem_singleton] at hst
      subst hst
      cases he
      exact hshort ligs hl p hp)
    x R level hlv h
  rw [firstSubtable_singleton, applySubtables_singleton] at this
  exact this

/-- **C06, ligature substitution**: for every font, every forward lookup made of ligature subtables whose flags exclude
    nothing, every lookup mask, and every well-formed buffer of plain glyphs with monotone clusters and feature-bit masks at
    cluster level 0 or 1, the streaming interpreter succeeds and yields exactly the glyph string — glyph ids, clusters,
    masks — of the OpenType model, for every fuel (the two scans take their steps in lockstep). -/
theorem C06_ligature_subst_refines_spec (l : Lookup) (hall : l.subtables.all Subtable.isLigatureSt = true)
    (hshort : LigsShort l.subtables) (hp : NoSkipFlags l.props)
    (c : Ctx) (fuel : Nat) (hps : c.perSyllable = false) (hlv : c.buf.level ≠ 2)
    (hfl : c.buf.flags &&& Gen.Buf.produceUnsafeToConcat = 0)
    (hsu : c.buf.successful = true) (hlen : c.buf.len ≤ c.buf.info.length) (hout : c.buf.out.length = c.buf.info.length)
    (hbud : c.buf.len ≤ c.buf.maxLen)
    (hplain : ∀ x ∈ c.buf.info.take c.buf.len, Plain x ∧ x.gid < 65536)
    (hfeat : ∀ x ∈ c.buf.info.take c.buf.len, FeatMask x)
    (hmono : NonDecr (c.buf.info.take c.buf.len) ∨ NonIncr (c.buf.info.take c.buf.len)) :
    ∃ c', applyString c l fuel = .ok c' ∧ c'.buf.successful = true ∧ c'.buf.len ≤ c'.buf.info.length ∧
      (c'.buf.info.take c'.buf.len).map toG
        = applyLookupFwd c.font c.buf.level l c.lookupMask fuel ((c.buf.info.take c.buf.len).map toG) 0 := by
  rw [toG_eq_projG]
  exact applyString_lig l hall hshort hp C06_gen_buffer_variants.2 C06_gen_extend_start_guard c fuel hps hlv hfl hsu hlen hout
    hbud hplain hfeat hmono

/-- **C06, ligature substitution on buffers whose masks carry glyph flags (partial: the three glyph-flag bits of the masks are
    left out).**  In a real shaping run the masks already hold `unsafe_to_break` / `unsafe_to_concat` flags from earlier
    stages; `merge_clusters` (through `set_cluster`) drops the flags of every glyph whose cluster it changes, where the
    specification leaves masks alone (example `exLigFlag` below), so `C06_ligature_subst_refines_spec` is false there for
    the flag bits.  What holds without `FeatMask`: the pass succeeds and glyph ids, clusters and FEATURE bits of the masks
    are exactly those of the specification.  `hlmf`: the lookup mask is made of feature bits (the feature map never
    allocates the glyph-flag bits).  Missing for the full statement: a specification of the glyph flags. -/
theorem C06_ligature_subst_flags_partial (l : Lookup) (hall : l.subtables.all Subtable.isLigatureSt = true)
    (hshort : LigsShort l.subtables) (hp : NoSkipFlags l.props)
    (c : Ctx) (fuel : Nat) (hlmf : c.lookupMask &&& (U32MAX - Flag.DEFINED) = c.lookupMask)
    (hps : c.perSyllable = false) (hlv : c.buf.level ≠ 2)
    (hfl : c.buf.flags &&& Gen.Buf.produceUnsafeToConcat = 0)
    (hsu : c.buf.successful = true) (hlen : c.buf.len ≤ c.buf.info.length) (hout : c.buf.out.length = c.buf.info.length)
    (hbud : c.buf.len ≤ c.buf.maxLen)
    (hplain : ∀ x ∈ c.buf.info.take c.buf.len, Plain x ∧ x.gid < 65536)
    (hmono : NonDecr (c.buf.info.take c.buf.len) ∨ NonIncr (c.buf.info.take c.buf.len)) :
    ∃ c', applyString c l fuel = .ok c' ∧ c'.buf.successful = true ∧ c'.buf.len ≤ c'.buf.info.length ∧
      (c'.buf.info.take c'.buf.len).map (fun x => (x.gid, x.cluster, featBits x.mask))
        = (applyLookupFwd c.font c.buf.level l c.lookupMask fuel ((c.buf.info.take c.buf.len).map toG) 0).map
            (fun g => (g.gid, g.cluster, featBits g.mask)) := by
  rw [toG_eq_projG]
  exact applyString_ligF l hall hshort hp C06_gen_buffer_variants.2 C06_gen_extend_start_guard c fuel hlmf hps hlv hfl hsu hlen
    hout hbud hplain hmono

/-! non-vacuity.  One ligature subtable: glyph 1 starts "1 2 3" → 20 (a 3-component ligature), "1 2" → 21 and "1" → 22 (zero
    extra components: a plain replacement); glyph 5 starts "5 6" → 23.  The feature bit is 8 (the three low bits of a mask
    are the glyph flags).  Text `1 2 3 | 1 2 4 | 1 7 | 5 6 | 5 7`: all three ligatures of the first set fire in turn, "5 6"
    ligates, "5 7" is a FAILED match (5 stays).  Neighbouring glyphs share clusters (0 0 1 | 2 2 3 | …): the merge of
    "1 2 3" takes cluster 0 for the ligature, and the merge of "5 6" (clusters 6, 7) extends over the next glyph, which
    shares cluster 7 with the last component. -/
def exLigFont : Font := {}
def exLigSub : Subtable := .ligature [1, 5] [[([2, 3], 20), ([2], 21), ([], 22)], [([6], 23)]]
def exLigLookup : Lookup := { props := 0, subtables := [exLigSub] }
def exLigInfo : List Info :=
  [⟨1,8,0,0,0⟩, ⟨2,8,0,0,0⟩, ⟨3,8,1,0,0⟩, ⟨1,8,2,0,0⟩, ⟨2,8,2,0,0⟩, ⟨4,8,3,0,0⟩, ⟨1,8,4,0,0⟩, ⟨7,8,5,0,0⟩,
   ⟨5,8,6,0,0⟩, ⟨6,8,7,0,0⟩, ⟨5,8,7,0,0⟩, ⟨7,8,8,0,0⟩]
def exLigCtx : Ctx :=
  { font := exLigFont, lookupMask := 8, buf := { info := exLigInfo, out := List.replicate 12 {}, len := 12 } }

example : exLigLookup.subtables.all Subtable.isLigatureSt = true := by decide
example : NoSkipFlags exLigLookup.props := by decide
example : LigsShort exLigLookup.subtables := by
  intro st hst cov sets he ligs hl p hp
  simp only [exLigLookup, exLigSub, List.mem_singleton] at hst
  subst hst
  cases he
  simp only [List.mem_cons, List.not_mem_nil, or_false] at hl
  rcases hl with h | h <;> subst h <;> simp only [List.mem_cons, List.not_mem_nil, or_false] at hp
  · rcases hp with h | h | h <;> subst h <;> decide
  · subst hp; decide
example : exLigCtx.perSyllable = false ∧ exLigCtx.buf.level ≠ 2 ∧
    exLigCtx.buf.flags &&& Gen.Buf.produceUnsafeToConcat = 0 ∧ exLigCtx.buf.len ≤ exLigCtx.buf.maxLen ∧
    exLigCtx.buf.out.length = exLigCtx.buf.info.length := by decide
example : ∀ x ∈ exLigCtx.buf.info.take exLigCtx.buf.len, Plain x ∧ x.gid < 65536 := by decide
example : ∀ x ∈ exLigCtx.buf.info.take exLigCtx.buf.len, FeatMask x := by decide
example : NonDecr (exLigCtx.buf.info.take exLigCtx.buf.len) := nonDecr_of_pairwise _ (by decide)
/-- the interpreter: 12 glyphs become 8 -/
example : (match applyString exLigCtx exLigLookup 12 with
    | .ok c' => (c'.buf.info.take c'.buf.len).map (fun x => (x.gid, x.cluster, x.mask)) ==
                  [(20, 0, 8), (21, 2, 8), (4, 3, 8), (22, 4, 8), (7, 5, 8), (23, 6, 8), (5, 6, 8), (7, 8, 8)]
    | .error _ => false) = true := by decide
/-- the specification: the same string -/
example : (applyLookupFwd exLigFont 0 exLigLookup 8 12 (exLigInfo.map toG) 0).map (fun g => (g.gid, g.cluster, g.mask))
    = [(20, 0, 8), (21, 2, 8), (4, 3, 8), (22, 4, 8), (7, 5, 8), (23, 6, 8), (5, 6, 8), (7, 8, 8)] := by decide

/-! two ligatures sharing the first glyph: the ORDER in the set decides ("1 2" listed before "1 2 3" shadows it) -/
def exLigLookup2 : Lookup := { props := 0, subtables := [.ligature [1] [[([2], 21), ([2, 3], 20)]]] }
example : (match applyString exLigCtx exLigLookup2 12 with
    | .ok c' => (c'.buf.info.take 3).map (fun x => (x.gid, x.cluster)) == [(21, 0), (3, 1), (21, 2)]
    | .error _ => false) = true := by decide
example : ((applyLookupFwd exLigFont 0 exLigLookup2 8 12 (exLigInfo.map toG) 0).take 3).map (fun g => (g.gid, g.cluster))
    = [(21, 0), (3, 1), (21, 2)] := by decide

/-! right-to-left text (clusters descending): the merged cluster is that of the LAST component, and the out-buffer glyph
    that shares the first component's cluster is relabelled with it (`merge_clusters` continues into the out-buffer) -/
def exLigRtl : Ctx :=
  { font := exLigFont, lookupMask := 8,
    buf := { info := [⟨9,8,2,0,0⟩, ⟨1,8,2,0,0⟩, ⟨2,8,1,0,0⟩, ⟨3,8,0,0,0⟩], out := List.replicate 4 {}, len := 4 } }
example : NonIncr (exLigRtl.buf.info.take exLigRtl.buf.len) := nonIncr_of_pairwise _ (by decide)
example : (match applyString exLigRtl exLigLookup 4 with
    | .ok c' => (c'.buf.info.take c'.buf.len).map (fun x => (x.gid, x.cluster)) == [(9, 0), (20, 0)]
    | .error _ => false) = true := by decide
example : (applyLookupFwd exLigFont 0 exLigLookup 8 4 ((exLigRtl.buf.info.take 4).map toG) 0).map (fun g => (g.gid, g.cluster))
    = [(9, 0), (20, 0)] := by decide

/-! the step theorems on a mid-scan state: two glyphs out (separate out-buffer), "1 2 3 9" to come -/
def exLigStepBuf : Buf :=
  { info := [⟨0,0,0,0,0⟩, ⟨0,0,0,0,0⟩, ⟨1,8,2,0,0⟩, ⟨2,8,2,0,0⟩, ⟨3,8,3,0,0⟩, ⟨9,8,3,0,0⟩],
    out := [⟨7,8,0,0,0⟩, ⟨8,8,1,0,0⟩, {}, {}, {}, {}],
    idx := 2, len := 6, outLen := 2, haveOutput := true, sepOut := true }
def exLigStepCtx : Ctx := { font := exLigFont, lookupMask := 8, buf := exLigStepBuf }
example : LigStepHyp exLigStepCtx ⟨1,8,2,0,0⟩ [⟨2,8,2,0,0⟩, ⟨3,8,3,0,0⟩, ⟨9,8,3,0,0⟩] :=
  ⟨⟨by decide, by decide, by decide, by decide, by decide, by decide⟩, by decide, by decide, by decide,
    Or.inl (nonDecr_of_pairwise _ (by decide)), by decide, by decide, by decide, by decide, by decide⟩
example : (match matchInput exLigStepCtx 2 (fun g i => g == [2, 3].getD i 0) [0, 0, 0, 0] with
    | .ok r => (r.ok, r.endPos, r.positions.take 3) == (true, 5, [2, 3, 4])
    | .error _ => false) = true := by decide
/-- a failed match: "1 2 9" is not there (the third glyph is 3): `match_input` says no, and so does `matchSeq` -/
example : (match matchInput exLigStepCtx 2 (fun g i => g == [2, 9].getD i 0) [0, 0, 0, 0] with
    | .ok r => r.ok == false
    | .error _ => false) = true := by decide
example : matchSeq ((outP exLigStepBuf ++ inP exLigStepBuf).map toG)
    (visibleFrom exLigFont 0 ((outP exLigStepBuf ++ inP exLigStepBuf).map toG) 3) ([2, 9].map fun v => fun g => g == v) (some 8)
    = none := by decide
example : matchSeq ((outP exLigStepBuf ++ inP exLigStepBuf).map toG)
    (visibleFrom exLigFont 0 ((outP exLigStepBuf ++ inP exLigStepBuf).map toG) 3) ([2, 3].map fun v => fun g => g == v) (some 8)
    = some [3, 4] := by decide
example : (match applySubtable (recurseAt MAX_NESTING_LEVEL) true exLigStepCtx exLigSub with
    | .ok (c', ok) => (ok, (outP c'.buf ++ inP c'.buf).map (fun x => (x.gid, x.cluster)), c'.buf.outLen)
                        == (true, [(7, 0), (8, 1), (20, 2), (9, 2)], 3)
    | .error _ => false) = true := by decide

/-! the hypotheses are not idle.
    (a) Clusters that are not monotone (5 0 5): `merge_clusters` merges the SPAN and the adjacent runs — glyph 9 keeps
        cluster 5 — the specification relabels every glyph carrying a cluster value of the span.  (Replayed on the crate:
        it does what the model does; HarfBuzz never produces such a cluster sequence at levels 0 / 1.)
    (b) A glyph-flag bit (UNSAFE_TO_BREAK = 1) on a glyph whose cluster the merge changes: `set_cluster` drops it, the
        specification keeps masks. -/
def exLigLookup3 : Lookup := { props := 0, subtables := [.ligature [1] [[([2], 21)]]] }
def exLigBad : Ctx :=
  { font := exLigFont, lookupMask := 8,
    buf := { info := [⟨9,8,5,0,0⟩, ⟨1,8,0,0,0⟩, ⟨2,8,5,0,0⟩], out := List.replicate 3 {}, len := 3 } }
example : (match applyString exLigBad exLigLookup3 3 with
    | .ok c' => (c'.buf.info.take c'.buf.len).map (fun x => (x.gid, x.cluster)) == [(9, 5), (21, 0)]
    | .error _ => false) = true := by decide
example : (applyLookupFwd exLigFont 0 exLigLookup3 8 3 ((exLigBad.buf.info.take 3).map toG) 0).map (fun g => (g.gid, g.cluster))
    = [(9, 0), (21, 0)] := by decide
def exLigFlag : Ctx :=
  { font := exLigFont, lookupMask := 8,
    buf := { info := [⟨1,9,1,0,0⟩, ⟨2,8,0,0,0⟩], out := List.replicate 2 {}, len := 2 } }
example : (match applyString exLigFlag exLigLookup3 2 with
    | .ok c' => (c'.buf.info.take c'.buf.len).map (fun x => (x.gid, x.cluster, x.mask)) == [(21, 0, 8)]
    | .error _ => false) = true := by decide
example : (applyLookupFwd exLigFont 0 exLigLookup3 8 2 ((exLigFlag.buf.info.take 2).map toG) 0).map (fun g => (g.gid, g.cluster, g.mask))
    = [(21, 0, 9)] := by decide
/-- … and `exLigFlag` satisfies the hypotheses of `C06_ligature_subst_flags_partial`: the feature bits (8) agree -/
example : exLigFlag.lookupMask &&& (U32MAX - Flag.DEFINED) = exLigFlag.lookupMask ∧
    (∀ x ∈ exLigFlag.buf.info.take exLigFlag.buf.len, Plain x ∧ x.gid < 65536) := by decide
example : NonIncr (exLigFlag.buf.info.take exLigFlag.buf.len) := nonIncr_of_pairwise _ (by decide)
example : (applyLookupFwd exLigFont 0 exLigLookup3 8 2 ((exLigFlag.buf.info.take 2).map toG) 0).map
    (fun g => (g.gid, g.cluster, featBits g.mask)) = [(21, 0, 8)] := by decide

/-- **C06, lookups mixing ligature subtables with one-for-one simple subtables (partial: multiple-substitution subtables are not
    in the mix).**  The model's `Lookup` and the specification's `firstSubtable` allow subtables of different kinds in one
    lookup (OpenType itself does not: a lookup has one type).  For a lookup whose subtables are single substitutions
    (formats 1 / 2), alternate substitutions or ligature substitutions in any order, the first subtable that applies at a
    glyph decides, exactly as in the OpenType model; hypotheses: the union of Part 3's (`c.random = false`, 32-bit lookup
    mask, `AltSetsShort`) and `C06_ligature_subst_refines_spec`'s.  Missing: multiple substitution in the mix — the string
    then grows and shrinks within one pass, and the length budget `max_len` has to be analysed over every prefix of the scan
    (Part 4 bounds it by the final length, which is no longer an upper bound of the intermediate lengths). -/
theorem C06_ligature_mixed_partial (l : Lookup) (hall : l.subtables.all Subtable.isInPlaceOrLig = true)
    (hshort : LigsShort l.subtables) (halt : AltSetsShort l.subtables) (hp : NoSkipFlags l.props)
    (c : Ctx) (fuel : Nat) (hrnd : c.random = false) (hlm : c.lookupMask < 2 ^ 32)
    (hps : c.perSyllable = false) (hlv : c.buf.level ≠ 2)
    (hfl : c.buf.flags &&& Gen.Buf.produceUnsafeToConcat = 0)
    (hsu : c.buf.successful = true) (hlen : c.buf.len ≤ c.buf.info.length) (hout : c.buf.out.length = c.buf.info.length)
    (hbud : c.buf.len ≤ c.buf.maxLen)
    (hplain : ∀ x ∈ c.buf.info.take c.buf.len, Plain x ∧ x.gid < 65536)
    (hfeat : ∀ x ∈ c.buf.info.take c.buf.len, FeatMask x)
    (hmono : NonDecr (c.buf.info.take c.buf.len) ∨ NonIncr (c.buf.info.take c.buf.len)) :
    ∃ c', applyString c l fuel = .ok c' ∧ c'.buf.successful = true ∧ c'.buf.len ≤ c'.buf.info.length ∧
      (c'.buf.info.take c'.buf.len).map toG
        = applyLookupFwd c.font c.buf.level l c.lookupMask fuel ((c.buf.info.take c.buf.len).map toG) 0 := by
  rw [toG_eq_projG]
  exact applyString_sim l (inPlaceOrLig_not_reverse l hall) hp C06_gen_buffer_variants.2 c
    (mixed_subSim C06_gen_buffer_variants.2 C06_gen_extend_start_guard l hall hshort halt hp c.lookupMask c.buf.level hlv hlm)
    fuel hrnd hps hlv hfl hsu hlen hout hbud hplain hfeat hmono

/-! non-vacuity: ligature "1 2" → 21 first, then single substitution 1 → 11, 3 → 13, then alternate 2 → 30 (feature value 1) -/
def exMixLigLookup : Lookup :=
  { props := 0, subtables := [.ligature [1] [[([2], 21)]], .single1 [1, 3] 10, .alternate [2] [[30, 31]]] }
def exMixLigCtx : Ctx :=
  { font := exLigFont, lookupMask := 8,
    buf := { info := [⟨1,8,0,0,0⟩, ⟨2,8,1,0,0⟩, ⟨1,8,2,0,0⟩, ⟨3,8,3,0,0⟩, ⟨2,8,4,0,0⟩], out := List.replicate 5 {}, len := 5 } }
example : exMixLigLookup.subtables.all Subtable.isInPlaceOrLig = true := by decide
example : (match applyString exMixLigCtx exMixLigLookup 5 with
    | .ok c' => (c'.buf.info.take c'.buf.len).map (fun x => (x.gid, x.cluster)) == [(21, 0), (11, 2), (13, 3), (30, 4)]
    | .error _ => false) = true := by decide
example : (applyLookupFwd exLigFont 0 exMixLigLookup 8 5 ((exMixLigCtx.buf.info.take 5).map toG) 0).map (fun g => (g.gid, g.cluster))
    = [(21, 0), (11, 2), (13, 3), (30, 4)] := by decide

/-! ## Part 6 — match-position bookkeeping of `apply_lookup` after a growing nested lookup

  `apply_lookup` keeps `match_positions` in step with the buffer while it runs the records of a contextual rule.  After a
  nested lookup at sequence index `s` made the string longer by `delta`, the glyphs it added become sequence positions of
  their own: `s + 1 + i ↦ positions[s] + 1 + i`.  This is the rule the specification model states (`Spec.Subst.applyRecords`);
  the theorems say the operational loop ("Fill in new entries") computes exactly that for every position list, start and growth
  (seeded change C06e — every added glyph recorded at `positions[s] + 1` — breaks them through the gsub-interp correspondence). -/

theorem C06_fill_consecutive (positions : List Nat) (s delta p : Nat) (hp : positions[s]? = some p)
    (hlen : s + 1 + delta ≤ positions.length) :
    ∃ l', applyLookup.loop.fill ((s + 1 + delta : Nat) : Int) positions (s + 1) (s + 1 + delta + 1) = .ok l' ∧
      l'.length = positions.length ∧
      (∀ i, i < delta → l'[s + 1 + i]? = some (p + 1 + i)) ∧
      (∀ k, (k ≤ s ∨ s + 1 + delta ≤ k) → l'[k]? = positions[k]?) :=
  fill_consecutive positions s delta p hp hlen

theorem C06_fill_is_spec_rule (positions : List Nat) (s delta p : Nat) (hp : positions[s]? = some p)
    (hlen : s + 1 + delta ≤ positions.length) :
    applyLookup.loop.fill ((s + 1 + delta : Nat) : Int) positions (s + 1) (s + 1 + delta + 1) =
      .ok (positions.take (s + 1) ++ (List.range delta).map (fun i => p + 1 + i) ++ positions.drop (s + 1 + delta)) :=
  fill_closed_form positions s delta p hp hlen

-- non-vacuity: a 1 → 4 expansion at sequence index 0 (buffer position 7): the three added glyphs sit at 8, 9, 10
example : applyLookup.loop.fill ((0 + 1 + 3 : Nat) : Int) [7, 0, 0, 0, 12, 13] (0 + 1) (0 + 1 + 3 + 1) = .ok [7, 8, 9, 10, 12, 13] := by
  rfl

end RbModel.Gsub

/-! ## Part 7 — contextual substitution (GSUB types 5 and 6): matching and the nested-record loop refine the OpenType model

  `Context*` / `ChainContext*` subtables (all three formats differ only in the match function: glyph, class, coverage) run
  `match_input`, `match_lookahead`, `match_backtrack` (skipping iterators) and then `apply_lookup`: for every
  (sequenceIndex, lookupIndex) record, `move_to` the recorded position, `recurse` into the nested lookup, and keep
  `match_positions` in step with the buffer (delta, shift, fill, fixup); finally `move_to(end)`.  The specification
  (`Spec.Subst.applySubtableAt … ctxRule`) matches three predicate sequences on the VISIBLE positions after / before the
  current glyph (`matchSeq` on `visibleFrom` / `visibleBefore`) and applies the records with `applyRecords` / `applyNested`.
  Lemmas: `Lemmas/GsubCtx*.lean`.  Strings are compared through (glyph id, cluster, FEATURE bits of the mask): a successful
  match makes `unsafe_to_break` set glyph-flag bits in the masks of the matched span, which the specification — it knows
  feature bits only — does not describe (same projection as `C06_ligature_subst_flags_partial`).

  Domain (the Spec's documented one) and the guard of the code each hypothesis stands for:
  * `NoSkipFlags c.lookupProps` — the contextual lookup's flags exclude nothing, so the visible positions are consecutive
    (`visibleFrom_noSkip`, `visibleBefore_noSkip`); `c.perSyllable = false` (Indic shapers only).
  * `Plain y` for the unconsumed input (not default-ignorable, no ligature id: `match_input` refuses to match across
    components of different earlier ligatures) and `CtxG y` for every glyph a matcher may read (in particular the OUT
    buffer, which `match_backtrack` reads): `unicode_props & 0x20 = 0` (the iterator may skip default-ignorables: HarfBuzz-
    specific), `gid < 65536` (`GlyphId` is `u16`; the model keeps `Nat` and reduces mod 2^16 where Rust casts), and at
    least one feature bit in the mask: the `context_match` iterators of backtrack / lookahead test `mask & 0xFFFFFFFF ≠ 0`
    where the specification tests nothing — every glyph of a shaping run carries the global bit (see `exCtxMask0` below
    for the disagreement on a zero mask).
  * `c.lookupMask &&& (U32MAX - Flag.DEFINED) = c.lookupMask` — the lookup mask is made of feature bits (the feature map
    never allocates the three glyph-flag bits); `c.lookupMask < 2^32`, `c.random = false` as in Part 3 (alternates).
  * `NestedSts Gr l.subtables` for every nested lookup: its subtables are single / alternate / multiple substitutions (it acts
    at ONE position and is not itself contextual — one nesting level), no sequence is empty (non-shrinking: `delta ≥ 0`
    branch of `apply_lookup` only; deleting sequences go through `delete_glyph` and the `delta < 0` branch, not covered), every
    sequence adds at most `Gr` glyphs, substitute ids fit `u16`, alternate sets have at most 65535 entries.
  * the three budgets the code consults: `out_len + |input| + |records| · Gr ≤ max_len` (`make_room_for` / `shift_forward`
    behind `move_to`, `output_glyph`), `n + 1 + |records| · Gr ≤ MAX_CONTEXT_LENGTH` (else `apply_lookup` stops at the first
    record that would grow the sequence beyond 64 — the specification has no such limit), `|records| ≤ max_ops` (`recurse`
    spends one unit per record and `apply_lookup` stops at `max_ops ≤ 0`); the nesting budget is the `m + 1` of
    `recurseAt (m + 1)` (one level is used: nested lookups are not contextual). -/
namespace RbModel.Gsub
open RbModel RbModel.Buf RbModel.Spec.Subst

/-- **C06, contextual, step 1a: `match_input` without skippable glyphs is the specification's `matchSeq`** on the visible
    positions behind the current glyph of the projected string `toG (out ++ in)`, with the lookup's feature required on
    every input glyph, for ANY match function `fn glyph index` (glyph ids, classes, coverages: `fnPreds fn 0 n` are the
    predicates `fn · 0, …, fn · (n-1)`).  Same decision; on success the matched positions are consecutive on both sides
    (`out_len + 1 …` resp. `idx …`) and `match_end` is just behind the last. -/
theorem C06_context_match_input_refines_spec (c : Ctx) (n : Nat) (fn : Nat → Nat → Bool) (x : Info) (R : List Info)
    (hinv : Inv c.buf) (hin : inP c.buf = x :: R) (hpl : ∀ y ∈ x :: R, Plain y) (hgid : ∀ y ∈ R, y.gid < 65536)
    (hp : NoSkipFlags c.lookupProps) (hps : c.perSyllable = false) (hshort : n + 1 ≤ MAX_CONTEXT_LENGTH)
    (hlmf : c.lookupMask &&& (U32MAX - Flag.DEFINED) = c.lookupMask) :
    ∃ r, matchInput c n fn [0, 0, 0, 0] = .ok r ∧
      match matchSeq ((outP c.buf ++ inP c.buf).map toG)
              (visibleFrom c.font c.lookupProps ((outP c.buf ++ inP c.buf).map toG) (c.buf.outLen + 1))
              (fnPreds fn 0 n) (some c.lookupMask) with
      | none => r.ok = false
      | some ins => r.ok = true ∧ ins = List.range' (c.buf.outLen + 1) n ∧ n ≤ R.length ∧ r.endPos = c.buf.idx + n + 1 ∧
          n + 1 ≤ r.positions.length ∧ ∀ j, j ≤ n → r.positions[j]? = some (c.buf.idx + j) := by
  rw [toG_eq_projG]
  exact matchInput_relF c n fn _ x R hinv hin (RelF.refl _) hpl hgid hp hps hshort hlmf

/-- **C06, contextual, step 1b: `match_lookahead`** behind a matched input of `k` glyphs is `matchSeq` on the visible positions
    from `out_len + k + 1` on (the Spec's `afterIn`), no feature required. -/
theorem C06_context_match_lookahead_refines_spec (c : Ctx) (n k : Nat) (fn : Nat → Nat → Bool) (x : Info) (R : List Info)
    (hinv : Inv c.buf) (hin : inP c.buf = x :: R) (hgl : ∀ y ∈ R, CtxG y)
    (hp : NoSkipFlags c.lookupProps) (hps : c.perSyllable = false) :
    ∃ r, matchLookahead c n fn (c.buf.idx + k + 1) = .ok r ∧
      r.1 = (matchSeq ((outP c.buf ++ inP c.buf).map toG)
              (visibleFrom c.font c.lookupProps ((outP c.buf ++ inP c.buf).map toG) (c.buf.outLen + k + 1))
              (fnPreds fn 0 n)).isSome := by
  rw [toG_eq_projG]
  exact matchLookahead_relF c n k fn _ x R hinv hin (RelF.refl _) hgl hp hps

/-- **C06, contextual, step 1c: `match_backtrack` reads the OUT buffer**: it is `matchSeq` on the visible positions before
    `out_len` of the projected string, nearest first (the Spec's `visibleBefore`), no feature required. -/
theorem C06_context_match_backtrack_refines_spec (c : Ctx) (n : Nat) (fn : Nat → Nat → Bool)
    (hinv : Inv c.buf) (hgl : ∀ y ∈ outP c.buf, CtxG y) (hp : NoSkipFlags c.lookupProps) (hps : c.perSyllable = false) :
    ∃ r, matchBacktrack c n fn = .ok r ∧
      r.1 = (matchSeq ((outP c.buf ++ inP c.buf).map toG)
              (visibleBefore c.font c.lookupProps ((outP c.buf ++ inP c.buf).map toG) c.buf.outLen)
              (fnPreds fn 0 n)).isSome ∧ r.2 ≤ c.buf.outLen := by
  rw [toG_eq_projG]
  exact matchBacktrack_relF c n fn _ hinv (RelF.refl _) hgl hp hps

/-- **C06, contextual, step 2: `apply_lookup` (the nested-record loop) on a match equals `Spec.Subst.applyRecords`.**  On any
    in/out buffer state, for a match of `n + 1` consecutive glyphs at the current position (`match_positions[j] = idx + j`,
    `match_end = idx + n + 1`) and records whose nested lookups are single-position and non-shrinking, inside the three
    budgets: `apply_lookup` does not panic and is not refused; the new string is — in glyph ids, clusters and feature bits —
    the specification's `applyRecords` on the projected string `toG (out ++ in)` with the sequence positions
    `out_len, …, out_len + n` (= the buffer positions shifted by `out_len − idx`); the cursor ends behind the grown match:
    the new `out_len` is the old match end plus the growth, and it is the Spec's last sequence position + 1; the unconsumed
    input behind the match is untouched. -/
theorem C06_context_records_refine_spec (m : Nat) (c : Ctx) (n : Nat) (P : List Nat) (recs : List Rec)
    (x : Info) (R : List Info) (Gr : Nat)
    (hinv : Inv c.buf) (hsu : c.buf.successful = true) (hin : inP c.buf = x :: R) (hn : n ≤ R.length)
    (hglyph : ∀ y ∈ outP c.buf ++ inP c.buf, CtxG y)
    (hP : n + 1 ≤ P.length) (hPj : ∀ j, j ≤ n → P[j]? = some (c.buf.idx + j))
    (hlm : c.lookupMask < 2 ^ 32) (hlmf : c.lookupMask &&& (U32MAX - Flag.DEFINED) = c.lookupMask) (hrnd : c.random = false)
    (hnest : ∀ r ∈ recs, ∀ l, c.font.lookups[r.2]? = some l → NestedSts Gr l.subtables)
    (hbud : c.buf.outLen + (inP c.buf).length + recs.length * Gr ≤ c.buf.maxLen)
    (hctx : n + 1 + recs.length * Gr ≤ MAX_CONTEXT_LENGTH) (hops : (recs.length : Int) ≤ c.buf.maxOps) :
    ∃ b', applyLookup (recurseAt (m + 1)) c n P (c.buf.idx + n + 1) recs = .ok { c with buf := b' } ∧ Inv b' ∧
      b'.successful = true ∧
      (outP b' ++ inP b').map (fun y => (y.gid, y.cluster, featBits y.mask))
        = (applyRecords c.font c.lookupMask recs ((outP c.buf ++ inP c.buf).map toG) (List.range' c.buf.outLen (n + 1))).1.map
            (fun g => (g.gid, g.cluster, featBits g.mask)) ∧
      b'.outLen + (outP c.buf ++ inP c.buf).length = c.buf.outLen + n + 1 +
        (applyRecords c.font c.lookupMask recs ((outP c.buf ++ inP c.buf).map toG) (List.range' c.buf.outLen (n + 1))).1.length ∧
      (applyRecords c.font c.lookupMask recs ((outP c.buf ++ inP c.buf).map toG) (List.range' c.buf.outLen (n + 1))).2.getLast?
        = some (b'.outLen - 1) ∧ 0 < b'.outLen ∧ inP b' = R.drop n := by
  rw [toG_eq_projG]
  obtain ⟨b', hrun, hinv', hsu', hrel', hlen', hlast', hpos', hin', _, _, _, _⟩ :=
    applyLookup_sim C06_gen_buffer_variants.2 C06_gen_buffer_variants.1 m c n P recs _ x R Gr hinv hsu hin hn (RelF.refl _)
      hglyph hP hPj hlm hlmf hrnd hnest hbud hctx hops
  refine ⟨b', hrun, hinv', hsu', hrel', ?_, hlast', hpos', hin'⟩
  rw [← hlen']; simp

/-! non-vacuity.  Font: lookup 0 = one ChainContext format 3 rule — backtrack [9], input [1] [2], lookahead [3], records
    (0 → lookup 1), (2 → lookup 2); lookup 1 = multiple substitution 1 → 11 12 13 (grows 1 → 3); lookup 2 = single
    substitution 13 → 20: the SECOND record addresses sequence index 2, which after the growth is the ADDED glyph 13 (not the
    original second input glyph 2).  Text `9 1 2 3 | 9 1 2 4`: the first rule instance fires, the second has a FAILED
    lookahead (4 is not 3) and nothing changes.  Feature bit 8; all glyphs carry it. -/
def exCtxFont : Font :=
  { lookups := [ { props := 0, subtables := [.chain3 [[9]] [[1], [2]] [[3]] [(0, 1), (2, 2)]] },
                 { props := 0, subtables := [.multiple [1] [[11, 12, 13]]] },
                 { props := 0, subtables := [.single1 [13] 7] },
                 { props := 0, subtables := [.single1 [1] 30] },
                 { props := 0, subtables := [.single1 [1] 40] },
                 { props := 0, subtables := [.context1 [1] [[⟨[2], [(0, 3)]⟩, ⟨[2, 3], [(0, 4)]⟩]]] } ] }
def exCtxInfo : List Info :=
  [⟨9,8,0,0,0⟩, ⟨1,8,1,0,0⟩, ⟨2,8,2,0,0⟩, ⟨3,8,3,0,0⟩, ⟨9,8,4,0,0⟩, ⟨1,8,5,0,0⟩, ⟨2,8,6,0,0⟩, ⟨4,8,7,0,0⟩]
def exCtxCtx : Ctx :=
  { font := exCtxFont, lookupMask := 8, buf := { info := exCtxInfo, out := List.replicate 8 {}, len := 8 } }
def exCtxLookup : Lookup := { props := 0, subtables := [.chain3 [[9]] [[1], [2]] [[3]] [(0, 1), (2, 2)]] }

example : ∀ y ∈ exCtxInfo, CtxG y ∧ Plain y := by decide
example : NestedSts 2 [.multiple [1] [[11, 12, 13]]] ∧ NestedSts 2 [.single1 [13] 7] := by
  refine ⟨⟨by decide, ?_, ?_⟩, ⟨by decide, ?_, ?_⟩⟩
  · intro st hst cov alts he; simp only [List.mem_singleton] at hst; subst hst; cases he
  · intro st hst ss hss; simp only [List.mem_singleton] at hst; subst hst
    simp only [Subtable.seqsOf, List.mem_singleton] at hss; subst hss; decide
  · intro st hst cov alts he; simp only [List.mem_singleton] at hst; subst hst; cases he
  · intro st hst ss hss; simp only [List.mem_singleton] at hst; subst hst
    simp only [Subtable.seqsOf, List.not_mem_nil] at hss
/-- the interpreter: `9 1 2 3 9 1 2 4` ↦ `9 11 12 20 2 3 9 1 2 4` (clusters of the added glyphs = cluster of the glyph they
    replace) -/
example : (match applyString exCtxCtx exCtxLookup 8 with
    | .ok c' => (c'.buf.info.take c'.buf.len).map (fun x => (x.gid, x.cluster, featBits x.mask)) ==
        [(9,0,8), (11,1,8), (12,1,8), (20,1,8), (2,2,8), (3,3,8), (9,4,8), (1,5,8), (2,6,8), (4,7,8)]
    | .error _ => false) = true := by decide
/-- the specification: the same string -/
example : (applyLookupFwd exCtxFont 0 exCtxLookup 8 8 (exCtxInfo.map toG) 0).map (fun g => (g.gid, g.cluster, featBits g.mask))
    = [(9,0,8), (11,1,8), (12,1,8), (20,1,8), (2,2,8), (3,3,8), (9,4,8), (1,5,8), (2,6,8), (4,7,8)] := by decide
/-- … and the specification's resume index after the grown match is 5 = the interpreter's new `out_len` -/
example : (applySubtableAt exCtxFont 0 0 8 (.chain3 [[9]] [[1], [2]] [[3]] [(0, 1), (2, 2)]) (exCtxInfo.map toG) 1).map (·.2)
    = some 5 := by decide
/-- the matchers on the state "9 out, 1 2 3 … to come": input [2] matches, lookahead [3] matches, backtrack [9] matches;
    lookahead [4] fails on both sides -/
def exCtxStepBuf : Buf :=
  { info := exCtxInfo, out := [⟨9,8,0,0,0⟩, {}, {}, {}, {}, {}, {}, {}], idx := 1, len := 8, outLen := 1,
    haveOutput := true, sepOut := true }
def exCtxStepCtx : Ctx := { font := exCtxFont, lookupMask := 8, buf := exCtxStepBuf }
example : Inv exCtxStepBuf := ⟨by decide, by decide, by decide, by decide, by decide, by decide⟩
example : (match matchInput exCtxStepCtx 1 (fun g i => nthCov [[2]] i g) [0, 0, 0, 0] with
    | .ok r => (r.ok, r.endPos, r.positions.take 2) == (true, 3, [1, 2]) | .error _ => false) = true := by decide
example : matchSeq ((outP exCtxStepBuf ++ inP exCtxStepBuf).map toG)
    (visibleFrom exCtxFont 0 ((outP exCtxStepBuf ++ inP exCtxStepBuf).map toG) 2) (fnPreds (fun g i => nthCov [[2]] i g) 0 1) (some 8)
    = some [2] := by decide
example : (match matchLookahead exCtxStepCtx 1 (fun g i => nthCov [[4]] i g) 3 with
    | .ok r => r.1 == false | .error _ => false) = true := by decide
example : (matchSeq ((outP exCtxStepBuf ++ inP exCtxStepBuf).map toG)
    (visibleFrom exCtxFont 0 ((outP exCtxStepBuf ++ inP exCtxStepBuf).map toG) 3) (fnPreds (fun g i => nthCov [[4]] i g) 0 1)).isSome
    = false := by decide
example : (match matchBacktrack exCtxStepCtx 1 (fun g i => nthCov [[9]] i g) with
    | .ok r => r == (true, 0) | .error _ => false) = true := by decide
/-- `apply_lookup` on that match: records (0 → lookup 1), (2 → lookup 2) -/
example : (match applyLookup (recurseAt 64) exCtxStepCtx 1 [1, 2, 0, 0] 3 [(0, 1), (2, 2)] with
    | .ok c' => ((outP c'.buf ++ inP c'.buf).map (·.gid), c'.buf.outLen) == ([9, 11, 12, 20, 2, 3, 9, 1, 2, 4], 5)
    | .error _ => false) = true := by decide
example : (applyRecords exCtxFont 8 [(0, 1), (2, 2)] ((outP exCtxStepBuf ++ inP exCtxStepBuf).map toG) [1, 2]).1.map (·.gid)
    = [9, 11, 12, 20, 2, 3, 9, 1, 2, 4] ∧
    (applyRecords exCtxFont 8 [(0, 1), (2, 2)] ((outP exCtxStepBuf ++ inP exCtxStepBuf).map toG) [1, 2]).2 = [1, 2, 3, 4] := by decide

/-! two rules where the ORDER matters (Context format 1, lookup 5): "1 2" (→ 31) is listed before "1 2 3" (→ 41) and shadows it -/
def exCtxLookup5 : Lookup := { props := 0, subtables := [.context1 [1] [[⟨[2], [(0, 3)]⟩, ⟨[2, 3], [(0, 4)]⟩]]] }
example : (match applyString exCtxCtx exCtxLookup5 8 with
    | .ok c' => (c'.buf.info.take c'.buf.len).map (·.gid) == [9, 31, 2, 3, 9, 31, 2, 4] | .error _ => false) = true := by decide
example : (applyLookupFwd exCtxFont 0 exCtxLookup5 8 8 (exCtxInfo.map toG) 0).map (·.gid) = [9, 31, 2, 3, 9, 31, 2, 4] := by decide

/-! the mask hypothesis of `CtxG` is not idle (`exCtxMask0`): a BACKTRACK glyph whose mask is 0 — `match_backtrack`'s iterator
    (mask 0xFFFFFFFF) does not match it, the rule does not fire; the specification asks nothing of context glyphs and fires.
    (No glyph of a shaping run has mask 0: `hb_ot_map_t` gives every glyph the global bit.) -/
def exCtxMask0 : Ctx :=
  { font := exCtxFont, lookupMask := 8,
    buf := { info := [⟨9,0,0,0,0⟩, ⟨1,8,1,0,0⟩, ⟨2,8,2,0,0⟩, ⟨3,8,3,0,0⟩], out := List.replicate 4 {}, len := 4 } }
example : (match applyString exCtxMask0 exCtxLookup 4 with
    | .ok c' => (c'.buf.info.take c'.buf.len).map (·.gid) == [9, 1, 2, 3] | .error _ => false) = true := by decide
example : (applyLookupFwd exCtxFont 0 exCtxLookup 8 4 ((exCtxMask0.buf.info.take 4).map toG) 0).map (·.gid)
    = [9, 11, 12, 20, 2, 3] := by decide

/-! ### Part 7, steps 3 and 4: one contextual subtable at the current glyph, and the whole forward scan

  `CtxStOk f Gr Rn st`: `st` is one of the six contextual subtable kinds (Context / ChainContext formats 1, 2, 3) and every
  rule `(n, recs)` of it (`Subtable.ctxRules`: `n` input glyphs behind the first) satisfies `RuleOk f Gr Rn n recs`:
  `n + 1 + |recs| · Gr ≤ MAX_CONTEXT_LENGTH`, `|recs| ≤ Rn`, every nested lookup `NestedSts Gr`.
  `CtxInv l lm K Rn c` is the invariant of the scan (Lemmas/GsubCtxStep.lean), all of it decidable: the buffer invariant `Inv`,
  `successful`, `lookup_props = l.props`, `lookup_mask = lm`, not per-syllable, `PRODUCE_UNSAFE_TO_CONCAT` off (else every FAILED
  match flags the inspected glyphs), `random = false`, `Plain` for the unconsumed input, `CtxG` for every glyph of `out ++ in`,
  and the two budget potentials `out_len + |in| · (1 + K) ≤ max_len`, `|in| · Rn ≤ max_ops` with `K = Rn · Gr`: every application
  consumes at least one input glyph, adds at most `K` glyphs and spends at most `Rn` operations. -/

/-- **C06, contextual, step 3: one application of a contextual subtable at the current glyph = `Spec.Subst.applySubtableAt`**, for
    each of the six subtable kinds, on every state of the scan: same decision (coverage of the first glyph, rule set by glyph /
    class, FIRST matching rule wins, the three sequences matched on the visible positions; a declined application leaves the
    context untouched), and on success the new string — glyph ids, clusters, feature bits — is the specification's, the new
    `out_len` is the specification's resume index, and the scan invariant holds again.  (`unsafe_to_break` /
    `unsafe_to_break_from_outbuffer` between match and `apply_lookup` never panic and touch glyph-flag bits only.) -/
theorem C06_context_subtable_refines_spec (l : Lookup) (hp : NoSkipFlags l.props) (Gr Rn level : Nat) (st : Subtable) (c : Ctx)
    (hok : CtxStOk c.font Gr Rn st) (hlm : c.lookupMask < 2 ^ 32)
    (hlmf : c.lookupMask &&& (U32MAX - Flag.DEFINED) = c.lookupMask)
    (x : Info) (R : List Info) (h : CtxInv l c.lookupMask (Rn * Gr) Rn c) (hin : inP c.buf = x :: R) :
    match applySubtableAt c.font level l.props c.lookupMask st ((outP c.buf ++ inP c.buf).map toG) c.buf.outLen with
    | none => applySubtable (recurseAt MAX_NESTING_LEVEL) true c st = .ok (c, false)
    | some (gs', nxt) => ∃ b', applySubtable (recurseAt MAX_NESTING_LEVEL) true c st = .ok ({ c with buf := b' }, true) ∧
        (outP b' ++ inP b').map (fun y => (y.gid, y.cluster, featBits y.mask)) = gs'.map (fun g => (g.gid, g.cluster, featBits g.mask)) ∧
        b'.outLen = nxt ∧ c.buf.outLen < nxt ∧ CtxInv l c.lookupMask (Rn * Gr) Rn { c with buf := b' } := by
  rw [toG_eq_projG]
  have hs : SubSimC (recurseAt MAX_NESTING_LEVEL) true c.font l c.lookupMask level (Rn * Gr) Rn st :=
    ctx_subSimC C06_gen_buffer_variants.2 C06_gen_buffer_variants.1 63 true c.font l hp c.lookupMask Gr Rn level hlm hlmf st hok
  have := hs c x R _ rfl h hin (RelF.refl _)
  cases hr : applySubtableAt c.font level l.props c.lookupMask st ((outP c.buf ++ inP c.buf).map projG) c.buf.outLen with
  | none => rw [hr] at this; exact this
  | some p =>
    obtain ⟨gs', nxt⟩ := p
    rw [hr] at this
    obtain ⟨b', hres, hI, hrel, hol, hlt, _⟩ := this
    exact ⟨b', hres, hrel, hol, hlt, hI⟩

/-- **C06, contextual substitution (partial: the three glyph-flag bits of the masks are left out)**: for every font, every forward
    lookup whose subtables are contextual subtables of the Spec's domain (`CtxStOk`: any mix of the six kinds) and whose flags
    exclude nothing, every lookup mask made of feature bits, and every well-formed buffer of plain glyphs, the streaming
    interpreter (`apply_string`: forward scan, matchers, `apply_lookup` with its nested lookups, `sync`) succeeds and yields
    exactly the glyph string of the OpenType model in glyph ids, clusters and FEATURE bits, for every fuel (the two scans take
    their steps in lockstep).  Outside the Spec's documented domain remain: (a) the glyph-flag bits — a successful match sets
    `unsafe_to_break` / `unsafe_to_concat` in the masks of the matched span, which the specification does not describe (hence
    `_partial`, as `C06_ligature_subst_flags_partial`); (b) `CtxG`'s "every glyph has a feature bit" (true of every shaping run:
    the global bit; `exCtxMask0` shows it is needed).  The budgets: `len · (1 + Rn · Gr) ≤ max_len` and `len · Rn ≤ max_ops`
    (satisfied by the crate's own budgets `max_len ≥ 64 · len`, `max_ops ≥ 1024 · len` whenever `Rn · Gr ≤ 63`). -/
theorem C06_context_subst_refines_spec_partial (l : Lookup) (Gr Rn : Nat) (c : Ctx)
    (hall : ∀ st ∈ l.subtables, CtxStOk c.font Gr Rn st) (hp : NoSkipFlags l.props) (fuel : Nat)
    (hlm : c.lookupMask < 2 ^ 32) (hlmf : c.lookupMask &&& (U32MAX - Flag.DEFINED) = c.lookupMask)
    (hrnd : c.random = false) (hps : c.perSyllable = false)
    (hfl : c.buf.flags &&& Gen.Buf.produceUnsafeToConcat = 0)
    (hsu : c.buf.successful = true) (hlen : c.buf.len ≤ c.buf.info.length) (hout : c.buf.out.length = c.buf.info.length)
    (hbud : c.buf.len * (1 + Rn * Gr) ≤ c.buf.maxLen) (hops : (((c.buf.len * Rn : Nat)) : Int) ≤ c.buf.maxOps)
    (hgl : ∀ x ∈ c.buf.info.take c.buf.len, Plain x ∧ CtxG x) :
    ∃ c', applyString c l fuel = .ok c' ∧ c'.buf.successful = true ∧ c'.buf.len ≤ c'.buf.info.length ∧
      (c'.buf.info.take c'.buf.len).map (fun x => (x.gid, x.cluster, featBits x.mask))
        = (applyLookupFwd c.font c.buf.level l c.lookupMask fuel ((c.buf.info.take c.buf.len).map toG) 0).map
            (fun g => (g.gid, g.cluster, featBits g.mask)) := by
  rw [toG_eq_projG]
  exact applyString_simC l (ctx_not_reverse l (fun st hst => (hall st hst).1)) hp C06_gen_buffer_variants.2 c (Rn * Gr) Rn hlmf
    (fun st hst => ctx_subSimC C06_gen_buffer_variants.2 C06_gen_buffer_variants.1 63 true c.font l hp c.lookupMask Gr Rn
      c.buf.level hlm hlmf st (hall st hst))
    fuel hrnd hps hfl hsu hlen hout hbud hops hgl

/-! non-vacuity of steps 3 and 4: the chain format 3 lookup and the two-rule Context format 1 lookup of `exCtxFont` above
    satisfy `CtxStOk exCtxFont 2 2`; `exCtxCtx` satisfies the buffer hypotheses (the run and the specification's string are the
    `decide` examples above: `9 11 12 20 2 3 9 1 2 4`, resume index 5; `9 31 2 3 9 31 2 4`) -/
def exCtx_nested (idx : Nat) (hidx : idx = 1 ∨ idx = 2 ∨ idx = 3 ∨ idx = 4) (l : Lookup)
    (hl : exCtxFont.lookups[idx]? = some l) : NestedSts 2 l.subtables := by
  rcases hidx with rfl | rfl | rfl | rfl <;> (simp only [exCtxFont] at hl; cases hl) <;>
    (refine ⟨by decide, ?_, ?_⟩
     · intro st hst cov alts he; simp only [List.mem_singleton] at hst; subst hst; cases he
     · intro st hst ss hss; simp only [List.mem_singleton] at hst; subst hst
       simp only [Subtable.seqsOf, List.mem_singleton, List.not_mem_nil] at hss
       try (first | (subst hss; decide) | exact absurd hss id))
example : ∀ st ∈ exCtxLookup.subtables, CtxStOk exCtxFont 2 2 st := by
  intro st hst
  simp only [exCtxLookup, List.mem_singleton] at hst
  subst hst
  refine ⟨rfl, ?_⟩
  intro p hp
  simp only [Subtable.ctxRules, List.mem_singleton] at hp
  subst hp
  refine ⟨by decide, by decide, ?_⟩
  intro r hr l hl
  simp only [List.mem_cons, List.not_mem_nil, or_false] at hr
  rcases hr with rfl | rfl
  · exact exCtx_nested 1 (Or.inl rfl) l hl
  · exact exCtx_nested 2 (Or.inr (Or.inl rfl)) l hl
example : ∀ st ∈ exCtxLookup5.subtables, CtxStOk exCtxFont 2 2 st := by
  intro st hst
  simp only [exCtxLookup5, List.mem_singleton] at hst
  subst hst
  refine ⟨rfl, ?_⟩
  intro p hp
  simp only [Subtable.ctxRules, List.flatMap_cons, List.flatMap_nil, List.map_cons, List.map_nil, List.append_nil,
    List.mem_cons, List.not_mem_nil, or_false] at hp
  rcases hp with rfl | rfl
  · refine ⟨by decide, by decide, ?_⟩
    intro r hr l hl
    simp only [List.mem_singleton] at hr
    subst hr
    exact exCtx_nested 3 (Or.inr (Or.inr (Or.inl rfl))) l hl
  · refine ⟨by decide, by decide, ?_⟩
    intro r hr l hl
    simp only [List.mem_singleton] at hr
    subst hr
    exact exCtx_nested 4 (Or.inr (Or.inr (Or.inr rfl))) l hl
example : NoSkipFlags exCtxLookup.props ∧ exCtxCtx.lookupMask < 2 ^ 32 ∧
    exCtxCtx.lookupMask &&& (U32MAX - Flag.DEFINED) = exCtxCtx.lookupMask ∧ exCtxCtx.random = false ∧
    exCtxCtx.perSyllable = false ∧ exCtxCtx.buf.flags &&& Gen.Buf.produceUnsafeToConcat = 0 ∧
    exCtxCtx.buf.len * (1 + 2 * 2) ≤ exCtxCtx.buf.maxLen ∧ (((exCtxCtx.buf.len * 2 : Nat)) : Int) ≤ exCtxCtx.buf.maxOps ∧
    exCtxCtx.buf.out.length = exCtxCtx.buf.info.length := by decide
/-- the scan invariant on the mid-scan state `exCtxStepCtx` ("9" out, "1 2 3 …" to come), and the step on it -/
example : CtxInv exCtxLookup 8 (2 * 2) 2 exCtxStepCtx :=
  ⟨⟨by decide, by decide, by decide, by decide, by decide, by decide⟩, by decide, by decide, by decide, by decide, by decide,
    by decide, by decide, by decide, by decide, by decide⟩
example : (match applySubtable (recurseAt MAX_NESTING_LEVEL) true exCtxStepCtx (.chain3 [[9]] [[1], [2]] [[3]] [(0, 1), (2, 2)]) with
    | .ok (c', ok) => (ok, (outP c'.buf ++ inP c'.buf).map (·.gid), c'.buf.outLen) == (true, [9, 11, 12, 20, 2, 3, 9, 1, 2, 4], 5)
    | .error _ => false) = true := by decide

/-- **C06, lookups mixing contextual subtables with single / alternate / multiple substitution subtables (partial: glyph-flag
    bits left out, ligature subtables not in the mix).**  The model's `Lookup` and the specification's `firstSubtable` allow
    subtables of different kinds in one lookup (OpenType itself does not).  For a lookup each of whose subtables is contextual
    (`CtxStOk`) or simple with non-empty sequences of at most `Rn · Gr + 1` glyphs and 16-bit ids (`NestedSts (Rn · Gr) [st]`),
    the first subtable that applies at a glyph decides, exactly as in the OpenType model; hypotheses as in
    `C06_context_subst_refines_spec_partial` (the potential `len · (1 + Rn · Gr) ≤ max_len` also pays for a top-level multiple
    substitution). -/
theorem C06_context_mixed_partial (l : Lookup) (Gr Rn : Nat) (c : Ctx)
    (hall : ∀ st ∈ l.subtables, MixStOk c.font Gr Rn st) (hp : NoSkipFlags l.props) (fuel : Nat)
    (hlm : c.lookupMask < 2 ^ 32) (hlmf : c.lookupMask &&& (U32MAX - Flag.DEFINED) = c.lookupMask)
    (hrnd : c.random = false) (hps : c.perSyllable = false)
    (hfl : c.buf.flags &&& Gen.Buf.produceUnsafeToConcat = 0)
    (hsu : c.buf.successful = true) (hlen : c.buf.len ≤ c.buf.info.length) (hout : c.buf.out.length = c.buf.info.length)
    (hbud : c.buf.len * (1 + Rn * Gr) ≤ c.buf.maxLen) (hops : (((c.buf.len * Rn : Nat)) : Int) ≤ c.buf.maxOps)
    (hgl : ∀ x ∈ c.buf.info.take c.buf.len, Plain x ∧ CtxG x) :
    ∃ c', applyString c l fuel = .ok c' ∧ c'.buf.successful = true ∧ c'.buf.len ≤ c'.buf.info.length ∧
      (c'.buf.info.take c'.buf.len).map (fun x => (x.gid, x.cluster, featBits x.mask))
        = (applyLookupFwd c.font c.buf.level l c.lookupMask fuel ((c.buf.info.take c.buf.len).map toG) 0).map
            (fun g => (g.gid, g.cluster, featBits g.mask)) := by
  rw [toG_eq_projG]
  refine applyString_simC l (mix_not_reverse c.font Gr Rn l hall) hp C06_gen_buffer_variants.2 c (Rn * Gr) Rn hlmf ?_
    fuel hrnd hps hfl hsu hlen hout hbud hops hgl
  intro st hst
  rcases hall st hst with h | h
  · exact ctx_subSimC C06_gen_buffer_variants.2 C06_gen_buffer_variants.1 63 true c.font l hp c.lookupMask Gr Rn
      c.buf.level hlm hlmf st h
  · exact simple_subSimC C06_gen_buffer_variants.2 _ true c.font l c.lookupMask c.buf.level (Rn * Gr) Rn hlm hlmf st h

/-! non-vacuity: a lookup with the chain format 3 subtable FIRST and a multiple substitution 1 → 11 12 13 behind it: at the first
    "1" (backtrack 9 present) the contextual rule fires; at the second "1" (lookahead fails) the multiple substitution applies -/
def exCtxMixLookup : Lookup :=
  { props := 0, subtables := [.chain3 [[9]] [[1], [2]] [[3]] [(0, 1), (2, 2)], .multiple [1] [[11, 12, 13]]] }
example : (match applyString exCtxCtx exCtxMixLookup 8 with
    | .ok c' => (c'.buf.info.take c'.buf.len).map (·.gid) == [9, 11, 12, 20, 2, 3, 9, 11, 12, 13, 2, 4] | .error _ => false) = true := by
  decide
example : (applyLookupFwd exCtxFont 0 exCtxMixLookup 8 8 (exCtxInfo.map toG) 0).map (·.gid)
    = [9, 11, 12, 20, 2, 3, 9, 11, 12, 13, 2, 4] := by decide
example : NestedSts (2 * 2) [.multiple [1] [[11, 12, 13]]] := by
  refine ⟨by decide, ?_, ?_⟩
  · intro st hst cov alts he; simp only [List.mem_singleton] at hst; subst hst; cases he
  · intro st hst ss hss; simp only [List.mem_singleton] at hst; subst hst
    simp only [Subtable.seqsOf, List.mem_singleton] at hss; subst hss; decide

/-! ### Part 7 — NOT PROVED (nothing below is claimed)

  (5a) LIGATURE subtables in a lookup that also has contextual subtables: the `SubSimC` instance is missing (it needs `CtxG` —
       the unicode props of the ligature glyph — and the cluster hypotheses of Part 5 through `ligate_input`).
  (5b) ignore flags on the contextual lookup or default-ignorable glyphs: the skipping iterator as a filter on visibility
       (`visibleFrom` / `visibleBefore` of the Spec); `match_positions` are then not consecutive.
  (5c) nested lookups that shrink the string (empty sequences: the `delta < 0` branch of `apply_lookup`) or that are
       themselves contextual (more than one nesting level).
  (5d) the glyph-flag bits of the masks (no specification of `unsafe_to_break` on the Spec side). -/

end RbModel.Gsub
