/-
  C13 — default ignorables are invisible unless preserved.
  Property theorems only; helper lemmas are in Lemmas/Pipeline.lean.
-/
import RbModel.Lemmas.Pipeline
import RbModel.Lemmas.Trak
import RbModel.Gen.TrakOrder
import RbModel.GdefProps
import RbModel.Gen.GdefProps

namespace RbModel.Pipeline
open RbModel.Gen.Pipeline

/-! ## the set: `is_default_ignorable` of the crate vs Unicode 16 Default_Ignorable_Code_Point
       minus the four Hangul fillers

  FULL STATEMENT (false on the current tree, kept visible):

      theorem C13_set_eq : ∀ c, c < 0x110000 → genIsDI c = RbModel.Spec.DI.isDI c

  * D16 (known finding, deliberate upstream behaviour): U+1BCA0..1BCA3 SHORTHAND FORMAT controls are
    Default_Ignorable in Unicode but `is_default_ignorable` leaves them out — `known_C13_shorthand`.
  * D8 (defect, to be fixed): U+180F MONGOLIAN FREE VARIATION SELECTOR FOUR is missing from page 0x18
    (`0x180B..=0x180E`) — `known_C13_fvs4`.

  `C13_set_eq_partial` excludes exactly these: the exception for U+180F is conditional on the
  generated table not containing it, so once D8 is fixed (Gen/DI.lean is regenerated on every run)
  the theorem excludes only the four shorthand controls, with no edit here. -/

/-- the code points on which the crate is allowed to differ from the spec: D16 always, D8 (U+180F)
    only while the extracted table lacks it -/
def knownSetExceptions : List (Nat × Nat) :=
  [(0x1BCA0, 0x1BCA3)] ++ (if genIsDI 0x180F then [] else [(0x180F, 0x180F)])

set_option maxRecDepth 100000 in
/-- crate ∪ exceptions = spec, as sets of natural numbers (normalised range lists are equal) -/
theorem C13_set_union_eq (c : Nat) :
    (genIsDI c || inRanges knownSetExceptions c) = RbModel.Spec.DI.isDI c := by
  rw [spec_isDI_eq, genIsDI, ← inRanges_append]
  exact inRanges_eq_of_normalize_eq _ _ (by decide +kernel) (by decide +kernel) (by decide +kernel) c

/-- the exceptions are outside the crate's set (so the union above is disjoint) -/
theorem C13_set_exceptions_disjoint (c : Nat) (h : inRanges knownSetExceptions c = true) :
    genIsDI c = false ∧ RbModel.Spec.DI.isDI c = true := by
  refine ⟨?_, by rw [← C13_set_union_eq, h, Bool.or_true]⟩
  have hk : (knownSetExceptions.all fun r =>
      (List.range' r.1 (r.2 + 1 - r.1)).all fun x => !genIsDI x) = true := by decide +kernel
  simp only [inRanges, List.any_eq_true, Bool.and_eq_true, decide_eq_true_eq] at h
  obtain ⟨r, hr, h1, h2⟩ := h
  rw [List.all_eq_true] at hk
  have := hk r hr
  rw [List.all_eq_true] at this
  have := this c (by rw [List.mem_range'_1]; omega)
  simpa using this

/-- C13_set_eq, partial: for every code point (indeed every natural number) outside U+1BCA0..1BCA3
    — and, only while the crate's table lacks it, U+180F — `is_default_ignorable` is exactly
    Unicode 16 Default_Ignorable_Code_Point minus U+115F, U+1160, U+3164, U+FFA0.
    Missing for the full statement: D16 (and D8 until it is fixed). -/
theorem C13_set_eq_partial (c : Nat)
    (hD16 : ¬ (0x1BCA0 ≤ c ∧ c ≤ 0x1BCA3))
    (hD8 : c = 0x180F → genIsDI 0x180F = true) :
    genIsDI c = RbModel.Spec.DI.isDI c := by
  rw [← C13_set_union_eq c]
  have : inRanges knownSetExceptions c = false := by
    unfold knownSetExceptions
    rw [inRanges_append]
    have h1 : inRanges [(0x1BCA0, 0x1BCA3)] c = false := by
      simp [inRanges]; omega
    rw [h1, Bool.false_or]
    split
    · rfl
    · rename_i hg
      simp only [inRanges, List.any_cons, List.any_nil, Bool.or_false, Bool.and_eq_false_iff,
        decide_eq_false_iff_not]
      by_cases hc : c = 0x180F
      · exact absurd (hD8 hc) hg
      · omega
  rw [this, Bool.or_false]

example : ∃ c, ¬ (0x1BCA0 ≤ c ∧ c ≤ 0x1BCA3) ∧ (c = 0x180F → genIsDI 0x180F = true) ∧
    genIsDI c = true := ⟨0x200D, by decide⟩
example : ∃ c, ¬ (0x1BCA0 ≤ c ∧ c ≤ 0x1BCA3) ∧ (c = 0x180F → genIsDI 0x180F = true) ∧
    genIsDI c = false := ⟨0x41, by decide⟩

/-- D16 witness: the four shorthand format controls are Default_Ignorable in Unicode 16 and are not
    default-ignorable for the crate (replayed on the implementation by the check, stream `di-set`). -/
theorem known_C13_shorthand (c : Nat) (h1 : 0x1BCA0 ≤ c) (h2 : c ≤ 0x1BCA3) :
    RbModel.Spec.DI.isDI c = true ∧ genIsDI c = false := by
  have : c = 0x1BCA0 ∨ c = 0x1BCA1 ∨ c = 0x1BCA2 ∨ c = 0x1BCA3 := by omega
  rcases this with h | h | h | h <;> subst h <;> decide

/-- D8 witness: U+180F is Default_Ignorable in Unicode (since 14.0); whenever the crate's extracted
    table lacks it, the full-strength C13_set_eq is refuted at c = 0x180F.  (Stated conditionally so
    that it stays true after the fix; on the current tree the premise holds: see the `example`.) -/
theorem known_C13_fvs4 :
    RbModel.Spec.DI.isDI 0x180F = true ∧
    (genIsDI 0x180F = false → ¬ ∀ c, c < 0x110000 → genIsDI c = RbModel.Spec.DI.isDI c) := by
  refine ⟨by decide, fun hg hall => ?_⟩
  have := hall 0x180F (by decide)
  rw [hg] at this
  exact absurd this (by decide)


/-! ## the pipeline -/

/-- C13_zero: unless PRESERVE_DEFAULT_IGNORABLES is set, for every font without layout tables, every
    configuration (4 directions, any script direction, 3 cluster levels, any other flags) and every
    in-scope text, a glyph of the result that stems from a default-ignorable character (`cp0`, as
    classified by the Unicode data `u`; none is ASCII) can only be there when REMOVE is off and the
    font has a space glyph, and then it IS the space glyph with zero advances and zero offsets.
    Consequently with REMOVE_DEFAULT_IGNORABLES, or in a font without a space glyph, no such glyph
    is left (`C13_zero_removed`).  (Nothing is substituted in this pipeline: there is no GSUB.) -/
theorem C13_zero (u : Ucd) (f : Font) (c : Cfg) (text : List (Nat × Nat)) (out : List G)
    (h : shape u f c text = .ok out) (hP : hasFlag c.flags BF_PRESERVE = false) :
    ∀ g ∈ out, u.isDI g.cp0 = true → 0x80 ≤ g.cp0 →
      ∃ sp, nominal f 0x20 = some sp ∧ hasFlag c.flags BF_REMOVE = false ∧
        g.gid = sp ∧ g.xa = 0 ∧ g.ya = 0 ∧ g.xo = 0 ∧ g.yo = 0 := by
  obtain ⟨_, h | h⟩ := shape_ok_cases h
  · subst h; simp
  · subst h
    intro g hg hdi h80
    exact shapeCore_di u f c text hP g hg (by simp [hdi, h80])

theorem C13_zero_removed (u : Ucd) (f : Font) (c : Cfg) (text : List (Nat × Nat)) (out : List G)
    (h : shape u f c text = .ok out) (hP : hasFlag c.flags BF_PRESERVE = false)
    (hR : hasFlag c.flags BF_REMOVE = true ∨ nominal f 0x20 = none) :
    ∀ g ∈ out, ¬ (u.isDI g.cp0 = true ∧ 0x80 ≤ g.cp0) := by
  intro g hg ⟨hdi, h80⟩
  obtain ⟨sp, hsp, hrem, _⟩ := C13_zero u f c text out h hP g hg hdi h80
  rcases hR with hR | hR
  · rw [hR] at hrem; cases hrem
  · rw [hR] at hsp; cases hsp

/-- hypotheses of C13_zero are satisfiable and the conclusion is not vacuous: U+200B between two letters -/
example : ∃ u f c text out, shape u f c text = .ok out ∧ hasFlag c.flags BF_PRESERVE = false ∧
    ∃ g ∈ out, u.isDI g.cp0 = true ∧ 0x80 ≤ g.cp0 :=
  ⟨⟨fun c => if c == 0x200B then 1 else 7, fun _ => 0, genIsDI, fun _ => false, fun _ => 0, fun _ => none,
      fun _ => none, fun _ => false⟩,
   ⟨[⟨3, 1, fun c => if c == 0x20 then some 3 else if c == 0x41 then some 1 else none⟩], 1000,
      some (fun _ => some 500), none, 800, -200, none, none, fun _ => 0⟩,
   ⟨.ltr, some .ltr, 0, 0, 0⟩, [(0x41, 0), (0x200B, 1), (0x41, 2)], _, rfl, by decide,
   by decide⟩


/-- C13_clusters_from_input ("its cluster merged into a neighbour", the part that holds for every
    input): whatever is hidden or removed, at every cluster level and in every direction, every cluster
    value of the result is the cluster of some input character — merging (graphemes, reversal,
    deletion) only ever copies existing values (minimum of a segment, or the deleted glyph's own).
    That the value lands in the range of a NEIGHBOUR (and that the smallest cluster survives at levels
    0 / 1) is checked on the implementation by the `di-invisible` search for all default ignorables. -/
theorem C13_clusters_from_input (u : Ucd) (f : Font) (c : Cfg) (text : List (Nat × Nat)) (out : List G)
    (h : shape u f c text = .ok out) : ∀ g ∈ out, ∃ t ∈ text, g.cluster = t.2 := by
  obtain ⟨_, h | h⟩ := shape_ok_cases h
  · subst h; simp
  · subst h; exact shapeCore_cl u f c text

/-- C13_tracking_skips_hidden_di (fonts with an AAT `trak` table and a point size).  AAT tracking adds the tracking amount to
    the advance, and half of it to the offset, of the first slot of every grapheme whose mask has the `trak` bit — a default
    ignorable that starts a grapheme of its own (ZWNJ, SHY, LRM, WJ, ALM, BOM, …) is such a slot.  The order of the steps of
    `position_complex` decides whether that survives: the current tree (`Gen.TrakOrder.trackingAfterZeroing`, probed from the
    compiled crate on every run; `Trak.positionComplex` follows whichever order the tree has and is tied to the crate by the
    `trak-position-complex` correspondence) applies tracking inside `position_by_plan`, BEFORE `zero_width_default_ignorables`,
    and then for every buffer, every tracking amount, direction, cluster level and mask assignment every default ignorable
    comes out of `position_complex` with zero advance and zero offset (unless PRESERVE / REMOVE: then nothing is zeroed /
    the glyph is deleted later). -/
theorem C13_tracking_skips_hidden_di :
    RbModel.Gen.TrakOrder.trackingAfterZeroing = false ∧
    ∀ (c : Cfg) (s : Scratch) (bdir : Dir) (t : Int) (l : List RbModel.Trak.S),
      s.hasDI = true → hasFlag c.flags BF_PRESERVE = false → hasFlag c.flags BF_REMOVE = false →
      ∀ g ∈ RbModel.Trak.positionComplex RbModel.Gen.TrakOrder.trackingAfterZeroing c s bdir t l,
        g.isDI = true → g.xa = 0 ∧ g.ya = 0 ∧ g.xo = 0 ∧ g.yo = 0 := by
  have hk : RbModel.Gen.TrakOrder.trackingAfterZeroing = false := by decide
  refine ⟨hk, ?_⟩
  intro c s bdir t l hDI hP hR g hg
  rw [hk] at hg
  simp only [RbModel.Trak.positionComplex, Bool.false_eq_true, if_false] at hg
  exact RbModel.Trak.hiddenZero_after_zeroing c s _ _ hDI hP hR g hg

/-- the order matters (this is what the theorem above excludes): with tracking applied after the zeroing a hidden ZWNJ-like slot
    (Format, IGNORABLE, not a continuation, trak bit on) keeps advance 30 and offset 15; with the tree's order it has 0 / 0. -/
example :
    (RbModel.Trak.positionComplex true ⟨.ltr, none, 0, 0, 0⟩ { hasDI := true } .ltr 30
        [({ xa := 1000, props := { gc := 1, ign := true } }, true)]).map (fun g => (g.xa, g.xo)) = [(30, 15)] ∧
    (RbModel.Trak.positionComplex false ⟨.ltr, none, 0, 0, 0⟩ { hasDI := true } .ltr 30
        [({ xa := 1000, props := { gc := 1, ign := true } }, true)]).map (fun g => (g.xa, g.xo)) = [(0, 0)] := by decide

/-- C13_preserve: with PRESERVE_DEFAULT_IGNORABLES the two default-ignorable steps do nothing
    (for every buffer, flag state and font) ... -/
theorem C13_preserve_steps (f : Font) (c : Cfg) (s : Scratch) (l : List G)
    (hP : hasFlag c.flags BF_PRESERVE = true) : zeroWidthDI c s l = l ∧ hideDI f c s l = l := by
  unfold zeroWidthDI hideDI
  rw [hP]; simp

/-- ... and a default-ignorable character is rendered exactly like any other character of its
    general category: for a text of in-scope characters that are not marks and cannot become
    grapheme continuations (this admits every default ignorable that is not a mark, ZWJ or a tag,
    e.g. U+00AD, U+061C, U+180E, U+200B, U+200C, U+200E, U+2060.., U+FEFF, the reserved ranges),
    default-ignorable or not, the result is the formula of C16_default — own cmap glyph, own
    advance, own cluster, in all four directions.
    (Default-ignorable MARKS — CGJ, Mongolian FVS, variation selectors — go through the mark
    zeroing steps like every nonspacing mark; that part of the statement is carried by the
    correspondence / search streams, see the check.) -/
theorem C13_preserve (u : Ucd) (f : Font) (c : Cfg) (text : List (Nat × Nat))
    (hP : hasFlag c.flags BF_PRESERVE = true)
    (hscope : ∀ t ∈ text, u.norm t.1 = false ∧ u.mcc t.1 = 0)
    (hplain : ∀ t ∈ text, PlainChar u t.1)
    (hglyph : ∀ t ∈ text, (nominal f (rotCp u f c t.1)).isSome = true) :
    shape u f c text = .ok
      (if c.dir.isBackward then (text.map (glyphOf u f c)).reverse else text.map (glyphOf u f c)) :=
  shape_plain u f c text hscope hplain hglyph (Or.inr hP)

/-- hypotheses of C13_preserve are satisfiable with a default ignorable in the text: A, U+200B, A -/
example : ∃ (u : Ucd) (f : Font) (c : Cfg) (text : List (Nat × Nat)), hasFlag c.flags BF_PRESERVE = true ∧
    (∀ t ∈ text, u.norm t.1 = false ∧ u.mcc t.1 = 0) ∧ (∀ t ∈ text, PlainChar u t.1) ∧
    (∀ t ∈ text, (nominal f (rotCp u f c t.1)).isSome = true) ∧ (∃ t ∈ text, u.isDI t.1 = true) :=
  ⟨⟨fun c => if c == 0x200B then 1 else 9, fun _ => 0, genIsDI, fun _ => false, fun _ => 0, fun _ => none,
      fun _ => none, fun _ => false⟩,
   ⟨[⟨3, 1, fun c => if c == 0x200B then some 3 else if c == 0x41 then some 1 else none⟩], 1000,
      some (fun _ => some 500), none, 800, -200, none, none, fun _ => 0⟩,
   ⟨.ltr, some .ltr, 4, 0, 0⟩, [(0x41, 0), (0x200B, 1), (0x41, 2)],
   by decide,
   by intro t _; exact ⟨rfl, rfl⟩,
   by
     intro t ht
     simp only [List.mem_cons, List.not_mem_nil, or_false] at ht
     rcases ht with rfl | rfl | rfl <;> exact ⟨by decide, by decide⟩,
   by
     intro t ht
     simp only [List.mem_cons, List.not_mem_nil, or_false] at ht
     rcases ht with rfl | rfl | rfl <;> decide,
   ⟨(0x200B, 1), by simp, by decide⟩⟩


/-- C13_insert_noninterference: left-to-right text (script not natively right-to-left) on a font without
    layout tables, where every character that is NOT default-ignorable is in scope, is not a mark,
    cannot become a grapheme continuation, is not a variation selector and has a glyph; the
    default ignorables are arbitrary (marks like CGJ and the variation selectors, ZWJ, tags, ...),
    anywhere, any number, for any flags (default, REMOVE, even PRESERVE), any cluster level, any
    input clusters, font with or without a space glyph.  Then the glyphs of the other characters
    — glyph id, advances, offsets (`vis`), in order — are exactly those of the text with the default
    ignorables taken out: own cmap glyph, own hmtx advance, zero offsets.
    `NoDottedCircle`: when BEGINNING_OF_TEXT is set (without pre-context, font with U+25CC) and the
    text starts with a default-ignorable MARK, `insert_dotted_circle` adds a visible U+25CC; that
    case is excluded here and reported in the check.
    The hypothesis "has a glyph" cannot be dropped: see `known_C13_vs_fallback`. -/
theorem C13_insert_noninterference (u : Ucd) (f : Font) (c : Cfg) (text : List (Nat × Nat))
    (hdir : c.dir = .ltr) (hnat : c.nat = none ∨ c.nat = some .ltr)
    (hscope : ∀ t ∈ text, u.norm t.1 = false ∧ u.mcc t.1 = 0)
    (hplain : ∀ t ∈ text, u.isDI t.1 = false →
      PlainChar u t.1 ∧ isVS t.1 = false ∧ (nominal f t.1).isSome = true)
    (hdot : NoDottedCircle u f c text) :
    ∃ out out',
      shape u f c text = .ok out ∧
      shape u f c (text.filter fun t => !u.isDI t.1) = .ok out' ∧
      (out.filter fun g => !u.isDI g.cp0).map vis = out'.map vis ∧
      out'.map vis = (text.filter fun t => !u.isDI t.1).map fun t => visOf f t.1 := by
  obtain ⟨out, hout, hvis⟩ := shape_insert_noninterference u f c text hdir hnat hscope hplain hdot
  have hmem : ∀ t ∈ text.filter (fun t => !u.isDI t.1), t ∈ text ∧ u.isDI t.1 = false := by
    intro t ht
    simp only [List.mem_filter, Bool.not_eq_true'] at ht
    exact ht
  have hplainS := shape_plain u f c (text.filter fun t => !u.isDI t.1)
    (fun t ht => hscope t (hmem t ht).1)
    (fun t ht => (hplain t (hmem t ht).1 (hmem t ht).2).1)
    (fun t ht => by rw [rotCp_ltr u f c _ hdir]; exact (hplain t (hmem t ht).1 (hmem t ht).2).2.2)
    (Or.inl fun t ht => by rw [(hmem t ht).2, Bool.and_false])
  rw [hdir] at hplainS
  simp only [Dir.isBackward, Bool.false_eq_true, if_false] at hplainS
  have hv : ((text.filter fun t => !u.isDI t.1).map (glyphOf u f c)).map vis
      = (text.filter fun t => !u.isDI t.1).map fun t => visOf f t.1 := by
    rw [List.map_map]
    apply List.map_congr_left
    intro t _
    exact vis_glyphOf_ltr u f c t hdir
  exact ⟨out, _, hout, hplainS, by rw [hvis, hv], hv⟩

/-- hypotheses of C13_insert_noninterference are satisfiable with default ignorables of several kinds
    in the text: ZWSP first, CGJ (a mark) and VS-1 after a letter, ZWJ, a tag at the end -/
example : ∃ (u : Ucd) (f : Font) (c : Cfg) (text : List (Nat × Nat)),
    c.dir = .ltr ∧ (c.nat = none ∨ c.nat = some .ltr) ∧
    (∀ t ∈ text, u.norm t.1 = false ∧ u.mcc t.1 = 0) ∧
    (∀ t ∈ text, u.isDI t.1 = false → PlainChar u t.1 ∧ isVS t.1 = false ∧ (nominal f t.1).isSome = true) ∧
    NoDottedCircle u f c text ∧ (text.filter fun t => u.isDI t.1).length = 5 :=
  ⟨⟨fun c => if c == 0x41 then 9 else if c == 0x34F || c == 0xFE00 then 12 else 1, fun _ => 0, genIsDI,
      fun _ => false, fun _ => 0, fun _ => none, fun _ => none, fun _ => false⟩,
   ⟨[⟨3, 1, fun c => if c == 0x41 then some 1 else none⟩], 1000, some (fun _ => some 500), none, 800, -200, none, none, fun _ => 0⟩,
   ⟨.ltr, some .ltr, 8, 0, 0⟩,
   [(0x200B, 0), (0x41, 1), (0x34F, 2), (0xFE00, 3), (0x41, 4), (0x200D, 5), (0xE0020, 6)],
   rfl, Or.inr rfl,
   by intro t _; exact ⟨rfl, rfl⟩,
   by
     intro t ht hd
     simp only [List.mem_cons, List.not_mem_nil, or_false] at ht
     rcases ht with rfl | rfl | rfl | rfl | rfl | rfl | rfl
     all_goals first
       | (exfalso; revert hd; decide)
       | exact ⟨⟨by decide, by decide⟩, by decide, by decide⟩,
   Or.inl (by decide),
   by decide⟩

/-- A genuine limit of the property (observed on the crate, stream `di-vs-fallback` of the check):
    when a character has no glyph of its own and is rendered through a fallback of the normalizer
    (here U+2003 EM SPACE → space glyph with an em-wide advance), a VARIATION SELECTOR inserted after
    it (default-ignorable) makes `handle_variation_selector_cluster` skip the fallback: the other
    character becomes .notdef.  Model-level witness, font {A ↦ 1, space ↦ 3}, upem 1000. -/
def vsWitnessUcd : Ucd :=
  ⟨fun c => if c == 0x2003 then 29 else if c == 0xFE00 then 12 else 9, fun _ => 0, genIsDI,
   fun _ => false, fun c => if c == 0x2003 then 1 else 0, fun _ => none, fun _ => none, fun _ => false⟩
def vsWitnessFont : Font :=
  ⟨[⟨3, 1, fun c => if c == 0x41 then some 1 else if c == 0x20 then some 3 else none⟩], 1000,
   some (fun g => some (100 * g + 50)), none, 800, -200, none, none, fun _ => 0⟩
def vsWitnessCfg : Cfg := ⟨.ltr, some .ltr, 0, 0, 0⟩

theorem known_C13_vs_fallback :
    (∃ out, shape vsWitnessUcd vsWitnessFont vsWitnessCfg [(0x41, 0), (0x2003, 1)] = .ok out ∧
        out.map vis = [(1, 150, 0, 0, 0), (3, 1000, 0, 0, 0)]) ∧
    (∃ out, shape vsWitnessUcd vsWitnessFont vsWitnessCfg [(0x41, 0), (0x2003, 1), (0xFE00, 2)] = .ok out ∧
        out.map vis = [(1, 150, 0, 0, 0), (0, 50, 0, 0, 0), (3, 0, 0, 0, 0)]) :=
  ⟨⟨_, rfl, by decide⟩, ⟨_, rfl, by decide⟩⟩

/-! ## GDEF glyph classes never reach the internal flag bits of `glyph_props`

  `_hb_ot_layout_set_glyph_props` seeds every glyph's `glyph_props` from the font's GDEF (face.rs::glyph_props) before any
  lookup runs; `_hb_glyph_info_is_default_ignorable` is `IGNORABLE ∧ ¬SUBSTITUTED` (bit 0x10 of the same field).  A font-table
  value that reached bit 0x10 / 0x20 / 0x40 would make a default ignorable that NO lookup touched count as substituted: not
  zeroed, not hidden, not removed.  `Gen.GdefProps.rows` is probed from the compiled crate on every run (class values 0..7,
  255, 256, 65535, absent × attachment class values; fonts without GDEF / without glyph class definition). -/

/-- **Class 1, 2, 3 map to BASE_GLYPH, LIGATURE, MARK | attachment class « 8; every other class value (0, 4 = Component,
    5, …, not classified, no GDEF) maps to 0** — for the crate on every probed row (first conjunct, generated table) and for
    the model on all values; in particular bits 4–6 (SUBSTITUTED, LIGATED, MULTIPLIED) are never set and the value fits u16. -/
theorem C13_gdef_class_props :
    (∀ r ∈ RbModel.Gen.GdefProps.rows, r.2.2 = RbModel.GdefProps.glyphProps r.1 r.2.1) ∧
    ∀ (cls : Option Nat) (attach : Nat),
      (cls = some 1 → RbModel.GdefProps.glyphProps cls attach = RbModel.GdefProps.BASE_GLYPH) ∧
      (cls = some 2 → RbModel.GdefProps.glyphProps cls attach = RbModel.GdefProps.LIGATURE) ∧
      (cls = some 3 → RbModel.GdefProps.glyphProps cls attach = attach % 256 * 256 + RbModel.GdefProps.MARK) ∧
      (cls ≠ some 1 → cls ≠ some 2 → cls ≠ some 3 → RbModel.GdefProps.glyphProps cls attach = 0) ∧
      RbModel.GdefProps.glyphProps cls attach / 16 % 8 = 0 ∧ RbModel.GdefProps.glyphProps cls attach < 65536 := by
  refine ⟨by decide +kernel, ?_⟩
  intro cls attach
  refine ⟨?_, ?_, ?_, ?_, ?_⟩
  · rintro rfl; rfl
  · rintro rfl; rfl
  · rintro rfl; rfl
  · intro h1 h2 h3
    unfold RbModel.GdefProps.glyphProps
    split <;> simp_all
  · unfold RbModel.GdefProps.glyphProps RbModel.GdefProps.BASE_GLYPH RbModel.GdefProps.LIGATURE RbModel.GdefProps.MARK
    split <;> omega

/-- a default ignorable whose `glyph_props` is what GDEF gives its glyph (no lookup has touched it) IS a default ignorable
    for `zero_width_default_ignorables` / `hide_default_ignorables`, whatever class the font assigns to the glyph -/
theorem C13_gdef_class_keeps_default_ignorable (g : G) (cls : Option Nat) (attach : Nat)
    (h : g.var1 = RbModel.GdefProps.glyphProps cls attach) : g.isDI = g.props.ign := by
  have hb := (C13_gdef_class_props.2 cls attach).2.2.2.2.1
  have : g.var1 / 16 % 2 = 0 := by rw [h]; omega
  simp [G.isDI, this]

example : ∃ (g : G), g.var1 = RbModel.GdefProps.glyphProps (some 4) 7 ∧ g.props.ign = true ∧ g.isDI = true :=
  ⟨{ (default : G) with var1 := 0, props := { (default : G).props with ign := true } }, rfl, rfl, by decide⟩

end RbModel.Pipeline
