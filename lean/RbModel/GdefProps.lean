/-! GDEF glyph class → `glyph_props` (face.rs::hb_font_t::glyph_props): the value `_hb_ot_layout_set_glyph_props`
    (hb_ot_layout_substitute_start) writes into every glyph before GSUB runs.  The upper bits of `glyph_props`
    (SUBSTITUTED 0x10, LIGATED 0x20, MULTIPLIED 0x40) are INTERNAL flags that only lookups may set: a default ignorable
    counts as such only while SUBSTITUTED is clear, so a font-table value leaking into them makes it visible. -/
namespace RbModel.GdefProps

def BASE_GLYPH : Nat := 0x02
def LIGATURE : Nat := 0x04
def MARK : Nat := 0x08

/-- src: face.rs::hb_font_t::glyph_props.  `cls` = the ClassDef value of the glyph in GDEF's glyph class definition
    (`none`: the font has no GDEF / no glyph class definition / the glyph is not in it; ttf-parser maps 1, 2, 3, 4 to
    Base, Ligature, Mark, Component and every other value to `None`), `attach` = its value in the mark attachment class
    definition (0 when absent).  `(class << 8) | MARK` is computed in u16: the high byte of `attach` is shifted out. -/
def glyphProps (cls : Option Nat) (attach : Nat) : Nat :=
  match cls with
  | some 1 => BASE_GLYPH
  | some 2 => LIGATURE
  | some 3 => attach % 256 * 256 + MARK
  | _ => 0

end RbModel.GdefProps
