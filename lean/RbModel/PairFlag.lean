/-
  Pair kerning and pair positioning WITH the skipping iterator and the glyph-flag calls (C03 / C04 / C07).

  Kern.lean models the positions `machine_kern` computes (iterator specialised, no flags); GposFlag.lean models the flag
  decisions of PairPos from the point where the second glyph is known (`PairFound` is a parameter there).  This file closes
  the two gaps: the real skipping iterator (`Gsub.It`, the line-by-line model of ot_layout_gsubgpos.rs::skipping_iterator_t)
  finds the second glyph, and every `unsafe_to_break` / `unsafe_to_concat` call is made on the buffer model (Buf.lean) with
  the span the Rust code passes.

    src/hb/kerning.rs                  machine_kern (legacy `kern` formats 0 / 2 through apply_simple_kerning)
    src/hb/aat_layout_kerx_table.rs    apply_simple_kerning (kerx formats 0 / 2 / 6) — a textual copy of the loop of
                                       machine_kern with ONE more statement: `unsafe_to_concat(i, unsafe_to)` when the
                                       iterator finds no second glyph (`concatOnMiss`)
    src/hb/ot/layout/GPOS/pair_pos.rs  PairAdjustment::apply, from `cur(0)` on

  The kerning values (`get_kerning` / `glyphs_kerning(..).unwrap_or(0)`), the coverage / PairSet / class-matrix lookups and
  the value records are external data (parameters).  Operational: same statement order as the Rust code, panics are values.
-/
import RbModel.Gsub
import RbModel.Kern
import RbModel.GposFlag

namespace RbModel.PairFlag
open RbModel RbModel.Gsub RbModel.GposFlag
open RbModel.Gpos (Pos Dir ValueRecordD)

/-! ### machine_kern / kerx apply_simple_kerning -/

/-- src: kerning.rs::machine_kern / aat_layout_kerx_table.rs::apply_simple_kerning —
    `hb_ot_apply_context_t::new(TableIndex::GPOS, face, buffer)`, `set_lookup_mask(kern_mask)`,
    `lookup_props = IGNORE_MARKS` -/
def kernCtx (f : Font) (b : Buf) (kernMask : Nat) : Ctx :=
  { buf := b, font := f, isGpos := true, lookupMask := kernMask, lookupProps := 8 }

/-- one iteration of the `while i < ctx.buffer.len` loop (entered with `i < len`).
    Result: (the next `i`, buffer, positions, HAS_GPOS_ATTACHMENT was set).
    `concatOnMiss` = the kerx copy of the loop (`unsafe_to_concat(i, unsafe_to)` when the iterator fails). -/
def kernStepF (concatOnMiss : Bool) (f : Font) (kernMask : Nat) (horizontal crossStream : Bool)
    (kernOf : Nat → Nat → Int) (i : Nat) (b : Buf) (p : Array Pos) (fl : Bool) : RbModel.M (Nat × Buf × Array Pos × Bool) :=
  -- `if (ctx.buffer.info[i].mask & kern_mask) == 0 { i += 1; continue; }`
  match Mem.get b.info i with
  | .error e => .error e
  | .ok gi =>
    if gi.mask &&& kernMask = 0 then .ok (i + 1, b, p, fl)
    else
      -- `let mut iter = skipping_iterator_t::new(&ctx, i, false); if !iter.next(Some(&mut unsafe_to)) { .. i += 1; continue; }`
      match It.new (kernCtx f b kernMask) i false with
      | .error e => .error e
      | .ok it =>
        match It.next it f b.info b.len with
        | .error e => .error e
        | .ok (false, _, unsafeTo) =>
          if concatOnMiss then
            match b.unsafeToConcat i (some unsafeTo) with
            | .error e => .error e
            | .ok b => .ok (i + 1, b, p, fl)
          else .ok (i + 1, b, p, fl)
        | .ok (true, it, _) =>
          let j := it.idx
          match Mem.get b.info j with
          | .error e => .error e
          | .ok gj =>
            let kern := kernOf gi.gid gj.gid
            if kern ≠ 0 then
              -- the position update, then `ctx.buffer.unsafe_to_break(Some(i), Some(j + 1))`
              match liftG (Kern.kernPair p i j kern horizontal crossStream) with
              | .error e => .error e
              | .ok (p', f1) =>
                match b.unsafeToBreak i (some (j + 1)) with
                | .error e => .error e
                | .ok b => .ok (j, b, p', fl || f1)
            else .ok (j, b, p, fl)

/-- the `while i < ctx.buffer.len` loop; any `fuel` above `len - i` gives the same result because every iteration
    moves `i` forward (`Lemmas/PairSpanKern.lean: machineKernLoopF_done`). -/
def machineKernLoopF (concatOnMiss : Bool) (f : Font) (kernMask : Nat) (horizontal crossStream : Bool)
    (kernOf : Nat → Nat → Int) : Nat → Nat → Buf → Array Pos → Bool → RbModel.M (Buf × Array Pos × Bool)
  | 0, _, b, p, fl => .ok (b, p, fl)
  | fuel + 1, i, b, p, fl =>
    if i < b.len then
      match kernStepF concatOnMiss f kernMask horizontal crossStream kernOf i b p fl with
      | .error e => .error e
      | .ok (i', b', p', fl') => machineKernLoopF concatOnMiss f kernMask horizontal crossStream kernOf fuel i' b' p' fl'
    else .ok (b, p, fl)

/-- src: kerning.rs::machine_kern (`buffer.unsafe_to_concat(None, None)` first) -/
def machineKernF (f : Font) (b : Buf) (p : Array Pos) (kernMask : Nat) (d : Dir) (crossStream : Bool)
    (kernOf : Nat → Nat → Int) : RbModel.M (Buf × Array Pos × Bool) :=
  match b.unsafeToConcat 0 none with
  | .error e => .error e
  | .ok b => machineKernLoopF false f kernMask d.isHorizontal crossStream kernOf (b.len + 1) 0 b p false

/-- src: aat_layout_kerx_table.rs::apply_simple_kerning (formats 0 / 2 / 6; `apply` itself starts with
    `buffer.unsafe_to_concat(None, None)` and repeats it before a format 2 subtable: `leadingConcat`) -/
def kerxSimpleF (leadingConcat : Bool) (f : Font) (b : Buf) (p : Array Pos) (kernMask : Nat) (d : Dir) (crossStream : Bool)
    (kernOf : Nat → Nat → Int) : RbModel.M (Buf × Array Pos × Bool) :=
  match (if leadingConcat then b.unsafeToConcat 0 none else .ok b) with
  | .error e => .error e
  | .ok b => machineKernLoopF true f kernMask d.isHorizontal crossStream kernOf (b.len + 1) 0 b p false

/-! ### PairPos with its iterator -/

/-- what a PairPos subtable says about glyph ids (ttf-parser's reading of the table: external data) -/
structure PairData where
  /-- `self.coverage().get(first_glyph)` is `Some` -/
  covered : Nat → Bool
  /-- format 1: `sets.get(first_glyph_coverage_index)` is `Some` (a null / unreadable PairSet offset gives `None`);
      format 2: always true -/
  hasSet : Nat → Bool
  /-- format 1: `PairSet::get(second_glyph)`; format 2: `matrix.get((class1(first), class2(second)))` -/
  records : Nat → Nat → Option (ValueRecordD × ValueRecordD)

/-- src: pair_pos.rs::PairAdjustment::apply up to the point where it knows what to do: coverage test of `cur(0)`,
    `skipping_iterator_t::new(ctx, ctx.buffer.idx, false)`, `iter.next(Some(&mut unsafe_to))`, the record lookup.
    (`sets.get(..)?` comes AFTER the iterator: with a missing PairSet the function returns `None` and flags nothing —
    reported as `.notCovered`, whose action is "nothing".) -/
def pairFind (c : Ctx) (pd : PairData) : RbModel.M PairFound :=
  match Mem.get c.buf.info c.buf.idx with
  | .error e => .error e
  | .ok cur =>
    let first := cur.gid % 65536
    if !pd.covered first then .ok .notCovered
    else
      match It.new c c.buf.idx false with
      | .error e => .error e
      | .ok it =>
        match It.next it c.font c.buf.info c.buf.len with
        | .error e => .error e
        | .ok (false, _, unsafeTo) => .ok (.noSecond unsafeTo)
        | .ok (true, it, _) =>
          match Mem.get c.buf.info it.idx with
          | .error e => .error e
          | .ok sec =>
            if !pd.hasSet first then .ok .notCovered
            else
              match pd.records first (sec.gid % 65536) with
              | none => .ok (.noRecord it.idx)
              | some (v1, v2) => .ok (.records it.idx v1 v2)

/-- src: pair_pos.rs::PairAdjustment::apply — the whole function: find, then act (GposFlag.lean::pairPosApply) -/
def pairPosApplyIt (c : Ctx) (p : Array Pos) (pd : PairData) (useX useY : Bool) (d : Dir) : RbModel.M (Buf × Array Pos × Bool) :=
  match pairFind c pd with
  | .error e => .error e
  | .ok found => pairPosApply c.buf p found useX useY d

end RbModel.PairFlag
