/-
  Model of `src/hb/set_digest.rs` (glyph-set digests / Bloom-style prefilter).
  Operational: mirrors the Rust arithmetic on u64 including wrap-around.
  No imports (core only) so that the line-protocol driver links as a `lean_exe`.
-/
namespace RbModel.Digest

def W64 : Nat := 2 ^ 64
def FULL : Nat := 2 ^ 64 - 1

/-- wrapping u64 subtraction (`wrapping_sub`, and plain `-` in a release build) -/
def wsub (a b : Nat) : Nat := (a + W64 - b % W64) % W64
/-- wrapping u64 addition (plain `+` in a release build) -/
def wadd (a b : Nat) : Nat := (a + b) % W64

/-- src: set_digest.rs::hb_set_digest_bits_pattern_t::mask_for
    `1 << ((g >> shift) & (mask_bits - 1))` -/
def maskFor (s g : Nat) : Nat := 2 ^ ((g >>> s) % 64)

/-- src: set_digest.rs::hb_set_digest_bits_pattern_t::add -/
def add (s m g : Nat) : Nat := m ||| maskFor s g

/-- src: set_digest.rs::hb_set_digest_bits_pattern_t::add_array -/
def addArray (s m : Nat) (gs : List Nat) : Nat := gs.foldl (add s) m

/-- the mask OR-ed in by `add_range` when the span is short:
    `mb + mb.wrapping_sub(ma) - (mb < ma) as u64` (release semantics: everything wraps) -/
def rangeMask (s a b : Nat) : Nat :=
  let ma := maskFor s a
  let mb := maskFor s b
  wsub (wadd mb (wsub mb ma)) (if mb < ma then 1 else 0)

/-- src: set_digest.rs::hb_set_digest_bits_pattern_t::add_range (release semantics) -/
def addRange (s m a b : Nat) : Nat × Bool :=
  if m = FULL then (m, false)
  else if wsub (b >>> s) (a >>> s) ≥ 63 then (FULL, false)
  else (m ||| rangeMask s a b, true)

/-- Would the overflow-checked build trap inside `add_range`?  (`-` and `+` are checked there,
    `wrapping_sub` is not.) -/
def addRangeTraps (s m a b : Nat) : Bool :=
  if m = FULL then false
  else if (b >>> s) < (a >>> s) then true            -- `(b >> shift) - (a >> shift)` underflows
  else if (b >>> s) - (a >>> s) ≥ 63 then false
  else
    let ma := maskFor s a
    let mb := maskFor s b
    let t := mb + wsub mb ma
    decide (t ≥ W64) || decide (t < (if mb < ma then 1 else 0))

/-- src: set_digest.rs::hb_set_digest_bits_pattern_t::may_have -/
def mayHave (m o : Nat) : Bool := (m &&& o) != 0

/-- src: set_digest.rs::hb_set_digest_bits_pattern_t::may_have_glyph -/
def mayHaveGlyph (s m g : Nat) : Bool := (m &&& maskFor s g) != 0

/-! ### The combiner (`hb_set_digest_combiner_t`), flattened: a digest is the list of the masks of its
    bit patterns, in the order of the shift list (`Gen.Digest.shifts`, regenerated from the crate). -/

abbrev Digest := List Nat

def Digest.new (shifts : List Nat) : Digest := shifts.map (fun _ => 0)

def Digest.add : (shifts : List Nat) → Digest → Nat → Digest
  | s :: ss, m :: ms, g => RbModel.Digest.add s m g :: Digest.add ss ms g
  | _, d, _ => d

def Digest.addArray (shifts : List Nat) (d : Digest) (gs : List Nat) : Digest :=
  gs.foldl (Digest.add shifts) d

/-- returns the new digest and `first || second || …` (every pattern is updated, no short-circuit) -/
def Digest.addRange : (shifts : List Nat) → Digest → Nat → Nat → Digest × Bool
  | s :: ss, m :: ms, a, b =>
      let r := RbModel.Digest.addRange s m a b
      let rs := Digest.addRange ss ms a b
      (r.1 :: rs.1, r.2 || rs.2)
  | _, d, _, _ => (d, false)

def Digest.mayHave : Digest → Digest → Bool
  | m :: ms, o :: os => RbModel.Digest.mayHave m o && Digest.mayHave ms os
  | _, _ => true

def Digest.mayHaveGlyph : (shifts : List Nat) → Digest → Nat → Bool
  | s :: ss, m :: ms, g => RbModel.Digest.mayHaveGlyph s m g && Digest.mayHaveGlyph ss ms g
  | _, _, _ => true

/-! ### Coverage collection (`ot_layout_common.rs::CoverageExt::collect`) and the buffer digest -/

inductive Coverage where
  | glyphs (gs : List Nat)                 -- format 1: glyph array
  | ranges (rs : List (Nat × Nat))         -- format 2: range records (start, end)

def Coverage.covers : Coverage → Nat → Bool
  | .glyphs gs, g => gs.contains g
  | .ranges rs, g => rs.any (fun r => r.1 ≤ g && g ≤ r.2)

/-! `Coverage::get` — what every subtable asks before it acts — is a BINARY SEARCH (ttf-parser, the same in HarfBuzz).  On a
    table that is not sorted (malformed, but accepted: nothing validates the order) the search still finds some of the
    entries; the digest has to report every glyph the search can find.  The search is modelled as written, the theorems
    (`C10_find_covers`, `C10_collect_sound_found`) make no assumption on the order of the table. -/

/-- src: ttf-parser parser.rs::LazyArray16::binary_search_by, the `while size > 1` loop; `gt x` is `f(x) == Greater`.
    `fuel` is the code's own variant: `size` decreases by `half ≥ 1` in every round. -/
def bsearchBase {α : Type} (gt : α → Bool) (xs : List α) : (fuel size base : Nat) → Option Nat
  | 0, size, base => if size > 1 then none else some base
  | fuel + 1, size, base =>
    if size > 1 then
      let half := size / 2
      let mid := base + half
      match xs[mid]? with
      | none => none                                   -- `self.get(mid)?`
      | some x => bsearchBase gt xs fuel (size - half) (if gt x then base else mid)
    else some base

/-- src: ttf-parser parser.rs::LazyArray16::binary_search_by -> (index, value) -/
def bsearchBy {α : Type} (gt eq : α → Bool) (xs : List α) : Option (Nat × α) :=
  if xs.length = 0 then none
  else match bsearchBase gt xs xs.length xs.length 0 with
    | none => none
    | some base =>
      match xs[base]? with
      | none => none
      | some v => if eq v then some (base, v) else none

/-- The search of `Coverage::get`: index of the glyph in the array (format 1, `glyphs.binary_search(&glyph)`) resp. index
    of the range record found (format 2, `records.range(glyph)`).  `Coverage::get` is `Some` only if this is `some`
    (format 2 additionally needs `value + (glyph - start)` to fit in u16). -/
def Coverage.find : Coverage → Nat → Option Nat
  | .glyphs gs, g => (bsearchBy (fun x => decide (x > g)) (fun x => x == g) gs).map (·.1)
  | .ranges rs, g => (bsearchBy (fun r => decide (g < r.1)) (fun r => decide (r.1 ≤ g) && decide (g ≤ r.2)) rs).map (·.1)

/-- src: ot_layout_common.rs::CoverageExt::collect -/
def collect (shifts : List Nat) (d : Digest) : Coverage → Digest
  | .glyphs gs => Digest.addArray shifts d gs
  | .ranges rs => rs.foldl (fun d r => (Digest.addRange shifts d r.1 r.2).1) d

/-- src: ot_layout_common.rs::SubstLookup::parse / PositioningLookup::parse (digest part) -/
def lookupDigest (shifts : List Nat) (covs : List Coverage) : Digest :=
  covs.foldl (collect shifts) (Digest.new shifts)

/-- src: buffer.rs::hb_buffer_t::digest -/
def bufferDigest (shifts : List Nat) (gids : List Nat) : Digest :=
  Digest.addArray shifts (Digest.new shifts) gids

end RbModel.Digest
