/-
  Model of `ot_shaper_thai.rs::preprocess_text` (first rule only; PUA shaping needs PUA glyphs in the font):
  SARA AM is decomposed into NIKHAHIT + SARA AA and the NIKHAHIT is moved back over preceding above-base marks.
-/
import RbModel.Buf

namespace RbModel.Thai
open RbModel RbModel.Buf

/-- `(u & !0x0080) == 0x0E33` on u32 -/
def isSaraAm (u : Nat) : Bool := (u &&& (4294967295 - 0x80)) == 0x0E33
def nikhahitFromSaraAm (u : Nat) : Nat := u - 0x0E33 + 0x0E4D
def saraAaFromSaraAm (u : Nat) : Nat := u - 1
def isAboveBaseMark (u : Nat) : Bool :=
  let u := u &&& (4294967295 - 0x80)
  (0x0E34 ≤ u && u ≤ 0x0E37) || (0x0E47 ≤ u && u ≤ 0x0E4E) || u == 0x0E31 || u == 0x0E3B

/-- `while start > 0 && is_above_base_mark(out[start-1].glyph_id) { start -= 1 }` -/
def scanBack (out : List Info) : Nat → M Nat
  | 0 => pure 0
  | s + 1 => do
      let x ← get out s
      if isAboveBaseMark x.gid then scanBack out s else pure (s + 1)

def setVar2 (b : Buf) (i : Nat) (f : Nat → Nat) : M Buf := do
  let x ← get b.outArr i
  let o ← put b.outArr i { x with var2 := (x.var2 / 65536) * 65536 + (f (x.var2 % 65536)) % 65536 }
  pure (b.setOutArr o)

/-- one step of the main loop at a SARA AM -/
def saraAm (b : Buf) (u : Nat) : M Buf := do
  let b ← b.outputGlyph (nikhahitFromSaraAm u)
  if b.outLen = 0 then throw .oob
  let b ← setVar2 b (b.outLen - 1) (fun p => p ||| 0x80)                       -- set_continuation
  let b ← b.replaceGlyph (saraAaFromSaraAm u)
  let stop := b.outLen
  if stop < 2 then throw .oob
  -- general category := NonspacingMark (12), clears the top byte
  let b ← setVar2 b (stop - 2) (fun p => 12 ||| (p &&& (0xFF - 0x1F)))
  let start ← scanBack b.outArr (stop - 2)
  if start + 2 < stop then
    let b ← b.mergeOutClusters start stop
    let t ← get b.outArr (stop - 2)
    -- `for i in (0..end-start-2).rev() { out[i+start+1] = out[i+start] }; out[start] = t`
    let o ← Mem.copyWithinBwd b.outArr start (start + 1) (stop - start - 2)
    let o ← put o start t
    pure (b.setOutArr o)
  else if start != 0 && b.level == 0 then b.mergeOutClusters (start - 1) stop
  else pure b

def loop : Nat → Buf → M Buf
  | 0, b => pure b
  | fuel + 1, b =>
      if b.idx < b.len then do
        let cur ← get b.info b.idx
        if !isSaraAm cur.gid then do
          let b ← b.nextGlyph
          loop fuel b
        else do
          let b ← saraAm b cur.gid
          loop fuel b
      else pure b

/-- src: ot_shaper_thai.rs::preprocess_text (without the PUA fallback) -/
def preprocess (b : Buf) : M Buf := do
  let b := { b.clearOutput with idx := 0 }
  let b ← loop (b.len + 1) b
  let (b, _) ← b.sync
  pure b

end RbModel.Thai
