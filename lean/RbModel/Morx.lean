/-
  Morx — operational model of rustybuzz's AAT `morx` machinery
  (src/hb/aat_layout_morx_table.rs, aat_map.rs, and the buffer primitives of buffer.rs it uses).

  The model mirrors the Rust control flow loop by loop, including the places where Rust would panic
  (these become `Except.error`). Three loops/guards of buffer.rs exist in two variants each; which one the
  current source has is regenerated into Gen/Buf.lean (`ensureGrowOnly`, `moveToRewindReversed`,
  `extendStartGuard`), so the model follows the crate across the repairs of D6 / D5 / D4. D19 (shift_forward
  reports a refused allocation) and the u32 ligature accumulator are mirrored as repaired. D17 (the
  non-contextual subtable tests the range of a never-advanced `idx`) is reproduced.

  What is *not* modelled (and therefore not compared by the correspondence): glyph masks / glyph flags
  (`unsafe_to_break*` only contribute their asserts and index checks), glyph props from GDEF
  (the model assumes a font without GDEF glyph classes), unicode props of deleted glyphs.
  A glyph record is (glyph id, cluster).

  Buffer abstraction: `Buf` is Rust's representation (info vector, the `pos` vector viewed as separate
  output, idx/len/out_len, have_output/have_separate_output, Vec lengths). The *list* view of it is
  `Buf.view` (Lemmas/Morx.lean); Spec/Aat.lean works on plain lists. Where the list view is only right
  if `move_to`/`ensure` behave like list operations is marked with `LIST-ASSUMPTION` below: with the repaired
  variants these are theorems about the shared buffer model (Lemmas/BufZipper.lean: `ensure_spec`,
  `shiftForward_spec`, `moveTo_spec`, …); with the old variants they are false (D5/D6).
-/
import RbModel.Gen.Morx
import RbModel.Buf

namespace RbModel.Morx
open RbModel.Gen.Morx

/-- Rust panics as values. `wrap` = an unsigned subtraction would wrap (release build), the model gives up;
    `budget` is model-only: the termination guard of `driveLoop` (proved unreachable for the in-place
    subtables, never observed in the correspondence for the others). -/
inductive Panic where
  | oob | assert | wrap | budget
  deriving Repr, DecidableEq, Inhabited

def Panic.name : Panic → String
  | .oob => "oob" | .assert => "assert" | .wrap => "wrap" | .budget => "budget"

abbrev M := Except Panic

/-- glyph record: glyph id and cluster (`hb_glyph_info_t` without mask/var1/var2). -/
structure G where
  gid : Nat
  cl : Nat
  deriving Repr, DecidableEq, Inhabited

/-- `hb_glyph_info_t::default()` — what `Vec::resize` fills with. -/
def G.dflt : G := ⟨0, 0⟩

/-- `v[i]` of a Rust Vec/slice. -/
def rd (a : Array G) (i : Nat) : M G :=
  match a[i]? with
  | some g => pure g
  | none => throw .oob

/-- `v[i] = g`. -/
def wr (a : Array G) (i : Nat) (g : G) : M (Array G) :=
  if h : i < a.size then pure (a.set i g h) else throw .oob

def rdN (a : Array Nat) (i : Nat) : M Nat :=
  match a[i]? with
  | some g => pure g
  | none => throw .oob

/-- `Vec::resize(n, default)`: truncates or pads. -/
def resize (a : Array G) (n : Nat) : Array G :=
  if n ≤ a.size then a.extract 0 n else a ++ Array.replicate (n - a.size) G.dflt

/-- `for i in 0..n` (ascending). -/
def forUp {σ : Type} : (n : Nat) → (Nat → σ → M σ) → σ → M σ
  | 0, _, s => pure s
  | n + 1, f, s => do let s ← forUp n f s; f n s

/-- `for i in (0..n).rev()` (descending). -/
def forDown {σ : Type} : (n : Nat) → (Nat → σ → M σ) → σ → M σ
  | 0, _, s => pure s
  | n + 1, f, s => do let s ← f n s; forDown n f s

/-- src: buffer.rs::hb_buffer_t (the fields the morx code touches). `out` is the `pos` vector seen
    through `out_info()` when `have_separate_output`; both Vecs are always resized together. -/
structure Buf where
  info : Array G
  out : Array G
  idx : Nat
  len : Nat
  outLen : Nat
  haveOutput : Bool
  sepOut : Bool
  successful : Bool
  maxLen : Nat
  maxOps : Int
  level : Nat
  backward : Bool      -- direction.is_backward()
  vertical : Bool      -- direction.is_vertical()
  deriving Repr, DecidableEq, Inhabited

/-- src: buffer.rs::out_info -/
def Buf.outArr (b : Buf) : Array G := if b.sepOut then b.out else b.info

def outGet (b : Buf) (i : Nat) : M G := rd b.outArr i

/-- src: buffer.rs::set_out_info -/
def outSet (b : Buf) (i : Nat) (g : G) : M Buf :=
  if b.sepOut then do let o ← wr b.out i g; pure { b with out := o }
  else do let o ← wr b.info i g; pure { b with info := o }

/-! ### the in/out primitives: delegated to the shared buffer model (RbModel/Buf.lean)

The primitives that work on the out-buffer (`move_to`, `next_glyph(s)`, `copy_glyph`, `output_glyph`,
`replace_glyph`, `sync`, and below them `ensure` / `make_room_for` / `shift_forward`) are *the* definitions
of RbModel/Buf.lean — one model of buffer.rs for all cores, following the crate through the generated
variants of Gen/Buf.lean (`ensureGrowOnly`, `moveToRewindReversed`, `extendStartGuard`). Here they are run
on the embedding `toS` of this file's lighter record (glyph id + cluster) and read back with `ofS`.
LIST-ASSUMPTION: that these primitives act on the logical sequence `out[0..out_len) ++ info[idx..len)` like
list operations is proved there for the repaired variants (Lemmas/BufZipper.lean: `moveTo_spec`,
`nextGlyph_spec`, `replaceGlyph_spec`, `outputGlyph_spec`, `copyGlyph_spec`, `sync_spec`) and used for the
insertion block in Props/C17.lean (`C17_inplace_zipper_partial`); with the old variants (D5/D6) it is false. -/

def toInfo (g : G) : RbModel.Info := { gid := g.gid, cluster := g.cl }
def ofInfo (x : RbModel.Info) : G := ⟨x.gid, x.cluster⟩

/-- this file's buffer as a buffer of the shared model (masks and payload words zero) -/
def toS (b : Buf) : RbModel.Buf :=
  { info := b.info.toList.map toInfo, out := b.out.toList.map toInfo, idx := b.idx, len := b.len,
    outLen := b.outLen, haveOutput := b.haveOutput, sepOut := b.sepOut, successful := b.successful,
    level := b.level, maxLen := b.maxLen, maxOps := b.maxOps }

/-- read a shared-model buffer back (direction, which the shared model does not carry, from `b0`) -/
def ofS (b0 : Buf) (s : RbModel.Buf) : Buf :=
  { b0 with info := (s.info.map ofInfo).toArray, out := (s.out.map ofInfo).toArray, idx := s.idx, len := s.len,
            outLen := s.outLen, haveOutput := s.haveOutput, sepOut := s.sepOut, successful := s.successful,
            maxLen := s.maxLen, maxOps := s.maxOps }

def liftS {α : Type} : RbModel.M α → M α
  | .ok a => .ok a
  | .error .oob => .error .oob
  | .error .assert => .error .assert

/-- src: buffer.rs::move_to (shared model: `RbModel.Buf.moveTo`) -/
def moveTo (b : Buf) (i : Nat) : M (Buf × Bool) :=
  match liftS ((toS b).moveTo i) with
  | .ok (s, r) => .ok (ofS b s, r)
  | .error p => .error p

def viaS (b : Buf) (f : RbModel.Buf → RbModel.M RbModel.Buf) : M Buf :=
  match liftS (f (toS b)) with
  | .ok s => .ok (ofS b s)
  | .error p => .error p

/-- src: buffer.rs::next_glyph -/
def nextGlyph (b : Buf) : M Buf := viaS b RbModel.Buf.nextGlyph

/-- src: buffer.rs::next_glyphs -/
def nextGlyphs (b : Buf) (n : Nat) : M Buf := viaS b (fun s => s.nextGlyphs n)

/-- src: buffer.rs::copy_glyph -/
def copyGlyph (b : Buf) : M Buf := viaS b RbModel.Buf.copyGlyph

/-- src: buffer.rs::skip_glyph -/
def skipGlyph (b : Buf) : Buf := { b with idx := b.idx + 1 }

/-- src: buffer.rs::output_glyph -/
def outputGlyph (b : Buf) (gid : Nat) : M Buf := viaS b (fun s => s.outputGlyph gid)

/-- src: buffer.rs::replace_glyph -/
def replaceGlyph (b : Buf) (gid : Nat) : M Buf := viaS b (fun s => s.replaceGlyph gid)

/-- src: buffer.rs::clear_output -/
def clearOutput (b : Buf) : Buf :=
  { b with haveOutput := true, idx := 0, outLen := 0, sepOut := false }

/-- src: buffer.rs::sync -/
def sync (b : Buf) : M Buf := viaS b (fun s => do let r ← s.sync; pure r.1)

/-- src: buffer.rs::reverse / reverse_range(0, len) (positions do not exist yet at this stage). -/
def reverse (b : Buf) : M Buf := do
  if b.len == 0 then return b
  if b.len < 2 then return b
  if b.len > b.info.size then throw .oob
  return { b with info := (b.info.extract 0 b.len).reverse ++ b.info.extract b.len b.info.size }

/-! ### cluster merging -/

def setCl (a : Array G) (i : Nat) (c : Nat) : M (Array G) := do
  let g ← rd a i
  wr a i { g with cl := c }

/-- `while end < len && info[end-1].cluster == info[end].cluster { end += 1 }` -/
def extendEnd (a : Array G) (len : Nat) : (fuel : Nat) → (e : Nat) → M Nat
  | 0, e => pure e
  | fuel + 1, e => do
    if e < len then
      let x ← rd a (e - 1); let y ← rd a e
      if x.cl == y.cl then extendEnd a len fuel (e + 1) else pure e
    else pure e

/-- `while guard && info[start-1].cluster == info[start].cluster { start -= 1 }` with the code's own
    guard: `Gen.Buf.extendStartGuard` = 1: `self.idx < start` (HarfBuzz, repaired D4), 0: `end < start`. -/
def extendStart (a : Array G) (e idx : Nat) : (fuel : Nat) → (s : Nat) → M Nat
  | 0, s => pure s
  | fuel + 1, s => do
    if (if RbModel.Gen.Buf.extendStartGuard == 1 then idx < s else e < s) then
      let x ← rd a (s - 1); let y ← rd a s
      if x.cl == y.cl then extendStart a e idx fuel (s - 1) else pure s
    else pure s

/-- `while i != 0 && out_info()[i-1].cluster == c0 { set_cluster(out_info[i-1], cluster); i -= 1 }` -/
def mergeBackOut (c0 cluster : Nat) : (i : Nat) → Buf → M Buf
  | 0, b => pure b
  | i + 1, b => do
    let g ← outGet b i
    if g.cl == c0 then
      let b ← outSet b i { g with cl := cluster }
      mergeBackOut c0 cluster i b
    else pure b

/-- src: buffer.rs::merge_clusters_impl (levels 0/1; level 2 only sets glyph flags, not modelled). -/
def mergeClustersImpl (b : Buf) (start end_ : Nat) : M Buf := do
  if b.level == 2 then return b
  let g0 ← rd b.info start
  let cluster ← forUp (end_ - (start + 1))
    (fun k c => do let g ← rd b.info (start + 1 + k); pure (min c g.cl)) g0.cl
  if end_ == 0 then throw .oob          -- info[end - 1] with end = 0
  let gl ← rd b.info (end_ - 1)
  let end_ ← if cluster != gl.cl then extendEnd b.info b.len (b.len - end_) end_ else pure end_
  let gs ← rd b.info start
  let start ← if cluster != gs.cl then extendStart b.info end_ b.idx start start else pure start
  let gs ← rd b.info start
  let b ← if b.idx == start && gs.cl != cluster then mergeBackOut gs.cl cluster b.outLen b else pure b
  let info ← forUp (end_ - start) (fun k a => setCl a (start + k) cluster) b.info
  return { b with info := info }

/-- src: buffer.rs::merge_clusters — only the two glyph vectors change (the control fields are copied
    from the argument, which makes that evident to the proofs). -/
def mergeClusters (b : Buf) (start end_ : Nat) : M Buf := do
  -- `end - start < 2` in usize: for end < start the difference wraps to a huge number (not < 2)
  if start ≤ end_ && end_ - start < 2 then return b
  let b' ← mergeClustersImpl b start end_
  return { b with info := b'.info, out := b'.out }

/-- `while start != 0 && out[start-1].cluster == out[start].cluster { start -= 1 }` -/
def extendStartOut (b : Buf) : (s : Nat) → M Nat
  | 0 => pure 0
  | s + 1 => do
    let x ← outGet b s; let y ← outGet b (s + 1)
    if x.cl == y.cl then extendStartOut b s else pure (s + 1)

def extendEndOut (b : Buf) : (fuel : Nat) → (e : Nat) → M Nat
  | 0, e => pure e
  | fuel + 1, e => do
    if e < b.outLen then
      let x ← outGet b (e - 1); let y ← outGet b e
      if x.cl == y.cl then extendEndOut b fuel (e + 1) else pure e
    else pure e

/-- `while i < len && info[i].cluster == c0 { set_cluster(info[i], cluster); i += 1 }` -/
def mergeFwdIn (c0 cluster len : Nat) : (fuel : Nat) → (i : Nat) → Array G → M (Array G)
  | 0, _, a => pure a
  | fuel + 1, i, a => do
    if i < len then
      let g ← rd a i
      if g.cl == c0 then
        let a ← wr a i { g with cl := cluster }
        mergeFwdIn c0 cluster len fuel (i + 1) a
      else pure a
    else pure a

/-- src: buffer.rs::merge_out_clusters -/
def mergeOutClusters (b : Buf) (start end_ : Nat) : M Buf := do
  if b.level == 2 then return b
  if end_ < start then throw .wrap
  if end_ - start < 2 then return b
  let g0 ← outGet b start
  let cluster ← forUp (end_ - (start + 1))
    (fun k c => do let g ← outGet b (start + 1 + k); pure (min c g.cl)) g0.cl
  let start ← extendStartOut b start
  let end_ ← extendEndOut b (b.outLen - end_) end_
  let b ← if end_ == b.outLen then do
      let gl ← outGet b (end_ - 1)
      let info ← mergeFwdIn gl.cl cluster b.len (b.len - b.idx) b.idx b.info
      pure { b with info := info }
    else pure b
  forUp (end_ - start) (fun k b => do let g ← outGet b (start + k); outSet b (start + k) { g with cl := cluster }) b

/-- src: buffer.rs::_set_glyph_flags(.., interior = true, from_out_buffer = true): masks are not modelled,
    only the asserts and the index checks of the out-buffer reads (these fire after a D6 truncation). -/
def flagsFromOut (b : Buf) (start end_ : Nat) : M Unit := do
  let e := min end_ b.len
  if b.haveOutput then
    if start > b.outLen then throw .assert
    if b.idx > e then throw .assert
    if start != b.outLen && b.outArr.size < b.outLen then throw .oob
  pure ()

/-! ### state tables -/

/-- src: ttf-parser aat.rs::GenericStateEntry<T>; `x1`,`x2` are the per-type extra words
    (contextual: mark_index, current_index; ligature: action index; insertion: current_insert_index,
    marked_insert_index). -/
structure Entry where
  newState : Nat
  flags : Nat
  x1 : Nat
  x2 : Nat
  deriving Repr, DecidableEq, Inhabited

/-- src: ttf-parser aat.rs::ExtendedStateTable — already parsed: the class lookup as a function, the
    state array and the entry table as the (unsized) views the parser keeps. -/
structure Machine where
  nClasses : Nat
  classOf : Nat → Option Nat
  stateArr : Nat → Option Nat
  entries : Nat → Option Entry

/-- src: hb_glyph_info_t::as_glyph -/
def glyph16 (gid : Nat) : Nat := gid % 65536

/-- src: ExtendedStateTable::class + `.unwrap_or(1)` in drive -/
def Machine.cls (m : Machine) (gid : Nat) : Nat :=
  let g := glyph16 gid
  if g == 0xFFFF then CLASS_DELETED_GLYPH else (m.classOf g).getD CLASS_OUT_OF_BOUNDS

/-- src: ExtendedStateTable::entry -/
def Machine.entry (m : Machine) (state cls : Nat) : Option Entry :=
  let cls := if cls ≥ m.nClasses then CLASS_OUT_OF_BOUNDS else cls
  match m.stateArr (state * m.nClasses + cls) with
  | some e => m.entries e
  | none => none

/-- src: aat_map.rs::range_flags_t -/
structure Range where
  flags : Nat
  first : Nat
  last : Nat
  deriving Repr, DecidableEq, Inhabited

def rdR (a : Array Range) (i : Nat) : M Range :=
  match a[i]? with
  | some g => pure g
  | none => throw .oob

/-- `while cluster < range_flags[range].cluster_first { range -= 1 }` (usize underflow at 0 wraps and the
    next index panics). -/
def rangeDown (rf : Array Range) (cluster : Nat) : (fuel : Nat) → (range : Nat) → M Nat
  | 0, range => do
    let r ← rdR rf range
    if cluster < r.first then throw .oob else pure range
  | fuel + 1, range => do
    let r ← rdR rf range
    if cluster < r.first then
      if range == 0 then throw .oob else rangeDown rf cluster fuel (range - 1)
    else pure range

/-- `while cluster > range_flags[range].cluster_last { range += 1 }` -/
def rangeUp (rf : Array Range) (cluster : Nat) : (fuel : Nat) → (range : Nat) → M Nat
  | 0, range => do
    let r ← rdR rf range
    if cluster > r.last then throw .oob else pure range
  | fuel + 1, range => do
    let r ← rdR rf range
    if cluster > r.last then rangeUp rf cluster fuel (range + 1) else pure range

/-- the "find the range of this cluster" block shared by drive and the non-contextual subtable. -/
def findRange (rf : Array Range) (range cluster : Nat) : M Nat := do
  let range ← rangeDown rf cluster range range
  rangeUp rf cluster (rf.size - range) range

/-- "This block copied from NoncontextualSubtable::apply. Keep in sync." — returns whether the current
    position is switched off by its range, and the updated `last_range`. -/
def rangeBlock (rf : Array Range) (subFlags : Nat) (b : Buf) : Option Nat → M (Bool × Option Nat)
  | none => pure (false, none)
  | some lr => do
    let range ← if b.idx < b.len then do
        let g ← rd b.info b.idx
        findRange rf lr g.cl
      else pure lr
    let r ← rdR rf range
    pure (r.flags &&& subFlags == 0, some range)

/-- per-subtable driver context state (`RearrangementCtx`, `ContextualCtx`, `LigatureCtx`,
    `InsertionCtx` share this record; each uses its own fields). -/
structure CS where
  start : Nat := 0
  end_ : Nat := 0
  markSet : Bool := false
  mark : Nat := 0
  matchLen : Nat := 0
  matchPos : Array Nat := Array.replicate LIGATURE_MAX_MATCHES 0
  deriving Repr, DecidableEq, Inhabited

/-- src: aat_layout_morx_table.rs::driver_context_t -/
structure Ctx where
  inPlace : Bool
  canAdvance : Entry → Bool
  isActionable : CS → Entry → Buf → Bool
  transition : CS → Entry → Buf → M (CS × Buf)

/-- The budget the Rust loop relies on, as a lexicographic pair (remaining `max_ops`, look-ahead):
    every iteration either spends `max_ops` (a don't-advance step, or a transition that inserts glyphs pays
    for them) or, with `max_ops` unchanged, consumes a glyph of the look-ahead; once `max_ops ≤ 0` nothing is
    inserted any more and every iteration advances. A failed allocation (`successful = false`) ends the loop
    at the next test. The look-ahead alone may *grow* when `max_ops` is spent (insertions that stay in front
    of the cursor). -/
def psi (b : Buf) : Nat × Nat :=
  if b.successful then (b.maxOps.toNat + 1, b.len - b.idx + 1) else (0, 0)

def lexLt (a b : Nat × Nat) : Bool := a.1 < b.1 || (a.1 == b.1 && a.2 < b.2)

theorem lexLt_lex {a b : Nat × Nat} (h : lexLt a b = true) :
    Prod.Lex (fun x y => x < y) (fun x y => x < y) a b := by
  obtain ⟨a1, a2⟩ := a; obtain ⟨b1, b2⟩ := b
  simp only [lexLt, Bool.or_eq_true, decide_eq_true_eq, Bool.and_eq_true, beq_iff_eq] at h
  rcases h with h | ⟨h1, h2⟩
  · exact Prod.Lex.left _ _ h
  · subst h1; exact Prod.Lex.right _ h2

/-- The linear budget: holds for every subtable type whose transitions leave `len - idx` and `max_ops`
    alone (rearrangement, contextual — proved; ligature — observed). Used for the bound on the steps. -/
def phi (b : Buf) : Nat := if b.successful then (b.len - b.idx) + b.maxOps.toNat + 1 else 0

/-- src: drive::is_safe_to_break (only decides whether `unsafe_to_break_from_outbuffer` is called) -/
def isSafeToBreak (m : Machine) (c : Ctx) (cs : CS) (b : Buf) (state cls : Nat) (e : Entry) : Bool :=
  if c.isActionable cs e b then false
  else
    let extra : Bool :=
      match m.entry START_OF_TEXT cls with
      | none => false
      | some w =>
        if c.isActionable cs w b then false
        else e.newState == w.newState && c.canAdvance e == c.canAdvance w
    let ok := state == START_OF_TEXT || (!c.canAdvance e && e.newState == START_OF_TEXT) || extra
    if !ok then false
    else
      match m.entry state CLASS_END_OF_TEXT with
      | none => false
      | some ee => !c.isActionable cs ee b

/-- result of one iteration of the `loop { … }` of drive: `break`, or go round again. -/
inductive Step where
  | done (b : Buf)
  | next (b : Buf) (cs : CS) (state : Nat) (lastRange : Option Nat)

/-- `if c.can_advance(&entry) { next_glyph() } else { if max_ops <= 0 { next_glyph() } max_ops -= 1 }` -/
def advance (canAdvance : Bool) (b : Buf) : M Buf :=
  if canAdvance then nextGlyph b
  else if b.maxOps ≤ 0 then do
    let b ← nextGlyph b
    pure { b with maxOps := b.maxOps - 1 }
  else pure { b with maxOps := b.maxOps - 1 }

/-- the safe-to-break bookkeeping before the transition: only its panics are modelled. -/
def breakCheck (m : Machine) (c : Ctx) (cs : CS) (b : Buf) (state cls : Nat) (e : Entry) : M Unit :=
  let backtrack := if b.haveOutput then b.outLen else b.idx
  if !isSafeToBreak m c cs b state cls e && backtrack > 0 && b.idx < b.len then
    flagsFromOut b (backtrack - 1) (b.idx + 1)
  else pure ()

/-- `if idx < len { machine.class(cur(0).as_glyph()).unwrap_or(1) } else { END_OF_TEXT }` -/
def curClass (m : Machine) (b : Buf) : M Nat :=
  if b.idx < b.len then do let g ← rd b.info b.idx; pure (m.cls g.gid) else pure CLASS_END_OF_TEXT

/-- the part of an iteration after the range block, for a position that is switched on. -/
def driveMain (m : Machine) (c : Ctx) (b : Buf) (cs : CS) (state : Nat) (lastRange : Option Nat) : M Step := do
  let cls ← curClass m b
  match m.entry state cls with
  | none => pure (.done b)
  | some e =>
    breakCheck m c cs b state cls e
    let (cs', b1) ← c.transition cs e b
    if b1.idx ≥ b1.len || !b1.successful then pure (.done b1)
    else do
      let b2 ← advance (c.canAdvance e) b1
      pure (.next b2 cs' e.newState lastRange)

/-- src: aat_layout_morx_table.rs::drive — one iteration of the `loop { … }`. -/
def driveStep (m : Machine) (c : Ctx) (rf : Array Range) (subFlags : Nat)
    (b : Buf) (cs : CS) (state : Nat) (lastRange : Option Nat) : M Step := do
  let (skip, lastRange') ← rangeBlock rf subFlags b lastRange
  if skip then
    if b.idx == b.len || !b.successful then pure (.done b)
    else do
      let b' ← nextGlyph b
      pure (.next b' cs START_OF_TEXT lastRange')
  else driveMain m c b cs state lastRange'

/-- src: aat_layout_morx_table.rs::drive — the `loop { … }`. Returns the buffer and the number of
    iterations. The recursion is justified by `psi` (the code's own budget); `none` is the model's guard
    for it: it is returned if an iteration does not decrease `psi`. Proved impossible for the in-place
    subtables (Props/C17: `C17_drive_terminates_partial`), never observed in the correspondence for the others. -/
def driveLoopO (m : Machine) (c : Ctx) (rf : Array Range) (subFlags : Nat)
    (b : Buf) (cs : CS) (state : Nat) (lastRange : Option Nat) (steps : Nat) : M (Option (Buf × Nat)) :=
  match driveStep m c rf subFlags b cs state lastRange with
  | .error p => .error p
  | .ok (.done b') => .ok (some (b', steps + 1))
  | .ok (.next b' cs' state' lastRange') =>
    if h : lexLt (psi b') (psi b) = true then
      driveLoopO m c rf subFlags b' cs' state' lastRange' (steps + 1)
    else .ok none
termination_by psi b
decreasing_by exact lexLt_lex h

/-- the loop with the guard turned into the model-only error `budget` -/
def driveLoop (m : Machine) (c : Ctx) (rf : Array Range) (subFlags : Nat)
    (b : Buf) (cs : CS) (state : Nat) (lastRange : Option Nat) (steps : Nat) : M (Buf × Nat) :=
  match driveLoopO m c rf subFlags b cs state lastRange steps with
  | .error p => .error p
  | .ok none => .error .budget
  | .ok (some r) => .ok r

/-- src: aat_layout_morx_table.rs::drive -/
def drive (m : Machine) (c : Ctx) (rf : Array Range) (subFlags : Nat) (b : Buf) : M (Buf × Nat) := do
  let b := if !c.inPlace then clearOutput b else b
  let lastRange := if rf.size > 1 then some 0 else none
  let b := { b with idx := 0 }
  let (b, steps) ← driveLoop m c rf subFlags b {} START_OF_TEXT lastRange 0
  if !c.inPlace then
    let b ← sync b
    return (b, steps)
  return (b, steps)

/-! ### rearrangement (type 0) -/

def bit (flags mask : Nat) : Bool := flags &&& mask != 0

def swapA (a : Array G) (i j : Nat) : M (Array G) := do
  let x ← rd a i; let y ← rd a j
  let a ← wr a i y
  wr a j x

/-- `dst_vec[t + i] = src_vec[s + i]` — one iteration of a copy loop between two different vectors -/
def copyFromStep (a : Array G) (s t : Nat) (i : Nat) (b : Array G) : M (Array G) := do
  let g ← rd a (s + i); wr b (t + i) g

/-- `info[dst + i] = info[src + i]` — one iteration of a copy loop inside one vector -/
def copyStep (src dst : Nat) (i : Nat) (a : Array G) : M (Array G) := do
  let g ← rd a (src + i); wr a (dst + i) g

/-- `if l > r { for i in 0..n { info[start + r + i] = info[start + l + i] } }
     else if l < r { for i in (0..n).rev() { … } }` with n = end - start - l - r -/
def shiftPhase (a : Array G) (start end_ l r : Nat) : M (Array G) :=
  if l > r then forUp (end_ - start - l - r) (copyStep (start + l) (start + r)) a
  else if l < r then forDown (end_ - start - l - r) (copyStep (start + l) (start + r)) a
  else pure a

/-- `if c { info.swap(i, j) }` -/
def optSwap (c : Bool) (a : Array G) (i j : Nat) : M (Array G) := if c then swapA a i j else pure a

/-- the body of `if end - start >= l + r && …` after the two `merge_clusters` calls: the `buf[4]`
    juggling on `buffer.info`. -/
def rearrangeCore (a : Array G) (start end_ l r : Nat) (revL revR : Bool) : M (Array G) := do
  -- for (i, glyph_info) in buf[..l].iter_mut().enumerate() { *glyph_info = buffer.info[self.start + i] }
  let buf ← forUp l (copyFromStep a start 0) (Array.replicate 4 G.dflt)
  -- for i in 0..r { buf[i + 2] = buffer.info[self.end - r + i] }
  let buf ← forUp r (copyFromStep a (end_ - r) 2) buf
  let a ← shiftPhase a start end_ l r
  -- for i in 0..r { buffer.info[self.start + i] = buf[2 + i] }
  let a ← forUp r (copyFromStep buf 2 start) a
  -- for i in 0..l { buffer.info[self.end - l + i] = buf[i] }
  let a ← forUp l (copyFromStep buf 0 (end_ - l)) a
  let a ← optSwap revL a (end_ - 1) (end_ - 2)
  optSwap revR a start (start + 1)

/-- decoded `MAP[verb]`: (l, r, reverse_l, reverse_r) -/
def verbParams (verb : Nat) : Nat × Nat × Bool × Bool :=
  let m := rearrMap.getD verb 0
  (min 2 (m >>> 4), min 2 (m &&& 0x0F), (m >>> 4) == 3, (m &&& 0x0F) == 3)

/-- the two mark updates at the top of RearrangementCtx::transition -/
def rearrMarks (cs : CS) (flags : Nat) (b : Buf) : CS :=
  let cs := if bit flags REARR_MARK_FIRST then { cs with start := b.idx } else cs
  if bit flags REARR_MARK_LAST then { cs with end_ := min (b.idx + 1) b.len } else cs

/-- the body of `if flags & VERB != 0 && self.start < self.end { … }` -/
def rearrApply (cs : CS) (verb : Nat) (b : Buf) : M Buf :=
  let p := verbParams verb
  if cs.end_ - cs.start ≥ p.1 + p.2.1 && cs.end_ - cs.start ≤ MAX_CONTEXT_LENGTH then do
    let b ← mergeClusters b cs.start (min (b.idx + 1) b.len)
    let b ← mergeClusters b cs.start cs.end_
    let info ← rearrangeCore b.info cs.start cs.end_ p.1 p.2.1 p.2.2.1 p.2.2.2
    pure { b with info := info }
  else pure b

/-- src: RearrangementCtx::transition -/
def rearrTransition (cs : CS) (e : Entry) (b : Buf) : M (CS × Buf) :=
  let cs := rearrMarks cs e.flags b
  if bit e.flags REARR_VERB && cs.start < cs.end_ then do
    let b ← rearrApply cs (e.flags &&& REARR_VERB) b
    pure (cs, b)
  else pure (cs, b)

def rearrCtx : Ctx where
  inPlace := true
  canAdvance e := !bit e.flags REARR_DONT_ADVANCE
  isActionable cs e _ := bit e.flags REARR_VERB && cs.start < cs.end_
  transition := rearrTransition

/-! ### contextual (type 1) -/

/-- a parsed `aat::Lookup`: glyph → value -/
abbrev Lookup := Nat → Option Nat

def setGid (a : Array G) (i : Nat) (gid : Nat) : M (Array G) := do
  let g ← rd a i
  wr a i { g with gid := gid }

/-- one of the two substitutions of a contextual entry: `none` = `table.lookup(index)?` failed. -/
def ctxSubst (lookups : Nat → Option Lookup) (index pos : Nat) (b : Buf) : M (Option Buf) := do
  if index != 0xFFFF then
    match lookups index with
    | none => return none
    | some lk =>
      let g ← rd b.info pos
      match lk (glyph16 g.gid) with
      | some r =>
        let info ← setGid b.info pos r
        return some { b with info := info }
      | none => return some b
  return some b

/-- src: ContextualCtx::transition; `lookups i` = `table.lookup(i)` (none = the `?` early return). -/
def ctxTransition (lookups : Nat → Option Lookup) (cs : CS) (e : Entry) (b : Buf) : M (CS × Buf) := do
  if b.idx == b.len && !cs.markSet then return (cs, b)
  match ← ctxSubst lookups e.x1 cs.mark b with
  | none => return (cs, b)
  | some b =>
    let idx := if b.len == 0 then b.idx else min b.idx (b.len - 1)
    match ← ctxSubst lookups e.x2 idx b with
    | none => return (cs, b)
    | some b =>
      let cs := if bit e.flags CTX_SET_MARK then { cs with markSet := true, mark := b.idx } else cs
      return (cs, b)

def ctxCtx (lookups : Nat → Option Lookup) : Ctx where
  inPlace := true
  canAdvance e := !bit e.flags CTX_DONT_ADVANCE
  isActionable cs e b :=
    if b.idx == b.len && !cs.markSet then false else e.x1 != 0xFFFF || e.x2 != 0xFFFF
  transition := ctxTransition lookups

/-! ### ligature (type 2) -/

structure LigTable where
  actions : Nat → Option Nat       -- ligature_actions.get
  components : Nat → Option Nat    -- components.get
  ligatures : Nat → Option Nat     -- ligatures.get

def posIdx (i : Nat) : Nat := i % LIGATURE_MAX_MATCHES

def setPos (a : Array Nat) (i v : Nat) : M (Array Nat) :=
  if h : i < a.size then pure (a.set i v h) else throw .oob

/-! The ligature transition works on the out-buffer throughout (`move_to` to every popped component, `replace_glyph`,
    `merge_out_clusters`), so — like the insertion transition below — its body is written directly on the shared buffer
    model (`RbModel.Buf`, namespace `LigS`) and run through the embedding once per transition. The component stack is
    the code's own: a depth counter `matchLen` that is never capped, and a ring `matchPos` of `LIGATURE_MAX_MATCHES`
    positions indexed by depth modulo the ring size (so only the newest 64 positions are remembered).
    Its list semantics is `C17_ligature_stack_discipline` (Props/C17.lean). -/
namespace LigS

/-- src: buffer.rs::merge_out_clusters as the ligature code calls it: `end - start` in usize wraps for `end < start`
    (release build) and the model gives up; otherwise the shared model's routine. -/
def mergeOut (b : RbModel.Buf) (start end_ : Nat) : M RbModel.Buf :=
  if b.level == 2 then pure b
  else if end_ < start then throw .wrap
  else liftS (b.mergeOutClusters start end_)

/-- `while self.match_length - 1 > cursor { … }`: delete the later components. -/
def ligDelete (cursor : Nat) : (fuel : Nat) → CS → RbModel.Buf → M (CS × RbModel.Buf)
  | 0, cs, b => pure (cs, b)
  | fuel + 1, cs, b => do
    if cs.matchLen == 0 then throw .wrap
    if cs.matchLen - 1 > cursor then
      let cs := { cs with matchLen := cs.matchLen - 1 }
      let p ← rdN cs.matchPos (posIdx cs.matchLen)
      let (b, _) ← liftS (b.moveTo p)
      let _ ← liftS (RbModel.Mem.get b.info b.idx)          -- cur(0) / cur_mut(0): unicode props, not modelled
      let b ← liftS (b.replaceGlyph 0xFFFF)
      ligDelete cursor fuel cs b
    else pure (cs, b)

/-- the body of `if (action & (LIG_ACTION_STORE | LIG_ACTION_LAST)) != 0 { … }` after the ligature was looked up:
    write it over the component at the cursor, delete the components popped before it, merge the clusters. -/
def ligStore (lig cursor : Nat) (cs : CS) (b : RbModel.Buf) : M (CS × RbModel.Buf) := do
  let b ← liftS (b.replaceGlyph lig)
  if cs.matchLen == 0 then throw .wrap
  let pe ← rdN cs.matchPos (posIdx (cs.matchLen - 1))
  let ligEnd := pe + 1
  let (cs, b) ← ligDelete cursor cs.matchLen cs b
  let (b, _) ← liftS (b.moveTo ligEnd)
  let pc ← rdN cs.matchPos (posIdx cursor)
  let b ← mergeOut b pc b.outLen
  pure (cs, b)

/-- `component_idx = (cur(0).glyph_id as i32 + offset) as u32` with the 30-bit offset sign-extended -/
def compIdx (gid action : Nat) : Nat :=
  let uoff := action &&& LIG_ACTION_OFFSET
  let uoff := if uoff &&& 0x20000000 != 0 then uoff ||| 0xC0000000 else uoff
  let off : Int := if uoff ≥ 2 ^ 31 then (uoff : Int) - 2 ^ 32 else uoff
  let ci : Int := (gid : Int) + off
  if ci < 0 then (ci + 2 ^ 32).toNat else ci.toNat

/-- the `loop { … }` over the ligature actions; `cursor` strictly decreases. -/
def ligLoop (t : LigTable) : (cursor : Nat) → (actionIdx ligIdx : Nat) → CS → RbModel.Buf → M (CS × RbModel.Buf)
  | 0, _, _, cs, b => pure ({ cs with matchLen := 0 }, b)     -- stack underflow
  | cursor + 1, actionIdx, ligIdx, cs, b => do
    let p ← rdN cs.matchPos (posIdx cursor)
    let (b, _) ← liftS (b.moveTo p)
    match t.actions actionIdx with
    | none => pure (cs, b)
    | some action =>
      let g ← liftS (RbModel.Mem.get b.info b.idx)
      match t.components (compIdx g.gid action) with
      | none => pure (cs, b)
      | some comp =>
        let ligIdx := (ligIdx + comp) % 2 ^ 32      -- `ligature_idx: u32`
        let r : Option (CS × RbModel.Buf) ← (if action &&& (LIG_ACTION_STORE ||| LIG_ACTION_LAST) != 0 then do
            match t.ligatures ligIdx with
            | none => pure none
            | some lig =>
              let r ← ligStore lig cursor cs b
              pure (some r)
          else pure (some (cs, b)) : M (Option (CS × RbModel.Buf)))
        match r with
        | none => pure (cs, b)     -- NB: the `break` on a missing ligature happens before replace_glyph
        | some (cs, b) =>
          let actionIdx := (actionIdx + 1) % 65536
          if action &&& LIG_ACTION_LAST != 0 then pure (cs, b)
          else ligLoop t cursor actionIdx ligIdx cs b

/-- the `if entry.flags & SET_COMPONENT != 0 { … }` block (`outLen` = `buffer.out_len`) -/
def ligPush (cs : CS) (outLen : Nat) : M CS := do
  let cs ← if cs.matchLen != 0 then do
      let p ← rdN cs.matchPos (posIdx (cs.matchLen - 1))
      pure (if p == outLen then { cs with matchLen := cs.matchLen - 1 } else cs)
    else pure cs
  let mp ← setPos cs.matchPos (posIdx cs.matchLen) outLen
  pure { cs with matchPos := mp, matchLen := cs.matchLen + 1 }

/-- the `if entry.flags & PERFORM_ACTION != 0 { … }` block -/
def ligPerform (t : LigTable) (cs : CS) (e : Entry) (b : RbModel.Buf) : M (CS × RbModel.Buf) := do
  let end_ := b.outLen
  if cs.matchLen == 0 then return (cs, b)
  if b.idx ≥ b.len then return (cs, b)
  let (cs, b) ← ligLoop t cs.matchLen e.x1 0 cs b
  let (b, _) ← liftS (b.moveTo end_)
  return (cs, b)

/-- src: LigatureCtx::transition -/
def transition (t : LigTable) (cs : CS) (e : Entry) (b : RbModel.Buf) : M (CS × RbModel.Buf) := do
  let cs ← if bit e.flags LIG_SET_COMPONENT then ligPush cs b.outLen else pure cs
  if bit e.flags LIG_PERFORM_ACTION then ligPerform t cs e b
  else return (cs, b)

end LigS

/-- src: LigatureCtx::transition -/
def ligTransition (t : LigTable) (cs : CS) (e : Entry) (b : Buf) : M (CS × Buf) :=
  match LigS.transition t cs e (toS b) with
  | .ok (cs, s) => .ok (cs, ofS b s)
  | .error p => .error p

def ligCtx (t : LigTable) : Ctx where
  inPlace := false
  canAdvance e := !bit e.flags LIG_DONT_ADVANCE
  isActionable _ e _ := bit e.flags LIG_PERFORM_ACTION
  transition := ligTransition t

/-! ### insertion (type 5) -/

/-! The insertion transition works on the out-buffer throughout, so its body is written directly on the shared
    buffer model (`RbModel.Buf`, namespace `InsS`) and run through the embedding once per transition. Its list
    semantics is `C17_inplace_zipper` (Props/C17.lean), from the zipper specs of Lemmas/BufZipper.lean. -/
namespace InsS

/-- `for i in 0..count { output_glyph(glyphs.get(start + i)?) }`; when the `?` fires the transition
    returns with the buffer as it is at that moment (flag `false`; unreachable after `clampCount` for a
    table whose glyph list is an array). -/
def insertGlyphs (glyphs : Nat → Option Nat) (start : Nat) : (count : Nat) → RbModel.Buf → RbModel.M (RbModel.Buf × Bool)
  | 0, b => pure (b, true)
  | count + 1, b => do
    let (b, ok) ← insertGlyphs glyphs start count b
    if !ok then return (b, false)
    match glyphs (start + count) with
    | none => pure (b, false)
    | some g => do let b ← b.outputGlyph g; pure (b, true)

/-- the shared middle of both insertion blocks: `[copy_glyph]; output_glyph × count; [skip_glyph]`.
    `false` = a `glyphs.get(i)?` failed and the transition returns at once. -/
def insBlock (glyphs : Nat → Option Nat) (start count : Nat) (before : Bool) (b : RbModel.Buf) :
    RbModel.M (RbModel.Buf × Bool) := do
  let b ← if b.idx < b.len && !before then b.copyGlyph else pure b
  let (b, ok) ← insertGlyphs glyphs start count b
  if !ok then return (b, false)
  let b := if b.idx < b.len && !before then b.skipGlyph else b
  return (b, true)

/-- `unsafe_to_break_from_outbuffer(mark, min(idx + 1, len))`: masks are not compared by this core, only the
    asserts and the index checks of `_set_glyph_flags` are kept. -/
def flagsFromOut (b : RbModel.Buf) (start end_ : Nat) : RbModel.M Unit := do
  let e := min end_ b.len
  if b.haveOutput then
    if start > b.outLen then throw .assert
    if b.idx > e then throw .assert
    if start != b.outLen && b.outArr.length < b.outLen then throw .oob
  pure ()

/-- `if count != 0 && self.glyphs.get(start + count - 1).is_none() { count = 0 }` — a glyph list that is not
    entirely inside the insertion table inserts nothing (HarfBuzz's `check_array`); `max_ops` has already
    been charged with the original count. -/
def clampCount (glyphs : Nat → Option Nat) (start count : Nat) : Nat :=
  if count != 0 && (glyphs (start + count - 1)).isNone then 0 else count

/-- `if entry.extra.marked_insert_index != 0xFFFF { … }`; `false` = the transition returns. -/
def insMarked (glyphs : Nat → Option Nat) (mark : Nat) (e : Entry) (b : RbModel.Buf) :
    RbModel.M (RbModel.Buf × Bool) := do
  if e.x2 != 0xFFFF then
    let count := e.flags &&& INS_MARKED_INSERT_COUNT
    let b := { b with maxOps := b.maxOps - count }
    if b.maxOps ≤ 0 then return (b, false)
    let count := clampCount glyphs e.x2 count
    let end_ := b.outLen
    let (b, _) ← b.moveTo mark
    let (b, ok) ← insBlock glyphs e.x2 count (bit e.flags INS_MARKED_INSERT_BEFORE) b
    if !ok then return (b, false)
    let (b, _) ← b.moveTo (end_ + count)
    flagsFromOut b mark (min (b.idx + 1) b.len)
    return (b, true)
  return (b, true)

/-- the body of `if entry.extra.current_insert_index != 0xFFFF { … }` after the `max_ops` accounting -/
def insCurrentBody (glyphs : Nat → Option Nat) (start count : Nat) (before dontAdvance : Bool) (b : RbModel.Buf) :
    RbModel.M RbModel.Buf := do
  let end_ := b.outLen
  let (b, ok) ← insBlock glyphs start count before b
  if !ok then return b
  let (b, _) ← b.moveTo (if dontAdvance then end_ else end_ + count)
  return b

/-- `if entry.extra.current_insert_index != 0xFFFF { … }` -/
def insCurrent (glyphs : Nat → Option Nat) (e : Entry) (b : RbModel.Buf) : RbModel.M RbModel.Buf := do
  if e.x1 != 0xFFFF then
    let count := (e.flags &&& INS_CURRENT_INSERT_COUNT) >>> 5
    let b := { b with maxOps := b.maxOps - count }
    if b.maxOps < 0 then return b
    insCurrentBody glyphs e.x1 (clampCount glyphs e.x1 count) (bit e.flags INS_CURRENT_INSERT_BEFORE)
      (bit e.flags INS_DONT_ADVANCE) b
  else return b

/-- src: InsertionCtx::transition (returns the new mark) -/
def transition (glyphs : Nat → Option Nat) (mark : Nat) (e : Entry) (b : RbModel.Buf) :
    RbModel.M (Nat × RbModel.Buf) := do
  let markLoc := b.outLen
  let (b, go) ← insMarked glyphs mark e b
  if !go then return (mark, b)
  let mark := if bit e.flags INS_SET_MARK then markLoc else mark
  let b ← insCurrent glyphs e b
  return (mark, b)

end InsS

/-- src: InsertionCtx::transition -/
def insTransition (glyphs : Nat → Option Nat) (cs : CS) (e : Entry) (b : Buf) : M (CS × Buf) :=
  match liftS (InsS.transition glyphs cs.mark e (toS b)) with
  | .ok (mark, s) => .ok ({ cs with mark := mark }, ofS b s)
  | .error p => .error p

def insCtx (glyphs : Nat → Option Nat) : Ctx where
  inPlace := false
  canAdvance e := !bit e.flags INS_DONT_ADVANCE
  isActionable _ e _ :=
    (e.flags &&& (INS_CURRENT_INSERT_COUNT ||| INS_MARKED_INSERT_COUNT) != 0) && (e.x1 != 0xFFFF || e.x2 != 0xFFFF)
  transition := insTransition glyphs

/-! ### non-contextual (type 4) -/

/-- the range block of the non-contextual subtable: the range of glyph `i`'s own cluster
    (`ac.buffer.info[info].cluster`, as HarfBuzz's NoncontextualSubtable::apply; before the repair of D17
    it was `cur(0)` of the never-advanced `idx`). -/
def ncRange (rf : Array Range) (subFlags : Nat) (b : Buf) (i : Nat) : Option Nat → M (Bool × Option Nat)
  | none => pure (false, none)
  | some lr => do
    let g ← rd b.info i
    let range ← findRange rf lr g.cl
    let r ← rdR rf range
    pure (r.flags &&& subFlags == 0, some range)

/-- the body of `for info in 0..ac.buffer.len { … }` of the non-contextual subtable. -/
def ncStep (lk : Lookup) (rf : Array Range) (subFlags : Nat) (i : Nat) (st : Buf × Option Nat) :
    M (Buf × Option Nat) := do
  let r ← ncRange rf subFlags st.1 i st.2
  if r.1 then pure (st.1, r.2)
  else do
    let g ← rd st.1.info i
    match lk (glyph16 g.gid) with
    | some v => do
      let info ← wr st.1.info i { g with gid := v }
      pure ({ st.1 with info := info }, r.2)
    | none => pure (st.1, r.2)

/-- src: apply_subtable, arm `NonContextual` -/
def nonContextual (lk : Lookup) (rf : Array Range) (subFlags : Nat) (b : Buf) : M Buf := do
  let r ← forUp b.len (ncStep lk rf subFlags) (b, if rf.size > 1 then some 0 else none)
  pure r.1

/-! ### the chain loop -/

inductive Kind where
  | rearr (m : Machine)
  | contextual (m : Machine) (lookups : Nat → Option Lookup)
  | ligature (m : Machine) (t : LigTable)
  | noncontextual (lk : Lookup)
  | insertion (m : Machine) (glyphs : Nat → Option Nat)

/-- src: ttf-parser morx.rs::Subtable -/
structure Subtable where
  coverage : Nat        -- the top byte of the coverage word
  featureFlags : Nat
  kind : Kind

def Subtable.isLogical (s : Subtable) : Bool := s.coverage &&& 0x10 != 0
def Subtable.isAllDirections (s : Subtable) : Bool := s.coverage &&& 0x20 != 0
def Subtable.isBackwards (s : Subtable) : Bool := s.coverage &&& 0x40 != 0
def Subtable.isVertical (s : Subtable) : Bool := s.coverage &&& 0x80 != 0

/-- src: apply_subtable -/
def applySubtable (k : Kind) (rf : Array Range) (subFlags : Nat) (b : Buf) : M Buf :=
  match k with
  | .rearr m => do let (b, _) ← drive m rearrCtx rf subFlags b; pure b
  | .contextual m lks => do let (b, _) ← drive m (ctxCtx lks) rf subFlags b; pure b
  | .ligature m t => do let (b, _) ← drive m (ligCtx t) rf subFlags b; pure b
  | .noncontextual lk => nonContextual lk rf subFlags b
  | .insertion m gl => do let (b, _) ← drive m (insCtx gl) rf subFlags b; pure b

/-- whether the chain loop runs this subtable at all (`continue` otherwise) -/
def subtableRuns (s : Subtable) (rf : Array Range) (b : Buf) : Bool :=
  let flagOk : Bool :=
    match rf[0]? with
    | some r0 => !(rf.size == 1 && s.featureFlags &&& r0.flags == 0)
    | none => true
  flagOk && (s.isAllDirections || b.vertical == s.isVertical)

/-- whether the buffer is reversed around this subtable -/
def subtableReverse (s : Subtable) (b : Buf) : Bool :=
  if s.isLogical then s.isBackwards else s.isBackwards != b.backward

/-- the body of `for subtable in chain.subtables`, with the subtable action abstracted
    (the theorems about the reverse bracket hold for every action). -/
def applySubtableBracket (act : Subtable → Array Range → Buf → M Buf)
    (s : Subtable) (rf : Array Range) (b : Buf) : M Buf := do
  if !subtableRuns s rf b then return b
  let rev := subtableReverse s b
  let b ← if rev then reverse b else pure b
  let b ← act s rf b
  if rev then reverse b else pure b

def realAct (s : Subtable) (rf : Array Range) (b : Buf) : M Buf :=
  applySubtable s.kind rf s.featureFlags b

/-- src: ttf-parser morx.rs::Chain (features are used by the flag compiler only) -/
structure Chain where
  defaultFlags : Nat
  features : List (Nat × Nat × Nat × Nat)    -- kind, setting, enable_flags, disable_flags
  subtables : List Subtable

/-- src: aat_layout_morx_table.rs::apply — `chains.zip(map.chain_flags)` -/
def applyChainsWith (act : Subtable → Array Range → Buf → M Buf) :
    List Chain → List (Array Range) → Buf → M Buf
  | [], _, b => pure b
  | ch :: chs, rfs, b => do
    let rf := rfs.headD #[]      -- `map.chain_flags.resize(chain_len, vec![])`
    let b ← ch.subtables.foldlM (fun b s => applySubtableBracket act s rf b) b
    applyChainsWith act chs rfs.tail b

def applyChains (chains : List Chain) (flags : List (Array Range)) (b : Buf) : M Buf :=
  applyChainsWith realAct chains flags b

/-! ### chain flag compilation (aat_map.rs, compile_flags) -/

/-- src: aat_map.rs::feature_info_t -/
structure FeatInfo where
  kind : Nat
  setting : Nat
  exclusive : Bool
  deriving Repr, DecidableEq, Inhabited

/-- src: aat_map.rs::feature_range_t -/
structure FeatRange where
  info : FeatInfo
  start : Nat
  end_ : Nat
  deriving Repr, DecidableEq, Inhabited

/-- `even(setting)`: `setting & !1` -/
def evenSetting (s : Nat) : Nat := s - s % 2

/-- src: `impl PartialOrd for feature_info_t` as a "less than" -/
def FeatInfo.lt (a b : FeatInfo) : Bool :=
  if a.kind != b.kind then a.kind < b.kind
  else if !a.exclusive && evenSetting a.setting != evenSetting b.setting then a.setting < b.setting
  else false

/-- stable insertion sort with the code's order (Rust's `sort` is a stable merge sort; for a consistent
    order the result is the same). -/
def insertFI (x : FeatInfo) : List FeatInfo → List FeatInfo
  | [] => [x]
  | y :: ys => if x.lt y then x :: y :: ys else y :: insertFI x ys

def sortFI (l : List FeatInfo) : List FeatInfo := l.foldl (fun acc x => insertFI x acc) []

/-- the in-place "merge duplicates" loop of `compile`: keep `cur[i]` iff it differs (in kind, or for a
    non-exclusive feature in `setting & !1`) from the last kept one. -/
def dedupFI : (last : FeatInfo) → List FeatInfo → List FeatInfo
  | _, [] => []
  | last, x :: xs =>
    let nonExcl := !x.exclusive && evenSetting x.setting != evenSetting last.setting
    if x.kind != last.kind || nonExcl then x :: dedupFI x xs else dedupFI last xs

def sortDedup (l : List FeatInfo) : List FeatInfo :=
  match sortFI l with
  | [] => []
  | x :: xs => x :: dedupFI x xs

/-- src: compile_flags::has_feature — `binary_search_by` on (kind, setting); on the sorted, de-duplicated
    `current_features` a binary search finds an element iff it is there (Lemmas: `hasFeature_iff`). -/
def hasFeature (cur : List FeatInfo) (kind setting : Nat) : Bool :=
  cur.any (fun f => f.kind == kind && f.setting == setting)

/-- src: compile_flags, the `for feature in chain.features` loop for one chain. -/
def chainFlags (cur : List FeatInfo) (defaultFlags : Nat) (features : List (Nat × Nat × Nat × Nat)) : Nat :=
  features.foldl (fun flags (f : Nat × Nat × Nat × Nat) =>
    let (kind, setting, enable, disable) := f
    if hasFeature cur kind setting then (flags &&& disable) ||| enable
    else if kind == FEATURE_TYPE_LETTER_CASE && setting == FEATURE_SELECTOR_SMALL_CAPS then
      if hasFeature cur FEATURE_TYPE_LOWER_CASE FEATURE_SELECTOR_LOWER_CASE_SMALL_CAPS then
        (flags &&& disable) ||| enable
      else flags
    else flags) defaultFlags

/-- `for (chain, chain_flags) in chains.zip(map.chain_flags.iter_mut()) { …; chain_flags.push(range) }`
    after `map.chain_flags.resize(chain_len, vec![])` -/
def compileFlagsGo (cur : List FeatInfo) (first last : Nat) : List Chain → List (List Range) → List (List Range)
  | [], _ => []
  | ch :: chs, m =>
    (m.headD [] ++ [⟨chainFlags cur ch.defaultFlags ch.features, first % 2 ^ 32, last % 2 ^ 32⟩]) ::
      compileFlagsGo cur first last chs m.tail

/-- src: compile_flags — pushes one range per chain. -/
def compileFlags (chains : List Chain) (cur : List FeatInfo) (first last : Nat)
    (map : List (List Range)) : List (List Range) :=
  compileFlagsGo cur first last chains map

/-- src: aat_map.rs::feature_event_t -/
structure Event where
  index : Nat
  start : Bool
  feature : FeatInfo
  deriving Repr, DecidableEq, Inhabited

def Event.lt (a b : Event) : Bool :=
  if a.index != b.index then a.index < b.index
  else if a.start != b.start then (!a.start && b.start)
  else false

def insertEv (x : Event) : List Event → List Event
  | [] => [x]
  | y :: ys => if x.lt y then x :: y :: ys else y :: insertEv x ys

def sortEv (l : List Event) : List Event := l.foldl (fun acc x => insertEv x acc) []

/-- `active_features.remove(position(f == event.feature))` -/
def removeFirst (f : FeatInfo) : List FeatInfo → List FeatInfo
  | [] => []
  | x :: xs => if x == f then xs else x :: removeFirst f xs

/-- `usize::wrapping_sub(1)` -/
def wrappingPred (n : Nat) : Nat := if n == 0 then 2 ^ 64 - 1 else n - 1

/-- src: hb_aat_map_builder_t::compile — the event scan. -/
def compileScan (chains : List Chain) : List Event → (active : List FeatInfo) → (lastIndex : Nat) →
    List (List Range) → List (List Range)
  | [], _, _, map => map
  | ev :: evs, active, lastIndex, map =>
    let (map, lastIndex) :=
      if ev.index != lastIndex then
        (compileFlags chains (sortDedup active) lastIndex (wrappingPred ev.index) map, ev.index)
      else (map, lastIndex)
    let active := if ev.start then active ++ [ev.feature] else removeFirst ev.feature active
    compileScan chains evs active lastIndex map

def setLastGlobalEnd : List Range → List Range
  | [] => []
  | [r] => [{ r with last := 0xFFFFFFFF }]
  | r :: rs => r :: setLastGlobalEnd rs

/-- src: hb_aat_map_builder_t::compile -/
def builderCompile (chains : List Chain) (features : List FeatRange) : List (List Range) :=
  let evs := features.foldl (fun acc f =>
    if f.start == f.end_ then acc
    else acc ++ [⟨f.start, true, f.info⟩, ⟨f.end_, false, f.info⟩]) ([] : List Event)
  let evs := sortEv evs ++ [⟨0xFFFFFFFF, false, ⟨0, 0, false⟩⟩]
  let map := compileScan chains evs [] 0 (chains.map (fun _ => []))
  map.map setLastGlobalEnd

/-- src: ttf-parser feat table, as far as `add_feature` reads it: per feature type, the number of
    setting names and the exclusive bit. -/
abbrev FeatTable := Nat → Option (Nat × Bool)

/-- src: hb_aat_map_builder_t::add_feature for one user feature (tag, value, start, end).
    The `aalt` value is truncated to u16 (`feature.value as u16`, the repair of D11; before it
    `u16::try_from(value).unwrap()` panicked). -/
def addFeature (feat : Option FeatTable) (tag value start end_ : Nat) : M (List FeatRange) := do
  match feat with
  | none => return []
  | some ft =>
    let mut acc : List FeatRange := []
    if tag == 0x61616C74 then   -- 'aalt'
      let exposes := match ft FEATURE_TYPE_CHARACTER_ALTERNATIVES with
        | some (n, _) => n != 0
        | none => false
      if !exposes then return []
      acc := acc ++ [⟨⟨FEATURE_TYPE_CHARACTER_ALTERNATIVES, value % 65536, true⟩, start, end_⟩]
    match featureMappings.find? (fun r => r.1 == tag) with
    | none => return acc
    | some (_, ty, en, dis) =>
      let name0 := ft ty
      let name := match name0 with
        | some (n, x) => if n != 0 then some (n, x) else
            (if ty == FEATURE_TYPE_LOWER_CASE && en == FEATURE_SELECTOR_LOWER_CASE_SMALL_CAPS
             then ft FEATURE_TYPE_LETTER_CASE else some (n, x))
        | none =>
            if ty == FEATURE_TYPE_LOWER_CASE && en == FEATURE_SELECTOR_LOWER_CASE_SMALL_CAPS
            then ft FEATURE_TYPE_LETTER_CASE else none
      match name with
      | some (n, excl) =>
        if n != 0 then
          let setting := if value != 0 then en else dis
          return acc ++ [⟨⟨ty, setting, excl⟩, start, end_⟩]
        else return acc
      | none => return acc

end RbModel.Morx
