/- helper lemmas for the `Feature::from_str` theorem of Props/C14.lean -/
import RbModel.Feature

namespace RbModel.Feature

end RbModel.Feature
