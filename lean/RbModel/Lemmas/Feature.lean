/- helper lemmas for the `Feature::from_str` theorem of Props/C14.lean -/
import RbModel.Feature
import RbModel.Spec.FeatureSyntax

namespace RbModel.Feature

/-- `rest` does not continue a run of bytes of class `p` -/
def Stops (p : Nat → Bool) (rest : Bytes) : Prop := ∀ c r, rest = c :: r → p c = false

theorem Stops.nil (p : Nat → Bool) : Stops p [] := by intro c r h; cases h

theorem Stops.cons {p : Nat → Bool} {c : Nat} (r : Bytes) (h : p c = false) : Stops p (c :: r) := by
  intro c' r' e; cases e; exact h

theorem takeWhile_append {p : Nat → Bool} {a rest : Bytes} (ha : ∀ c ∈ a, p c = true) (hr : Stops p rest) :
    (a ++ rest).takeWhile p = a ∧ (a ++ rest).dropWhile p = rest := by
  induction a with
  | nil =>
    cases rest with
    | nil => simp
    | cons c r => have := hr c r rfl; simp [List.takeWhile, List.dropWhile, this]
  | cons x a ih =>
    have hx := ha x List.mem_cons_self
    have := ih (fun c hc => ha c (List.mem_cons_of_mem _ hc))
    simp [List.takeWhile, List.dropWhile, hx, this]

theorem dropWhile_stops {p : Nat → Bool} {rest : Bytes} (hr : Stops p rest) : rest.dropWhile p = rest := by
  have := (takeWhile_append (a := []) (p := p) (by simp) hr).2
  simpa using this

theorem takeWhile_stops {p : Nat → Bool} {rest : Bytes} (hr : Stops p rest) : rest.takeWhile p = [] := by
  have := (takeWhile_append (a := []) (p := p) (by simp) hr).1
  simpa using this

/-- a lexed number token: a non-empty digit string whose decimal value is `n`, in the non-negative i32 range -/
structure Lexed (ds : Bytes) (n : Nat) : Prop where
  ne : ds ≠ []
  dig : ∀ c ∈ ds, isDigit c = true
  val : digitsValue ds = n
  small : n ≤ 2147483647

theorem toU32_ofNat (n : Nat) (h : n < 4294967296) : toU32 (n : Int) = n := by
  unfold toU32; omega

theorem consumeSign_nosign (s : Bytes) (h : ∀ c r, s = c :: r → c ≠ 45 ∧ c ≠ 43) : consumeSign s = (false, s) := by
  unfold consumeSign
  split
  · rename_i r; exact absurd rfl (h 45 r rfl).1
  · rename_i r; exact absurd rfl (h 43 r rfl).2
  · rfl

theorem consumeI32_nosign (s : Bytes) (h : ∀ c r, s = c :: r → c ≠ 45 ∧ c ≠ 43) :
    consumeI32 s = (parseI32 false (s.takeWhile isDigit), s.dropWhile isDigit) := by
  unfold consumeI32
  rw [consumeSign_nosign s h]

theorem consumeI32_lexed {ds rest : Bytes} {n : Nat} (hl : Lexed ds n) (hr : Stops isDigit rest) :
    consumeI32 (ds ++ rest) = (some (n : Int), rest) := by
  obtain ⟨d, dr, rfl⟩ : ∃ d dr, ds = d :: dr := by
    cases ds with
    | nil => exact absurd rfl hl.ne
    | cons d dr => exact ⟨d, dr, rfl⟩
  have hd := hl.dig d List.mem_cons_self
  rw [consumeI32_nosign]
  · obtain ⟨h1, h2⟩ := takeWhile_append hl.dig hr
    rw [h1, h2]
    simp [parseI32, hl.val, hl.small]
  · intro c r e
    simp only [List.cons_append, List.cons.injEq] at e
    obtain ⟨rfl, _⟩ := e
    constructor <;> (intro h; subst h; simp [isDigit] at hd)

/-- no sign and no digit at the front: `consume_i32` fails without moving -/
theorem consumeI32_none (s : Bytes) (h : ∀ c r, s = c :: r → c ≠ 45 ∧ c ≠ 43 ∧ isDigit c = false) :
    consumeI32 s = (none, s) := by
  rw [consumeI32_nosign s (fun c r e => ⟨(h c r e).1, (h c r e).2.1⟩)]
  have hs : Stops isDigit s := fun c r e => (h c r e).2.2
  rw [takeWhile_stops hs, dropWhile_stops hs]
  rfl

/-! ### rendering a spec form to bytes (numbers through an arbitrary digit-string assignment `ds`) -/

open RbModel.Spec.FeatureSyntax

def renderPrefix : Prefix → Bytes
  | .none => []
  | .plus => [43]
  | .minus => [45]

def renderNum (ds : Nat → Bytes) : Option Nat → Bytes
  | none => []
  | some n => ds n

def renderIndex (ds : Nat → Bytes) : Index → Bytes
  | .absent => []
  | .empty => [91, 93]
  | .single i => 91 :: (ds i ++ [93])
  | .range a b => 91 :: (renderNum ds a ++ 58 :: (renderNum ds b ++ [93]))

def renderValue (ds : Nat → Bytes) : Value → Bytes
  | .absent => []
  | .num n => 61 :: ds n
  | .on => [61, 111, 110]
  | .off => [61, 111, 102, 102]

/-- `[+-]tag[index][=value]`, no spaces, no quotes, `:` as the range separator -/
def render (ds : Nat → Bytes) (f : Form) : Bytes :=
  renderPrefix f.pre ++ (f.tag ++ (renderIndex ds f.index ++ renderValue ds f.value))

/-- the numbers occurring in a form -/
def nums (f : Form) : List Nat :=
  (match f.index with
   | .single i => [i]
   | .range a b => a.toList ++ b.toList
   | _ => []) ++
  (match f.value with
   | .num n => [n]
   | _ => [])

theorem tagChar_facts {c : Nat} (h : isTagChar c = true) :
    c ≠ 45 ∧ c ≠ 43 ∧ c ≠ 39 ∧ c ≠ 34 ∧ isSpace c = false := by
  simp only [isTagChar, isAlpha, isDigit, Bool.or_eq_true, Bool.and_eq_true, decide_eq_true_eq, beq_iff_eq] at h
  refine ⟨by omega, by omega, by omega, by omega, ?_⟩
  simp only [isSpace, Bool.or_eq_false_iff, beq_eq_false_iff_ne]
  omega

theorem tagFromBytesLossy_eq (t : Bytes) (h1 : t ≠ []) (h4 : t.length ≤ 4) : tagFromBytesLossy t = tagValue t := by
  match t, h1, h4 with
  | [a], _, _ => rfl
  | [a, b], _, _ => rfl
  | [a, b, c], _, _ => rfl
  | [a, b, c, d], _, _ => rfl
  | _ :: _ :: _ :: _ :: _ :: _, _, h => simp at h

theorem head_tagChar {tag rest : Bytes} (h1 : tag ≠ []) (ht : ∀ c ∈ tag, isTagChar c = true) :
    ∀ c r, tag ++ rest = c :: r → isTagChar c = true := by
  intro c r e
  cases tag with
  | nil => exact absurd rfl h1
  | cons x xs =>
    simp only [List.cons_append, List.cons.injEq] at e
    exact e.1 ▸ ht x List.mem_cons_self

theorem parseTag_render (tag rest : Bytes) (h1 : tag ≠ []) (h4 : tag.length ≤ 4)
    (ht : ∀ c ∈ tag, isTagChar c = true) (hr1 : Stops isTagChar rest) (hr2 : Stops isSpace rest) :
    parseTag (tag ++ rest) = some (tagValue tag, rest) := by
  have hh := head_tagChar (rest := rest) h1 ht
  have hsp : skipSpaces (tag ++ rest) = tag ++ rest :=
    dropWhile_stops (fun c r e => (tagChar_facts (hh c r e)).2.2.2.2)
  have hq : consumeQuote (tag ++ rest) = (none, tag ++ rest) := by
    unfold consumeQuote
    split
    · rename_i c r e
      have := tagChar_facts (hh c r e)
      simp [this.2.2.1, this.2.2.2.1, e]
    · rename_i e; rw [e]
  have htg : consumeTag (tag ++ rest) = some (tagValue tag, rest) := by
    unfold consumeTag
    obtain ⟨e1, e2⟩ := takeWhile_append ht hr1
    simp only [e1, e2, tagFromBytesLossy_eq _ h1 h4]
    have : ¬ tag.length > 4 := by omega
    simp [this]
  have hsr : skipSpaces rest = rest := dropWhile_stops hr2
  simp only [parseTag, hsp, hq, htg, closeQuote, hsr]

theorem parsePrefix_render (pre : Prefix) (s : Bytes) (h : ∀ c r, s = c :: r → c ≠ 45 ∧ c ≠ 43) :
    parsePrefix (renderPrefix pre ++ s) = ((match pre with | .minus => 0 | _ => 1), s) := by
  cases pre
  · simp only [renderPrefix, List.nil_append]
    unfold parsePrefix
    split
    · rename_i r; exact absurd rfl (h 45 r rfl).1
    · rename_i r; exact absurd rfl (h 43 r rfl).2
    · rfl
  · rfl
  · rfl

/-- stage 1: prefix and tag -/
theorem parseHead_render (pre : Prefix) (tag rest : Bytes) (h1 : tag ≠ []) (h4 : tag.length ≤ 4)
    (ht : ∀ c ∈ tag, isTagChar c = true) (hr1 : Stops isTagChar rest) (hr2 : Stops isSpace rest) :
    parseHead (renderPrefix pre ++ (tag ++ rest)) =
      some ((match pre with | .minus => 0 | _ => 1), tagValue tag, rest) := by
  have hh := head_tagChar (rest := rest) h1 ht
  unfold parseHead
  rw [parsePrefix_render pre _ (fun c r e => ⟨(tagChar_facts (hh c r e)).1, (tagChar_facts (hh c r e)).2.1⟩)]
  simp only [parseTag_render tag rest h1 h4 ht hr1 hr2]

theorem consumeByte_ne {c : Nat} {s : Bytes} (h : ∀ d r, s = d :: r → d ≠ c) : consumeByte c s = none := by
  cases s with
  | nil => rfl
  | cons d r => simp [consumeByte, h d r rfl]

theorem stops_93 (rest : Bytes) : Stops isDigit (93 :: rest) := Stops.cons _ rfl
theorem stops_58 (rest : Bytes) : Stops isDigit (58 :: rest) := Stops.cons _ rfl

theorem consumeI32_93 (rest : Bytes) : consumeI32 (93 :: rest) = (none, 93 :: rest) :=
  consumeI32_none _ (fun c r e => by cases e; decide)
theorem consumeI32_58 (rest : Bytes) : consumeI32 (58 :: rest) = (none, 58 :: rest) :=
  consumeI32_none _ (fun c r e => by cases e; decide)

/-- stage 2: the index -/
theorem parseIndices_render (ds : Nat → Bytes) (idx : Index) (rest : Bytes)
    (hrest : ∀ c r, rest = c :: r → c = 61)
    (hn : ∀ n, (idx = .single n ∨ (∃ b, idx = .range (some n) b) ∨ (∃ a, idx = .range a (some n))) → Lexed (ds n) n) :
    parseIndices (renderIndex ds idx ++ rest) = some
      ((match idx with | .absent | .empty => 0 | .single i => i | .range a _ => a.getD 0),
       (match idx with | .absent | .empty => INF | .single i => i + 1 | .range _ b => b.getD INF), rest) := by
  cases idx with
  | absent =>
    simp only [renderIndex, List.nil_append, parseIndices]
    rw [consumeByte_ne (fun d r e => by rw [hrest d r e]; decide)]
    rfl
  | empty =>
    simp only [renderIndex, List.cons_append, List.nil_append, parseIndices, consumeByte, if_true, consumeI32_93,
      parseIndexEnd]
    rfl
  | single i =>
    have hl := hn i (Or.inl rfl)
    have hi : i < 4294967296 := by have := hl.small; omega
    simp only [renderIndex, List.cons_append, List.append_assoc, List.nil_append, parseIndices, consumeByte, if_true,
      consumeI32_lexed hl (stops_93 rest), parseIndexEnd, Option.getD_some, toU32_ofNat i hi]
    have : i ≠ U32MAX := by unfold U32MAX; have := hl.small; omega
    simp [this]
  | range a b =>
    cases a with
    | none =>
      cases b with
      | none =>
        simp only [renderIndex, renderNum, List.cons_append, List.nil_append, parseIndices, consumeByte, if_true,
          consumeI32_58, parseIndexEnd, consumeI32_93]
        rfl
      | some b =>
        have hl := hn b (Or.inr (Or.inr ⟨none, rfl⟩))
        have hb : b < 4294967296 := by have := hl.small; omega
        simp only [renderIndex, renderNum, List.cons_append, List.append_assoc, List.nil_append, parseIndices,
          consumeByte, if_true, consumeI32_58, parseIndexEnd, consumeI32_lexed hl (stops_93 rest),
          Option.getD_some, toU32_ofNat b hb]
        rfl
    | some a =>
      have hla := hn a (Or.inr (Or.inl ⟨b, rfl⟩))
      have ha : a < 4294967296 := by have := hla.small; omega
      cases b with
      | none =>
        simp only [renderIndex, renderNum, List.cons_append, List.append_assoc, List.nil_append, parseIndices,
          consumeByte, if_true, consumeI32_lexed hla (stops_58 _), parseIndexEnd, consumeI32_93,
          Option.getD_some, toU32_ofNat a ha]
        rfl
      | some b =>
        have hl := hn b (Or.inr (Or.inr ⟨some a, rfl⟩))
        have hb : b < 4294967296 := by have := hl.small; omega
        simp only [renderIndex, renderNum, List.cons_append, List.append_assoc, List.nil_append, parseIndices,
          consumeByte, if_true, consumeI32_lexed hla (stops_58 _), parseIndexEnd,
          consumeI32_lexed hl (stops_93 rest), Option.getD_some, toU32_ofNat a ha, toU32_ofNat b hb]

/-- stage 3: `=value` and the end-of-input test -/
theorem parseValue_render (ds : Nat → Bytes) (dflt : Nat) (v : Value)
    (hn : ∀ n, v = .num n → Lexed (ds n) n) :
    parseValue dflt (renderValue ds v) = some (match v with
      | .absent => dflt | .num n => n | .on => 1 | .off => 0) := by
  cases v with
  | absent => rfl
  | on => rfl
  | off => rfl
  | num n =>
    have hl := hn n rfl
    have h := consumeI32_lexed hl (Stops.nil isDigit)
    rw [List.append_nil] at h
    simp only [renderValue, parseValue, consumeByte, if_true, h]
    simp [skipSpaces, toU32_ofNat n (by have := hl.small; omega)]

end RbModel.Feature
