/-
  Helper lemmas for `C16_mapped_character_own_glyph` (Props/C16.lean): when does
  `decompose_current_character` (ot_shape_normalize.rs) give a character the font maps ITS OWN glyph,
  and when does it prefer the decomposition.  Everything is about `RbModel/Norm.lean`.
-/
import RbModel.Norm
import RbModel.Lemmas.Norm

namespace RbModel.Norm

/-- `decompose_current_character` on a character the font maps, when `decompose` is not consulted
    (`shortest`) or finds nothing: `next_char(glyph)` — the record with its own glyph, props and scratch
    flags untouched.  The space fallback and the U+2011 fallback are not reached. -/
theorem dcc_own (U : UData) (F : Font) (K : Consts) (fuel : Nat) (s : Bool) (x : Info) (flags g : Nat)
    (hg : F.glyph x.cp = some g) (h : s = true ∨ decompose U F false fuel x.cp = some []) :
    decomposeCurrentCharacter U F K fuel s x flags = some ([{ x with gidx := g }], flags) := by
  unfold decomposeCurrentCharacter
  rcases h with h | h
  · subst h
    simp [hg]
  · cases s with
    | true => simp [hg]
    | false => simp [hg, h]

/-- ... and when `decompose` finds a supported candidate in a mode that does not short-circuit, the
    decomposition is preferred although the font maps the character. -/
theorem dcc_prefers (U : UData) (F : Font) (K : Consts) (fuel : Nat) (x : Info) (flags : Nat)
    (p : Nat × Nat) (ps : List (Nat × Nat)) (h : decompose U F false fuel x.cp = some (p :: ps)) :
    decomposeCurrentCharacter U F K fuel false x flags = some (outputChars U K x (p :: ps) flags) := by
  unfold decomposeCurrentCharacter
  simp [h]

/-- `own G x`: the record with the glyph `G` assigns to its code point -/
def own (G : Nat → Nat) (x : Info) : Info := { x with gidx := G x.cp }

/-- a whole run through `decompose_current_character` -/
theorem decomposeRun_own (U : UData) (F : Font) (K : Consts) (fuel : Nat) (s : Bool) (G : Nat → Nat)
    (xs : List Info) (flags : Nat)
    (h : ∀ x ∈ xs, F.glyph x.cp = some (G x.cp) ∧ (s = true ∨ decompose U F false fuel x.cp = some [])) :
    decomposeRun U F K fuel s xs flags = some (xs.map (own G), flags) := by
  induction xs with
  | nil => rfl
  | cons x xs ih =>
    have hx := h x List.mem_cons_self
    simp only [decomposeRun, dcc_own U F K fuel s x flags (G x.cp) hx.1 hx.2,
      ih (fun y hy => h y (List.mem_cons_of_mem _ hy)), List.map_cons, own]
    rfl

/-- the simple-cluster path of the first round (fast path included) -/
theorem simpleRun_own (U : UData) (F : Font) (K : Consts) (fuel : Nat) (s : Bool) (G : Nat → Nat)
    (xs : List Info) (flags : Nat)
    (h : ∀ x ∈ xs, F.glyph x.cp = some (G x.cp) ∧ (s = true ∨ decompose U F false fuel x.cp = some [])) :
    simpleRun U F K fuel s xs flags = some (xs.map (own G), flags) := by
  induction xs with
  | nil => rfl
  | cons x xs ih =>
    have hx := h x List.mem_cons_self
    cases s with
    | false =>
      simp only [simpleRun, Bool.false_eq_true, ↓reduceIte]
      exact decomposeRun_own U F K fuel false G (x :: xs) flags h
    | true =>
      simp only [simpleRun, if_true, hx.1, ih (fun y hy => h y (List.mem_cons_of_mem _ hy)),
        List.map_cons, own]

/-- a character without a decomposition has no candidate: `decompose` returns 0 at once -/
theorem decompose_none (U : UData) (F : Font) (s : Bool) (fuel c : Nat) (h : U.decomp c = none) :
    decompose U F s (fuel + 1) c = some [] := by
  rw [decompose]; simp [h]

/-- whatever `decompose_current_character` emits for a record, in either mode, decomposed to the end is the full
    canonical decomposition of the record's character: the output is `a :: bs` with `full(c) = full(a) ++ bs` — no second
    component is dropped on the way, nothing is added. -/
theorem dcc_conserves (U : UData) (F : Font) (K : Consts) (fuel : Nat) (s : Bool) (x : Info) (flags : Nat)
    (l : List Info) (f : Nat) (h : decomposeCurrentCharacter U F K fuel s x flags = some (l, f))
    (lx : List Nat) (hl : FullDecomp U x.cp lx) :
    ∃ a bs la, l.map (·.cp) = a :: bs ∧ FullDecomp U a la ∧ lx = la ++ bs := by
  cases hd : (if !s || (F.glyph x.cp).isNone then decompose U F s fuel x.cp else some []) with
  | none =>
    unfold decomposeCurrentCharacter at h
    simp only [hd] at h
    cases h
  | some r =>
    cases r with
    | nil =>
      obtain ⟨g, p, f', h1, _⟩ := dcc_kept U F K fuel s x flags hd
      rw [h1] at h
      cases h
      exact ⟨x.cp, [], lx, rfl, hl, by simp⟩
    | cons p ps =>
      have h1 := dcc_decomposed U F K fuel s x flags (p :: ps) (by simp) hd
      rw [h1] at h
      have sp := outputChars_spec U K x (p :: ps) flags
      have hl' : l = (outputChars U K x (p :: ps) flags).1 := by
        have := congrArg (fun o => o.map Prod.fst) h
        simpa using this.symm
      have hdec : decompose U F s fuel x.cp = some (p :: ps) := by
        by_cases hc : (!s || (F.glyph x.cp).isNone) = true
        · simpa [hc] using hd
        · simp [hc] at hd
      rw [hl', sp.1]
      cases s with
      | true =>
        obtain ⟨k, hk, _, _⟩ := (decompose_shortest U F fuel x.cp (p :: ps) hdec).1 (by simp)
        exact hk.full hl
      | false =>
        obtain ⟨k, hk, _, _⟩ := (decompose_full U F fuel x.cp (p :: ps) hdec).1 (by simp)
        exact hk.full hl

end RbModel.Norm
