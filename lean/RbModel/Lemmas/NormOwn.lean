/-
  Helper lemmas for `C16_mapped_character_own_glyph` (Props/C16.lean): when does
  `decompose_current_character` (ot_shape_normalize.rs) give a character the font maps ITS OWN glyph,
  and when does it prefer the decomposition.  Everything is about `RbModel/Norm.lean`.
-/
import RbModel.Norm
import RbModel.Lemmas.Norm

namespace RbModel.Norm

/-- `decompose_current_character` on a character the font maps, when `decompose` is not consulted
    (`shortest`) or finds nothing: `next_char(glyph)` — the record with its own glyph, props and scratch
    flags untouched.  The space fallback and the U+2011 fallback are not reached. -/
theorem dcc_own (U : UData) (F : Font) (K : Consts) (fuel : Nat) (s : Bool) (x : Info) (flags g : Nat)
    (hg : F.glyph x.cp = some g) (h : s = true ∨ decompose U F false fuel x.cp = some []) :
    decomposeCurrentCharacter U F K fuel s x flags = some ([{ x with gidx := g }], flags) := by
  unfold decomposeCurrentCharacter
  rcases h with h | h
  · subst h
    simp [hg]
  · cases s with
    | true => simp [hg]
    | false => simp [hg, h]

/-- ... and when `decompose` finds a supported candidate in a mode that does not short-circuit, the
    decomposition is preferred although the font maps the character. -/
theorem dcc_prefers (U : UData) (F : Font) (K : Consts) (fuel : Nat) (x : Info) (flags : Nat)
    (p : Nat × Nat) (ps : List (Nat × Nat)) (h : decompose U F false fuel x.cp = some (p :: ps)) :
    decomposeCurrentCharacter U F K fuel false x flags = some (outputChars U K x (p :: ps) flags) := by
  unfold decomposeCurrentCharacter
  simp [h]

/-- `own G x`: the record with the glyph `G` assigns to its code point -/
def own (G : Nat → Nat) (x : Info) : Info := { x with gidx := G x.cp }

/-- a whole run through `decompose_current_character` -/
theorem decomposeRun_own (U : UData) (F : Font) (K : Consts) (fuel : Nat) (s : Bool) (G : Nat → Nat)
    (xs : List Info) (flags : Nat)
    (h : ∀ x ∈ xs, F.glyph x.cp = some (G x.cp) ∧ (s = true ∨ decompose U F false fuel x.cp = some [])) :
    decomposeRun U F K fuel s xs flags = some (xs.map (own G), flags) := by
  induction xs with
  | nil => rfl
  | cons x xs ih =>
    have hx := h x List.mem_cons_self
    simp only [decomposeRun, dcc_own U F K fuel s x flags (G x.cp) hx.1 hx.2,
      ih (fun y hy => h y (List.mem_cons_of_mem _ hy)), List.map_cons, own]
    rfl

/-- the simple-cluster path of the first round (fast path included) -/
theorem simpleRun_own (U : UData) (F : Font) (K : Consts) (fuel : Nat) (s : Bool) (G : Nat → Nat)
    (xs : List Info) (flags : Nat)
    (h : ∀ x ∈ xs, F.glyph x.cp = some (G x.cp) ∧ (s = true ∨ decompose U F false fuel x.cp = some [])) :
    simpleRun U F K fuel s xs flags = some (xs.map (own G), flags) := by
  induction xs with
  | nil => rfl
  | cons x xs ih =>
    have hx := h x List.mem_cons_self
    cases s with
    | false =>
      simp only [simpleRun, Bool.false_eq_true, ↓reduceIte]
      exact decomposeRun_own U F K fuel false G (x :: xs) flags h
    | true =>
      simp only [simpleRun, if_true, hx.1, ih (fun y hy => h y (List.mem_cons_of_mem _ hy)),
        List.map_cons, own]

/-- a character without a decomposition has no candidate: `decompose` returns 0 at once -/
theorem decompose_none (U : UData) (F : Font) (s : Bool) (fuel c : Nat) (h : U.decomp c = none) :
    decompose U F s (fuel + 1) c = some [] := by
  rw [decompose]; simp [h]

end RbModel.Norm
