/-
  The specification side of single substitution: `Spec.Subst.applyLookupFwd` of a lookup whose subtables are all
  single substitutions is a map over the glyph string; and the operational `substInfo` projects onto that map.
-/
import RbModel.Spec.OpenTypeSubst
import RbModel.Lemmas.GsubSingle

namespace RbModel.Spec.Subst
open RbModel RbModel.Gsub

/-- what the specification makes of one glyph under a single-substitution lookup -/
def specStep (f : Font) (l : Lookup) (lm : Nat) (g : G) : G :=
  if g.mask &&& lm != 0 && !ignored f l.props g then
    match singleSubst? l.subtables g.gid with
    | some s => { g with gid := s }
    | none => g
  else g

theorem replaceAt_one (gs : List G) (i : Nat) (x : G) (hi : i < gs.length) : replaceAt gs i [x] 1 = gs.set i x := by
  unfold replaceAt
  rw [List.set_eq_take_append_cons_drop, if_pos hi]
  simp

theorem set_self {α} (gs : List α) (i : Nat) (g : α) (hg : gs[i]? = some g) : gs.set i g = gs := by
  apply List.ext_getElem?
  intro q
  rw [List.getElem?_set]
  by_cases h : i = q
  · subst h
    have hi : i < gs.length := by
      by_cases h : i < gs.length
      · exact h
      · rw [List.getElem?_eq_none (by omega)] at hg; cases hg
    rw [List.getElem?_eq_getElem hi] at hg
    simp [hi]; cases hg; rfl
  · simp [h]

theorem firstSubtable_single (f : Font) (level props lm : Nat) (gs : List G) (i : Nat) (g : G) (hg : gs[i]? = some g) :
    ∀ sts : List Subtable, sts.all Subtable.isSingle = true →
      firstSubtable f level props lm gs i sts = (singleSubst? sts g.gid).map fun s => (gs.set i { g with gid := s }, i + 1) := by
  have hi : i < gs.length := by
    by_cases h : i < gs.length
    · exact h
    · rw [List.getElem?_eq_none (by omega)] at hg; cases hg
  intro sts
  induction sts with
  | nil => intro _; rfl
  | cons st rest ih =>
    intro hall
    simp only [List.all_cons, Bool.and_eq_true] at hall
    have ihr := ih hall.2
    cases st with
    | single1 cov d =>
      unfold firstSubtable applySubtableAt
      simp only [hg, applySimple]
      cases hc : cov.index g.gid with
      | none => simp only [Option.map_none, singleSubst?, hc]; exact ihr
      | some k => simp only [Option.map_some, singleSubst?, hc, replaceAt_one _ _ _ hi]
    | single2 cov sub =>
      unfold firstSubtable applySubtableAt
      simp only [hg, applySimple]
      cases hc : cov.index g.gid with
      | none => simp only [singleSubst?, hc, bind, Option.bind]; exact ihr
      | some k =>
        cases hs : sub[k]? with
        | none => simp only [singleSubst?, hc, hs, bind, Option.bind]; exact ihr
        | some s => simp only [singleSubst?, hc, hs, bind, Option.bind, pure, Option.map_some, replaceAt_one _ _ _ hi]
    | _ => simp [Subtable.isSingle] at hall

theorem applyLookupFwd_single (f : Font) (level : Nat) (l : Lookup) (lm : Nat)
    (hall : l.subtables.all Subtable.isSingle = true) :
    ∀ (fuel : Nat) (gs : List G) (i : Nat), gs.length - i ≤ fuel → i ≤ gs.length →
      applyLookupFwd f level l lm fuel gs i = gs.take i ++ (gs.drop i).map (specStep f l lm) := by
  intro fuel
  induction fuel with
  | zero =>
    intro gs i hf hi
    have : i = gs.length := by omega
    subst this
    simp [applyLookupFwd]
  | succ fuel ih =>
    intro gs i hf hi
    unfold applyLookupFwd
    cases hg : gs[i]? with
    | none =>
      have : gs.length ≤ i := by
        by_cases h : i < gs.length
        · rw [List.getElem?_eq_getElem h] at hg; cases hg
        · omega
      simp [List.drop_eq_nil_of_le this, List.take_of_length_le this]
    | some g =>
      have hil : i < gs.length := by
        by_cases h : i < gs.length
        · exact h
        · rw [List.getElem?_eq_none (by omega)] at hg; cases hg
      -- every branch continues at i + 1 on the string with position i replaced by specStep g
      simp only []
      have key : (if (g.mask &&& lm != 0 && !ignored f l.props g) = true then
                    (match firstSubtable f level l.props lm gs i l.subtables with
                     | some (gs', nxt) => applyLookupFwd f level l lm fuel gs' (max nxt i)
                     | none => applyLookupFwd f level l lm fuel gs (i + 1))
                   else applyLookupFwd f level l lm fuel gs (i + 1))
          = applyLookupFwd f level l lm fuel (gs.set i (specStep f l lm g)) (i + 1) := by
        unfold specStep
        by_cases hc : (g.mask &&& lm != 0 && !ignored f l.props g) = true
        · simp only [hc, if_true]
          rw [firstSubtable_single f level l.props lm gs i g hg l.subtables hall]
          cases hs : singleSubst? l.subtables g.gid with
          | none =>
            simp only [Option.map_none]
            rw [set_self _ _ _ hg]
          | some s =>
            simp only [Option.map_some]
            rw [Nat.max_eq_left (Nat.le_succ i)]
        · simp only [hc, Bool.false_eq_true, if_false]
          rw [set_self _ _ _ hg]
      refine key.trans ?_
      rw [ih _ _ (by simp; omega) (by simp; omega)]
      apply List.ext_getElem?
      intro q
      simp only [List.getElem?_append, List.length_take, List.length_set, List.getElem?_take, List.getElem?_map,
        List.getElem?_drop, List.getElem?_set]
      by_cases h1 : q < i
      · have : q < min (i + 1) gs.length := by omega
        have h2 : q < min i gs.length := by omega
        have h3 : i ≠ q := by omega
        simp [this, h2, h3, h1, Nat.lt_succ_of_lt h1]
      · by_cases h2 : q = i
        · subst h2
          have : q < min (q + 1) gs.length := by omega
          have h3 : ¬ q < min q gs.length := by omega
          have h5 : min q gs.length = q := by omega
          have hg' : gs[q] = g := by rw [List.getElem?_eq_getElem hil] at hg; cases hg; rfl
          simp [this, hil, h5, hg']
        · have : ¬ q < min (i + 1) gs.length := by omega
          have h3 : ¬ q < min i gs.length := by omega
          have h4 : min (i + 1) gs.length = i + 1 := by omega
          have h5 : min i gs.length = i := by omega
          have h6 : i ≠ i + 1 + (q - (i + 1)) := by omega
          have h7 : i + 1 + (q - (i + 1)) = i + (q - i) := by omega
          have h8 : ¬ q < i + 1 := by omega
          have h9 : q - i ≠ 0 := by omega
          simp [this, h3, h4, h5, h6, h7, h8, h9, h1]

end RbModel.Spec.Subst
