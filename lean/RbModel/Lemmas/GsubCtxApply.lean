/-
  Contextual GSUB lookups, step 2c: `apply_lookup` as a whole — the shift of the match positions into out-buffer
  coordinates, the record loop (GsubCtxRec.lean), the final `move_to(end)` — against `Spec.Subst.applyRecords` on the
  sequence positions `out_len, out_len + 1, …, out_len + n`.
-/
import RbModel.Lemmas.GsubCtxRec

namespace RbModel.Gsub
open RbModel RbModel.Buf RbModel.Mem RbModel.Spec.Subst

theorem range'_getLast (o n : Nat) : (List.range' o (n + 1)).getLast? = some (o + n) := by
  rw [List.getLast?_eq_getElem?]
  simp only [List.length_range', Nat.add_sub_cancel]
  rw [List.getElem?_range' (by omega)]
  simp

/-- **`apply_lookup` on a match of `n + 1` consecutive glyphs at the current position = `Spec.Subst.applyRecords`** on the
    projected string with the positions shifted by `out_len - idx`; afterwards the cursor stands behind the (grown) match. -/
theorem applyLookup_sim (hg : Gen.Buf.ensureGrowOnly = true) (hr : Gen.Buf.moveToRewindReversed = true) (m : Nat) (c : Ctx)
    (n : Nat) (P : List Nat) (recs : List Rec) (gs : List G) (x : Info) (R : List Info) (Gr : Nat)
    (hinv : Inv c.buf) (hsu : c.buf.successful = true) (hin : inP c.buf = x :: R) (hn : n ≤ R.length)
    (hrel : RelF (outP c.buf ++ inP c.buf) gs) (hglyph : ∀ y ∈ outP c.buf ++ inP c.buf, CtxG y)
    (hP : n + 1 ≤ P.length) (hPj : ∀ j, j ≤ n → P[j]? = some (c.buf.idx + j))
    (hlm : c.lookupMask < 2 ^ 32) (hlmf : c.lookupMask &&& (U32MAX - Flag.DEFINED) = c.lookupMask) (hrnd : c.random = false)
    (hnest : ∀ r ∈ recs, ∀ l, c.font.lookups[r.2]? = some l → NestedSts Gr l.subtables)
    (hbud : c.buf.outLen + (inP c.buf).length + recs.length * Gr ≤ c.buf.maxLen)
    (hctx : n + 1 + recs.length * Gr ≤ MAX_CONTEXT_LENGTH) (hops : (recs.length : Int) ≤ c.buf.maxOps) :
    ∃ b', applyLookup (recurseAt (m + 1)) c n P (c.buf.idx + n + 1) recs = .ok { c with buf := b' } ∧ Inv b' ∧
      b'.successful = true ∧
      RelF (outP b' ++ inP b') (applyRecords c.font c.lookupMask recs gs (List.range' c.buf.outLen (n + 1))).1 ∧
      b'.outLen + gs.length = c.buf.outLen + n + 1 + (applyRecords c.font c.lookupMask recs gs (List.range' c.buf.outLen (n + 1))).1.length ∧
      (applyRecords c.font c.lookupMask recs gs (List.range' c.buf.outLen (n + 1))).2.getLast? = some (b'.outLen - 1) ∧
      0 < b'.outLen ∧ inP b' = R.drop n ∧ (∀ y ∈ outP b' ++ inP b', CtxG y) ∧ b'.maxLen = c.buf.maxLen ∧
      b'.flags = c.buf.flags ∧
      b'.outLen + (inP b').length ≤ c.buf.outLen + (inP c.buf).length + recs.length * Gr ∧
      c.buf.maxOps - (recs.length : Int) ≤ b'.maxOps ∧ c.buf.outLen + n + 1 ≤ b'.outLen := by
  have hol := outP_length c.buf hinv
  have hLl : (outP c.buf ++ inP c.buf).length = c.buf.outLen + (R.length + 1) := by rw [hin]; simp [hol]
  have hgl : gs.length = c.buf.outLen + (R.length + 1) := by rw [← hrel.length]; exact hLl
  generalize hPm : (P.mapIdx fun j (p : Nat) => if j < n + 1 then (Int.ofNat p + ((c.buf.outLen : Int) - (c.buf.idx : Int))).toNat else p) = P1
  have hP1l : P1.length = P.length := by rw [← hPm]; simp
  have hP1t : P1.take (n + 1) = List.range' c.buf.outLen (n + 1) := by
    apply List.ext_getElem?
    intro q
    rw [List.getElem?_take, ← hPm, List.getElem?_mapIdx]
    by_cases hq : q < n + 1
    · simp only [hq, if_true]
      rw [hPj q (by omega), List.getElem?_range' hq]
      simp only [Option.map_some, Int.ofNat_eq_natCast, Nat.one_mul]
      congr 1
      have := hinv.idx_le
      omega
    · simp only [hq, if_false]
      symm; apply List.getElem?_eq_none; simp; omega
  have hst : RecSt c gs (List.range' c.buf.outLen (n + 1)) P1 (n + 1) (c.buf.outLen + n + 1) (R.drop n) := by
    refine ⟨hinv, hsu, hrel, by simp, by omega, hP1t, ?_, by omega, ?_, by omega, ?_, hglyph⟩
    · rw [range'_getLast]; congr 1
    · intro p hp
      have := List.mem_range'.1 hp
      omega
    · rw [hin, List.drop_append, hol, List.drop_eq_nil_of_le (by rw [hol]; omega), List.nil_append,
        show c.buf.outLen + n + 1 - c.buf.outLen = n + 1 by omega]
      rfl
  obtain ⟨b1, positions', count', endv', hrun, hst', hml', hfl', hacc, htl, hmo1, hee1⟩ :=
    recLoop_sim hg hr m c.font c.lookupMask Gr hlm hlmf (R.drop n) recs c gs _ P1 (n + 1) (c.buf.outLen + n + 1) hst rfl rfl hrnd
      hnest hbud hctx hops
  generalize hres : applyRecords c.font c.lookupMask recs gs (List.range' c.buf.outLen (n + 1)) = res at *
  -- the final `move_to(end)`
  have htot1 : total b1 = res.1.length := by
    rw [total_parts b1 hst'.inv]; exact hst'.rel.length
  have hend1 : endv' ≤ total b1 := by rw [htot1]; exact hst'.endle
  have htl1 : total b1 ≤ b1.maxLen := by
    have h1 : total b1 = b1.outLen + (inP b1).length := by unfold total; rw [inP_length b1 hst'.inv]
    rw [h1, hml']; omega
  obtain ⟨b2, hmv, hinv2, hol2, hseq2, hsu2, hml2, hmo2, hfl2⟩ :=
    moveTo_parts b1 endv' hst'.inv hend1 hg hr hst'.succ htl1
  obtain ⟨_, hi2⟩ := parts_split b2 hinv2 _ hseq2
  have hin2 : inP b2 = R.drop n := by
    rw [hi2, hol2]; exact hst'.tail
  refine ⟨b2, ?_, hinv2, by rw [hsu2]; exact hst'.succ, by rw [hseq2]; exact hst'.rel, by rw [hol2]; omega,
    by rw [hol2]; exact hst'.last, by rw [hol2]; exact hst'.epos, hin2, by rw [hseq2]; exact hst'.glyph,
    by rw [hml2, hml'], by rw [hfl2, hfl'], ?_, by rw [hmo2]; exact hmo1, by rw [hol2]; exact hee1⟩
  · have hnr : ¬ n + 1 > P.length := by omega
    have hend0 : ((c.buf.outLen : Int) + ((c.buf.idx + n + 1 : Nat) : Int) - (c.buf.idx : Int)) = ((c.buf.outLen + n + 1 : Nat) : Int) := by
      omega
    unfold applyLookup
    simp only [hnr, if_false, hinv.have_out, if_true, hend0, hPm, bind, Except.bind, hrun, Int.toNat_natCast, hmv, pure, Except.pure]
  · have h1 : total b2 = b2.outLen + (inP b2).length := by unfold total; rw [inP_length b2 hinv2]
    have h2 : total b2 = total b1 := by rw [total_parts b2 hinv2, total_parts b1 hst'.inv, hseq2]
    have h3 : total b1 = b1.outLen + (inP b1).length := by unfold total; rw [inP_length b1 hst'.inv]
    omega

end RbModel.Gsub
