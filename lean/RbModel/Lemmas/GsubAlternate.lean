/-
  Alternate substitution (GSUB type 3) as an instance of the one-for-one scheme of GsubPos, and single substitution again.
-/
import RbModel.Lemmas.GsubPos

namespace RbModel.Gsub
open RbModel RbModel.Buf RbModel.Mem

def Subtable.isAlternate : Subtable → Bool
  | .alternate .. => true
  | _ => false

/-- the feature value a mask carries for a lookup mask (`(lookup_mask & mask) >> trailing_zeros(lookup_mask)`) -/
def altOfM (lm mask : Nat) : Nat := (lm &&& mask) >>> (applySubtable.tz lm 32 % 32)
def altOf (lm : Nat) (x : Info) : Nat := altOfM lm x.mask

/-- the alternate the first applicable alternate-substitution subtable gives for glyph id `gid` carrying `mask` -/
def altSubstGM (lm : Nat) : List Subtable → Nat → Nat → Option Nat
  | [], _, _ => none
  | .alternate cov alts :: rest, gid, mask =>
      match cov.index (gid % 65536) with
      | none => altSubstGM lm rest gid mask
      | some i => match alts[i]? with
        | none => altSubstGM lm rest gid mask
        | some set =>
          if set.isEmpty then altSubstGM lm rest gid mask
          else if altOfM lm mask ≥ 65536 || altOfM lm mask == 0 then altSubstGM lm rest gid mask
          else match set[altOfM lm mask - 1]? with
            | none => altSubstGM lm rest gid mask
            | some s => some s
  | _ :: rest, gid, mask => altSubstGM lm rest gid mask

def altSubst? (lm : Nat) (sts : List Subtable) (x : Info) : Option Nat := altSubstGM lm sts x.gid x.mask

/-- `SubstLookup::apply` of a lookup made of alternate-substitution subtables, outside the `rand` feature -/
theorem applySubtables_alternate (recurse : Ctx → Nat → M (Ctx × Bool)) (full : Bool) (c : Ctx)
    (sts : List Subtable) (hall : sts.all Subtable.isAlternate = true) (cur : Info) (hrnd : c.random = false)
    (hcur : c.buf.info[c.buf.idx]? = some cur) :
    applySubtables recurse full c sts =
      match altSubst? c.lookupMask sts cur with
      | some s => (ctxReplaceGlyph c s).map (fun c' => (c', true))
      | none => .ok (c, false) := by
  have hget : Mem.get c.buf.info c.buf.idx = .ok cur := by unfold Mem.get; rw [hcur]; rfl
  induction sts with
  | nil => rfl
  | cons st rest ih =>
    simp only [List.all_cons, Bool.and_eq_true] at hall
    have ih' : applySubtables recurse full c rest = match altSubstGM c.lookupMask rest cur.gid cur.mask with
        | some s => (ctxReplaceGlyph c s).map (fun c' => (c', true))
        | none => .ok (c, false) := ih hall.2
    cases st with
    | alternate cov alts =>
      simp only [applySubtables, applySubtable, bind, Except.bind, hget, altSubst?, altSubstGM]
      cases hi : cov.index (cur.gid % 65536) with
      | none => simp only [pure, Except.pure]; exact ih'
      | some i =>
        simp only
        cases hs : alts[i]? with
        | none => simp only [pure, Except.pure]; exact ih'
        | some set =>
          simp only
          by_cases he : set.isEmpty = true
          · simp only [he, if_true, pure, Except.pure]; exact ih'
          · simp only [he, Bool.false_eq_true, if_false, hrnd, Bool.and_false, pure, Except.pure]
            have halt : (c.lookupMask &&& cur.mask) >>> (applySubtable.tz c.lookupMask 32 % 32) = altOfM c.lookupMask cur.mask := rfl
            simp only [halt]
            by_cases hz : (altOfM c.lookupMask cur.mask ≥ 65536 || altOfM c.lookupMask cur.mask == 0) = true
            · simp only [hz, if_true]; exact ih'
            · simp only [hz, Bool.false_eq_true, if_false]
              cases hx : set[altOfM c.lookupMask cur.mask - 1]? with
              | none => simp only; exact ih'
              | some s =>
                simp only
                generalize ctxReplaceGlyph c s = res
                cases res with
                | error e => rfl
                | ok c' => rfl
    | single1 _ _ => simp [Subtable.isAlternate] at hall
    | single2 _ _ => simp [Subtable.isAlternate] at hall
    | multiple _ _ => simp [Subtable.isAlternate] at hall
    | ligature _ _ => simp [Subtable.isAlternate] at hall
    | context1 _ _ => simp [Subtable.isAlternate] at hall
    | context2 _ _ _ => simp [Subtable.isAlternate] at hall
    | context3 _ _ => simp [Subtable.isAlternate] at hall
    | chain1 _ _ => simp [Subtable.isAlternate] at hall
    | chain2 _ _ _ _ _ => simp [Subtable.isAlternate] at hall
    | chain3 _ _ _ _ => simp [Subtable.isAlternate] at hall
    | reverse _ _ _ _ => simp [Subtable.isAlternate] at hall

theorem actsAs_alternate (l : Lookup) (hall : l.subtables.all Subtable.isAlternate = true) (lm : Nat) :
    ActsAs l lm (altSubst? lm l.subtables) := by
  intro c cur hlm hrnd hcur
  rw [← hlm]
  exact applySubtables_alternate _ _ c l.subtables hall cur hrnd hcur

theorem actsAs_single (l : Lookup) (hall : l.subtables.all Subtable.isSingle = true) (lm : Nat) :
    ActsAs l lm (fun x => singleSubst? l.subtables (x.gid % 65536)) := by
  intro c cur _ _ hcur
  exact applySubtables_single _ _ c l.subtables hall cur hcur

theorem alternate_not_reverse (l : Lookup) (hall : l.subtables.all Subtable.isAlternate = true) : l.reverse = false := by
  unfold Lookup.reverse
  cases hs : l.subtables with
  | nil => simp
  | cons st rest =>
    rw [hs] at hall
    simp only [List.all_cons, Bool.and_eq_true] at hall
    have : st.isReverse = false := by
      cases st <;> simp [Subtable.isAlternate] at hall <;> rfl
    simp [this]

end RbModel.Gsub
