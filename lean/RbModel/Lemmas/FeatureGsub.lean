/-
  Lemmas for the feature-range theorems about the lookup drivers (Props/C14.lean):
  * the glyph-flag routines of the buffer change mask bits inside the flag mask only (`SameOn M`: everything except the
    mask, and the mask on the bits `M`, is kept, for every `M` disjoint from the flag written);
  * a reverse chaining single substitution subtable changes, apart from such flag bits, only the current glyph;
  * hence `apply_backward` changes the glyph id of a position only if that glyph's mask meets the lookup mask.
-/
import RbModel.FeatureGsub
import RbModel.Lemmas.Cluster

namespace RbModel.Buf
open RbModel.Mem

/-- a glyph with its mask cut down to the bits `M` -/
def keepOn (M : Nat) (x : Info) : Info := { x with mask := x.mask &&& M }

/-- `l'` differs from `l` only in mask bits outside `M` -/
def SameOn (M : Nat) (l l' : List Info) : Prop := l'.map (keepOn M) = l.map (keepOn M)

theorem SameOn.refl (M : Nat) (l : List Info) : SameOn M l l := rfl
theorem SameOn.trans {M : Nat} {a b c : List Info} (h1 : SameOn M a b) (h2 : SameOn M b c) : SameOn M a c := by
  unfold SameOn at *; rw [h2, h1]

theorem SameOn.length {M : Nat} {l l' : List Info} (h : SameOn M l l') : l'.length = l.length := by
  have := congrArg List.length h
  simpa using this

theorem SameOn.get {M : Nat} {l l' : List Info} (h : SameOn M l l') (j : Nat) :
    (l'[j]?).map (keepOn M) = (l[j]?).map (keepOn M) := by
  have h1 : (l'.map (keepOn M))[j]? = (l.map (keepOn M))[j]? := by rw [h]
  rwa [List.getElem?_map, List.getElem?_map] at h1

theorem or_and_disjoint (a f M : Nat) (hf : f &&& M = 0) : (a ||| f) &&& M = a &&& M := by
  rw [Nat.and_or_distrib_right, hf, Nat.or_zero]

theorem SameOn.set_or (M : Nat) (l : List Info) (i : Nat) (x : Info) (f : Nat) (h : l[i]? = some x) (hf : f &&& M = 0) :
    SameOn M l (l.set i { x with mask := x.mask ||| f }) := by
  unfold SameOn
  rw [List.map_set]
  apply List.ext_getElem?
  intro q
  by_cases hq : i = q
  · subst hq
    have hi : i < l.length := (List.getElem?_eq_some_iff.1 h).1
    rw [List.getElem?_set_self (by simpa using hi), List.getElem?_map, h]
    simp only [keepOn, Option.map_some, or_and_disjoint _ _ _ hf]
  · rw [List.getElem?_set_ne hq]

theorem orMaskRange_sameOn (M mask : Nat) (hf : mask &&& M = 0) :
    ∀ (k i : Nat) (l r : List Info), orMaskRange l mask i k = .ok r → SameOn M l r := by
  intro k
  induction k with
  | zero => intro i l r h; cases h; exact SameOn.refl _ _
  | succ k ih =>
    intro i l r h
    simp only [orMaskRange] at h
    cases hg : get l i with
    | error e => rw [hg] at h; cases h
    | ok x =>
      rw [hg] at h
      exact (SameOn.set_or M l i x _ (get_eq_ok hg) hf).trans (ih _ _ _ h)

theorem flagAllNe_sameOn (M cluster mask : Nat) (hf : mask &&& M = 0) :
    ∀ (k i : Nat) (l : List Info) (ch : Bool) (r : List Info × Bool),
    flagAllNe l cluster mask i k ch = .ok r → SameOn M l r.1 := by
  intro k
  induction k with
  | zero => intro i l ch r h; cases h; exact SameOn.refl _ _
  | succ k ih =>
    intro i l ch r h
    simp only [flagAllNe] at h
    cases hg : get l i with
    | error e => rw [hg] at h; cases h
    | ok x =>
      rw [hg] at h
      simp only [ok_bind] at h
      split at h
      · exact (SameOn.set_or M l i x _ (get_eq_ok hg) hf).trans (ih _ _ _ _ h)
      · exact ih _ _ _ _ h

theorem flagFromEnd_sameOn (M cluster cf mask start : Nat) (hf : mask &&& M = 0) :
    ∀ (i : Nat) (l : List Info) (ch : Bool) (r : List Info × Bool),
    flagFromEnd l cluster cf mask start i ch = .ok r → SameOn M l r.1 := by
  intro i
  induction i with
  | zero => intro l ch r h; cases h; exact SameOn.refl _ _
  | succ i ih =>
    intro l ch r h
    simp only [flagFromEnd] at h
    split at h
    · cases hg : get l i with
      | error e => rw [hg] at h; cases h
      | ok x =>
        rw [hg] at h
        simp only [ok_bind] at h
        split at h
        · split at h
          · exact (SameOn.set_or M l i x _ (get_eq_ok hg) hf).trans (ih _ _ _ h)
          · exact ih _ _ _ h
        · cases h; exact SameOn.refl _ _
    · cases h; exact SameOn.refl _ _

theorem flagFromStart_sameOn (M cluster cl mask : Nat) (hf : mask &&& M = 0) :
    ∀ (k i : Nat) (l : List Info) (ch : Bool) (r : List Info × Bool),
    flagFromStart l cluster cl mask i k ch = .ok r → SameOn M l r.1 := by
  intro k
  induction k with
  | zero => intro i l ch r h; cases h; exact SameOn.refl _ _
  | succ k ih =>
    intro i l ch r h
    simp only [flagFromStart] at h
    cases hg : get l i with
    | error e => rw [hg] at h; cases h
    | ok x =>
      rw [hg] at h
      simp only [ok_bind] at h
      split at h
      · split at h
        · exact (SameOn.set_or M l i x _ (get_eq_ok hg) hf).trans (ih _ _ _ _ h)
        · exact ih _ _ _ _ h
      · cases h; exact SameOn.refl _ _

theorem infosSetGlyphFlags_sameOn (M level : Nat) (l : List Info) (start stop cluster mask : Nat) (hf : mask &&& M = 0)
    (r : List Info × Bool) (h : infosSetGlyphFlags level l start stop cluster mask = .ok r) : SameOn M l r.1 := by
  unfold infosSetGlyphFlags at h
  split at h
  · cases h; exact SameOn.refl _ _
  · cases hg : get l start with
    | error e => simp [hg, bind, Except.bind] at h
    | ok a =>
      simp only [hg, ok_bind] at h
      split at h
      · cases h
      · cases hz : get l (stop - 1) with
        | error e => simp [hz, bind, Except.bind] at h
        | ok z =>
          simp only [hz, ok_bind] at h
          split at h
          · exact flagAllNe_sameOn M _ _ hf _ _ _ _ _ h
          · split at h
            · exact flagFromEnd_sameOn M _ _ _ _ hf _ _ _ _ h
            · exact flagFromStart_sameOn M _ _ _ hf _ _ _ _ _ h

/-- `b'` differs from `b` in `scratch_flags` and in mask bits outside `M` of the two Vecs only -/
def FlagsOnlyOn (M : Nat) (b b' : Buf) : Prop :=
  b' = { b with info := b'.info, out := b'.out, scratch := b'.scratch } ∧ SameOn M b.info b'.info ∧ SameOn M b.out b'.out

theorem FlagsOnlyOn.refl (M : Nat) (b : Buf) : FlagsOnlyOn M b b := ⟨rfl, SameOn.refl _ _, SameOn.refl _ _⟩

theorem FlagsOnlyOn.trans {M : Nat} {a b c : Buf} (h1 : FlagsOnlyOn M a b) (h2 : FlagsOnlyOn M b c) : FlagsOnlyOn M a c := by
  obtain ⟨e1, i1, o1⟩ := h1
  obtain ⟨e2, i2, o2⟩ := h2
  refine ⟨?_, i1.trans i2, o1.trans o2⟩
  rw [e2, e1]

theorem FlagsOnlyOn.scratch (M : Nat) (b : Buf) (s : Nat) : FlagsOnlyOn M b { b with scratch := s } :=
  ⟨rfl, SameOn.refl _ _, SameOn.refl _ _⟩

theorem FlagsOnlyOn.addScratch (M : Nat) (b : Buf) (ch : Bool) : FlagsOnlyOn M b (b.addScratch ch) := by
  unfold Buf.addScratch; split
  · exact FlagsOnlyOn.scratch M b _
  · exact FlagsOnlyOn.refl M b

theorem FlagsOnlyOn.info (M : Nat) (b : Buf) (l : List Info) (h : SameOn M b.info l) : FlagsOnlyOn M b { b with info := l } :=
  ⟨rfl, h, SameOn.refl _ _⟩

theorem FlagsOnlyOn.scratch_info (M : Nat) (b : Buf) (s : Nat) (l : List Info) (h : SameOn M b.info l) :
    FlagsOnlyOn M b { b with scratch := s, info := l } := ⟨rfl, h, SameOn.refl _ _⟩

theorem FlagsOnlyOn.setOutArr (M : Nat) (b : Buf) (o : List Info) (h : SameOn M b.outArr o) : FlagsOnlyOn M b (b.setOutArr o) := by
  unfold Buf.setOutArr outArr at *
  split
  · rename_i hs
    simp only [hs, if_true] at h ⊢
    exact ⟨by simp [hs], SameOn.refl _ _, h⟩
  · rename_i hs
    simp only [hs] at h ⊢
    exact ⟨by simp [hs], h, SameOn.refl _ _⟩

theorem setGlyphFlags_flagsOnlyOn (M : Nat) (b : Buf) (mask start : Nat) (stop : Option Nat) (interior fromOut : Bool) (b' : Buf)
    (hf : mask &&& M = 0) (h : b.setGlyphFlags mask start stop interior fromOut = .ok b') : FlagsOnlyOn M b b' := by
  unfold setGlyphFlags at h
  simp only at h
  split at h
  · cases h; exact FlagsOnlyOn.refl M b
  · split at h
    · split at h
      · cases ho : orMaskRange b.info mask start (min (stop.getD b.len) b.len - start) with
        | error e => simp [ho, bind, Except.bind] at h
        | ok info =>
          simp only [ho, ok_bind] at h
          cases h
          exact FlagsOnlyOn.scratch_info M b _ info (orMaskRange_sameOn M _ hf _ _ _ _ ho)
      · cases hc : findMinCluster b.level b.info start (min (stop.getD b.len) b.len) U32MAX with
        | error e => simp [hc, bind, Except.bind] at h
        | ok cluster =>
          simp only [hc, ok_bind] at h
          cases hi : infosSetGlyphFlags b.level b.info start (min (stop.getD b.len) b.len) cluster mask with
          | error e => simp [hi, bind, Except.bind] at h
          | ok r =>
            obtain ⟨info, ch⟩ := r
            simp only [hi, ok_bind] at h
            cases h
            exact (FlagsOnlyOn.scratch_info M b _ info (infosSetGlyphFlags_sameOn M _ _ _ _ _ _ hf _ hi)).trans
              (FlagsOnlyOn.addScratch M _ _)
    · split at h
      · cases h
      · split at h
        · cases h
        · split at h
          · generalize hb1 : ({ b with scratch := b.scratch ||| SCRATCH_HAS_GLYPH_FLAGS } : Buf) = b1 at h
            have hf1 : FlagsOnlyOn M b b1 := by rw [← hb1]; exact FlagsOnlyOn.scratch M b _
            obtain ⟨o, ho, h⟩ := bind_eq_ok h
            have hf2 : FlagsOnlyOn M b1 (b1.setOutArr o) := FlagsOnlyOn.setOutArr M b1 o (orMaskRange_sameOn M _ hf _ _ _ _ ho)
            obtain ⟨info, hi, h⟩ := bind_eq_ok h
            cases h
            exact (hf1.trans hf2).trans (FlagsOnlyOn.info M _ info (orMaskRange_sameOn M _ hf _ _ _ _ hi))
          · generalize hb1 : ({ b with scratch := b.scratch ||| SCRATCH_HAS_GLYPH_FLAGS } : Buf) = b1 at h
            have hf1 : FlagsOnlyOn M b b1 := by rw [← hb1]; exact FlagsOnlyOn.scratch M b _
            obtain ⟨c1, _, h⟩ := bind_eq_ok h
            obtain ⟨c2, _, h⟩ := bind_eq_ok h
            obtain ⟨r, ho, h⟩ := bind_eq_ok h
            have hf2 : FlagsOnlyOn M b1 ((b1.setOutArr r.1).addScratch r.2) :=
              (FlagsOnlyOn.setOutArr M b1 r.1 (infosSetGlyphFlags_sameOn M _ _ _ _ _ _ hf _ ho)).trans (FlagsOnlyOn.addScratch M _ _)
            obtain ⟨r2, hi, h⟩ := bind_eq_ok h
            cases h
            exact ((hf1.trans hf2).trans (FlagsOnlyOn.info M _ r2.1 (infosSetGlyphFlags_sameOn M _ _ _ _ _ _ hf _ hi))).trans
              (FlagsOnlyOn.addScratch M _ _)

end RbModel.Buf

namespace RbModel.Gsub
open RbModel RbModel.Buf RbModel.Mem

theorem flag_break_disjoint {M : Nat} (hM : Flag.DEFINED &&& M = 0) : (Flag.UNSAFE_TO_BREAK ||| Flag.UNSAFE_TO_CONCAT) &&& M = 0 := by
  have h : (Flag.UNSAFE_TO_BREAK ||| Flag.UNSAFE_TO_CONCAT) = (Flag.UNSAFE_TO_BREAK ||| Flag.UNSAFE_TO_CONCAT) &&& Flag.DEFINED := by decide
  rw [h, Nat.and_assoc, hM, Nat.and_zero]

theorem flag_concat_disjoint {M : Nat} (hM : Flag.DEFINED &&& M = 0) : Flag.UNSAFE_TO_CONCAT &&& M = 0 := by
  have h : Flag.UNSAFE_TO_CONCAT = Flag.UNSAFE_TO_CONCAT &&& Flag.DEFINED := by decide
  rw [h, Nat.and_assoc, hM, Nat.and_zero]

theorem unsafeToBreakFromOut_on {M : Nat} (hM : Flag.DEFINED &&& M = 0) {b b' : Buf} {s : Nat} {e : Option Nat}
    (h : b.unsafeToBreakFromOut s e = .ok b') : FlagsOnlyOn M b b' :=
  setGlyphFlags_flagsOnlyOn M _ _ _ _ _ _ _ (flag_break_disjoint hM) h

theorem unsafeToConcatFromOut_on {M : Nat} (hM : Flag.DEFINED &&& M = 0) {b b' : Buf} {s : Nat} {e : Option Nat}
    (h : b.unsafeToConcatFromOut s e = .ok b') : FlagsOnlyOn M b b' := by
  unfold unsafeToConcatFromOut at h
  split at h
  · cases h; exact FlagsOnlyOn.refl M b
  · exact setGlyphFlags_flagsOnlyOn M _ _ _ _ _ _ _ (flag_concat_disjoint hM) h

/-- what one application of a lookup at the current position may change: mask bits outside `M` anywhere (glyph flags),
    everything of the glyph at the current position, `scratch_flags`; nothing else of the buffer or of the context -/
def StepRel (M : Nat) (c c' : Ctx) : Prop :=
  c' = { c with buf := c'.buf } ∧
  c'.buf = { c.buf with info := c'.buf.info, out := c'.buf.out, scratch := c'.buf.scratch } ∧
  c'.buf.info.length = c.buf.info.length ∧
  ∀ j, j ≠ c.buf.idx → (c'.buf.info[j]?).map (keepOn M) = (c.buf.info[j]?).map (keepOn M)

theorem StepRel.refl (M : Nat) (c : Ctx) : StepRel M c c := ⟨rfl, rfl, rfl, fun _ _ => rfl⟩

theorem StepRel.idx {M : Nat} {c c' : Ctx} (h : StepRel M c c') : c'.buf.idx = c.buf.idx := by
  have := congrArg Buf.idx h.2.1
  simpa using this

theorem StepRel.trans {M : Nat} {a b c : Ctx} (h1 : StepRel M a b) (h2 : StepRel M b c) : StepRel M a c := by
  have hi := h1.idx
  obtain ⟨e1, f1, l1, g1⟩ := h1
  obtain ⟨e2, f2, l2, g2⟩ := h2
  refine ⟨?_, ?_, l2.trans l1, ?_⟩
  · rw [e2, e1]
  · rw [f2, f1]
  · intro j hj
    rw [g2 j (by rw [hi]; exact hj), g1 j hj]

theorem StepRel.of_flags {M : Nat} (c : Ctx) (b' : Buf) (h : FlagsOnlyOn M c.buf b') : StepRel M c { c with buf := b' } := by
  obtain ⟨e, hi, _⟩ := h
  refine ⟨rfl, ?_, hi.length, fun j _ => hi.get j⟩
  show b' = _
  rw [e]

theorem StepRel.of_put {M : Nat} (c : Ctx) (info : List Info) (x : Info) (h : put c.buf.info c.buf.idx x = .ok info) :
    StepRel M c { c with buf := { c.buf with info := info } } := by
  unfold Mem.put at h
  split at h
  · cases h
    refine ⟨rfl, rfl, by simp, ?_⟩
    intro j hj
    show ((c.buf.info.set c.buf.idx x)[j]?).map _ = _
    rw [List.getElem?_set_ne (Ne.symm hj)]
  · cases h

theorem setGlyphClass_step (M : Nat) (c c' : Ctx) (g k : Nat) (l m : Bool) (h : setGlyphClass c g k l m = .ok c') :
    StepRel M c c' := by
  unfold setGlyphClass at h
  obtain ⟨cur, _, h⟩ := bind_eq_ok h
  dsimp only at h
  split at h <;> split at h <;>
    (obtain ⟨info, hp, h⟩ := bind_eq_ok h
     cases h
     exact StepRel.of_put c info _ hp)


theorem reverse_apply_tail (M : Nat) (hM : Flag.DEFINED &&& M = 0) (c : Ctx) (s a : Nat) (e : Option Nat) (r : Ctx × Bool)
    (h : (do let b ← c.buf.unsafeToBreakFromOut a e
             let c ← setGlyphClass { c with buf := b } s 0 false false
             let cur ← get c.buf.info c.buf.idx
             let info ← put c.buf.info c.buf.idx { cur with gid := s }
             pure (({ c with buf := { c.buf with info := info } } : Ctx), true)) = .ok r) : StepRel M c r.1 := by
  obtain ⟨b, hb, h⟩ := bind_eq_ok h
  obtain ⟨c2, hc2, h⟩ := bind_eq_ok h
  obtain ⟨cur, _, h⟩ := bind_eq_ok h
  obtain ⟨info, hp, h⟩ := bind_eq_ok h
  cases h
  exact ((StepRel.of_flags c b (unsafeToBreakFromOut_on hM hb)).trans (setGlyphClass_step M _ _ _ _ _ _ hc2)).trans
    (StepRel.of_put c2 info _ hp)

theorem reverse_concat_tail (M : Nat) (hM : Flag.DEFINED &&& M = 0) (c : Ctx) (a : Nat) (e : Option Nat) (r : Ctx × Bool)
    (h : (do let b ← c.buf.unsafeToConcatFromOut a e
             pure (({ c with buf := b } : Ctx), false)) = .ok r) : StepRel M c r.1 := by
  obtain ⟨b, hb, h⟩ := bind_eq_ok h
  cases h
  exact StepRel.of_flags c b (unsafeToConcatFromOut_on hM hb)

/-- a reverse chaining single substitution subtable at the current position -/
theorem applySubtable_reverse_step (M : Nat) (hM : Flag.DEFINED &&& M = 0) (recurse : Ctx → Nat → RbModel.M (Ctx × Bool)) (nf : Bool) (c : Ctx)
    (cov : Cov) (back ahead : List Cov) (subst : List Nat) (r : Ctx × Bool)
    (h : applySubtable recurse nf c (.reverse cov back ahead subst) = .ok r) : StepRel M c r.1 := by
  simp only [applySubtable] at h
  obtain ⟨cur, _, h⟩ := bind_eq_ok h
  split at h
  · cases h; exact StepRel.refl M c
  · split at h
    · cases h; exact StepRel.refl M c
    · split at h
      · cases h; exact StepRel.refl M c
      · obtain ⟨x, _, h⟩ := bind_eq_ok h
        split at h
        · obtain ⟨x1, _, h⟩ := bind_eq_ok h
          split at h
          · exact reverse_apply_tail M hM c _ _ _ r h
          · exact reverse_concat_tail M hM c _ _ r h
        · obtain ⟨x1, hx1, h⟩ := bind_eq_ok h
          split at h
          · exact reverse_apply_tail M hM c _ _ _ r h
          · exact reverse_concat_tail M hM c _ _ r h

theorem applySubtables_reverse_step (M : Nat) (hM : Flag.DEFINED &&& M = 0) (recurse : Ctx → Nat → RbModel.M (Ctx × Bool)) (nf : Bool) :
    ∀ (sts : List Subtable) (c : Ctx) (r : Ctx × Bool), sts.all Subtable.isReverse = true →
      applySubtables recurse nf c sts = .ok r → StepRel M c r.1 := by
  intro sts
  induction sts with
  | nil => intro c r _ h; simp only [applySubtables] at h; cases h; exact StepRel.refl M c
  | cons st rest ih =>
    intro c r hall h
    simp only [List.all_cons, Bool.and_eq_true] at hall
    simp only [applySubtables] at h
    obtain ⟨r1, h1, h⟩ := bind_eq_ok h
    have hs : StepRel M c r1.1 := by
      cases st with
      | reverse cov back ahead subst => exact applySubtable_reverse_step M hM recurse nf c cov back ahead subst r1 h1
      | _ => simp [Subtable.isReverse] at hall
    obtain ⟨c1, ok1⟩ := r1
    simp only at h hs
    split at h
    · cases h; exact hs
    · exact hs.trans (ih c1 r hall.2 h)


theorem keepOn_gid {K : Nat} {x y : Info} (h : keepOn K y = keepOn K x) : y.gid = x.gid ∧ y.mask &&& K = x.mask &&& K := by
  have h1 := congrArg Info.gid h
  have h2 := congrArg Info.mask h
  exact ⟨by simpa [keepOn] using h1, by simpa [keepOn] using h2⟩

/-- `apply_backward` over a lookup made of reverse chaining subtables: the buffer keeps its length, and the glyph id of a
    position changes only if the mask of the glyph that stood there at the start meets the lookup mask `K`
    (`K` avoids the glyph-flag bits, which the matching code writes into the masks as it goes). -/
theorem applyBackward_respects_mask (K : Nat) (hK : Flag.DEFINED &&& K = 0) (l : Lookup)
    (hrev : l.subtables.all Subtable.isReverse = true) :
    ∀ (fuel : Nat) (c c' : Ctx), c.lookupMask = K → applyBackward l fuel c = .ok c' →
      c'.buf.info.length = c.buf.info.length ∧ c'.buf.len = c.buf.len ∧
      ∀ (j : Nat) (x x' : Info), c.buf.info[j]? = some x → c'.buf.info[j]? = some x' → x'.gid ≠ x.gid → x.mask &&& K ≠ 0 := by
  intro fuel
  induction fuel with
  | zero =>
    intro c c' _ h
    simp only [applyBackward] at h
    cases h
    refine ⟨rfl, rfl, ?_⟩
    intro j x x' hx hx' hne
    rw [hx] at hx'; cases hx'; exact absurd rfl hne
  | succ fuel ih =>
    intro c c' hmask h
    simp only [applyBackward] at h
    obtain ⟨cur, hcur, h⟩ := bind_eq_ok h
    have hcur' : c.buf.info[c.buf.idx]? = some cur := get_eq_ok hcur
    -- the remaining iterations after the step at the current position led to `c1`
    have key : ∀ c1 : Ctx, StepRel K c c1 → (cur.mask &&& K = 0 → c1 = c) →
        (if (c1.buf.idx == 0) = true then pure c1
         else applyBackward l fuel { c1 with buf := { c1.buf with idx := c1.buf.idx - 1 } }) = Except.ok c' →
        c'.buf.info.length = c.buf.info.length ∧ c'.buf.len = c.buf.len ∧
        ∀ (j : Nat) (x x' : Info), c.buf.info[j]? = some x → c'.buf.info[j]? = some x' → x'.gid ≠ x.gid → x.mask &&& K ≠ 0 := by
      intro c1 hs hoff h
      obtain ⟨e1, f1, l1, g1⟩ := hs
      have hlen1 : c1.buf.len = c.buf.len := by
        have := congrArg Buf.len f1; simpa using this
      have hmask1 : c1.lookupMask = K := by
        have := congrArg Ctx.lookupMask e1; rw [this]; exact hmask
      have hrest : c'.buf.info.length = c1.buf.info.length ∧ c'.buf.len = c1.buf.len ∧
          ∀ (j : Nat) (x x' : Info), c1.buf.info[j]? = some x → c'.buf.info[j]? = some x' → x'.gid ≠ x.gid → x.mask &&& K ≠ 0 := by
        split at h
        · cases h
          refine ⟨rfl, rfl, ?_⟩
          intro j x x' hx hx' hne
          rw [hx] at hx'; cases hx'; exact absurd rfl hne
        · exact ih { c1 with buf := { c1.buf with idx := c1.buf.idx - 1 } } c' hmask1 h
      obtain ⟨l2, n2, g2⟩ := hrest
      refine ⟨l2.trans l1, n2.trans hlen1, ?_⟩
      intro j x x' hx hx' hne
      have hj : j < c1.buf.info.length := by
        rw [l1]; exact (List.getElem?_eq_some_iff.1 hx).1
      obtain ⟨x1, hx1⟩ : ∃ x1, c1.buf.info[j]? = some x1 := ⟨_, List.getElem?_eq_getElem hj⟩
      by_cases hji : j = c.buf.idx
      · subst hji
        rw [hcur'] at hx; cases hx
        by_cases h0 : cur.mask &&& K = 0
        · have := hoff h0
          subst this
          rw [hcur'] at hx1; cases hx1
          exact g2 _ _ _ hcur' hx' hne
        · exact h0
      · have hk := g1 j hji
        rw [hx1, hx] at hk
        simp only [Option.map_some, Option.some.injEq] at hk
        obtain ⟨hg, hm⟩ := keepOn_gid hk
        rw [← hm]
        exact g2 j x1 x' hx1 hx' (by rw [hg]; exact hne)
    split at h
    · rename_i htest
      obtain ⟨r, hr, h⟩ := bind_eq_ok h
      simp only [pure_bind] at h
      refine key r.1 (applySubtables_reverse_step K hK _ _ _ c r hrev hr) ?_ h
      intro h0
      rw [hmask] at htest
      simp [h0] at htest
    · simp only [pure_bind] at h
      exact key c (StepRel.refl K c) (fun _ => rfl) h

end RbModel.Gsub
