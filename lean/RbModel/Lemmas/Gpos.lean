/-
  Helper lemmas for Props/C07.lean (GPOS attachment propagation, cursive, kern).  Core Lean only.
-/
import RbModel.Gpos
import RbModel.Kern

namespace RbModel.Gpos

/-! ### get / put -/

theorem get_ok_iff {p : Array Pos} {i : Nat} {x : Pos} : get p i = .ok x ↔ p[i]? = some x := by
  unfold get; split <;> simp_all

theorem get_err {p : Array Pos} {i : Nat} {e : Err} (h : get p i = .error e) : e = .oob ∧ p.size ≤ i := by
  unfold get at h; split at h
  · cases h
  · rename_i hn; simp at hn; cases h; exact ⟨rfl, hn⟩

theorem get_of_lt {p : Array Pos} {i : Nat} (h : i < p.size) : get p i = .ok p[i] := by
  rw [get_ok_iff]; simp [h]

@[simp] theorem put_size (p : Array Pos) (i : Nat) (v : Pos) : (put p i v).size = p.size := by
  simp [put]

theorem put_get? (p : Array Pos) (i k : Nat) (v : Pos) :
    (put p i v)[k]? = if i = k then (if i < p.size then some v else none) else p[k]? := by
  unfold put
  rw [Array.getElem?_setIfInBounds]

theorem put_get?_ne (p : Array Pos) {i k : Nat} (v : Pos) (h : i ≠ k) : (put p i v)[k]? = p[k]? := by
  rw [put_get?]; simp [h]

theorem put_get?_self (p : Array Pos) {i : Nat} (v : Pos) (h : i < p.size) : (put p i v)[i]? = some v := by
  rw [put_get?]; simp [h]

theorem lt_of_get? {p : Array Pos} {i : Nat} {x : Pos} (h : p[i]? = some x) : i < p.size := by
  by_cases hi : i < p.size
  · exact hi
  · simp [Array.getElem?_eq_none (Nat.le_of_not_lt hi)] at h

/-! ### advance sums -/

/-- pure version of `sumAdv` (out-of-range entries count 0; only used in range) -/
def advSum (p : Array Pos) : Nat → Nat → Int × Int
  | _, 0 => (0, 0)
  | lo, n + 1 =>
    let q := (p[lo]?).getD {}
    let r := advSum p (lo + 1) n
    (q.xa + r.1, q.ya + r.2)

theorem sumAdv_eq (p : Array Pos) (lo n : Nat) (h : lo + n ≤ p.size) :
    sumAdv p lo n = .ok (advSum p lo n) := by
  induction n generalizing lo with
  | zero => rfl
  | succ n ih =>
    have hlo : lo < p.size := by omega
    simp only [sumAdv, advSum]
    rw [get_of_lt hlo, ih (lo + 1) (by omega)]
    simp [hlo, bind, Except.bind]

theorem sumAdv_err {p : Array Pos} {lo n : Nat} {e : Err} (h : sumAdv p lo n = .error e) : ¬ lo + n ≤ p.size := by
  intro hle; rw [sumAdv_eq p lo n hle] at h; cases h

theorem advSum_congr (p o : Array Pos) (lo n : Nat)
    (h : ∀ k, lo ≤ k → k < lo + n → ((p[k]?).getD {}).xa = ((o[k]?).getD {}).xa ∧ ((p[k]?).getD {}).ya = ((o[k]?).getD {}).ya) :
    advSum p lo n = advSum o lo n := by
  induction n generalizing lo with
  | zero => rfl
  | succ n ih =>
    simp only [advSum]
    rw [ih (lo + 1) (fun k h1 h2 => h k (by omega) (by omega))]
    have := h lo (Nat.le_refl _) (by omega)
    rw [this.1, this.2]

theorem advSum_split (p : Array Pos) (lo m n : Nat) :
    advSum p lo (m + n) = ((advSum p lo m).1 + (advSum p (lo + m) n).1, (advSum p lo m).2 + (advSum p (lo + m) n).2) := by
  induction m generalizing lo with
  | zero => simp [advSum]
  | succ m ih =>
    have : m + 1 + n = (m + n) + 1 := by omega
    rw [this]
    simp only [advSum]
    rw [ih (lo + 1)]
    have h2 : lo + 1 + m = lo + (m + 1) := by omega
    rw [h2]
    ext <;> simp <;> omega

/-! ### the termination measure -/


theorem nz_le_size (p : Array Pos) : nz p ≤ p.size := Array.countP_le_size

theorem put_eq_set (p : Array Pos) {i : Nat} (v : Pos) (h : i < p.size) : put p i v = p.set i v h := by
  simp [put, Array.setIfInBounds, h]

theorem nz_put {p : Array Pos} {i : Nat} {qi : Pos} (v : Pos) (h : p[i]? = some qi) :
    nz (put p i v) + (if qi.chain != 0 then 1 else 0) = nz p + (if v.chain != 0 then 1 else 0) := by
  have hi := lt_of_get? h
  have hq : p[i] = qi := by simpa [hi] using h
  rw [put_eq_set p v hi]
  unfold nz
  rw [Array.countP_set hi]
  have := Array.boole_getElem_le_countP (p := fun q : Pos => q.chain != 0) (xs := p) (i := i) (h := hi)
  rw [hq] at this ⊢
  omega


/-! ### attachStep -/


theorem put_self {p : Array Pos} {i : Nat} {qi : Pos} (h : p[i]? = some qi) : put p i qi = p := by
  apply Array.ext_getElem?
  intro k
  rw [put_get?]
  split
  · rename_i hk; subst hk; simp [lt_of_get? h]; simp [lt_of_get? h] at h; exact h.symm
  · rfl

def attachOff (d : Dir) (kind : Nat) (a c : Pos) (sf sb : Int × Int) : Int × Int :=
  if kind = ATTACH_MARK then
    if d.isForward then (a.xo + c.xo - sf.1, a.yo + c.yo - sf.2) else (a.xo + c.xo + sb.1, a.yo + c.yo + sb.2)
  else if kind = ATTACH_CURSIVE then
    if d.isHorizontal then (a.xo, a.yo + c.yo) else (a.xo + c.xo, a.yo)
  else (a.xo, a.yo)

theorem attachStep_spec {d : Dir} {kind : Nat} {p q : Array Pos} {i j : Nat} {qi qj : Pos}
    (hi : p[i]? = some qi) (hj : p[j]? = some qj) (h : attachStep d kind p i j = .ok q) :
    ∃ v, q = put p i v ∧ v.xa = qi.xa ∧ v.ya = qi.ya ∧ v.chain = qi.chain ∧ v.atype = qi.atype ∧
      (v.xo, v.yo) = attachOff d kind qi qj (advSum p j (i - j)) (advSum p (j + 1) (i - j)) ∧
      (kind = ATTACH_MARK → j < i) := by
  have hgi := get_ok_iff.mpr hi
  have hgj := get_ok_iff.mpr hj
  have hisz := lt_of_get? hi
  unfold attachStep at h
  by_cases hk1 : kind = ATTACH_MARK
  · simp only [hk1, if_true, hgi, hgj] at h
    by_cases hji : j < i
    · simp only [hji, not_true_eq_false, if_false] at h
      cases hf : d.isForward
      · simp only [hf, Bool.false_eq_true, if_false] at h
        rw [sumAdv_eq p (j + 1) (i - j) (by omega)] at h
        simp only [Except.ok.injEq] at h
        refine ⟨_, h.symm, rfl, rfl, rfl, rfl, ?_, fun _ => hji⟩
        simp [attachOff, hk1, hf]
      · simp only [hf, if_true] at h
        rw [sumAdv_eq p j (i - j) (by omega)] at h
        simp only [Except.ok.injEq] at h
        refine ⟨_, h.symm, rfl, rfl, rfl, rfl, ?_, fun _ => hji⟩
        simp [attachOff, hk1, hf]
    · simp [hji] at h
  · by_cases hk2 : kind = ATTACH_CURSIVE
    · simp only [hk1, hk2, if_true, if_false, hgi, hgj] at h
      have h12 : ATTACH_CURSIVE ≠ ATTACH_MARK := by decide
      simp only [h12, if_false] at h
      cases hh : d.isHorizontal
      · simp only [hh, Bool.false_eq_true, if_false, Except.ok.injEq] at h
        refine ⟨_, h.symm, rfl, rfl, rfl, rfl, ?_, fun hc => absurd hc hk1⟩
        simp [attachOff, hk2, h12, hh]
      · simp only [hh, if_true, Except.ok.injEq] at h
        refine ⟨_, h.symm, rfl, rfl, rfl, rfl, ?_, fun hc => absurd hc hk1⟩
        simp [attachOff, hk2, h12, hh]
    · simp only [hk1, hk2, if_false, Except.ok.injEq] at h
      refine ⟨qi, ?_, rfl, rfl, rfl, rfl, ?_, fun hc => absurd hc hk1⟩
      · rw [put_self hi]; exact h.symm
      · simp [attachOff, hk1, hk2]

theorem attachStep_total {d : Dir} {kind : Nat} {p : Array Pos} {i j : Nat}
    (hi : i < p.size) (hj : j < p.size) (hm : kind = ATTACH_MARK → j < i) :
    ∃ q, attachStep d kind p i j = .ok q := by
  unfold attachStep
  rw [get_of_lt hi, get_of_lt hj]
  by_cases hk1 : kind = ATTACH_MARK
  · have hji := hm hk1
    simp only [hk1, if_true, hji, not_true_eq_false, if_false]
    rw [sumAdv_eq p j (i - j) (by omega), sumAdv_eq p (j + 1) (i - j) (by omega)]
    split <;> exact ⟨_, rfl⟩
  · simp only [hk1, if_false]
    split
    · split <;> exact ⟨_, rfl⟩
    · exact ⟨_, rfl⟩


/-! ### propagate: case analysis -/

theorem propagate_ok_cases {p q : Array Pos} {len i dep nl : Nat} {d : Dir}
    (h : propagate p len i d nl = .ok (q, dep)) :
    ∃ pi, p[i]? = some pi ∧
     ( (pi.chain = 0 ∧ q = p ∧ dep = 1)
     ∨ (pi.chain ≠ 0 ∧ q = put p i { pi with chain := 0 } ∧ dep = 1 ∧
          (target i pi.chain len = none ∨ nl = 0))
     ∨ (pi.chain ≠ 0 ∧ ∃ j nl' p2 dep', target i pi.chain len = some j ∧ nl = nl' + 1 ∧
          propagate (put p i { pi with chain := 0 }) len j d nl' = .ok (p2, dep') ∧
          attachStep d pi.atype p2 i j = .ok q ∧ dep = dep' + 1)) := by
  unfold propagate at h
  split at h
  · cases h
  · rename_i pi hg
    refine ⟨pi, get_ok_iff.mp hg, ?_⟩
    split at h
    · rename_i hc
      simp only [Except.ok.injEq, Prod.mk.injEq] at h
      exact Or.inl ⟨hc, h.1.symm, h.2.symm⟩
    · rename_i hc
      simp only at h
      split at h
      · rename_i ht
        simp only [Except.ok.injEq, Prod.mk.injEq] at h
        exact Or.inr (Or.inl ⟨hc, h.1.symm, h.2.symm, Or.inl ht⟩)
      · rename_i j ht
        split at h
        · simp only [Except.ok.injEq, Prod.mk.injEq] at h
          exact Or.inr (Or.inl ⟨hc, h.1.symm, h.2.symm, Or.inr rfl⟩)
        · rename_i nl'
          split at h
          · cases h
          · rename_i p2 dep' hr
            split at h
            · cases h
            · rename_i q' ha
              simp only [Except.ok.injEq, Prod.mk.injEq] at h
              refine Or.inr (Or.inr ⟨hc, j, nl', p2, dep', ht, rfl, hr, ?_, h.2.symm⟩)
              rw [ha, h.1]

theorem target_some {i : Nat} {c : Int} {len j : Nat} (h : target i c len = some j) :
    (j : Int) = (i : Int) + c ∧ j < len := by
  unfold target at h
  simp only at h
  split at h
  · cases h
  · split at h
    · cases h
    · simp only [Option.some.injEq] at h
      omega

/-! ### propagate: sizes, frame and depth -/

/-- the fields `propagate` never changes, and the only way it changes `chain` -/
def Stable (b b' : Pos) : Prop :=
  b'.xa = b.xa ∧ b'.ya = b.ya ∧ b'.atype = b.atype ∧ (b'.chain = b.chain ∨ b'.chain = 0)

theorem Stable.refl (b : Pos) : Stable b b := ⟨rfl, rfl, rfl, Or.inl rfl⟩

theorem Stable.trans {a b c : Pos} (h1 : Stable a b) (h2 : Stable b c) : Stable a c := by
  obtain ⟨a1, a2, a3, a4⟩ := h1
  obtain ⟨b1, b2, b3, b4⟩ := h2
  refine ⟨by omega, by omega, by omega, ?_⟩
  rcases a4 with a4 | a4 <;> rcases b4 with b4 | b4 <;> simp_all

/-- what every successful `propagate` call guarantees, whatever the array looks like -/
def Basic (nl : Nat) (p q : Array Pos) (i dep : Nat) : Prop :=
  q.size = p.size ∧ nz q ≤ nz p ∧ 1 ≤ dep ∧ dep ≤ nz p + 1 ∧ dep ≤ nl + 1 ∧
  (∀ (k : Nat) (b : Pos), p[k]? = some b → b.chain = 0 → q[k]? = some b) ∧
  (∀ (k : Nat) (b : Pos), p[k]? = some b → ∃ b', q[k]? = some b' ∧ Stable b b') ∧
  (∀ b : Pos, q[i]? = some b → b.chain = 0)

theorem attachStep_shape {d : Dir} {kind : Nat} {p2 q : Array Pos} {i j : Nat} {x : Pos}
    (hp2i : p2[i]? = some x) (hatt : attachStep d kind p2 i j = .ok q) :
    q = p2 ∨ ∃ v, q = put p2 i v ∧ Stable x v ∧ v.chain = x.chain := by
  unfold attachStep at hatt
  have hgi := get_ok_iff.mpr hp2i
  split at hatt
  · rw [hgi] at hatt
    split at hatt
    · rename_i e _ he; cases he
    · cases hatt
    · rename_i qi qj hq1 hq2
      cases hq1
      split at hatt
      · cases hatt
      · split at hatt
        · split at hatt
          · cases hatt
          · simp only [Except.ok.injEq] at hatt
            exact Or.inr ⟨_, hatt.symm, ⟨rfl, rfl, rfl, Or.inl rfl⟩, rfl⟩
        · split at hatt
          · cases hatt
          · simp only [Except.ok.injEq] at hatt
            exact Or.inr ⟨_, hatt.symm, ⟨rfl, rfl, rfl, Or.inl rfl⟩, rfl⟩
  · split at hatt
    · rw [hgi] at hatt
      split at hatt
      · rename_i e _ he; cases he
      · cases hatt
      · rename_i qi qj hq1 hq2
        cases hq1
        split at hatt
        · simp only [Except.ok.injEq] at hatt
          exact Or.inr ⟨_, hatt.symm, ⟨rfl, rfl, rfl, Or.inl rfl⟩, rfl⟩
        · simp only [Except.ok.injEq] at hatt
          exact Or.inr ⟨_, hatt.symm, ⟨rfl, rfl, rfl, Or.inl rfl⟩, rfl⟩
    · simp only [Except.ok.injEq] at hatt
      exact Or.inl hatt.symm

theorem propagate_basic_step (len : Nat) (d : Dir) (nl : Nat)
    (ih : ∀ nl', nl = nl' + 1 → ∀ (p q : Array Pos) (i dep : Nat),
      propagate p len i d nl' = .ok (q, dep) → Basic nl' p q i dep) :
    ∀ (p q : Array Pos) (i dep : Nat), propagate p len i d nl = .ok (q, dep) → Basic nl p q i dep := by
  intro p q i dep h
  obtain ⟨pi, hpi, hcase⟩ := propagate_ok_cases h
  have hisz := lt_of_get? hpi
  rcases hcase with ⟨hc, rfl, rfl⟩ | ⟨hc, rfl, rfl, _⟩ | ⟨hc, j, nl', p2, dep', ht, rfl, hrec, hatt, rfl⟩
  · refine ⟨rfl, Nat.le_refl _, Nat.le_refl _, by omega, by omega, fun k b hk _ => hk,
      fun k b hk => ⟨b, hk, Stable.refl b⟩, ?_⟩
    intro b hb; rw [hpi] at hb; cases hb; exact hc
  · have hnz := nz_put (v := { pi with chain := 0 }) hpi
    simp only [bne_iff_ne, ne_eq, hc, not_false_eq_true, if_true, not_true_eq_false, if_false] at hnz
    refine ⟨by simp, by omega, Nat.le_refl _, by omega, by omega, ?_, ?_, ?_⟩
    · intro k b hk hb
      have : i ≠ k := by intro e; subst e; rw [hpi] at hk; cases hk; exact hc hb
      rw [put_get?_ne _ _ this]; exact hk
    · intro k b hk
      by_cases e : i = k
      · subst e; rw [hpi] at hk; cases hk
        exact ⟨_, put_get?_self _ _ hisz, rfl, rfl, rfl, Or.inr rfl⟩
      · exact ⟨b, by rw [put_get?_ne _ _ e]; exact hk, Stable.refl b⟩
    · intro b hb; rw [put_get?_self _ _ hisz] at hb; cases hb; rfl
  · have hnz := nz_put (v := { pi with chain := 0 }) hpi
    simp only [bne_iff_ne, ne_eq, hc, not_false_eq_true, if_true, not_true_eq_false, if_false] at hnz
    obtain ⟨hs2, hnz2, hd1, hd2, hd3, hfr2, hst2, _⟩ := ih nl' rfl _ _ _ _ hrec
    have hp1i : (put p i { pi with chain := 0 })[i]? = some { pi with chain := 0 } := put_get?_self _ _ hisz
    have hp2i : p2[i]? = some { pi with chain := 0 } := hfr2 i _ hp1i rfl
    have hi2 : i < p2.size := by rw [hs2]; simpa using hisz
    have hq : q.size = p2.size ∧ nz q = nz p2 ∧ (∀ k, k ≠ i → q[k]? = p2[k]?) ∧
        ∃ v, q[i]? = some v ∧ Stable { pi with chain := 0 } v ∧ v.chain = 0 := by
      rcases attachStep_shape hp2i hatt with rfl | ⟨v, rfl, hv, hv0⟩
      · exact ⟨rfl, rfl, fun _ _ => rfl, _, hp2i, Stable.refl _, rfl⟩
      · refine ⟨by simp, ?_, fun k hk => put_get?_ne _ _ (Ne.symm hk), v, put_get?_self _ _ hi2, hv, hv0⟩
        have := nz_put (v := v) hp2i
        simp only at hv0
        simp [hv0] at this
        exact this
    obtain ⟨hqs, hqnz, hqne, v, hqi, hv, hv0⟩ := hq
    refine ⟨by rw [hqs, hs2]; simp, by omega, by omega, by omega, by omega, ?_, ?_, ?_⟩
    · intro k b hk hb
      have hki : k ≠ i := by intro e; subst e; rw [hpi] at hk; cases hk; exact hc hb
      rw [hqne k hki]
      exact hfr2 k b (by rw [put_get?_ne _ _ (Ne.symm hki)]; exact hk) hb
    · intro k b hk
      by_cases e : k = i
      · subst e; rw [hpi] at hk; cases hk
        refine ⟨v, hqi, ?_⟩
        exact Stable.trans (b := { pi with chain := 0 }) ⟨rfl, rfl, rfl, Or.inr rfl⟩ hv
      · obtain ⟨b', hb', hst⟩ := hst2 k b (by rw [put_get?_ne _ _ (Ne.symm e)]; exact hk)
        exact ⟨b', by rw [hqne k e]; exact hb', hst⟩
    · intro b hb; rw [hqi] at hb; cases hb; exact hv0

theorem propagate_basic (len : Nat) (d : Dir) :
    ∀ (nl : Nat) (p q : Array Pos) (i dep : Nat), propagate p len i d nl = .ok (q, dep) → Basic nl p q i dep := by
  intro nl
  induction nl with
  | zero => exact propagate_basic_step len d 0 (fun nl' h => by omega)
  | succ n ih =>
    exact propagate_basic_step len d (n + 1) (fun nl' h => by
      have : nl' = n := by omega
      subst this; exact ih)

theorem sumAdv_err_oob {p : Array Pos} {lo n : Nat} {e : Err} (h : sumAdv p lo n = .error e) : e = .oob := by
  induction n generalizing lo with
  | zero => cases h
  | succ n ih =>
    simp only [sumAdv, bind, Except.bind] at h
    split at h
    · rename_i hx; cases h; exact (get_err hx).1
    · split at h
      · rename_i hx; cases h; exact ih hx
      · cases h


/-! ### propagate: functional specification -/


/-- spec of one node's final offsets: `a` = the entry of the original array `o` at `k`, `b` = the entry of
    the current array `p` at `k`; the attachment target must already be final (`chain = 0`). -/
def RelAt (d : Dir) (o : Array Pos) (len : Nat) (p : Array Pos) (k : Nat) (a b : Pos) : Prop :=
  if a.chain = 0 then b.xo = a.xo ∧ b.yo = a.yo
  else match target k a.chain len with
    | none => b.xo = a.xo ∧ b.yo = a.yo
    | some j => ∃ c, p[j]? = some c ∧ c.chain = 0 ∧
        (b.xo, b.yo) = attachOff d a.atype a c (advSum o j (k - j)) (advSum o (j + 1) (k - j))

theorem RelAt.transfer {d : Dir} {o : Array Pos} {len : Nat} {p p' : Array Pos} {k : Nat} {a b : Pos}
    (h : RelAt d o len p k a b)
    (ht : ∀ j c, a.chain ≠ 0 → target k a.chain len = some j → p[j]? = some c → c.chain = 0 → p'[j]? = some c) :
    RelAt d o len p' k a b := by
  unfold RelAt at *
  split
  · rename_i hc; simpa [hc] using h
  · rename_i hc
    simp only [hc, if_false] at h
    split
    · rename_i htn; simpa [htn] using h
    · rename_i j htj
      simp only [htj] at h
      obtain ⟨c, hc1, hc2, hc3⟩ := h
      exact ⟨c, ht j c hc htj hc1 hc2, hc2, hc3⟩

def Same (o p : Array Pos) : Prop :=
  p.size = o.size ∧ ∀ (k : Nat) (a : Pos), o[k]? = some a → ∃ b, p[k]? = some b ∧ Stable a b

def InvB (d : Dir) (o : Array Pos) (len : Nat) (rank : Nat → Nat) (B : Nat) (p : Array Pos) : Prop :=
  ∀ (k : Nat) (b : Pos), rank k < B → p[k]? = some b →
    (o[k]? = some b ∨ ∃ a, o[k]? = some a ∧ b.chain = 0 ∧ RelAt d o len p k a b)

theorem advSum_same {o p : Array Pos} (h : Same o p) (lo n : Nat) : advSum p lo n = advSum o lo n := by
  apply advSum_congr
  intro k _ _
  cases hk : o[k]? with
  | none =>
    have : p[k]? = none := by
      have : o.size ≤ k := by
        by_cases hh : k < o.size
        · simp [hh] at hk
        · omega
      exact Array.getElem?_eq_none (by rw [h.1]; exact this)
    simp [this]
  | some a =>
    obtain ⟨b, hb, hst⟩ := h.2 k a hk
    simp [hb, hst.1, hst.2.1]

theorem attachOff_congr (d : Dir) (kind : Nat) (a a' c : Pos) (sf sb : Int × Int)
    (hx : a'.xo = a.xo) (hy : a'.yo = a.yo) : attachOff d kind a' c sf sb = attachOff d kind a c sf sb := by
  unfold attachOff; rw [hx, hy]



/-- the nesting budget a node needs, as a function of the current state: `need` decreases along every link
    between two glyphs whose links are still pending (a glyph whose link is already resolved costs one frame) -/
def Hneed (len : Nat) (need : Nat → Nat) (p : Array Pos) : Prop :=
  ∀ (k : Nat) (b : Pos) (j : Nat), p[k]? = some b → b.chain ≠ 0 → target k b.chain len = some j →
    1 ≤ need k ∧ ∀ c : Pos, p[j]? = some c → c.chain ≠ 0 → need j < need k

theorem Hneed.mono {len : Nat} {need : Nat → Nat} {p q : Array Pos} (h : Hneed len need p)
    (hst : ∀ (k : Nat) (b' : Pos), q[k]? = some b' → b'.chain ≠ 0 → p[k]? = some b') : Hneed len need q := by
  intro k b j hk hc ht
  obtain ⟨h1, h2⟩ := h k b j (hst k b hk hc) hc ht
  exact ⟨h1, fun c hcj hc0 => h2 c (hst j c hcj hc0) hc0⟩

/-- entries of `q` with a pending link are entries of `p`, for `q` reached from `p` by `propagate` steps -/
theorem pending_of_stable {p q : Array Pos}
    (hs : q.size = p.size)
    (hst : ∀ (k : Nat) (b : Pos), p[k]? = some b → ∃ b', q[k]? = some b' ∧ Stable b b')
    (hxy : ∀ (k : Nat) (b b' : Pos), p[k]? = some b → q[k]? = some b' → b'.chain ≠ 0 → b' = b) :
    ∀ (k : Nat) (b' : Pos), q[k]? = some b' → b'.chain ≠ 0 → p[k]? = some b' := by
  intro k b' hk hc
  have hkp : k < p.size := by rw [← hs]; exact lt_of_get? hk
  have hpk : p[k]? = some p[k] := by simp [hkp]
  rw [hxy k p[k] b' hpk hk hc]; exact hpk

theorem propagate_inv_step (d : Dir) (o : Array Pos) (len : Nat) (rank need : Nat → Nat) (hlen : len ≤ o.size)
    (hacyc : ∀ (k : Nat) (a : Pos) (j : Nat), o[k]? = some a → a.chain ≠ 0 → target k a.chain len = some j → rank j < rank k)
    (hmark : ∀ (k : Nat) (a : Pos) (j : Nat), o[k]? = some a → a.chain ≠ 0 → a.atype = ATTACH_MARK →
      target k a.chain len = some j → j < k)
    (nl : Nat)
    (ih : ∀ nl', nl = nl' + 1 → ∀ (p : Array Pos) (i B : Nat), i < len → rank i < B → Same o p →
      InvB d o len rank B p → Hneed len need p → (∀ b : Pos, p[i]? = some b → b.chain ≠ 0 → need i ≤ nl') →
      ∃ q dep, propagate p len i d nl' = .ok (q, dep) ∧ Same o q ∧ InvB d o len rank B q ∧
        (∀ k, rank i < rank k → q[k]? = p[k]?)) :
    ∀ (p : Array Pos) (i B : Nat), i < len → rank i < B → Same o p →
      InvB d o len rank B p → Hneed len need p → (∀ b : Pos, p[i]? = some b → b.chain ≠ 0 → need i ≤ nl) →
      ∃ q dep, propagate p len i d nl = .ok (q, dep) ∧ Same o q ∧ InvB d o len rank B q ∧
        (∀ k, rank i < rank k → q[k]? = p[k]?) := by
  intro p i B hi hB hsame hinv hneed hbud
  have hisz : i < p.size := by rw [hsame.1]; omega
  have hpi : p[i]? = some p[i] := by simp [hisz]
  generalize p[i] = pi at hpi
  unfold propagate
  rw [get_ok_iff.mpr hpi]
  simp only
  by_cases hc : pi.chain = 0
  · simp only [hc, if_true]
    exact ⟨p, 1, rfl, hsame, hinv, fun _ _ => rfl⟩
  · simp only [hc, if_false]
    have hoi : o[i]? = some pi := by
      rcases hinv i pi hB hpi with h | ⟨a, _, h0, _⟩
      · exact h
      · exact absurd h0 hc
    let p1 := put p i { pi with chain := 0 }
    have hp1i : p1[i]? = some { pi with chain := 0 } := put_get?_self _ _ hisz
    have hp1ne : ∀ k, k ≠ i → p1[k]? = p[k]? := fun k hk => put_get?_ne _ _ (Ne.symm hk)
    have hsame1 : Same o p1 := by
      refine ⟨by simp [p1, hsame.1], ?_⟩
      intro k a hk
      by_cases e : k = i
      · subst e; rw [hoi] at hk; cases hk
        exact ⟨_, hp1i, rfl, rfl, rfl, Or.inr rfl⟩
      · rw [hp1ne k e]; exact hsame.2 k a hk
    have hkeep : ∀ (k : Nat) (b : Pos), k ≠ i → p[k]? = some b →
        (o[k]? = some b ∨ ∃ a, o[k]? = some a ∧ b.chain = 0 ∧ RelAt d o len p k a b) →
        (o[k]? = some b ∨ ∃ a, o[k]? = some a ∧ b.chain = 0 ∧ RelAt d o len p1 k a b) := by
      intro k b _ _ h
      rcases h with h | ⟨a, ha, hb0, hrel⟩
      · exact Or.inl h
      · refine Or.inr ⟨a, ha, hb0, hrel.transfer ?_⟩
        intro j c _ _ hjc hc0
        have : j ≠ i := by intro e; subst e; rw [hpi] at hjc; cases hjc; exact hc hc0
        rw [hp1ne j this]; exact hjc
    cases ht : target i pi.chain len with
    | none =>
      simp only
      refine ⟨p1, 1, rfl, hsame1, ?_, fun k hk => hp1ne k (by intro e; subst e; omega)⟩
      intro k b hkB hkb
      by_cases e : k = i
      · subst e; rw [hp1i] at hkb; cases hkb
        refine Or.inr ⟨pi, hoi, rfl, ?_⟩
        unfold RelAt; simp [hc, ht]
      · rw [hp1ne k e] at hkb
        exact hkeep k b e hkb (hinv k b hkB hkb)
    | some j =>
      simp only
      obtain ⟨hn1, hn2⟩ := hneed i pi j hpi hc ht
      have hb := hbud pi hpi hc
      obtain ⟨nl', rfl⟩ : ∃ n, nl = n + 1 := ⟨nl - 1, by omega⟩
      simp only
      have hrj : rank j < rank i := hacyc i pi j hoi hc ht
      obtain ⟨hjeq, hjlen⟩ := target_some ht
      have hjne : j ≠ i := by intro e; subst e; exact hc (by omega)
      have hinv1 : InvB d o len rank (rank i) p1 := by
        intro k b hk hkb
        have e : k ≠ i := by intro e; subst e; omega
        rw [hp1ne k e] at hkb
        exact hkeep k b e hkb (hinv k b (by omega) hkb)
      have hneed1 : Hneed len need p1 := by
        apply hneed.mono
        intro k b' hk hc'
        have e : k ≠ i := by intro e; subst e; rw [hp1i] at hk; cases hk; exact hc' rfl
        rw [← hp1ne k e]; exact hk
      have hbud1 : ∀ b : Pos, p1[j]? = some b → b.chain ≠ 0 → need j ≤ nl' := by
        intro b hjb hb0
        rw [hp1ne j hjne] at hjb
        have := hn2 b hjb hb0
        omega
      obtain ⟨p2, dep', hrec, hsame2, hinv2, hframe2⟩ :=
        ih nl' rfl p1 j (rank i) hjlen hrj hsame1 hinv1 hneed1 hbud1
      obtain ⟨hs2, _, _, _, _, hfr2, _, hj0⟩ := propagate_basic len d _ _ _ _ _ hrec
      rw [hrec]
      simp only
      have hp2i : p2[i]? = some { pi with chain := 0 } := by rw [hframe2 i hrj]; exact hp1i
      have hi2 : i < p2.size := lt_of_get? hp2i
      have hj2 : j < p2.size := by rw [hsame2.1]; omega
      have hp2j : p2[j]? = some p2[j] := by simp [hj2]
      generalize p2[j] = qj at hp2j
      have hqj0 : qj.chain = 0 := hj0 qj hp2j
      have hm : pi.atype = ATTACH_MARK → j < i := fun hk => hmark i pi j hoi hc hk ht
      obtain ⟨q, hq⟩ := attachStep_total (d := d) (kind := pi.atype) hi2 hj2 hm
      rw [hq]
      simp only
      obtain ⟨v, rfl, hv1, hv2, hv3, hv4, hv5, _⟩ := attachStep_spec hp2i hp2j hq
      have hqi : (put p2 i v)[i]? = some v := put_get?_self _ _ hi2
      have hqne : ∀ k, k ≠ i → (put p2 i v)[k]? = p2[k]? := fun k hk => put_get?_ne _ _ (Ne.symm hk)
      refine ⟨_, _, rfl, ?_, ?_, ?_⟩
      · refine ⟨by simp [hsame2.1], ?_⟩
        intro k a hk
        by_cases e : k = i
        · subst e; rw [hoi] at hk; cases hk
          exact ⟨v, hqi, hv1, hv2, hv4, Or.inr hv3⟩
        · rw [hqne k e]; exact hsame2.2 k a hk
      · intro k b hkB hkb
        by_cases e : k = i
        · subst e; rw [hqi] at hkb; cases hkb
          refine Or.inr ⟨pi, hoi, hv3, ?_⟩
          unfold RelAt
          simp only [hc, if_false, ht]
          refine ⟨qj, by rw [hqne j hjne]; exact hp2j, hqj0, ?_⟩
          rw [hv5, advSum_same hsame2, advSum_same hsame2]
          exact attachOff_congr d pi.atype pi _ qj _ _ rfl rfl
        · rw [hqne k e] at hkb
          by_cases hrk : rank k < rank i
          · rcases hinv2 k b hrk hkb with h | ⟨a, ha, hb0, hrel⟩
            · exact Or.inl h
            · refine Or.inr ⟨a, ha, hb0, hrel.transfer ?_⟩
              intro j' c hac htj' hjc _
              have : rank j' < rank k := hacyc k a j' ha hac htj'
              have : j' ≠ i := by intro e; subst e; omega
              rw [hqne j' this]; exact hjc
          · have hk2 : p2[k]? = p[k]? := by rw [hframe2 k (by omega)]; exact hp1ne k e
            rw [hk2] at hkb
            rcases hinv k b hkB hkb with h | ⟨a, ha, hb0, hrel⟩
            · exact Or.inl h
            · refine Or.inr ⟨a, ha, hb0, hrel.transfer ?_⟩
              intro j' c _ _ hjc hc0
              have hne : j' ≠ i := by intro e; subst e; rw [hpi] at hjc; cases hjc; exact hc hc0
              rw [hqne j' hne]
              exact hfr2 j' c (by rw [hp1ne j' hne]; exact hjc) hc0
      · intro k hk
        have e : k ≠ i := by intro e; subst e; omega
        rw [hqne k e, hframe2 k (by omega)]; exact hp1ne k e

theorem propagate_inv (d : Dir) (o : Array Pos) (len : Nat) (rank need : Nat → Nat) (hlen : len ≤ o.size)
    (hacyc : ∀ (k : Nat) (a : Pos) (j : Nat), o[k]? = some a → a.chain ≠ 0 → target k a.chain len = some j → rank j < rank k)
    (hmark : ∀ (k : Nat) (a : Pos) (j : Nat), o[k]? = some a → a.chain ≠ 0 → a.atype = ATTACH_MARK →
      target k a.chain len = some j → j < k) :
    ∀ (nl : Nat) (p : Array Pos) (i B : Nat), i < len → rank i < B → Same o p →
      InvB d o len rank B p → Hneed len need p → (∀ b : Pos, p[i]? = some b → b.chain ≠ 0 → need i ≤ nl) →
      ∃ q dep, propagate p len i d nl = .ok (q, dep) ∧ Same o q ∧ InvB d o len rank B q ∧
        (∀ k, rank i < rank k → q[k]? = p[k]?) := by
  intro nl
  induction nl with
  | zero => exact propagate_inv_step d o len rank need hlen hacyc hmark 0 (fun nl' h => by omega)
  | succ n ih =>
    exact propagate_inv_step d o len rank need hlen hacyc hmark (n + 1) (fun nl' h => by
      have : nl' = n := by omega
      subst this; exact ih)

theorem rank_bound (rank : Nat → Nat) (n : Nat) : ∃ B, ∀ k, k < n → rank k < B := by
  induction n with
  | zero => exact ⟨0, fun k h => by omega⟩
  | succ n ih =>
    obtain ⟨B, hB⟩ := ih
    refine ⟨max B (rank n + 1), fun k hk => ?_⟩
    by_cases e : k = n
    · subst e; omega
    · have := hB k (by omega); omega

theorem Same.refl (o : Array Pos) : Same o o := ⟨rfl, fun _ a h => ⟨a, h, Stable.refl a⟩⟩

/-- `need i k`: nesting budget glyph `k` needs when the loop of `position_finish_offsets` is at index `i`
    (all glyphs before `i` are resolved by then) -/
def NeedOK (o : Array Pos) (len : Nat) (need : Nat → Nat → Nat) : Prop :=
  (∀ (i k : Nat) (a : Pos) (j : Nat), i < len → i ≤ k → o[k]? = some a → a.chain ≠ 0 →
      target k a.chain len = some j →
      1 ≤ need i k ∧ ∀ c : Pos, i ≤ j → o[j]? = some c → c.chain ≠ 0 → need i j < need i k) ∧
  (∀ i, i < len → need i i ≤ MAX_NESTING_LEVEL)

theorem finishLoop_inv (d : Dir) (o : Array Pos) (len : Nat) (rank : Nat → Nat) (need : Nat → Nat → Nat) (B : Nat)
    (hlen : len ≤ o.size) (hB : ∀ k, k < len → rank k < B)
    (hacyc : ∀ (k : Nat) (a : Pos) (j : Nat), o[k]? = some a → a.chain ≠ 0 → target k a.chain len = some j → rank j < rank k)
    (hmark : ∀ (k : Nat) (a : Pos) (j : Nat), o[k]? = some a → a.chain ≠ 0 → a.atype = ATTACH_MARK →
      target k a.chain len = some j → j < k)
    (hneed : NeedOK o len need) :
    ∀ (n i : Nat) (p : Array Pos) (dmax : Nat), i + n ≤ len → Same o p → InvB d o len rank B p →
      (∀ (k : Nat) (b : Pos), k < i → p[k]? = some b → b.chain = 0) →
      ∃ q dm, finishLoop p len d i n dmax = .ok (q, dm) ∧ Same o q ∧ InvB d o len rank B q ∧
        (∀ (k : Nat) (b : Pos), k < i + n → q[k]? = some b → b.chain = 0) ∧
        dm ≤ max dmax (MAX_NESTING_LEVEL + 1) := by
  intro n
  induction n with
  | zero =>
    intro i p dmax _ hs hinv hz
    exact ⟨p, dmax, rfl, hs, hinv, hz, by omega⟩
  | succ n ih =>
    intro i p dmax hin hs hinv hz
    -- a pending link in `p` is the original link, at an index ≥ i
    have hpend : ∀ (k : Nat) (b : Pos), p[k]? = some b → b.chain ≠ 0 →
        i ≤ k ∧ ∃ a, o[k]? = some a ∧ a.chain = b.chain := by
      intro k b hk hc
      refine ⟨?_, ?_⟩
      · by_cases h : i ≤ k
        · exact h
        · exact absurd (hz k b (by omega) hk) hc
      · have hko : k < o.size := by rw [← hs.1]; exact lt_of_get? hk
        have hok : o[k]? = some o[k] := by simp [hko]
        obtain ⟨b', hb', hst⟩ := hs.2 k _ hok
        rw [hk] at hb'; cases hb'
        rcases hst.2.2.2 with h | h
        · exact ⟨_, hok, h.symm⟩
        · exact absurd h hc
    have hn : Hneed len (need i) p := by
      intro k b j hk hc ht
      obtain ⟨hik, a, hoa, hac⟩ := hpend k b hk hc
      obtain ⟨h1, h2⟩ := hneed.1 i k a j (by omega) hik hoa (by rw [hac]; exact hc) (by rw [hac]; exact ht)
      refine ⟨h1, fun c hjc hc0 => ?_⟩
      obtain ⟨hij, a', hoa', hac'⟩ := hpend j c hjc hc0
      exact h2 a' hij hoa' (by rw [hac']; exact hc0)
    obtain ⟨q1, dep, hprop, hs1, hinv1, _⟩ :=
      propagate_inv d o len rank (need i) hlen hacyc hmark MAX_NESTING_LEVEL p i B (by omega) (hB i (by omega))
        hs hinv hn (fun _ _ _ => hneed.2 i (by omega))
    obtain ⟨_, _, _, _, hdep, hfr, _, hi0⟩ := propagate_basic len d _ _ _ _ _ hprop
    have hz1 : ∀ (k : Nat) (b : Pos), k < i + 1 → q1[k]? = some b → b.chain = 0 := by
      intro k b hk hkb
      by_cases e : k = i
      · subst e; exact hi0 b hkb
      · have hkp : k < p.size := by rw [hs.1]; omega
        have hpk : p[k]? = some p[k] := by simp [hkp]
        have h0 := hz k _ (by omega) hpk
        have := hfr k _ hpk h0
        rw [this] at hkb; cases hkb; exact h0
    obtain ⟨q, dm, hloop, hs2, hinv2, hz2, hdm⟩ := ih (i + 1) q1 (max dmax dep) (by omega) hs1 hinv1 hz1
    refine ⟨q, dm, ?_, hs2, hinv2, ?_, by omega⟩
    · simp only [finishLoop, hprop, bind, Except.bind]; exact hloop
    · intro k b hk; exact hz2 k b (by omega)

/-- what `position_finish_offsets` computes on an acyclic attachment structure whose marks attach backwards
    and whose pending chains never exceed the nesting budget -/
theorem finish_spec (d : Dir) (o : Array Pos) (len : Nat) (rank : Nat → Nat) (need : Nat → Nat → Nat)
    (hlen : len ≤ o.size)
    (hacyc : ∀ (k : Nat) (a : Pos) (j : Nat), o[k]? = some a → a.chain ≠ 0 → target k a.chain len = some j → rank j < rank k)
    (hmark : ∀ (k : Nat) (a : Pos) (j : Nat), o[k]? = some a → a.chain ≠ 0 → a.atype = ATTACH_MARK →
      target k a.chain len = some j → j < k)
    (hneed : NeedOK o len need) :
    ∃ q dm, positionFinishOffsets o len d true = .ok (q, dm) ∧ Same o q ∧ dm ≤ MAX_NESTING_LEVEL + 1 ∧
      ∀ (k : Nat) (a : Pos), k < len → o[k]? = some a →
        ∃ b, q[k]? = some b ∧ b.chain = 0 ∧ RelAt d o len q k a b := by
  obtain ⟨B, hB⟩ := rank_bound rank len
  have hinv0 : InvB d o len rank B o := fun k b _ h => Or.inl h
  obtain ⟨q, dm, hloop, hs, hinv, hz, hdm⟩ :=
    finishLoop_inv d o len rank need B hlen hB hacyc hmark hneed len 0 o 0 (by omega) (Same.refl o) hinv0
      (fun k b h => by omega)
  refine ⟨q, dm, ?_, hs, by omega, ?_⟩
  · simp [positionFinishOffsets, hloop]
  · intro k a hk hka
    obtain ⟨b, hb, _⟩ := hs.2 k a hka
    have hb0 := hz k b (by omega) hb
    refine ⟨b, hb, hb0, ?_⟩
    rcases hinv k b (hB k hk) hb with h | ⟨a', ha', _, hrel⟩
    · rw [hka] at h; cases h
      unfold RelAt; simp [hb0]
    · rw [hka] at ha'; cases ha'; exact hrel

/-- the loop never nests deeper than the budget plus the outermost frame — for every array -/
theorem finishLoop_depth (len : Nat) (d : Dir) :
    ∀ (n i : Nat) (p q : Array Pos) (dmax dm : Nat), finishLoop p len d i n dmax = .ok (q, dm) →
      dm ≤ max dmax (MAX_NESTING_LEVEL + 1) ∧ q.size = p.size := by
  intro n
  induction n with
  | zero =>
    intro i p q dmax dm h
    simp only [finishLoop, Except.ok.injEq, Prod.mk.injEq] at h
    obtain ⟨rfl, rfl⟩ := h
    exact ⟨by omega, rfl⟩
  | succ n ih =>
    intro i p q dmax dm h
    simp only [finishLoop, bind, Except.bind] at h
    split at h
    · cases h
    · rename_i r hr
      obtain ⟨p1, dep⟩ := r
      obtain ⟨hs, _, _, _, hdep, _⟩ := propagate_basic len d _ _ _ _ _ hr
      obtain ⟨h1, h2⟩ := ih _ _ _ _ _ h
      exact ⟨by omega, by rw [h2, hs]⟩

/-- a height function bounded by the nesting limit is a valid budget at every loop index -/
theorem needOK_of_rank (o : Array Pos) (len : Nat) (rank : Nat → Nat)
    (hacyc : ∀ (k : Nat) (a : Pos) (j : Nat), o[k]? = some a → a.chain ≠ 0 → target k a.chain len = some j → rank j < rank k)
    (hdepth : ∀ k, k < len → rank k ≤ MAX_NESTING_LEVEL) : NeedOK o len (fun _ k => rank k) := by
  refine ⟨?_, fun i hi => hdepth i hi⟩
  intro i k a j _ _ hk hc ht
  have := hacyc k a j hk hc ht
  dsimp only
  exact ⟨by omega, fun _ _ _ _ => this⟩

/-- when every link points backwards the loop resolves glyph `j` before any `k > j`: one frame is enough -/
theorem needOK_of_backward (o : Array Pos) (len : Nat)
    (hback : ∀ (k : Nat) (a : Pos) (j : Nat), o[k]? = some a → a.chain ≠ 0 → target k a.chain len = some j → j < k) :
    NeedOK o len (fun i k => k + 1 - i) := by
  refine ⟨?_, fun i _ => by simp [MAX_NESTING_LEVEL]⟩
  intro i k a j _ hik hk hc ht
  have := hback k a j hk hc ht
  dsimp only
  exact ⟨by omega, fun _ hij _ _ => by omega⟩

/-! ### pen model -/

/-- what the client sees: the first `len` positions, reversed for backward directions
    (`position` ends with `buffer.reverse()` when the direction is backward) -/
def visible (q : Array Pos) (len : Nat) (d : Dir) : Array Pos :=
  if d.isBackward then (q.extract 0 len).reverse else q.extract 0 len

/-- index in `visible` of the glyph at buffer index `i` -/
def outIdx (d : Dir) (len i : Nat) : Nat := if d.isBackward then len - 1 - i else i

/-- pen model: the origin of output glyph `k` is the sum of the advances of the glyphs drawn before it
    plus its own offset -/
def penOrigin (out : Array Pos) (k : Nat) : Int × Int :=
  let s := advSum out 0 k
  let q := (out[k]?).getD {}
  (s.1 + q.xo, s.2 + q.yo)

theorem visible_eq (q : Array Pos) (len : Nat) (d : Dir) (h : len ≤ q.size) :
    (finalReverse q len d).extract 0 len = visible q len d := by
  have hm : min len q.size = len := Nat.min_eq_left h
  unfold finalReverse visible reversePos
  cases d.isBackward
  · simp
  · simp only [if_true]
    split
    · rename_i h2
      apply Array.ext_getElem?
      intro k
      have : len = 0 ∨ len = 1 := by omega
      rcases this with rfl | rfl
      · simp
      · by_cases hk : k = 0
        · subst hk
          have : 0 < q.size := by omega
          simp [Array.getElem?_reverse, hm, this]
        · rw [Array.getElem?_eq_none (by simp; omega), Array.getElem?_eq_none (by simp; omega)]
    · apply Array.ext_getElem?
      intro k
      by_cases hk : k < len
      · simp [Array.getElem?_extract, Array.getElem?_append, hm, hk]
      · rw [Array.getElem?_eq_none (by simp [hm]; omega), Array.getElem?_eq_none (by simp [hm]; omega)]

theorem advSum_extract (q : Array Pos) (len lo n : Nat) (h : lo + n ≤ len) (hl : len ≤ q.size) :
    advSum (q.extract 0 len) lo n = advSum q lo n := by
  have hm : min len q.size = len := Nat.min_eq_left hl
  apply advSum_congr
  intro k _ hk
  have : k < len := by omega
  have hq : k < q.size := by omega
  simp [this, hm, hq]

theorem advSum_one (p : Array Pos) (lo : Nat) :
    advSum p lo 1 = (((p[lo]?).getD {}).xa, ((p[lo]?).getD {}).ya) := by
  simp [advSum]

theorem advSum_reverse (a : Array Pos) (m : Nat) (h : m ≤ a.size) :
    advSum a.reverse 0 m = advSum a (a.size - m) m := by
  induction m with
  | zero => rfl
  | succ m ih =>
    rw [advSum_split a.reverse 0 m 1, ih (by omega), advSum_one]
    have hrev : a.reverse[0 + m]? = a[a.size - (1 + m)]? := by
      rw [Array.getElem?_reverse (by omega)]
      congr 1; omega
    rw [hrev]
    have : m + 1 = 1 + m := by omega
    rw [this, advSum_split a (a.size - (1 + m)) 1 m, advSum_one]
    have h2 : a.size - (1 + m) + 1 = a.size - m := by omega
    rw [h2]
    ext <;> simp <;> omega



theorem penOrigin_visible (q : Array Pos) (len : Nat) (d : Dir) (i : Nat) (b : Pos) (hl : len ≤ q.size)
    (hi : i < len) (hb : q[i]? = some b) :
    penOrigin (visible q len d) (outIdx d len i) =
      if d.isBackward then ((advSum q (i + 1) (len - 1 - i)).1 + b.xo, (advSum q (i + 1) (len - 1 - i)).2 + b.yo)
      else ((advSum q 0 i).1 + b.xo, (advSum q 0 i).2 + b.yo) := by
  have hm : min len q.size = len := Nat.min_eq_left hl
  have hiq : i < q.size := by omega
  have hbq : q[i] = b := by simpa [hiq] using hb
  unfold penOrigin visible outIdx
  cases d.isBackward
  · simp only [Bool.false_eq_true, if_false]
    rw [advSum_extract q len 0 i (by omega) hl]
    simp [Array.getElem?_extract, hi, hm, hiq, hbq]
  · simp only [if_true]
    have hsz : (q.extract 0 len).size = len := by simp [hm]
    have h1 := advSum_reverse (q.extract 0 len) (len - 1 - i) (by rw [hsz]; omega)
    rw [hsz] at h1
    have h2 : len - (len - 1 - i) = i + 1 := by omega
    rw [h2] at h1
    rw [h1, advSum_extract q len (i + 1) (len - 1 - i) (by omega) hl]
    have h3 : (q.extract 0 len).reverse[len - 1 - i]? = some b := by
      rw [Array.getElem?_reverse (by rw [hsz]; omega)]
      rw [hsz]
      have : len - 1 - (len - 1 - i) = i := by omega
      rw [this]
      simp [Array.getElem?_extract, hi, hm, hiq, hbq]
    rw [h3]; rfl

theorem mark_coincide (d : Dir) (o : Array Pos) (len : Nat) (rank : Nat → Nat) (need : Nat → Nat → Nat)
    (hlen : len ≤ o.size)
    (hacyc : ∀ (k : Nat) (a : Pos) (j : Nat), o[k]? = some a → a.chain ≠ 0 → target k a.chain len = some j → rank j < rank k)
    (hmark : ∀ (k : Nat) (a : Pos) (j : Nat), o[k]? = some a → a.chain ≠ 0 → a.atype = ATTACH_MARK →
      target k a.chain len = some j → j < k)
    (hneed : NeedOK o len need) :
    ∃ q dm, positionFinishOffsets o len d true = .ok (q, dm) ∧ dm ≤ MAX_NESTING_LEVEL + 1 ∧
      ∀ (i : Nat) (a : Pos) (j : Nat), i < len → o[i]? = some a → a.chain ≠ 0 → a.atype = ATTACH_MARK →
        target i a.chain len = some j →
        penOrigin (visible q len d) (outIdx d len i) =
          ((penOrigin (visible q len d) (outIdx d len j)).1 + a.xo,
           (penOrigin (visible q len d) (outIdx d len j)).2 + a.yo) := by
  obtain ⟨q, dm, hfin, hsame, hdm, hspec⟩ := finish_spec d o len rank need hlen hacyc hmark hneed
  refine ⟨q, dm, hfin, hdm, ?_⟩
  intro i a j hi hoi hc hk ht
  obtain ⟨b, hb, _, hrel⟩ := hspec i a hi hoi
  have hji := hmark i a j hoi hc hk ht
  unfold RelAt at hrel
  simp only [hc, if_false, ht] at hrel
  obtain ⟨c, hcj, _, hoff⟩ := hrel
  have hlq : len ≤ q.size := by rw [hsame.1]; exact hlen
  rw [penOrigin_visible q len d i b hlq hi hb, penOrigin_visible q len d j c hlq (by omega) hcj]
  simp only [advSum_same hsame]
  unfold attachOff at hoff
  simp only [hk, if_true] at hoff
  unfold Dir.isBackward
  cases hf : d.isForward
  · simp only [hf, Bool.false_eq_true, if_false, Prod.mk.injEq] at hoff
    simp only [Bool.not_false, if_true]
    have hs := advSum_split o (j + 1) (i - j) (len - 1 - i)
    have e1 : i - j + (len - 1 - i) = len - 1 - j := by omega
    have e2 : j + 1 + (i - j) = i + 1 := by omega
    rw [e1, e2] at hs
    rw [hs]
    ext <;> simp <;> omega
  · simp only [hf, if_true, Prod.mk.injEq] at hoff
    simp only [Bool.not_true, Bool.false_eq_true, if_false]
    have hs := advSum_split o 0 j (i - j)
    have e1 : j + (i - j) = i := by omega
    have e2 : 0 + j = j := by omega
    rw [e1, e2] at hs
    rw [hs]
    ext <;> simp <;> omega



/-! ### cursive -/

/-- fields the cross-axis bookkeeping of a cursive attachment never touches -/
def MainSame (d : Dir) (b b' : Pos) : Prop :=
  b'.xa = b.xa ∧ b'.ya = b.ya ∧ (if d.isHorizontal then b'.xo = b.xo else b'.yo = b.yo)

theorem MainSame.refl (d : Dir) (b : Pos) : MainSame d b b := ⟨rfl, rfl, by split <;> rfl⟩

theorem MainSame.trans {d : Dir} {a b c : Pos} (h1 : MainSame d a b) (h2 : MainSame d b c) : MainSame d a c := by
  obtain ⟨a1, a2, a3⟩ := h1
  obtain ⟨b1, b2, b3⟩ := h2
  refine ⟨by omega, by omega, ?_⟩
  split <;> simp_all

/-- `p'` agrees with `p` on everything but chain / type / cross-axis offset -/
def MainSameArr (d : Dir) (p p' : Array Pos) : Prop :=
  p'.size = p.size ∧ ∀ (k : Nat) (b : Pos), p[k]? = some b → ∃ b', p'[k]? = some b' ∧ MainSame d b b'

theorem MainSameArr.refl (d : Dir) (p : Array Pos) : MainSameArr d p p :=
  ⟨rfl, fun _ b h => ⟨b, h, MainSame.refl d b⟩⟩

theorem MainSameArr.trans {d : Dir} {p q r : Array Pos} (h1 : MainSameArr d p q) (h2 : MainSameArr d q r) :
    MainSameArr d p r := by
  refine ⟨by rw [h2.1, h1.1], fun k b hk => ?_⟩
  obtain ⟨b', hb', hm1⟩ := h1.2 k b hk
  obtain ⟨b'', hb'', hm2⟩ := h2.2 k b' hb'
  exact ⟨b'', hb'', hm1.trans hm2⟩

theorem MainSameArr.put {d : Dir} {p : Array Pos} {i : Nat} {b v : Pos} (h : p[i]? = some b) (hv : MainSame d b v) :
    MainSameArr d p (put p i v) := by
  refine ⟨by simp, fun k c hk => ?_⟩
  by_cases e : i = k
  · subst e; rw [h] at hk; cases hk
    exact ⟨v, put_get?_self _ _ (lt_of_get? h), hv⟩
  · exact ⟨c, by rw [put_get?_ne _ _ e]; exact hk, MainSame.refl d c⟩

/-- `reverse_cursive_minor_offset` as it was before the fix (and as it is in HarfBuzz): the recursive
    formulation, kept as the specification of the two loops.  Result: positions and recursion depth. -/
def reverseCursiveRec (fuel : Nat) (p : Array Pos) (i : Nat) (d : Dir) (newParent : Nat) :
    M (Array Pos × Nat) :=
  match fuel with
  | 0 => .error .fuel
  | fuel + 1 =>
    match get p i with
    | .error e => .error e
    | .ok pi =>
      if pi.chain = 0 ∨ pi.atype &&& ATTACH_CURSIVE = 0 then .ok (p, 1)
      else
        let p1 := put p i { pi with chain := 0 }
        let jz : Int := (i : Int) + pi.chain
        if jz < 0 then .error .oob
        else
          let j := jz.toNat
          if j = newParent then .ok (p1, 1)
          else
            match reverseCursiveRec fuel p1 j d newParent with
            | .error e => .error e
            | .ok (p2, dep) =>
              match get p2 i, get p2 j with
              | .error e, _ => .error e
              | _, .error e => .error e
              | .ok qi, .ok qj =>
                let qj := if d.isHorizontal then { qj with yo := - qi.yo } else { qj with xo := - qi.xo }
                .ok (put p2 j { qj with chain := wrap16 (- pi.chain), atype := pi.atype }, dep + 1)


/-- the two loops over the work list compute exactly what the recursion computed — on every input (cycles,
    out-of-range links, foreign attach types), including which error is raised and the length of the walk -/
theorem reverseCursive_eq_aux (d : Dir) (np : Nat) :
    ∀ (fuel : Nat) (p : Array Pos) (i : Nat) (work : List Frame),
      (match reverseDescend np fuel p i work with
        | .error e => (.error e : M (Array Pos × Nat))
        | .ok (p1, w) =>
          match reverseUnwind d p1 w with
          | .error e => .error e
          | .ok q => .ok (q, w.length + 1)) =
      (match reverseCursiveRec fuel p i d np with
        | .error e => .error e
        | .ok (p2, dep) =>
          match reverseUnwind d p2 work with
          | .error e => .error e
          | .ok q => .ok (q, work.length + dep)) := by
  intro fuel
  induction fuel with
  | zero => intro p i work; rfl
  | succ fuel ih =>
    intro p i work
    unfold reverseDescend reverseCursiveRec
    cases hg : get p i with
    | error e => rfl
    | ok pi =>
      simp only
      by_cases hstop : pi.chain = 0 ∨ pi.atype &&& ATTACH_CURSIVE = 0
      · simp only [hstop, if_true]
      · simp only [hstop, if_false]
        by_cases hneg : (i : Int) + pi.chain < 0
        · simp only [hneg, if_true]
        · simp only [hneg, if_false]
          by_cases hnp : ((i : Int) + pi.chain).toNat = np
          · simp only [hnp, if_true]
          · simp only [hnp, if_false]
            rw [ih]
            cases hr : reverseCursiveRec fuel (put p i { pi with chain := 0 }) ((i : Int) + pi.chain).toNat d np with
            | error e => rfl
            | ok r =>
              obtain ⟨p2, dep⟩ := r
              simp only [reverseUnwind]
              cases hgi : get p2 i with
              | error e => rfl
              | ok qi =>
                cases hgj : get p2 ((i : Int) + pi.chain).toNat with
                | error e => rfl
                | ok qj =>
                  simp only [List.length_cons]
                  cases reverseUnwind d _ work with
                  | error e => rfl
                  | ok q => simp only [Except.ok.injEq, Prod.mk.injEq, true_and]; omega

theorem reverseCursive_eq (fuel : Nat) (p : Array Pos) (i : Nat) (d : Dir) (np : Nat) :
    reverseCursiveMinorOffset fuel p i d np = reverseCursiveRec fuel p i d np := by
  have h := reverseCursive_eq_aux d np fuel p i []
  unfold reverseCursiveMinorOffset
  refine Eq.trans h ?_
  cases reverseCursiveRec fuel p i d np with
  | error e => rfl
  | ok r => obtain ⟨p2, dep⟩ := r; simp [reverseUnwind]

theorem reverseCursive_main (d : Dir) (np : Nat) :
    ∀ (fuel : Nat) (p q : Array Pos) (i dep : Nat),
      reverseCursiveRec fuel p i d np = .ok (q, dep) → MainSameArr d p q ∧ dep ≤ nz p + 1 := by
  intro fuel
  induction fuel with
  | zero => intro p q i dep h; simp [reverseCursiveRec] at h
  | succ fuel ih =>
    intro p q i dep h
    unfold reverseCursiveRec at h
    split at h
    · cases h
    · rename_i pi hg
      have hpi := get_ok_iff.mp hg
      split at h
      · simp only [Except.ok.injEq, Prod.mk.injEq] at h
        obtain ⟨rfl, rfl⟩ := h
        exact ⟨MainSameArr.refl d p, by omega⟩
      · rename_i hcond
        have hc : pi.chain ≠ 0 := fun e => hcond (Or.inl e)
        have hnz := nz_put (v := { pi with chain := 0 }) hpi
        simp only [bne_iff_ne, ne_eq, hc, not_false_eq_true, if_true, not_true_eq_false, if_false] at hnz
        have hm1 : MainSameArr d p (put p i { pi with chain := 0 }) :=
          MainSameArr.put hpi ⟨rfl, rfl, by split <;> rfl⟩
        simp only at h
        split at h
        · cases h
        · split at h
          · simp only [Except.ok.injEq, Prod.mk.injEq] at h
            obtain ⟨rfl, rfl⟩ := h
            exact ⟨hm1, by omega⟩
          · split at h
            · cases h
            · rename_i p2 dep' hrec
              obtain ⟨hm2, hd2⟩ := ih _ _ _ _ hrec
              split at h
              · cases h
              · cases h
              · rename_i qi qj hgi hgj
                simp only [Except.ok.injEq, Prod.mk.injEq] at h
                obtain ⟨rfl, rfl⟩ := h
                refine ⟨(hm1.trans hm2).trans (MainSameArr.put (get_ok_iff.mp hgj) ?_), by omega⟩
                refine ⟨?_, ?_, ?_⟩
                · split <;> rfl
                · split <;> rfl
                · cases d.isHorizontal <;> simp



theorem cursiveAttach_main {p q : Array Pos} {c pa dep : Nat} {d : Dir} {xOff yOff : Int}
    (h : cursiveAttach p c pa d xOff yOff = .ok (q, dep)) : MainSameArr d p q := by
  unfold cursiveAttach at h
  rw [reverseCursive_eq] at h
  split at h
  · cases h
  · rename_i p2 dep' hrev
    have hm2 := (reverseCursive_main d _ _ _ _ _ _ hrev).1
    split at h
    · cases h
    · rename_i pc hgc
      have hpc := get_ok_iff.mp hgc
      simp only at h
      have hv : MainSame d pc
          (if d.isHorizontal = true then
            { pc with atype := ATTACH_CURSIVE, chain := wrap16 ((pa : Int) - (c : Int)), yo := yOff }
           else
            { pc with atype := ATTACH_CURSIVE, chain := wrap16 ((pa : Int) - (c : Int)), xo := xOff }) := by
        cases hh : d.isHorizontal <;> simp [MainSame, hh]
      have hm3 := hm2.trans (MainSameArr.put hpc hv)
      split at h
      · cases h
      · rename_i pp hgp
        have hpp := get_ok_iff.mp hgp
        split at h
        · simp only [Except.ok.injEq, Prod.mk.injEq] at h
          obtain ⟨rfl, _⟩ := h
          refine hm3.trans (MainSameArr.put hpp ?_)
          cases hh : d.isHorizontal <;> simp [MainSame, hh]
        · simp only [Except.ok.injEq, Prod.mk.injEq] at h
          obtain ⟨rfl, _⟩ := h
          exact hm3

theorem cursiveCross_main {p q : Array Pos} {i j dep : Nat} {d : Dir} {f : Bool} {enX enY exX exY : Int}
    (h : cursiveCross p i j d f enX enY exX exY = .ok (q, dep)) : MainSameArr d p q := by
  unfold cursiveCross at h
  split at h <;> exact cursiveAttach_main h

theorem advSum_fst_zero (q : Array Pos) (lo n : Nat)
    (h : ∀ k, lo ≤ k → k < lo + n → ((q[k]?).getD {}).xa = 0) : (advSum q lo n).1 = 0 := by
  induction n generalizing lo with
  | zero => rfl
  | succ n ih =>
    simp only [advSum]
    rw [ih (lo + 1) (fun k h1 h2 => h k (by omega) (by omega)), h lo (Nat.le_refl _) (by omega)]; rfl

theorem advSum_snd_zero (q : Array Pos) (lo n : Nat)
    (h : ∀ k, lo ≤ k → k < lo + n → ((q[k]?).getD {}).ya = 0) : (advSum q lo n).2 = 0 := by
  induction n generalizing lo with
  | zero => rfl
  | succ n ih =>
    simp only [advSum]
    rw [ih (lo + 1) (fun k h1 h2 => h k (by omega) (by omega)), h lo (Nat.le_refl _) (by omega)]; rfl

/-- forward pen: the sum up to `j` is the sum up to `i` plus the advance of `i` plus the gap -/
theorem advSum_gap_fwd (q : Array Pos) (i j : Nat) (bi : Pos) (hij : i < j) (hbi : q[i]? = some bi) :
    advSum q 0 j = ((advSum q 0 i).1 + bi.xa + (advSum q (i + 1) (j - i - 1)).1,
                    (advSum q 0 i).2 + bi.ya + (advSum q (i + 1) (j - i - 1)).2) := by
  have e1 : j = i + (1 + (j - i - 1)) := by omega
  have h1 := advSum_split q 0 i (1 + (j - i - 1))
  have h2 := advSum_split q (0 + i) 1 (j - i - 1)
  rw [← e1] at h1
  rw [h1, h2, advSum_one]
  have : 0 + i = i := by omega
  rw [this, hbi]
  ext <;> simp <;> omega

/-- backward pen: the sum after `i` is the gap plus the advance of `j` plus the sum after `j` -/
theorem advSum_gap_bwd (q : Array Pos) (i j len : Nat) (bj : Pos) (hij : i < j) (hj : j < len) (hbj : q[j]? = some bj) :
    advSum q (i + 1) (len - 1 - i) =
      ((advSum q (i + 1) (j - i - 1)).1 + bj.xa + (advSum q (j + 1) (len - 1 - j)).1,
       (advSum q (i + 1) (j - i - 1)).2 + bj.ya + (advSum q (j + 1) (len - 1 - j)).2) := by
  have e1 : len - 1 - i = (j - i - 1) + (1 + (len - 1 - j)) := by omega
  have h1 := advSum_split q (i + 1) (j - i - 1) (1 + (len - 1 - j))
  have h2 := advSum_split q (i + 1 + (j - i - 1)) 1 (len - 1 - j)
  rw [← e1] at h1
  rw [h1, h2, advSum_one]
  have : i + 1 + (j - i - 1) = j := by omega
  rw [this, hbj]
  ext <;> simp <;> omega



/-- what the main-axis block of the cursive lookup makes of the exit-side glyph -/
def mainI (d : Dir) (pi : Pos) (exX exY : Int) : Pos :=
  match d with
  | .ltr => { pi with xa := exX + pi.xo }
  | .rtl => { pi with xa := pi.xa - (exX + pi.xo), xo := pi.xo - (exX + pi.xo) }
  | .ttb => { pi with ya := exY + pi.yo }
  | .btt => { pi with ya := pi.ya - (exY + pi.yo), yo := pi.yo - (exY + pi.yo) }
  | .invalid => pi

/-- … and of the entry-side glyph -/
def mainJ (d : Dir) (pj : Pos) (enX enY : Int) : Pos :=
  match d with
  | .ltr => { pj with xa := pj.xa - (enX + pj.xo), xo := pj.xo - (enX + pj.xo) }
  | .rtl => { pj with xa := enX + pj.xo }
  | .ttb => { pj with ya := pj.ya - (enY + pj.yo), yo := pj.yo - (enY + pj.yo) }
  | .btt => { pj with ya := enY }
  | .invalid => pj

theorem cursiveMain_spec {p p1 : Array Pos} {i j : Nat} {d : Dir} {enX enY exX exY : Int} {pi pj : Pos}
    (h : cursiveMain p i j d enX enY exX exY = .ok p1) (hij : i ≠ j)
    (hpi : p[i]? = some pi) (hpj : p[j]? = some pj) :
    p1.size = p.size ∧ (∀ k, k ≠ i → k ≠ j → p1[k]? = p[k]?) ∧
      p1[i]? = some (mainI d pi exX exY) ∧ p1[j]? = some (mainJ d pj enX enY) := by
  have hi := lt_of_get? hpi
  have hj := lt_of_get? hpj
  unfold cursiveMain at h
  rw [get_ok_iff.mpr hpi, get_ok_iff.mpr hpj] at h
  simp only at h
  have key : ∀ (vi vj : Pos), p1 = put (put p i vi) j vj →
      p1.size = p.size ∧ (∀ k, k ≠ i → k ≠ j → p1[k]? = p[k]?) ∧ p1[i]? = some vi ∧ p1[j]? = some vj := by
    intro vi vj e
    subst e
    refine ⟨by simp, ?_, ?_, ?_⟩
    · intro k h1 h2; rw [put_get?_ne _ _ (Ne.symm h2), put_get?_ne _ _ (Ne.symm h1)]
    · rw [put_get?_ne _ _ (Ne.symm hij), put_get?_self _ _ hi]
    · rw [put_get?_self _ _ (by simpa using hj)]
  have hg : ∀ vi, get (put p i vi) j = .ok pj := by
    intro vi; rw [get_ok_iff, put_get?_ne _ _ hij]; exact hpj
  cases d
  · simp only [hg, Except.ok.injEq] at h; exact key _ _ h.symm
  · simp only [hg, Except.ok.injEq] at h; exact key _ _ h.symm
  · simp only [hg, Except.ok.injEq] at h; exact key _ _ h.symm
  · simp only [hg, Except.ok.injEq] at h; exact key _ _ h.symm
  · simp only [Except.ok.injEq] at h
    subst h
    exact ⟨rfl, fun _ _ _ => rfl, hpi, hpj⟩

/-- the state after `cursiveApply`, as far as the main axis is concerned -/
theorem cursiveApply_main {p q : Array Pos} {i j dep : Nat} {d : Dir} {f : Bool} {enX enY exX exY : Int}
    {pi pj : Pos} (h : cursiveApply p i j d f enX enY exX exY = .ok (some (q, dep))) (hij : i ≠ j)
    (hpi : p[i]? = some pi) (hpj : p[j]? = some pj) :
    q.size = p.size ∧
    (∃ bi, q[i]? = some bi ∧ MainSame d (mainI d pi exX exY) bi) ∧
    (∃ bj, q[j]? = some bj ∧ MainSame d (mainJ d pj enX enY) bj) ∧
    (∀ (k : Nat) (b : Pos), k ≠ i → k ≠ j → p[k]? = some b → ∃ b', q[k]? = some b' ∧ MainSame d b b') := by
  unfold cursiveApply at h
  split at h
  · cases h
  · split at h
    · cases h
    · rename_i p1 hmain
      split at h
      · cases h
      · rename_i r hcross
        simp only [Except.ok.injEq, Option.some.injEq] at h
        subst h
        obtain ⟨hs1, hne1, hi1, hj1⟩ := cursiveMain_spec hmain hij hpi hpj
        have hm := cursiveCross_main hcross
        refine ⟨by rw [hm.1, hs1], hm.2 i _ hi1, hm.2 j _ hj1, ?_⟩
        intro k b h1 h2 hk
        exact hm.2 k b (by rw [hne1 k h1 h2]; exact hk)

theorem cursive_coincide_ltr {p q : Array Pos} {i j len dep : Nat} {f : Bool} {enX enY exX exY : Int}
    (h : cursiveApply p i j .ltr f enX enY exX exY = .ok (some (q, dep))) (hij : i < j) (hj : j < len) (hl : len ≤ p.size)
    (hz : ∀ (k : Nat) (b : Pos), i < k → k < j → p[k]? = some b → b.xa = 0) :
    (penOrigin (visible q len .ltr) (outIdx .ltr len j)).1 + enX =
      (penOrigin (visible q len .ltr) (outIdx .ltr len i)).1 + exX := by
  have hip : i < p.size := by omega
  have hjp : j < p.size := by omega
  have hpi : p[i]? = some p[i] := by simp [hip]
  have hpj : p[j]? = some p[j] := by simp [hjp]
  obtain ⟨hs, ⟨bi, hbi, mi⟩, ⟨bj, hbj, mj⟩, hrest⟩ := cursiveApply_main h (by omega) hpi hpj
  have hlq : len ≤ q.size := by omega
  rw [penOrigin_visible q len .ltr i bi hlq (by omega) hbi, penOrigin_visible q len .ltr j bj hlq hj hbj]
  simp only [Dir.isBackward, Dir.isForward, Bool.not_true, Bool.false_eq_true, if_false]
  rw [advSum_gap_fwd q i j bi hij hbi]
  have hgap : (advSum q (i + 1) (j - i - 1)).1 = 0 := by
    apply advSum_fst_zero
    intro k h1 h2
    have hkp : k < p.size := by omega
    obtain ⟨b', hb', hm⟩ := hrest k p[k] (by omega) (by omega) (by simp [hkp])
    rw [hb']; simp only [Option.getD_some]
    rw [hm.1]; exact hz k p[k] (by omega) (by omega) (by simp [hkp])
  obtain ⟨mi1, _, mi3⟩ := mi
  obtain ⟨_, _, mj3⟩ := mj
  simp only [mainI, mainJ, Dir.isHorizontal, if_true] at mi1 mi3 mj3
  simp only [hgap]
  omega

theorem cursive_coincide_rtl {p q : Array Pos} {i j len dep : Nat} {f : Bool} {enX enY exX exY : Int}
    (h : cursiveApply p i j .rtl f enX enY exX exY = .ok (some (q, dep))) (hij : i < j) (hj : j < len) (hl : len ≤ p.size)
    (hz : ∀ (k : Nat) (b : Pos), i < k → k < j → p[k]? = some b → b.xa = 0) :
    (penOrigin (visible q len .rtl) (outIdx .rtl len j)).1 + enX =
      (penOrigin (visible q len .rtl) (outIdx .rtl len i)).1 + exX := by
  have hip : i < p.size := by omega
  have hjp : j < p.size := by omega
  have hpi : p[i]? = some p[i] := by simp [hip]
  have hpj : p[j]? = some p[j] := by simp [hjp]
  obtain ⟨hs, ⟨bi, hbi, mi⟩, ⟨bj, hbj, mj⟩, hrest⟩ := cursiveApply_main h (by omega) hpi hpj
  have hlq : len ≤ q.size := by omega
  rw [penOrigin_visible q len .rtl i bi hlq (by omega) hbi, penOrigin_visible q len .rtl j bj hlq hj hbj]
  simp only [Dir.isBackward, Dir.isForward, Bool.not_false, if_true]
  rw [advSum_gap_bwd q i j len bj hij hj hbj]
  have hgap : (advSum q (i + 1) (j - i - 1)).1 = 0 := by
    apply advSum_fst_zero
    intro k h1 h2
    have hkp : k < p.size := by omega
    obtain ⟨b', hb', hm⟩ := hrest k p[k] (by omega) (by omega) (by simp [hkp])
    rw [hb']; simp only [Option.getD_some]
    rw [hm.1]; exact hz k p[k] (by omega) (by omega) (by simp [hkp])
  obtain ⟨_, _, mi3⟩ := mi
  obtain ⟨mj1, _, mj3⟩ := mj
  simp only [mainI, mainJ, Dir.isHorizontal, if_true] at mi3 mj1 mj3
  simp only [hgap]
  omega

theorem cursive_coincide_ttb {p q : Array Pos} {i j len dep : Nat} {f : Bool} {enX enY exX exY : Int}
    (h : cursiveApply p i j .ttb f enX enY exX exY = .ok (some (q, dep))) (hij : i < j) (hj : j < len) (hl : len ≤ p.size)
    (hz : ∀ (k : Nat) (b : Pos), i < k → k < j → p[k]? = some b → b.ya = 0) :
    (penOrigin (visible q len .ttb) (outIdx .ttb len j)).2 + enY =
      (penOrigin (visible q len .ttb) (outIdx .ttb len i)).2 + exY := by
  have hip : i < p.size := by omega
  have hjp : j < p.size := by omega
  have hpi : p[i]? = some p[i] := by simp [hip]
  have hpj : p[j]? = some p[j] := by simp [hjp]
  obtain ⟨hs, ⟨bi, hbi, mi⟩, ⟨bj, hbj, mj⟩, hrest⟩ := cursiveApply_main h (by omega) hpi hpj
  have hlq : len ≤ q.size := by omega
  rw [penOrigin_visible q len .ttb i bi hlq (by omega) hbi, penOrigin_visible q len .ttb j bj hlq hj hbj]
  simp only [Dir.isBackward, Dir.isForward, Bool.not_true, Bool.false_eq_true, if_false]
  rw [advSum_gap_fwd q i j bi hij hbi]
  have hgap : (advSum q (i + 1) (j - i - 1)).2 = 0 := by
    apply advSum_snd_zero
    intro k h1 h2
    have hkp : k < p.size := by omega
    obtain ⟨b', hb', hm⟩ := hrest k p[k] (by omega) (by omega) (by simp [hkp])
    rw [hb']; simp only [Option.getD_some]
    rw [hm.2.1]; exact hz k p[k] (by omega) (by omega) (by simp [hkp])
  obtain ⟨_, mi2, mi3⟩ := mi
  obtain ⟨_, _, mj3⟩ := mj
  simp only [mainI, mainJ, Dir.isHorizontal, Bool.false_eq_true, if_false] at mi2 mi3 mj3
  simp only [hgap]
  omega

/-- bottom-to-top: `pos[j].y_advance = entry_y` ignores `pos[j].y_offset`, so the anchors coincide only
    when the entry-side glyph had no vertical offset (inherited from HarfBuzz). -/
theorem cursive_coincide_btt {p q : Array Pos} {i j len dep : Nat} {f : Bool} {enX enY exX exY : Int} {pj : Pos}
    (h : cursiveApply p i j .btt f enX enY exX exY = .ok (some (q, dep))) (hij : i < j) (hj : j < len) (hl : len ≤ p.size)
    (hz : ∀ (k : Nat) (b : Pos), i < k → k < j → p[k]? = some b → b.ya = 0)
    (hpj : p[j]? = some pj) :
    (penOrigin (visible q len .btt) (outIdx .btt len j)).2 + enY =
      (penOrigin (visible q len .btt) (outIdx .btt len i)).2 + exY + pj.yo := by
  have hip : i < p.size := by omega
  have hpi : p[i]? = some p[i] := by simp [hip]
  obtain ⟨hs, ⟨bi, hbi, mi⟩, ⟨bj, hbj, mj⟩, hrest⟩ := cursiveApply_main h (by omega) hpi hpj
  have hlq : len ≤ q.size := by omega
  rw [penOrigin_visible q len .btt i bi hlq (by omega) hbi, penOrigin_visible q len .btt j bj hlq hj hbj]
  simp only [Dir.isBackward, Dir.isForward, Bool.not_false, if_true]
  rw [advSum_gap_bwd q i j len bj hij hj hbj]
  have hgap : (advSum q (i + 1) (j - i - 1)).2 = 0 := by
    apply advSum_snd_zero
    intro k h1 h2
    have hkp : k < p.size := by omega
    obtain ⟨b', hb', hm⟩ := hrest k p[k] (by omega) (by omega) (by simp [hkp])
    rw [hb']; simp only [Option.getD_some]
    rw [hm.2.1]; exact hz k p[k] (by omega) (by omega) (by simp [hkp])
  obtain ⟨_, _, mi3⟩ := mi
  obtain ⟨_, mj2, mj3⟩ := mj
  simp only [mainI, mainJ, Dir.isHorizontal, Bool.false_eq_true, if_false] at mi3 mj2 mj3
  simp only [hgap]
  omega


/-! ### `reverse_cursive_minor_offset` has no nesting budget -/


/-- a forward cursive chain `i → i+1 → … → size-1` makes `reverse_cursive_minor_offset` nest once per link
    (it has no nesting budget) -/
theorem reverse_depth_chain (d : Dir) (np : Nat) :
    ∀ (m i fuel : Nat) (p : Array Pos), i + m + 1 = p.size → m < fuel → (np ≤ i ∨ p.size ≤ np) →
      (∀ b : Pos, p[p.size - 1]? = some b → b.chain = 0) →
      (∀ (k : Nat) (b : Pos), i ≤ k → k + 1 < p.size → p[k]? = some b → b.chain = 1 ∧ b.atype = ATTACH_CURSIVE) →
      ∃ q, reverseCursiveRec fuel p i d np = .ok (q, m + 1) := by
  intro m
  induction m with
  | zero =>
    intro i fuel p him hf hnp hlast _
    obtain ⟨fuel, rfl⟩ : ∃ f, fuel = f + 1 := ⟨fuel - 1, by omega⟩
    have hi : i < p.size := by omega
    have hpi : p[i]? = some p[i] := by simp [hi]
    have : p.size - 1 = i := by omega
    have hc := hlast p[i] (by rw [this]; exact hpi)
    unfold reverseCursiveRec
    rw [get_ok_iff.mpr hpi]
    simp [hc]
  | succ m ih =>
    intro i fuel p him hf hnp hlast hch
    obtain ⟨fuel, rfl⟩ : ∃ f, fuel = f + 1 := ⟨fuel - 1, by omega⟩
    have hi : i < p.size := by omega
    have hpi : p[i]? = some p[i] := by simp [hi]
    generalize p[i] = pi at hpi
    obtain ⟨hc, hty⟩ := hch i pi (Nat.le_refl _) (by omega) hpi
    have hsz1 : (put p i { pi with chain := 0 }).size = p.size := by simp
    have hne : ∀ k, k ≠ i → (put p i { pi with chain := 0 })[k]? = p[k]? := fun k hk => put_get?_ne _ _ (Ne.symm hk)
    obtain ⟨p2, hrec⟩ := ih (i + 1) fuel (put p i { pi with chain := 0 }) (by rw [hsz1]; omega) (by omega)
      (by rw [hsz1]; omega)
      (fun b hb => hlast b (by rw [hsz1, hne (p.size - 1) (by omega)] at hb; exact hb))
      (fun k b h1 h2 hb => hch k b (by omega) (by rw [hsz1] at h2; exact h2) (by rw [← hne k (by omega)]; exact hb))
    have hs2 := (reverseCursive_main d np _ _ _ _ _ hrec).1.1
    have hi2 : i < p2.size := by rw [hs2, hsz1]; exact hi
    have hj2 : i + 1 < p2.size := by rw [hs2, hsz1]; omega
    unfold reverseCursiveRec
    rw [get_ok_iff.mpr hpi]
    have h1 : ¬ (pi.chain = 0 ∨ pi.atype &&& ATTACH_CURSIVE = 0) := by
      rw [hc, hty]; decide
    have h2 : ¬ ((i : Int) + pi.chain < 0) := by omega
    have h3 : ((i : Int) + pi.chain).toNat = i + 1 := by omega
    have h4 : ¬ (i + 1 = np) := by omega
    simp only [h1, if_false, h2, h3, h4, hrec, get_of_lt hi2, get_of_lt hj2]
    exact ⟨_, rfl⟩


/-- the array `[→1, →1, …, →1, root]` of forward cursive links -/
def fwdChain (n : Nat) : Array Pos :=
  (Array.range n).map (fun k => if k + 1 < n then { chain := 1, atype := ATTACH_CURSIVE } else {})

theorem fwdChain_get? (n k : Nat) (h : k < n) :
    (fwdChain n)[k]? = some (if k + 1 < n then { chain := 1, atype := ATTACH_CURSIVE } else {}) := by
  simp [fwdChain, h]

theorem fwdChain_reverse_depth (n : Nat) (hn : 2 ≤ n) (d : Dir) :
    ∃ q, reverseCursiveRec (fuelFor (fwdChain n)) (fwdChain n) 1 d 0 = .ok (q, n - 1) := by
  have hsz : (fwdChain n).size = n := by simp [fwdChain]
  have := reverse_depth_chain d 0 (n - 2) 1 (fuelFor (fwdChain n)) (fwdChain n) (by omega)
    (by unfold fuelFor; omega) (Or.inl (by omega))
    (by intro b hb; rw [hsz, fwdChain_get? n (n - 1) (by omega)] at hb
        have : ¬ (n - 1 + 1 < n) := by omega
        simp only [this, if_false, Option.some.injEq] at hb; subst hb; rfl)
    (by intro k b _ h2 hb; rw [hsz] at h2; rw [fwdChain_get? n k (by omega)] at hb
        simp only [h2, if_true, Option.some.injEq] at hb; subst hb; exact ⟨rfl, rfl⟩)
  have e : n - 2 + 1 = n - 1 := by omega
  rw [e] at this; exact this

/-- cross-axis result of `position_finish_offsets` for a cursively attached glyph, and what stays put -/
theorem cursive_cross (d : Dir) (o : Array Pos) (len : Nat) (rank : Nat → Nat) (need : Nat → Nat → Nat)
    (hlen : len ≤ o.size)
    (hacyc : ∀ (k : Nat) (a : Pos) (j : Nat), o[k]? = some a → a.chain ≠ 0 → target k a.chain len = some j → rank j < rank k)
    (hmark : ∀ (k : Nat) (a : Pos) (j : Nat), o[k]? = some a → a.chain ≠ 0 → a.atype = ATTACH_MARK →
      target k a.chain len = some j → j < k)
    (hneed : NeedOK o len need) :
    ∃ q dm, positionFinishOffsets o len d true = .ok (q, dm) ∧ q.size = o.size ∧
      -- advances never change
      (∀ (k : Nat) (a : Pos), o[k]? = some a → ∃ b, q[k]? = some b ∧ b.xa = a.xa ∧ b.ya = a.ya) ∧
      -- a glyph that is not attached keeps its offsets
      (∀ (k : Nat) (a : Pos), k < len → o[k]? = some a → a.chain = 0 → ∃ b, q[k]? = some b ∧ b.xo = a.xo ∧ b.yo = a.yo) ∧
      -- a cursively attached glyph keeps its main-axis offset and adds its parent's final cross-axis offset
      (∀ (i : Nat) (a : Pos) (j : Nat), i < len → o[i]? = some a → a.chain ≠ 0 → a.atype = ATTACH_CURSIVE →
        target i a.chain len = some j → ∃ b c, q[i]? = some b ∧ q[j]? = some c ∧
          (if d.isHorizontal then b.xo = a.xo ∧ b.yo = c.yo + a.yo else b.yo = a.yo ∧ b.xo = c.xo + a.xo)) := by
  obtain ⟨q, dm, hfin, hsame, _, hspec⟩ := finish_spec d o len rank need hlen hacyc hmark hneed
  refine ⟨q, dm, hfin, hsame.1, ?_, ?_, ?_⟩
  · intro k a hk
    obtain ⟨b, hb, hst⟩ := hsame.2 k a hk
    exact ⟨b, hb, hst.1, hst.2.1⟩
  · intro k a hk hka hc
    obtain ⟨b, hb, _, hrel⟩ := hspec k a hk hka
    unfold RelAt at hrel
    simp only [hc, if_true] at hrel
    exact ⟨b, hb, hrel⟩
  · intro i a j hi hoi hc hty ht
    obtain ⟨b, hb, _, hrel⟩ := hspec i a hi hoi
    unfold RelAt at hrel
    simp only [hc, if_false, ht] at hrel
    obtain ⟨c, hcj, _, hoff⟩ := hrel
    refine ⟨b, c, hb, hcj, ?_⟩
    unfold attachOff at hoff
    have h21 : ATTACH_CURSIVE ≠ ATTACH_MARK := by decide
    simp only [hty, h21, if_false, if_true] at hoff
    cases hh : d.isHorizontal
    · simp only [hh, Bool.false_eq_true, if_false, Prod.mk.injEq] at hoff ⊢
      omega
    · simp only [hh, if_true, Prod.mk.injEq] at hoff ⊢
      omega

theorem wrap16_id {x : Int} (h : x.natAbs ≤ CHAIN_MAX) : wrap16 x = x := by
  unfold CHAIN_MAX at h; unfold wrap16; omega

theorem markArrayApply_spec {p q : Array Pos} {idx gp : Nat} {mx my bx byy : Int} {a : Pos}
    (h : markArrayApply p idx gp mx my bx byy = .ok (some q)) (ha : p[idx]? = some a) (hgp : gp < idx) :
    idx - gp ≤ CHAIN_MAX ∧
    q = put p idx { a with xo := bx - mx, yo := byy - my, atype := ATTACH_MARK, chain := (gp : Int) - (idx : Int) } ∧
    target idx ((gp : Int) - (idx : Int)) p.size = some gp := by
  unfold markArrayApply at h
  split at h
  · cases h
  · rename_i hd
    simp only [get_ok_iff.mpr ha, Except.ok.injEq, Option.some.injEq] at h
    have hd' : ((gp : Int) - (idx : Int)).natAbs ≤ CHAIN_MAX := by omega
    rw [wrap16_id hd'] at h
    refine ⟨by omega, h.symm, ?_⟩
    have hi := lt_of_get? ha
    unfold target
    simp only
    have h1 : ¬ ((idx : Int) + ((gp : Int) - (idx : Int)) < 0) := by omega
    have h2 : ((idx : Int) + ((gp : Int) - (idx : Int))).toNat = gp := by omega
    simp only [h1, if_false, h2]
    have : ¬ gp ≥ p.size := by omega
    simp [this]

/-! ### no wrapped link is ever stored (D13, second half, fixed) -/

/-- every stored `attach_chain` is a genuine distance: within `±i16::MAX`, so neither the `as i16` cast nor
    the `i16` negation of `reverse_cursive_minor_offset` ever wraps -/
def ChainOK (p : Array Pos) : Prop :=
  ∀ (k : Nat) (b : Pos), p[k]? = some b → b.chain.natAbs ≤ CHAIN_MAX

theorem ChainOK.put {p : Array Pos} {i : Nat} {v : Pos} (h : ChainOK p) (hv : v.chain.natAbs ≤ CHAIN_MAX) :
    ChainOK (put p i v) := by
  intro k b hk
  rw [put_get?] at hk
  split at hk
  · split at hk
    · cases hk; exact hv
    · cases hk
  · exact h k b hk

theorem markArrayApply_chainOK {p q : Array Pos} {idx gp : Nat} {mx my bx byy : Int}
    (h : markArrayApply p idx gp mx my bx byy = .ok (some q)) (hp : ChainOK p) : ChainOK q := by
  unfold markArrayApply at h
  split at h
  · cases h
  · rename_i hd
    split at h
    · cases h
    · simp only [Except.ok.injEq, Option.some.injEq] at h
      subst h
      have hd' : ((gp : Int) - (idx : Int)).natAbs ≤ CHAIN_MAX := by omega
      apply hp.put
      simp only
      rw [wrap16_id hd']; exact hd'

theorem reverseCursive_chainOK (d : Dir) (np : Nat) :
    ∀ (fuel : Nat) (p q : Array Pos) (i dep : Nat),
      reverseCursiveRec fuel p i d np = .ok (q, dep) → ChainOK p → ChainOK q := by
  intro fuel
  induction fuel with
  | zero => intro p q i dep h; simp [reverseCursiveRec] at h
  | succ fuel ih =>
    intro p q i dep h hp
    unfold reverseCursiveRec at h
    split at h
    · cases h
    · rename_i pi hg
      have hpi := get_ok_iff.mp hg
      have hci := hp i pi hpi
      split at h
      · simp only [Except.ok.injEq, Prod.mk.injEq] at h
        obtain ⟨rfl, rfl⟩ := h; exact hp
      · have hp1 : ChainOK (put p i { pi with chain := 0 }) := hp.put (by simp)
        simp only at h
        split at h
        · cases h
        · split at h
          · simp only [Except.ok.injEq, Prod.mk.injEq] at h
            obtain ⟨rfl, rfl⟩ := h; exact hp1
          · split at h
            · cases h
            · rename_i p2 dep' hrec
              have hp2 := ih _ _ _ _ hrec hp1
              split at h
              · cases h
              · cases h
              · simp only [Except.ok.injEq, Prod.mk.injEq] at h
                obtain ⟨rfl, rfl⟩ := h
                apply hp2.put
                simp only
                have : (-pi.chain).natAbs ≤ CHAIN_MAX := by omega
                rw [wrap16_id this]; exact this

theorem cursiveMain_chainOK {p p1 : Array Pos} {i j : Nat} {d : Dir} {enX enY exX exY : Int}
    (h : cursiveMain p i j d enX enY exX exY = .ok p1) (hp : ChainOK p) : ChainOK p1 := by
  unfold cursiveMain at h
  split at h
  · cases h
  · cases h
  · rename_i pi pj hgi hgj
    have hci := hp i pi (get_ok_iff.mp hgi)
    have step : ∀ (vi : Pos), vi.chain = pi.chain → ChainOK (put p i vi) :=
      fun vi hvi => hp.put (by rw [hvi]; exact hci)
    cases d <;> simp only at h
    · split at h
      · cases h
      · rename_i pj' hg'
        simp only [Except.ok.injEq] at h; subst h
        have hj' := get_ok_iff.mp hg'
        exact (step _ (by rfl)).put ((step _ (by rfl)) j pj' hj')
    · split at h
      · cases h
      · rename_i pj' hg'
        simp only [Except.ok.injEq] at h; subst h
        have hj' := get_ok_iff.mp hg'
        exact (step _ (by rfl)).put ((step _ (by rfl)) j pj' hj')
    · split at h
      · cases h
      · rename_i pj' hg'
        simp only [Except.ok.injEq] at h; subst h
        have hj' := get_ok_iff.mp hg'
        exact (step _ (by rfl)).put ((step _ (by rfl)) j pj' hj')
    · split at h
      · cases h
      · rename_i pj' hg'
        simp only [Except.ok.injEq] at h; subst h
        have hj' := get_ok_iff.mp hg'
        exact (step _ (by rfl)).put ((step _ (by rfl)) j pj' hj')
    · simp only [Except.ok.injEq] at h; subst h; exact hp

theorem cursiveAttach_chainOK {p q : Array Pos} {c pa dep : Nat} {d : Dir} {xOff yOff : Int}
    (h : cursiveAttach p c pa d xOff yOff = .ok (q, dep)) (hp : ChainOK p)
    (hd : ((pa : Int) - (c : Int)).natAbs ≤ CHAIN_MAX) : ChainOK q := by
  unfold cursiveAttach at h
  rw [reverseCursive_eq] at h
  split at h
  · cases h
  · rename_i p2 dep' hrev
    have hp2 := reverseCursive_chainOK d _ _ _ _ _ _ hrev hp
    split at h
    · cases h
    · rename_i pc hgc
      simp only at h
      have hp3 : ChainOK (put p2 c
          (if d.isHorizontal = true then
            { pc with atype := ATTACH_CURSIVE, chain := wrap16 ((pa : Int) - (c : Int)), yo := yOff }
           else
            { pc with atype := ATTACH_CURSIVE, chain := wrap16 ((pa : Int) - (c : Int)), xo := xOff })) := by
        apply hp2.put
        cases d.isHorizontal <;> simp only [Bool.false_eq_true, if_false, if_true] <;> rw [wrap16_id hd] <;> exact hd
      split at h
      · cases h
      · rename_i pp hgp
        split at h
        · simp only [Except.ok.injEq, Prod.mk.injEq] at h
          obtain ⟨rfl, _⟩ := h
          apply hp3.put
          cases d.isHorizontal <;> simp
        · simp only [Except.ok.injEq, Prod.mk.injEq] at h
          obtain ⟨rfl, _⟩ := h
          exact hp3

theorem cursiveApply_chainOK {p q : Array Pos} {i j dep : Nat} {d : Dir} {f : Bool} {enX enY exX exY : Int}
    (h : cursiveApply p i j d f enX enY exX exY = .ok (some (q, dep))) (hp : ChainOK p) : ChainOK q := by
  unfold cursiveApply at h
  split at h
  · cases h
  · rename_i hg
    split at h
    · cases h
    · rename_i p1 hmain
      have hp1 := cursiveMain_chainOK hmain hp
      split at h
      · cases h
      · rename_i r hcross
        simp only [Except.ok.injEq, Option.some.injEq] at h
        subst h
        unfold cursiveCross at hcross
        have hd1 : ((j : Int) - (i : Int)).natAbs ≤ CHAIN_MAX := by omega
        have hd2 : ((i : Int) - (j : Int)).natAbs ≤ CHAIN_MAX := by omega
        split at hcross
        · exact cursiveAttach_chainOK hcross hp1 hd1
        · exact cursiveAttach_chainOK hcross hp1 hd2

end RbModel.Gpos

/-! ## kern -/

namespace RbModel.Kern
open RbModel.Gpos

theorem geti_ok_iff {a : Array KInfo} {i : Nat} {x : KInfo} : geti a i = .ok x ↔ a[i]? = some x := by
  unfold geti; split <;> simp_all

theorem geti_of_lt {a : Array KInfo} {i : Nat} (h : i < a.size) : geti a i = .ok a[i] := by
  rw [geti_ok_iff]; simp [h]

/-- `iter.next()` returns the first later glyph that is not skipped, and only if it may match -/
theorem iterNext_spec (infos : Array KInfo) (mask : Nat) :
    ∀ (n idx j : Nat), iterNext infos mask idx n = .ok (some j) →
      idx < j ∧ j ≤ idx + n ∧ (∃ g, infos[j]? = some g ∧ matchKind mask g = 1) ∧
      ∀ k, idx < k → k < j → ∃ g, infos[k]? = some g ∧ matchKind mask g = 0 := by
  intro n
  induction n with
  | zero => intro idx j h; simp [iterNext] at h
  | succ n ih =>
    intro idx j h
    unfold iterNext at h
    split at h
    · cases h
    · rename_i g hg
      have hg' := geti_ok_iff.mp hg
      split at h
      · rename_i hm
        simp only [Except.ok.injEq, Option.some.injEq] at h
        subst h
        exact ⟨by omega, by omega, ⟨g, hg', hm⟩, fun k h1 h2 => by omega⟩
      · cases h
      · rename_i h1 h2
        obtain ⟨a1, a2, a3, a4⟩ := ih (idx + 1) j h
        refine ⟨by omega, by omega, a3, ?_⟩
        intro k hk1 hk2
        by_cases e : k = idx + 1
        · subst e
          refine ⟨g, hg', ?_⟩
          have : matchKind mask g < 3 := by
            unfold matchKind
            split
            · omega
            · simp only; split
              · omega
              · split <;> omega
          have h1' : matchKind mask g ≠ 1 := h1
          have h2' : matchKind mask g ≠ 2 := h2
          omega
        · exact a4 k (by omega) hk2

/-- the split of one kerning value -/
theorem kern_split (kern : Int) : kern / 2 + (kern - kern / 2) = kern := by omega

/-- `kern1 = kern >> 1` is the floor half: the two parts differ by at most one -/
theorem kern_halves (kern : Int) : 0 ≤ (kern - kern / 2) - kern / 2 ∧ (kern - kern / 2) - kern / 2 ≤ 1 := by omega

theorem kernPair_spec {p q : Array Pos} {i j : Nat} {kern : Int} {h cs fl : Bool} {pi pj : Pos}
    (hk : kernPair p i j kern h cs = .ok (q, fl)) (hij : i ≠ j) (hpi : p[i]? = some pi) (hpj : p[j]? = some pj) :
    q.size = p.size ∧ fl = cs ∧ (∀ k, k ≠ i → k ≠ j → q[k]? = p[k]?) ∧
    q[i]? = some (if cs then pi else if h then { pi with xa := pi.xa + kern / 2 } else { pi with ya := pi.ya + kern / 2 }) ∧
    q[j]? = some (if cs then (if h then { pj with yo := kern } else { pj with xo := kern })
                  else if h then { pj with xa := pj.xa + (kern - kern / 2), xo := pj.xo + (kern - kern / 2) }
                  else { pj with ya := pj.ya + (kern - kern / 2), yo := pj.yo + (kern - kern / 2) }) := by
  have hi := lt_of_get? hpi
  have hj := lt_of_get? hpj
  have hgj : ∀ v, get (put p i v) j = .ok pj := by
    intro v; rw [get_ok_iff, put_get?_ne _ _ hij]; exact hpj
  unfold kernPair at hk
  cases h <;> cases cs <;>
    simp only [Bool.false_eq_true, if_false, if_true, get_ok_iff.mpr hpi, get_ok_iff.mpr hpj, hgj,
      Except.ok.injEq, Prod.mk.injEq] at hk <;>
    obtain ⟨rfl, rfl⟩ := hk
  · refine ⟨by simp, rfl, ?_, ?_, ?_⟩
    · intro k h1 h2; rw [put_get?_ne _ _ (Ne.symm h2), put_get?_ne _ _ (Ne.symm h1)]
    · rw [put_get?_ne _ _ (Ne.symm hij), put_get?_self _ _ hi]; simp
    · rw [put_get?_self _ _ (by simpa using hj)]; simp
  · refine ⟨by simp, rfl, ?_, ?_, ?_⟩
    · intro k h1 h2; rw [put_get?_ne _ _ (Ne.symm h2)]
    · rw [put_get?_ne _ _ (Ne.symm hij)]; simpa using hpi
    · rw [put_get?_self _ _ hj]; simp
  · refine ⟨by simp, rfl, ?_, ?_, ?_⟩
    · intro k h1 h2; rw [put_get?_ne _ _ (Ne.symm h2), put_get?_ne _ _ (Ne.symm h1)]
    · rw [put_get?_ne _ _ (Ne.symm hij), put_get?_self _ _ hi]; simp
    · rw [put_get?_self _ _ (by simpa using hj)]; simp
  · refine ⟨by simp, rfl, ?_, ?_, ?_⟩
    · intro k h1 h2; rw [put_get?_ne _ _ (Ne.symm h2)]
    · rw [put_get?_ne _ _ (Ne.symm hij)]; simpa using hpi
    · rw [put_get?_self _ _ hj]; simp

/-- `kernBody` calls its continuation only at a later index -/
theorem kernBody_congr (infos : Array KInfo) (len mask : Nat) (h cs : Bool) (kernOf : Nat → Nat → Int)
    (k k' : Nat → Array Pos → Bool → M (Array Pos × Bool)) (i : Nat) (p : Array Pos) (fl : Bool)
    (hk : ∀ i' p' fl', i < i' → k i' p' fl' = k' i' p' fl') :
    kernBody infos len mask h cs kernOf k i p fl = kernBody infos len mask h cs kernOf k' i p fl := by
  unfold kernBody
  split
  · rfl
  · split
    · rfl
    · split
      · exact hk _ _ _ (by omega)
      · cases hit : iterNext infos mask i (len - 1 - i) with
        | error e => rfl
        | ok r =>
          cases r with
          | none => exact hk _ _ _ (by omega)
          | some j =>
            have hj := (iterNext_spec infos mask _ _ _ hit).1
            simp only
            split
            · rfl
            · split
              · split
                · rfl
                · exact hk _ _ _ hj
              · exact hk _ _ _ hj

theorem machineKernLoop_fuel (infos : Array KInfo) (len mask : Nat) (h cs : Bool) (kernOf : Nat → Nat → Int) :
    ∀ (fuel i : Nat) (p : Array Pos) (fl : Bool), len < i + fuel →
      machineKernLoop infos len mask h cs kernOf (fuel + 1) i p fl =
      machineKernLoop infos len mask h cs kernOf fuel i p fl := by
  intro fuel
  induction fuel with
  | zero =>
    intro i p fl hf
    have : ¬ i < len := by omega
    simp [machineKernLoop, kernBody, this]
  | succ fuel ih =>
    intro i p fl hf
    show kernBody infos len mask h cs kernOf _ i p fl = kernBody infos len mask h cs kernOf _ i p fl
    apply kernBody_congr
    intro i' p' fl' hi'
    exact ih i' p' fl' (by omega)

/-- any fuel above `len - i` gives the same result as the fuel `machine_kern` passes -/
theorem machineKernLoop_fuel_any (infos : Array KInfo) (len mask : Nat) (h cs : Bool) (kernOf : Nat → Nat → Int)
    (i : Nat) (p : Array Pos) (fl : Bool) (fuel extra : Nat) (hf : len < i + fuel) :
    machineKernLoop infos len mask h cs kernOf (fuel + extra) i p fl =
    machineKernLoop infos len mask h cs kernOf fuel i p fl := by
  induction extra with
  | zero => rfl
  | succ e ih =>
    rw [← Nat.add_assoc, machineKernLoop_fuel _ _ _ _ _ _ _ _ _ _ (by omega)]; exact ih

/-- with an empty kern mask `machine_kern` touches nothing -/
theorem machineKernLoop_mask_off (infos : Array KInfo) (len : Nat) (h cs : Bool) (kernOf : Nat → Nat → Int)
    (hlen : len ≤ infos.size) :
    ∀ (fuel i : Nat) (p : Array Pos) (fl : Bool),
      machineKernLoop infos len 0 h cs kernOf fuel i p fl = .ok (p, fl) := by
  intro fuel
  induction fuel with
  | zero => intro i p fl; rfl
  | succ fuel ih =>
    intro i p fl
    show kernBody infos len 0 h cs kernOf _ i p fl = _
    unfold kernBody
    split
    · rfl
    · rename_i hi
      have hi' : i < len := by omega
      rw [geti_of_lt (by omega)]
      simp [ih]

theorem kernPair_frame {p q : Array Pos} {i j : Nat} {kern : Int} {h cs f : Bool}
    (hkp : kernPair p i j kern h cs = .ok (q, f)) :
    q.size = p.size ∧ ∀ k, k ≠ i → k ≠ j → q[k]? = p[k]? := by
  unfold kernPair at hkp
  have two : ∀ (vi vj : Pos), q = put (put p i vi) j vj →
      q.size = p.size ∧ ∀ k, k ≠ i → k ≠ j → q[k]? = p[k]? := by
    intro vi vj e; subst e
    exact ⟨by simp, fun k h1 h2 => by rw [put_get?_ne _ _ (Ne.symm h2), put_get?_ne _ _ (Ne.symm h1)]⟩
  have one : ∀ (vj : Pos), q = put p j vj →
      q.size = p.size ∧ ∀ k, k ≠ i → k ≠ j → q[k]? = p[k]? := by
    intro vj e; subst e
    exact ⟨by simp, fun k _ h2 => by rw [put_get?_ne _ _ (Ne.symm h2)]⟩
  cases h <;> cases cs <;> simp only [Bool.false_eq_true, if_false, if_true] at hkp
  · split at hkp
    · cases hkp
    · split at hkp
      · cases hkp
      · simp only [Except.ok.injEq, Prod.mk.injEq] at hkp; exact two _ _ hkp.1.symm
  · split at hkp
    · cases hkp
    · simp only [Except.ok.injEq, Prod.mk.injEq] at hkp; exact one _ hkp.1.symm
  · split at hkp
    · cases hkp
    · split at hkp
      · cases hkp
      · simp only [Except.ok.injEq, Prod.mk.injEq] at hkp; exact two _ _ hkp.1.symm
  · split at hkp
    · cases hkp
    · simp only [Except.ok.injEq, Prod.mk.injEq] at hkp; exact one _ hkp.1.symm

theorem matchKind_one {mask : Nat} {g : KInfo} (h : matchKind mask g = 1) :
    g.mask &&& mask ≠ 0 ∧ g.mark = false ∧ g.di = false := by
  unfold matchKind at h
  split at h
  · omega
  · simp only at h
    split at h
    · omega
    · split at h
      · rename_i h1 h2 h3; exact ⟨h3, by simpa using h1, by simpa using h2⟩
      · omega

/-- glyphs outside the kern feature's range (mask bit clear) keep their positions -/
theorem machineKernLoop_frame (infos : Array KInfo) (len mask : Nat) (h cs : Bool) (kernOf : Nat → Nat → Int) :
    ∀ (fuel i : Nat) (p q : Array Pos) (fl fl' : Bool),
      machineKernLoop infos len mask h cs kernOf fuel i p fl = .ok (q, fl') →
      q.size = p.size ∧ ∀ (k : Nat) (g : KInfo), infos[k]? = some g → g.mask &&& mask = 0 → q[k]? = p[k]? := by
  intro fuel
  induction fuel with
  | zero =>
    intro i p q fl fl' hq
    simp only [machineKernLoop, Except.ok.injEq, Prod.mk.injEq] at hq
    obtain ⟨rfl, _⟩ := hq
    exact ⟨rfl, fun _ _ _ _ => rfl⟩
  | succ fuel ih =>
    intro i p q fl fl' hq
    change kernBody infos len mask h cs kernOf _ i p fl = _ at hq
    unfold kernBody at hq
    split at hq
    · simp only [Except.ok.injEq, Prod.mk.injEq] at hq
      obtain ⟨rfl, _⟩ := hq
      exact ⟨rfl, fun _ _ _ _ => rfl⟩
    · split at hq
      · cases hq
      · rename_i gi hgi
        have hgi' := geti_ok_iff.mp hgi
        split at hq
        · exact ih _ _ _ _ _ hq
        · rename_i hmi
          split at hq
          · cases hq
          · exact ih _ _ _ _ _ hq
          · rename_i j hit
            obtain ⟨hij, _, ⟨gj', hgj', hmk⟩, _⟩ := iterNext_spec infos mask _ _ _ hit
            have hmj := (matchKind_one hmk).1
            split at hq
            · cases hq
            · simp only at hq
              split at hq
              · split at hq
                · cases hq
                · rename_i p' f hkp
                  obtain ⟨hs, hfr⟩ := ih _ _ _ _ _ hq
                  obtain ⟨hs2, hfr2⟩ := kernPair_frame hkp
                  refine ⟨by rw [hs, hs2], fun k g hk hm => ?_⟩
                  have hki : k ≠ i := by intro e; subst e; rw [hgi'] at hk; cases hk; exact hmi hm
                  have hkj : k ≠ j := by intro e; subst e; rw [hgj'] at hk; cases hk; exact hmj hm
                  rw [hfr k g hk hm, hfr2 k hki hkj]
              · exact ih _ _ _ _ _ hq


/-! ### format 0 binary search -/

/-- keys strictly increasing (what the `kern` format 0 spec requires of the pair list) -/
def SortedKeys (keys : Array Nat) : Prop :=
  ∀ (a b x y : Nat), a < b → keys[a]? = some x → keys[b]? = some y → x < y

theorem bsearchLoop_spec (keys : Array Nat) (needle : Nat) (hs : SortedKeys keys) :
    ∀ (fuel base size : Nat), 1 ≤ size → size ≤ fuel + 1 → base + size ≤ keys.size →
      ∃ r, bsearchLoop keys needle fuel base size = some r ∧ r < keys.size ∧
        ∀ t, keys[t]? = some needle → base ≤ t → t < base + size → r = t := by
  intro fuel
  induction fuel with
  | zero =>
    intro base size h1 h2 h3
    exact ⟨base, rfl, by omega, fun t _ _ _ => by omega⟩
  | succ fuel ih =>
    intro base size h1 h2 h3
    unfold bsearchLoop
    by_cases hsz : size > 1
    · simp only [hsz, if_true]
      have hmid : base + size / 2 < keys.size := by omega
      have hk : keys[base + size / 2]? = some keys[base + size / 2] := by simp [hmid]
      rw [hk]
      simp only
      generalize keys[base + size / 2] = k at hk
      by_cases hgt : k > needle
      · simp only [hgt, if_true]
        obtain ⟨r, hr, hr2, hr3⟩ := ih base (size - size / 2) (by omega) (by omega) (by omega)
        refine ⟨r, hr, hr2, fun t ht hb1 hb2 => hr3 t ht hb1 ?_⟩
        by_cases hlt : t < base + size / 2
        · omega
        · exfalso
          by_cases e : t = base + size / 2
          · subst e; rw [hk] at ht; cases ht; omega
          · have := hs (base + size / 2) t k needle (by omega) hk ht; omega
      · simp only [hgt, if_false]
        obtain ⟨r, hr, hr2, hr3⟩ := ih (base + size / 2) (size - size / 2) (by omega) (by omega) (by omega)
        refine ⟨r, hr, hr2, fun t ht hb1 hb2 => hr3 t ht ?_ (by omega)⟩
        by_cases hlt : t < base + size / 2
        · exfalso
          have := hs t (base + size / 2) needle k hlt ht hk; omega
        · omega
    · simp only [hsz, if_false]
      exact ⟨base, rfl, by omega, fun t _ _ _ => by omega⟩

/-- a sorted format-0 table returns exactly the value stored for the pair … -/
theorem fmt0Kerning_hit (pairs : Array (Nat × Int)) (l r : Nat) (v : Int) (t : Nat)
    (hs : SortedKeys (pairs.map (·.1))) (ht : pairs[t]? = some (l * 65536 + r, v)) :
    fmt0Kerning pairs l r = v := by
  have htl : t < pairs.size := by
    by_cases h : t < pairs.size
    · exact h
    · simp [Array.getElem?_eq_none (Nat.le_of_not_lt h)] at ht
  unfold fmt0Kerning
  have hne : ¬ pairs.size = 0 := by omega
  simp only [hne, if_false]
  obtain ⟨r', hr, hr2, hr3⟩ := bsearchLoop_spec (pairs.map (·.1)) (l * 65536 + r) hs pairs.size 0 pairs.size
    (by omega) (by omega) (by simp)
  have hkt : (pairs.map (·.1))[t]? = some (l * 65536 + r) := by simp [ht]
  have := hr3 t hkt (by omega) (by omega)
  subst this
  rw [hr]
  simp only [ht, if_true]

/-- … and 0 for a pair that is not in the table (sorted or not) -/
theorem fmt0Kerning_miss (pairs : Array (Nat × Int)) (l r : Nat)
    (hm : ∀ (t : Nat) (k : Nat) (v : Int), pairs[t]? = some (k, v) → k ≠ l * 65536 + r) :
    fmt0Kerning pairs l r = 0 := by
  unfold fmt0Kerning
  simp only
  split
  · rfl
  · split
    · rfl
    · split
      · rfl
      · rename_i k v hkv
        have := hm _ k v hkv
        simp [this]


/-! ### the reverse bracket of the driver -/

theorem reversePos_size {α} (a : Array α) (len : Nat) (h : len ≤ a.size) : (reversePos a len).size = a.size := by
  unfold reversePos
  split
  · rfl
  · simp; omega

theorem reversePos_get? {α} (a : Array α) (len k : Nat) (h : len ≤ a.size) :
    (reversePos a len)[k]? = if k < len then a[len - 1 - k]? else a[k]? := by
  have hm : min len a.size = len := Nat.min_eq_left h
  unfold reversePos
  split
  · rename_i h2
    split
    · have : len = 1 ∧ k = 0 := by omega
      obtain ⟨rfl, rfl⟩ := this; rfl
    · rfl
  · by_cases hk : k < len
    · simp only [hk, if_true]
      rw [Array.getElem?_append_left (by simp [hm]; exact hk)]
      rw [Array.getElem?_reverse (by simp [hm]; exact hk)]
      simp only [Array.size_extract, hm, Nat.sub_zero]
      rw [Array.getElem?_extract]
      have : len - 1 - k < min len a.size - 0 := by omega
      simp only [this, if_true, Nat.zero_add]
    · simp only [hk, if_false]
      rw [Array.getElem?_append_right (by simp [hm]; omega)]
      simp only [Array.size_reverse, Array.size_extract, hm, Nat.sub_zero]
      rw [Array.getElem?_extract]
      by_cases hk2 : k < a.size
      · have : k - len < min a.size a.size - len := by simp; omega
        simp only [this, if_true]
        congr 1; omega
      · have : ¬ k - len < min a.size a.size - len := by simp; omega
        simp only [this, if_false]
        rw [Array.getElem?_eq_none (by omega)]

theorem reversePos_involutive {α} (a : Array α) (len : Nat) (h : len ≤ a.size) :
    reversePos (reversePos a len) len = a := by
  apply Array.ext_getElem?
  intro k
  have hs := reversePos_size a len h
  rw [reversePos_get? _ len k (by omega)]
  by_cases hk : k < len
  · simp only [hk, if_true]
    rw [reversePos_get? a len _ h]
    have : len - 1 - k < len := by omega
    simp only [this, if_true]
    congr 1; omega
  · simp only [hk, if_false]
    rw [reversePos_get? a len k h]
    simp [hk]

theorem machineKern_pos_size {infos : Array KInfo} {p q : Array Pos} {len mask : Nat} {d : Dir} {cs f : Bool}
    {kernOf : Nat → Nat → Int} (h : machineKern infos p len mask d cs kernOf = .ok (q, f)) : q.size = p.size :=
  (machineKernLoop_frame infos len mask _ cs kernOf _ _ _ _ _ _ h).1

/-- one subtable keeps the glyph order (the two reverses always come in pairs) -/
theorem kernStep_infos (requested : Bool) (mask : Nat) (d : Dir) (sm : KSub → KBuf → KBuf)
    (hsm : ∀ s b, (sm s b).infos = b.infos ∧ (sm s b).len = b.len)
    (seen seen' : Bool) (b b' : KBuf) (s : KSub) (hlen : b.len ≤ b.infos.size)
    (h : kernStep requested mask d sm (seen, b) s = .ok (seen', b')) :
    b'.infos = b.infos ∧ b'.len = b.len := by
  unfold kernStep at h
  simp only at h
  split at h
  · simp only [Except.ok.injEq, Prod.mk.injEq] at h; obtain ⟨_, rfl⟩ := h; exact ⟨rfl, rfl⟩
  · split at h
    · simp only [Except.ok.injEq, Prod.mk.injEq] at h; obtain ⟨_, rfl⟩ := h; exact ⟨rfl, rfl⟩
    · -- the buffer after the cross-stream chain attach: same infos / len
      generalize hb1 : (if (!seen && s.crossStream) = true then
          (true, { b with pos := b.pos.map (fun q => { q with atype := ATTACH_CURSIVE, chain := if d.isForward = true then -1 else 1 }) })
          else (seen, b)) = st1 at h
      have h1 : st1.2.infos = b.infos ∧ st1.2.len = b.len := by
        rw [← hb1]; split <;> exact ⟨rfl, rfl⟩
      obtain ⟨sn1, b1⟩ := st1
      simp only at h h1
      have hl1 : b1.len ≤ b1.infos.size := by rw [h1.1, h1.2]; exact hlen
      split at h
      · simp only [Except.ok.injEq, Prod.mk.injEq] at h; obtain ⟨_, rfl⟩ := h; exact h1
      · cases hrev : d.isBackward
        · simp only [hrev, Bool.false_eq_true, if_false] at h
          split at h
          · simp only [Except.ok.injEq, Prod.mk.injEq] at h; obtain ⟨_, rfl⟩ := h
            rw [(hsm s b1).1, (hsm s b1).2]; exact h1
          · split at h
            · cases h
            · simp only [Except.ok.injEq, Prod.mk.injEq] at h; obtain ⟨_, rfl⟩ := h; exact h1
        · simp only [hrev, if_true] at h
          split at h
          · simp only [Except.ok.injEq, Prod.mk.injEq] at h; obtain ⟨_, rfl⟩ := h
            simp only [KBuf.reverse]
            rw [(hsm s _).1, (hsm s _).2]
            simp only
            rw [reversePos_involutive _ _ hl1]; exact h1
          · split at h
            · cases h
            · simp only [Except.ok.injEq, Prod.mk.injEq] at h; obtain ⟨_, rfl⟩ := h
              simp only [KBuf.reverse]
              rw [reversePos_involutive _ _ hl1]; exact h1

theorem kernDriver_infos (requested : Bool) (mask : Nat) (d : Dir) (sm : KSub → KBuf → KBuf)
    (hsm : ∀ s b, (sm s b).infos = b.infos ∧ (sm s b).len = b.len) :
    ∀ (subs : List KSub) (seen : Bool) (b : KBuf) (st : Bool × KBuf), b.len ≤ b.infos.size →
      subs.foldlM (kernStep requested mask d sm) (seen, b) = .ok st →
      st.2.infos = b.infos ∧ st.2.len = b.len := by
  intro subs
  induction subs with
  | nil =>
    intro seen b st _ h
    simp only [List.foldlM, pure, Except.pure, Except.ok.injEq] at h
    subst h; exact ⟨rfl, rfl⟩
  | cons s rest ih =>
    intro seen b st hlen h
    simp only [List.foldlM, bind, Except.bind] at h
    split at h
    · cases h
    · rename_i st1 hst1
      obtain ⟨sn1, b1⟩ := st1
      obtain ⟨e1, e2⟩ := kernStep_infos requested mask d sm hsm seen sn1 b b1 s hlen hst1
      obtain ⟨e3, e4⟩ := ih sn1 b1 st (by rw [e1, e2]; exact hlen) h
      exact ⟨by rw [e3, e1], by rw [e4, e2]⟩

/-- the four metric fields of a position -/
def metrics (q : Pos) : Int × Int × Int × Int := (q.xa, q.ya, q.xo, q.yo)

/-- kerning switched off, no state-machine subtable: one subtable changes neither the order nor any
    advance / offset, in every direction (it may still mark the glyphs as a cross-stream chain) -/
theorem kernStep_off (mask : Nat) (d : Dir) (sm : KSub → KBuf → KBuf)
    (seen seen' : Bool) (b b' : KBuf) (s : KSub) (hs : s.stateMachine = false)
    (h : kernStep false mask d sm (seen, b) s = .ok (seen', b')) :
    b'.infos = b.infos ∧ b'.len = b.len ∧ b'.pos.map metrics = b.pos.map metrics := by
  unfold kernStep at h
  simp only [hs, Bool.false_eq_true, if_false, Bool.not_false, Bool.and_self, if_true] at h
  split at h
  · simp only [Except.ok.injEq, Prod.mk.injEq] at h; obtain ⟨_, rfl⟩ := h; exact ⟨rfl, rfl, rfl⟩
  · split at h
    · simp only [Except.ok.injEq, Prod.mk.injEq] at h; obtain ⟨_, rfl⟩ := h; exact ⟨rfl, rfl, rfl⟩
    · split at h
      · simp only [Except.ok.injEq, Prod.mk.injEq] at h; obtain ⟨_, rfl⟩ := h
        refine ⟨rfl, rfl, ?_⟩
        simp only [Array.map_map]
        congr 1
      · simp only [Except.ok.injEq, Prod.mk.injEq] at h; obtain ⟨_, rfl⟩ := h; exact ⟨rfl, rfl, rfl⟩

theorem kernDriver_off (mask : Nat) (d : Dir) (sm : KSub → KBuf → KBuf) :
    ∀ (subs : List KSub) (seen : Bool) (b : KBuf) (st : Bool × KBuf), (∀ s ∈ subs, s.stateMachine = false) →
      subs.foldlM (kernStep false mask d sm) (seen, b) = .ok st →
      st.2.infos = b.infos ∧ st.2.len = b.len ∧ st.2.pos.map metrics = b.pos.map metrics := by
  intro subs
  induction subs with
  | nil =>
    intro seen b st _ h
    simp only [List.foldlM, pure, Except.pure, Except.ok.injEq] at h
    subst h; exact ⟨rfl, rfl, rfl⟩
  | cons s rest ih =>
    intro seen b st hs h
    simp only [List.foldlM, bind, Except.bind] at h
    split at h
    · cases h
    · rename_i st1 hst1
      obtain ⟨sn1, b1⟩ := st1
      obtain ⟨e1, e2, e3⟩ := kernStep_off mask d sm seen sn1 b b1 s (hs s (by simp)) hst1
      obtain ⟨e4, e5, e6⟩ := ih sn1 b1 st (fun s' hs' => hs s' (by simp [hs'])) h
      exact ⟨by rw [e4, e1], by rw [e5, e2], by rw [e6, e3]⟩

end RbModel.Kern
