import RbModel.Gpos
import RbModel.Kern
