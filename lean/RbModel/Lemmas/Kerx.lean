/-
  Lemmas about the `kerx` subtable driver (`Kern.lean: kerxStep / kerxDriver`): the reverse bracket and
  "kerning off changes nothing".
-/
import RbModel.Lemmas.Gpos

namespace RbModel.Kern
open RbModel.Gpos

/-- the buffer after the cross-stream chain attach of one `kerx` subtable -/
def xAttach (d : Dir) (seen : Bool) (s : XSub) (b : KBuf) : Bool × KBuf :=
  if !seen && s.crossStream then
    (true, { b with pos := b.pos.map (fun q =>
        { q with atype := ATTACH_CURSIVE, chain := if d.isForward then -1 else 1 }) })
  else (seen, b)

theorem xAttach_infos (d : Dir) (seen : Bool) (s : XSub) (b : KBuf) :
    (xAttach d seen s b).2.infos = b.infos ∧ (xAttach d seen s b).2.len = b.len := by
  unfold xAttach; split <;> exact ⟨rfl, rfl⟩

theorem xAttach_metrics (d : Dir) (seen : Bool) (s : XSub) (b : KBuf) :
    (xAttach d seen s b).2.pos.map metrics = b.pos.map metrics := by
  unfold xAttach
  split
  · simp only [Array.map_map]; congr 1
  · rfl

/-- `kerxStep` with the chain attach named -/
theorem kerxStep_eq (requested : Bool) (mask : Nat) (d : Dir) (sm : XSub → KBuf → KBuf)
    (seen : Bool) (b : KBuf) (s : XSub) :
    kerxStep requested mask d sm (seen, b) s =
      if s.isVariable then .ok (seen, b)
      else if d.isHorizontal ≠ s.horizontal then .ok (seen, b)
      else
        let st1 := xAttach d seen s b
        if s.isSimple && !requested then .ok st1
        else
          let b1 := if d.isBackward then st1.2.reverse else st1.2
          if s.isSimple then
            if !requested then .ok (st1.1, b1)
            else
              match machineKern b1.infos b1.pos b1.len mask d s.crossStream s.kernOf with
              | .error e => .error e
              | .ok (p, f) =>
                let b2 := { b1 with pos := p, attach := b1.attach || f }
                .ok (st1.1, if d.isBackward then b2.reverse else b2)
          else
            .ok (st1.1, if d.isBackward then (sm s b1).reverse else sm s b1) := by
  unfold kerxStep xAttach
  rfl

theorem KBuf.reverse_reverse_infos (b : KBuf) (h : b.len ≤ b.infos.size) :
    b.reverse.reverse.infos = b.infos := by
  simp only [KBuf.reverse]
  exact reversePos_involutive _ _ h

/-- one `kerx` subtable keeps the glyph order (the two reverses always come in pairs): needs the early
    `requested_kerning` test, the arm's own `continue` sits between the reverses -/
theorem kerxStep_infos (requested : Bool) (mask : Nat) (d : Dir) (sm : XSub → KBuf → KBuf)
    (hsm : ∀ s b, (sm s b).infos = b.infos ∧ (sm s b).len = b.len)
    (seen seen' : Bool) (b b' : KBuf) (s : XSub) (hlen : b.len ≤ b.infos.size)
    (h : kerxStep requested mask d sm (seen, b) s = .ok (seen', b')) :
    b'.infos = b.infos ∧ b'.len = b.len := by
  rw [kerxStep_eq] at h
  have h1 := xAttach_infos d seen s b
  generalize xAttach d seen s b = st1 at h h1
  obtain ⟨sn1, b1⟩ := st1
  simp only at h h1
  have hl1 : b1.len ≤ b1.infos.size := by rw [h1.1, h1.2]; exact hlen
  split at h
  · simp only [Except.ok.injEq, Prod.mk.injEq] at h; obtain ⟨_, rfl⟩ := h; exact ⟨rfl, rfl⟩
  · split at h
    · simp only [Except.ok.injEq, Prod.mk.injEq] at h; obtain ⟨_, rfl⟩ := h; exact ⟨rfl, rfl⟩
    · split at h
      · simp only [Except.ok.injEq, Prod.mk.injEq] at h; obtain ⟨_, rfl⟩ := h; exact h1
      · rename_i hearly
        cases hsimple : s.isSimple
        · -- state machine
          simp only [hsimple, Bool.false_eq_true, if_false] at h
          cases hrev : d.isBackward
          · simp only [hrev, Bool.false_eq_true, if_false, Except.ok.injEq, Prod.mk.injEq] at h
            obtain ⟨_, rfl⟩ := h
            rw [(hsm s b1).1, (hsm s b1).2]; exact h1
          · simp only [hrev, if_true, Except.ok.injEq, Prod.mk.injEq] at h
            obtain ⟨_, rfl⟩ := h
            simp only [KBuf.reverse]
            rw [(hsm s _).1, (hsm s _).2]
            simp only
            rw [reversePos_involutive _ _ hl1]; exact h1
        · -- simple subtable: `requested` must hold here
          have hreq : requested = true := by
            cases requested
            · simp [hsimple] at hearly
            · rfl
          subst hreq
          simp only [hsimple, if_true, Bool.not_true, Bool.false_eq_true, if_false] at h
          cases hrev : d.isBackward
          · simp only [hrev, Bool.false_eq_true, if_false] at h
            split at h
            · cases h
            · simp only [Except.ok.injEq, Prod.mk.injEq] at h; obtain ⟨_, rfl⟩ := h; exact h1
          · simp only [hrev, if_true] at h
            split at h
            · cases h
            · simp only [Except.ok.injEq, Prod.mk.injEq] at h; obtain ⟨_, rfl⟩ := h
              simp only [KBuf.reverse]
              rw [reversePos_involutive _ _ hl1]; exact h1

theorem kerxDriver_infos (requested : Bool) (mask : Nat) (d : Dir) (sm : XSub → KBuf → KBuf)
    (hsm : ∀ s b, (sm s b).infos = b.infos ∧ (sm s b).len = b.len) :
    ∀ (subs : List XSub) (seen : Bool) (b : KBuf) (st : Bool × KBuf), b.len ≤ b.infos.size →
      subs.foldlM (kerxStep requested mask d sm) (seen, b) = .ok st →
      st.2.infos = b.infos ∧ st.2.len = b.len := by
  intro subs
  induction subs with
  | nil =>
    intro seen b st _ h
    simp only [List.foldlM, pure, Except.pure, Except.ok.injEq] at h
    subst h; exact ⟨rfl, rfl⟩
  | cons s rest ih =>
    intro seen b st hlen h
    simp only [List.foldlM, bind, Except.bind] at h
    split at h
    · cases h
    · rename_i st1 hst1
      obtain ⟨sn1, b1⟩ := st1
      obtain ⟨e1, e2⟩ := kerxStep_infos requested mask d sm hsm seen sn1 b b1 s hlen hst1
      obtain ⟨e3, e4⟩ := ih sn1 b1 st (by rw [e1, e2]; exact hlen) h
      exact ⟨by rw [e3, e1], by rw [e4, e2]⟩

/-- kerning switched off, a format 0 / 2 / 6 subtable: neither the order nor any advance / offset changes, in
    every direction (the glyphs may still be marked as a cross-stream chain) -/
theorem kerxStep_off (mask : Nat) (d : Dir) (sm : XSub → KBuf → KBuf)
    (seen seen' : Bool) (b b' : KBuf) (s : XSub) (hs : s.isSimple = true)
    (h : kerxStep false mask d sm (seen, b) s = .ok (seen', b')) :
    b'.infos = b.infos ∧ b'.len = b.len ∧ b'.pos.map metrics = b.pos.map metrics := by
  rw [kerxStep_eq] at h
  simp only [hs, Bool.not_false, Bool.and_self, if_true] at h
  split at h
  · simp only [Except.ok.injEq, Prod.mk.injEq] at h; obtain ⟨_, rfl⟩ := h; exact ⟨rfl, rfl, rfl⟩
  · split at h
    · simp only [Except.ok.injEq, Prod.mk.injEq] at h; obtain ⟨_, rfl⟩ := h; exact ⟨rfl, rfl, rfl⟩
    · simp only [Except.ok.injEq] at h
      have e : (xAttach d seen s b).2 = b' := by rw [h]
      rw [← e]
      exact ⟨(xAttach_infos d seen s b).1, (xAttach_infos d seen s b).2, xAttach_metrics d seen s b⟩

theorem kerxDriver_off (mask : Nat) (d : Dir) (sm : XSub → KBuf → KBuf) :
    ∀ (subs : List XSub) (seen : Bool) (b : KBuf) (st : Bool × KBuf), (∀ s ∈ subs, s.isSimple = true) →
      subs.foldlM (kerxStep false mask d sm) (seen, b) = .ok st →
      st.2.infos = b.infos ∧ st.2.len = b.len ∧ st.2.pos.map metrics = b.pos.map metrics := by
  intro subs
  induction subs with
  | nil =>
    intro seen b st _ h
    simp only [List.foldlM, pure, Except.pure, Except.ok.injEq] at h
    subst h; exact ⟨rfl, rfl, rfl⟩
  | cons s rest ih =>
    intro seen b st hs h
    simp only [List.foldlM, bind, Except.bind] at h
    split at h
    · cases h
    · rename_i st1 hst1
      obtain ⟨sn1, b1⟩ := st1
      obtain ⟨e1, e2, e3⟩ := kerxStep_off mask d sm seen sn1 b b1 s (hs s (by simp)) hst1
      obtain ⟨e4, e5, e6⟩ := ih sn1 b1 st (fun s' hs' => hs s' (by simp [hs'])) h
      exact ⟨by rw [e4, e1], by rw [e5, e2], by rw [e6, e3]⟩

/-- the `requested_kerning` test inside the match arms of formats 0 / 2 / 6 is dead code: behind the early test
    a simple subtable reaches the arm only with kerning requested -/
theorem kerxStep_inner_dead (requested : Bool) (s : XSub) (hs : s.isSimple = true)
    (hearly : ¬ ((s.isSimple && !requested) = true)) : requested = true := by
  cases requested
  · simp [hs] at hearly
  · rfl

end RbModel.Kern
