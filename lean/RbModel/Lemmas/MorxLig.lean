/-
  The ligature subtable of morx on the shared buffer model: the component stack (a depth counter over a ring of 64
  positions) as a list, and the action loop as list surgery. Helper lemmas for Props/C17.lean
  (`C17_ligature_stack_discipline`).
-/
import RbModel.Lemmas.MorxIns
import RbModel.Lemmas.Cluster

namespace RbModel.Buf
open RbModel.Mem

/-! ### allocations are not refused while the text fits the length budget -/

theorem ensure_snd (b : Buf) (size : Nat) (h : size ≤ b.maxLen) : (b.ensure size).2 = true := by
  unfold ensure
  split
  · rfl
  · split
    · omega
    · split <;> rfl

theorem makeRoomFor_nofail (b : Buf) (numIn numOut : Nat) (h : b.outLen + numOut ≤ b.maxLen) (x : Buf) :
    b.makeRoomFor numIn numOut ≠ .ok (x, false) := by
  intro e
  unfold makeRoomFor at e
  have h2 := ensure_snd b _ h
  generalize b.ensure (b.outLen + numOut) = r at e h2
  obtain ⟨b1, ok⟩ := r
  simp only at h2; subst h2
  simp only [Bool.not_true, Bool.false_eq_true, if_false, bind, Except.bind, pure, Except.pure] at e
  split at e
  · split at e
    · cases e
    · cases hc : Mem.copyAcross b1.info b1.out 0 0 b1.outLen 0 <;> rw [hc] at e <;> simp at e
  · simp at e

theorem shiftForward_nofail (b : Buf) (count : Nat) (hho : b.haveOutput = true) (h : b.len + count ≤ b.maxLen) (x : Buf) :
    b.shiftForward count ≠ .ok (x, false) := by
  intro e
  unfold shiftForward at e
  have h2 := ensure_snd b _ h
  generalize b.ensure (b.len + count) = r at e h2
  obtain ⟨b1, ok⟩ := r
  simp only at h2; subst h2
  simp only [hho, Bool.not_true, Bool.false_eq_true, if_false, bind, Except.bind, pure, Except.pure] at e
  cases hc : Mem.copyWithinBwd b1.info b1.idx (b1.idx + count) (b1.len - b1.idx) with
  | error p => rw [hc] at e; simp at e
  | ok info =>
    rw [hc] at e
    simp only at e
    split at e
    · split at e
      · cases e
      · cases hz : zeroRange info b1.len (b1.idx + count - b1.len) <;> rw [hz] at e <;> simp at e
    · simp at e

/-- `move_to(i)` while the text fits the length budget: never refused, the logical sequence is unchanged and exactly
    `i` glyphs are on the output side. -/
theorem moveTo_ok (b : Buf) (i : Nat) (hinv : Inv b) (hi : i ≤ total b)
    (hg : Gen.Buf.ensureGrowOnly = true) (hr : Gen.Buf.moveToRewindReversed = true)
    (hsucc : b.successful = true) (hmax : total b ≤ b.maxLen) :
    ∃ b', b.moveTo i = .ok (b', true) ∧
      (Inv b' ∧ b'.outLen = i ∧ total b' = total b ∧ (∀ q, seq b' q = seq b q) ∧
        b'.successful = b.successful ∧ b'.level = b.level ∧ b'.flags = b.flags ∧
        b'.maxLen = b.maxLen ∧ b'.scratch = b.scratch) := by
  unfold total at hmax
  have hidx := hinv.idx_le
  have hlen := hinv.len_le
  have hol := hinv.out_len
  have hho := hinv.have_out
  unfold total at hi
  unfold moveTo
  have hnho : (!b.haveOutput) = false := by simp [hho]
  simp only [hnho, Bool.false_eq_true, if_false]
  have hns : (!b.successful) = false := by simp [hsucc]
  simp only [hns, Bool.false_eq_true, if_false]
  have hassert : ¬ i > b.outLen + (b.len - b.idx) := by omega
  simp only [hassert, if_false]
  by_cases hfw : b.outLen < i
  · -- forward
    simp only [hfw, if_true]
    rcases makeRoomFor_spec b (i - b.outLen) (i - b.outLen) hinv hg with hfail | ⟨I, O, s, hok, hinv1, hcap, hs1, hs2, hout1, hinf1, hle1⟩
    · exact absurd hfail (makeRoomFor_nofail b _ _ (by omega) _)
    · obtain ⟨I', O', hcp, hinv2, hI'len, hseq2⟩ :=
        copyToOut_advance { b with info := I, out := O, sepOut := s } (i - b.outLen) hinv1
          (by simp; omega) (by simpa using hcap)
      simp only [bind, Except.bind, hok, Bool.not_true, Bool.false_eq_true, if_false, hcp, pure, Except.pure]
      refine ⟨_, rfl, ?_⟩
      refine ⟨hinv2, by simp; omega, by simp [total]; omega, ?_, rfl, rfl, rfl, rfl, rfl⟩
      intro q
      rw [hseq2 q]
      exact seq_congr b { b with info := I, out := O, sepOut := s } rfl rfl rfl hlen hout1 hinf1 q
  · simp only [hfw, if_false]
    by_cases hbw : b.outLen > i
    · -- rewind
      simp only [hbw, if_true]
      by_cases hsh : b.idx < b.outLen - i
      · -- the input has to be shifted up first; only possible in separate-output mode
        have hs : b.sepOut = true := by
          cases hsb : b.sepOut with
          | true => rfl
          | false => have := hinv.nosep_ok hsb; omega
        simp only [hsh, if_true]
        rcases shiftForward_spec b (b.outLen - i - b.idx) hinv hs hg with hfail | ⟨I, O, hok, hinv1, hseq1⟩
        · exact absurd hfail (shiftForward_nofail b _ hinv.have_out (by omega) _)
        · have hrew := copyFromOut_rewind _ (b.outLen - i) hinv1 (by simp; omega) (by simp) hr
          obtain ⟨I', hcp, hinv2, hseq2⟩ := hrew
          have hna : ¬ b.idx + (b.outLen - i - b.idx) < b.outLen - i := by omega
          simp only [bind, Except.bind, hok, Bool.not_true, Bool.false_eq_true, if_false, hna, pure, Except.pure]
          simp only [] at hcp
          rw [hcp]
          refine ⟨_, rfl, ?_⟩
          refine ⟨hinv2, by simp; omega, by simp [total]; omega, ?_, rfl, rfl, rfl, rfl, rfl⟩
          intro q
          rw [hseq2 q, hseq1 q]
      · simp only [hsh, if_false]
        obtain ⟨I', hcp, hinv2, hseq2⟩ := copyFromOut_rewind b (b.outLen - i) hinv (by omega) (by omega) hr
        simp only [bind, Except.bind, pure, Except.pure, Bool.not_true, Bool.false_eq_true, if_false, hsh]
        rw [hcp]
        refine ⟨_, rfl, ?_⟩
        exact ⟨hinv2, by simp; omega, by simp [total]; omega, hseq2, rfl, rfl, rfl, rfl, rfl⟩
    · simp only [hbw, if_false]
      refine ⟨b, rfl, ?_⟩
      exact ⟨hinv, by omega, rfl, fun _ => rfl, rfl, rfl, rfl, rfl, rfl⟩

/-- `replace_glyph` while the text fits the length budget -/
theorem replaceGlyph_ok_fits (b : Buf) (g : Nat) (hinv : Inv b) (hcur : b.idx < b.len)
    (hg : Gen.Buf.ensureGrowOnly = true) (hmax : total b ≤ b.maxLen) :
    ∃ b', b.replaceGlyph g = .ok b' ∧
       (Inv b' ∧ b'.outLen = b.outLen + 1 ∧ b'.idx = b.idx + 1 ∧ b'.len = b.len ∧
        b'.successful = b.successful ∧ b'.maxLen = b.maxLen ∧ b'.level = b.level ∧
        ∃ x, b.info[b.idx]? = some x ∧
          ∀ q, seq b' q = if q = b.outLen then some { x with gid := g } else seq b q) := by
  unfold total at hmax
  have hidx := hinv.idx_le
  have hlen := hinv.len_le
  have hxx : b.info[b.idx]? = some b.info[b.idx] := List.getElem?_eq_getElem (by omega)
  unfold replaceGlyph
  by_cases hc : (b.sepOut || b.outLen != b.idx) = true
  · simp only [hc, if_true]
    rcases makeRoomFor_spec b 1 1 hinv hg with hfail | ⟨I, O, s, hok, hinv1, hcap, hs1, hs2, hout1, hinf1, hle1⟩
    · exact absurd hfail (makeRoomFor_nofail b _ _ (by omega) _)
    · have hx : I[b.idx]? = some b.info[b.idx] := by
        rw [hinf1 b.idx (by omega)]; exact List.getElem?_eq_getElem (by omega)
      have hget : get I b.idx = .ok b.info[b.idx] := by unfold get; rw [hx]; rfl
      obtain ⟨I1, O1, hset1, _, _⟩ :=
        emit_spec { b with info := I, out := O, sepOut := s } b.info[b.idx] 1 hinv1 (by simpa using hcap)
          (by simp; omega) (by intro h; simp at h; have := hs1 h; simp; omega)
      obtain ⟨I', O', hset, hinv2, hseq2⟩ :=
        emit_spec { b with info := I, out := O, sepOut := s } { b.info[b.idx] with gid := g } 1 hinv1
          (by simpa using hcap) (by simp; omega) (by intro h; simp at h; have := hs1 h; simp; omega)
      simp only [] at hset1 hset
      obtain ⟨htw, hback⟩ := setOut_twice _ b.outLen _ { b.info[b.idx] with gid := g } _ hset1
      have hget2 : get (outArr { b with info := I1, out := O1, sepOut := s }) b.outLen = .ok b.info[b.idx] := by
        unfold get; rw [hback]; rfl
      simp only [bind, Except.bind, hok, Bool.not_true, Bool.false_eq_true, if_false, hget, pure, Except.pure, hset1]
      simp only [] at htw hget2
      simp only [hget2, htw, hset]
      refine ⟨_, rfl, hinv2, rfl, rfl, rfl, rfl, rfl, rfl, _, hxx, ?_⟩
      intro q
      rw [hseq2 q]
      have hb1 : ∀ q, seq { b with info := I, out := O, sepOut := s } q = seq b q :=
        seq_congr b { b with info := I, out := O, sepOut := s } rfl rfl rfl hlen hout1 hinf1
      by_cases h1 : q < b.outLen
      · have : q ≠ b.outLen := by omega
        simp only [h1, if_true, this, if_false]; exact hb1 q
      · by_cases h2 : q = b.outLen
        · subst h2; simp only [Nat.lt_irrefl, if_false, if_true]
        · simp only [h1, h2, if_false]
          have : q - 1 + 1 = q := by omega
          rw [this]; exact hb1 q
  · have hc' : b.sepOut = false ∧ b.outLen = b.idx := by
      simp at hc; exact hc
    have hget : get b.outArr b.outLen = .ok b.info[b.idx] := by
      simp only [outArr, hc'.1, Bool.false_eq_true, if_false, hc'.2]; exact get_ok (by omega)
    obtain ⟨I', O', hset, hinv2, hseq2⟩ :=
      emit_spec b { b.info[b.idx] with gid := g } 1 hinv
        (by simp only [outArr, hc'.1, Bool.false_eq_true, if_false]; omega) (by omega) (by intro _; omega)
    simp only [hc, Bool.false_eq_true, if_false, bind, Except.bind, pure, Except.pure, hget, hset]
    refine ⟨_, rfl, hinv2, rfl, rfl, rfl, rfl, rfl, rfl, _, hxx, ?_⟩
    intro q
    rw [hseq2 q]
    by_cases h1 : q < b.outLen
    · have : q ≠ b.outLen := by omega
      simp only [h1, if_true, this, if_false]
    · by_cases h2 : q = b.outLen
      · subst h2; simp only [Nat.lt_irrefl, if_false, if_true]
      · simp only [h1, h2, if_false]
        have : q - 1 + 1 = q := by omega
        rw [this]

end RbModel.Buf

namespace RbModel.Morx
open RbModel.Gen.Morx

/-! ### the component stack: a depth counter over a ring of 64 positions, as a list -/

/-- The code's component stack `cs` (depth counter `matchLen`, ring `matchPos` indexed by depth modulo the ring size)
    represents the list `st` of pushed positions (oldest first), of which the entries from depth `lo` on are still
    remembered: the counter is the length of the list — it is never capped —, and the ring holds the entries of the
    window `[lo, length)`, which is at most one ring long. Entries below `lo` have been overwritten. -/
structure Rep (cs : CS) (st : List Nat) (lo : Nat) : Prop where
  len : cs.matchLen = st.length
  size : cs.matchPos.size = 64
  lo_le : lo ≤ st.length
  win : st.length ≤ lo + 64
  slot : ∀ k, lo ≤ k → k < st.length → cs.matchPos[k % 64]? = st[k]?

theorem ring_size : LIGATURE_MAX_MATCHES = 64 := rfl

theorem posIdx_eq (i : Nat) : posIdx i = i % 64 := rfl

theorem Rep.rd {cs : CS} {st : List Nat} {lo k : Nat} (h : Rep cs st lo) (h1 : lo ≤ k) (h2 : k < st.length) :
    rdN cs.matchPos (posIdx k) = .ok st[k] := by
  have := h.slot k h1 h2
  rw [List.getElem?_eq_getElem h2] at this
  unfold rdN; rw [posIdx_eq, this]; rfl

/-- what SET_COMPONENT does to the stack: push the position, unless it is the top already -/
def pushed (st : List Nat) (p : Nat) : List Nat := if st.getLast? = some p then st else st ++ [p]

/-- and to the window of remembered entries: the oldest one is overwritten when the ring is full -/
def pushedLo (st : List Nat) (lo p : Nat) : Nat :=
  if st.getLast? = some p then lo else if st.length - lo < 64 then lo else lo + 1

theorem getLast?_eq_getElem? (st : List Nat) : st.getLast? = st[st.length - 1]? := by
  rw [List.getLast?_eq_getElem?]

theorem ligPush_rep (cs : CS) (st : List Nat) (lo p : Nat) (h : Rep cs st lo) (hne : st.length = 0 ∨ lo < st.length) :
    ∃ cs', LigS.ligPush cs p = .ok cs' ∧ Rep cs' (pushed st p) (pushedLo st lo p) := by
  have hsz := h.size
  unfold LigS.ligPush
  by_cases h0 : st.length = 0
  · -- empty stack
    have hnil : st = [] := List.eq_nil_of_length_eq_zero h0
    subst hnil
    have hm : cs.matchLen = 0 := h.len
    have hlo : lo = 0 := by have := h.lo_le; simpa using this
    subst hlo
    have hlt : posIdx 0 < cs.matchPos.size := by rw [posIdx_eq, hsz]; decide
    simp only [hm, ne_eq, not_true_eq_false, if_false, pure, Except.pure, bind, Except.bind, setPos, hlt, dite_true]
    refine ⟨_, rfl, ⟨by simp [pushed], by simp [hsz], by simp [pushed, pushedLo], by simp [pushed, pushedLo], ?_⟩⟩
    intro k _ hk
    have hk0 : k = 0 := by simp [pushed] at hk; omega
    subst hk0
    simp [pushed, posIdx_eq]
  · have hlo : lo < st.length := by rcases hne with h | h; exact absurd h h0; exact h
    have hm : cs.matchLen = st.length := h.len
    have hm0 : (cs.matchLen != 0) = true := by simp [hm, h0]
    have hrd := h.rd (k := st.length - 1) (by omega) (by omega)
    have hrd' : rdN cs.matchPos (posIdx (cs.matchLen - 1)) = .ok st[st.length - 1] := by rw [hm]; exact hrd
    have hlast : st.getLast? = some st[st.length - 1] := by
      rw [getLast?_eq_getElem? st, List.getElem?_eq_getElem (by omega)]
    simp only [hm0, if_true, hrd', bind, Except.bind, pure, Except.pure]
    have hwin := h.win
    by_cases hp : st[st.length - 1] = p
    · -- the top is this position already: popped and pushed again
      have hbeq : (st[st.length - 1] == p) = true := by simp [hp]
      have hlt : posIdx (cs.matchLen - 1) < cs.matchPos.size := by rw [posIdx_eq, hsz]; omega
      simp only [hbeq, if_true, setPos, dif_pos hlt]
      have hpu : pushed st p = st := by unfold pushed; rw [hlast, hp]; simp
      have hpl : pushedLo st lo p = lo := by unfold pushedLo; rw [hlast, hp]; simp
      rw [hpu, hpl]
      refine ⟨_, rfl, ⟨by show cs.matchLen - 1 + 1 = st.length; omega, by simp [hsz], h.lo_le, h.win, ?_⟩⟩
      intro k hk1 hk2
      show (cs.matchPos.set (posIdx (cs.matchLen - 1)) p hlt)[k % 64]? = st[k]?
      rw [Array.getElem?_set, posIdx_eq, hm]
      by_cases hkk : (st.length - 1) % 64 = k % 64
      · have : k = st.length - 1 := by omega
        subst this
        simp only [if_true]
        rw [List.getElem?_eq_getElem (by omega), hp]
      · simp only [hkk, if_false]; exact h.slot k hk1 hk2
    · have hbeq : (st[st.length - 1] == p) = false := by simp [hp]
      have hlt : posIdx cs.matchLen < cs.matchPos.size := by rw [posIdx_eq, hsz]; omega
      simp only [hbeq, Bool.false_eq_true, if_false, setPos, dif_pos hlt]
      have hne' : ¬ st.getLast? = some p := by rw [hlast]; intro hh; cases hh; exact hp rfl
      have hpu : pushed st p = st ++ [p] := by unfold pushed; simp [hne']
      have hpl : pushedLo st lo p = if st.length - lo < 64 then lo else lo + 1 := by unfold pushedLo; simp [hne']
      rw [hpu, hpl]
      refine ⟨_, rfl, ⟨by show cs.matchLen + 1 = (st ++ [p]).length; simp [hm], by simp [hsz],
        by simp; split <;> omega, by simp; split <;> omega, ?_⟩⟩
      intro k hk1 hk2
      show (cs.matchPos.set (posIdx cs.matchLen) p hlt)[k % 64]? = (st ++ [p])[k]?
      rw [Array.getElem?_set, posIdx_eq, hm]
      simp only [List.length_append, List.length_singleton] at hk2
      by_cases hkk : st.length % 64 = k % 64
      · have : k = st.length := by split at hk1 <;> omega
        subst this
        simp
      · simp only [hkk, if_false]
        have hk3 : k < st.length := by
          rcases Nat.lt_or_ge k st.length with h' | h'
          · exact h'
          · exfalso; have : k = st.length := by omega
            exact hkk (by rw [this])
        rw [List.getElem?_append_left hk3]
        exact h.slot k (by split at hk1 <;> omega) hk3

/-! ### the buffer steps of the ligature code, on the glyph ids of the logical sequence -/

open RbModel.Buf in
/-- an in/out buffer in good standing: representation invariant, no allocation refused so far, and the text fits the
    length budget (`max_len` ≥ 16384 and ≥ 64 × the text length, the ligature code never grows the text) -/
structure Good (b : RbModel.Buf) : Prop where
  inv : Inv b
  succ : b.successful = true
  fits : total b ≤ b.maxLen

/-- glyph id of the q-th glyph of the logical sequence `out[0..out_len) ++ info[idx..len)` -/
def gv (b : RbModel.Buf) (q : Nat) : Option Nat := (RbModel.Buf.seq b q).map (·.gid)

theorem liftS_ok {α : Type} (a : α) : liftS (.ok a : RbModel.M α) = .ok a := rfl

open RbModel.Buf in
theorem moveStep (b : RbModel.Buf) (i : Nat) (hg : Good b) (hi : i ≤ total b) :
    ∃ b', liftS (b.moveTo i) = .ok (b', true) ∧ Good b' ∧ b'.outLen = i ∧ total b' = total b ∧
      (∀ q, seq b' q = seq b q) ∧ (∀ q, gv b' q = gv b q) ∧ b'.level = b.level := by
  obtain ⟨b', e, hinv, ho, ht, hq, hs, hl, _, hm, _⟩ := moveTo_ok b i hg.inv hi (by decide) (by decide) hg.succ hg.fits
  refine ⟨b', by rw [e]; rfl, ⟨hinv, by rw [hs]; exact hg.succ, by rw [ht, hm]; exact hg.fits⟩, ho, ht, hq, ?_, hl⟩
  intro q; unfold gv; rw [hq]

open RbModel.Buf in
theorem cur_of_lt (b : RbModel.Buf) (hg : Good b) (h : b.outLen < total b) : b.idx < b.len := by
  unfold total at h; omega

open RbModel.Buf in
theorem replStep (b : RbModel.Buf) (g : Nat) (hg : Good b) (hcur : b.outLen < total b) :
    ∃ b', liftS (b.replaceGlyph g) = .ok b' ∧ Good b' ∧ b'.outLen = b.outLen + 1 ∧ total b' = total b ∧
      (∀ q, gv b' q = if q = b.outLen then some g else gv b q) ∧ b'.level = b.level := by
  have hc := cur_of_lt b hg hcur
  obtain ⟨b', e, hinv, ho, hi, hl, hs, hm, hlv, x, hx, hq⟩ := replaceGlyph_ok_fits b g hg.inv hc (by decide) hg.fits
  have ht : total b' = total b := by unfold total; rw [ho, hi, hl]; omega
  refine ⟨b', by rw [e]; rfl, ⟨hinv, by rw [hs]; exact hg.succ, by rw [ht, hm]; exact hg.fits⟩, ho, ht, ?_, hlv⟩
  intro q; unfold gv; rw [hq]
  by_cases h : q = b.outLen
  · simp [h]
  · simp [h]

open RbModel.Buf in
/-- `move_to(p); cur(0); replace_glyph(g)`: the glyph at position `p` of the logical sequence gets the id `g` -/
theorem writeStep (b : RbModel.Buf) (p g : Nat) (hg : Good b) (hp : p < total b) :
    ∃ b1 b', liftS (b.moveTo p) = .ok (b1, true) ∧ (∃ x, liftS (RbModel.Mem.get b1.info b1.idx) = .ok x) ∧
      liftS (b1.replaceGlyph g) = .ok b' ∧ Good b' ∧ b'.outLen = p + 1 ∧ total b' = total b ∧
      (∀ q, gv b' q = if q = p then some g else gv b q) ∧ b'.level = b.level := by
  obtain ⟨b1, e1, hg1, ho1, ht1, _, hq1, hl1⟩ := moveStep b p hg (by omega)
  have hcur1 : b1.outLen < total b1 := by rw [ho1, ht1]; exact hp
  have hc := cur_of_lt b1 hg1 hcur1
  obtain ⟨b2, e2, hg2, ho2, ht2, hq2, hl2⟩ := replStep b1 g hg1 hcur1
  have hlen := hg1.inv.len_le
  refine ⟨b1, b2, e1, ⟨b1.info[b1.idx]'(by omega), ?_⟩, e2, hg2, by rw [ho2, ho1], by rw [ht2, ht1], ?_, by rw [hl2, hl1]⟩
  · rw [RbModel.Mem.get_ok (by omega)]; rfl
  · intro q; rw [hq2, ho1]
    by_cases h : q = p
    · simp [h]
    · simp [h, hq1]

open RbModel.Buf in
theorem gv_of_ident (b b' : RbModel.Buf) (hw : WF b) (hw' : WF b') (h : (lview b').map ident = (lview b).map ident) :
    ∀ q, gv b' q = gv b q := by
  intro q
  have h1 : ((lview b').map ident)[q]? = ((lview b).map ident)[q]? := by rw [h]
  rw [List.getElem?_map, List.getElem?_map, lview_getElem? b' hw', lview_getElem? b hw] at h1
  unfold gv
  cases hx : seq b' q <;> cases hy : seq b q <;> rw [hx, hy] at h1 <;> simp [ident] at h1 ⊢
  exact h1.1

open RbModel.Buf in
/-- `merge_out_clusters(start, out_len)` as the ligature code calls it, with `start` not behind the output cursor: no
    panic, and only cluster values (and masks) change -/
theorem mergeOut_ok (b : RbModel.Buf) (start : Nat) (hg : Good b) (hs : start ≤ b.outLen) :
    ∃ b', LigS.mergeOut b start b.outLen = .ok b' ∧ Good b' ∧ b'.outLen = b.outLen ∧ total b' = total b ∧
      (∀ q, gv b' q = gv b q) ∧ b'.level = b.level := by
  unfold LigS.mergeOut
  by_cases hl : b.level = 2
  · have hl' : (b.level == 2) = true := by simp [hl]
    rw [if_pos hl']
    exact ⟨b, rfl, hg, rfl, rfl, fun _ => rfl, rfl⟩
  · have hl' : (b.level == 2) = false := by simpa using hl
    have hw : ¬ b.outLen < start := by omega
    simp only [hl', Bool.false_eq_true, if_false, hw]
    by_cases hshort : b.outLen - start < 2
    · refine ⟨b, ?_, hg, rfl, rfl, fun _ => rfl, rfl⟩
      unfold RbModel.Buf.mergeOutClusters
      simp [hl', hshort]; rfl
    · have hwf := WF.of_inv hg.inv
      obtain ⟨b', m, hb, hsh, hm⟩ := mergeOutClusters_isMerge b start b.outLen hwf (by omega) (Nat.le_refl _) hl
      obtain ⟨h1, h2, h3⟩ := hsh
      have hwf' : WF b' := SameShape.wf ⟨h1, h2, h3⟩ hwf
      have e1 : b'.outLen = b.outLen := by rw [h1]
      have e2 : b'.idx = b.idx := by rw [h1]
      have e3 : b'.len = b.len := by rw [h1]
      have e4 : b'.successful = b.successful := by rw [h1]
      have e5 : b'.maxLen = b.maxLen := by rw [h1]
      have e6 : b'.level = b.level := by rw [h1]
      have e7 : b'.haveOutput = b.haveOutput := by rw [h1]
      have ht : total b' = total b := by unfold total; rw [e1, e2, e3]
      refine ⟨b', by rw [hb]; rfl, ⟨⟨hwf'.idx_le, hwf'.len_le, by rw [h3, h2]; exact hg.inv.out_len, hwf'.sep_ok,
        hwf'.nosep_ok, by rw [e7]; exact hg.inv.have_out⟩, by rw [e4]; exact hg.succ, by rw [ht, e5]; exact hg.fits⟩,
        e1, ht, gv_of_ident b b' hwf hwf' hm.glyphs_eq, e6⟩

/-- the positions above depth `m` of the stack -/
def Above (st : List Nat) (m q : Nat) : Prop := ∃ j, m < j ∧ st[j]? = some q

open RbModel.Buf in
/-- `while self.match_length - 1 > cursor { … }`: the components above the cursor are popped, newest first, and each
    becomes the deleted glyph; the stack is cut back to the cursor's entry; nothing else is written. -/
theorem ligDelete_spec (m lo : Nat) : ∀ (n : Nat) (st : List Nat) (cs : CS) (b : RbModel.Buf) (fuel : Nat),
    st.length = m + 1 + n → n ≤ fuel → Rep cs st lo → lo ≤ m + 1 → Good b →
    (∀ j x, m < j → st[j]? = some x → x < total b) →
    ∃ cs' b', LigS.ligDelete m fuel cs b = .ok (cs', b') ∧ Rep cs' (st.take (m + 1)) lo ∧
      cs'.matchPos = cs.matchPos ∧ Good b' ∧
      total b' = total b ∧ b'.level = b.level ∧
      (∀ q, Above st m q → gv b' q = some 0xFFFF) ∧ (∀ q, ¬ Above st m q → gv b' q = gv b q) := by
  intro n
  induction n with
  | zero =>
    intro st cs b fuel hlen _ hrep hlo hg _
    have hm : cs.matchLen = m + 1 := by rw [hrep.len, hlen]
    have htake : st.take (m + 1) = st := List.take_of_length_le (by omega)
    have hnone : ∀ q, ¬ Above st m q := by
      intro q ⟨j, hj, hq⟩
      have : j < st.length := by
        rcases Nat.lt_or_ge j st.length with h | h
        · exact h
        · rw [List.getElem?_eq_none h] at hq; cases hq
      omega
    refine ⟨cs, b, ?_, by rw [htake]; exact hrep, rfl, hg, rfl, rfl, fun q h => absurd h (hnone q), fun _ _ => rfl⟩
    cases fuel with
    | zero => rfl
    | succ fuel =>
      unfold LigS.ligDelete
      have h0 : (cs.matchLen == 0) = false := by simp [hm]
      have h1 : ¬ cs.matchLen - 1 > m := by omega
      simp [h0, h1, pure, Except.pure]
  | succ n ih =>
    intro st cs b fuel hlen hfuel hrep hlo hg hpos
    have hm : cs.matchLen = m + 1 + (n + 1) := by rw [hrep.len, hlen]
    obtain ⟨fuel, rfl⟩ : ∃ f, fuel = f + 1 := ⟨fuel - 1, by omega⟩
    unfold LigS.ligDelete
    have h0 : (cs.matchLen == 0) = false := by simp [hm]
    have h1 : cs.matchLen - 1 > m := by omega
    -- the top entry
    have htop : st.length - 1 < st.length := by omega
    have hrd : rdN cs.matchPos (posIdx (cs.matchLen - 1)) = .ok st[st.length - 1] := by
      rw [hrep.len]; exact hrep.rd (by omega) htop
    have hp : st[st.length - 1] < total b := hpos (st.length - 1) _ (by omega) (List.getElem?_eq_getElem htop)
    obtain ⟨b1, b2, e1, ⟨x, e2⟩, e3, hg2, _, ht2, hq2, hl2⟩ := writeStep b st[st.length - 1] 0xFFFF hg hp
    simp only [h0, Bool.false_eq_true, if_false, h1, if_true, hrd, bind, Except.bind, e1, e2, e3]
    -- the rest of the loop on the stack without its top
    have hrep1 : Rep { cs with matchLen := cs.matchLen - 1 } (st.take (st.length - 1)) lo := by
      have hw := hrep.win
      have hl0 : (st.take (st.length - 1)).length = st.length - 1 := by simp
      refine ⟨?_, hrep.size, ?_, ?_, ?_⟩
      · show cs.matchLen - 1 = (st.take (st.length - 1)).length
        rw [hl0, hrep.len]
      · rw [hl0]; omega
      · rw [hl0]; omega
      · intro k hk1 hk2
        rw [hl0] at hk2
        rw [List.getElem?_take]
        simp only [hk2, if_true]
        exact hrep.slot k hk1 (by omega)
    have hl1 : (st.take (st.length - 1)).length = m + 1 + n := by simp; omega
    obtain ⟨cs', b', e4, hrep', hmp, hg', ht', hl', hA, hB⟩ := ih (st.take (st.length - 1)) _ b2 fuel hl1 (by omega) hrep1
      (by omega) hg2 (by
        intro j x hj hx
        rw [List.getElem?_take] at hx
        split at hx
        · rw [ht2]; exact hpos j x hj hx
        · cases hx)
    refine ⟨cs', b', e4, ?_, hmp, hg', by rw [ht', ht2], by rw [hl', hl2], ?_, ?_⟩
    · have : (st.take (st.length - 1)).take (m + 1) = st.take (m + 1) := by
        rw [List.take_take]; congr 1; omega
      rw [this] at hrep'
      exact hrep'
    · intro q ⟨j, hj, hq⟩
      by_cases hjt : j < st.length - 1
      · exact hA q ⟨j, hj, by rw [List.getElem?_take]; simp [hjt, hq]⟩
      · have hjl : j < st.length := by
          rcases Nat.lt_or_ge j st.length with h | h
          · exact h
          · rw [List.getElem?_eq_none h] at hq; cases hq
        have : j = st.length - 1 := by omega
        subst this
        rw [List.getElem?_eq_getElem htop] at hq
        cases hq
        by_cases hab : Above (st.take (st.length - 1)) m st[st.length - 1]
        · exact hA _ hab
        · rw [hB _ hab, hq2]; simp
    · intro q hq
      have hab : ¬ Above (st.take (st.length - 1)) m q := by
        intro ⟨j, hj, hx⟩
        rw [List.getElem?_take] at hx
        split at hx
        · exact hq ⟨j, hj, hx⟩
        · cases hx
      rw [hB q hab, hq2]
      have : q ≠ st[st.length - 1] := by
        intro h; exact hq ⟨st.length - 1, by omega, by rw [List.getElem?_eq_getElem htop, h]⟩
      simp [this]

/-- the positions on the stack do not decrease with the depth (they are output cursors of successive moments) -/
def Sorted (st : List Nat) : Prop := ∀ (i j x y : Nat), i ≤ j → st[i]? = some x → st[j]? = some y → x ≤ y

open RbModel.Buf in
/-- the Store part of a ligature action, with the output cursor on the component at depth `m` of the stack: the ligature
    glyph is written there, the components above it (popped before it) become the deleted glyph, the stack is cut back
    to depth `m + 1` (the ligature stays on it), nothing else is written. -/
theorem ligStore_spec (lig m lo : Nat) (st : List Nat) (cs : CS) (b : RbModel.Buf)
    (hrep : Rep cs st lo) (hlo : lo ≤ m) (hm : m < st.length) (hsorted : Sorted st)
    (hg : Good b) (hout : b.outLen = st[m]) (hcur : b.outLen < total b)
    (hpos : ∀ j x, m < j → st[j]? = some x → x < total b) :
    ∃ cs' b', LigS.ligStore lig m cs b = .ok (cs', b') ∧ Rep cs' (st.take (m + 1)) lo ∧ Good b' ∧
      total b' = total b ∧ b'.level = b.level ∧
      (∀ q, Above st m q → gv b' q = some 0xFFFF) ∧
      (∀ q, ¬ Above st m q → gv b' q = if q = st[m] then some lig else gv b q) := by
  unfold LigS.ligStore
  obtain ⟨b1, e1, hg1, ho1, ht1, hq1, hl1⟩ := replStep b lig hg hcur
  have h0 : (cs.matchLen == 0) = false := by
    have : cs.matchLen ≠ 0 := by rw [hrep.len]; omega
    simpa using this
  have htop : st.length - 1 < st.length := by omega
  have hrd : rdN cs.matchPos (posIdx (cs.matchLen - 1)) = .ok st[st.length - 1] := by
    rw [hrep.len]; exact hrep.rd (by omega) htop
  obtain ⟨cs', b2, e2, hrep', hmp, hg2, ht2, hl2, hA, hB⟩ :=
    ligDelete_spec m lo (st.length - (m + 1)) st cs b1 cs.matchLen (by omega) (by rw [hrep.len]; omega) hrep (by omega) hg1
      (by intro j x hj hx; rw [ht1]; exact hpos j x hj hx)
  have hlast : st[st.length - 1] < total b := by
    by_cases h : m < st.length - 1
    · exact hpos _ _ h (List.getElem?_eq_getElem htop)
    · have : st.length - 1 = m := by omega
      simp only [this]; rw [← hout]; exact hcur
  obtain ⟨b3, e3, hg3, ho3, ht3, _, hq3, hl3⟩ := moveStep b2 (st[st.length - 1] + 1) hg2 (by rw [ht2, ht1]; omega)
  have hrd2 : rdN cs'.matchPos (posIdx m) = .ok st[m] := by rw [hmp]; exact hrep.rd hlo hm
  have hle : st[m] ≤ b3.outLen := by
    rw [ho3]
    have := hsorted m (st.length - 1) _ _ (by omega) (List.getElem?_eq_getElem hm) (List.getElem?_eq_getElem htop)
    omega
  obtain ⟨b4, e4, hg4, _, ht4, hq4, hl4⟩ := mergeOut_ok b3 st[m] hg3 hle
  simp only [e1, bind, Except.bind, h0, Bool.false_eq_true, if_false, hrd, e2, e3, hrd2, e4, pure, Except.pure]
  refine ⟨cs', b4, rfl, hrep', hg4, by rw [ht4, ht3, ht2, ht1], by rw [hl4, hl3, hl2, hl1], ?_, ?_⟩
  · intro q hq; rw [hq4, hq3]; exact hA q hq
  · intro q hq; rw [hq4, hq3, hB q hq, hq1, hout]

/-! ### the reference interpreter's action loop, one step at a time -/

open RbModel.Spec.Aat in
/-- the glyph vector after a Store: the ligature over the popped component, the pending components deleted -/
def storedXs (s : St) (pending : List Nat) (p lig : Nat) : Array Nat :=
  pending.foldl (fun xs q => xs.setIfInBounds q deletedGlyph) (s.xs.setIfInBounds p lig)

open RbModel.Spec.Aat in
theorem ligActions_step (A C L : Nat → Option Nat) (fuel k acc : Nat) (pending : List Nat) (s : St) (p : Nat)
    (rest : List Nat) (s' : St) (hs : s.stack = p :: rest)
    (h : ligActions A C L (fuel + 1) k acc pending s = some s') :
    ∃ action g comp, A k = some action ∧ s.xs[p]? = some g ∧ 0 ≤ (g : Int) + ligOffsetOf action ∧
      C ((g : Int) + ligOffsetOf action).toNat = some comp ∧
      (((action &&& (ligStore ||| ligLast) != 0) = true ∧ ∃ lig, L (acc + comp) = some lig ∧
          (((action &&& ligLast != 0) = true ∧ s' = { s with xs := storedXs s pending p lig, stack := p :: rest }) ∨
           ((action &&& ligLast != 0) = false ∧
            ligActions A C L fuel (k + 1) (acc + comp) [p] { s with xs := storedXs s pending p lig, stack := rest } = some s')))
       ∨ ((action &&& (ligStore ||| ligLast) != 0) = false ∧
          ligActions A C L fuel (k + 1) (acc + comp) (p :: pending) { s with stack := rest } = some s')) := by
  unfold ligActions at h
  rw [hs] at h
  simp only [bind, Option.bind] at h
  cases ha : A k with
  | none => rw [ha] at h; cases h
  | some action =>
    rw [ha] at h
    simp only at h
    cases hg : s.xs[p]? with
    | none => rw [hg] at h; cases h
    | some g =>
      rw [hg] at h
      simp only at h
      by_cases hci : (g : Int) + ligOffsetOf action < 0
      · simp [hci] at h
      · simp only [hci, if_false] at h
        cases hc : C ((g : Int) + ligOffsetOf action).toNat with
        | none => simp [hc, pure] at h
        | some comp =>
          simp only [hc, pure] at h
          refine ⟨action, g, comp, rfl, rfl, by omega, hc, ?_⟩
          by_cases hst : (action &&& (ligStore ||| ligLast) != 0) = true
          · left
            simp only [hst, if_true] at h
            cases hl : L (acc + comp) with
            | none => simp [hl] at h
            | some lig =>
              simp only [hl] at h
              refine ⟨hst, lig, rfl, ?_⟩
              by_cases hla : (action &&& ligLast != 0) = true
              · left
                simp only [hla, if_true, Option.some.injEq] at h
                exact ⟨hla, h.symm⟩
              · right
                have hla' : (action &&& ligLast != 0) = false := by simpa using hla
                simp only [hla', Bool.false_eq_true, if_false] at h
                exact ⟨hla', h⟩
          · right
            have hst' : (action &&& (ligStore ||| ligLast) != 0) = false := by simpa using hst
            simp only [hst', Bool.false_eq_true, if_false] at h
            exact ⟨hst', h⟩

/-! ### the action loop refines the reference interpreter's -/

open RbModel.Spec.Aat

theorem or_c (o : Nat) (h : o < 2^30) : o ||| 0xC0000000 = o + 0xC0000000 := by
  have := Nat.two_pow_add_eq_or_of_lt h 3
  have e : (2:Nat)^30 * 3 = 0xC0000000 := by decide
  rw [e] at this
  rw [Nat.or_comm, ← this]; omega

theorem compIdx_spec (g action : Nat) (h : 0 ≤ (g : Int) + ligOffsetOf action) :
    LigS.compIdx g action = ((g : Int) + ligOffsetOf action).toNat := by
  unfold LigS.compIdx ligOffsetOf at *
  have hc : LIG_ACTION_OFFSET = ligOffset := rfl
  rw [hc]
  have ho : action &&& ligOffset < 2 ^ 30 := by
    have : action &&& ligOffset ≤ ligOffset := Nat.and_le_right
    have e : ligOffset = 2 ^ 30 - 1 := by decide
    omega
  generalize action &&& ligOffset = o at *
  simp only at h ⊢
  by_cases hb : (o &&& 0x20000000 != 0) = true
  · simp only [hb, if_true] at h ⊢
    rw [or_c o ho]
    have h1 : o + 0xC0000000 ≥ 2 ^ 31 := by omega
    simp only [h1, if_true]
    have e : ((o + 0xC0000000 : Nat) : Int) - 2 ^ 32 = (o : Int) - 2 ^ 30 := by omega
    rw [e]
    have : ¬ (g : Int) + ((o : Int) - 2 ^ 30) < 0 := by omega
    simp only [this, if_false]
  · have hb' : (o &&& 0x20000000 != 0) = false := by simpa using hb
    simp only [hb', Bool.false_eq_true, if_false] at h ⊢
    have h1 : ¬ o ≥ 2 ^ 31 := by omega
    simp only [h1, if_false]
    have : ¬ (g : Int) + (o : Int) < 0 := by omega
    simp only [this, if_false]
theorem foldDel_get (pending : List Nat) : ∀ (xs : Array Nat) (q : Nat),
   (pending.foldl (fun xs p => xs.setIfInBounds p deletedGlyph) xs)[q]? =
     if q ∈ pending ∧ q < xs.size then some deletedGlyph else xs[q]? := by
  induction pending with
  | nil => intro xs q; simp
  | cons p ps ih =>
    intro xs q
    simp only [List.foldl_cons, ih, Array.size_setIfInBounds, Array.getElem?_setIfInBounds, List.mem_cons]
    by_cases h1 : q ∈ ps <;> by_cases h2 : q < xs.size <;> by_cases h3 : p = q <;> simp [h1, h2, h3]
    all_goals (first | omega | (subst h3; simp_all) | skip)

theorem foldDel_size (pending : List Nat) : ∀ (xs : Array Nat),
   (pending.foldl (fun xs p => xs.setIfInBounds p deletedGlyph) xs).size = xs.size := by
  induction pending with
  | nil => intro xs; rfl
  | cons p ps ih => intro xs; simp only [List.foldl_cons, ih, Array.size_setIfInBounds]

/-- the glyph ids of the buffer's logical sequence are the reference interpreter's glyph vector -/
structure Sim (b : RbModel.Buf) (xs : Array Nat) : Prop where
  size : xs.size = RbModel.Buf.total b
  get : ∀ q, gv b q = xs[q]?

theorem take_succ_drop_rev (st : List Nat) (m lo : Nat) (h1 : lo ≤ m) (h2 : m < st.length) :
    ((st.take (m + 1)).drop lo).reverse = st[m] :: ((st.take m).drop lo).reverse := by
  rw [List.take_add_one, List.getElem?_eq_getElem h2]
  simp only [Option.toList]
  rw [List.drop_append_of_le_length (by simp; omega)]
  simp

theorem above_iff_mem_drop (st : List Nat) (m q : Nat) : Above st m q ↔ q ∈ st.drop (m + 1) := by
  unfold Above
  rw [List.mem_iff_getElem?]
  constructor
  · intro ⟨j, hj, hq⟩
    exact ⟨j - (m + 1), by rw [List.getElem?_drop]; rw [show m + 1 + (j - (m + 1)) = j by omega]; exact hq⟩
  · intro ⟨i, hi⟩
    rw [List.getElem?_drop] at hi
    exact ⟨m + 1 + i, by omega, hi⟩

theorem sim_cur (b : RbModel.Buf) (xs : Array Nat) (p g : Nat) (hg : Good b) (hs : Sim b xs) (ho : b.outLen = p)
    (hx : xs[p]? = some g) :
    p < RbModel.Buf.total b ∧ ∃ x, liftS (RbModel.Mem.get b.info b.idx) = .ok x ∧ x.gid = g := by
  have hp : p < RbModel.Buf.total b := by
    rw [← hs.size]
    rcases Nat.lt_or_ge p xs.size with h | h
    · exact h
    · rw [Array.getElem?_eq_none h] at hx; cases hx
  have hc := cur_of_lt b hg (by rw [ho]; exact hp)
  have hlen := hg.inv.len_le
  refine ⟨hp, b.info[b.idx]'(by omega), by rw [RbModel.Mem.get_ok (by omega)]; rfl, ?_⟩
  have h1 := hs.get p
  rw [hx] at h1
  unfold gv at h1
  rw [← ho, RbModel.Buf.seq_at_outLen b hc, List.getElem?_eq_getElem (by omega)] at h1
  simpa using h1

/-- **the action loop refines the reference interpreter's.** From a code stack `cs` that represents the list `st` with
    the window `[lo, length)` remembered, a cursor `c` into it, a buffer whose glyph ids are the reference's glyph vector
    and a reference state whose stack is the remembered part below the cursor and whose pending list is the part of `st`
    from the cursor up: whenever the reference interpreter's loop is defined, the code's loop does not panic and ends in
    a state that represents the reference's result — the stack a prefix of `st`, the glyph ids equal. -/
theorem ligLoop_sim (t : LigTable) (hcomp : ∀ i v, t.components i = some v → v < 65536) :
    ∀ (c k acc : Nat) (cs : CS) (b : RbModel.Buf) (st : List Nat) (lo : Nat) (s : St) (fuel : Nat) (s' : St),
      Rep cs st lo → lo ≤ c → c ≤ st.length → Sorted st → Good b →
      (∀ j x, c ≤ j → st[j]? = some x → x < RbModel.Buf.total b) →
      s.stack = ((st.take c).drop lo).reverse → s.lost = lo → Sim b s.xs →
      acc + (c - lo) * 65536 ≤ 2 ^ 32 - 1 → k + (c - lo) ≤ 65535 →
      ligActions t.actions t.components t.ligatures fuel k acc (st.drop c) s = some s' →
      ∃ cs' b' n, LigS.ligLoop t c k acc cs b = .ok (cs', b') ∧ Rep cs' (st.take n) lo ∧ Good b' ∧
        RbModel.Buf.total b' = RbModel.Buf.total b ∧ b'.level = b.level ∧
        s'.stack = ((st.take n).drop lo).reverse ∧ s'.lost = lo ∧ s'.i = s.i ∧ Sim b' s'.xs := by
  intro c
  induction c with
  | zero =>
    intro k acc cs b st lo s fuel s' hrep hlo _ _ hg _ hstack hlost hsim _ _ h
    have hlo0 : lo = 0 := by omega
    subst hlo0
    cases fuel with
    | zero => unfold ligActions at h; cases h
    | succ fuel =>
      unfold ligActions at h
      have hst : s.stack = [] := by rw [hstack]; simp
      rw [hst] at h
      have hl0 : (s.lost != 0) = false := by simp [hlost]
      simp only [hl0, Bool.false_eq_true, if_false, Option.some.injEq] at h
      subst h
      refine ⟨{ cs with matchLen := 0 }, b, 0, rfl, ⟨rfl, hrep.size, by simp, by simp, ?_⟩, hg, rfl, rfl, by simp, hlost, rfl, hsim⟩
      intro k _ hk; simp at hk
  | succ m ih =>
    intro k acc cs b st lo s fuel s' hrep hlo hc hsorted hg hpos hstack hlost hsim hacc hk h
    cases fuel with
    | zero => unfold ligActions at h; cases h
    | succ fuel =>
      by_cases hlm : lo ≤ m
      case neg =>
        exfalso
        have : lo = m + 1 := by omega
        have hst : s.stack = [] := by
          rw [hstack, List.drop_of_length_le (by simp; omega)]; rfl
        unfold ligActions at h
        rw [hst] at h
        have hl0 : (s.lost != 0) = true := by simp [hlost, this]
        simp [hl0] at h
      have hm : m < st.length := by omega
      have hst : s.stack = st[m] :: ((st.take m).drop lo).reverse := by
        rw [hstack]; exact take_succ_drop_rev st m lo hlm hm
      obtain ⟨action, g, comp, ha, hxg, hci, hcomp', hbr⟩ := ligActions_step _ _ _ fuel k acc _ s _ _ s' hst h
      -- the code: read the position, go there, look the action and the component up
      have hrd : rdN cs.matchPos (posIdx m) = .ok st[m] := hrep.rd hlm hm
      have hpm : st[m] < RbModel.Buf.total b := by
        rw [← hsim.size]
        rcases Nat.lt_or_ge st[m] s.xs.size with h' | h'
        · exact h'
        · rw [Array.getElem?_eq_none h'] at hxg; cases hxg
      obtain ⟨b1, e1, hg1, ho1, ht1, hsq1, hq1, hl1⟩ := moveStep b st[m] hg (by omega)
      have hsim1 : Sim b1 s.xs := ⟨by rw [ht1]; exact hsim.size, fun q => by rw [hq1]; exact hsim.get q⟩
      obtain ⟨_, x, e2, hxgid⟩ := sim_cur b1 s.xs st[m] g hg1 hsim1 ho1 hxg
      have hci' := compIdx_spec g action hci
      have hcv : comp < 65536 := hcomp _ _ hcomp'
      have hmod : (acc + comp) % 2 ^ 32 = acc + comp := by
        apply Nat.mod_eq_of_lt
        omega
      have hkmod : (k + 1) % 65536 = k + 1 := by apply Nat.mod_eq_of_lt; omega
      have hdrop : st.drop m = st[m] :: st.drop (m + 1) := by
        rw [List.drop_eq_getElem_cons hm]
      unfold LigS.ligLoop
      simp only [hrd, bind, Except.bind, e1, ha, e2, hxgid, hci', hcomp', hmod, hkmod]
      have hstc : (LIG_ACTION_STORE ||| LIG_ACTION_LAST) = (ligStore ||| ligLast) := rfl
      have hlc : LIG_ACTION_LAST = ligLast := rfl
      rw [hstc, hlc]
      rcases hbr with ⟨hst1, lig, hlig, hlast⟩ | ⟨hst0, hrec⟩
      · -- Store
        simp only [hst1, if_true, hlig]
        obtain ⟨cs2, b2, e3, hrep2, hg2, ht2, hl2, hA, hB⟩ := ligStore_spec lig m lo st cs b1 hrep hlm hm hsorted hg1 ho1
          (by rw [ho1, ht1]; exact hpm) (by intro j x hj hx; rw [ht1]; exact hpos j x (by omega) hx)
        simp only [e3, pure, Except.pure]
        have hsim2 : Sim b2 (storedXs s (st.drop (m + 1)) st[m] lig) := by
          refine ⟨by unfold storedXs; rw [foldDel_size, Array.size_setIfInBounds, ht2, ht1]; exact hsim.size, ?_⟩
          intro q
          unfold storedXs
          rw [foldDel_get, Array.size_setIfInBounds, Array.getElem?_setIfInBounds]
          by_cases hab : Above st m q
          · have hmem := (above_iff_mem_drop st m q).mp hab
            have hq : q < s.xs.size := by
              obtain ⟨j, hj, hx⟩ := hab
              rw [hsim.size]; exact hpos j q (by omega) hx
            rw [hA q hab]; simp [hmem, hq, deletedGlyph]
          · have hmem : ¬ q ∈ st.drop (m + 1) := fun hh => hab ((above_iff_mem_drop st m q).mpr hh)
            rw [hB q hab]
            simp only [hmem, false_and, if_false]
            by_cases hqm : q = st[m]
            · subst hqm
              have : st[m] < s.xs.size := by rw [hsim.size]; exact hpm
              simp [this]
            · have : ¬ st[m] = q := fun hh => hqm hh.symm
              simp only [hqm, this, if_false]
              rw [hq1]; exact hsim.get q
        rcases hlast with ⟨hla, hs'⟩ | ⟨hla, hrec⟩
        · simp only [hla, if_true]
          subst hs'
          refine ⟨cs2, b2, m + 1, rfl, hrep2, hg2, by rw [ht2, ht1], by rw [hl2, hl1], ?_, hlost, rfl, hsim2⟩
          show st[m] :: ((st.take m).drop lo).reverse = _
          exact (take_succ_drop_rev st m lo hlm hm).symm
        · simp only [hla, Bool.false_eq_true, if_false]
          have hsorted2 : Sorted (st.take (m + 1)) := by
            intro i j x y hij hx hy
            rw [List.getElem?_take] at hx hy
            split at hx <;> split at hy <;> first | exact hsorted i j x y hij hx hy | cases hx | cases hy
          have hl2' : (st.take (m + 1)).length = m + 1 := by simp; omega
          have htt : (st.take (m + 1)).take m = st.take m := by rw [List.take_take]; congr 1; omega
          have hdd : (st.take (m + 1)).drop m = [st[m]] := by
            rw [List.take_add_one, List.getElem?_eq_getElem hm]
            simp only [Option.toList]
            rw [List.drop_append_of_le_length (by simp; omega)]
            have : (st.take m).drop m = [] := List.drop_of_length_le (by simp; omega)
            rw [this]; rfl
          obtain ⟨cs3, b3, n, e4, hrep3, hg3, ht3, hl3, hs3, hlo3, hi3, hsim3⟩ :=
            ih (k + 1) (acc + comp) cs2 b2 (st.take (m + 1)) lo
              { s with xs := storedXs s (st.drop (m + 1)) st[m] lig, stack := ((st.take m).drop lo).reverse } fuel s'
              hrep2 hlm (by omega) hsorted2 hg2
              (by
                intro j x hj hx
                rw [List.getElem?_take] at hx
                split at hx
                · have : j = m := by omega
                  subst this
                  rw [List.getElem?_eq_getElem hm] at hx; cases hx
                  rw [ht2, ht1]; exact hpm
                · cases hx)
              (by rw [htt]) hlost hsim2
              (by
                omega)
              (by omega) (by rw [hdd]; exact hrec)
          rw [e4]
          refine ⟨cs3, b3, min n (m + 1), rfl, ?_, hg3, by rw [ht3, ht2, ht1], by rw [hl3, hl2, hl1], ?_, hlo3, hi3, hsim3⟩
          · rw [List.take_take] at hrep3; exact hrep3
          · rw [List.take_take] at hs3; exact hs3
      · -- no Store: the component stays popped
        simp only [hst0, Bool.false_eq_true, if_false, pure, Except.pure]
        have hla : (action &&& ligLast != 0) = false := by
          have h0 : action &&& (ligStore ||| ligLast) = 0 := by simpa using hst0
          rw [Nat.and_or_distrib_left] at h0
          have := (Nat.or_eq_zero_iff.mp h0).2
          simp [this]
        simp only [hla, Bool.false_eq_true, if_false]
        obtain ⟨cs3, b3, n, e4, hrep3, hg3, ht3, hl3, hs3, hlo3, hi3, hsim3⟩ :=
          ih (k + 1) (acc + comp) cs b1 st lo { s with stack := ((st.take m).drop lo).reverse } fuel s'
            hrep hlm (by omega) hsorted hg1
            (by
              intro j x hj hx
              rw [ht1]
              by_cases hjm : j = m
              · subst hjm; rw [List.getElem?_eq_getElem hm] at hx; cases hx; exact hpm
              · exact hpos j x (by omega) hx)
            rfl hlost hsim1
            (by
              omega)
            (by omega) (by rw [hdrop]; exact hrec)
        rw [e4]
        exact ⟨cs3, b3, n, rfl, hrep3, hg3, by rw [ht3, ht1], by rw [hl3, hl1], hs3, hlo3, hi3, hsim3⟩

/-- the ligature context and the in/out buffer of the code represent a state of the reference interpreter -/
structure Rlig (cs : CS) (b : RbModel.Buf) (st : List Nat) (lo : Nat) (s : St) : Prop where
  rep : Rep cs st lo
  sorted : Sorted st
  below : ∀ x ∈ st, x ≤ b.outLen
  good : Good b
  stack : s.stack = (st.drop lo).reverse
  lost : s.lost = lo
  cur : s.i = b.outLen
  sim : Sim b s.xs

theorem sorted_take (st : List Nat) (n : Nat) (h : Sorted st) : Sorted (st.take n) := by
  intro i j x y hij hx hy
  rw [List.getElem?_take] at hx hy
  split at hx <;> split at hy <;> first | exact h i j x y hij hx hy | cases hx | cases hy

theorem ligPerform_sim (t : LigTable) (hcomp : ∀ i v, t.components i = some v → v < 65536)
    (cs : CS) (e : Entry) (b : RbModel.Buf) (st : List Nat) (lo : Nat) (s s' : St)
    (hr : Rlig cs b st lo s) (hx1 : e.x1 + 64 ≤ 65535)
    (h : ligPerform t.actions t.components t.ligatures ⟨e.newState, e.flags, e.x1, e.x2⟩ s = some s') :
    ∃ cs' b' n, LigS.ligPerform t cs e b = .ok (cs', b') ∧ Rlig cs' b' (st.take n) lo s' ∧ b'.outLen = b.outLen ∧
      RbModel.Buf.total b' = RbModel.Buf.total b := by
  obtain ⟨hrep, hsorted, hbelow, hg, hstack, hlost, hcur, hsim⟩ := hr
  have hlo := hrep.lo_le
  have hwin := hrep.win
  have htake : st.take st.length = st := List.take_of_length_le (Nat.le_refl _)
  unfold ligPerform at h
  unfold LigS.ligPerform
  by_cases hL : st.length = lo
  · -- nothing remembered
    have hemp : s.stack.isEmpty = true := by
      rw [hstack, List.drop_of_length_le (by omega)]; rfl
    simp only [hemp, if_true] at h
    by_cases hl0 : lo = 0
    · have : (s.lost != 0) = false := by simp [hlost, hl0]
      simp only [this, Bool.false_eq_true, if_false, Option.some.injEq] at h
      subst h
      have hm : (cs.matchLen == 0) = true := by
        have : cs.matchLen = 0 := by rw [hrep.len]; omega
        simp [this]
      simp only [hm, if_true, pure, Except.pure]
      exact ⟨cs, b, st.length, rfl, by rw [htake]; exact ⟨hrep, hsorted, hbelow, hg, hstack, hlost, hcur, hsim⟩, rfl, rfl⟩
    · have : (s.lost != 0) = true := by simp [hlost, hl0]
      simp [this] at h
  · have hne : s.stack.isEmpty = false := by
      rw [hstack]
      have : (st.drop lo).length ≠ 0 := by simp; omega
      cases hd : (st.drop lo).reverse with
      | nil => simp at hd; omega
      | cons a l => rfl
    simp only [hne, Bool.false_eq_true, if_false] at h
    have hm : (cs.matchLen == 0) = false := by
      have : cs.matchLen ≠ 0 := by rw [hrep.len]; omega
      simpa using this
    simp only [hm, Bool.false_eq_true, if_false]
    have hidx := hg.inv.idx_le
    by_cases hend : s.i ≥ s.len
    · simp only [hend, if_true, Option.some.injEq] at h
      subst h
      have : b.idx ≥ b.len := by
        have h1 := hsim.size
        unfold St.len at hend
        rw [h1, hcur] at hend
        unfold RbModel.Buf.total at hend; omega
      simp only [this, if_true, pure, Except.pure]
      exact ⟨cs, b, st.length, rfl, by rw [htake]; exact ⟨hrep, hsorted, hbelow, hg, hstack, hlost, hcur, hsim⟩, rfl, rfl⟩
    · simp only [hend, if_false] at h
      have hcurlt : ¬ b.idx ≥ b.len := by
        have h1 := hsim.size
        unfold St.len at hend
        rw [h1, hcur] at hend
        unfold RbModel.Buf.total at hend; omega
      simp only [hcurlt, if_false]
      have hdropall : st.drop st.length = [] := List.drop_of_length_le (Nat.le_refl _)
      obtain ⟨cs1, b1, n, e1, hrep1, hg1, ht1, _, hs1, hl1, hi1, hsim1⟩ :=
        ligLoop_sim t hcomp st.length e.x1 0 cs b st lo s _ s' hrep hlo (Nat.le_refl _) hsorted hg
          (by
            intro j x hj hx
            rw [List.getElem?_eq_none hj] at hx; cases hx)
          (by rw [htake]; exact hstack) hlost hsim (by omega) (by omega) (by rw [hdropall]; exact h)
      have hm' : cs.matchLen = st.length := hrep.len
      rw [hm', e1]
      obtain ⟨b2, e2, hg2, ho2, ht2, _, hq2, _⟩ := moveStep b1 b.outLen hg1 (by rw [ht1]; unfold RbModel.Buf.total; omega)
      simp only [bind, Except.bind, e2, pure, Except.pure]
      refine ⟨cs1, b2, n, rfl, ⟨hrep1, sorted_take st n hsorted, ?_, hg2, hs1, hl1, by rw [hi1, hcur, ho2], ?_⟩, ho2,
        by rw [ht2, ht1]⟩
      · intro x hx; rw [ho2]; exact hbelow x (List.mem_of_mem_take hx)
      · exact ⟨by rw [ht2]; exact hsim1.size, fun q => by rw [hq2]; exact hsim1.get q⟩

theorem ligPush_sim (cs : CS) (b : RbModel.Buf) (st : List Nat) (lo : Nat) (s s' : St)
    (hr : Rlig cs b st lo s) (h : Spec.Aat.ligPush s = some s') :
    ∃ cs', LigS.ligPush cs b.outLen = .ok cs' ∧
      Rlig cs' b (pushed st b.outLen) (pushedLo st lo b.outLen) s' := by
  obtain ⟨hrep, hsorted, hbelow, hg, hstack, hlost, hcur, hsim⟩ := hr
  have hlo := hrep.lo_le
  have hwin := hrep.win
  unfold Spec.Aat.ligPush at h
  -- the new stack is sorted and below the cursor whatever was pushed
  have hsorted' : Sorted (pushed st b.outLen) := by
    unfold pushed
    split
    · exact hsorted
    · intro i j x y hij hx hy
      by_cases hj : j < st.length
      · rw [List.getElem?_append_left hj] at hy
        rw [List.getElem?_append_left (by omega)] at hx
        exact hsorted i j x y hij hx hy
      · have hxle : x ≤ b.outLen := by
          by_cases hi : i < st.length
          · rw [List.getElem?_append_left hi] at hx
            exact hbelow x (List.mem_of_getElem? hx)
          · rw [List.getElem?_append_right (by omega)] at hx
            have : i - st.length = 0 := by
              rcases Nat.eq_zero_or_pos (i - st.length) with h0 | h0
              · exact h0
              · rw [List.getElem?_eq_none (by simp; omega)] at hx; cases hx
            rw [this] at hx; simp at hx; omega
        rw [List.getElem?_append_right (by omega)] at hy
        have : j - st.length = 0 := by
          rcases Nat.eq_zero_or_pos (j - st.length) with h0 | h0
          · exact h0
          · rw [List.getElem?_eq_none (by simp; omega)] at hy; cases hy
        rw [this] at hy; simp at hy; omega
  have hbelow' : ∀ x ∈ pushed st b.outLen, x ≤ b.outLen := by
    intro x hx
    unfold pushed at hx
    split at hx
    · exact hbelow x hx
    · rcases List.mem_append.mp hx with h1 | h1
      · exact hbelow x h1
      · simp at h1; omega
  by_cases hL : st.length = lo
  · -- nothing remembered: only the empty stack is inside the domain
    have hemp : s.stack = [] := by rw [hstack, List.drop_of_length_le (by omega)]; rfl
    rw [hemp] at h
    simp only at h
    by_cases hl0 : lo = 0
    · have hlost0 : (s.lost != 0) = false := by simp [hlost, hl0]
      simp only [hlost0, Bool.false_eq_true, if_false, Option.some.injEq] at h
      subst h
      have hnil : st = [] := List.eq_nil_of_length_eq_zero (by omega)
      subst hnil; subst hl0
      obtain ⟨cs', e1, hrep'⟩ := ligPush_rep cs [] 0 b.outLen hrep (Or.inl rfl)
      refine ⟨cs', e1, ⟨hrep', hsorted', hbelow', hg, ?_, ?_, ?_, ?_⟩⟩
      · unfold ligPushPos; rw [hemp]; simp [ligStackKept, pushed, pushedLo, hcur]
      · unfold ligPushPos; rw [hemp]; simp [ligStackKept, pushed, pushedLo, hlost]
      · unfold ligPushPos; rw [hemp]; simp [ligStackKept, hcur]
      · unfold ligPushPos; rw [hemp]; simpa [ligStackKept] using hsim
    · have : (s.lost != 0) = true := by simp [hlost, hl0]
      simp [this] at h
  · have hlt : lo < st.length := by omega
    have htop : st.length - 1 < st.length := by omega
    have hlast : st.getLast? = some st[st.length - 1] := by
      rw [getLast?_eq_getElem? st, List.getElem?_eq_getElem htop]
    have hst : s.stack = st[st.length - 1] :: ((st.take (st.length - 1)).drop lo).reverse := by
      rw [hstack]
      have := take_succ_drop_rev st (st.length - 1) lo (by omega) htop
      rw [show st.length - 1 + 1 = st.length by omega, List.take_of_length_le (Nat.le_refl _)] at this
      exact this
    rw [hst] at h
    simp only [Option.some.injEq] at h
    obtain ⟨cs', e1, hrep'⟩ := ligPush_rep cs st lo b.outLen hrep (Or.inr hlt)
    refine ⟨cs', e1, ?_⟩
    by_cases hp : st[st.length - 1] = b.outLen
    · have hbeq : (st[st.length - 1] == s.i) = true := by simp [hp, hcur]
      simp only [hbeq, if_true] at h
      subst h
      have hpu : pushed st b.outLen = st := by unfold pushed; rw [hlast, hp]; simp
      have hpl : pushedLo st lo b.outLen = lo := by unfold pushedLo; rw [hlast, hp]; simp
      rw [hpu, hpl] at hrep' ⊢
      exact ⟨hrep', hsorted, hbelow, hg, hstack, hlost, hcur, hsim⟩
    · have hbeq : (st[st.length - 1] == s.i) = false := by simp [hp, hcur]
      simp only [hbeq, Bool.false_eq_true, if_false] at h
      subst h
      have hne' : ¬ st.getLast? = some b.outLen := by rw [hlast]; intro hh; exact hp (Option.some.inj hh)
      have hpu : pushed st b.outLen = st ++ [b.outLen] := by unfold pushed; simp [hne']
      have hpl : pushedLo st lo b.outLen = if st.length - lo < 64 then lo else lo + 1 := by
        unfold pushedLo; simp [hne']
      have hslen : s.stack.length = st.length - lo := by rw [hstack]; simp
      refine ⟨hrep', hsorted', hbelow', hg, ?_, ?_, ?_, ?_⟩
      · rw [hpu, hpl]
        unfold ligPushPos
        by_cases hfull : st.length - lo < 64
        · have : s.stack.length < ligStackKept := by rw [hslen]; exact hfull
          simp only [this, if_true, hfull]
          rw [hcur, hstack, List.drop_append_of_le_length (by omega)]
          simp
        · have : ¬ s.stack.length < ligStackKept := by rw [hslen]; exact hfull
          simp only [this, if_false, hfull]
          rw [hcur, hstack, List.drop_append_of_le_length (by omega)]
          have h64 : (st.drop lo).length = 64 := by simp; omega
          have e : ligStackKept = 63 + 1 := rfl
          rw [e, List.take_succ_cons, List.reverse_append]
          simp only [List.reverse_cons, List.reverse_nil, List.nil_append, List.singleton_append, List.cons.injEq, true_and]
          rw [List.take_reverse, h64]
          simp only [show 64 - 63 = 1 by rfl, List.drop_drop]
      · rw [hpl]
        unfold ligPushPos
        by_cases hfull : st.length - lo < 64
        · have : s.stack.length < ligStackKept := by rw [hslen]; exact hfull
          simp only [this, if_true, hfull]; exact hlost
        · have : ¬ s.stack.length < ligStackKept := by rw [hslen]; exact hfull
          simp only [this, if_false, hfull]; rw [hlost]
      · unfold ligPushPos; split <;> exact hcur
      · unfold ligPushPos; split <;> exact hsim

/-- **LigatureCtx::transition refines the reference interpreter's ligature action** (`Spec.Aat.ligAct`), for every
    table, entry, stack and buffer: see `C17_ligature_stack_discipline` in Props/C17.lean. -/
theorem ligTransition_sim (t : LigTable) (hcomp : ∀ i v, t.components i = some v → v < 65536)
    (cs : CS) (e : Entry) (b : RbModel.Buf) (st : List Nat) (lo : Nat) (s s' : St)
    (hr : Rlig cs b st lo s) (hx1 : e.x1 + 64 ≤ 65535)
    (h : ligAct t.actions t.components t.ligatures ⟨e.newState, e.flags, e.x1, e.x2⟩ s = some s') :
    ∃ cs' b' st' lo', LigS.transition t cs e b = .ok (cs', b') ∧ Rlig cs' b' st' lo' s' ∧ b'.outLen = b.outLen ∧
      RbModel.Buf.total b' = RbModel.Buf.total b ∧
      (∃ n, st' = (if bit e.flags LIG_SET_COMPONENT then pushed st b.outLen else st).take n) ∧
      lo' = (if bit e.flags LIG_SET_COMPONENT then pushedLo st lo b.outLen else lo) := by
  unfold ligAct at h
  unfold LigS.transition
  have hflag1 : has e.flags fSetMark = bit e.flags LIG_SET_COMPONENT := rfl
  have hflag2 : has e.flags fPerformAction = bit e.flags LIG_PERFORM_ACTION := rfl
  simp only [bind, Option.bind] at h
  rw [hflag1, hflag2] at h
  by_cases hset : bit e.flags LIG_SET_COMPONENT = true
  · simp only [hset, if_true] at h ⊢
    cases hp : Spec.Aat.ligPush s with
    | none => rw [hp] at h; cases h
    | some s1 =>
      rw [hp] at h
      simp only at h
      obtain ⟨cs1, e1, hr1⟩ := ligPush_sim cs b st lo s s1 hr hp
      simp only [e1, bind, Except.bind]
      by_cases hperf : bit e.flags LIG_PERFORM_ACTION = true
      · simp only [hperf, if_true] at h ⊢
        obtain ⟨cs2, b2, n, e2, hr2, ho2, ht2⟩ := ligPerform_sim t hcomp cs1 e b _ _ s1 s' hr1 hx1 h
        exact ⟨cs2, b2, _, _, e2, hr2, ho2, ht2, ⟨n, rfl⟩, rfl⟩
      · have hperf' : bit e.flags LIG_PERFORM_ACTION = false := by simpa using hperf
        simp only [hperf', Bool.false_eq_true, if_false, Option.some.injEq, pure, Except.pure] at h ⊢
        subst h
        refine ⟨cs1, b, _, _, rfl, hr1, rfl, rfl, ⟨(pushed st b.outLen).length, ?_⟩, rfl⟩
        rw [List.take_of_length_le (Nat.le_refl _)]
  · have hset' : bit e.flags LIG_SET_COMPONENT = false := by simpa using hset
    simp only [hset', Bool.false_eq_true, if_false, pure, Except.pure, bind, Except.bind] at h ⊢
    by_cases hperf : bit e.flags LIG_PERFORM_ACTION = true
    · simp only [hperf, if_true] at h ⊢
      obtain ⟨cs2, b2, n, e2, hr2, ho2, ht2⟩ := ligPerform_sim t hcomp cs e b _ _ s s' hr hx1 h
      exact ⟨cs2, b2, _, _, e2, hr2, ho2, ht2, ⟨n, rfl⟩, rfl⟩
    · have hperf' : bit e.flags LIG_PERFORM_ACTION = false := by simpa using hperf
      simp only [hperf', Bool.false_eq_true, if_false, Option.some.injEq] at h ⊢
      subst h
      refine ⟨cs, b, _, _, rfl, hr, rfl, rfl, ⟨st.length, ?_⟩, rfl⟩
      rw [List.take_of_length_le (Nat.le_refl _)]

/-! ### a concrete instance (non-vacuity of the hypotheses of `C17_ligature_stack_discipline`) -/

/-- two actions (pop; pop + Last), every component value 1, ligature 9 for the sum 2; three glyphs `5 6 7` with the cursor
    on the second, the first already on the stack -/
def exLigTable : LigTable := ⟨fun i => #[0, 0x80000000][i]?, fun _ => some 1, fun i => if i == 2 then some 9 else none⟩
def exLigBuf : RbModel.Buf :=
  { info := [{ gid := 5 }, { gid := 6, cluster := 1 }, { gid := 7, cluster := 2 }], out := [{}, {}, {}], idx := 1, len := 3,
    outLen := 1, haveOutput := true, maxLen := 100 }
def exLigSt : St := { xs := #[5, 6, 7], i := 1, ops := 0, stack := [0], lost := 0 }
def exLigCS : CS := { matchLen := 1 }

theorem exLig_rlig : Rlig exLigCS exLigBuf [0] 0 exLigSt := by
  refine ⟨⟨rfl, rfl, by decide, by decide, ?_⟩, ?_, ?_, ⟨⟨by decide, by decide, by decide, (fun h => by simp [exLigBuf] at h), (fun _ => by decide), rfl⟩, rfl, by decide⟩, rfl, rfl, rfl, ⟨rfl, ?_⟩⟩
  · intro k _ hk
    have : k = 0 := by simp at hk; omega
    subst this; rfl
  · intro i j x y hij hx hy
    have hj : j = 0 := by
      rcases Nat.eq_zero_or_pos j with h | h
      · exact h
      · rw [List.getElem?_eq_none (by simp; omega)] at hy; cases hy
    have hi : i = 0 := by omega
    subst hi; subst hj
    simp at hx hy; omega
  · intro x hx; simp at hx; subst hx; decide
  · intro q
    match q with
    | 0 => rfl
    | 1 => rfl
    | 2 => rfl
    | q + 3 =>
      have : exLigSt.xs[q + 3]? = none := by simp [exLigSt]
      rw [this]
      unfold gv RbModel.Buf.seq
      have : ¬ q + 2 < 2 := by omega
      simp [exLigBuf, this]

end RbModel.Morx
