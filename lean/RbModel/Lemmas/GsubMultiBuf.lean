/-
  Buffer primitives of the multiple-substitution path (`replace_glyph`, `output_glyph`, `skip_glyph`, `next_glyph`,
  `sync`, and the in-place write to the current glyph) as operations on the pair
  (out-part, in-part) = (`out[0..outLen)`, `info[idx..len)`), with the length budget made explicit:
  `make_room_for` refuses only when `out_len + n > max_len`, so under `out_len + n ≤ max_len` nothing fails.
  Built on the `seq`/`Inv` lemmas of BufZipper.lean.
-/
import RbModel.Lemmas.BufZipper

namespace RbModel.Buf
open RbModel.Mem

/-! ### the length budget: which calls can refuse -/

theorem ensure_budget (b : Buf) (size : Nat) (h : size ≤ b.maxLen) : (b.ensure size).2 = true := by
  unfold ensure
  by_cases h1 : size < b.len
  · simp [h1]
  · have h2 : ¬ size > b.maxLen := by omega
    simp only [h1, h2, if_false]
    by_cases hg : Gen.Buf.ensureGrowOnly = true <;> simp [hg]

/-- under the budget `make_room_for` does not refuse -/
theorem makeRoomFor_budget (b : Buf) (numIn numOut : Nat) (h : b.outLen + numOut ≤ b.maxLen) :
    b.makeRoomFor numIn numOut ≠ .ok ({ b with successful := false }, false) := by
  have he := ensure_budget b (b.outLen + numOut) h
  unfold makeRoomFor
  rcases hen : b.ensure (b.outLen + numOut) with ⟨b1, ok⟩
  rw [hen] at he
  simp only at he
  subst he
  simp only [Bool.not_true, Bool.false_eq_true, if_false]
  intro hc
  by_cases hs : (!b1.sepOut && decide (b1.outLen + numOut > b1.idx + numIn)) = true
  · simp only [hs, if_true] at hc
    by_cases hh : (!b1.haveOutput) = true
    · simp only [hh, if_true, throw, throwThe, MonadExceptOf.throw, bind, Except.bind] at hc
      cases hc
    · simp only [hh, Bool.false_eq_true, if_false, bind, Except.bind] at hc
      cases hcp : copyAcross b1.info b1.out 0 0 b1.outLen 0 with
      | error e => simp [hcp] at hc
      | ok o => simp [hcp, pure, Except.pure] at hc
  · simp [hs, pure, Except.pure] at hc

/-- `makeRoomFor_spec` under the budget: only the successful branch remains -/
theorem makeRoomFor_ok (b : Buf) (numIn numOut : Nat) (hinv : Inv b)
    (hg : Gen.Buf.ensureGrowOnly = true) (hb : b.outLen + numOut ≤ b.maxLen) :
    ∃ I O s, b.makeRoomFor numIn numOut = .ok ({ b with info := I, out := O, sepOut := s }, true) ∧
      Inv { b with info := I, out := O, sepOut := s } ∧
      b.outLen + numOut ≤ (outArr { b with info := I, out := O, sepOut := s }).length ∧
      (s = false → b.outLen + numOut ≤ b.idx + numIn) ∧
      (b.sepOut = true → s = true) ∧
      (∀ q, q < b.outLen → (outArr { b with info := I, out := O, sepOut := s })[q]? = b.outArr[q]?) ∧
      (∀ q, q < b.info.length → I[q]? = b.info[q]?) ∧ b.info.length ≤ I.length := by
  rcases makeRoomFor_spec b numIn numOut hinv hg with hfail | h
  · exact absurd hfail (makeRoomFor_budget b numIn numOut hb)
  · exact h

/-! ### the primitives under the budget (same proofs as in BufZipper.lean, failure branch excluded, frame added) -/

theorem nextGlyph_ok (b : Buf) (hinv : Inv b) (hcur : b.idx < b.len)
    (hg : Gen.Buf.ensureGrowOnly = true) (hb : b.outLen + 1 ≤ b.maxLen) :
    ∃ b', b.nextGlyph = .ok b' ∧ Inv b' ∧ b'.outLen = b.outLen + 1 ∧ b'.idx = b.idx + 1 ∧ b'.len = b.len ∧
        b'.successful = b.successful ∧ b'.maxLen = b.maxLen ∧ ∀ q, seq b' q = seq b q := by
  have hidx := hinv.idx_le
  have hlen := hinv.len_le
  have hho := hinv.have_out
  unfold nextGlyph
  rw [if_pos hho]
  by_cases hc : (b.sepOut || b.outLen != b.idx) = true
  · simp only [hc, if_true]
    obtain ⟨I, O, s, hok, hinv1, hcap, hs1, hs2, hout1, hinf1, hle1⟩ := makeRoomFor_ok b 1 1 hinv hg hb
    have hx : I[b.idx]? = some b.info[b.idx] := by
      rw [hinf1 b.idx (by omega)]; exact List.getElem?_eq_getElem (by omega)
    have hget : get I b.idx = .ok b.info[b.idx] := by unfold get; rw [hx]; rfl
    obtain ⟨I', O', hset, hinv2, hseq2⟩ :=
      emit_spec { b with info := I, out := O, sepOut := s } b.info[b.idx] 1 hinv1 (by simpa using hcap)
        (by simp; omega) (by intro h; simp at h; have := hs1 h; simp; omega)
    simp only [bind, Except.bind, hok, Bool.not_true, Bool.false_eq_true, if_false, hget, pure, Except.pure]
    simp only [] at hset
    rw [hset]
    refine ⟨_, rfl, hinv2, rfl, rfl, rfl, rfl, rfl, ?_⟩
    intro q
    rw [hseq2 q]
    have hb1 : ∀ q, seq { b with info := I, out := O, sepOut := s } q = seq b q :=
      seq_congr b { b with info := I, out := O, sepOut := s } rfl rfl rfl hlen hout1 hinf1
    by_cases h1 : q < b.outLen
    · simp only [h1, if_true]; exact hb1 q
    · by_cases h2 : q = b.outLen
      · subst h2
        simp only [Nat.lt_irrefl, if_false, if_true]
        rw [seq_at_outLen b hcur]; exact (List.getElem?_eq_getElem (by omega)).symm
      · simp only [h1, h2, if_false]
        have : q - 1 + 1 = q := by omega
        rw [this]; exact hb1 q
  · obtain ⟨b', h, hcase⟩ := nextGlyph_spec b hinv hcur hg
    have hc' : b.sepOut = false ∧ b.outLen = b.idx := by simp at hc; exact hc
    have hb' : b' = { b with outLen := b.outLen + 1, idx := b.idx + 1 } := by
      unfold nextGlyph at h
      rw [if_pos hho] at h
      simp only [hc, Bool.false_eq_true, if_false, pure, Except.pure] at h
      cases h; rfl
    rcases hcase with hf | ⟨hinv', ho, hi, hl, hsu, hsq⟩
    · rw [hb'] at hf
      have := congrArg Buf.outLen hf
      simp at this
    · unfold nextGlyph at h
      rw [if_pos hho] at h
      exact ⟨b', h, hinv', ho, hi, hl, hsu, by rw [hb'], hsq⟩

theorem replaceGlyph_ok (b : Buf) (g : Nat) (hinv : Inv b) (hcur : b.idx < b.len)
    (hg : Gen.Buf.ensureGrowOnly = true) (hb : b.outLen + 1 ≤ b.maxLen) :
    ∃ b', b.replaceGlyph g = .ok b' ∧ Inv b' ∧ b'.outLen = b.outLen + 1 ∧ b'.idx = b.idx + 1 ∧ b'.len = b.len ∧
        b'.successful = b.successful ∧ b'.maxLen = b.maxLen ∧
        ∃ x, b.info[b.idx]? = some x ∧
          ∀ q, seq b' q = if q = b.outLen then some { x with gid := g } else seq b q := by
  have hidx := hinv.idx_le
  have hlen := hinv.len_le
  have hxx : b.info[b.idx]? = some b.info[b.idx] := List.getElem?_eq_getElem (by omega)
  unfold replaceGlyph
  by_cases hc : (b.sepOut || b.outLen != b.idx) = true
  · simp only [hc, if_true]
    obtain ⟨I, O, s, hok, hinv1, hcap, hs1, hs2, hout1, hinf1, hle1⟩ := makeRoomFor_ok b 1 1 hinv hg hb
    have hx : I[b.idx]? = some b.info[b.idx] := by
      rw [hinf1 b.idx (by omega)]; exact List.getElem?_eq_getElem (by omega)
    have hget : get I b.idx = .ok b.info[b.idx] := by unfold get; rw [hx]; rfl
    obtain ⟨I1, O1, hset1, _, _⟩ :=
      emit_spec { b with info := I, out := O, sepOut := s } b.info[b.idx] 1 hinv1 (by simpa using hcap)
        (by simp; omega) (by intro h; simp at h; have := hs1 h; simp; omega)
    obtain ⟨I', O', hset, hinv2, hseq2⟩ :=
      emit_spec { b with info := I, out := O, sepOut := s } { b.info[b.idx] with gid := g } 1 hinv1
        (by simpa using hcap) (by simp; omega) (by intro h; simp at h; have := hs1 h; simp; omega)
    simp only [] at hset1 hset
    obtain ⟨htw, hback⟩ := setOut_twice _ b.outLen _ { b.info[b.idx] with gid := g } _ hset1
    have hget2 : get (outArr { b with info := I1, out := O1, sepOut := s }) b.outLen = .ok b.info[b.idx] := by
      unfold get; rw [hback]; rfl
    simp only [bind, Except.bind, hok, Bool.not_true, Bool.false_eq_true, if_false, hget, pure, Except.pure, hset1]
    simp only [] at htw hget2
    simp only [hget2, htw, hset]
    refine ⟨_, rfl, hinv2, rfl, rfl, rfl, rfl, rfl, _, hxx, ?_⟩
    intro q
    rw [hseq2 q]
    have hb1 : ∀ q, seq { b with info := I, out := O, sepOut := s } q = seq b q :=
      seq_congr b { b with info := I, out := O, sepOut := s } rfl rfl rfl hlen hout1 hinf1
    by_cases h1 : q < b.outLen
    · have : q ≠ b.outLen := by omega
      simp only [h1, if_true, this, if_false]; exact hb1 q
    · by_cases h2 : q = b.outLen
      · subst h2; simp only [Nat.lt_irrefl, if_false, if_true]
      · simp only [h1, h2, if_false]
        have : q - 1 + 1 = q := by omega
        rw [this]; exact hb1 q
  · have hc' : b.sepOut = false ∧ b.outLen = b.idx := by
      simp at hc; exact hc
    have hget : get b.outArr b.outLen = .ok b.info[b.idx] := by
      simp only [outArr, hc'.1, Bool.false_eq_true, if_false, hc'.2]; exact get_ok (by omega)
    obtain ⟨I', O', hset, hinv2, hseq2⟩ :=
      emit_spec b { b.info[b.idx] with gid := g } 1 hinv
        (by simp only [outArr, hc'.1, Bool.false_eq_true, if_false]; omega) (by omega) (by intro _; omega)
    simp only [hc, Bool.false_eq_true, if_false, bind, Except.bind, pure, Except.pure, hget, hset]
    refine ⟨_, rfl, hinv2, rfl, rfl, rfl, rfl, rfl, _, hxx, ?_⟩
    intro q
    rw [hseq2 q]
    by_cases h1 : q < b.outLen
    · have : q ≠ b.outLen := by omega
      simp only [h1, if_true, this, if_false]
    · by_cases h2 : q = b.outLen
      · subst h2; simp only [Nat.lt_irrefl, if_false, if_true]
      · simp only [h1, h2, if_false]
        have : q - 1 + 1 = q := by omega
        rw [this]

/-- `output_glyph g` with a current glyph: a copy of it with glyph id `g` is inserted at the output cursor -/
theorem outputGlyph_ok (b : Buf) (g : Nat) (hinv : Inv b) (hcur : b.idx < b.len)
    (hg : Gen.Buf.ensureGrowOnly = true) (hb : b.outLen + 1 ≤ b.maxLen) :
    ∃ b', b.outputGlyph g = .ok b' ∧ Inv b' ∧ b'.outLen = b.outLen + 1 ∧ b'.idx = b.idx ∧ b'.len = b.len ∧
        b'.successful = b.successful ∧ b'.maxLen = b.maxLen ∧
        ∃ x, b.info[b.idx]? = some x ∧ b'.info[b'.idx]? = some x ∧
          ∀ q, seq b' q = if q < b.outLen then seq b q else if q = b.outLen then some { x with gid := g }
                          else seq b (q - 1) := by
  have hlen := hinv.len_le
  have hidx := hinv.idx_le
  unfold outputGlyph
  obtain ⟨I, O, s, hok, hinv1, hcap, hs1, hs2, hout1, hinf1, hle1⟩ := makeRoomFor_ok b 0 1 hinv hg hb
  have hne : (b.idx == b.len && b.outLen == 0) = false := by
    have : (b.idx == b.len) = false := by simp; omega
    simp [this]
  have hxx : b.info[b.idx]? = some b.info[b.idx] := List.getElem?_eq_getElem (by omega)
  have hx : I[b.idx]? = some b.info[b.idx] := by rw [hinf1 b.idx (by omega)]; exact hxx
  have hget : get I b.idx = .ok b.info[b.idx] := by unfold get; rw [hx]; rfl
  obtain ⟨I', O', hset, hinv2, hseq2⟩ :=
    emit_spec { b with info := I, out := O, sepOut := s } { b.info[b.idx] with gid := g } 0 hinv1 (by simpa using hcap)
      (by simp; exact hinv.idx_le) (by intro h; simp at h; have := hs1 h; simp; omega)
  simp only [] at hset
  simp only [bind, Except.bind, hok, Bool.not_true, Bool.false_eq_true, if_false, pure, Except.pure, hne, hcur,
    if_true, hget, hset]
  have hb1 : ∀ q, seq { b with info := I, out := O, sepOut := s } q = seq b q :=
    seq_congr b { b with info := I, out := O, sepOut := s } rfl rfl rfl hlen hout1 hinf1
  have hinv2' : Inv { b with info := I', out := O', sepOut := s, outLen := b.outLen + 1 } := by simpa using hinv2
  refine ⟨_, rfl, hinv2', rfl, rfl, rfl, rfl, rfl, b.info[b.idx], hxx, ?_, ?_⟩
  · -- the current glyph is still there: it is element `outLen + 1` of the new logical sequence
    have h1 := hseq2 (b.outLen + 1)
    simp only [Nat.add_zero] at h1
    have h2 : seq { b with info := I', out := O', sepOut := s, outLen := b.outLen + 1 } (b.outLen + 1) = I'[b.idx]? := by
      have := seq_at_outLen { b with info := I', out := O', sepOut := s, outLen := b.outLen + 1 } (by simpa using hcur)
      simpa using this
    have h3 : ¬ (b.outLen + 1 < b.outLen) := by omega
    have h4 : ¬ (b.outLen + 1 = b.outLen) := by omega
    simp only [h3, h4, if_false, Nat.add_sub_cancel] at h1
    show I'[b.idx]? = some b.info[b.idx]
    rw [← h2, h1, hb1, seq_at_outLen b hcur, hxx]
  · intro q
    have := hseq2 q
    simp only [Nat.add_zero] at this
    rw [this]
    by_cases h1 : q < b.outLen
    · simp only [h1, if_true]; exact hb1 q
    · by_cases h2 : q = b.outLen
      · subst h2; simp only [Nat.lt_irrefl, if_false, if_true]
      · simp only [h1, h2, if_false]; exact hb1 _

theorem nextGlyphs_ok (b : Buf) (n : Nat) (hinv : Inv b) (hn : b.idx + n ≤ b.len)
    (hg : Gen.Buf.ensureGrowOnly = true) (hb : b.outLen + n ≤ b.maxLen) :
    ∃ b', b.nextGlyphs n = .ok b' ∧ Inv b' ∧ b'.outLen = b.outLen + n ∧ b'.idx = b.idx + n ∧ b'.len = b.len ∧
        b'.successful = b.successful ∧ ∀ q, seq b' q = seq b q := by
  have hidx := hinv.idx_le
  have hlen := hinv.len_le
  have hho := hinv.have_out
  unfold nextGlyphs
  rw [if_pos hho]
  by_cases hc : (b.sepOut || b.outLen != b.idx) = true
  · simp only [hc, if_true]
    obtain ⟨I, O, s, hok, hinv1, hcap, hs1, hs2, hout1, hinf1, hle1⟩ := makeRoomFor_ok b n n hinv hg hb
    obtain ⟨I', O', hcp, hinv2, _, hseq2⟩ :=
      copyToOut_advance { b with info := I, out := O, sepOut := s } n hinv1 (by simp; omega) (by simpa using hcap)
    simp only [bind, Except.bind, hok, Bool.not_true, Bool.false_eq_true, if_false, hcp, pure, Except.pure]
    refine ⟨_, rfl, hinv2, rfl, rfl, rfl, rfl, ?_⟩
    intro q
    rw [hseq2 q]
    exact seq_congr b { b with info := I, out := O, sepOut := s } rfl rfl rfl hlen hout1 hinf1 q
  · have hc' : b.sepOut = false ∧ b.outLen = b.idx := by
      simp at hc; exact hc
    simp only [hc, Bool.false_eq_true, if_false, pure, Except.pure]
    refine ⟨_, rfl, ?_, rfl, rfl, rfl, rfl, ?_⟩
    · exact ⟨by simp; omega, by simpa using hlen, hinv.out_len, by intro h; simp [hc'.1] at h,
        by intro _; simp; omega, hho⟩
    · intro q
      simp only [seq, outArr, hc'.1, Bool.false_eq_true, if_false]
      by_cases h1 : q < b.outLen
      · have h2 : q < b.outLen + n := by omega
        simp only [h1, h2, if_true]
      · simp only [h1, if_false]
        by_cases h2 : q < b.outLen + n
        · have h3 : q - b.outLen < b.len - b.idx := by omega
          simp only [h2, h3, if_true]
          congr 1; omega
        · simp only [h2, if_false]
          by_cases h5 : q - (b.outLen + n) < b.len - (b.idx + n)
          · have h6 : q - b.outLen < b.len - b.idx := by omega
            simp only [h5, h6, if_true]
            congr 1; omega
          · have h6 : ¬ q - b.outLen < b.len - b.idx := by omega
            simp only [h5, h6, if_false]

/-- `sync` under the budget: the logical sequence becomes the buffer content -/
theorem sync_ok (b : Buf) (hinv : Inv b) (hg : Gen.Buf.ensureGrowOnly = true) (hsu : b.successful = true)
    (hb : total b ≤ b.maxLen) :
    ∃ b', b.sync = .ok (b', true) ∧ b'.len = total b ∧ b'.successful = true ∧ b'.haveOutput = false ∧
        b'.len ≤ b'.info.length ∧ ∀ q, q < b'.len → b'.info[q]? = seq b q := by
  have hidx := hinv.idx_le
  have hho := hinv.have_out
  unfold sync
  have hnho : (!b.haveOutput) = false := by simp [hho]
  have hnidx : ¬ b.idx > b.len := by omega
  have hns : (!b.successful) = false := by simp [hsu]
  simp only [hnho, Bool.false_eq_true, if_false, hnidx, hns]
  obtain ⟨b1, hng, hinv1, ho1, hi1, hl1, hsu1, hseq1⟩ :=
    nextGlyphs_ok b (b.len - b.idx) hinv (by omega) hg (by unfold total at hb; omega)
  simp only [bind, Except.bind, hng, pure, Except.pure]
  have hfull : b1.idx = b1.len := by omega
  refine ⟨_, rfl, ?_, ?_, rfl, ?_, ?_⟩
  · by_cases hs : b1.sepOut = true <;> simp [hs, total] <;> omega
  · by_cases hs : b1.sepOut = true <;> simp [hs, hsu1, hsu]
  · by_cases hs : b1.sepOut = true
    · have := hinv1.sep_ok hs; simp [hs]; omega
    · have hs' : b1.sepOut = false := by simpa using hs
      have := hinv1.nosep_ok hs'; have := hinv1.len_le; simp [hs']; omega
  · intro q hq
    rw [← hseq1 q]
    by_cases hs : b1.sepOut = true
    · simp only [hs, if_true] at hq ⊢
      simp only [seq, outArr, hs, if_true]
      have : q < b1.outLen := by simpa using hq
      simp only [this, if_true]
    · have hs' : b1.sepOut = false := by simpa using hs
      simp only [hs', Bool.false_eq_true, if_false] at hq ⊢
      simp only [seq, outArr, hs', Bool.false_eq_true, if_false]
      have : q < b1.outLen := by simpa using hq
      simp only [this, if_true]

/-! ### the pair (out-part, in-part) -/

theorem zl_set {α} (O R : List α) (x y : α) (q : Nat) :
    (O ++ y :: R)[q]? = if q = O.length then some y else (O ++ x :: R)[q]? := by
  by_cases h1 : q < O.length
  · have : q ≠ O.length := by omega
    simp [List.getElem?_append_left h1, this]
  · by_cases h2 : q = O.length
    · subst h2; simp
    · have h3 : q - O.length = (q - O.length - 1) + 1 := by omega
      rw [List.getElem?_append_right (by omega), List.getElem?_append_right (by omega), h3]
      simp [h2]

theorem zl_insert {α} (O R : List α) (y : α) (q : Nat) :
    (O ++ y :: R)[q]? = if q < O.length then (O ++ R)[q]? else if q = O.length then some y else (O ++ R)[q - 1]? := by
  by_cases h1 : q < O.length
  · simp [List.getElem?_append_left h1, h1]
  · by_cases h2 : q = O.length
    · subst h2; simp
    · have h3 : q - O.length = (q - 1 - O.length) + 1 := by omega
      rw [List.getElem?_append_right (by omega), h3]
      simp only [h1, h2, if_false, List.getElem?_cons_succ]
      rw [List.getElem?_append_right (by omega)]

theorem zl_erase {α} (O R : List α) (x : α) (q : Nat) :
    (O ++ R)[q]? = if q < O.length then (O ++ x :: R)[q]? else (O ++ x :: R)[q + 1]? := by
  by_cases h1 : q < O.length
  · simp [List.getElem?_append_left h1, h1]
  · have h3 : q + 1 - O.length = (q - O.length) + 1 := by omega
    simp only [h1, if_false]
    rw [List.getElem?_append_right (by omega), List.getElem?_append_right (by omega), h3]
    simp

/-- the glyphs already on the output side -/
def outP (b : Buf) : List Info := b.outArr.take b.outLen
/-- the glyphs still to be read -/
def inP (b : Buf) : List Info := (b.info.drop b.idx).take (b.len - b.idx)

theorem outP_length (b : Buf) (hinv : Inv b) : (outP b).length = b.outLen := by
  have hidx := hinv.idx_le
  have hlen := hinv.len_le
  unfold outP
  cases hs : b.sepOut with
  | true => have := hinv.sep_ok hs; simp [outArr, hs]; omega
  | false => have := hinv.nosep_ok hs; simp [outArr, hs]; omega

theorem inP_length (b : Buf) (hinv : Inv b) : (inP b).length = b.len - b.idx := by
  have hidx := hinv.idx_le
  have hlen := hinv.len_le
  unfold inP
  simp; omega

theorem parts_getElem? (b : Buf) (hinv : Inv b) (q : Nat) : (outP b ++ inP b)[q]? = seq b q := by
  have hl1 := outP_length b hinv
  unfold seq
  by_cases h1 : q < b.outLen
  · simp only [h1, if_true]
    rw [List.getElem?_append_left (by omega)]
    unfold outP
    rw [List.getElem?_take]
    simp [h1]
  · simp only [h1, if_false]
    rw [List.getElem?_append_right (by omega), hl1]
    unfold inP
    rw [List.getElem?_take]
    by_cases h2 : q - b.outLen < b.len - b.idx
    · simp only [h2, if_true, List.getElem?_drop]
    · simp only [h2, if_false]

theorem parts_of_seq (b : Buf) (hinv : Inv b) (A B : List Info) (hA : A.length = b.outLen)
    (h : ∀ q, seq b q = (A ++ B)[q]?) : outP b = A ∧ inP b = B := by
  have heq : outP b ++ inP b = A ++ B := by
    apply List.ext_getElem?
    intro q
    rw [parts_getElem? b hinv, h q]
  exact List.append_inj heq (by rw [outP_length b hinv, hA])

theorem inP_head (b : Buf) (hinv : Inv b) (x : Info) (R : List Info) (h : inP b = x :: R) :
    b.idx < b.len ∧ b.info[b.idx]? = some x := by
  have hl := inP_length b hinv
  rw [h] at hl
  simp at hl
  have hcur : b.idx < b.len := by omega
  refine ⟨hcur, ?_⟩
  have h0 := parts_getElem? b hinv b.outLen
  rw [seq_at_outLen b hcur, List.getElem?_append_right (by rw [outP_length b hinv]; exact Nat.le_refl _),
    outP_length b hinv, h] at h0
  simpa using h0.symm

theorem seq_parts (b : Buf) (hinv : Inv b) (q : Nat) : seq b q = (outP b ++ inP b)[q]? :=
  (parts_getElem? b hinv q).symm

theorem nextGlyph_parts (b : Buf) (hinv : Inv b) (hg : Gen.Buf.ensureGrowOnly = true) (x : Info) (R : List Info)
    (hin : inP b = x :: R) (hb : b.outLen + 1 ≤ b.maxLen) :
    ∃ b', b.nextGlyph = .ok b' ∧ Inv b' ∧ outP b' = outP b ++ [x] ∧ inP b' = R ∧
      b'.successful = b.successful ∧ b'.maxLen = b.maxLen := by
  obtain ⟨hcur, hx⟩ := inP_head b hinv x R hin
  obtain ⟨b', h, hinv', ho, hi, hl, hsu, hml, hsq⟩ := nextGlyph_ok b hinv hcur hg hb
  obtain ⟨h1, h2⟩ := parts_of_seq b' hinv' (outP b ++ [x]) R (by simp [outP_length b hinv, ho]) (by
    intro q
    rw [hsq q, seq_parts b hinv, hin]
    simp)
  exact ⟨b', h, hinv', h1, h2, hsu, hml⟩

theorem replaceGlyph_parts (b : Buf) (g : Nat) (hinv : Inv b) (hg : Gen.Buf.ensureGrowOnly = true) (x : Info)
    (R : List Info) (hin : inP b = x :: R) (hb : b.outLen + 1 ≤ b.maxLen) :
    ∃ b', b.replaceGlyph g = .ok b' ∧ Inv b' ∧ outP b' = outP b ++ [{ x with gid := g }] ∧ inP b' = R ∧
      b'.successful = b.successful ∧ b'.maxLen = b.maxLen := by
  obtain ⟨hcur, hx⟩ := inP_head b hinv x R hin
  obtain ⟨b', h, hinv', ho, hi, hl, hsu, hml, x', hx', hsq⟩ := replaceGlyph_ok b g hinv hcur hg hb
  have hxx : x' = x := by rw [hx] at hx'; cases hx'; rfl
  subst hxx
  obtain ⟨h1, h2⟩ := parts_of_seq b' hinv' (outP b ++ [{ x' with gid := g }]) R (by simp [outP_length b hinv, ho]) (by
    intro q
    rw [hsq q, seq_parts b hinv, hin, List.append_assoc, List.singleton_append,
      zl_set (outP b) R x' { x' with gid := g } q, outP_length b hinv])
  exact ⟨b', h, hinv', h1, h2, hsu, hml⟩

theorem outputGlyph_parts (b : Buf) (g : Nat) (hinv : Inv b) (hg : Gen.Buf.ensureGrowOnly = true) (x : Info)
    (R : List Info) (hin : inP b = x :: R) (hb : b.outLen + 1 ≤ b.maxLen) :
    ∃ b', b.outputGlyph g = .ok b' ∧ Inv b' ∧ outP b' = outP b ++ [{ x with gid := g }] ∧ inP b' = x :: R ∧
      b'.successful = b.successful ∧ b'.maxLen = b.maxLen := by
  obtain ⟨hcur, hx⟩ := inP_head b hinv x R hin
  obtain ⟨b', h, hinv', ho, hi, hl, hsu, hml, x', hx', _, hsq⟩ := outputGlyph_ok b g hinv hcur hg hb
  have hxx : x' = x := by rw [hx] at hx'; cases hx'; rfl
  subst hxx
  obtain ⟨h1, h2⟩ := parts_of_seq b' hinv' (outP b ++ [{ x' with gid := g }]) (x' :: R) (by simp [outP_length b hinv, ho]) (by
    intro q
    rw [hsq q, List.append_assoc, List.singleton_append,
      zl_insert (outP b) (x' :: R) { x' with gid := g } q, outP_length b hinv, seq_parts b hinv, seq_parts b hinv, hin])
  exact ⟨b', h, hinv', h1, h2, hsu, hml⟩

theorem skipGlyph_parts (b : Buf) (hinv : Inv b) (x : Info) (R : List Info) (hin : inP b = x :: R) :
    Inv b.skipGlyph ∧ outP b.skipGlyph = outP b ∧ inP b.skipGlyph = R := by
  obtain ⟨hcur, hx⟩ := inP_head b hinv x R hin
  obtain ⟨hinv', hsq⟩ := skipGlyph_spec b hinv hcur hinv.nosep_ok
  obtain ⟨h1, h2⟩ := parts_of_seq b.skipGlyph hinv' (outP b) R (by simp [outP_length b hinv, skipGlyph]) (by
    intro q
    rw [hsq q, zl_erase (outP b) R x q, outP_length b hinv, seq_parts b hinv, seq_parts b hinv, hin])
  exact ⟨hinv', h1, h2⟩

/-- overwriting the current glyph in place (`cur_mut(0)` writes of the apply context) -/
theorem putCur_parts (b : Buf) (hinv : Inv b) (x y : Info) (R : List Info) (hin : inP b = x :: R) :
    Inv { b with info := b.info.set b.idx y } ∧ outP { b with info := b.info.set b.idx y } = outP b ∧
      inP { b with info := b.info.set b.idx y } = y :: R := by
  obtain ⟨hcur, hx⟩ := inP_head b hinv x R hin
  have hidx := hinv.idx_le
  have hlen := hinv.len_le
  have hinv' : Inv { b with info := b.info.set b.idx y } :=
    ⟨hinv.idx_le, by simpa using hinv.len_le, by simpa using hinv.out_len, hinv.sep_ok, hinv.nosep_ok, hinv.have_out⟩
  refine ⟨hinv', ?_⟩
  apply parts_of_seq _ hinv' (outP b) (y :: R) (by simp [outP_length b hinv])
  intro q
  rw [zl_set (outP b) R x y q, outP_length b hinv, ← hin, ← seq_parts b hinv]
  simp only [seq, outArr]
  by_cases h1 : q < b.outLen
  · have h2 : q ≠ b.outLen := by omega
    simp only [h1, h2, if_true, if_false]
    cases hs : b.sepOut with
    | true => simp
    | false =>
      have := hinv.nosep_ok hs
      simp only [Bool.false_eq_true, if_false]
      rw [List.getElem?_set_ne (by omega)]
  · simp only [h1, if_false]
    by_cases h2 : q = b.outLen
    · subst h2
      have : 0 < b.len - b.idx := by omega
      simp only [Nat.sub_self, this, if_true, Nat.add_zero]
      rw [List.getElem?_set_self (by omega)]
    · simp only [h2, if_false]
      by_cases h3 : q - b.outLen < b.len - b.idx
      · simp only [h3, if_true]
        rw [List.getElem?_set_ne (by omega)]
      · simp only [h3, if_false]

end RbModel.Buf
