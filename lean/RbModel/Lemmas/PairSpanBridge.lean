/-
  The kern model with flags (PairFlag.lean: `machineKernF`, on `Buf` with the real skipping iterator and the flag calls) computes
  the POSITIONS of the kern model C07 proves its kerning theorems about (Kern.lean: `machineKern`, on `KInfo` views with the
  specialised iterator, no flags) — as long as the kern feature's mask bit is not one of the glyph-flag bits
  (`kernMask &&& 3 = 0`; `C04_feature_bits_above_flags` shows that for every compiled map).  Helper lemmas for
  `C07_kern_flag_model_positions` (Props/C07.lean).
-/
import RbModel.Lemmas.PairSpanKern

namespace RbModel.PairFlag
open RbModel RbModel.Gsub RbModel.GposFlag RbModel.Flags RbModel.Kern
open RbModel.Gpos (Pos Dir)

/-- what `machine_kern` reads of a glyph (Kern.lean's view) -/
def kinfoOf (x : Info) : KInfo := { gid := x.gid, mask := x.mask, mark := isMark x, di := isDefaultIgnorable x }

theorem checkGlyphProperty_ignoreMarks (f : Font) (x : Info) : checkGlyphProperty f x 8 = !isMark x := by
  have key : glyphProps x &&& 8 &&& 14 = glyphProps x &&& 8 := by rw [Nat.and_assoc]; rfl
  unfold checkGlyphProperty isMark
  simp only [GP.MARK, LF.IGNORE_FLAGS, LF.USE_MARK_FILTERING_SET, LF.MARK_ATTACHMENT_TYPE_MASK]
  have h8 : (8 : Nat) % 65536 = 8 := by decide
  simp only [h8, key]
  by_cases hm : glyphProps x &&& 8 = 0
  · simp [hm]
  · simp [hm]

/-- the iterator of `machine_kern` classifies a glyph as Kern.lean's `matchKind` does -/
theorem kernIt_match (f : Font) (km len idx : Nat) (x : Info) (g : KInfo) (hgm : g.mark = isMark x)
    (hgd : g.di = isDefaultIgnorable x) (hmask : g.mask &&& km = 0 ↔ x.mask &&& km = 0) :
    (kernIt km len idx).match_ f x =
      (if matchKind km g = 1 then MatchR.matched else if matchKind km g = 2 then MatchR.notMatch else MatchR.skip) := by
  unfold It.match_ It.maySkip matchKind
  simp only [kernIt, checkGlyphProperty_ignoreMarks, hgm, hgd]
  by_cases h1 : isMark x = true
  · simp [h1]
  · have h1' : isMark x = false := by simpa using h1
    by_cases h2 : isDefaultIgnorable x = true
    · by_cases h3 : x.mask &&& km = 0
      · simp [h1', h2, h3]
      · simp [h1', h2, h3]
    · have h2' : isDefaultIgnorable x = false := by simpa using h2
      by_cases h3 : x.mask &&& km = 0
      · have := hmask.mpr h3
        simp [h1', h2', h3, this]
      · have : ¬ g.mask &&& km = 0 := fun hc => h3 (hmask.mp hc)
        simp [h1', h2', h3, this]


/-- the array `a` is Kern.lean's view of the glyph list `l`, up to mask bits outside the kern mask -/
def ViewRel (km : Nat) (l : List Info) (a : Array KInfo) : Prop :=
  a.size = l.length ∧ ∀ (k : Nat) (x : Info), l[k]? = some x →
    ∃ g, a[k]? = some g ∧ g.gid = x.gid ∧ g.mark = isMark x ∧ g.di = isDefaultIgnorable x ∧
      (g.mask &&& km = 0 ↔ x.mask &&& km = 0)

theorem ViewRel.init (km : Nat) (l : List Info) : ViewRel km l (l.map kinfoOf).toArray := by
  refine ⟨by simp, ?_⟩
  intro k x hx
  exact ⟨kinfoOf x, by simp [hx], rfl, rfl, rfl, Iff.rfl⟩

theorem flagBits_disjoint {km m : Nat} (hm : km &&& 3 = 0) (h3 : m = 2 ∨ m = 3) : m &&& km = 0 := by
  have h30 : 3 &&& km = 0 := by rw [Nat.and_comm]; exact hm
  rcases h3 with rfl | rfl
  · have e : (2 : Nat) &&& 3 = 2 := rfl
    have : (2 : Nat) &&& km = 2 &&& (3 &&& km) := by rw [← Nat.and_assoc, e]
    rw [this, h30]; rfl
  · exact h30

/-- flag bits ORed into masks do not change the view -/
theorem ViewRel.of_upd {km : Nat} {l l' : List Info} {a : Array KInfo} {p q m : Nat} {test : Info → Bool}
    (hm : km &&& 3 = 0) (h3 : m = 2 ∨ m = 3) (hu : Upd l l' p q test (orMask m)) (hv : ViewRel km l a) : ViewRel km l' a := by
  refine ⟨by rw [hv.1, hu.1], ?_⟩
  intro k y hy
  have hk : k < l.length := by rw [← hu.1]; exact (List.getElem?_eq_some_iff.mp hy).1
  have hx : l[k]? = some l[k] := List.getElem?_eq_getElem hk
  obtain ⟨g, hg, g1, g2, g3, g4⟩ := hv.2 k _ hx
  rw [Upd.at hu hx] at hy
  have hy' := Option.some.inj hy
  by_cases c : p ≤ k ∧ k < q ∧ test l[k] = true
  · rw [if_pos c] at hy'
    subst hy'
    refine ⟨g, hg, g1, g2, g3, ?_⟩
    have hd := flagBits_disjoint hm h3
    have : (orMask m l[k]).mask &&& km = l[k].mask &&& km := by
      simp only [orMask]
      rw [Nat.and_or_distrib_right, hd, Nat.or_zero]
    rw [this]; exact g4
  · rw [if_neg c] at hy'
    subst hy'
    exact ⟨g, hg, g1, g2, g3, g4⟩

/-- the real iterator and Kern.lean's `iterNext` find the same second glyph -/
theorem kernIt_next (f : Font) (km len : Nat) (l : List Info) (a : Array KInfo) (hv : ViewRel km l a) (hlen : len ≤ l.length) :
    ∀ (n idx fuel : Nat), idx + 1 + n = len → n ≤ fuel →
      ∃ r, It.next (kernIt km len idx) f l fuel = .ok r ∧
        ((∃ j, iterNext a km idx n = .ok (some j) ∧ r.1 = true ∧ r.2.1.idx = j ∧ idx < j ∧ j < len) ∨
         (iterNext a km idx n = .ok none ∧ r.1 = false ∧ idx < r.2.2 ∧ r.2.2 ≤ len)) := by
  intro n
  induction n with
  | zero =>
    intro idx fuel h1 _
    cases fuel with
    | zero => exact ⟨_, rfl, Or.inr ⟨rfl, rfl, Nat.lt_succ_self _, by show idx + 1 ≤ len; omega⟩⟩
    | succ k =>
      refine ⟨(false, kernIt km len idx, idx + 1), ?_, Or.inr ⟨rfl, rfl, Nat.lt_succ_self _, by show idx + 1 ≤ len; omega⟩⟩
      have : ¬ (idx + 1 < len) := by omega
      simp [It.next, kernIt, this, pure, Except.pure]
  | succ n ih =>
    intro idx fuel h1 h2
    cases fuel with
    | zero => omega
    | succ k =>
      have hlt : idx + 1 < len := by omega
      have hil : idx + 1 < l.length := by omega
      have hx : l[idx + 1]? = some l[idx + 1] := List.getElem?_eq_getElem hil
      obtain ⟨g, hg, _, g2, g3, g4⟩ := hv.2 _ _ hx
      have hget : Mem.get l (idx + 1) = .ok l[idx + 1] := by simp [Mem.get, hx, pure, Except.pure]
      have hgeti : geti a (idx + 1) = .ok g := by simp [geti, hg]
      have hmk := kernIt_match f km len (idx + 1) l[idx + 1] g g2 g3 g4
      have hstep : It.next (kernIt km len idx) f l (k + 1) =
          (match (kernIt km len (idx + 1)).match_ f l[idx + 1] with
           | .matched => .ok (true, { kernIt km len (idx + 1) with glyphData := (kernIt km len (idx + 1)).glyphData + 1 }, 0)
           | .notMatch => .ok (false, kernIt km len (idx + 1), idx + 1 + 1)
           | .skip => It.next (kernIt km len (idx + 1)) f l k) := by
        rw [It.next]
        have : (kernIt km len idx).idx + 1 < (kernIt km len idx).bufLen := hlt
        rw [if_pos this]
        show (do let x ← Mem.get l (idx + 1); _) = _
        rw [hget]
        rfl
      rw [hstep, hmk]
      by_cases m1 : matchKind km g = 1
      · have hi1 : iterNext a km idx (n + 1) = .ok (some (idx + 1)) := by
          rw [iterNext, hgeti]; simp [m1]
        simp only [m1, if_true]
        exact ⟨_, rfl, Or.inl ⟨idx + 1, hi1, rfl, rfl, by omega, hlt⟩⟩
      · by_cases m2 : matchKind km g = 2
        · have hi2 : iterNext a km idx (n + 1) = .ok none := by
            rw [iterNext, hgeti]; simp [m2]
          simp only [m2, if_true]
          exact ⟨_, rfl, Or.inr ⟨hi2, rfl, by show idx < idx + 1 + 1; omega, by show idx + 1 + 1 ≤ len; omega⟩⟩
        · have hi3 : iterNext a km idx (n + 1) = iterNext a km (idx + 1) n := by
            rw [iterNext, hgeti]
            simp only
            first
              | done
              | (split
                 · rename_i h; exact absurd h m1
                 · rename_i h; exact absurd h m2
                 · rfl)
          simp only [m1, m2, if_false]
          obtain ⟨r, hr, hcase⟩ := ih (idx + 1) k (by omega) (by omega)
          refine ⟨r, hr, ?_⟩
          rw [hi3]
          rcases hcase with ⟨j, c1, c2, c3, c4, c5⟩ | ⟨c1, c2, c3, c4⟩
          · exact Or.inl ⟨j, c1, c2, c3, by omega, c5⟩
          · exact Or.inr ⟨c1, c2, by omega, c4⟩


/-- `unsafe_to_break(s, e)`, any clusters: which masks change (the `Upd` behind `unsafeToBreak_grown`) -/
theorem unsafeToBreak_upd (b : Buf) (s e : Nat) (hs : s < b.len) (hse : s < e) (hlen : b.len ≤ b.info.length)
    (hu32 : ∀ j x, s ≤ j → j < b.len → b.info[j]? = some x → x.cluster ≤ U32MAX) :
    ∃ b' p q r, b.unsafeToBreak s (some e) = .ok b' ∧
      Upd b.info b'.info p q (neCl r) (orMask (Flag.UNSAFE_TO_BREAK ||| Flag.UNSAFE_TO_CONCAT)) ∧
      b' = { b with info := b'.info, scratch := b'.scratch } := by
  unfold Buf.unsafeToBreak
  rw [setGlyphFlags_clamp]
  have he' : min e b.len ≤ b.len := by omega
  by_cases h2 : s + 2 ≤ min e b.len
  · obtain ⟨info, r, p, q, hr, _, _, _, hu, _⟩ :=
      setGlyphFlags_interior_in b (Flag.UNSAFE_TO_BREAK ||| Flag.UNSAFE_TO_CONCAT) s (min e b.len) h2 he' hlen
        (fun j x a c d => hu32 j x a (by omega) d)
    exact ⟨_, p, q, r, hr, hu, rfl⟩
  · refine ⟨b, 0, 0, 0, ?_, Upd.empty _ _ _ _, rfl⟩
    have hmin : min (min e b.len) b.len = min e b.len := by omega
    have h1 : s ≤ min e b.len := by omega
    have h3 : min e b.len - s < 2 := by omega
    simp [Buf.setGlyphFlags, hmin, h1, h3]
    rfl

theorem liftG_map_ok {α} (x : α) : liftG (Except.ok x : Gpos.M α) = .ok x := rfl

/-- **the loop with flags computes the positions of the loop without** (legacy kern and the kerx copy) -/
theorem machineKernLoopF_positions (cm : Bool) (f : Font) (km : Nat) (h cs : Bool) (kernOf : Nat → Nat → Int) (hm : km &&& 3 = 0)
    (a : Array KInfo) :
    ∀ (fuel i : Nat) (b : Buf) (p : Array Pos) (fl : Bool), KInv b → ViewRel km b.info a →
      (machineKernLoopF cm f km h cs kernOf fuel i b p fl).map (fun r => (r.2.1, r.2.2)) =
        liftG (machineKernLoop a b.len km h cs kernOf fuel i p fl) := by
  intro fuel
  induction fuel with
  | zero => intro i b p fl _ _; rfl
  | succ n ih =>
    intro i b p fl k hv
    rw [machineKernLoopF]
    show _ = liftG (kernBody a b.len km h cs kernOf (machineKernLoop a b.len km h cs kernOf n) i p fl)
    unfold kernBody
    by_cases hi : i < b.len
    · have hni : ¬ ¬ i < b.len := by omega
      rw [if_pos hi, if_neg hni]
      have hil : i < b.info.length := by have := k.hlen; omega
      have hx : b.info[i]? = some b.info[i] := List.getElem?_eq_getElem hil
      obtain ⟨gi, hgi, gi1, _, _, gi4⟩ := hv.2 _ _ hx
      have hget : Mem.get b.info i = .ok b.info[i] := by simp [Mem.get, hx, pure, Except.pure]
      have hgeti : geti a i = .ok gi := by simp [geti, hgi]
      unfold kernStepF
      rw [hget, hgeti]
      simp only
      by_cases hm0 : b.info[i].mask &&& km = 0
      · rw [if_pos hm0, if_pos (gi4.mpr hm0)]
        exact ih (i + 1) b p fl k hv
      · have hm0' : ¬ gi.mask &&& km = 0 := fun hc => hm0 (gi4.mp hc)
        rw [if_neg hm0, if_neg hm0', kernIt_new_eq]
        simp only
        obtain ⟨r, hr, hcase⟩ := kernIt_next f km b.len b.info a hv k.hlen (b.len - 1 - i) i b.len (by omega) (by omega)
        rw [hr]
        obtain ⟨fd, it2, u⟩ := r
        rcases hcase with ⟨j, c1, c2, c3, c4, c5⟩ | ⟨c1, c2, c3, c4⟩
        · simp only at c2 c3
          subst c2
          rw [c1]
          simp only
          subst c3
          have hjl : it2.idx < b.info.length := by have := k.hlen; omega
          have hxj : b.info[it2.idx]? = some b.info[it2.idx] := List.getElem?_eq_getElem hjl
          obtain ⟨gj, hgj, gj1, _, _, _⟩ := hv.2 _ _ hxj
          have hgetj : Mem.get b.info it2.idx = .ok b.info[it2.idx] := by simp [Mem.get, hxj, pure, Except.pure]
          have hgetij : geti a it2.idx = .ok gj := by simp [geti, hgj]
          rw [hgetj, hgetij]
          simp only
          rw [gi1, gj1]
          by_cases hk : kernOf b.info[i].gid b.info[it2.idx].gid ≠ 0
          · rw [if_pos hk, if_pos hk]
            cases hkp : kernPair p i it2.idx (kernOf b.info[i].gid b.info[it2.idx].gid) h cs with
            | error e => cases e <;> rfl
            | ok r2 =>
              obtain ⟨p', f1⟩ := r2
              simp only [liftG]
              obtain ⟨b2, pp, qq, rr, hb2, hu, hb2'⟩ := unsafeToBreak_upd b i (it2.idx + 1) hi (by omega) k.hlen
                (fun j x _ a c => k.hu32 j x a c)
              rw [hb2]
              simp only
              have hg : BufGrown b b2 := ⟨hb2', Grown.of_upd hu⟩
              have := ih it2.idx b2 p' (fl || f1) (KInv.of_grown hg k) (ViewRel.of_upd hm (Or.inr rfl) hu hv)
              rw [hg.len] at this
              exact this
          · rw [if_neg hk, if_neg hk]
            exact ih it2.idx b p fl k hv
        · simp only at c2 c3 c4
          subst c2
          rw [c1]
          simp only
          cases cm with
          | false =>
            simp only [Bool.false_eq_true, if_false]
            exact ih (i + 1) b p fl k hv
          | true =>
            simp only [if_true]
            by_cases hreq : b.flags &&& Gen.Buf.produceUnsafeToConcat = 0
            · have h2 : b.unsafeToConcat i (some u) = .ok b := by
                unfold Buf.unsafeToConcat; simp [hreq]; rfl
              rw [h2]
              exact ih (i + 1) b p fl k hv
            · obtain ⟨b3, hb3, hu, hb3'⟩ := unsafeToConcat_span b i u hreq (Nat.le_of_lt c3) c4 k.hlen
              rw [hb3]
              simp only
              have hg : BufGrown b b3 := ⟨hb3', Grown.of_upd hu⟩
              have := ih (i + 1) b3 p fl (KInv.of_grown hg k) (ViewRel.of_upd hm (Or.inl rfl) hu hv)
              rw [hg.len] at this
              exact this
    · have hni : ¬ i < b.len := hi
      rw [if_neg hi, if_pos hni]
      rfl

/-- **`machine_kern` with flags computes the positions of `machine_kern` without** -/
theorem machineKernF_positions (f : Font) (b : Buf) (p : Array Pos) (km : Nat) (d : Dir) (cs : Bool)
    (kernOf : Nat → Nat → Int) (hm : km &&& 3 = 0) (k : KInv b) :
    (machineKernF f b p km d cs kernOf).map (fun r => (r.2.1, r.2.2)) =
      liftG (machineKern (b.info.map kinfoOf).toArray p b.len km d cs kernOf) := by
  unfold machineKernF machineKern
  obtain ⟨b0, hb0, hg, hb0'⟩ := unsafeToConcat_grown b 0 b.len (Nat.zero_le _) (Nat.le_refl _) k.hlen
  rw [unsafeToConcat_none, hb0]
  simp only
  have hg0 : BufGrown b b0 := ⟨hb0', hg⟩
  have hv : ViewRel km b0.info (b.info.map kinfoOf).toArray := by
    by_cases hreq : b.flags &&& Gen.Buf.produceUnsafeToConcat = 0
    · have : b0 = b := by
        have h2 : b.unsafeToConcat 0 (some b.len) = .ok b := by
          unfold Buf.unsafeToConcat; simp [hreq]; rfl
        rw [h2] at hb0; exact (Except.ok.inj hb0).symm
      rw [this]; exact ViewRel.init km b.info
    · obtain ⟨b3, hb3, hu, _⟩ := unsafeToConcat_span b 0 b.len hreq (Nat.zero_le _) (Nat.le_refl _) k.hlen
      rw [hb0] at hb3; cases hb3
      exact ViewRel.of_upd hm (Or.inl rfl) hu (ViewRel.init km b.info)
  have := machineKernLoopF_positions false f km d.isHorizontal cs kernOf hm _ (b0.len + 1) 0 b0 p false (KInv.of_grown hg0 k) hv
  rw [hg0.len] at this ⊢
  exact this

/-- **the kerx copy with flags computes the positions of `machine_kern` without** (whether or not `apply` repeats its
    `unsafe_to_concat(None, None)` before the subtable) -/
theorem kerxSimpleF_positions (lc : Bool) (f : Font) (b : Buf) (p : Array Pos) (km : Nat) (d : Dir) (cs : Bool)
    (kernOf : Nat → Nat → Int) (hm : km &&& 3 = 0) (k : KInv b) :
    (kerxSimpleF lc f b p km d cs kernOf).map (fun r => (r.2.1, r.2.2)) =
      liftG (machineKern (b.info.map kinfoOf).toArray p b.len km d cs kernOf) := by
  unfold kerxSimpleF machineKern
  cases lc with
  | false =>
    simp only [Bool.false_eq_true, if_false]
    exact machineKernLoopF_positions true f km d.isHorizontal cs kernOf hm _ (b.len + 1) 0 b p false k (ViewRel.init km b.info)
  | true =>
    simp only [if_true]
    obtain ⟨b0, hb0, hg, hb0'⟩ := unsafeToConcat_grown b 0 b.len (Nat.zero_le _) (Nat.le_refl _) k.hlen
    rw [unsafeToConcat_none, hb0]
    simp only
    have hg0 : BufGrown b b0 := ⟨hb0', hg⟩
    have hv : ViewRel km b0.info (b.info.map kinfoOf).toArray := by
      by_cases hreq : b.flags &&& Gen.Buf.produceUnsafeToConcat = 0
      · have : b0 = b := by
          have h2 : b.unsafeToConcat 0 (some b.len) = .ok b := by
            unfold Buf.unsafeToConcat; simp [hreq]; rfl
          rw [h2] at hb0; exact (Except.ok.inj hb0).symm
        rw [this]; exact ViewRel.init km b.info
      · obtain ⟨b3, hb3, hu, _⟩ := unsafeToConcat_span b 0 b.len hreq (Nat.zero_le _) (Nat.le_refl _) k.hlen
        rw [hb0] at hb3; cases hb3
        exact ViewRel.of_upd hm (Or.inl rfl) hu (ViewRel.init km b.info)
    have := machineKernLoopF_positions true f km d.isHorizontal cs kernOf hm _ (b0.len + 1) 0 b0 p false (KInv.of_grown hg0 k) hv
    rw [hg0.len] at this ⊢
    exact this

end RbModel.PairFlag
