/-
  Contextual GSUB lookups, step 3c: one Context rule (`apply_context`) and one ChainContext rule (`apply_chain_context`) at the
  current glyph of a forward-scan state against the specification's rule in closed form (`ctxRuleG`).
-/
import RbModel.Lemmas.GsubCtxStep

namespace RbModel.Gsub
open RbModel RbModel.Buf RbModel.Mem RbModel.Spec.Subst

theorem flag_defined_FM : Flag.DEFINED &&& FM = 0 := by decide

theorem unsafeToConcat_off (b : Buf) (s : Nat) (e : Option Nat) (h : b.flags &&& Gen.Buf.produceUnsafeToConcat = 0) :
    b.unsafeToConcat s e = .ok b := by
  unfold Buf.unsafeToConcat; simp [h]; rfl

theorem unsafeToConcatFromOut_off (b : Buf) (s : Nat) (e : Option Nat) (h : b.flags &&& Gen.Buf.produceUnsafeToConcat = 0) :
    b.unsafeToConcatFromOut s e = .ok b := by
  unfold Buf.unsafeToConcatFromOut; simp [h]; rfl

/-- **one ChainContext rule** -/
theorem chainRule_sim (hg : Gen.Buf.ensureGrowOnly = true) (hr : Gen.Buf.moveToRewindReversed = true)
    (l : Lookup) (hp : NoSkipFlags l.props) (lm Gr Rn : Nat) (hlm : lm < 2 ^ 32) (hlmf : lm &&& (U32MAX - Flag.DEFINED) = lm)
    (m : Nat) (c : Ctx) (h : CtxInv l lm (Rn * Gr) Rn c) (gs : List G) (x : Info) (R : List Info) (hin : inP c.buf = x :: R)
    (hrel : RelF (outP c.buf ++ inP c.buf) gs) (nB nI nA : Nat) (fB fI fA : Nat → Nat → Bool) (recs : List Rec)
    (hok : RuleOk c.font Gr Rn nI recs) :
    match ctxRuleG c.font lm gs c.buf.outLen (fnPreds fI 0 nI) (fnPreds fB 0 nB) (fnPreds fA 0 nA) recs with
    | none => applyChainRule (recurseAt (m + 1)) c nB nI nA fB fI fA recs = .ok (c, false)
    | some (gs', nxt) => ∃ b', applyChainRule (recurseAt (m + 1)) c nB nI nA fB fI fA recs = .ok ({ c with buf := b' }, true) ∧
        StepGoodC l lm (Rn * Gr) Rn c b' gs' nxt := by
  have hpc : NoSkipFlags c.lookupProps := by rw [h.props]; exact hp
  have hol := outP_length c.buf h.inv
  have hplain : ∀ y ∈ x :: R, Plain y := fun y hy => h.plain y (by rw [hin]; exact hy)
  have hglR : ∀ y ∈ R, CtxG y := fun y hy => h.glyph y (List.mem_append_right _ (by rw [hin]; exact List.mem_cons_of_mem _ hy))
  have hglO : ∀ y ∈ outP c.buf, CtxG y := fun y hy => h.glyph y (List.mem_append_left _ hy)
  obtain ⟨r, hmi, hmatch⟩ := matchInput_relF c nI fI gs x R h.inv hin hrel hplain (fun y hy => (hglR y hy).2.1) hpc h.nosyl
    (by have := hok.1; omega) (by rw [h.mask]; exact hlmf)
  rw [matchSeq_after c.font c.lookupProps hpc gs _ _ _, h.mask] at hmatch
  unfold ctxRuleG
  simp only [fnPreds_length]
  by_cases h1 : predMatchG (some lm) (fnPreds fI 0 nI) (gs.drop (c.buf.outLen + 1)) = true
  · simp only [h1, if_true] at hmatch ⊢
    obtain ⟨hrok, _, hnR, hend, hPl, hPj⟩ := hmatch
    obtain ⟨r2, hla, hla1, hla2, hla3⟩ := matchLookahead_relF' c nA nI fA gs x R h.inv hin hrel hglR hpc h.nosyl hnR
    rw [matchSeq_after c.font c.lookupProps hpc gs _ _ _] at hla1
    rw [← hend] at hla
    by_cases h2 : predMatchG none (fnPreds fA 0 nA) (gs.drop (c.buf.outLen + nI + 1)) = true
    · simp only [h2, if_true, Option.isSome_some] at hla1 ⊢
      obtain ⟨hr22, hnA⟩ := hla2 hla1
      obtain ⟨r3, hbt, hbt1, hbt2⟩ := matchBacktrack_relF c nB fB gs h.inv hrel hglO hpc h.nosyl
      have hile : c.buf.outLen ≤ gs.length := by rw [← hrel.length]; simp [hol]
      rw [matchSeq_before c.font c.lookupProps hpc gs _ _ hile] at hbt1
      by_cases h3 : predMatchG none (fnPreds fB 0 nB) (gs.take c.buf.outLen).reverse = true
      · simp only [h3, if_true] at hbt1 ⊢
        have hinl := inP_length c.buf h.inv
        rw [hin] at hinl
        simp only [List.length_cons] at hinl
        have hcap : c.buf.outLen ≤ c.buf.outArr.length := by
          have : (outP c.buf).length ≤ c.buf.outArr.length := by unfold outP; simp; omega
          omega
        obtain ⟨bf, hbf⟩ := setGlyphFlags_out_total c.buf (Flag.UNSAFE_TO_BREAK ||| Flag.UNSAFE_TO_CONCAT) r3.2 r2.2
          h.inv.have_out hbt2 hcap (by omega) (by omega) h.inv.len_le h.inv.out_len
        have hfo : FlagsOnlyOn FM c.buf bf := unsafeToBreakFromOut_on flag_defined_FM hbf
        obtain ⟨b', happ, hgood⟩ := ctxApply_core hg hr l lm Gr Rn hlm hlmf c h gs x R hin hrel nI hnR r.positions hPl hPj recs hok
          bf hfo m
        refine ⟨b', ?_, hgood⟩
        have hbf' : c.buf.unsafeToBreakFromOut r3.2 (some r2.2) = .ok bf := hbf
        rw [← hend] at happ
        obtain ⟨ra, rb⟩ := r2
        obtain ⟨rc, rd⟩ := r3
        simp only [] at hla1 hbt1 hbf' hla
        subst hla1 hbt1
        simp only [applyChainRule, bind, Except.bind, hmi, hrok, if_true, hla, Bool.and_self, Bool.not_true, Bool.false_eq_true,
          if_false, hbt, hbf', happ, pure, Except.pure]
      · have hb' : predMatchG none (fnPreds fB 0 nB) (gs.take c.buf.outLen).reverse = false := by simpa using h3
        simp only [hb', Bool.false_eq_true, if_false] at hbt1 ⊢
        obtain ⟨ra, rb⟩ := r2
        obtain ⟨rc, rd⟩ := r3
        simp only [] at hla1 hbt1 hla
        subst hla1 hbt1
        simp only [applyChainRule, bind, Except.bind, hmi, hrok, if_true, hla, Bool.and_self, Bool.not_true, Bool.false_eq_true,
          if_false, hbt, Bool.not_false, unsafeToConcatFromOut_off _ _ _ h.noconcat, pure, Except.pure]
    · have h2' : predMatchG none (fnPreds fA 0 nA) (gs.drop (c.buf.outLen + nI + 1)) = false := by simpa using h2
      simp only [h2', Bool.false_eq_true, if_false, Option.isSome_none] at hla1 ⊢
      obtain ⟨ra, rb⟩ := r2
      simp only [] at hla1 hla
      subst hla1
      simp only [applyChainRule, bind, Except.bind, hmi, hrok, if_true, hla, Bool.and_false, Bool.not_false,
        unsafeToConcat_off _ _ _ h.noconcat, pure, Except.pure]
  · have h1' : predMatchG (some lm) (fnPreds fI 0 nI) (gs.drop (c.buf.outLen + 1)) = false := by simpa using h1
    simp only [h1', Bool.false_eq_true, if_false] at hmatch ⊢
    simp only [applyChainRule, bind, Except.bind, hmi, hmatch, Bool.false_eq_true, if_false, Bool.false_and, Bool.not_false, if_true,
      unsafeToConcat_off _ _ _ h.noconcat, pure, Except.pure]

/-- the body shared by `apply_context` (formats 1, 2) and the inline format-3 code: match the input, flag, apply the records -/
def ctxRuleM (recurse : Ctx → Nat → M (Ctx × Bool)) (c : Ctx) (n : Nat) (fn : Nat → Nat → Bool) (lookups : List Rec) :
    M (Ctx × Bool) := do
  let r ← matchInput c n fn [0, 0, 0, 0]
  if r.ok then
    let b ← c.buf.unsafeToBreak c.buf.idx (some r.endPos)
    let c ← applyLookup recurse { c with buf := b } n r.positions r.endPos lookups
    pure (c, true)
  else
    let b ← c.buf.unsafeToConcat c.buf.idx (some r.endPos)
    pure ({ c with buf := b }, false)

theorem applyContextRule_eq_M (recurse : Ctx → Nat → M (Ctx × Bool)) (c : Ctx) (input : List Nat)
    (matchFn : Nat → Nat → Bool) (lookups : List Rec) :
    applyContextRule recurse c input matchFn lookups
      = ctxRuleM recurse c input.length (fun g i => matchFn g (input.getD i 0)) lookups := rfl

theorem predMatchG_nil (om : Option Nat) (R : List G) : predMatchG om [] R = true := rfl

/-- **one Context rule** -/
theorem ctxRuleM_sim (hg : Gen.Buf.ensureGrowOnly = true) (hr : Gen.Buf.moveToRewindReversed = true)
    (l : Lookup) (hp : NoSkipFlags l.props) (lm Gr Rn : Nat) (hlm : lm < 2 ^ 32) (hlmf : lm &&& (U32MAX - Flag.DEFINED) = lm)
    (m : Nat) (c : Ctx) (h : CtxInv l lm (Rn * Gr) Rn c) (gs : List G) (x : Info) (R : List Info) (hin : inP c.buf = x :: R)
    (hrel : RelF (outP c.buf ++ inP c.buf) gs) (nI : Nat) (fI : Nat → Nat → Bool) (recs : List Rec)
    (hok : RuleOk c.font Gr Rn nI recs) :
    match ctxRuleG c.font lm gs c.buf.outLen (fnPreds fI 0 nI) [] [] recs with
    | none => ctxRuleM (recurseAt (m + 1)) c nI fI recs = .ok (c, false)
    | some (gs', nxt) => ∃ b', ctxRuleM (recurseAt (m + 1)) c nI fI recs = .ok ({ c with buf := b' }, true) ∧
        StepGoodC l lm (Rn * Gr) Rn c b' gs' nxt := by
  have hpc : NoSkipFlags c.lookupProps := by rw [h.props]; exact hp
  have hplain : ∀ y ∈ x :: R, Plain y := fun y hy => h.plain y (by rw [hin]; exact hy)
  have hglR : ∀ y ∈ R, CtxG y := fun y hy => h.glyph y (List.mem_append_right _ (by rw [hin]; exact List.mem_cons_of_mem _ hy))
  obtain ⟨r, hmi, hmatch⟩ := matchInput_relF c nI fI gs x R h.inv hin hrel hplain (fun y hy => (hglR y hy).2.1) hpc h.nosyl
    (by have := hok.1; omega) (by rw [h.mask]; exact hlmf)
  rw [matchSeq_after c.font c.lookupProps hpc gs _ _ _, h.mask] at hmatch
  unfold ctxRuleG
  simp only [fnPreds_length, predMatchG_nil, if_true]
  by_cases h1 : predMatchG (some lm) (fnPreds fI 0 nI) (gs.drop (c.buf.outLen + 1)) = true
  · simp only [h1, if_true] at hmatch ⊢
    obtain ⟨hrok, _, hnR, hend, hPl, hPj⟩ := hmatch
    have hinl := inP_length c.buf h.inv
    rw [hin] at hinl
    simp only [List.length_cons] at hinl
    obtain ⟨bf, hbf⟩ := setGlyphFlags_in_total c.buf (Flag.UNSAFE_TO_BREAK ||| Flag.UNSAFE_TO_CONCAT) c.buf.idx (c.buf.idx + nI + 1)
      (by omega) (by omega) h.inv.len_le
    have hfo : FlagsOnlyOn FM c.buf bf := setGlyphFlags_flagsOnlyOn FM _ _ _ _ _ _ _ flag_break_FM hbf
    obtain ⟨b', happ, hgood⟩ := ctxApply_core hg hr l lm Gr Rn hlm hlmf c h gs x R hin hrel nI hnR r.positions hPl hPj recs hok
      bf hfo m
    refine ⟨b', ?_, hgood⟩
    have hbf' : c.buf.unsafeToBreak c.buf.idx (some r.endPos) = .ok bf := by rw [hend]; exact hbf
    rw [← hend] at happ
    simp only [ctxRuleM, bind, Except.bind, hmi, hrok, if_true, hbf', happ, pure, Except.pure]
  · have h1' : predMatchG (some lm) (fnPreds fI 0 nI) (gs.drop (c.buf.outLen + 1)) = false := by simpa using h1
    simp only [h1', Bool.false_eq_true, if_false] at hmatch ⊢
    simp only [ctxRuleM, bind, Except.bind, hmi, hmatch, Bool.false_eq_true, if_false, unsafeToConcat_off _ _ _ h.noconcat, pure,
      Except.pure]

end RbModel.Gsub
