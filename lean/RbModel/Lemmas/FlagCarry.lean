/-
  Helper lemmas for C03: which glyph flags a glyph carries after a cluster primitive of buffer.rs renamed it
  (`set_cluster`, `delete_glyph`, `merge_clusters`, `merge_out_clusters`).  Core Lean only; builds on the pointwise
  characterisations of the cluster loops in Lemmas/Cluster.lean.
-/
import RbModel.Lemmas.Cluster
import RbModel.Lemmas.Flags

namespace RbModel.Buf
open RbModel.Mem

/-! ### bits of `set_cluster` -/

/-- the non-flag part of a mask has no flag bit -/
theorem clear_and_defined (m : Nat) : (m &&& (U32MAX - Flag.DEFINED)) &&& Flag.DEFINED = 0 := by
  rw [Nat.and_assoc]
  have : (U32MAX - Flag.DEFINED) &&& Flag.DEFINED = 0 := by decide
  rw [this]; exact Nat.and_zero _

theorem defined_and_defined (m : Nat) : (m &&& Flag.DEFINED) &&& Flag.DEFINED = m &&& Flag.DEFINED := by
  rw [Nat.and_assoc]
  have : Flag.DEFINED &&& Flag.DEFINED = Flag.DEFINED := by decide
  rw [this]

/-- the flag bits of the mask `set_cluster` writes into a renamed glyph are those of the `mask` argument -/
theorem renamed_flags (m mask : Nat) :
    ((m &&& (U32MAX - Flag.DEFINED)) ||| (mask &&& Flag.DEFINED)) &&& Flag.DEFINED = mask &&& Flag.DEFINED := by
  rw [Nat.and_or_distrib_right, clear_and_defined, defined_and_defined, Nat.zero_or]

/-- … and its other bits are those of the glyph's own mask -/
theorem renamed_rest (m mask : Nat) :
    ((m &&& (U32MAX - Flag.DEFINED)) ||| (mask &&& Flag.DEFINED)) &&& (U32MAX - Flag.DEFINED) = m &&& (U32MAX - Flag.DEFINED) := by
  rw [Nat.and_or_distrib_right]
  have h1 : (m &&& (U32MAX - Flag.DEFINED)) &&& (U32MAX - Flag.DEFINED) = m &&& (U32MAX - Flag.DEFINED) := by
    rw [Nat.and_assoc, Nat.and_self]
  have h2 : (mask &&& Flag.DEFINED) &&& (U32MAX - Flag.DEFINED) = 0 := by
    rw [Nat.and_assoc]
    have : Flag.DEFINED &&& (U32MAX - Flag.DEFINED) = 0 := by decide
    rw [this]; exact Nat.and_zero _
  rw [h1, h2, Nat.or_zero]

/-- `set_cluster` on a glyph whose cluster value changes -/
theorem setCluster_ne (x : Info) (c mask : Nat) (h : x.cluster ≠ c) :
    setCluster x c mask =
      { x with cluster := c, mask := (x.mask &&& (U32MAX - Flag.DEFINED)) ||| (mask &&& Flag.DEFINED) } := by
  have hb : (x.cluster != c) = true := by simpa using h
  simp [setCluster, hb]

/-! ### delete_glyph, "Merge cluster backward" -/

/-- the branch of `delete_glyph` that renames the trailing run of the out-buffer, with the mask it passes on:
    the deleted glyph's own -/
theorem deleteGlyph_backward (b : Buf) (hwf : WF b) (hcur : b.idx < b.len) (ho : b.outLen ≠ 0)
    (hi : b.idx < b.info.length) (hp : b.outLen - 1 < b.outArr.length)
    (hnext : ∀ h : b.idx + 1 < b.info.length, b.idx + 1 < b.len → b.info[b.idx].cluster ≠ b.info[b.idx + 1].cluster)
    (hlt : b.info[b.idx].cluster < b.outArr[b.outLen - 1].cluster) :
    b.deleteGlyph =
      (relabelOutBack b.outArr b.outArr[b.outLen - 1].cluster b.info[b.idx].cluster b.info[b.idx].mask b.outLen
        >>= fun o => pure (b.setOutArr o).skipGlyph) := by
  have hlen := hwf.len_le
  have hob : (b.outLen != 0) = true := by simp [ho]
  have hps : b.info[b.idx].cluster ≠ b.outArr[b.outLen - 1].cluster := by omega
  have hpsb : (b.info[b.idx].cluster == b.outArr[b.outLen - 1].cluster) = false := by simpa using hps
  by_cases hn : b.idx + 1 < b.len
  · have hi1 : b.idx + 1 < b.info.length := by omega
    have hns := hnext hi1 hn
    have hnsb : (b.info[b.idx].cluster == b.info[b.idx + 1].cluster) = false := by simpa using hns
    unfold deleteGlyph
    simp only [get_ok hi, ok_bind, hn, if_true, get_ok hi1, pure_bind', hnsb, Bool.not_false, Bool.true_and, hob,
      get_ok hp, hpsb, Bool.false_or, Bool.or_false, Bool.false_eq_true, if_false, hlt]
  · unfold deleteGlyph
    simp only [get_ok hi, ok_bind, hn, if_false, pure_bind', Bool.not_false, Bool.true_and, hob, if_true, get_ok hp,
      hpsb, Bool.false_or, Bool.or_false, Bool.false_eq_true, hlt]

/-! ### merges: a renamed glyph carries no flag -/

/-- pointwise reading of `IsMerge`: every glyph of the logical sequence is untouched or renamed to the minimum with
    its flag bits cleared (`set_cluster(.., cluster, 0)`) -/
theorem IsMerge.pointwise {L L' : List Info} {S E m : Nat} (h : IsMerge L L' S E m) (q : Nat) (x : Info)
    (hx : L[q]? = some x) :
    L'[q]? = some x ∨
      (x.cluster ≠ m ∧ L'[q]? = some { x with cluster := m, mask := x.mask &&& (U32MAX - Flag.DEFINED) }) := by
  by_cases hz : Zone L S E q
  · have := h.inz q hz
    rw [hx] at this
    by_cases hc : x.cluster = m
    · left; rw [this]; simp [setCluster_same x m 0 hc]
    · right
      refine ⟨hc, ?_⟩
      rw [this]
      simp only [Option.map_some, setCluster_ne x m 0 hc]
      have : (0 : Nat) &&& Flag.DEFINED = 0 := Nat.zero_and _
      rw [this, Nat.or_zero]
  · left; rw [h.outz q hz]; exact hx

end RbModel.Buf
