/-
  Helper lemmas for C03: which glyph flags a glyph carries after a cluster primitive of buffer.rs renamed it
  (`set_cluster`, `delete_glyph`, `merge_clusters`, `merge_out_clusters`).  Core Lean only; builds on the pointwise
  characterisations of the cluster loops in Lemmas/Cluster.lean.
-/
import RbModel.Lemmas.Cluster
import RbModel.Lemmas.ClusterRelabel
import RbModel.Lemmas.Flags

namespace RbModel.Buf
open RbModel.Mem

/-! ### bits of `set_cluster` -/

/-- the non-flag part of a mask has no flag bit -/
theorem clear_and_defined (m : Nat) : (m &&& (U32MAX - Flag.DEFINED)) &&& Flag.DEFINED = 0 := by
  rw [Nat.and_assoc]
  have : (U32MAX - Flag.DEFINED) &&& Flag.DEFINED = 0 := by decide
  rw [this]; exact Nat.and_zero _

theorem defined_and_defined (m : Nat) : (m &&& Flag.DEFINED) &&& Flag.DEFINED = m &&& Flag.DEFINED := by
  rw [Nat.and_assoc]
  have : Flag.DEFINED &&& Flag.DEFINED = Flag.DEFINED := by decide
  rw [this]

/-- the flag bits of the mask `set_cluster` writes into a renamed glyph are those of the `mask` argument -/
theorem renamed_flags (m mask : Nat) :
    ((m &&& (U32MAX - Flag.DEFINED)) ||| (mask &&& Flag.DEFINED)) &&& Flag.DEFINED = mask &&& Flag.DEFINED := by
  rw [Nat.and_or_distrib_right, clear_and_defined, defined_and_defined, Nat.zero_or]

/-- … and its other bits are those of the glyph's own mask -/
theorem renamed_rest (m mask : Nat) :
    ((m &&& (U32MAX - Flag.DEFINED)) ||| (mask &&& Flag.DEFINED)) &&& (U32MAX - Flag.DEFINED) = m &&& (U32MAX - Flag.DEFINED) := by
  rw [Nat.and_or_distrib_right]
  have h1 : (m &&& (U32MAX - Flag.DEFINED)) &&& (U32MAX - Flag.DEFINED) = m &&& (U32MAX - Flag.DEFINED) := by
    rw [Nat.and_assoc, Nat.and_self]
  have h2 : (mask &&& Flag.DEFINED) &&& (U32MAX - Flag.DEFINED) = 0 := by
    rw [Nat.and_assoc]
    have : Flag.DEFINED &&& (U32MAX - Flag.DEFINED) = 0 := by decide
    rw [this]; exact Nat.and_zero _
  rw [h1, h2, Nat.or_zero]

/-- `set_cluster` on a glyph whose cluster value changes -/
theorem setCluster_ne (x : Info) (c mask : Nat) (h : x.cluster ≠ c) :
    setCluster x c mask =
      { x with cluster := c, mask := (x.mask &&& (U32MAX - Flag.DEFINED)) ||| (mask &&& Flag.DEFINED) } := by
  have hb : (x.cluster != c) = true := by simpa using h
  simp [setCluster, hb]

/-! ### delete_glyph, "Merge cluster backward" -/

/-- the branch of `delete_glyph` that renames the trailing run of the out-buffer, with the mask it passes on:
    the deleted glyph's own -/
theorem deleteGlyph_backward (b : Buf) (hwf : WF b) (hcur : b.idx < b.len) (ho : b.outLen ≠ 0)
    (hi : b.idx < b.info.length) (hp : b.outLen - 1 < b.outArr.length)
    (hnext : ∀ h : b.idx + 1 < b.info.length, b.idx + 1 < b.len → b.info[b.idx].cluster ≠ b.info[b.idx + 1].cluster)
    (hlt : b.info[b.idx].cluster < b.outArr[b.outLen - 1].cluster) :
    b.deleteGlyph =
      (relabelOutBack b.outArr b.outArr[b.outLen - 1].cluster b.info[b.idx].cluster b.info[b.idx].mask b.outLen
        >>= fun o => pure (b.setOutArr o).skipGlyph) := by
  have hlen := hwf.len_le
  have hob : (b.outLen != 0) = true := by simp [ho]
  have hps : b.info[b.idx].cluster ≠ b.outArr[b.outLen - 1].cluster := by omega
  have hpsb : (b.info[b.idx].cluster == b.outArr[b.outLen - 1].cluster) = false := by simpa using hps
  by_cases hn : b.idx + 1 < b.len
  · have hi1 : b.idx + 1 < b.info.length := by omega
    have hns := hnext hi1 hn
    have hnsb : (b.info[b.idx].cluster == b.info[b.idx + 1].cluster) = false := by simpa using hns
    unfold deleteGlyph
    simp only [get_ok hi, ok_bind, hn, if_true, get_ok hi1, pure_bind', hnsb, Bool.not_false, Bool.true_and, hob,
      get_ok hp, hpsb, Bool.false_or, Bool.or_false, Bool.false_eq_true, if_false, hlt]
  · unfold deleteGlyph
    simp only [get_ok hi, ok_bind, hn, if_false, pure_bind', Bool.not_false, Bool.true_and, hob, if_true, get_ok hp,
      hpsb, Bool.false_or, Bool.or_false, Bool.false_eq_true, hlt]

/-! ### delete_glyphs_inplace, "Merge cluster backward" -/

/-- one iteration of the loop of `delete_glyphs_inplace` on a glyph to delete that is alone in its cluster while the last
    kept glyph (`info[j-1]`, `j` = write head) has a larger cluster value: the trailing run of kept glyphs is relabelled
    with the DELETED glyph's mask, the write head stays -/
theorem delin_step_backward (b : Buf) (i j fuel : Nat) (hi : i < b.len) (hlen : b.len ≤ b.info.length) (hji : j ≤ i)
    (hj : j ≠ 0) (hdel : b.info[i].var2 = 1)
    (hnext : ∀ h : i + 1 < b.info.length, i + 1 < b.len → b.info[i].cluster ≠ b.info[i + 1].cluster)
    (hlt : b.info[i].cluster < (b.info[j - 1]'(by omega)).cluster) :
    deleteGlyphsInplace.loop b i j (fuel + 1) =
      (relabelOutBack b.info (b.info[j - 1]'(by omega)).cluster b.info[i].cluster b.info[i].mask j >>= fun info =>
        deleteGlyphsInplace.loop (withInfo b info) (i + 1) j fuel) := by
  have hil : i < b.info.length := by omega
  have hjl : j - 1 < b.info.length := by omega
  have hjb : (j != 0) = true := by simp [hj]
  have hdb : (b.info[i].var2 == 1) = true := by simp [hdel]
  rw [delin_loop_nf]
  by_cases hn : i + 1 < b.len
  · have hi1 : i + 1 < b.info.length := by omega
    have hns := hnext hi1 hn
    have hnsb : (b.info[i].cluster == b.info[i + 1].cluster) = false := by simpa using hns
    simp only [hi, if_true, get_ok hil, ok_bind, hdb, hn, get_ok hi1, pure_bind', hnsb, Bool.false_eq_true, if_false, hjb,
      get_ok hjl, hlt, bind_assoc]
  · simp only [hi, if_true, get_ok hil, ok_bind, hdb, hn, if_false, pure_bind', Bool.false_eq_true, hjb, get_ok hjl, hlt,
      bind_assoc]

/-- the iteration above, spelled out with `relabelOutBack_spec` (statement explained at `C03_delin_backward_carries_flags`) -/
theorem delin_backward_carries (b : Buf) (i j fuel : Nat) (x p : Info) (hi : i < b.len)
    (hlen : b.len ≤ b.info.length) (hji : j ≤ i) (hj : j ≠ 0)
    (hx : b.info[i]? = some x) (hdel : x.var2 = 1) (hp : b.info[j - 1]? = some p)
    (hnext : ∀ nx, i + 1 < b.len → b.info[i + 1]? = some nx → nx.cluster ≠ x.cluster)
    (hlt : x.cluster < p.cluster) :
    ∃ info k, deleteGlyphsInplace.loop b i j (fuel + 1) = deleteGlyphsInplace.loop { b with info := info } (i + 1) j fuel ∧
      k < j ∧ info.length = b.info.length ∧
      (∀ q, k ≤ q → q < j → ∃ y, b.info[q]? = some y ∧ y.cluster = p.cluster ∧
          info[q]? = some { y with cluster := x.cluster,
                                   mask := (y.mask &&& (U32MAX - Flag.DEFINED)) ||| (x.mask &&& Flag.DEFINED) }) ∧
      (∀ q, ¬ (k ≤ q ∧ q < j) → info[q]? = b.info[q]?) ∧
      (k = 0 ∨ cl? b.info (k - 1) ≠ some p.cluster) ∧
      (∀ q y', k ≤ q → q < j → info[q]? = some y' → y'.cluster = x.cluster ∧ Flags.exposed y' = Flags.exposed x) := by
  have hil : i < b.info.length := by omega
  have hjl : j - 1 < b.info.length := by omega
  have hx' : b.info[i] = x := by
    have := List.getElem?_eq_getElem hil; rw [this] at hx; exact Option.some.inj hx
  have hp' : b.info[j - 1] = p := by
    have := List.getElem?_eq_getElem hjl; rw [this] at hp; exact Option.some.inj hp
  have hnx : ∀ h : i + 1 < b.info.length, i + 1 < b.len → b.info[i].cluster ≠ b.info[i + 1].cluster := by
    intro h hn heq
    exact hnext b.info[i + 1] hn (List.getElem?_eq_getElem h) (by rw [← heq, hx'])
  have heq := delin_step_backward b i j fuel hi hlen hji hj (by rw [hx']; exact hdel) hnx (by rw [hx', hp']; exact hlt)
  rw [hx', hp'] at heq
  obtain ⟨o, k, hr, hk, holen, hoq, hrun, hstop⟩ :=
    relabelOutBack_spec p.cluster x.cluster x.mask j b.info (by omega)
  have hk1 : k < j := by
    rcases hstop with h | h
    · omega
    · by_cases h2 : k < j
      · exact h2
      · exfalso
        have : k = j := by omega
        rw [this] at h
        exact h (cl?_of_get hp)
  have hin : ∀ q, k ≤ q → q < j → ∃ y, b.info[q]? = some y ∧ y.cluster = p.cluster ∧
      o[q]? = some { y with cluster := x.cluster,
                            mask := (y.mask &&& (U32MAX - Flag.DEFINED)) ||| (x.mask &&& Flag.DEFINED) } := by
    intro q h1 h2
    have hql : q < b.info.length := by omega
    have hxq : b.info[q]? = some b.info[q] := List.getElem?_eq_getElem hql
    have hcl : b.info[q].cluster = p.cluster := by
      have := hrun q h1 h2
      rw [cl?_lt hql] at this
      exact Option.some.inj this
    refine ⟨b.info[q], hxq, hcl, ?_⟩
    rw [hoq q, if_pos ⟨h1, h2⟩, hxq]
    simp only [Option.map_some]
    rw [setCluster_ne _ _ _ (by rw [hcl]; omega)]
  refine ⟨o, k, by rw [heq, hr]; rfl, hk1, holen, hin, ?_, hstop, ?_⟩
  · intro q hq
    rw [hoq q, if_neg hq]
  · intro q y' h1 h2 hy'
    obtain ⟨y, _, _, hoy⟩ := hin q h1 h2
    rw [hoy] at hy'
    have := Option.some.inj hy'
    subst this
    exact ⟨rfl, renamed_flags _ _⟩


/-! ### merges: a renamed glyph carries no flag -/

/-- pointwise reading of `IsMerge`: every glyph of the logical sequence is untouched or renamed to the minimum with
    its flag bits cleared (`set_cluster(.., cluster, 0)`) -/
theorem IsMerge.pointwise {L L' : List Info} {S E m : Nat} (h : IsMerge L L' S E m) (q : Nat) (x : Info)
    (hx : L[q]? = some x) :
    L'[q]? = some x ∨
      (x.cluster ≠ m ∧ L'[q]? = some { x with cluster := m, mask := x.mask &&& (U32MAX - Flag.DEFINED) }) := by
  by_cases hz : Zone L S E q
  · have := h.inz q hz
    rw [hx] at this
    by_cases hc : x.cluster = m
    · left; rw [this]; simp [setCluster_same x m 0 hc]
    · right
      refine ⟨hc, ?_⟩
      rw [this]
      simp only [Option.map_some, setCluster_ne x m 0 hc]
      have : (0 : Nat) &&& Flag.DEFINED = 0 := Nat.zero_and _
      rw [this, Nat.or_zero]
  · left; rw [h.outz q hz]; exact hx

end RbModel.Buf
