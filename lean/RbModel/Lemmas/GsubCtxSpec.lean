/-
  Contextual GSUB lookups, the specification side of matching: under a lookup whose flags exclude nothing the visible
  positions behind `i` are `i+1, i+2, …`, those before `i` are `i-1, i-2, …, 0`, and `Spec.Subst.matchSeq` is a prefix
  test (`predMatchG`) of `gs.drop (i+1)` resp. of the reversed `gs.take i`.  Then the bridge to the interpreter's
  `fnMatch` (GsubCtxMatch.lean) across the relation `RelF` (glyph id, cluster, FEATURE bits of the mask).
-/
import RbModel.Lemmas.GsubCtxMatch
import RbModel.Lemmas.GsubLigFlags

namespace RbModel.Spec.Subst
open RbModel RbModel.Gsub

/-- the feature test of `matchSeq` on one glyph -/
def onG (om : Option Nat) (g : G) : Bool := match om with | some m => g.mask &&& m != 0 | none => true

/-- the predicates `preds` hold one by one on the glyphs at the head of `R` (with the feature on, if a mask is given) -/
def predMatchG (om : Option Nat) : List (Nat → Bool) → List G → Bool
  | [], _ => true
  | _ :: _, [] => false
  | pr :: ps, g :: R => (pr g.gid && onG om g) && predMatchG om ps R

theorem predMatchG_length (om : Option Nat) : ∀ (ps : List (Nat → Bool)) (R : List G), predMatchG om ps R = true → ps.length ≤ R.length := by
  intro ps
  induction ps with
  | nil => intro R _; simp
  | cons a ps ih =>
    intro R h
    cases R with
    | nil => simp [predMatchG] at h
    | cons y R =>
      simp only [predMatchG, Bool.and_eq_true] at h
      have := ih R h.2
      simp; omega

theorem zipAll_map (gs : List G) (om : Option Nat) (t : Nat × (Nat → Bool) → Bool)
    (ht : ∀ p pr g, gs[p]? = some g → t (p, pr) = (pr g.gid && onG om g)) :
    ∀ (preds : List (Nat → Bool)) (P : List Nat) (L : List G),
    P.map (fun p => gs[p]?) = L.map some → preds.length ≤ P.length →
    ((P.take preds.length).zip preds).all t = predMatchG om preds L := by
  intro preds
  induction preds with
  | nil => intro P L _ _; simp [predMatchG]
  | cons pr prs ih =>
    intro P L hPL hlen
    cases P with
    | nil => simp at hlen
    | cons p P =>
      cases L with
      | nil => simp at hPL
      | cons g L =>
        simp only [List.map_cons, List.cons.injEq] at hPL
        simp only [List.length_cons, List.take_succ_cons, List.zip_cons_cons, List.all_cons, ht p pr g hPL.1, predMatchG]
        rw [ih P L hPL.2 (by simp at hlen; omega)]

/-- `matchSeq` over positions whose glyphs are the list `L` -/
theorem matchSeq_map (gs : List G) (om : Option Nat) (preds : List (Nat → Bool)) (P : List Nat) (L : List G)
    (hPL : P.map (fun p => gs[p]?) = L.map some) :
    matchSeq gs P preds om = if predMatchG om preds L = true then some (P.take preds.length) else none := by
  have hl : P.length = L.length := by
    have := congrArg List.length hPL
    simpa using this
  unfold matchSeq
  by_cases hlt : P.length < preds.length
  · simp only [hlt, if_true]
    have : predMatchG om preds L = false := by
      cases hm : predMatchG om preds L with
      | false => rfl
      | true => have := predMatchG_length om preds L hm; omega
    simp [this]
  · simp only [hlt, if_false]
    rw [zipAll_map gs om _ (by
      intro p pr g hg
      simp only [hg]
      cases om <;> rfl) preds P L hPL (by omega)]

theorem range'_get (gs : List G) (s : Nat) :
    (List.range' s (gs.length - s)).map (fun p => gs[p]?) = (gs.drop s).map some := by
  apply List.ext_getElem?
  intro q
  simp only [List.getElem?_map, List.getElem?_drop]
  by_cases hq : q < gs.length - s
  · rw [List.getElem?_range' hq]
    simp only [Option.map_some, Nat.one_mul]
    have : s + q < gs.length := by omega
    rw [List.getElem?_eq_getElem this]
    rfl
  · rw [List.getElem?_eq_none (by simp; omega)]
    have : gs[s + q]? = none := List.getElem?_eq_none (by omega)
    rw [this]; rfl

theorem rangeRev_get (gs : List G) (i : Nat) (hi : i ≤ gs.length) :
    (List.range i).reverse.map (fun p => gs[p]?) = (gs.take i).reverse.map some := by
  rw [List.map_reverse, List.map_reverse]
  congr 1
  apply List.ext_getElem?
  intro q
  simp only [List.getElem?_map, List.getElem?_take]
  by_cases hq : q < i
  · rw [List.getElem?_range hq]
    simp only [Option.map_some, hq, if_true]
    have : q < gs.length := by omega
    rw [List.getElem?_eq_getElem this]
    rfl
  · rw [List.getElem?_eq_none (by simp; omega)]
    simp [hq]

/-- input / lookahead: `matchSeq` on the visible positions from `s` on is a prefix test of `gs.drop s` -/
theorem matchSeq_after (f : Font) (props : Nat) (hp : NoSkipFlags props) (gs : List G) (om : Option Nat)
    (preds : List (Nat → Bool)) (s : Nat) :
    matchSeq gs (visibleFrom f props gs s) preds om
      = if predMatchG om preds (gs.drop s) = true then some (List.range' s preds.length) else none := by
  rw [visibleFrom_noSkip f props gs s hp, matchSeq_map gs om preds _ _ (range'_get gs s)]
  by_cases h : predMatchG om preds (gs.drop s) = true
  · simp only [h, if_true]
    have := predMatchG_length om preds _ h
    simp at this
    rw [take_range' s preds.length (gs.length - s) (by omega)]
  · simp [h]

theorem visibleBefore_noSkip (f : Font) (props : Nat) (hp : NoSkipFlags props) (gs : List G) (i : Nat) (hi : i ≤ gs.length) :
    visibleBefore f props gs i = (List.range i).reverse := by
  unfold visibleBefore
  congr 1
  rw [List.filter_eq_self]
  intro j hj
  have hjl : j < gs.length := by have := List.mem_range.1 hj; omega
  rw [List.getElem?_eq_getElem hjl]
  simp [ignored_noSkip f props _ hp]

/-- backtrack: `matchSeq` on the visible positions before `i`, nearest first, is a prefix test of the reversed `gs.take i` -/
theorem matchSeq_before (f : Font) (props : Nat) (hp : NoSkipFlags props) (gs : List G)
    (preds : List (Nat → Bool)) (i : Nat) (hi : i ≤ gs.length) :
    (matchSeq gs (visibleBefore f props gs i) preds).isSome = predMatchG none preds (gs.take i).reverse := by
  rw [visibleBefore_noSkip f props hp gs i hi, matchSeq_map gs none preds _ _ (rangeRev_get gs i hi)]
  cases predMatchG none preds (gs.take i).reverse <;> simp

end RbModel.Spec.Subst

namespace RbModel.Gsub
open RbModel RbModel.Buf RbModel.Mem RbModel.Spec.Subst

/-- the predicates the interpreter's match function `fn glyph index` stands for, indices `g0, g0+1, …` -/
def fnPreds (fn : Nat → Nat → Bool) (g0 n : Nat) : List (Nat → Bool) := (List.range' g0 n).map (fun i x => fn x i)

theorem fnPreds_length (fn : Nat → Nat → Bool) (g0 n : Nat) : (fnPreds fn g0 n).length = n := by simp [fnPreds]

theorem fnPreds_succ (fn : Nat → Nat → Bool) (g0 n : Nat) :
    fnPreds fn g0 (n + 1) = (fun x => fn x g0) :: fnPreds fn (g0 + 1) n := by
  simp [fnPreds, List.range'_succ]

/-- **input matching across `RelF`**: the interpreter's prefix test with the lookup mask is the specification's, the lookup
    mask being made of feature bits -/
theorem fnMatch_relF (lm : Nat) (hlm : lm &&& (U32MAX - Flag.DEFINED) = lm) (fn : Nat → Nat → Bool) :
    ∀ (n g0 : Nat) (R : List Info) (Rg : List G), RelF R Rg → (∀ y ∈ R, y.gid < 65536) →
      fnMatch lm fn g0 n R = predMatchG (some lm) (fnPreds fn g0 n) Rg := by
  intro n
  induction n with
  | zero => intro g0 R Rg _ _; rfl
  | succ n ih =>
    intro g0 R Rg h hg
    rw [fnPreds_succ]
    cases R with
    | nil =>
      have := h.length
      cases Rg with
      | nil => rfl
      | cons g Rg => simp at this
    | cons y R =>
      cases Rg with
      | nil => have := h.length; simp at this
      | cons g Rg =>
        obtain ⟨hk, hr⟩ := h.cons
        have hgid : g.gid = y.gid := congrArg (fun p : Nat × Nat × Nat => p.1) hk
        have hfb : featBits g.mask = featBits y.mask := congrArg (fun p : Nat × Nat × Nat => p.2.2) hk
        simp only [fnMatch, predMatchG, onG]
        rw [ih (g0 + 1) R Rg hr (fun z hz => hg z (List.mem_cons_of_mem _ hz)), Nat.mod_eq_of_lt (hg y (List.mem_cons_self)),
          hgid, mask_and_of_featBits g.mask y.mask lm hlm hfb, Bool.and_comm (y.mask &&& lm != 0)]

/-- **context matching (backtrack / lookahead) across `RelF`**: the interpreter tests `mask & 0xFFFFFFFF ≠ 0`, which every
    glyph of a shaping run satisfies (the global bit); the specification tests nothing -/
theorem fnMatch_relF_ctx (fn : Nat → Nat → Bool) :
    ∀ (n g0 : Nat) (R : List Info) (Rg : List G), RelF R Rg → (∀ y ∈ R, y.gid < 65536 ∧ y.mask &&& U32MAX ≠ 0) →
      fnMatch U32MAX fn g0 n R = predMatchG none (fnPreds fn g0 n) Rg := by
  intro n
  induction n with
  | zero => intro g0 R Rg _ _; rfl
  | succ n ih =>
    intro g0 R Rg h hg
    rw [fnPreds_succ]
    cases R with
    | nil =>
      have := h.length
      cases Rg with
      | nil => rfl
      | cons g Rg => simp at this
    | cons y R =>
      cases Rg with
      | nil => have := h.length; simp at this
      | cons g Rg =>
        obtain ⟨hk, hr⟩ := h.cons
        have hgid : g.gid = y.gid := congrArg (fun p : Nat × Nat × Nat => p.1) hk
        have hy := hg y (List.mem_cons_self)
        have hm : (y.mask &&& U32MAX != 0) = true := by simpa using hy.2
        simp only [fnMatch, predMatchG, onG, hm, Bool.true_and, Bool.and_true]
        rw [ih (g0 + 1) R Rg hr (fun z hz => hg z (List.mem_cons_of_mem _ hz)), Nat.mod_eq_of_lt hy.1, hgid]

end RbModel.Gsub
