/-
  Ligature lookups on buffers whose masks DO carry glyph flags (unsafe-to-break etc. from earlier shaping stages):
  `set_cluster` drops the glyph flags of every glyph whose cluster a merge changes, which the specification — it knows
  feature bits only — does not describe.  Same simulation as in GsubLigFwd.lean, with the projection
  (glyph id, cluster, FEATURE bits of the mask) on both sides; the lookup mask is made of feature bits.
-/
import RbModel.Lemmas.GsubLigFwd
import RbModel.Lemmas.GsubMultiDel

namespace RbModel.Gsub
open RbModel RbModel.Buf RbModel.Mem RbModel.Spec.Subst

/-- glyph id, cluster and feature bits of a buffer item -/
def projF (x : Info) : Nat × Nat × Nat := (x.gid, x.cluster, featBits x.mask)
/-- glyph id, cluster and feature bits of a specification glyph -/
def piGF (g : G) : Nat × Nat × Nat := (g.gid, g.cluster, featBits g.mask)

/-- the interpreter's string and the specification's string agree up to glyph flags -/
def RelF (L : List Info) (gs : List G) : Prop := L.map projF = gs.map piGF

theorem RelF.length {L : List Info} {gs : List G} (h : RelF L gs) : L.length = gs.length := by
  have := congrArg List.length h
  simpa using this

theorem RelF.get {L : List Info} {gs : List G} (h : RelF L gs) (q : Nat) (x : Info) (hx : L[q]? = some x) :
    ∃ g, gs[q]? = some g ∧ piGF g = projF x := by
  have := congrArg (fun l => l[q]?) h
  simp only [List.getElem?_map, hx, Option.map_some] at this
  cases hg : gs[q]? with
  | none => rw [hg] at this; cases this
  | some g => rw [hg] at this; exact ⟨g, rfl, (Option.some.inj this).symm⟩

theorem RelF.cons {x : Info} {R : List Info} {g : G} {Rg : List G} (h : RelF (x :: R) (g :: Rg)) :
    piGF g = projF x ∧ RelF R Rg := by
  unfold RelF at h
  simp only [List.map_cons, List.cons.injEq] at h
  exact ⟨h.1.symm, h.2⟩

theorem RelF.append {A B : List Info} {A' B' : List G} (h1 : RelF A A') (h2 : RelF B B') : RelF (A ++ B) (A' ++ B') := by
  unfold RelF at *; rw [List.map_append, List.map_append, h1, h2]

theorem RelF.take {L : List Info} {gs : List G} (h : RelF L gs) (n : Nat) : RelF (L.take n) (gs.take n) := by
  unfold RelF at *; rw [List.map_take, List.map_take, h]

theorem RelF.drop {L : List Info} {gs : List G} (h : RelF L gs) (n : Nat) : RelF (L.drop n) (gs.drop n) := by
  unfold RelF at *; rw [List.map_drop, List.map_drop, h]

theorem RelF.refl (L : List Info) : RelF L (L.map projG) := by
  unfold RelF; rw [List.map_map]; rfl

theorem RelF.clusters {L : List Info} {gs : List G} (h : RelF L gs) :
    gs.map (·.cluster) = (L.map projG).map (·.cluster) := by
  have := congrArg (List.map (fun p : Nat × Nat × Nat => p.2.1)) h
  simp only [List.map_map] at this ⊢
  exact this.symm

theorem mask_and_of_featBits (m m' lm : Nat) (hlm : lm &&& (U32MAX - Flag.DEFINED) = lm) (h : featBits m = featBits m') :
    m &&& lm = m' &&& lm := by
  rw [← and_featBits m lm hlm, ← and_featBits m' lm hlm, h]

/-! ### the choice of ligature depends on feature bits only -/

theorem ligMatch_relF (lm : Nat) (hlm : lm &&& (U32MAX - Flag.DEFINED) = lm) : ∀ (cs : List Nat) (R : List Info) (Rg : List G),
    RelF R Rg → (∀ y ∈ R, y.gid < 65536) → ligMatch lm cs R = ligMatchG lm cs Rg := by
  intro cs
  induction cs with
  | nil => intro R Rg _ _; rfl
  | cons a cs ih =>
    intro R Rg h hg
    cases R with
    | nil =>
      have := h.length
      cases Rg with
      | nil => rfl
      | cons g Rg => simp at this
    | cons y R =>
      cases Rg with
      | nil => have := h.length; simp at this
      | cons g Rg =>
        obtain ⟨hk, hr⟩ := h.cons
        have hgid : g.gid = y.gid := congrArg (fun p : Nat × Nat × Nat => p.1) hk
        have hfb : featBits g.mask = featBits y.mask := congrArg (fun p : Nat × Nat × Nat => p.2.2) hk
        simp only [ligMatch, ligMatchG]
        rw [ih R Rg hr (fun z hz => hg z (List.mem_cons_of_mem _ hz)), Nat.mod_eq_of_lt (hg y (List.mem_cons_self)),
          hgid, mask_and_of_featBits g.mask y.mask lm hlm hfb, Bool.and_comm (y.mask &&& lm != 0)]

theorem firstLig_relF (lm : Nat) (hlm : lm &&& (U32MAX - Flag.DEFINED) = lm) (R : List Info) (Rg : List G) (h : RelF R Rg)
    (hR : ∀ y ∈ R, y.gid < 65536) : ∀ ligs : List (List Nat × Nat), firstLig lm R ligs = firstLigG lm Rg ligs := by
  intro ligs
  induction ligs with
  | nil => rfl
  | cons p rest ih =>
    obtain ⟨comps, lig⟩ := p
    unfold firstLig at ih ⊢
    simp only [List.find?_cons, firstLigG, ligMatch_relF lm hlm comps R Rg h hR]
    cases ligMatchG lm comps Rg with
    | true => rfl
    | false => simp only [Bool.false_eq_true, if_false]; exact ih

theorem ligFor?_relF (lm : Nat) (hlm : lm &&& (U32MAX - Flag.DEFINED) = lm) (x : Info) (g : G) (R : List Info) (Rg : List G)
    (hxg : piGF g = projF x) (h : RelF R Rg) (hx : x.gid < 65536) (hR : ∀ y ∈ R, y.gid < 65536) :
    ∀ sts : List Subtable, ligFor? lm sts x R = ligForG? lm sts g Rg := by
  have hgid : g.gid = x.gid := congrArg (fun p : Nat × Nat × Nat => p.1) hxg
  intro sts
  induction sts with
  | nil => rfl
  | cons st rest ih =>
    cases st with
    | ligature cov sets =>
      simp only [ligFor?, ligForG?, Nat.mod_eq_of_lt hx, hgid]
      have e : (fun (k : Nat) => (sets[k]?).bind (firstLig lm R)) = (fun (k : Nat) => (sets[k]?).bind (firstLigG lm Rg)) := by
        funext k
        cases sets[k]? with
        | none => rfl
        | some ligs => exact firstLig_relF lm hlm R Rg h hR ligs
      rw [e, ih]
      rfl
    | _ => simp only [ligFor?, ligForG?]; exact ih

/-! ### the cluster merge up to glyph flags -/

theorem projF_setCluster (x : Info) (m : Nat) : projF (setCluster x m 0) = (x.gid, m, featBits x.mask) := by
  have := featKey_setCluster x m 0
  unfold featKey at this
  simp only [Prod.mk.injEq] at this
  unfold projF
  rw [this.2.1]
  rfl

theorem isMerge_specF (L L' : List Info) (gs : List G) (S E m level : Nat) (h : IsMerge L L' S E m) (hSE : S < E)
    (hmono : NonDecr L ∨ NonIncr L) (hrel : RelF L gs) (hlv : level ≠ 2) :
    RelF L' (Spec.Subst.mergeClusters level gs S (E - 1)) := by
  unfold Spec.Subst.mergeClusters
  have hl2 : (level == 2) = false := by simpa using hlv
  simp only [hl2, Bool.false_eq_true, if_false]
  rw [show E - 1 + 1 - S = E - S by omega]
  have hclseq : ((gs.drop S).take (E - S)).map (·.cluster) = (((L.map projG).drop S).take (E - S)).map (·.cluster) := by
    rw [List.map_take, List.map_drop, hrel.clusters, ← List.map_drop, ← List.map_take]
  rw [hclseq]
  generalize hcls : (((L.map projG).drop S).take (E - S)).map (·.cluster) = cls
  have hmem : ∀ v, v ∈ cls ↔ ∃ q, S ≤ q ∧ q < E ∧ cl? L q = some v := by
    intro v; rw [← hcls]; exact mem_rangeClusters L S E v
  have hmin : cls.min? = some m := by
    rw [List.min?_eq_some_iff]
    refine ⟨(hmem m).2 h.min_mem, ?_⟩
    intro b hb
    obtain ⟨q, h1, h2, h3⟩ := (hmem b).1 hb
    exact h.min_le q h1 h2 b h3
  simp only [hmin]
  unfold RelF
  apply List.ext_getElem?
  intro q
  simp only [List.getElem?_map]
  cases hx' : L'[q]? with
  | none =>
    have : gs.length ≤ q := by
      have h1 : L'.length ≤ q := by
        by_cases hq : q < L'.length
        · rw [List.getElem?_eq_getElem hq] at hx'; cases hx'
        · omega
      rw [← hrel.length, ← h.len]; exact h1
    rw [List.getElem?_eq_none this]
    rfl
  | some x' =>
    obtain ⟨x, hx, _⟩ := h.get_cases q x' hx'
    obtain ⟨g, hg, hgx⟩ := hrel.get q x hx
    have hgc : g.cluster = x.cluster := congrArg (fun p : Nat × Nat × Nat => p.2.1) hgx
    have hgg : g.gid = x.gid := congrArg (fun p : Nat × Nat × Nat => p.1) hgx
    have hgm : featBits g.mask = featBits x.mask := congrArg (fun p : Nat × Nat × Nat => p.2.2) hgx
    have hclq : cl? L q = some x.cluster := cl?_of_get hx
    rw [hg]
    simp only [Option.map_some]
    by_cases hz : Zone L S E q
    · have hx'' := h.inz q hz
      rw [hx', hx] at hx''
      simp only [Option.map_some, Option.some.injEq] at hx''
      rw [hx'', projF_setCluster]
      have hin : g.cluster ∈ cls := by
        rw [hgc, hmem]
        rcases hz with ⟨a, b⟩ | ⟨a, b⟩ | ⟨a, b⟩
        · exact ⟨q, a, b, hclq⟩
        · refine ⟨E - 1, by omega, by omega, ?_⟩
          rw [← b q (by omega) (Nat.le_refl _)]; exact hclq
        · refine ⟨S, Nat.le_refl _, hSE, ?_⟩
          rw [← b q (Nat.le_refl _) (by omega)]; exact hclq
      have : cls.contains g.cluster = true := by
        simp only [List.contains_iff_mem]; exact hin
      simp only [this, if_true, piGF, hgg, hgm]
    · have hx'' := h.outz q hz
      rw [hx', hx] at hx''
      cases hx''
      have hnot : ¬ g.cluster ∈ cls := by
        rw [hgc]
        intro hin
        obtain ⟨p, h1, h2, h3⟩ := (hmem _).1 hin
        apply hz
        by_cases hq1 : q < S
        · right; right
          refine ⟨hq1, ?_⟩
          intro r a b
          rw [mono_squeeze hmono a (by omega : r ≤ p) hclq h3,
            mono_squeeze hmono (by omega : q ≤ S) (by omega : S ≤ p) hclq h3]
        · by_cases hq2 : q < E
          · left; exact ⟨by omega, hq2⟩
          · right; left
            refine ⟨by omega, ?_⟩
            intro r a b
            rw [mono_squeeze hmono (by omega : p ≤ r) b h3 hclq,
              mono_squeeze hmono (by omega : p ≤ E - 1) (by omega : E - 1 ≤ q) h3 hclq]
      have : cls.contains g.cluster = false := by
        simp only [Bool.eq_false_iff]
        intro hc
        exact hnot (by simpa using hc)
      simp only [this, Bool.false_eq_true, if_false]
      exact congrArg some hgx.symm

theorem mergeRel_specF (L L1 : List Info) (gs : List G) (S n level : Nat) (h : MergeRel L L1 S n)
    (hmono : NonDecr L ∨ NonIncr L) (hrel : RelF L gs) (hlv : level ≠ 2) :
    RelF L1 (Spec.Subst.mergeClusters level gs S (S + n)) := by
  rcases h with ⟨h0, h1⟩ | ⟨hn, m, hm⟩
  · subst h0; subst h1
    rw [Nat.add_zero, mergeClusters_single]; exact hrel
  · have := isMerge_specF L L1 gs S (S + (n + 1)) m level hm (by omega) hmono hrel hlv
    rw [show S + (n + 1) - 1 = S + n by omega] at this
    exact this

/-! ### the simulation up to glyph flags -/

theorem ligResult_relF (level : Nat) (gs : List G) (i : Nat) (g : G) (comps : List Nat) (lig : Nat) (O1 T1 : List Info)
    (x1 y : Info) (hrel1 : RelF (O1 ++ x1 :: T1) (Spec.Subst.mergeClusters level gs i (i + comps.length)))
    (hO1 : O1.length = i) (hy : projG y = projG x1) :
    RelF (O1 ++ [{ y with gid := lig }] ++ T1.drop comps.length) (ligResult level gs i g comps lig).1 ∧
      (ligResult level gs i g comps lig).2 = i + 1 := by
  unfold ligResult
  refine ⟨?_, rfl⟩
  simp only []
  generalize Spec.Subst.mergeClusters level gs i (i + comps.length) = gs1 at hrel1
  have h1 := hrel1.take i
  rw [List.take_left' hO1] at h1
  have h3 := hrel1.drop (i + comps.length + 1)
  rw [drop_more_append O1 T1 x1 i comps.length hO1] at h3
  obtain ⟨g1, hg1, hk1⟩ := hrel1.get i x1 (by rw [List.getElem?_append_right (by omega), hO1]; simp)
  rw [hg1]
  simp only [Option.getD_some]
  rw [List.append_assoc]
  refine RelF.append h1 (RelF.append (A' := [{ g1 with gid := lig }]) ?_ h3)
  unfold RelF
  simp only [List.map_cons, List.map_nil, List.cons.injEq, and_true]
  have hyc : y.cluster = x1.cluster := congrArg G.cluster hy
  have hym : y.mask = x1.mask := congrArg G.mask hy
  have hgc : g1.cluster = x1.cluster := congrArg (fun p : Nat × Nat × Nat => p.2.1) hk1
  have hgm : featBits g1.mask = featBits x1.mask := congrArg (fun p : Nat × Nat × Nat => p.2.2) hk1
  show (lig, y.cluster, featBits y.mask) = (lig, g1.cluster, featBits g1.mask)
  rw [hyc, hym, hgc, hgm]

/-- the invariant of the forward scan, masks unconstrained -/
structure LigInvF (l : Lookup) (lm : Nat) (c : Ctx) : Prop where
  inv : Inv c.buf
  succ : c.buf.successful = true
  props : c.lookupProps = l.props
  mask : c.lookupMask = lm
  nosyl : c.perSyllable = false
  level : c.buf.level ≠ 2
  noconcat : c.buf.flags &&& Gen.Buf.produceUnsafeToConcat = 0
  budget : c.buf.outLen + (inP c.buf).length ≤ c.buf.maxLen
  plain : ∀ y ∈ inP c.buf, Plain y ∧ y.gid < 65536
  mono : NonDecr (outP c.buf ++ inP c.buf) ∨ NonIncr (outP c.buf ++ inP c.buf)

theorem ligInvF_next (hg : Gen.Buf.ensureGrowOnly = true) (l : Lookup) (lm : Nat) (c : Ctx) (h : LigInvF l lm c) (x : Info)
    (R : List Info) (hin : inP c.buf = x :: R) :
    ∃ b1, c.buf.nextGlyph = .ok b1 ∧ LigInvF l lm { c with buf := b1 } ∧
      outP b1 ++ inP b1 = outP c.buf ++ inP c.buf ∧ b1.outLen = c.buf.outLen + 1 ∧ b1.maxLen = c.buf.maxLen ∧
      b1.outLen + (inP b1).length = c.buf.outLen + (inP c.buf).length := by
  have hbud := h.budget
  rw [hin] at hbud
  simp only [List.length_cons] at hbud
  obtain ⟨b1, hrun, hinv1, ho1, hi1, hsu1, hml1⟩ := nextGlyph_parts c.buf h.inv hg x R hin (by omega)
  have hcfg := nextGlyph_cfg hrun
  have hseq : outP b1 ++ inP b1 = outP c.buf ++ inP c.buf := by rw [ho1, hi1, hin]; simp
  have hol : b1.outLen = c.buf.outLen + 1 := by
    have := outP_length b1 hinv1
    rw [ho1] at this
    simp [outP_length c.buf h.inv] at this
    omega
  refine ⟨b1, hrun, ⟨hinv1, by rw [hsu1]; exact h.succ, h.props, h.mask, h.nosyl, by rw [hcfg.1]; exact h.level,
    by rw [hcfg.2]; exact h.noconcat, ?_, ?_, by rw [hseq]; exact h.mono⟩, hseq, hol, hml1, ?_⟩
  · show b1.outLen + (inP b1).length ≤ b1.maxLen
    rw [hol, hi1, hml1]; omega
  · intro y hy
    show Plain y ∧ y.gid < 65536
    rw [show inP ({ c with buf := b1 } : Ctx).buf = inP b1 from rfl, hi1] at hy
    exact h.plain y (by rw [hin]; exact List.mem_cons_of_mem _ hy)
  · rw [hol, hi1, hin]; simp; omega

theorem applyForward_ligF (l : Lookup) (hall : l.subtables.all Subtable.isLigatureSt = true) (hshort : LigsShort l.subtables)
    (hp : NoSkipFlags l.props) (hg : Gen.Buf.ensureGrowOnly = true) (hguard : Gen.Buf.extendStartGuard = 1)
    (level : Nat) (hlv : level ≠ 2) (lm : Nat) (hlm : lm &&& (U32MAX - Flag.DEFINED) = lm) :
    ∀ (fuel : Nat) (c : Ctx) (gs : List G), LigInvF l lm c → RelF (outP c.buf ++ inP c.buf) gs →
      ∃ b', applyForward l fuel c = .ok { c with buf := b' } ∧ Inv b' ∧ b'.successful = true ∧ b'.maxLen = c.buf.maxLen ∧
        b'.outLen + (inP b').length ≤ c.buf.outLen + (inP c.buf).length ∧
        RelF (outP b' ++ inP b') (applyLookupFwd c.font level l lm fuel gs c.buf.outLen) := by
  intro fuel
  induction fuel with
  | zero =>
    intro c gs h hrel
    exact ⟨c.buf, rfl, h.inv, h.succ, rfl, Nat.le_refl _, hrel⟩
  | succ fuel ih =>
    intro c gs h hrel
    have hol := outP_length c.buf h.inv
    have hcases : inP c.buf = [] ∨ ∃ x R, inP c.buf = x :: R := by
      cases inP c.buf with
      | nil => exact Or.inl rfl
      | cons x R => exact Or.inr ⟨x, R, rfl⟩
    rcases hcases with hin | ⟨x, R, hin⟩
    · have hl := inP_length c.buf h.inv
      rw [hin] at hl
      simp at hl
      have hc : ¬ (c.buf.idx < c.buf.len) := by omega
      refine ⟨c.buf, ?_, h.inv, h.succ, rfl, Nat.le_refl _, ?_⟩
      · simp [applyForward, hc]; rfl
      · have hnone : gs[c.buf.outLen]? = none := by
          apply List.getElem?_eq_none
          rw [← hrel.length, hin]; simp [hol]
        simp only [applyLookupFwd, hnone]
        exact hrel
    · obtain ⟨hcur, hx⟩ := inP_head c.buf h.inv x R hin
      have hget : Mem.get c.buf.info c.buf.idx = .ok x := by unfold Mem.get; rw [hx]; rfl
      have hc2 : (decide (c.buf.idx < c.buf.len) && c.buf.successful) = true := by simp [hcur, h.succ]
      obtain ⟨g, hgs, hgx⟩ := hrel.get c.buf.outLen x (by
        rw [hin, List.getElem?_append_right (by omega), hol]; simp)
      have hchk : checkGlyphProperty c.font x c.lookupProps = true := by
        rw [h.props]; exact checkGlyphProperty_noSkip c.font x l.props hp
      have hign : ignored c.font l.props g = false := ignored_noSkip c.font l.props _ hp
      have hgm : g.mask &&& lm = x.mask &&& lm :=
        mask_and_of_featBits g.mask x.mask lm hlm (congrArg (fun p : Nat × Nat × Nat => p.2.2) hgx)
      have hskip : (∀ b1, c.buf.nextGlyph = .ok b1 → applyForward l (fuel + 1) c = applyForward l fuel { c with buf := b1 }) →
          applyLookupFwd c.font level l lm (fuel + 1) gs c.buf.outLen
            = applyLookupFwd c.font level l lm fuel gs (c.buf.outLen + 1) →
          ∃ b', applyForward l (fuel + 1) c = .ok { c with buf := b' } ∧ Inv b' ∧ b'.successful = true ∧
            b'.maxLen = c.buf.maxLen ∧ b'.outLen + (inP b').length ≤ c.buf.outLen + (inP c.buf).length ∧
            RelF (outP b' ++ inP b') (applyLookupFwd c.font level l lm (fuel + 1) gs c.buf.outLen) := by
        intro hm hs
        obtain ⟨b1, hrun, hI1, hseq, hol1, hml1, hbud1⟩ := ligInvF_next hg l lm c h x R hin
        obtain ⟨b', hres, hinv', hsu', hml', hbud', hout'⟩ := ih { c with buf := b1 } gs hI1 (by
          show RelF (outP b1 ++ inP b1) gs
          rw [hseq]; exact hrel)
        refine ⟨b', by rw [hm b1 hrun]; exact hres, hinv', hsu', by rw [hml']; exact hml1, ?_, ?_⟩
        · have : b1.outLen + (inP b1).length = c.buf.outLen + (inP c.buf).length := hbud1
          exact Nat.le_trans hbud' (Nat.le_of_eq this)
        · rw [hs]
          have : ({ c with buf := b1 } : Ctx).buf.outLen = c.buf.outLen + 1 := hol1
          rw [← this]
          exact hout'
      by_cases hen : (x.mask &&& lm != 0) = true
      · have hctx : LigCtx c x R :=
          ⟨h.inv, hin, fun y hy => (h.plain y (by rw [hin]; exact hy)).1, by rw [h.props]; exact hp, h.nosyl, h.level,
            h.noconcat, by have := h.budget; rw [hin] at this; simp at this; omega⟩
        have happ := applySubtables_ligature hg hguard (recurseAt MAX_NESTING_LEVEL) true c x R hctx l.subtables hall hshort
        have hxg : x.gid < 65536 := (h.plain x (by rw [hin]; exact List.mem_cons_self)).2
        have hRg : ∀ y ∈ R, y.gid < 65536 := fun y hy => (h.plain y (by rw [hin]; exact List.mem_cons_of_mem _ hy)).2
        have hrelR : RelF R (gs.drop (c.buf.outLen + 1)) := by
          have := hrel.drop (c.buf.outLen + 1)
          rw [hin, drop_succ_append _ _ _ _ hol] at this
          exact this
        rw [h.mask, ligFor?_relF lm hlm x g R _ hgx hrelR hxg hRg l.subtables] at happ
        have hspecF := firstSubtable_ligature c.font level l.props lm hp gs c.buf.outLen g hgs l.subtables hall
        cases hsel : ligForG? lm l.subtables g (gs.drop (c.buf.outLen + 1)) with
        | none =>
          rw [hsel] at happ hspecF
          simp only [] at happ
          apply hskip
          · intro b1 hb1
            have henc : (x.mask &&& c.lookupMask != 0) = true := by rw [h.mask]; exact hen
            simp only [applyForward, hc2, if_true, bind, Except.bind, hget, henc, hchk, Bool.and_self, applyTop,
              happ, Bool.false_eq_true, if_false, hb1]
          · simp only [applyLookupFwd, hgs, hgm, hen, hign, Bool.not_false, Bool.and_self, if_true, hspecF, Option.map_none]
        | some p =>
          rw [hsel] at happ hspecF
          simp only [Option.map_some] at happ hspecF
          obtain ⟨b1, O1, x1, T1, y, hres, hinv1, hrel0, hO1, hy, ho1, hi1, hcfg⟩ := happ
          have hrelL := mergeRel_length hrel0
          have hgs1 := mergeRel_specF _ _ gs c.buf.outLen p.1.length level hrel0 h.mono hrel hlv
          obtain ⟨hres2, hnxt⟩ := ligResult_relF level gs c.buf.outLen g p.1 p.2 O1 T1 x1 y hgs1 hO1 hy
          have hol1 : b1.outLen = c.buf.outLen + 1 := by
            have := outP_length b1 hinv1
            rw [ho1] at this
            simp [hO1] at this
            omega
          have hseq1 : outP b1 ++ inP b1 = O1 ++ [{ y with gid := p.2 }] ++ T1.drop p.1.length := by rw [ho1, hi1]
          have hT1l : T1.length = R.length := by
            rw [hin] at hrelL
            simp [hO1, hol] at hrelL
            omega
          have hOl : O1.length = (outP c.buf).length := by rw [hO1, hol]
          have hplain1 : ∀ z ∈ x1 :: T1, Plain z ∧ z.gid < 65536 :=
            mergeRel_right hrel0 hOl (fun z => Plain z ∧ z.gid < 65536) (fun z m hz => plain_setCluster z m hz) h.plain
          have hyc : y.cluster = x1.cluster := congrArg G.cluster hy
          have hI1 : LigInvF l lm { c with buf := b1 } := by
            refine ⟨hinv1, by rw [hcfg.1]; exact h.succ, h.props, h.mask, h.nosyl, by rw [hcfg.2.2.1]; exact h.level,
              by rw [hcfg.2.2.2]; exact h.noconcat, ?_, ?_, ?_⟩
            · show b1.outLen + (inP b1).length ≤ b1.maxLen
              have := h.budget
              rw [hin] at this
              simp only [List.length_cons] at this
              rw [hol1, hi1, hcfg.2.1, List.length_drop]
              omega
            · intro z hz
              have hz' : z ∈ T1.drop p.1.length := by rw [← hi1]; exact hz
              exact hplain1 z (List.mem_cons_of_mem _ (List.mem_of_mem_drop hz'))
            · show NonDecr (outP b1 ++ inP b1) ∨ NonIncr (outP b1 ++ inP b1)
              rw [hseq1, List.append_assoc, List.singleton_append]
              exact mono_removed O1 T1 x1 { y with gid := p.2 } p.1.length hyc (mergeRel_mono hrel0 h.mono)
          obtain ⟨b', hres', hinv', hsu', hml', hbud', hout'⟩ := ih { c with buf := b1 }
            (ligResult level gs c.buf.outLen g p.1 p.2).1 hI1 (by
              show RelF (outP b1 ++ inP b1) _
              rw [hseq1]; exact hres2)
          refine ⟨b', ?_, hinv', hsu', by rw [hml']; exact hcfg.2.1, ?_, ?_⟩
          · have henc : (x.mask &&& c.lookupMask != 0) = true := by rw [h.mask]; exact hen
            simp only [applyForward, hc2, if_true, bind, Except.bind, hget, henc, hchk, Bool.and_self, applyTop,
              hres]
            exact hres'
          · have h1 : b1.outLen + (inP b1).length ≤ c.buf.outLen + (inP c.buf).length := by
              rw [hol1, hi1, hin, List.length_drop]; simp only [List.length_cons]; omega
            exact Nat.le_trans hbud' h1
          · simp only [applyLookupFwd, hgs, hgm, hen, hign, Bool.not_false, Bool.and_self, if_true, hspecF]
            rw [hnxt, Nat.max_eq_left (by omega)]
            have : ({ c with buf := b1 } : Ctx).buf.outLen = c.buf.outLen + 1 := hol1
            rw [← this]
            exact hout'
      · have hen' : (x.mask &&& lm != 0) = false := by simpa using hen
        apply hskip
        · intro b1 hb1
          have henc : (x.mask &&& c.lookupMask != 0) = false := by rw [h.mask]; exact hen'
          simp only [applyForward, hc2, if_true, bind, Except.bind, hget, henc, Bool.false_and, Bool.false_eq_true,
            if_false, hb1]
        · simp only [applyLookupFwd, hgs, hgm, hen', Bool.false_and, Bool.false_eq_true, if_false]

/-- **`apply_string` of a lookup made of ligature subtables, masks with glyph flags allowed**: glyph ids, clusters and
    feature bits are those of the specification -/
theorem applyString_ligF (l : Lookup) (hall : l.subtables.all Subtable.isLigatureSt = true) (hshort : LigsShort l.subtables)
    (hp : NoSkipFlags l.props) (hg : Gen.Buf.ensureGrowOnly = true) (hguard : Gen.Buf.extendStartGuard = 1)
    (c : Ctx) (fuel : Nat) (hlm : c.lookupMask &&& (U32MAX - Flag.DEFINED) = c.lookupMask)
    (hps : c.perSyllable = false) (hlv : c.buf.level ≠ 2)
    (hfl : c.buf.flags &&& Gen.Buf.produceUnsafeToConcat = 0)
    (hsu : c.buf.successful = true) (hlen : c.buf.len ≤ c.buf.info.length) (hout : c.buf.out.length = c.buf.info.length)
    (hbud : c.buf.len ≤ c.buf.maxLen)
    (hplain : ∀ x ∈ c.buf.info.take c.buf.len, Plain x ∧ x.gid < 65536)
    (hmono : NonDecr (c.buf.info.take c.buf.len) ∨ NonIncr (c.buf.info.take c.buf.len)) :
    ∃ c', applyString c l fuel = .ok c' ∧ c'.buf.successful = true ∧ c'.buf.len ≤ c'.buf.info.length ∧
      (c'.buf.info.take c'.buf.len).map projF
        = (applyLookupFwd c.font c.buf.level l c.lookupMask fuel ((c.buf.info.take c.buf.len).map projG) 0).map piGF := by
  unfold applyString
  by_cases h0 : (c.buf.len == 0 || c.lookupMask == 0) = true
  · simp only [h0, if_true, pure, Except.pure]
    have h0' : c.buf.len = 0 ∨ c.lookupMask = 0 := by simpa using h0
    refine ⟨c, rfl, hsu, hlen, ?_⟩
    rcases h0' with h | h
    · rw [h]; simp [applyLookupFwd_nil]
    · rw [h, applyLookupFwd_mask0]; exact RelF.refl _
  · simp only [h0, Bool.false_eq_true, if_false, ligature_not_reverse l hall, Bool.not_false, if_true]
    have hinv0 : Inv ({ c.buf.clearOutput with idx := 0 } : Buf) :=
      ⟨Nat.zero_le _, by simpa [clearOutput] using hlen, by simpa [clearOutput] using hout,
        by simp [clearOutput], by simp [clearOutput], by simp [clearOutput]⟩
    have hin0 : inP ({ c.buf.clearOutput with idx := 0 } : Buf) = c.buf.info.take c.buf.len := by
      simp [inP, clearOutput]
    have hout0 : outP ({ c.buf.clearOutput with idx := 0 } : Buf) = [] := by
      simp [outP, clearOutput]
    have hI0 : LigInvF l c.lookupMask { c with lookupProps := l.props, buf := { c.buf.clearOutput with idx := 0 } } := by
      refine ⟨hinv0, by simpa [clearOutput] using hsu, rfl, rfl, hps, by simpa [clearOutput] using hlv,
        by simpa [clearOutput] using hfl, ?_, ?_, ?_⟩
      · show ({ c.buf.clearOutput with idx := 0 } : Buf).outLen + (inP ({ c.buf.clearOutput with idx := 0 } : Buf)).length
            ≤ ({ c.buf.clearOutput with idx := 0 } : Buf).maxLen
        rw [hin0]; simp [clearOutput]; omega
      · intro y hy
        have hy' : y ∈ inP ({ c.buf.clearOutput with idx := 0 } : Buf) := hy
        rw [hin0] at hy'; exact hplain y hy'
      · show NonDecr (outP ({ c.buf.clearOutput with idx := 0 } : Buf) ++ inP ({ c.buf.clearOutput with idx := 0 } : Buf)) ∨
            NonIncr (outP ({ c.buf.clearOutput with idx := 0 } : Buf) ++ inP ({ c.buf.clearOutput with idx := 0 } : Buf))
        rw [hout0, hin0, List.nil_append]; exact hmono
    obtain ⟨b', hres, hinv', hsu', hml', hbud', hout'⟩ :=
      applyForward_ligF l hall hshort hp hg hguard c.buf.level hlv c.lookupMask hlm fuel _
        ((c.buf.info.take c.buf.len).map projG) hI0 (by
          show RelF (outP ({ c.buf.clearOutput with idx := 0 } : Buf) ++ inP ({ c.buf.clearOutput with idx := 0 } : Buf)) _
          rw [hout0, hin0, List.nil_append]; exact RelF.refl _)
    have htot : total b' ≤ b'.maxLen := by
      have h2 := inP_length b' hinv'
      have h3 : ({ c.buf.clearOutput with idx := 0 } : Buf).outLen
          + (inP ({ c.buf.clearOutput with idx := 0 } : Buf)).length ≤ c.buf.maxLen := by
        rw [hin0]; simp [clearOutput]; omega
      have h4 : b'.maxLen = c.buf.maxLen := by rw [hml']; rfl
      have h5 : b'.outLen + (inP b').length ≤ ({ c.buf.clearOutput with idx := 0 } : Buf).outLen
          + (inP ({ c.buf.clearOutput with idx := 0 } : Buf)).length := hbud'
      unfold total
      omega
    obtain ⟨b'', hsync, hsu'', _, hle'', htake⟩ := sync_parts b' hinv' hg hsu' htot
    simp only [bind, Except.bind, hres, hsync, pure, Except.pure]
    refine ⟨_, rfl, hsu'', hle'', ?_⟩
    show (b''.info.take b''.len).map projF = _
    rw [htake]
    exact hout'

end RbModel.Gsub
