/-
  The forward scan (`apply_forward`) and `apply_string` of a lookup made of ligature subtables against
  `Spec.Subst.applyLookupFwd`: a simulation over the pair (out-part, in-part) — the specification's string is the
  projection of `out ++ in`, its position is `out_len` — on the Spec's documented domain for ligatures.
-/
import RbModel.Lemmas.GsubLigApply

namespace RbModel.Gsub
open RbModel RbModel.Buf RbModel.Mem RbModel.Spec.Subst

/-! ### the interpreter's choice of ligature is the specification's -/

theorem ligMatch_proj (lm : Nat) : ∀ (cs : List Nat) (R : List Info), (∀ y ∈ R, y.gid < 65536) →
    ligMatch lm cs R = ligMatchG lm cs (R.map projG) := by
  intro cs
  induction cs with
  | nil => intro R _; rfl
  | cons a cs ih =>
    intro R h
    cases R with
    | nil => rfl
    | cons y R =>
      simp only [ligMatch, List.map_cons, ligMatchG]
      rw [ih R (fun z hz => h z (List.mem_cons_of_mem _ hz)), Nat.mod_eq_of_lt (h y (List.mem_cons_self))]
      rw [Bool.and_comm (y.mask &&& lm != 0)]
      rfl

theorem firstLig_proj (lm : Nat) (R : List Info) (hR : ∀ y ∈ R, y.gid < 65536) : ∀ ligs : List (List Nat × Nat),
    firstLig lm R ligs = firstLigG lm (R.map projG) ligs := by
  intro ligs
  induction ligs with
  | nil => rfl
  | cons p rest ih =>
    obtain ⟨comps, lig⟩ := p
    unfold firstLig at ih ⊢
    simp only [List.find?_cons, firstLigG, ligMatch_proj lm comps R hR]
    cases ligMatchG lm comps (R.map projG) with
    | true => rfl
    | false => simp only [Bool.false_eq_true, if_false]; exact ih

theorem ligFor?_proj (lm : Nat) (x : Info) (R : List Info) (hx : x.gid < 65536) (hR : ∀ y ∈ R, y.gid < 65536) :
    ∀ sts : List Subtable, ligFor? lm sts x R = ligForG? lm sts (projG x) (R.map projG) := by
  intro sts
  induction sts with
  | nil => rfl
  | cons st rest ih =>
    cases st with
    | ligature cov sets =>
      simp only [ligFor?, ligForG?, Nat.mod_eq_of_lt hx]
      have e : (fun (k : Nat) => (sets[k]?).bind (firstLig lm R)) = (fun (k : Nat) => (sets[k]?).bind (firstLigG lm (R.map projG))) := by
        funext k
        cases sets[k]? with
        | none => rfl
        | some ligs => exact firstLig_proj lm R hR ligs
      rw [e, ih]
      rfl
    | _ => simp only [ligFor?, ligForG?]; exact ih

/-! ### the cluster merge of one application -/

theorem mergeClusters_single (level : Nat) (gs : List G) (i : Nat) : Spec.Subst.mergeClusters level gs i i = gs := by
  unfold Spec.Subst.mergeClusters
  split
  · rfl
  · simp only [show i + 1 - i = 1 by omega]
    cases hd : gs.drop i with
    | nil => simp
    | cons a t =>
      simp only [List.take_succ_cons, List.take_zero, List.map_cons, List.map_nil]
      have : [a.cluster].min? = some a.cluster := rfl
      simp only [this]
      conv => rhs; rw [← List.map_id gs]
      apply List.map_congr_left
      intro g _
      by_cases hc : g.cluster = a.cluster
      · have hcn : [a.cluster].contains g.cluster = true := by simp [hc]
        simp only [hcn, if_true, id]
        cases g
        simp only [] at hc
        subst hc
        rfl
      · have hcn : [a.cluster].contains g.cluster = false := by simp [hc]
        simp only [hcn, Bool.false_eq_true, if_false, id]

theorem mergeRel_spec (L L1 : List Info) (S n level : Nat) (h : MergeRel L L1 S n) (hmono : NonDecr L ∨ NonIncr L)
    (hfm : ∀ x ∈ L, FeatMask x) (hlv : level ≠ 2) :
    Spec.Subst.mergeClusters level (L.map projG) S (S + n) = L1.map projG := by
  rcases h with ⟨h0, h1⟩ | ⟨hn, m, hm⟩
  · subst h0; subst h1
    exact mergeClusters_single level _ S
  · have := isMerge_spec L L1 S (S + (n + 1)) m level hm (by omega) hmono hfm hlv
    rw [show S + (n + 1) - 1 = S + n by omega] at this
    exact this

theorem mergeRel_length {L L1 : List Info} {S n : Nat} (h : MergeRel L L1 S n) : L1.length = L.length := by
  rcases h with ⟨_, h1⟩ | ⟨_, m, hm⟩
  · rw [h1]
  · exact hm.len

theorem mergeRel_mono {L L1 : List Info} {S n : Nat} (h : MergeRel L L1 S n) (hmono : NonDecr L ∨ NonIncr L) :
    NonDecr L1 ∨ NonIncr L1 := by
  rcases h with ⟨_, h1⟩ | ⟨hn, m, hm⟩
  · rw [h1]; exact hmono
  · have hp := hm.props (by omega : S < S + (n + 1))
    rcases hmono with h | h
    · exact Or.inl (hp.nonDecr h)
    · exact Or.inr (hp.nonIncr h)

theorem mergeRel_right {A B A' B' : List Info} {S n : Nat} (h : MergeRel (A ++ B) (A' ++ B') S n)
    (hl : A'.length = A.length) (Pr : Info → Prop) (hPr : ∀ x m, Pr x → Pr (setCluster x m 0)) (hB : ∀ y ∈ B, Pr y) :
    ∀ y ∈ B', Pr y := by
  rcases h with ⟨_, h1⟩ | ⟨_, m, hm⟩
  · have := List.append_inj h1 hl
    rw [this.2]; exact hB
  · exact hm.forall_right hl Pr (fun x => hPr x m) hB

theorem mergeRel_left {A B A' B' : List Info} {S n : Nat} (h : MergeRel (A ++ B) (A' ++ B') S n)
    (hl : A'.length = A.length) (Pr : Info → Prop) (hPr : ∀ x m, Pr x → Pr (setCluster x m 0)) (hA : ∀ y ∈ A, Pr y) :
    ∀ y ∈ A', Pr y := by
  rcases h with ⟨_, h1⟩ | ⟨_, m, hm⟩
  · have := List.append_inj h1 hl
    rw [this.1]; exact hA
  · exact hm.forall_left hl Pr (fun x => hPr x m) hA

/-! ### removing the components keeps the clusters monotone -/

theorem cl?_removed (A T : List Info) (x y : Info) (n : Nat) (hxy : y.cluster = x.cluster) (q : Nat) :
    cl? (A ++ y :: T.drop n) q = cl? (A ++ x :: T) (if q ≤ A.length then q else q + n) := by
  unfold cl?
  by_cases h1 : q < A.length
  · have : q ≤ A.length := by omega
    simp only [this, if_true]
    rw [List.getElem?_append_left h1, List.getElem?_append_left h1]
  · by_cases h2 : q = A.length
    · subst h2
      simp [hxy]
    · have h3 : ¬ q ≤ A.length := by omega
      simp only [h3, if_false]
      rw [List.getElem?_append_right (by omega), List.getElem?_append_right (by omega)]
      have e1 : q - A.length = (q - A.length - 1) + 1 := by omega
      have e2 : q + n - A.length = (q - A.length - 1 + n) + 1 := by omega
      rw [e1, e2, List.getElem?_cons_succ, List.getElem?_cons_succ, List.getElem?_drop]
      congr 2; omega

theorem mono_removed (A T : List Info) (x y : Info) (n : Nat) (hxy : y.cluster = x.cluster)
    (h : NonDecr (A ++ x :: T) ∨ NonIncr (A ++ x :: T)) :
    NonDecr (A ++ y :: T.drop n) ∨ NonIncr (A ++ y :: T.drop n) := by
  have hphi : ∀ i j : Nat, i ≤ j → (if i ≤ A.length then i else i + n) ≤ (if j ≤ A.length then j else j + n) := by
    intro i j hij
    by_cases h1 : i ≤ A.length <;> by_cases h2 : j ≤ A.length <;> simp only [h1, h2, if_true, if_false] <;> omega
  rcases h with h | h
  · left
    intro i j a b hij ha hb
    rw [cl?_removed A T x y n hxy] at ha hb
    exact h _ _ a b (hphi i j hij) ha hb
  · right
    intro i j a b hij ha hb
    rw [cl?_removed A T x y n hxy] at ha hb
    exact h _ _ a b (hphi i j hij) ha hb

/-! ### the simulation -/

theorem drop_succ_append {α} (A B : List α) (a : α) (k : Nat) (h : A.length = k) : (A ++ a :: B).drop (k + 1) = B := by
  subst h; simp

theorem drop_more_append {α} (A B : List α) (a : α) (k n : Nat) (h : A.length = k) :
    (A ++ a :: B).drop (k + n + 1) = B.drop n := by
  subst h
  rw [show A.length + n + 1 = A.length + (n + 1) by omega, List.drop_append,
    List.drop_eq_nil_of_le (by omega), show A.length + (n + 1) - A.length = n + 1 by omega]
  rfl

theorem ligResult_eq (level : Nat) (gs : List G) (i : Nat) (g : G) (comps : List Nat) (lig : Nat) (O1 T1 : List Info)
    (x1 y : Info) (hgs1 : Spec.Subst.mergeClusters level gs i (i + comps.length) = (O1 ++ x1 :: T1).map projG)
    (hO1 : O1.length = i) (hy : projG y = projG x1) :
    ligResult level gs i g comps lig = ((O1 ++ [{ y with gid := lig }] ++ T1.drop comps.length).map projG, i + 1) := by
  unfold ligResult
  simp only [hgs1]
  have hl : (O1.map projG).length = i := by simp [hO1]
  have e1 : ((O1 ++ x1 :: T1).map projG).take i = O1.map projG := by
    rw [List.map_append]; exact List.take_left' hl
  have e2 : ((O1 ++ x1 :: T1).map projG)[i]? = some (projG x1) := by
    rw [List.map_append, List.getElem?_append_right (by omega), hl]; simp
  have e3 : ((O1 ++ x1 :: T1).map projG).drop (i + comps.length + 1) = (T1.drop comps.length).map projG := by
    rw [List.map_append, List.map_cons, drop_more_append _ _ _ i comps.length hl, List.map_drop]
  rw [e1, e2, e3]
  simp only [Option.getD_some, List.map_append, List.map_cons, List.append_assoc, List.singleton_append]
  rw [projG_gid x1 y lig hy]

/-- the invariant of the forward scan -/
structure LigInv (l : Lookup) (lm : Nat) (c : Ctx) : Prop where
  inv : Inv c.buf
  succ : c.buf.successful = true
  props : c.lookupProps = l.props
  mask : c.lookupMask = lm
  nosyl : c.perSyllable = false
  level : c.buf.level ≠ 2
  noconcat : c.buf.flags &&& Gen.Buf.produceUnsafeToConcat = 0
  budget : c.buf.outLen + (inP c.buf).length ≤ c.buf.maxLen
  plain : ∀ y ∈ inP c.buf, Plain y ∧ y.gid < 65536
  feat : ∀ y ∈ outP c.buf ++ inP c.buf, FeatMask y
  mono : NonDecr (outP c.buf ++ inP c.buf) ∨ NonIncr (outP c.buf ++ inP c.buf)

theorem plain_setCluster (x : Info) (m : Nat) (h : Plain x ∧ x.gid < 65536) :
    Plain (setCluster x m 0) ∧ (setCluster x m 0).gid < 65536 := h

theorem featMask_setCluster (x : Info) (m : Nat) (h : FeatMask x) : FeatMask (setCluster x m 0) := by
  rw [setCluster_featMask x m h]; exact h

/-- skipping the current glyph (`next_glyph`) keeps the invariant and the logical sequence -/
theorem ligInv_next (hg : Gen.Buf.ensureGrowOnly = true) (l : Lookup) (lm : Nat) (c : Ctx) (h : LigInv l lm c) (x : Info)
    (R : List Info) (hin : inP c.buf = x :: R) :
    ∃ b1, c.buf.nextGlyph = .ok b1 ∧ LigInv l lm { c with buf := b1 } ∧
      outP b1 ++ inP b1 = outP c.buf ++ inP c.buf ∧ b1.outLen = c.buf.outLen + 1 ∧ b1.maxLen = c.buf.maxLen ∧
      b1.outLen + (inP b1).length = c.buf.outLen + (inP c.buf).length := by
  have hbud := h.budget
  rw [hin] at hbud
  simp only [List.length_cons] at hbud
  obtain ⟨b1, hrun, hinv1, ho1, hi1, hsu1, hml1⟩ := nextGlyph_parts c.buf h.inv hg x R hin (by omega)
  have hcfg := nextGlyph_cfg hrun
  have hseq : outP b1 ++ inP b1 = outP c.buf ++ inP c.buf := by rw [ho1, hi1, hin]; simp
  have hol : b1.outLen = c.buf.outLen + 1 := by
    have := outP_length b1 hinv1
    rw [ho1] at this
    simp [outP_length c.buf h.inv] at this
    omega
  refine ⟨b1, hrun, ⟨hinv1, by rw [hsu1]; exact h.succ, h.props, h.mask, h.nosyl, by rw [hcfg.1]; exact h.level,
    by rw [hcfg.2]; exact h.noconcat, ?_, ?_, by rw [hseq]; exact h.feat, by rw [hseq]; exact h.mono⟩, hseq, hol, hml1, ?_⟩
  · show b1.outLen + (inP b1).length ≤ b1.maxLen
    rw [hol, hi1, hml1]; omega
  · intro y hy
    show Plain y ∧ y.gid < 65536
    rw [show inP ({ c with buf := b1 } : Ctx).buf = inP b1 from rfl, hi1] at hy
    exact h.plain y (by rw [hin]; exact List.mem_cons_of_mem _ hy)
  · rw [hol, hi1, hin]; simp; omega

theorem applyForward_lig (l : Lookup) (hall : l.subtables.all Subtable.isLigatureSt = true) (hshort : LigsShort l.subtables)
    (hp : NoSkipFlags l.props) (hg : Gen.Buf.ensureGrowOnly = true) (hguard : Gen.Buf.extendStartGuard = 1)
    (level : Nat) (hlv : level ≠ 2) (lm : Nat) :
    ∀ (fuel : Nat) (c : Ctx), LigInv l lm c →
      ∃ b', applyForward l fuel c = .ok { c with buf := b' } ∧ Inv b' ∧ b'.successful = true ∧ b'.maxLen = c.buf.maxLen ∧
        b'.outLen + (inP b').length ≤ c.buf.outLen + (inP c.buf).length ∧
        (outP b' ++ inP b').map projG
          = applyLookupFwd c.font level l lm fuel ((outP c.buf ++ inP c.buf).map projG) c.buf.outLen := by
  intro fuel
  induction fuel with
  | zero =>
    intro c h
    exact ⟨c.buf, rfl, h.inv, h.succ, rfl, Nat.le_refl _, rfl⟩
  | succ fuel ih =>
    intro c h
    have hol := outP_length c.buf h.inv
    have hcases : inP c.buf = [] ∨ ∃ x R, inP c.buf = x :: R := by
      cases inP c.buf with
      | nil => exact Or.inl rfl
      | cons x R => exact Or.inr ⟨x, R, rfl⟩
    rcases hcases with hin | ⟨x, R, hin⟩
    · have hl := inP_length c.buf h.inv
      rw [hin] at hl
      simp at hl
      have hc : ¬ (c.buf.idx < c.buf.len) := by omega
      refine ⟨c.buf, ?_, h.inv, h.succ, rfl, Nat.le_refl _, ?_⟩
      · simp [applyForward, hc]; rfl
      · have hnone : ((outP c.buf ++ []).map projG)[c.buf.outLen]? = none := by
          apply List.getElem?_eq_none; simp [hol]
        rw [hin]
        simp only [applyLookupFwd, hnone]
    · obtain ⟨hcur, hx⟩ := inP_head c.buf h.inv x R hin
      have hget : Mem.get c.buf.info c.buf.idx = .ok x := by unfold Mem.get; rw [hx]; rfl
      have hc2 : (decide (c.buf.idx < c.buf.len) && c.buf.successful) = true := by simp [hcur, h.succ]
      have hgs : ((outP c.buf ++ inP c.buf).map projG)[c.buf.outLen]? = some (projG x) := by
        rw [hin, List.getElem?_map, List.getElem?_append_right (by omega), hol]; simp
      have hchk : checkGlyphProperty c.font x c.lookupProps = true := by
        rw [h.props]; exact checkGlyphProperty_noSkip c.font x l.props hp
      have hign : ignored c.font l.props (projG x) = false := ignored_noSkip c.font l.props _ hp
      have hxm : (projG x).mask = x.mask := rfl
      -- the two ways the scan moves on without substituting
      have hskip : (∀ b1, c.buf.nextGlyph = .ok b1 → applyForward l (fuel + 1) c = applyForward l fuel { c with buf := b1 }) →
          applyLookupFwd c.font level l lm (fuel + 1) ((outP c.buf ++ inP c.buf).map projG) c.buf.outLen
            = applyLookupFwd c.font level l lm fuel ((outP c.buf ++ inP c.buf).map projG) (c.buf.outLen + 1) →
          ∃ b', applyForward l (fuel + 1) c = .ok { c with buf := b' } ∧ Inv b' ∧ b'.successful = true ∧
            b'.maxLen = c.buf.maxLen ∧ b'.outLen + (inP b').length ≤ c.buf.outLen + (inP c.buf).length ∧
            (outP b' ++ inP b').map projG
              = applyLookupFwd c.font level l lm (fuel + 1) ((outP c.buf ++ inP c.buf).map projG) c.buf.outLen := by
        intro hm hs
        obtain ⟨b1, hrun, hI1, hseq, hol1, hml1, hbud1⟩ := ligInv_next hg l lm c h x R hin
        obtain ⟨b', hres, hinv', hsu', hml', hbud', hout'⟩ := ih { c with buf := b1 } hI1
        refine ⟨b', by rw [hm b1 hrun]; exact hres, hinv', hsu', by rw [hml']; exact hml1, ?_, ?_⟩
        · have : b1.outLen + (inP b1).length = c.buf.outLen + (inP c.buf).length := hbud1
          exact Nat.le_trans hbud' (Nat.le_of_eq this)
        · rw [hout', hs]
          show applyLookupFwd c.font level l lm fuel ((outP b1 ++ inP b1).map projG) b1.outLen = _
          rw [hseq, hol1]
      by_cases hen : (x.mask &&& lm != 0) = true
      · have hctx : LigCtx c x R :=
          ⟨h.inv, hin, fun y hy => (h.plain y (by rw [hin]; exact hy)).1, by rw [h.props]; exact hp, h.nosyl, h.level,
            h.noconcat, by have := h.budget; rw [hin] at this; simp at this; omega⟩
        have happ := applySubtables_ligature hg hguard (recurseAt MAX_NESTING_LEVEL) true c x R hctx l.subtables hall hshort
        have hxg : x.gid < 65536 := (h.plain x (by rw [hin]; exact List.mem_cons_self)).2
        have hRg : ∀ y ∈ R, y.gid < 65536 := fun y hy => (h.plain y (by rw [hin]; exact List.mem_cons_of_mem _ hy)).2
        rw [h.mask, ligFor?_proj lm x R hxg hRg l.subtables] at happ
        have hdrop : ((outP c.buf ++ inP c.buf).map projG).drop (c.buf.outLen + 1) = R.map projG := by
          rw [hin, List.map_append, List.map_cons]
          exact drop_succ_append _ _ _ _ (by simp [hol])
        have hspecF := firstSubtable_ligature c.font level l.props lm hp _ c.buf.outLen (projG x) hgs l.subtables hall
        rw [hdrop] at hspecF
        cases hsel : ligForG? lm l.subtables (projG x) (R.map projG) with
        | none =>
          rw [hsel] at happ hspecF
          simp only [] at happ
          apply hskip
          · intro b1 hb1
            simp only [applyForward, hc2, if_true, bind, Except.bind, hget, h.mask, hen, hchk, Bool.and_self, applyTop,
              happ, Bool.false_eq_true, if_false, hb1]
          · simp only [applyLookupFwd, hgs, hxm, hen, hign, Bool.not_false, Bool.and_self, if_true, hspecF, Option.map_none]
        | some p =>
          rw [hsel] at happ hspecF
          simp only [Option.map_some] at happ hspecF
          obtain ⟨b1, O1, x1, T1, y, hres, hinv1, hrel, hO1, hy, ho1, hi1, hcfg⟩ := happ
          have hrelL := mergeRel_length hrel
          have hfeatL : ∀ z ∈ outP c.buf ++ inP c.buf, FeatMask z := h.feat
          have hgs1 := mergeRel_spec _ _ c.buf.outLen p.1.length level hrel h.mono hfeatL hlv
          have hres2 := ligResult_eq level ((outP c.buf ++ inP c.buf).map projG) c.buf.outLen (projG x) p.1 p.2 O1 T1 x1 y
            hgs1 hO1 hy
          have hol1 : b1.outLen = c.buf.outLen + 1 := by
            have := outP_length b1 hinv1
            rw [ho1] at this
            simp [hO1] at this
            omega
          have hseq1 : outP b1 ++ inP b1 = O1 ++ [{ y with gid := p.2 }] ++ T1.drop p.1.length := by rw [ho1, hi1]
          have hT1l : T1.length = R.length := by
            rw [hin] at hrelL
            simp [hO1, hol] at hrelL
            omega
          have hOl : O1.length = (outP c.buf).length := by rw [hO1, hol]
          -- the invariant after the step
          have hplain1 : ∀ z ∈ x1 :: T1, Plain z ∧ z.gid < 65536 :=
            mergeRel_right hrel hOl (fun z => Plain z ∧ z.gid < 65536) (fun z m hz => plain_setCluster z m hz) h.plain
          have hfeatO : ∀ z ∈ O1, FeatMask z :=
            mergeRel_left hrel hOl FeatMask (fun z m hz => featMask_setCluster z m hz)
              (fun z hz => h.feat z (List.mem_append_left _ hz))
          have hfeatI : ∀ z ∈ x1 :: T1, FeatMask z :=
            mergeRel_right hrel hOl FeatMask (fun z m hz => featMask_setCluster z m hz)
              (fun z hz => h.feat z (List.mem_append_right _ hz))
          have hym : y.mask = x1.mask := by
            have := congrArg G.mask hy; exact this
          have hyc : y.cluster = x1.cluster := by
            have := congrArg G.cluster hy; exact this
          have hI1 : LigInv l lm { c with buf := b1 } := by
            refine ⟨hinv1, by rw [hcfg.1]; exact h.succ, h.props, h.mask, h.nosyl, by rw [hcfg.2.2.1]; exact h.level,
              by rw [hcfg.2.2.2]; exact h.noconcat, ?_, ?_, ?_, ?_⟩
            · show b1.outLen + (inP b1).length ≤ b1.maxLen
              have := h.budget
              rw [hin] at this
              simp only [List.length_cons] at this
              rw [hol1, hi1, hcfg.2.1, List.length_drop]
              omega
            · intro z hz
              have hz' : z ∈ T1.drop p.1.length := by rw [← hi1]; exact hz
              exact hplain1 z (List.mem_cons_of_mem _ (List.mem_of_mem_drop hz'))
            · intro z hz
              have hz' : z ∈ O1 ++ [{ y with gid := p.2 }] ++ T1.drop p.1.length := by rw [← hseq1]; exact hz
              simp only [List.mem_append, List.mem_singleton] at hz'
              rcases hz' with (hz' | hz') | hz'
              · exact hfeatO z hz'
              · rw [hz']
                show ({ y with gid := p.2 } : Info).mask &&& (U32MAX - Flag.DEFINED) = ({ y with gid := p.2 } : Info).mask
                show y.mask &&& (U32MAX - Flag.DEFINED) = y.mask
                rw [hym]; exact hfeatI x1 (List.mem_cons_self)
              · exact hfeatI z (List.mem_cons_of_mem _ (List.mem_of_mem_drop hz'))
            · show NonDecr (outP b1 ++ inP b1) ∨ NonIncr (outP b1 ++ inP b1)
              rw [hseq1, List.append_assoc, List.singleton_append]
              exact mono_removed O1 T1 x1 { y with gid := p.2 } p.1.length hyc (mergeRel_mono hrel h.mono)
          obtain ⟨b', hres', hinv', hsu', hml', hbud', hout'⟩ := ih { c with buf := b1 } hI1
          refine ⟨b', ?_, hinv', hsu', by rw [hml']; exact hcfg.2.1, ?_, ?_⟩
          · have henc : (x.mask &&& c.lookupMask != 0) = true := by rw [h.mask]; exact hen
            simp only [applyForward, hc2, if_true, bind, Except.bind, hget, henc, hchk, Bool.and_self, applyTop,
              hres]
            exact hres'
          · have h1 : b1.outLen + (inP b1).length ≤ c.buf.outLen + (inP c.buf).length := by
              rw [hol1, hi1, hin, List.length_drop]; simp only [List.length_cons]; omega
            exact Nat.le_trans hbud' h1
          · rw [hout']
            simp only [applyLookupFwd, hgs, hxm, hen, hign, Bool.not_false, Bool.and_self, if_true, hspecF, hres2]
            rw [Nat.max_eq_left (by omega)]
            show applyLookupFwd c.font level l lm fuel ((outP b1 ++ inP b1).map projG) b1.outLen = _
            rw [hseq1, hol1]
      · have hen' : (x.mask &&& lm != 0) = false := by simpa using hen
        apply hskip
        · intro b1 hb1
          simp only [applyForward, hc2, if_true, bind, Except.bind, hget, h.mask, hen', Bool.false_and, Bool.false_eq_true,
            if_false, hb1]
        · simp only [applyLookupFwd, hgs, hxm, hen', Bool.false_and, Bool.false_eq_true, if_false]

theorem ligature_not_reverse (l : Lookup) (hall : l.subtables.all Subtable.isLigatureSt = true) : l.reverse = false := by
  unfold Lookup.reverse
  cases hs : l.subtables with
  | nil => simp
  | cons st rest =>
    rw [hs] at hall
    simp only [List.all_cons, Bool.and_eq_true] at hall
    have : st.isReverse = false := by
      cases st <;> simp [Subtable.isLigatureSt] at hall <;> rfl
    simp [this]

theorem applyLookupFwd_mask0 (f : Font) (level : Nat) (l : Lookup) : ∀ (fuel : Nat) (gs : List G) (i : Nat),
    applyLookupFwd f level l 0 fuel gs i = gs := by
  intro fuel
  induction fuel with
  | zero => intro gs i; rfl
  | succ fuel ih =>
    intro gs i
    unfold applyLookupFwd
    cases gs[i]? with
    | none => rfl
    | some g => simp only [Nat.and_zero, bne_self_eq_false, Bool.false_and, Bool.false_eq_true, if_false]; exact ih gs (i + 1)

theorem applyLookupFwd_nil (f : Font) (level : Nat) (l : Lookup) (lm fuel i : Nat) :
    applyLookupFwd f level l lm fuel [] i = [] := by
  cases fuel with
  | zero => rfl
  | succ k => simp [applyLookupFwd]

/-- **`apply_string` of a lookup made of ligature subtables** on the Spec's domain -/
theorem applyString_lig (l : Lookup) (hall : l.subtables.all Subtable.isLigatureSt = true) (hshort : LigsShort l.subtables)
    (hp : NoSkipFlags l.props) (hg : Gen.Buf.ensureGrowOnly = true) (hguard : Gen.Buf.extendStartGuard = 1)
    (c : Ctx) (fuel : Nat) (hps : c.perSyllable = false) (hlv : c.buf.level ≠ 2)
    (hfl : c.buf.flags &&& Gen.Buf.produceUnsafeToConcat = 0)
    (hsu : c.buf.successful = true) (hlen : c.buf.len ≤ c.buf.info.length) (hout : c.buf.out.length = c.buf.info.length)
    (hbud : c.buf.len ≤ c.buf.maxLen)
    (hplain : ∀ x ∈ c.buf.info.take c.buf.len, Plain x ∧ x.gid < 65536)
    (hfeat : ∀ x ∈ c.buf.info.take c.buf.len, FeatMask x)
    (hmono : NonDecr (c.buf.info.take c.buf.len) ∨ NonIncr (c.buf.info.take c.buf.len)) :
    ∃ c', applyString c l fuel = .ok c' ∧ c'.buf.successful = true ∧ c'.buf.len ≤ c'.buf.info.length ∧
      (c'.buf.info.take c'.buf.len).map projG
        = applyLookupFwd c.font c.buf.level l c.lookupMask fuel ((c.buf.info.take c.buf.len).map projG) 0 := by
  unfold applyString
  by_cases h0 : (c.buf.len == 0 || c.lookupMask == 0) = true
  · simp only [h0, if_true, pure, Except.pure]
    have h0' : c.buf.len = 0 ∨ c.lookupMask = 0 := by simpa using h0
    refine ⟨c, rfl, hsu, hlen, ?_⟩
    rcases h0' with h | h
    · rw [h]; simp [applyLookupFwd_nil]
    · rw [h, applyLookupFwd_mask0]
  · simp only [h0, Bool.false_eq_true, if_false, ligature_not_reverse l hall, Bool.not_false, if_true]
    have hinv0 : Inv ({ c.buf.clearOutput with idx := 0 } : Buf) :=
      ⟨Nat.zero_le _, by simpa [clearOutput] using hlen, by simpa [clearOutput] using hout,
        by simp [clearOutput], by simp [clearOutput], by simp [clearOutput]⟩
    have hin0 : inP ({ c.buf.clearOutput with idx := 0 } : Buf) = c.buf.info.take c.buf.len := by
      simp [inP, clearOutput]
    have hout0 : outP ({ c.buf.clearOutput with idx := 0 } : Buf) = [] := by
      simp [outP, clearOutput]
    have hI0 : LigInv l c.lookupMask { c with lookupProps := l.props, buf := { c.buf.clearOutput with idx := 0 } } := by
      refine ⟨hinv0, by simpa [clearOutput] using hsu, rfl, rfl, hps, by simpa [clearOutput] using hlv,
        by simpa [clearOutput] using hfl, ?_, ?_, ?_, ?_⟩
      · show ({ c.buf.clearOutput with idx := 0 } : Buf).outLen + (inP ({ c.buf.clearOutput with idx := 0 } : Buf)).length
            ≤ ({ c.buf.clearOutput with idx := 0 } : Buf).maxLen
        rw [hin0]; simp [clearOutput]; omega
      · intro y hy
        have hy' : y ∈ inP ({ c.buf.clearOutput with idx := 0 } : Buf) := hy
        rw [hin0] at hy'; exact hplain y hy'
      · intro y hy
        have hy' : y ∈ outP ({ c.buf.clearOutput with idx := 0 } : Buf) ++ inP ({ c.buf.clearOutput with idx := 0 } : Buf) := hy
        rw [hout0, hin0, List.nil_append] at hy'; exact hfeat y hy'
      · show NonDecr (outP ({ c.buf.clearOutput with idx := 0 } : Buf) ++ inP ({ c.buf.clearOutput with idx := 0 } : Buf)) ∨
            NonIncr (outP ({ c.buf.clearOutput with idx := 0 } : Buf) ++ inP ({ c.buf.clearOutput with idx := 0 } : Buf))
        rw [hout0, hin0, List.nil_append]; exact hmono
    obtain ⟨b', hres, hinv', hsu', hml', hbud', hout'⟩ :=
      applyForward_lig l hall hshort hp hg hguard c.buf.level hlv c.lookupMask fuel _ hI0
    have htot : total b' ≤ b'.maxLen := by
      have h2 := inP_length b' hinv'
      have h3 : ({ c.buf.clearOutput with idx := 0 } : Buf).outLen
          + (inP ({ c.buf.clearOutput with idx := 0 } : Buf)).length ≤ c.buf.maxLen := by
        rw [hin0]; simp [clearOutput]; omega
      have h4 : b'.maxLen = c.buf.maxLen := by rw [hml']; rfl
      have h5 : b'.outLen + (inP b').length ≤ ({ c.buf.clearOutput with idx := 0 } : Buf).outLen
          + (inP ({ c.buf.clearOutput with idx := 0 } : Buf)).length := hbud'
      unfold total
      omega
    obtain ⟨b'', hsync, hsu'', _, hle'', htake⟩ := sync_parts b' hinv' hg hsu' htot
    simp only [bind, Except.bind, hres, hsync, pure, Except.pure]
    refine ⟨_, rfl, hsu'', hle'', ?_⟩
    show (b''.info.take b''.len).map projG = _
    rw [htake, hout']
    show applyLookupFwd c.font c.buf.level l c.lookupMask fuel
        ((outP ({ c.buf.clearOutput with idx := 0 } : Buf) ++ inP ({ c.buf.clearOutput with idx := 0 } : Buf)).map projG)
        ({ c.buf.clearOutput with idx := 0 } : Buf).outLen = _
    rw [hout0, hin0, List.nil_append]
    rfl

/-! ### a lookup with one subtable -/

theorem applySubtables_singleton (recurse : Ctx → Nat → M (Ctx × Bool)) (full : Bool) (c : Ctx) (st : Subtable) :
    applySubtables recurse full c [st] = applySubtable recurse full c st := by
  simp only [applySubtables, bind, Except.bind]
  cases applySubtable recurse full c st with
  | error e => rfl
  | ok r =>
    obtain ⟨c', ok⟩ := r
    cases ok <;> rfl

theorem firstSubtable_singleton (f : Font) (level props lm : Nat) (gs : List G) (i : Nat) (st : Subtable) :
    firstSubtable f level props lm gs i [st] = applySubtableAt f level props lm st gs i := by
  simp only [firstSubtable]
  cases applySubtableAt f level props lm st gs i <;> rfl

/-! ### decidable forms of the hypotheses (for the non-vacuity examples) -/

instance (x : Info) : Decidable (Plain x) := by unfold Plain; exact inferInstance
instance (x : Info) : Decidable (FeatMask x) := by unfold FeatMask; exact inferInstance

theorem nonDecr_of_pairwise (L : List Info) (h : (L.map (·.cluster)).Pairwise (· ≤ ·)) : NonDecr L := by
  intro i j a b hij ha hb
  have hi := cl?_some_lt ha
  have hj := cl?_some_lt hb
  rw [cl?_lt hi] at ha
  rw [cl?_lt hj] at hb
  cases ha; cases hb
  by_cases hije : i = j
  · subst hije; exact Nat.le_refl _
  · have := List.pairwise_iff_getElem.1 h i j (by simpa using hi) (by simpa using hj) (by omega)
    simpa using this

theorem nonIncr_of_pairwise (L : List Info) (h : (L.map (·.cluster)).Pairwise (· ≥ ·)) : NonIncr L := by
  intro i j a b hij ha hb
  have hi := cl?_some_lt ha
  have hj := cl?_some_lt hb
  rw [cl?_lt hi] at ha
  rw [cl?_lt hj] at hb
  cases ha; cases hb
  by_cases hije : i = j
  · subst hije; exact Nat.le_refl _
  · have := List.pairwise_iff_getElem.1 h i j (by simpa using hi) (by simpa using hj) (by omega)
    simpa using this

end RbModel.Gsub
