/-
  `ligate_input` on the pair (out-part, in-part) of the buffer when the matched components are consecutive and carry no
  ligature ids: `merge_clusters` over the component span, the first component is replaced by the ligature glyph
  (`replace_glyph`), the other components are skipped.  The ligature-id / component bookkeeping (lig props of the ligature
  glyph, `set_glyph_class`) only touches `var1` / `var2` of the ligature glyph; the mark re-attachment loops have nothing
  to do.  Nothing panics; the only guard is the length budget of `replace_glyph`.
-/
import RbModel.Lemmas.GsubLigMerge

namespace RbModel.Buf
open RbModel.Mem

/-! ### the fields no primitive of this path touches -/

/-- success flag, length budget, cluster level and buffer flags are unchanged -/
def SameCfg (b b' : Buf) : Prop :=
  b'.successful = b.successful ∧ b'.maxLen = b.maxLen ∧ b'.level = b.level ∧ b'.flags = b.flags

theorem SameCfg.refl (b : Buf) : SameCfg b b := ⟨rfl, rfl, rfl, rfl⟩
theorem SameCfg.trans {a b c : Buf} (h1 : SameCfg a b) (h2 : SameCfg b c) : SameCfg a c :=
  ⟨h2.1.trans h1.1, h2.2.1.trans h1.2.1, h2.2.2.1.trans h1.2.2.1, h2.2.2.2.trans h1.2.2.2⟩

theorem ensure_cfg (b : Buf) (n : Nat) : (b.ensure n).1.level = b.level ∧ (b.ensure n).1.flags = b.flags := by
  unfold ensure
  split
  · exact ⟨rfl, rfl⟩
  · split
    · exact ⟨rfl, rfl⟩
    · split <;> exact ⟨rfl, rfl⟩

theorem makeRoomFor_cfg {b b' : Buf} {i o : Nat} {ok : Bool} (h : b.makeRoomFor i o = .ok (b', ok)) :
    b'.level = b.level ∧ b'.flags = b.flags := by
  have he := ensure_cfg b (b.outLen + o)
  unfold makeRoomFor at h
  rcases hen : b.ensure (b.outLen + o) with ⟨b1, ok1⟩
  rw [hen] at h he
  simp only [bind, Except.bind, pure, Except.pure] at h he
  split at h
  · cases h; exact he
  · split at h
    · split at h
      · cases h
      · cases hcp : copyAcross b1.info b1.out 0 0 b1.outLen 0 with
        | error e => simp [hcp] at h
        | ok o => simp [hcp] at h; obtain ⟨h1, _⟩ := h; subst h1; exact he
    · cases h; exact he

theorem setOut_cfg {b b' : Buf} {i : Nat} {x : Info} (h : b.setOut i x = .ok b') :
    b'.level = b.level ∧ b'.flags = b.flags := by
  unfold setOut at h
  cases hp : put b.outArr i x with
  | error e => simp [hp, bind, Except.bind] at h
  | ok l =>
    simp only [hp, bind, Except.bind, pure, Except.pure] at h
    cases h
    unfold setOutArr
    split <;> exact ⟨rfl, rfl⟩

theorem nextGlyph_cfg {b b' : Buf} (h : b.nextGlyph = .ok b') : b'.level = b.level ∧ b'.flags = b.flags := by
  unfold nextGlyph at h
  split at h
  · split at h
    · cases hm : b.makeRoomFor 1 1 with
      | error e => simp [hm, bind, Except.bind] at h
      | ok r =>
        rcases r with ⟨b1, ok⟩
        have h1 := makeRoomFor_cfg hm
        simp only [hm, bind, Except.bind, pure, Except.pure] at h
        split at h
        · cases h; exact h1
        · cases hg : get b1.info b1.idx with
          | error e => simp [hg] at h
          | ok x =>
            simp only [hg] at h
            cases hs : b1.setOut b1.outLen x with
            | error e => simp [hs] at h
            | ok b2 =>
              have h2 := setOut_cfg hs
              simp only [hs] at h
              cases h
              exact ⟨h2.1.trans h1.1, h2.2.trans h1.2⟩
    · cases h; exact ⟨rfl, rfl⟩
  · cases h; exact ⟨rfl, rfl⟩

theorem replaceGlyph_cfg {b b' : Buf} {g : Nat} (h : b.replaceGlyph g = .ok b') : b'.level = b.level ∧ b'.flags = b.flags := by
  unfold replaceGlyph at h
  have tail : ∀ (b1 : Buf), (b1.level = b.level ∧ b1.flags = b.flags) →
      (do let x ← get b1.outArr b1.outLen
          let b ← b1.setOut b1.outLen { x with gid := g }
          (pure { b with idx := b.idx + 1, outLen := b.outLen + 1 } : M Buf)) = .ok b' →
      b'.level = b.level ∧ b'.flags = b.flags := by
    intro b1 h1 ht
    cases hg : get b1.outArr b1.outLen with
    | error e => simp [hg, bind, Except.bind] at ht
    | ok x =>
      simp only [hg, bind, Except.bind] at ht
      cases hs : b1.setOut b1.outLen { x with gid := g } with
      | error e => simp [hs] at ht
      | ok b2 =>
        have h2 := setOut_cfg hs
        simp only [hs, pure, Except.pure] at ht
        cases ht
        exact ⟨h2.1.trans h1.1, h2.2.trans h1.2⟩
  split at h
  · cases hm : b.makeRoomFor 1 1 with
    | error e => simp [hm, bind, Except.bind] at h
    | ok r =>
      rcases r with ⟨b1, ok⟩
      have h1 := makeRoomFor_cfg hm
      simp only [hm, bind, Except.bind, pure, Except.pure] at h
      split at h
      · cases h; exact h1
      · cases hg : get b1.info b1.idx with
        | error e => simp [hg] at h
        | ok x =>
          simp only [hg] at h
          cases hs : b1.setOut b1.outLen x with
          | error e => simp [hs] at h
          | ok b2 =>
            have h2 := setOut_cfg hs
            simp only [hs] at h
            refine tail b2 ⟨h2.1.trans h1.1, h2.2.trans h1.2⟩ ?_
            simp only [bind, Except.bind, pure, Except.pure]
            exact h
  · exact tail b ⟨rfl, rfl⟩ h

end RbModel.Buf

namespace RbModel.Buf

/-! ### a merge rewrites clusters (and, through `set_cluster`, masks) only -/

theorem IsMerge.get_cases {L L' : List Info} {S E m : Nat} (h : IsMerge L L' S E m) (q : Nat) (x' : Info)
    (hx' : L'[q]? = some x') : ∃ x, L[q]? = some x ∧ (x' = x ∨ x' = setCluster x m 0) := by
  by_cases hz : Zone L S E q
  · rw [h.inz q hz] at hx'
    cases hx : L[q]? with
    | none => rw [hx] at hx'; cases hx'
    | some x => rw [hx] at hx'; simp only [Option.map_some, Option.some.injEq] at hx'; exact ⟨x, rfl, Or.inr hx'.symm⟩
  · rw [h.outz q hz] at hx'
    exact ⟨x', hx', Or.inl rfl⟩

theorem IsMerge.forall_right {A B A' B' : List Info} {S E m : Nat} (h : IsMerge (A ++ B) (A' ++ B') S E m)
    (hl : A'.length = A.length) (Pr : Info → Prop) (hPr : ∀ x, Pr x → Pr (setCluster x m 0)) (hB : ∀ y ∈ B, Pr y) :
    ∀ y ∈ B', Pr y := by
  intro y hy
  obtain ⟨j, hj⟩ := List.mem_iff_getElem?.1 hy
  have h1 : (A' ++ B')[A'.length + j]? = some y := by
    rw [List.getElem?_append_right (by omega)]; simpa using hj
  obtain ⟨x, hx, hc⟩ := h.get_cases _ _ h1
  rw [hl, List.getElem?_append_right (by omega)] at hx
  have hxB : x ∈ B := List.mem_of_getElem? (by simpa using hx)
  rcases hc with rfl | rfl
  · exact hB _ hxB
  · exact hPr _ (hB _ hxB)

theorem IsMerge.forall_left {A B A' B' : List Info} {S E m : Nat} (h : IsMerge (A ++ B) (A' ++ B') S E m)
    (hl : A'.length = A.length) (Pr : Info → Prop) (hPr : ∀ x, Pr x → Pr (setCluster x m 0)) (hA : ∀ y ∈ A, Pr y) :
    ∀ y ∈ A', Pr y := by
  intro y hy
  obtain ⟨j, hj⟩ := List.mem_iff_getElem?.1 hy
  have hjl : j < A'.length := by
    by_cases hc : j < A'.length
    · exact hc
    · rw [List.getElem?_eq_none (by omega)] at hj; cases hj
  have h1 : (A' ++ B')[j]? = some y := by
    rw [List.getElem?_append_left hjl]; exact hj
  obtain ⟨x, hx, hc⟩ := h.get_cases _ _ h1
  rw [List.getElem?_append_left (by omega)] at hx
  have hxA : x ∈ A := List.mem_of_getElem? hx
  rcases hc with rfl | rfl
  · exact hA _ hxA
  · exact hPr _ (hA _ hxA)

end RbModel.Buf

namespace RbModel.Gsub
open RbModel RbModel.Buf RbModel.Mem

/-! ### the loops of `ligate_input` -/

theorem advance_noop (isLig : Bool) (lid : Nat) (b : Buf) (target lnc csf fuel : Nat) (h : ¬ b.idx < target) :
    ligateInput.advance isLig lid b target lnc csf fuel = .ok b := by
  cases fuel with
  | zero => rfl
  | succ k =>
    have : (decide (b.idx < target) && b.successful) = false := by simp [h]
    simp only [ligateInput.advance, this, Bool.false_eq_true, if_false]; rfl

/-- the scan that classifies the ligature (base / mark / ligature) only reads glyphs at the matched positions -/
theorem scan_ok (P : List Nat) (c : Ctx) : ∀ (k i : Nat) (ib im : Bool),
    (∀ t, t < k → ∃ p, P[i + t]? = some p ∧ p < c.buf.info.length) →
    ∃ r, ligateInput.scan P c ib im i k = .ok r := by
  intro k
  induction k with
  | zero => intro i ib im _; exact ⟨_, rfl⟩
  | succ k ih =>
    intro i ib im h
    obtain ⟨p, hp, hpl⟩ := h 0 (by omega)
    rw [Nat.add_zero] at hp
    have hrest : ∀ t, t < k → ∃ p, P[i + 1 + t]? = some p ∧ p < c.buf.info.length := by
      intro t ht
      have := h (t + 1) (by omega)
      rwa [show i + (t + 1) = i + 1 + t by omega] at this
    simp only [ligateInput.scan, hp, bind, Except.bind, pure, Except.pure, get_ok hpl]
    by_cases hm : isMark c.buf.info[p] = true
    · simp only [hm, Bool.not_true, Bool.false_eq_true, if_false]; exact ih (i + 1) ib im hrest
    · simp only [hm, Bool.not_false, if_true]; exact ih (i + 1) false false hrest

/-- the component loop over consecutive positions: no mark lies between two components, so `advance` has nothing to
    do and every component is skipped (`buffer.idx += 1`); components without a ligature id leave `last_lig_id = 0` -/
theorem comps_plain (P : List Nat) (isLig : Bool) (lid : Nat) :
    ∀ (k i : Nat) (b : Buf) (T R : List Info) (lnc csf : Nat),
      Inv b → inP b = T ++ R → T.length = k → (∀ t, t < k → P[i + t]? = some (b.idx + t)) → (∀ y ∈ T, ligId y = 0) →
      ∃ b' lnc' csf', ligateInput.comps P isLig lid b i 0 lnc csf k = .ok (b', 0, lnc', csf') ∧ Inv b' ∧
        outP b' = outP b ∧ inP b' = R ∧ SameCfg b b' := by
  intro k
  induction k with
  | zero =>
    intro i b T R lnc csf hinv hin hT _ _
    have : T = [] := List.eq_nil_of_length_eq_zero hT
    subst this
    exact ⟨b, lnc, csf, rfl, hinv, rfl, by simpa using hin, SameCfg.refl b⟩
  | succ k ih =>
    intro i b T R lnc csf hinv hin hT hP hlig
    cases T with
    | nil => simp at hT
    | cons y T' =>
      simp only [List.length_cons, Nat.add_right_cancel_iff] at hT
      have hin' : inP b = y :: (T' ++ R) := by simpa using hin
      obtain ⟨hcur, hy⟩ := inP_head b hinv y (T' ++ R) hin'
      have hget : Mem.get b.info b.idx = .ok y := by unfold Mem.get; rw [hy]; rfl
      have hP0 : P[i]? = some b.idx := by simpa using hP 0 (by omega)
      have hy0 : ligId y = 0 := hlig y (List.mem_cons_self)
      obtain ⟨hinv2, ho2, hi2⟩ := skipGlyph_parts b hinv y (T' ++ R) hin'
      obtain ⟨b', lnc', csf', hrun, hinv', ho', hi', hcfg⟩ := ih (i + 1) b.skipGlyph T' R (ligNumComps y)
        ((csf + ligNumComps y) % 256) hinv2 hi2 hT
        (by
          intro t ht
          have := hP (t + 1) (by omega)
          rw [show i + (t + 1) = i + 1 + t by omega] at this
          rw [this]
          show some (b.idx + (t + 1)) = some (b.idx + 1 + t)
          congr 1; omega)
        (fun z hz => hlig z (List.mem_cons_of_mem _ hz))
      refine ⟨b', lnc', csf', ?_, hinv', by rw [ho', ho2], hi', ?_⟩
      · simp only [ligateInput.comps, hP0, bind, Except.bind, pure, Except.pure,
          advance_noop isLig lid b b.idx lnc csf (b.idx + 1) (Nat.lt_irrefl _), hget, hy0]
        exact hrun
      · exact SameCfg.trans ⟨rfl, rfl, rfl, rfl⟩ hcfg

end RbModel.Gsub
