/-
  `ligate_input` on the pair (out-part, in-part) of the buffer when the matched components are consecutive and carry no
  ligature ids: `merge_clusters` over the component span, the first component is replaced by the ligature glyph
  (`replace_glyph`), the other components are skipped.  The ligature-id / component bookkeeping (lig props of the ligature
  glyph, `set_glyph_class`) only touches `var1` / `var2` of the ligature glyph; the mark re-attachment loops have nothing
  to do.  Nothing panics; the only guard is the length budget of `replace_glyph`.
-/
import RbModel.Lemmas.GsubLigMerge

namespace RbModel.Buf
open RbModel.Mem

/-! ### the fields no primitive of this path touches -/

/-- success flag, length budget, cluster level and buffer flags are unchanged -/
def SameCfg (b b' : Buf) : Prop :=
  b'.successful = b.successful ∧ b'.maxLen = b.maxLen ∧ b'.level = b.level ∧ b'.flags = b.flags

theorem SameCfg.refl (b : Buf) : SameCfg b b := ⟨rfl, rfl, rfl, rfl⟩
theorem SameCfg.trans {a b c : Buf} (h1 : SameCfg a b) (h2 : SameCfg b c) : SameCfg a c :=
  ⟨h2.1.trans h1.1, h2.2.1.trans h1.2.1, h2.2.2.1.trans h1.2.2.1, h2.2.2.2.trans h1.2.2.2⟩

theorem ensure_cfg (b : Buf) (n : Nat) : (b.ensure n).1.level = b.level ∧ (b.ensure n).1.flags = b.flags := by
  unfold ensure
  split
  · exact ⟨rfl, rfl⟩
  · split
    · exact ⟨rfl, rfl⟩
    · split <;> exact ⟨rfl, rfl⟩

theorem makeRoomFor_cfg {b b' : Buf} {i o : Nat} {ok : Bool} (h : b.makeRoomFor i o = .ok (b', ok)) :
    b'.level = b.level ∧ b'.flags = b.flags := by
  have he := ensure_cfg b (b.outLen + o)
  unfold makeRoomFor at h
  rcases hen : b.ensure (b.outLen + o) with ⟨b1, ok1⟩
  rw [hen] at h he
  simp only [bind, Except.bind, pure, Except.pure] at h he
  split at h
  · cases h; exact he
  · split at h
    · split at h
      · cases h
      · cases hcp : copyAcross b1.info b1.out 0 0 b1.outLen 0 with
        | error e => simp [hcp] at h
        | ok o => simp [hcp] at h; obtain ⟨h1, _⟩ := h; subst h1; exact he
    · cases h; exact he

theorem setOut_cfg {b b' : Buf} {i : Nat} {x : Info} (h : b.setOut i x = .ok b') :
    b'.level = b.level ∧ b'.flags = b.flags := by
  unfold setOut at h
  cases hp : put b.outArr i x with
  | error e => simp [hp, bind, Except.bind] at h
  | ok l =>
    simp only [hp, bind, Except.bind, pure, Except.pure] at h
    cases h
    unfold setOutArr
    split <;> exact ⟨rfl, rfl⟩

theorem nextGlyph_cfg {b b' : Buf} (h : b.nextGlyph = .ok b') : b'.level = b.level ∧ b'.flags = b.flags := by
  unfold nextGlyph at h
  split at h
  · split at h
    · cases hm : b.makeRoomFor 1 1 with
      | error e => simp [hm, bind, Except.bind] at h
      | ok r =>
        rcases r with ⟨b1, ok⟩
        have h1 := makeRoomFor_cfg hm
        simp only [hm, bind, Except.bind, pure, Except.pure] at h
        split at h
        · cases h; exact h1
        · cases hg : get b1.info b1.idx with
          | error e => simp [hg] at h
          | ok x =>
            simp only [hg] at h
            cases hs : b1.setOut b1.outLen x with
            | error e => simp [hs] at h
            | ok b2 =>
              have h2 := setOut_cfg hs
              simp only [hs] at h
              cases h
              exact ⟨h2.1.trans h1.1, h2.2.trans h1.2⟩
    · cases h; exact ⟨rfl, rfl⟩
  · cases h; exact ⟨rfl, rfl⟩

theorem replaceGlyph_cfg {b b' : Buf} {g : Nat} (h : b.replaceGlyph g = .ok b') : b'.level = b.level ∧ b'.flags = b.flags := by
  unfold replaceGlyph at h
  have tail : ∀ (b1 : Buf), (b1.level = b.level ∧ b1.flags = b.flags) →
      (do let x ← get b1.outArr b1.outLen
          let b ← b1.setOut b1.outLen { x with gid := g }
          (pure { b with idx := b.idx + 1, outLen := b.outLen + 1 } : M Buf)) = .ok b' →
      b'.level = b.level ∧ b'.flags = b.flags := by
    intro b1 h1 ht
    cases hg : get b1.outArr b1.outLen with
    | error e => simp [hg, bind, Except.bind] at ht
    | ok x =>
      simp only [hg, bind, Except.bind] at ht
      cases hs : b1.setOut b1.outLen { x with gid := g } with
      | error e => simp [hs] at ht
      | ok b2 =>
        have h2 := setOut_cfg hs
        simp only [hs, pure, Except.pure] at ht
        cases ht
        exact ⟨h2.1.trans h1.1, h2.2.trans h1.2⟩
  split at h
  · cases hm : b.makeRoomFor 1 1 with
    | error e => simp [hm, bind, Except.bind] at h
    | ok r =>
      rcases r with ⟨b1, ok⟩
      have h1 := makeRoomFor_cfg hm
      simp only [hm, bind, Except.bind, pure, Except.pure] at h
      split at h
      · cases h; exact h1
      · cases hg : get b1.info b1.idx with
        | error e => simp [hg] at h
        | ok x =>
          simp only [hg] at h
          cases hs : b1.setOut b1.outLen x with
          | error e => simp [hs] at h
          | ok b2 =>
            have h2 := setOut_cfg hs
            simp only [hs] at h
            refine tail b2 ⟨h2.1.trans h1.1, h2.2.trans h1.2⟩ ?_
            simp only [bind, Except.bind, pure, Except.pure]
            exact h
  · exact tail b ⟨rfl, rfl⟩ h

end RbModel.Buf

namespace RbModel.Buf

/-! ### a merge rewrites clusters (and, through `set_cluster`, masks) only -/

theorem IsMerge.get_cases {L L' : List Info} {S E m : Nat} (h : IsMerge L L' S E m) (q : Nat) (x' : Info)
    (hx' : L'[q]? = some x') : ∃ x, L[q]? = some x ∧ (x' = x ∨ x' = setCluster x m 0) := by
  by_cases hz : Zone L S E q
  · rw [h.inz q hz] at hx'
    cases hx : L[q]? with
    | none => rw [hx] at hx'; cases hx'
    | some x => rw [hx] at hx'; simp only [Option.map_some, Option.some.injEq] at hx'; exact ⟨x, rfl, Or.inr hx'.symm⟩
  · rw [h.outz q hz] at hx'
    exact ⟨x', hx', Or.inl rfl⟩

theorem IsMerge.forall_right {A B A' B' : List Info} {S E m : Nat} (h : IsMerge (A ++ B) (A' ++ B') S E m)
    (hl : A'.length = A.length) (Pr : Info → Prop) (hPr : ∀ x, Pr x → Pr (setCluster x m 0)) (hB : ∀ y ∈ B, Pr y) :
    ∀ y ∈ B', Pr y := by
  intro y hy
  obtain ⟨j, hj⟩ := List.mem_iff_getElem?.1 hy
  have h1 : (A' ++ B')[A'.length + j]? = some y := by
    rw [List.getElem?_append_right (by omega)]; simpa using hj
  obtain ⟨x, hx, hc⟩ := h.get_cases _ _ h1
  rw [hl, List.getElem?_append_right (by omega)] at hx
  have hxB : x ∈ B := List.mem_of_getElem? (by simpa using hx)
  rcases hc with rfl | rfl
  · exact hB _ hxB
  · exact hPr _ (hB _ hxB)

theorem IsMerge.forall_left {A B A' B' : List Info} {S E m : Nat} (h : IsMerge (A ++ B) (A' ++ B') S E m)
    (hl : A'.length = A.length) (Pr : Info → Prop) (hPr : ∀ x, Pr x → Pr (setCluster x m 0)) (hA : ∀ y ∈ A, Pr y) :
    ∀ y ∈ A', Pr y := by
  intro y hy
  obtain ⟨j, hj⟩ := List.mem_iff_getElem?.1 hy
  have hjl : j < A'.length := by
    by_cases hc : j < A'.length
    · exact hc
    · rw [List.getElem?_eq_none (by omega)] at hj; cases hj
  have h1 : (A' ++ B')[j]? = some y := by
    rw [List.getElem?_append_left hjl]; exact hj
  obtain ⟨x, hx, hc⟩ := h.get_cases _ _ h1
  rw [List.getElem?_append_left (by omega)] at hx
  have hxA : x ∈ A := List.mem_of_getElem? hx
  rcases hc with rfl | rfl
  · exact hA _ hxA
  · exact hPr _ (hA _ hxA)

end RbModel.Buf

namespace RbModel.Gsub
open RbModel RbModel.Buf RbModel.Mem

/-! ### the loops of `ligate_input` -/

theorem advance_noop (isLig : Bool) (lid : Nat) (b : Buf) (target lnc csf fuel : Nat) (h : ¬ b.idx < target) :
    ligateInput.advance isLig lid b target lnc csf fuel = .ok b := by
  cases fuel with
  | zero => rfl
  | succ k =>
    have : (decide (b.idx < target) && b.successful) = false := by simp [h]
    simp only [ligateInput.advance, this, Bool.false_eq_true, if_false]; rfl

/-- the scan that classifies the ligature (base / mark / ligature) only reads glyphs at the matched positions -/
theorem scan_ok (P : List Nat) (c : Ctx) : ∀ (k i : Nat) (ib im : Bool),
    (∀ t, t < k → ∃ p, P[i + t]? = some p ∧ p < c.buf.info.length) →
    ∃ r, ligateInput.scan P c ib im i k = .ok r := by
  intro k
  induction k with
  | zero => intro i ib im _; exact ⟨_, rfl⟩
  | succ k ih =>
    intro i ib im h
    obtain ⟨p, hp, hpl⟩ := h 0 (by omega)
    rw [Nat.add_zero] at hp
    have hrest : ∀ t, t < k → ∃ p, P[i + 1 + t]? = some p ∧ p < c.buf.info.length := by
      intro t ht
      have := h (t + 1) (by omega)
      rwa [show i + (t + 1) = i + 1 + t by omega] at this
    simp only [ligateInput.scan, hp, bind, Except.bind, pure, Except.pure, get_ok hpl]
    by_cases hm : isMark c.buf.info[p] = true
    · simp only [hm, Bool.not_true, Bool.false_eq_true, if_false]; exact ih (i + 1) ib im hrest
    · simp only [hm, Bool.not_false, if_true]; exact ih (i + 1) false false hrest

/-- the component loop over consecutive positions: no mark lies between two components, so `advance` has nothing to
    do and every component is skipped (`buffer.idx += 1`); components without a ligature id leave `last_lig_id = 0` -/
theorem comps_plain (P : List Nat) (isLig : Bool) (lid : Nat) :
    ∀ (k i : Nat) (b : Buf) (T R : List Info) (lnc csf : Nat),
      Inv b → inP b = T ++ R → T.length = k → (∀ t, t < k → P[i + t]? = some (b.idx + t)) → (∀ y ∈ T, ligId y = 0) →
      ∃ b' lnc' csf', ligateInput.comps P isLig lid b i 0 lnc csf k = .ok (b', 0, lnc', csf') ∧ Inv b' ∧
        outP b' = outP b ∧ inP b' = R ∧ SameCfg b b' := by
  intro k
  induction k with
  | zero =>
    intro i b T R lnc csf hinv hin hT _ _
    have : T = [] := List.eq_nil_of_length_eq_zero hT
    subst this
    exact ⟨b, lnc, csf, rfl, hinv, rfl, by simpa using hin, SameCfg.refl b⟩
  | succ k ih =>
    intro i b T R lnc csf hinv hin hT hP hlig
    cases T with
    | nil => simp at hT
    | cons y T' =>
      simp only [List.length_cons, Nat.add_right_cancel_iff] at hT
      have hin' : inP b = y :: (T' ++ R) := by simpa using hin
      obtain ⟨hcur, hy⟩ := inP_head b hinv y (T' ++ R) hin'
      have hget : Mem.get b.info b.idx = .ok y := by unfold Mem.get; rw [hy]; rfl
      have hP0 : P[i]? = some b.idx := by simpa using hP 0 (by omega)
      have hy0 : ligId y = 0 := hlig y (List.mem_cons_self)
      obtain ⟨hinv2, ho2, hi2⟩ := skipGlyph_parts b hinv y (T' ++ R) hin'
      obtain ⟨b', lnc', csf', hrun, hinv', ho', hi', hcfg⟩ := ih (i + 1) b.skipGlyph T' R (ligNumComps y)
        ((csf + ligNumComps y) % 256) hinv2 hi2 hT
        (by
          intro t ht
          have := hP (t + 1) (by omega)
          rw [show i + (t + 1) = i + 1 + t by omega] at this
          rw [this]
          show some (b.idx + (t + 1)) = some (b.idx + 1 + t)
          congr 1; omega)
        (fun z hz => hlig z (List.mem_cons_of_mem _ hz))
      refine ⟨b', lnc', csf', ?_, hinv', by rw [ho', ho2], hi', ?_⟩
      · simp only [ligateInput.comps, hP0, bind, Except.bind, pure, Except.pure,
          advance_noop isLig lid b b.idx lnc csf (b.idx + 1) (Nat.lt_irrefl _), hget, hy0]
        exact hrun
      · exact SameCfg.trans ⟨rfl, rfl, rfl, rfl⟩ hcfg

/-- the tail of `ligate_input` from `replace_glyph_with_ligature` on: class bookkeeping on the first component,
    `replace_glyph`, then the component loop -/
theorem ligTail (hg : Gen.Buf.ensureGrowOnly = true) (c2 : Ctx) (P : List Nat) (isLig : Bool) (lid lig cls n : Nat)
    (x2 : Info) (T : List Info) (l0 : Nat)
    (hinv : Inv c2.buf) (hin : inP c2.buf = x2 :: T) (hn : n ≤ T.length)
    (hP : ∀ j, 1 ≤ j → j ≤ n → P[j]? = some (c2.buf.idx + j))
    (hlig : ∀ y ∈ T, ligId y = 0) (hb : c2.buf.outLen + 1 ≤ c2.buf.maxLen) :
    ∃ b3 b4 b5 y lnc csf, setGlyphClass c2 lig cls true false = .ok { c2 with buf := b3 } ∧
      b3.replaceGlyph lig = .ok b4 ∧
      ligateInput.comps P isLig lid b4 1 0 l0 l0 n = .ok (b5, 0, lnc, csf) ∧ Inv b5 ∧ projG y = projG x2 ∧
      outP b5 = outP c2.buf ++ [{ y with gid := lig }] ∧ inP b5 = T.drop n ∧ SameCfg c2.buf b5 := by
  obtain ⟨hcur, hx⟩ := inP_head c2.buf hinv x2 T hin
  obtain ⟨np, hrun2⟩ := setGlyphClass_put c2 lig cls true false x2 hx
  obtain ⟨hinv3, ho3, hi3, _, hsu3, hml3, hol3⟩ := putCur_ctx c2.buf hinv x2 (setGlyphProps x2 np) T hin rfl
  obtain ⟨b4, hrun4, hinv4, ho4, hi4, hsu4, hml4⟩ :=
    replaceGlyph_parts _ lig hinv3 hg (setGlyphProps x2 np) T hi3 (by simpa using hb)
  obtain ⟨b4', hrun4', _, _, hidx4, _⟩ := replaceGlyph_ok _ lig hinv3 (by simpa using hcur) hg (by simpa using hb)
  have hbb : b4' = b4 := by
    have := hrun4'.symm.trans hrun4
    cases this; rfl
  subst hbb
  have hcfg4 := replaceGlyph_cfg hrun4
  have hT : T = T.take n ++ T.drop n := (List.take_append_drop n T).symm
  obtain ⟨b5, lnc, csf, hrun5, hinv5, ho5, hi5, hcfg5⟩ := comps_plain P isLig lid n 1 b4' (T.take n) (T.drop n) l0 l0 hinv4
    (by rw [hi4]; exact hT) (by simp; omega)
    (by
      intro t ht
      rw [hP (1 + t) (by omega) (by omega), hidx4]
      show some (c2.buf.idx + (1 + t)) = some (c2.buf.idx + 1 + t)
      congr 1; omega)
    (fun z hz => hlig z (List.mem_of_mem_take hz))
  refine ⟨_, b4', b5, setGlyphProps x2 np, lnc, csf, hrun2, hrun4, hrun5, hinv5, rfl, ?_, hi5, ?_⟩
  · rw [ho5, ho4, ho3]
  · refine SameCfg.trans ⟨?_, ?_, ?_, ?_⟩ hcfg5
    · rw [hsu4]
    · rw [hml4]
    · rw [hcfg4.1]
    · rw [hcfg4.2]

theorem ligProps_setCluster (x : Info) (m : Nat) : ligProps (setCluster x m 0) = ligProps x := rfl

/-- **`ligate_input` over consecutive plain components** on the pair (out-part, in-part): the clusters of the span are
    merged (`IsMerge` on the logical sequence), the first component — now carrying the merged cluster — goes to the
    out-part with the ligature glyph id, the `n` other components disappear.  No panic; nothing else changes. -/
theorem ligateInput_parts (hg : Gen.Buf.ensureGrowOnly = true) (hguard : Gen.Buf.extendStartGuard = 1)
    (c : Ctx) (n : Nat) (hn : 1 ≤ n) (P : List Nat) (tc lig : Nat)
    (hinv : Inv c.buf) (hnl : n + 1 ≤ (inP c.buf).length)
    (hP : ∀ j, j ≤ n → P[j]? = some (c.buf.idx + j))
    (hlig : ∀ y ∈ inP c.buf, ligProps y = 0)
    (hlv : c.buf.level ≠ 2) (hb : c.buf.outLen + 1 ≤ c.buf.maxLen) :
    ∃ b' O1 x1 T1 m y, ligateInput c (n + 1) P (c.buf.idx + n + 1) tc lig = .ok { c with buf := b' } ∧ Inv b' ∧
      IsMerge (outP c.buf ++ inP c.buf) (O1 ++ x1 :: T1) c.buf.outLen (c.buf.outLen + (n + 1)) m ∧
      O1.length = c.buf.outLen ∧ projG y = projG x1 ∧
      outP b' = O1 ++ [{ y with gid := lig }] ∧ inP b' = T1.drop n ∧ SameCfg c.buf b' := by
  have hil := inP_length c.buf hinv
  have hidxle := hinv.idx_le
  have hlenle := hinv.len_le
  obtain ⟨b1, m, hmerge, hshape, hism⟩ := mergeClusters_isMerge c.buf c.buf.idx (c.buf.idx + n + 1) (WF.of_inv hinv)
    (Nat.le_refl _) (by omega) (by omega) hlv hguard
  have e0 : c.buf.idx + n + 1 - c.buf.idx = n + 1 := by omega
  rw [Nat.sub_self, Nat.add_zero, e0] at hism
  obtain ⟨hsh1, hsh2, hsh3⟩ := hshape
  have f1 : b1.idx = c.buf.idx := by rw [hsh1]
  have f2 : b1.len = c.buf.len := by rw [hsh1]
  have f3 : b1.outLen = c.buf.outLen := by rw [hsh1]
  have f4 : b1.sepOut = c.buf.sepOut := by rw [hsh1]
  have f5 : b1.haveOutput = c.buf.haveOutput := by rw [hsh1]
  have f6 : b1.successful = c.buf.successful := by rw [hsh1]
  have f7 : b1.maxLen = c.buf.maxLen := by rw [hsh1]
  have f8 : b1.level = c.buf.level := by rw [hsh1]
  have f9 : b1.flags = c.buf.flags := by rw [hsh1]
  have hinv1 : Inv b1 :=
    ⟨by rw [f1, f2]; exact hinv.idx_le, by rw [f2, hsh2]; exact hinv.len_le, by rw [hsh3, hsh2]; exact hinv.out_len,
      by intro h; rw [f4] at h; rw [f3, hsh3]; exact hinv.sep_ok h,
      by intro h; rw [f4] at h; rw [f3, f1]; exact hinv.nosep_ok h, by rw [f5]; exact hinv.have_out⟩
  have hview : lview c.buf = outP c.buf ++ inP c.buf := rfl
  have hview1 : lview b1 = outP b1 ++ inP b1 := rfl
  rw [hview, hview1] at hism
  have hol : (outP b1).length = (outP c.buf).length := by rw [outP_length b1 hinv1, outP_length c.buf hinv, f3]
  have hil1 : (inP b1).length = (inP c.buf).length := by rw [inP_length b1 hinv1, hil, f1, f2]
  have hlig1 : ∀ y ∈ inP b1, ligProps y = 0 :=
    hism.forall_right hol (fun y => ligProps y = 0) (fun x hx => by rw [ligProps_setCluster]; exact hx) hlig
  cases hin1 : inP b1 with
  | nil => rw [hin1] at hil1; simp at hil1; omega
  | cons x1 T1 =>
    rw [hin1] at hism hil1 hlig1
    simp only [List.length_cons] at hil1
    obtain ⟨hcur1, hx1⟩ := inP_head b1 hinv1 x1 T1 hin1
    have hget1 : Mem.get b1.info b1.idx = .ok x1 := by unfold Mem.get; rw [hx1]; rfl
    have hget1' : Mem.get b1.info c.buf.idx = .ok x1 := by rw [← f1]; exact hget1
    have hP0 : P[0]? = some c.buf.idx := by simpa using hP 0 (Nat.zero_le _)
    obtain ⟨r, hscan⟩ := scan_ok P { c with buf := b1 } n 1 (isBaseGlyph x1) (isMark x1) (by
      intro t ht
      refine ⟨c.buf.idx + (1 + t), hP (1 + t) (by omega), ?_⟩
      show c.buf.idx + (1 + t) < b1.info.length
      rw [hsh2]; omega)
    have hligT : ∀ y ∈ T1, ligId y = 0 := by
      intro y hy
      unfold ligId; rw [hlig1 y (List.mem_cons_of_mem _ hy)]
    have hlx1 : ligId x1 = 0 := by unfold ligId; rw [hlig1 x1 (List.mem_cons_self)]
    have hb1 : b1.outLen + 1 ≤ b1.maxLen := by rw [f3, f7]; exact hb
    have hcfg1 : SameCfg c.buf b1 := ⟨f6, f7, f8, f9⟩
    have hlt1 : b1.idx < b1.info.length := by have := hinv1.len_le; omega
    simp only [ligateInput, bind, Except.bind, hmerge, hP0, pure, Except.pure, hget1', Nat.add_sub_cancel, hscan, hget1, hlx1]
    generalize (if (!r.fst && !r.snd) = true then ligateInput.alloc b1.serial 16 else (b1.serial, 0)) = al
    generalize (!r.fst && !r.snd) = isLig
    cases isLig with
    | true =>
      simp only [if_true]
      generalize hf' : (if (genCat (setLigPropsForLigature x1 al.snd tc) == 12) = true then
          setGenCat (setLigPropsForLigature x1 al.snd tc) 7 else setLigPropsForLigature x1 al.snd tc) = f'
      have hpf : projG f' = projG x1 := by
        rw [← hf']; split <;> rfl
      have hinvs : Inv ({ b1 with serial := al.fst } : Buf) :=
        ⟨hinv1.idx_le, hinv1.len_le, hinv1.out_len, hinv1.sep_ok, hinv1.nosep_ok, hinv1.have_out⟩
      obtain ⟨hinv2, ho2, hi2⟩ := putCur_parts ({ b1 with serial := al.fst } : Buf) hinvs x1 f' T1 hin1
      obtain ⟨b3, b4, b5, y, lnc, csf, hr3, hr4, hr5, hinv5, hy, ho5, hi5, hcfg5⟩ :=
        ligTail hg { c with buf := { b1 with info := b1.info.set b1.idx f', serial := al.fst } } P true al.snd lig
          GP.LIGATURE n f' T1 (ligNumComps x1) hinv2 hi2 (by omega)
          (by intro j _ h2; rw [hP j h2]; show some (c.buf.idx + j) = some (b1.idx + j); rw [f1])
          hligT hb1
      refine ⟨b5, outP b1, x1, T1, m, y, ?_, hinv5, hism, by rw [hol, outP_length c.buf hinv], hy.trans hpf, ?_, hi5, ?_⟩
      · simp only [put_ok f' hlt1, hr3, hr4, hr5, bne_self_eq_false, Bool.and_false, Bool.false_eq_true, if_false]
      · rw [ho5]; show outP ({ b1 with info := b1.info.set b1.idx f', serial := al.fst } : Buf) ++ _ = _
        rw [ho2]; rfl
      · exact SameCfg.trans hcfg1 (SameCfg.trans ⟨rfl, rfl, rfl, rfl⟩ hcfg5)
    | false =>
      simp only [Bool.false_eq_true, if_false]
      have hinvs : Inv ({ b1 with serial := al.fst } : Buf) :=
        ⟨hinv1.idx_le, hinv1.len_le, hinv1.out_len, hinv1.sep_ok, hinv1.nosep_ok, hinv1.have_out⟩
      obtain ⟨b3, b4, b5, y, lnc, csf, hr3, hr4, hr5, hinv5, hy, ho5, hi5, hcfg5⟩ :=
        ligTail hg { c with buf := { b1 with serial := al.fst } } P false al.snd lig
          0 n x1 T1 (ligNumComps x1) hinvs hin1 (by omega)
          (by intro j _ h2; rw [hP j h2]; show some (c.buf.idx + j) = some (b1.idx + j); rw [f1])
          hligT hb1
      refine ⟨b5, outP b1, x1, T1, m, y, ?_, hinv5, hism, by rw [hol, outP_length c.buf hinv], hy, ?_, hi5, ?_⟩
      · simp only [hr3, hr4, hr5, bne_self_eq_false, Bool.and_false, Bool.false_eq_true, if_false]
      · rw [ho5]; rfl
      · exact SameCfg.trans hcfg1 (SameCfg.trans ⟨rfl, rfl, rfl, rfl⟩ hcfg5)

end RbModel.Gsub
