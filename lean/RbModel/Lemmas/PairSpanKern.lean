/-
  "The flagged span covers what was inspected" for pair kerning (`machine_kern` of kerning.rs and the copy of its loop in
  aat_layout_kerx_table.rs::apply_simple_kerning) — helper lemmas for the `C03_kern_*` / `C04_kern_*` / `C03_kerx_*` theorems.

  `kernStepFI` / `machineKernLoopFI` run the code of `kernStepF` / `machineKernLoopF` (PairFlag.lean) and additionally return one
  event per iteration that got as far as the skipping iterator: the left glyph `i`, every index the iterator READ, where it
  stopped (`stop` = the right glyph `j` when it found one, `unsafe_to` otherwise) and the kerning value applied.
  `*_erase`: forgetting the events gives the plain functions.
-/
import RbModel.Lemmas.PairSpan
import RbModel.Lemmas.Gpos
import RbModel.Lemmas.MatchSpanLocal

namespace RbModel.PairFlag
open RbModel RbModel.Gsub RbModel.GposFlag RbModel.Flags
open RbModel.Gpos (Pos Dir)

/-- one iteration of the kern loop that reached the iterator -/
structure KEvent where
  /-- the left glyph -/
  i : Nat
  /-- the indices the skipping iterator read (glyphs stepped over, and the glyph it stopped at) -/
  reads : List Nat
  /-- the iterator found a second glyph -/
  found : Bool
  /-- `found`: the right glyph `j` (`iter.index()`); else `unsafe_to` -/
  stop : Nat
  /-- the value `get_kerning(info[i].glyph_id, info[j].glyph_id)` (0 when not found) -/
  kern : Int
  deriving Repr

/-- `kernStepF` with the event -/
def kernStepFI (concatOnMiss : Bool) (f : Font) (kernMask : Nat) (horizontal crossStream : Bool)
    (kernOf : Nat → Nat → Int) (i : Nat) (b : Buf) (p : Array Pos) (fl : Bool) :
    RbModel.M ((Nat × Buf × Array Pos × Bool) × Option KEvent) :=
  match Mem.get b.info i with
  | .error e => .error e
  | .ok gi =>
    if gi.mask &&& kernMask = 0 then .ok ((i + 1, b, p, fl), none)
    else
      match It.new (kernCtx f b kernMask) i false with
      | .error e => .error e
      | .ok it =>
        match It.nextI it f b.info b.len with
        | .error e => .error e
        | .ok ((false, _, unsafeTo), rs) =>
          if concatOnMiss then
            match b.unsafeToConcat i (some unsafeTo) with
            | .error e => .error e
            | .ok b => .ok ((i + 1, b, p, fl), some ⟨i, rs, false, unsafeTo, 0⟩)
          else .ok ((i + 1, b, p, fl), some ⟨i, rs, false, unsafeTo, 0⟩)
        | .ok ((true, it, _), rs) =>
          let j := it.idx
          match Mem.get b.info j with
          | .error e => .error e
          | .ok gj =>
            let kern := kernOf gi.gid gj.gid
            if kern ≠ 0 then
              match liftG (Kern.kernPair p i j kern horizontal crossStream) with
              | .error e => .error e
              | .ok (p', f1) =>
                match b.unsafeToBreak i (some (j + 1)) with
                | .error e => .error e
                | .ok b => .ok ((j, b, p', fl || f1), some ⟨i, rs, true, j, kern⟩)
            else .ok ((j, b, p, fl), some ⟨i, rs, true, j, 0⟩)

theorem kernStepFI_erase (cm : Bool) (f : Font) (kernMask : Nat) (h cs : Bool) (kernOf : Nat → Nat → Int) (i : Nat) (b : Buf)
    (p : Array Pos) (fl : Bool) :
    (kernStepFI cm f kernMask h cs kernOf i b p fl).map (·.1) = kernStepF cm f kernMask h cs kernOf i b p fl := by
  unfold kernStepFI kernStepF
  cases Mem.get b.info i with
  | error e => rfl
  | ok gi =>
    simp only
    split
    · rfl
    · cases It.new (kernCtx f b kernMask) i false with
      | error e => rfl
      | ok it =>
        simp only
        rw [← It.nextI_erase]
        cases It.nextI it f b.info b.len with
        | error e => rfl
        | ok r =>
          obtain ⟨⟨fd, it2, u⟩, rs⟩ := r
          cases fd with
          | false =>
            simp only [Except.map]
            cases cm with
            | false => rfl
            | true =>
              simp only [if_true]
              cases b.unsafeToConcat i (some u) <;> rfl
          | true =>
            simp only [Except.map]
            cases Mem.get b.info it2.idx with
            | error e => rfl
            | ok gj =>
              simp only
              by_cases hk : kernOf gi.gid gj.gid ≠ 0
              · rw [if_pos hk, if_pos hk]
                cases liftG (Kern.kernPair p i it2.idx (kernOf gi.gid gj.gid) h cs) with
                | error e => rfl
                | ok r2 =>
                  obtain ⟨p', f1⟩ := r2
                  simp only
                  cases b.unsafeToBreak i (some (it2.idx + 1)) <;> rfl
              · rw [if_neg hk, if_neg hk]

/-- the loop with the list of events and the index at which it stopped -/
def machineKernLoopFI (cm : Bool) (f : Font) (kernMask : Nat) (horizontal crossStream : Bool)
    (kernOf : Nat → Nat → Int) : Nat → Nat → Buf → Array Pos → Bool → RbModel.M ((Buf × Array Pos × Bool) × List KEvent × Nat)
  | 0, i, b, p, fl => .ok ((b, p, fl), [], i)
  | fuel + 1, i, b, p, fl =>
    if i < b.len then
      match kernStepFI cm f kernMask horizontal crossStream kernOf i b p fl with
      | .error e => .error e
      | .ok ((i', b', p', fl'), ev) =>
        match machineKernLoopFI cm f kernMask horizontal crossStream kernOf fuel i' b' p' fl' with
        | .error e => .error e
        | .ok (r, evs, iEnd) => .ok (r, ev.toList ++ evs, iEnd)
    else .ok ((b, p, fl), [], i)

theorem machineKernLoopFI_erase (cm : Bool) (f : Font) (kernMask : Nat) (h cs : Bool) (kernOf : Nat → Nat → Int) :
    ∀ (fuel i : Nat) (b : Buf) (p : Array Pos) (fl : Bool),
      (machineKernLoopFI cm f kernMask h cs kernOf fuel i b p fl).map (·.1) =
      machineKernLoopF cm f kernMask h cs kernOf fuel i b p fl := by
  intro fuel
  induction fuel with
  | zero => intro i b p fl; rfl
  | succ n ih =>
    intro i b p fl
    unfold machineKernLoopFI machineKernLoopF
    split
    · rw [← kernStepFI_erase]
      cases kernStepFI cm f kernMask h cs kernOf i b p fl with
      | error e => rfl
      | ok r =>
        obtain ⟨⟨i', b', p', fl'⟩, ev⟩ := r
        simp only [Except.map]
        rw [← ih]
        cases machineKernLoopFI cm f kernMask h cs kernOf n i' b' p' fl' with
        | error e => rfl
        | ok r2 => rfl
    · rfl

/-! ### one iteration -/

/-- the iterator `machine_kern` builds -/
theorem kernIt_new (f : Font) (b : Buf) (kernMask i : Nat) :
    ∃ it, It.new (kernCtx f b kernMask) i false = .ok it ∧ it.idx = i ∧ it.bufLen = b.len := by
  cases hn : It.new (kernCtx f b kernMask) i false with
  | error e =>
    simp [It.new, kernCtx, bind, Except.bind, pure, Except.pure] at hn
  | ok it =>
    obtain ⟨h1, h2⟩ := It.new_ok hn
    exact ⟨it, rfl, h1, h2⟩

/-- what one iteration does, path by path.  `i < len`. -/
theorem kernStepFI_spec (cm : Bool) (f : Font) (kernMask : Nat) (h cs : Bool) (kernOf : Nat → Nat → Int) (i : Nat) (b : Buf)
    (p : Array Pos) (fl : Bool) (i' : Nat) (b' : Buf) (p' : Array Pos) (fl' : Bool) (ev : Option KEvent)
    (hs : kernStepFI cm f kernMask h cs kernOf i b p fl = .ok ((i', b', p', fl'), ev)) (hi : i < b.len) :
    ∃ gi, b.info[i]? = some gi ∧
    (ev = none → gi.mask &&& kernMask = 0 ∧ i' = i + 1 ∧ b' = b ∧ p' = p ∧ fl' = fl) ∧
    (∀ e, ev = some e → gi.mask &&& kernMask ≠ 0 ∧ e.i = i ∧
      (e.found = false → i' = i + 1 ∧ p' = p ∧ fl' = fl ∧ e.kern = 0 ∧ i < e.stop ∧ e.stop ≤ b.len ∧
        (∀ r ∈ e.reads, i < r ∧ r < e.stop) ∧
        (cm = true → b.unsafeToConcat i (some e.stop) = .ok b') ∧ (cm = false → b' = b)) ∧
      (e.found = true → i' = e.stop ∧ i < e.stop ∧ e.stop < b.len ∧ e.stop ∈ e.reads ∧
        (∀ r ∈ e.reads, i < r ∧ r ≤ e.stop) ∧
        ∃ gj, b.info[e.stop]? = some gj ∧ e.kern = kernOf gi.gid gj.gid ∧
          (e.kern = 0 → b' = b ∧ p' = p ∧ fl' = fl) ∧
          (e.kern ≠ 0 → ∃ f1, liftG (Kern.kernPair p i e.stop e.kern h cs) = .ok (p', f1) ∧ fl' = (fl || f1) ∧
            b.unsafeToBreak i (some (e.stop + 1)) = .ok b'))) := by
  unfold kernStepFI at hs
  cases hg : Mem.get b.info i with
  | error e => simp [hg] at hs
  | ok gi =>
    have hgi : b.info[i]? = some gi := by
      unfold Mem.get at hg
      split at hg
      · rename_i x hx; simp only [pure, Except.pure, Except.ok.injEq] at hg; rw [← hg]; exact hx
      · cases hg
    simp only [hg] at hs
    refine ⟨gi, hgi, ?_⟩
    split at hs
    · rename_i hm
      simp only [Except.ok.injEq, Prod.mk.injEq] at hs
      obtain ⟨⟨rfl, rfl, rfl, rfl⟩, rfl⟩ := hs
      exact ⟨fun _ => ⟨hm, rfl, rfl, rfl, rfl⟩, fun e he => by cases he⟩
    · rename_i hm
      obtain ⟨it, hn, n1, n2⟩ := kernIt_new f b kernMask i
      simp only [hn] at hs
      cases hx : It.nextI it f b.info b.len with
      | error e => simp [hx] at hs
      | ok r =>
        obtain ⟨⟨fd, it2, u⟩, rs⟩ := r
        obtain ⟨a1, a2, a3, a4, a5, a6⟩ := It.nextI_span _ _ _ _ _ _ _ _ hx
        rw [n1] at a2 a3 a4
        rw [n2] at a1 a3
        have hlt := a3 hi
        simp only [hx] at hs
        cases fd with
        | false =>
          have hu := a6 rfl
          have rd : ∀ r ∈ rs, i < r ∧ r < u := by
            intro r hr; have := a4 r hr; omega
          have hiu : i < u := by omega
          have hul : u ≤ b.len := by omega
          cases cm with
          | false =>
            simp only [Bool.false_eq_true, if_false, Except.ok.injEq, Prod.mk.injEq] at hs
            obtain ⟨⟨rfl, rfl, rfl, rfl⟩, rfl⟩ := hs
            refine ⟨(fun hc => by cases hc), ?_⟩
            intro e he; cases he
            exact ⟨hm, rfl, fun _ => ⟨rfl, rfl, rfl, rfl, hiu, hul, rd, (fun hc => by cases hc), fun _ => rfl⟩,
              fun hc => by cases hc⟩
          | true =>
            simp only [if_true] at hs
            cases hc : b.unsafeToConcat i (some u) with
            | error e => simp [hc] at hs
            | ok b2 =>
              simp only [hc, Except.ok.injEq, Prod.mk.injEq] at hs
              obtain ⟨⟨rfl, rfl, rfl, rfl⟩, rfl⟩ := hs
              refine ⟨(fun hc => by cases hc), ?_⟩
              intro e he; cases he
              exact ⟨hm, rfl, fun _ => ⟨rfl, rfl, rfl, rfl, hiu, hul, rd, fun _ => hc, fun hc => by cases hc⟩,
                fun hc => by cases hc⟩
        | true =>
          have hj := a5 rfl
          have hij : i < it2.idx := (a4 _ hj).1
          simp only at hs
          cases hg2 : Mem.get b.info it2.idx with
          | error e => simp [hg2] at hs
          | ok gj =>
            have hgj : b.info[it2.idx]? = some gj := by
              unfold Mem.get at hg2
              split at hg2
              · rename_i x hx; simp only [pure, Except.pure, Except.ok.injEq] at hg2; rw [← hg2]; exact hx
              · cases hg2
            simp only [hg2] at hs
            by_cases hk : kernOf gi.gid gj.gid ≠ 0
            · rw [if_pos hk] at hs
              cases hl : liftG (Kern.kernPair p i it2.idx (kernOf gi.gid gj.gid) h cs) with
              | error e => simp [hl] at hs
              | ok r2 =>
                obtain ⟨p2, f1⟩ := r2
                simp only [hl] at hs
                cases hb : b.unsafeToBreak i (some (it2.idx + 1)) with
                | error e => simp [hb] at hs
                | ok b2 =>
                  simp only [hb, Except.ok.injEq, Prod.mk.injEq] at hs
                  obtain ⟨⟨rfl, rfl, rfl, rfl⟩, rfl⟩ := hs
                  refine ⟨(fun hc => by cases hc), ?_⟩
                  intro e he; cases he
                  refine ⟨hm, rfl, (fun hc => by cases hc), fun _ => ⟨rfl, hij, hlt, hj, a4, gj, hgj, rfl, ?_, ?_⟩⟩
                  · intro h0; exact absurd h0 hk
                  · intro _; exact ⟨f1, hl, rfl, hb⟩
            · rw [if_neg hk] at hs
              simp only [Except.ok.injEq, Prod.mk.injEq] at hs
              obtain ⟨⟨rfl, rfl, rfl, rfl⟩, rfl⟩ := hs
              refine ⟨(fun hc => by cases hc), ?_⟩
              intro e he; cases he
              refine ⟨hm, rfl, (fun hc => by cases hc), fun _ => ⟨rfl, hij, hlt, hj, a4, gj, hgj, ?_, ?_, ?_⟩⟩
              · have : kernOf gi.gid gj.gid = 0 := by
                  rcases Decidable.em (kernOf gi.gid gj.gid = 0) with h0 | h0
                  · exact h0
                  · exact absurd h0 hk
                exact this.symm
              · intro _; exact ⟨rfl, rfl, rfl⟩
              · intro h0; exact absurd rfl h0


/-! ### the buffer through the loop -/

/-- what the kern loop needs of the buffer (and keeps): `len` within the Vec, cluster values are u32, clusters monotone over the
    buffer (what GPOS / kern see) -/
structure KInv (b : Buf) : Prop where
  hlen : b.len ≤ b.info.length
  hu32 : ∀ k x, k < b.len → b.info[k]? = some x → x.cluster ≤ U32MAX
  hmono : MonoRange b.info 0 b.len

/-- `b'` is `b` with flag bits ORed into masks (and the scratch flag): the only thing the flag setters do -/
def BufGrown (b b' : Buf) : Prop :=
  b' = { b with info := b'.info, scratch := b'.scratch } ∧ Grown b.info b'.info

theorem BufGrown.refl (b : Buf) : BufGrown b b := ⟨rfl, Grown.refl _⟩

theorem BufGrown.trans {a b c : Buf} (h1 : BufGrown a b) (h2 : BufGrown b c) : BufGrown a c := by
  refine ⟨?_, h1.2.trans h2.2⟩
  rw [h2.1, h1.1]

theorem BufGrown.len {b b' : Buf} (h : BufGrown b b') : b'.len = b.len := by rw [h.1]
theorem BufGrown.flags {b b' : Buf} (h : BufGrown b b') : b'.flags = b.flags := by rw [h.1]
theorem BufGrown.level {b b' : Buf} (h : BufGrown b b') : b'.level = b.level := by rw [h.1]
theorem BufGrown.idx {b b' : Buf} (h : BufGrown b b') : b'.idx = b.idx := by rw [h.1]

theorem KInv.of_grown {b b' : Buf} (h : BufGrown b b') (k : KInv b) : KInv b' := by
  have hl := h.len
  refine ⟨?_, ?_, ?_⟩
  · rw [hl, h.2.1]; exact k.hlen
  · intro j y hj hy
    rw [hl] at hj
    exact h.2.u32 (s := 0) (e := b.len) (fun j x _ a c => k.hu32 j x a c) j y (Nat.zero_le _) hj hy
  · rw [hl]; exact h.2.monoRange k.hmono

/-- one iteration only ORs flag bits into masks and moves `i` forward, staying within `len` -/
theorem kernStepFI_grown (cm : Bool) (f : Font) (kernMask : Nat) (h cs : Bool) (kernOf : Nat → Nat → Int) (i : Nat) (b : Buf)
    (p : Array Pos) (fl : Bool) (i' : Nat) (b' : Buf) (p' : Array Pos) (fl' : Bool) (ev : Option KEvent)
    (hs : kernStepFI cm f kernMask h cs kernOf i b p fl = .ok ((i', b', p', fl'), ev)) (hi : i < b.len) (k : KInv b) :
    BufGrown b b' ∧ i < i' ∧ i' ≤ b.len := by
  obtain ⟨gi, hgi, s1, s2⟩ := kernStepFI_spec cm f kernMask h cs kernOf i b p fl i' b' p' fl' ev hs hi
  cases ev with
  | none =>
    obtain ⟨_, rfl, rfl, _, _⟩ := s1 rfl
    exact ⟨BufGrown.refl _, by omega, by omega⟩
  | some e =>
    obtain ⟨_, _, t1, t2⟩ := s2 e rfl
    cases hf : e.found with
    | false =>
      obtain ⟨rfl, _, _, _, hiu, hul, _, c1, c2⟩ := t1 hf
      refine ⟨?_, by omega, by omega⟩
      cases cm with
      | false => rw [c2 rfl]; exact BufGrown.refl _
      | true =>
        obtain ⟨b2, hb2, hg, hb2'⟩ := unsafeToConcat_grown b i e.stop (Nat.le_of_lt hiu) hul k.hlen
        rw [c1 rfl] at hb2; cases hb2
        exact ⟨hb2', hg⟩
    | true =>
      obtain ⟨rfl, hij, hjl, _, _, gj, _, _, k0, k1⟩ := t2 hf
      refine ⟨?_, hij, by omega⟩
      by_cases hk : e.kern = 0
      · rw [(k0 hk).1]; exact BufGrown.refl _
      · obtain ⟨f1, _, _, hb⟩ := k1 hk
        obtain ⟨b2, hb2, hg, hb2'⟩ := unsafeToBreak_grown b i (e.stop + 1) hi (by omega) k.hlen
          (fun j x _ a c => k.hu32 j x a c)
        rw [hb] at hb2; cases hb2
        exact ⟨hb2', hg⟩

/-- **one kerned pair**: the flag call on a monotone buffer, glyph by glyph -/
theorem kernStepFI_break (b b' : Buf) (i j : Nat) (hb : b.unsafeToBreak i (some (j + 1)) = .ok b') (hij : i < j)
    (hj : j < b.len) (k : KInv b) :
    ∃ m, IsRangeMin b.info i (j + 1) m ∧
      Upd b.info b'.info i (j + 1) (neCl m) (orMask (Flag.UNSAFE_TO_BREAK ||| Flag.UNSAFE_TO_CONCAT)) ∧
      ∀ q, i ≤ q → q ≤ j → ∃ x, b.info[q]? = some x ∧ BreakFlagged b'.info q x m := by
  obtain ⟨b2, m, hb2, hmin, hupd, _⟩ := unsafeToBreak_mono b i (j + 1) (by omega) (by omega) k.hlen
    (fun q x _ a c => k.hu32 q x (by omega) c)
    (MonoRange.shrink (MonoRange.shrinkL k.hmono (Nat.zero_le i)) (by omega))
  rw [hb] at hb2; cases hb2
  refine ⟨m, hmin, hupd, ?_⟩
  intro q h1 h2
  have hql : q < b.info.length := by have := k.hlen; omega
  exact ⟨_, List.getElem?_eq_getElem hql, BreakFlagged.of_upd hupd (List.getElem?_eq_getElem hql) h1 (by omega)⟩

/-- what is known at the END of the loop about one event -/
def KEvent.Holds (cm : Bool) (b bF : Buf) (e : KEvent) : Prop :=
  e.i < b.len ∧
  (e.found = false → e.kern = 0 ∧ e.i < e.stop ∧ e.stop ≤ b.len ∧ (∀ r ∈ e.reads, e.i < r ∧ r < e.stop) ∧
    (cm = true → b.flags &&& Gen.Buf.produceUnsafeToConcat ≠ 0 →
      ∀ q x, e.i ≤ q → q < e.stop → b.info[q]? = some x →
        ∃ y, bF.info[q]? = some y ∧ y.cluster = x.cluster ∧ y.mask &&& Flag.UNSAFE_TO_CONCAT ≠ 0)) ∧
  (e.found = true → e.i < e.stop ∧ e.stop < b.len ∧ e.stop ∈ e.reads ∧ (∀ r ∈ e.reads, e.i < r ∧ r ≤ e.stop) ∧
    (e.kern ≠ 0 → ∃ m, IsRangeMin b.info e.i (e.stop + 1) m ∧
      ∀ q x, e.i ≤ q → q ≤ e.stop → b.info[q]? = some x → x.cluster ≠ m →
        ∃ y, bF.info[q]? = some y ∧ y.cluster = x.cluster ∧ y.mask &&& Flag.UNSAFE_TO_BREAK ≠ 0))

/-- an event that holds relative to a later buffer holds relative to an earlier one -/
theorem KEvent.Holds.of_grown {cm : Bool} {b b1 bF : Buf} {e : KEvent} (hg : BufGrown b b1) (h : e.Holds cm b1 bF) :
    e.Holds cm b bF := by
  obtain ⟨h0, h1, h2⟩ := h
  have hl := hg.len
  refine ⟨by omega, ?_, ?_⟩
  · intro hf
    obtain ⟨a0, a1, a2, a3, a4⟩ := h1 hf
    refine ⟨a0, a1, by omega, a3, ?_⟩
    intro hc hr q x q1 q2 hx
    obtain ⟨x1, hx1, hc1⟩ := hg.2.cluster hx
    obtain ⟨y, hy, hyc, hym⟩ := a4 hc (by rw [hg.flags]; exact hr) q x1 q1 q2 hx1
    exact ⟨y, hy, by rw [hyc, hc1], hym⟩
  · intro hf
    obtain ⟨a1, a2, a3, a4, a5⟩ := h2 hf
    refine ⟨a1, by omega, a3, a4, ?_⟩
    intro hk
    obtain ⟨m, hmin, hall⟩ := a5 hk
    refine ⟨m, hg.2.isRangeMin hmin, ?_⟩
    intro q x q1 q2 hx hne
    obtain ⟨x1, hx1, hc1⟩ := hg.2.cluster hx
    obtain ⟨y, hy, hyc, hym⟩ := hall q x1 q1 q2 hx1 (by rw [hc1]; exact hne)
    exact ⟨y, hy, by rw [hyc, hc1], hym⟩

/-- **the whole loop**: masks only grow; the loop runs to the end of the buffer when the fuel exceeds `len - i`; every event
    holds at the end -/
theorem machineKernLoopFI_spec (cm : Bool) (f : Font) (kernMask : Nat) (h cs : Bool) (kernOf : Nat → Nat → Int) :
    ∀ (fuel i : Nat) (b : Buf) (p : Array Pos) (fl : Bool) (bF : Buf) (pF : Array Pos) (flF : Bool) (evs : List KEvent)
      (iEnd : Nat),
      machineKernLoopFI cm f kernMask h cs kernOf fuel i b p fl = .ok ((bF, pF, flF), evs, iEnd) → KInv b →
      BufGrown b bF ∧ i ≤ iEnd ∧ (b.len < i + fuel → b.len ≤ iEnd) ∧ ∀ e ∈ evs, i ≤ e.i ∧ e.Holds cm b bF := by
  intro fuel
  induction fuel with
  | zero =>
    intro i b p fl bF pF flF evs iEnd hr _
    simp only [machineKernLoopFI, Except.ok.injEq, Prod.mk.injEq] at hr
    obtain ⟨⟨rfl, _, _⟩, rfl, rfl⟩ := hr
    exact ⟨BufGrown.refl _, Nat.le_refl _, fun hc => by omega, fun e he => by cases he⟩
  | succ n ih =>
    intro i b p fl bF pF flF evs iEnd hr k
    unfold machineKernLoopFI at hr
    by_cases hi : i < b.len
    · simp only [hi, if_true] at hr
      cases hs : kernStepFI cm f kernMask h cs kernOf i b p fl with
      | error e => simp [hs] at hr
      | ok r =>
        obtain ⟨⟨i1, b1, p1, fl1⟩, ev⟩ := r
        simp only [hs] at hr
        cases hl : machineKernLoopFI cm f kernMask h cs kernOf n i1 b1 p1 fl1 with
        | error e => simp [hl] at hr
        | ok r2 =>
          obtain ⟨⟨b2, p2, fl2⟩, evs2, iE⟩ := r2
          simp only [hl, Except.ok.injEq, Prod.mk.injEq] at hr
          obtain ⟨⟨rfl, rfl, rfl⟩, rfl, rfl⟩ := hr
          obtain ⟨hg1, hii, hil⟩ := kernStepFI_grown cm f kernMask h cs kernOf i b p fl i1 b1 p1 fl1 ev hs hi k
          have k1 := KInv.of_grown hg1 k
          obtain ⟨hg2, hie, hend, hevs⟩ := ih i1 b1 p1 fl1 b2 p2 fl2 evs2 iE hl k1
          have hl1 := hg1.len
          refine ⟨hg1.trans hg2, by omega, fun hc => by have := hend (by omega); omega, ?_⟩
          intro e he
          rcases List.mem_append.mp he with he | he
          · -- the event of this iteration
            cases ev with
            | none => cases he
            | some e0 =>
              simp only [Option.toList, List.mem_singleton] at he
              subst he
              obtain ⟨gi, hgi, _, s2⟩ := kernStepFI_spec cm f kernMask h cs kernOf i b p fl i1 b1 p1 fl1 _ hs hi
              obtain ⟨_, hei, t1, t2⟩ := s2 e rfl
              refine ⟨by omega, by omega, ?_, ?_⟩
              · intro hf
                obtain ⟨_, _, _, hk0, hiu, hul, hrd, c1, _⟩ := t1 hf
                rw [hei]
                refine ⟨hk0, hiu, hul, hrd, ?_⟩
                intro hc hreq q x q1 q2 hx
                obtain ⟨b3, hb3, hu, _⟩ := unsafeToConcat_span b i e.stop hreq (Nat.le_of_lt hiu) hul k.hlen
                rw [c1 hc] at hb3; cases hb3
                have hcf := ConcatFlagged.of_upd hu hx q1 q2
                obtain ⟨y, hy, hyeq, hym⟩ := hcf
                obtain ⟨z, hz, hzc, hzm⟩ := hg2.2.bit hy Flag.UNSAFE_TO_CONCAT hym
                exact ⟨z, hz, by rw [hzc, hyeq]; rfl, hzm⟩
              · intro hf
                obtain ⟨_, hij, hjl, hjm, hrd, gj, _, _, _, k1'⟩ := t2 hf
                rw [hei]
                refine ⟨hij, hjl, hjm, hrd, ?_⟩
                intro hk
                obtain ⟨f1, _, _, hb⟩ := k1' hk
                obtain ⟨m, hmin, hupd, _⟩ := kernStepFI_break b b1 i e.stop hb hij hjl k
                refine ⟨m, hmin, ?_⟩
                intro q x q1 q2 hx hne
                obtain ⟨y, hy, hyeq, hor⟩ := BreakFlagged.of_upd hupd hx q1 (by omega)
                rcases hor with hor | hor
                · exact absurd hor hne
                · obtain ⟨z, hz, hzc, hzm⟩ := hg2.2.bit hy Flag.UNSAFE_TO_BREAK hor
                  refine ⟨z, hz, ?_, hzm⟩
                  rw [hzc, hyeq]; split <;> rfl
          · obtain ⟨h1, h2⟩ := hevs e he
            exact ⟨by omega, h2.of_grown hg1⟩
    · simp only [hi, if_false, Except.ok.injEq, Prod.mk.injEq] at hr
      obtain ⟨⟨rfl, _, _⟩, rfl, rfl⟩ := hr
      exact ⟨BufGrown.refl _, Nat.le_refl _, fun _ => by omega, fun e he => by cases he⟩



/-- **frame of the whole loop**: a glyph that is neither the left nor the right glyph of a pair with a non-zero value keeps its
    position; the position array keeps its size -/
theorem machineKernLoopFI_frame (cm : Bool) (f : Font) (kernMask : Nat) (h cs : Bool) (kernOf : Nat → Nat → Int) :
    ∀ (fuel i : Nat) (b : Buf) (p : Array Pos) (fl : Bool) (bF : Buf) (pF : Array Pos) (flF : Bool) (evs : List KEvent)
      (iEnd : Nat),
      machineKernLoopFI cm f kernMask h cs kernOf fuel i b p fl = .ok ((bF, pF, flF), evs, iEnd) →
      pF.size = p.size ∧
      ∀ q, (∀ e ∈ evs, e.found = true → e.kern ≠ 0 → q ≠ e.i ∧ q ≠ e.stop) → pF[q]? = p[q]? := by
  intro fuel
  induction fuel with
  | zero =>
    intro i b p fl bF pF flF evs iEnd hr
    simp only [machineKernLoopFI, Except.ok.injEq, Prod.mk.injEq] at hr
    obtain ⟨⟨_, rfl, _⟩, _, _⟩ := hr
    exact ⟨rfl, fun _ _ => rfl⟩
  | succ n ih =>
    intro i b p fl bF pF flF evs iEnd hr
    unfold machineKernLoopFI at hr
    by_cases hi : i < b.len
    · simp only [hi, if_true] at hr
      cases hs : kernStepFI cm f kernMask h cs kernOf i b p fl with
      | error e => simp [hs] at hr
      | ok r =>
        obtain ⟨⟨i1, b1, p1, fl1⟩, ev⟩ := r
        simp only [hs] at hr
        cases hl : machineKernLoopFI cm f kernMask h cs kernOf n i1 b1 p1 fl1 with
        | error e => simp [hl] at hr
        | ok r2 =>
          obtain ⟨⟨b2, p2, fl2⟩, evs2, iE⟩ := r2
          simp only [hl, Except.ok.injEq, Prod.mk.injEq] at hr
          obtain ⟨⟨rfl, rfl, rfl⟩, rfl, rfl⟩ := hr
          obtain ⟨hsz, hfr⟩ := ih i1 b1 p1 fl1 b2 p2 fl2 evs2 iE hl
          obtain ⟨gi, hgi, s1, s2⟩ := kernStepFI_spec cm f kernMask h cs kernOf i b p fl i1 b1 p1 fl1 ev hs hi
          -- the step itself
          have step : p1.size = p.size ∧ ∀ q, (∀ e ∈ ev.toList, e.found = true → e.kern ≠ 0 → q ≠ e.i ∧ q ≠ e.stop) →
              p1[q]? = p[q]? := by
            cases ev with
            | none => obtain ⟨_, _, _, rfl, _⟩ := s1 rfl; exact ⟨rfl, fun _ _ => rfl⟩
            | some e =>
              obtain ⟨_, hei, t1, t2⟩ := s2 e rfl
              cases hf : e.found with
              | false => obtain ⟨_, rfl, _⟩ := t1 hf; exact ⟨rfl, fun _ _ => rfl⟩
              | true =>
                obtain ⟨_, _, _, _, _, gj, _, _, k0, k1⟩ := t2 hf
                by_cases hk : e.kern = 0
                · obtain ⟨_, rfl, _⟩ := k0 hk; exact ⟨rfl, fun _ _ => rfl⟩
                · obtain ⟨f1, hlk, _, _⟩ := k1 hk
                  obtain ⟨z1, z2⟩ := Kern.kernPair_frame (liftG_ok _ _ hlk)
                  refine ⟨z1, fun q hq => ?_⟩
                  obtain ⟨q1, q2⟩ := hq e (by simp) hf hk
                  rw [hei] at q1
                  exact z2 q q1 q2
          refine ⟨by rw [hsz, step.1], fun q hq => ?_⟩
          rw [hfr q (fun e he => hq e (List.mem_append_right _ he)),
            step.2 q (fun e he => hq e (List.mem_append_left _ he))]
    · simp only [hi, if_false, Except.ok.injEq, Prod.mk.injEq] at hr
      obtain ⟨⟨_, rfl, _⟩, _, _⟩ := hr
      exact ⟨rfl, fun _ _ => rfl⟩


/-! ### the decision is local: it depends on the glyphs read and on nothing else -/

/-- the iterator `machine_kern` builds, written out -/
def kernIt (kernMask len i : Nat) : It :=
  { lookupProps := 8, ignoreZwnj := true, ignoreZwj := true, ignoreHidden := true, mask := kernMask, syllable := 0,
    bufLen := len, idx := i }

theorem kernIt_new_eq (f : Font) (b : Buf) (kernMask i : Nat) :
    It.new (kernCtx f b kernMask) i false = .ok (kernIt kernMask b.len i) := by
  simp [It.new, kernCtx, kernIt, bind, Except.bind, pure, Except.pure]

/-- the deciding part of one iteration: mask test, iterator, kerning value — no positions, no flags -/
def kernDecideI (f : Font) (kernMask : Nat) (kernOf : Nat → Nat → Int) (i : Nat) (info : List Info) (len : Nat) :
    RbModel.M (Option KEvent) :=
  match Mem.get info i with
  | .error e => .error e
  | .ok gi =>
    if gi.mask &&& kernMask = 0 then .ok none
    else
      match It.nextI (kernIt kernMask len i) f info len with
      | .error e => .error e
      | .ok ((false, _, unsafeTo), rs) => .ok (some ⟨i, rs, false, unsafeTo, 0⟩)
      | .ok ((true, it, _), rs) =>
        match Mem.get info it.idx with
        | .error e => .error e
        | .ok gj => .ok (some ⟨i, rs, true, it.idx, kernOf gi.gid gj.gid⟩)

/-- the event of an iteration is what `kernDecideI` decides -/
theorem kernStepFI_decide (cm : Bool) (f : Font) (kernMask : Nat) (h cs : Bool) (kernOf : Nat → Nat → Int) (i : Nat) (b : Buf)
    (p : Array Pos) (fl : Bool) (r : Nat × Buf × Array Pos × Bool) (ev : Option KEvent)
    (hs : kernStepFI cm f kernMask h cs kernOf i b p fl = .ok (r, ev)) :
    kernDecideI f kernMask kernOf i b.info b.len = .ok ev := by
  unfold kernStepFI at hs
  unfold kernDecideI
  cases hg : Mem.get b.info i with
  | error e => simp [hg] at hs
  | ok gi =>
    simp only [hg] at hs ⊢
    split at hs
    · rename_i hm
      simp only [Except.ok.injEq, Prod.mk.injEq] at hs
      rw [if_pos hm, hs.2]
    · rename_i hm
      rw [if_neg hm]
      rw [kernIt_new_eq] at hs
      simp only at hs
      cases hx : It.nextI (kernIt kernMask b.len i) f b.info b.len with
      | error e => simp [hx] at hs
      | ok r2 =>
        obtain ⟨⟨fd, it2, u⟩, rs⟩ := r2
        simp only [hx] at hs ⊢
        cases fd with
        | false =>
          simp only at hs ⊢
          cases cm with
          | false =>
            simp only [Bool.false_eq_true, if_false, Except.ok.injEq, Prod.mk.injEq] at hs
            rw [hs.2]
          | true =>
            simp only [if_true] at hs
            cases hc : b.unsafeToConcat i (some u) with
            | error e => simp [hc] at hs
            | ok b2 =>
              simp only [hc, Except.ok.injEq, Prod.mk.injEq] at hs
              rw [hs.2]
        | true =>
          simp only at hs ⊢
          cases hg2 : Mem.get b.info it2.idx with
          | error e => simp [hg2] at hs
          | ok gj =>
            simp only [hg2] at hs ⊢
            by_cases hk : kernOf gi.gid gj.gid ≠ 0
            · rw [if_pos hk] at hs
              cases hl : liftG (Kern.kernPair p i it2.idx (kernOf gi.gid gj.gid) h cs) with
              | error e => simp [hl] at hs
              | ok r3 =>
                obtain ⟨p2, f1⟩ := r3
                simp only [hl] at hs
                cases hb : b.unsafeToBreak i (some (it2.idx + 1)) with
                | error e => simp [hb] at hs
                | ok b2 =>
                  simp only [hb, Except.ok.injEq, Prod.mk.injEq] at hs
                  rw [hs.2]
            · rw [if_neg hk] at hs
              simp only [Except.ok.injEq, Prod.mk.injEq] at hs
              have h0 : kernOf gi.gid gj.gid = 0 := by
                rcases Decidable.em (kernOf gi.gid gj.gid = 0) with h0 | h0
                · exact h0
                · exact absurd h0 hk
              rw [← hs.2, h0]

/-- **the decision is local**: a glyph array of the same length that holds the same glyphs at `i` and at every index the
    iterator read gives the same decision -/
theorem kernDecideI_local (f : Font) (kernMask : Nat) (kernOf : Nat → Nat → Int) (i : Nat) (info1 info2 : List Info) (len : Nat)
    (ev : Option KEvent) (h1 : kernDecideI f kernMask kernOf i info1 len = .ok ev) (hi : info1[i]? = info2[i]?)
    (hag : ∀ e, ev = some e → ∀ r ∈ e.reads, info1[r]? = info2[r]?) :
    kernDecideI f kernMask kernOf i info2 len = .ok ev := by
  unfold kernDecideI at h1 ⊢
  rw [get_congr hi]
  cases hg : Mem.get info1 i with
  | error e => simp [hg] at h1
  | ok gi =>
    simp only [hg] at h1 ⊢
    split at h1
    · rename_i hm; rw [if_pos hm]; exact h1
    · rename_i hm
      rw [if_neg hm]
      cases hx : It.nextI (kernIt kernMask len i) f info1 len with
      | error e => simp [hx] at h1
      | ok r2 =>
        obtain ⟨⟨fd, it2, u⟩, rs⟩ := r2
        simp only [hx] at h1
        have hrs : ∀ r ∈ rs, info1[r]? = info2[r]? := by
          cases fd with
          | false =>
            simp only [Except.ok.injEq] at h1
            exact hag _ h1.symm
          | true =>
            simp only at h1
            cases hg2 : Mem.get info1 it2.idx with
            | error e => simp [hg2] at h1
            | ok gj =>
              simp only [hg2, Except.ok.injEq] at h1
              exact hag _ h1.symm
        rw [It.nextI_local f info1 info2 len _ _ _ hx hrs]
        cases fd with
        | false => exact h1
        | true =>
          simp only at h1 ⊢
          obtain ⟨_, _, _, _, a5, _⟩ := It.nextI_span _ _ _ _ _ _ _ _ hx
          rw [get_congr (hrs _ (a5 rfl))]
          exact h1

/-! ### the two entry points -/

/-- `machineKernF` with the events -/
def machineKernFI (f : Font) (b : Buf) (p : Array Pos) (kernMask : Nat) (d : Dir) (crossStream : Bool)
    (kernOf : Nat → Nat → Int) : RbModel.M ((Buf × Array Pos × Bool) × List KEvent × Nat) :=
  match b.unsafeToConcat 0 none with
  | .error e => .error e
  | .ok b => machineKernLoopFI false f kernMask d.isHorizontal crossStream kernOf (b.len + 1) 0 b p false

theorem machineKernFI_erase (f : Font) (b : Buf) (p : Array Pos) (kernMask : Nat) (d : Dir) (cs : Bool)
    (kernOf : Nat → Nat → Int) :
    (machineKernFI f b p kernMask d cs kernOf).map (·.1) = machineKernF f b p kernMask d cs kernOf := by
  unfold machineKernFI machineKernF
  cases b.unsafeToConcat 0 none with
  | error e => rfl
  | ok b0 => exact machineKernLoopFI_erase _ _ _ _ _ _ _ _ _ _ _

/-- `kerxSimpleF` with the events -/
def kerxSimpleFI (leadingConcat : Bool) (f : Font) (b : Buf) (p : Array Pos) (kernMask : Nat) (d : Dir) (crossStream : Bool)
    (kernOf : Nat → Nat → Int) : RbModel.M ((Buf × Array Pos × Bool) × List KEvent × Nat) :=
  match (if leadingConcat then b.unsafeToConcat 0 none else .ok b) with
  | .error e => .error e
  | .ok b => machineKernLoopFI true f kernMask d.isHorizontal crossStream kernOf (b.len + 1) 0 b p false

theorem kerxSimpleFI_erase (lc : Bool) (f : Font) (b : Buf) (p : Array Pos) (kernMask : Nat) (d : Dir) (cs : Bool)
    (kernOf : Nat → Nat → Int) :
    (kerxSimpleFI lc f b p kernMask d cs kernOf).map (·.1) = kerxSimpleF lc f b p kernMask d cs kernOf := by
  unfold kerxSimpleFI kerxSimpleF
  cases (if lc = true then b.unsafeToConcat 0 none else .ok b) with
  | error e => rfl
  | ok b0 => exact machineKernLoopFI_erase _ _ _ _ _ _ _ _ _ _ _

/-- `unsafe_to_concat(None, None)`: every glyph of the buffer gets UNSAFE_TO_CONCAT when the flag is requested -/
theorem leadingConcat_spec (b b0 : Buf) (h : b.unsafeToConcat 0 none = .ok b0) (hlen : b.len ≤ b.info.length) :
    BufGrown b b0 ∧ (b.flags &&& Gen.Buf.produceUnsafeToConcat ≠ 0 →
      ∀ q x, q < b.len → b.info[q]? = some x → ConcatFlagged b0.info q x) := by
  rw [unsafeToConcat_none] at h
  obtain ⟨b2, hb2, hg, hb2'⟩ := unsafeToConcat_grown b 0 b.len (Nat.zero_le _) (Nat.le_refl _) hlen
  rw [h] at hb2; cases hb2
  refine ⟨⟨hb2', hg⟩, ?_⟩
  intro hreq q x hq hx
  obtain ⟨b3, hb3, hu, _⟩ := unsafeToConcat_span b 0 b.len hreq (Nat.zero_le _) (Nat.le_refl _) hlen
  rw [h] at hb3; cases hb3
  exact ConcatFlagged.of_upd hu hx (Nat.zero_le _) hq

/-- cross-stream kerning moves only the right glyph (`pos[j].y_offset = kern` / `x_offset`) and sets HAS_GPOS_ATTACHMENT -/
theorem kernPair_cross {p q : Array Pos} {i j : Nat} {kern : Int} {h f : Bool}
    (hk : Kern.kernPair p i j kern h true = .ok (q, f)) : f = true ∧ ∀ k, k ≠ j → q[k]? = p[k]? := by
  unfold Kern.kernPair at hk
  cases h <;> simp only [Bool.false_eq_true, if_false, if_true] at hk
  · split at hk
    · cases hk
    · simp only [Except.ok.injEq, Prod.mk.injEq] at hk
      obtain ⟨rfl, rfl⟩ := hk
      exact ⟨rfl, fun k hk => by rw [Gpos.put_get?_ne _ _ (Ne.symm hk)]⟩
  · split at hk
    · cases hk
    · simp only [Except.ok.injEq, Prod.mk.injEq] at hk
      obtain ⟨rfl, rfl⟩ := hk
      exact ⟨rfl, fun k hk => by rw [Gpos.put_get?_ne _ _ (Ne.symm hk)]⟩

/-- both entry points: a flag call that only grows masks, then the loop with fuel `len + 1` from 0 -/
theorem kernEntry_spec (cm : Bool) (f : Font) (kernMask : Nat) (h cs : Bool) (kernOf : Nat → Nat → Int) (b b0 : Buf)
    (p : Array Pos) (bF : Buf) (pF : Array Pos) (flF : Bool) (evs : List KEvent) (iEnd : Nat) (hg0 : BufGrown b b0)
    (hl : machineKernLoopFI cm f kernMask h cs kernOf (b0.len + 1) 0 b0 p false = .ok ((bF, pF, flF), evs, iEnd))
    (k : KInv b) : BufGrown b bF ∧ BufGrown b0 bF ∧ b.len ≤ iEnd ∧ ∀ e ∈ evs, e.Holds cm b bF := by
  have k0 := KInv.of_grown hg0 k
  obtain ⟨hg, _, hend, hevs⟩ := machineKernLoopFI_spec cm f kernMask h cs kernOf _ _ _ _ _ _ _ _ _ _ hl k0
  refine ⟨hg0.trans hg, hg, ?_, fun e he => (hevs e he).2.of_grown hg0⟩
  have := hend (by omega)
  rw [hg0.len] at this; exact this

end RbModel.PairFlag

/-! ### closed instances used by the non-vacuity examples and the generated probes of Props/C03.lean and Props/C04.lean -/
namespace RbModel.PairFlag
open RbModel RbModel.Gsub RbModel.GposFlag
open RbModel.Gpos (Pos Dir ValueRecordD)

/-- (gid, mask, glyph_props, unicode_props, cluster) as the `pf mk` / `pf kx` requests write a glyph -/
def infoK (t : Nat × Nat × Nat × Nat × Nat) : Info :=
  { gid := t.1, mask := t.2.1, cluster := t.2.2.2.2, var1 := t.2.2.1, var2 := t.2.2.2.1 }

/-- (gid, glyph_props, lig_props, cluster, mask) as the `pf pair` request writes a glyph -/
def infoP (t : Nat × Nat × Nat × Nat × Nat) : Info :=
  { gid := t.1, mask := t.2.2.2.2, cluster := t.2.2.2.1, var1 := t.2.1 + t.2.2.1 * 65536 }

/-- base 1 | GDEF mark 9 | GDEF mark 9 | base 2, clusters 0 1 2 3, every glyph inside the kern feature's range (mask bit
    0x100); PRODUCE_UNSAFE_TO_CONCAT requested (`flags`) -/
def spanKernBuf (flags mask : Nat) : Buf :=
  { info := [(1, mask, 2, 7, 0), (9, mask, 8, 7, 1), (9, mask, 8, 7, 2), (2, mask, 2, 7, 3)].map infoK, len := 4, flags := flags }

def spanKernPos : Array Pos := #[{ xa := 600 }, {}, {}, { xa := 500 }]

/-- the pair (1, 2) is kerned by -50 -/
def spanKernOf : Nat → Nat → Int := fun l r => if l = 1 ∧ r = 2 then -50 else 0

/-- what an event says -/
def KEvent.view (e : KEvent) : Nat × List Nat × Bool × Nat × Int := (e.i, e.reads, e.found, e.stop, e.kern)

/-- masks and x-advances at the end, the events, the index at which the loop stopped -/
def kernView (r : (Buf × Array Pos × Bool) × List KEvent × Nat) :
    List Nat × List Int × List (Nat × List Nat × Bool × Nat × Int) × Nat :=
  (r.1.1.info.map (·.mask), r.1.2.1.toList.map (·.xa), r.2.1.map KEvent.view, r.2.2)

/-- PairPos format 1 with one PairSet: first glyph 1, second glyph 3, record 1 = x_advance -50, record 2 empty -/
def spanPairData : PairData :=
  { covered := fun g => g = 1, hasSet := fun g => g = 1,
    records := fun f s => if f = 1 ∧ s = 3 then some ({ xAdvance := -50 }, {}) else none }

/-- first 1 | GDEF mark 9 | third glyph `g` (3: the pair is in the PairSet; 2: it is not), clusters 0 1 2, lookup flag
    IgnoreMarks, lookup mask 0x100, cursor on the first glyph -/
def spanPairCtx (flags g : Nat) : Ctx :=
  { buf := { info := [(1, 2, 0, 0, 256), (9, 8, 0, 1, 256), (g, 2, 0, 2, 256)].map infoP, len := 3, flags := flags,
             havePos := true },
    font := {}, isGpos := true, lookupMask := 256, lookupProps := 8 }

def spanPairPos : Array Pos := #[{ xa := 600 }, {}, { xa := 500 }]

/-- masks, cursor and x-advances after PairPos, and whether it applied -/
def pairView (r : Buf × Array Pos × Bool) : List Nat × Nat × List Int × Bool :=
  (r.1.info.map (·.mask), r.1.idx, r.2.1.toList.map (·.xa), r.2.2)

end RbModel.PairFlag
