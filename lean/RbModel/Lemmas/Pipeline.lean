/-
  Helper lemmas for the pipeline core (Props/C13.lean, Props/C16.lean). Core Lean only.
-/
import RbModel.Pipeline
import RbModel.Spec.DI

namespace RbModel.Pipeline
open RbModel.Gen.Pipeline

/-! ## range lists -/

theorem inRanges_append (a b : List (Nat × Nat)) (c : Nat) :
    inRanges (a ++ b) c = (inRanges a c || inRanges b c) := by
  simp [inRanges, List.any_append]

theorem inRanges_cons (r : Nat × Nat) (l : List (Nat × Nat)) (c : Nat) :
    inRanges (r :: l) c = ((decide (r.1 ≤ c) && decide (c ≤ r.2)) || inRanges l c) := by
  simp [inRanges]

/-- insertion of a range into a list sorted by start -/
def insertRange (r : Nat × Nat) : List (Nat × Nat) → List (Nat × Nat)
  | [] => [r]
  | x :: xs => if r.1 ≤ x.1 then r :: x :: xs else x :: insertRange r xs

def sortRanges (l : List (Nat × Nat)) : List (Nat × Nat) := l.foldr insertRange []

theorem inRanges_insertRange (r : Nat × Nat) (l : List (Nat × Nat)) (c : Nat) :
    inRanges (insertRange r l) c = inRanges (r :: l) c := by
  induction l with
  | nil => rfl
  | cons x xs ih =>
    unfold insertRange
    split
    · rfl
    · rw [inRanges_cons, ih, inRanges_cons, inRanges_cons, inRanges_cons]
      cases (decide (x.1 ≤ c) && decide (c ≤ x.2)) <;> cases (decide (r.1 ≤ c) && decide (c ≤ r.2)) <;> simp

theorem inRanges_sortRanges (l : List (Nat × Nat)) (c : Nat) :
    inRanges (sortRanges l) c = inRanges l c := by
  induction l with
  | nil => rfl
  | cons x xs ih =>
    show inRanges (insertRange x (sortRanges xs)) c = _
    rw [inRanges_insertRange, inRanges_cons, ih, inRanges_cons]

/-- one step of the normalisation: merge `r` into the last range when it touches or overlaps it -/
def normStep (acc : List (Nat × Nat)) (r : Nat × Nat) : List (Nat × Nat) :=
  match acc with
  | [] => [r]
  | h :: t => if r.1 ≤ h.2 + 1 then (h.1, max h.2 r.2) :: t else r :: h :: t

/-- normal form of a list of ranges sorted by start: maximal ranges, ascending -/
def normalize (l : List (Nat × Nat)) : List (Nat × Nat) := (l.foldl normStep []).reverse

/-- starts are ascending -/
def startsSorted : List (Nat × Nat) → Bool
  | [] => true
  | [_] => true
  | a :: b :: t => decide (a.1 ≤ b.1) && startsSorted (b :: t)

theorem normStep_nil (r : Nat × Nat) : normStep [] r = [r] := rfl
theorem normStep_cons (h : Nat × Nat) (t : List (Nat × Nat)) (r : Nat × Nat) :
    normStep (h :: t) r = if r.1 ≤ h.2 + 1 then (h.1, max h.2 r.2) :: t else r :: h :: t := rfl

theorem startsSorted_tail {r : Nat × Nat} {rs : List (Nat × Nat)} (hs : startsSorted (r :: rs) = true) :
    startsSorted rs = true ∧ ∀ r', rs.head? = some r' → r.1 ≤ r'.1 := by
  cases rs with
  | nil => simp [startsSorted]
  | cons b t =>
    simp [startsSorted] at hs
    exact ⟨hs.2, by intro r' hr'; simp at hr'; subst hr'; exact hs.1⟩

theorem inRanges_foldl_normStep (l acc : List (Nat × Nat)) (c : Nat)
    (hs : startsSorted l = true)
    (hh : ∀ h, acc.head? = some h → ∀ r, l.head? = some r → h.1 ≤ r.1) :
    inRanges (l.foldl normStep acc) c = (inRanges acc c || inRanges l c) := by
  induction l generalizing acc with
  | nil => simp [inRanges]
  | cons r rs ih =>
    rw [List.foldl_cons]
    obtain ⟨hs', hr⟩ := startsSorted_tail hs
    cases acc with
    | nil =>
      rw [normStep_nil, ih [r] hs' (by intro h hh'; simp at hh'; subst hh'; exact hr)]
      simp [inRanges]
    | cons h t =>
      have hhr : h.1 ≤ r.1 := hh h rfl r rfl
      rw [normStep_cons]
      by_cases hle : r.1 ≤ h.2 + 1
      · rw [if_pos hle, ih _ hs' (by
          intro h' hh' r' hr'
          simp at hh'; subst hh'
          exact Nat.le_trans hhr (hr r' hr'))]
        rw [inRanges_cons, inRanges_cons, inRanges_cons]
        have : (decide (h.1 ≤ c) && decide (c ≤ max h.2 r.2)) =
            ((decide (h.1 ≤ c) && decide (c ≤ h.2)) || (decide (r.1 ≤ c) && decide (c ≤ r.2))) := by
          rw [Bool.eq_iff_iff]; simp only [Bool.and_eq_true, Bool.or_eq_true, decide_eq_true_eq]
          omega
        simp only [this]
        cases (decide (h.1 ≤ c) && decide (c ≤ h.2)) <;> cases (decide (r.1 ≤ c) && decide (c ≤ r.2)) <;>
          cases inRanges t c <;> simp
      · rw [if_neg hle, ih _ hs' (by
          intro h' hh' r' hr'
          simp at hh'; subst hh'
          exact hr r' hr')]
        rw [inRanges_cons, inRanges_cons, inRanges_cons]
        cases (decide (h.1 ≤ c) && decide (c ≤ h.2)) <;> cases (decide (r.1 ≤ c) && decide (c ≤ r.2)) <;>
          cases inRanges t c <;> simp

theorem inRanges_normalize (l : List (Nat × Nat)) (c : Nat) (hs : startsSorted l = true) :
    inRanges (normalize l) c = inRanges l c := by
  unfold normalize
  have : inRanges (l.foldl normStep []).reverse c = inRanges (l.foldl normStep []) c := by
    simp [inRanges]
  rw [this, inRanges_foldl_normStep l [] c hs (by intro h hh; simp at hh)]
  simp [inRanges]

/-- Two range lists with the same normal form denote the same set. -/
theorem inRanges_eq_of_normalize_eq (a b : List (Nat × Nat))
    (ha : startsSorted (sortRanges a) = true) (hb : startsSorted (sortRanges b) = true)
    (h : normalize (sortRanges a) = normalize (sortRanges b)) (c : Nat) :
    inRanges a c = inRanges b c := by
  rw [← inRanges_sortRanges a, ← inRanges_sortRanges b,
      ← inRanges_normalize _ c ha, ← inRanges_normalize _ c hb, h]

theorem spec_isDI_eq (c : Nat) : RbModel.Spec.DI.isDI c = inRanges RbModel.Spec.DI.ranges c := rfl


/-! ## cluster-only steps -/

/-- a slot with its cluster erased -/
def eC (g : G) : G := { g with cluster := 0 }

/-- every slot of `l'` is a slot of `l` up to its cluster -/
def SubC0 (l l' : List G) : Prop := ∀ g' ∈ l', ∃ g ∈ l, eC g' = eC g

@[simp] theorem eC_setCluster (c : Nat) (g : G) : eC (setCluster c g) = eC g := rfl

theorem map_eC_map_setCluster (c : Nat) (l : List G) : (l.map (setCluster c)).map eC = l.map eC := by
  simp [List.map_map, Function.comp_def]

theorem takeWhile_append_drop_length {α} (p : α → Bool) (l : List α) :
    l.takeWhile p ++ l.drop (l.takeWhile p).length = l := by
  induction l with
  | nil => rfl
  | cons x xs ih =>
    simp only [List.takeWhile_cons]
    split
    · simp [ih]
    · simp

theorem mergeSeg_eC (pre seg post : List G) :
    (mergeSeg pre seg post).1.map eC = pre.map eC ∧ (mergeSeg pre seg post).2.map eC = (seg ++ post).map eC := by
  unfold mergeSeg
  cases seg with
  | nil => exact ⟨rfl, rfl⟩
  | cons g0 tl =>
    dsimp only
    constructor
    · rw [List.map_append, map_eC_map_setCluster, ← List.map_append, List.take_append_drop]
    · split
      · rw [List.map_append, map_eC_map_setCluster, List.map_append (f := eC), List.append_assoc,
          ← List.map_append, takeWhile_append_drop_length, ← List.map_append]
      · simp [List.map_map, Function.comp_def]

theorem mergeClusters_eC (level : Nat) (pre seg post : List G) :
    (mergeClusters level pre seg post).1.map eC = pre.map eC ∧
    (mergeClusters level pre seg post).2.map eC = (seg ++ post).map eC := by
  unfold mergeClusters
  split
  · exact ⟨rfl, rfl⟩
  · split
    · exact ⟨rfl, rfl⟩
    · exact mergeSeg_eC pre seg post

theorem length_eq_of_map_eq {α β} {f : α → β} {a b : List α} (h : a.map f = b.map f) : a.length = b.length := by
  simpa using congrArg List.length h

/-- one step of `graphemeWalk`: the pieces, up to clusters -/
theorem walk_step_eC (merge : Bool) (level : Nat) (done : List G) (g : G) (tl : List G) :
    let seg := g :: tl.takeWhile G.cont
    let post := tl.dropWhile G.cont
    let r := if merge then mergeClusters level done seg post else (done, seg ++ post)
    r.1.map eC = done.map eC ∧ (r.2.take seg.length).map eC = seg.map eC ∧
      (r.2.drop seg.length).map eC = post.map eC := by
  intro seg post r
  have h : r.1.map eC = done.map eC ∧ r.2.map eC = (seg ++ post).map eC := by
    show (if merge then mergeClusters level done seg post else (done, seg ++ post)).1.map eC = _ ∧
      (if merge then mergeClusters level done seg post else (done, seg ++ post)).2.map eC = _
    split
    · exact mergeClusters_eC level done seg post
    · exact ⟨rfl, rfl⟩
  refine ⟨h.1, ?_, ?_⟩
  · rw [List.map_take, h.2, ← List.map_take, List.take_left' rfl]
  · rw [List.map_drop, h.2, ← List.map_drop, List.drop_left' rfl]

/-- without the in-place reversal the walk only changes clusters -/
theorem graphemeWalk_eC (merge : Bool) (level : Nat) (n : Nat) (done l : List G) :
    (graphemeWalk merge level false n done l).map eC = (done ++ l).map eC := by
  induction n generalizing done l with
  | zero => rfl
  | succ n ih =>
    cases l with
    | nil => simp [graphemeWalk]
    | cons g tl =>
      simp only [graphemeWalk, Bool.false_eq_true, if_false]
      obtain ⟨h1, h2, h3⟩ := walk_step_eC merge level done g tl
      rw [ih, List.map_append, List.map_append, h1, h2, h3, List.map_append, List.append_assoc,
        ← List.map_append (f := eC) (l₁ := g :: tl.takeWhile G.cont)]
      simp [List.takeWhile_append_dropWhile]

/-- with or without it, every slot of the result is a slot of the input up to its cluster -/
theorem graphemeWalk_subC (merge : Bool) (level : Nat) (rev : Bool) (n : Nat) (done l : List G) :
    SubC0 (done ++ l) (graphemeWalk merge level rev n done l) := by
  induction n generalizing done l with
  | zero => intro g hg; exact ⟨g, hg, rfl⟩
  | succ n ih =>
    cases l with
    | nil => intro g hg; simp only [graphemeWalk] at hg; exact ⟨g, by simpa using hg, rfl⟩
    | cons g tl =>
      simp only [graphemeWalk]
      obtain ⟨h1, h2, h3⟩ := walk_step_eC merge level done g tl
      intro x hx
      obtain ⟨y, hy, hxy⟩ := ih _ _ x hx
      -- y is in the new done, the (possibly reversed) new segment, or the new rest
      have hsrc : ∀ z : G, (∃ w ∈ done, eC z = eC w) ∨ (∃ w ∈ g :: tl.takeWhile G.cont, eC z = eC w) ∨
          (∃ w ∈ tl.dropWhile G.cont, eC z = eC w) → ∃ w ∈ done ++ g :: tl, eC z = eC w := by
        intro z hz
        rcases hz with ⟨w, hw, e⟩ | ⟨w, hw, e⟩ | ⟨w, hw, e⟩
        · exact ⟨w, by simp [hw], e⟩
        · refine ⟨w, ?_, e⟩
          simp only [List.mem_cons] at hw
          rcases hw with rfl | hw
          · simp
          · simp [(List.takeWhile_sublist G.cont).subset hw]
        · exact ⟨w, by simp [(List.dropWhile_sublist G.cont).subset hw], e⟩
      have memOf : ∀ (a b : List G), a.map eC = b.map eC → ∀ z ∈ a, ∃ w ∈ b, eC z = eC w := by
        intro a b hab z hz
        have : eC z ∈ b.map eC := by rw [← hab]; exact List.mem_map_of_mem hz
        obtain ⟨w, hw, e⟩ := List.mem_map.mp this
        exact ⟨w, hw, e.symm⟩
      simp only [List.mem_append] at hy
      obtain ⟨w, hw, e⟩ := hsrc y (by
        rcases hy with (hy | hy) | hy
        · exact Or.inl (memOf _ _ h1 y hy)
        · refine Or.inr (Or.inl (memOf _ _ h2 y ?_))
          split at hy
          · exact List.mem_reverse.mp hy
          · exact hy
        · exact Or.inr (Or.inr (memOf _ _ h3 y hy)))
      exact ⟨w, hw, hxy.trans e⟩

@[simp] theorem isDI_eC (g : G) : (eC g).isDI = g.isDI := rfl
@[simp] theorem isDI_setCluster (c : Nat) (g : G) : (setCluster c g).isDI = g.isDI := rfl

theorem filter_eC_congr (p : G → Bool) (hp : ∀ g, p (eC g) = p g) {a b : List G}
    (h : a.map eC = b.map eC) : (a.filter p).map eC = (b.filter p).map eC := by
  have key : ∀ l : List G, (l.filter p).map eC = (l.map eC).filter p := by
    intro l
    induction l with
    | nil => rfl
    | cons x xs ih =>
      simp only [List.filter_cons, List.map_cons, hp]
      split <;> simp [ih]
  rw [key, key, h]

/-- slots that are not (unsubstituted) default ignorables -/
def notDI (g : G) : Bool := !g.isDI

theorem mergeBackward_eC (c old : Nat) (out : List G) : (mergeBackward c old out).map eC = out.map eC := by
  unfold mergeBackward
  simp only
  rw [List.map_append, map_eC_map_setCluster, ← List.map_append, List.take_append_drop]

theorem mergeForwardDrop_eC (level : Nat) (g : G) (tl : List G) :
    (mergeForwardDrop level g tl).map eC = tl.map eC := by
  cases tl with
  | nil => rfl
  | cons x tl' =>
    simp only [mergeForwardDrop]
    rw [List.map_drop, (mergeClusters_eC level [] [g, x] tl').2]; rfl

theorem deleteDI_eC (level n : Nat) (out l : List G) (hn : l.length ≤ n) :
    (deleteDI level n out l).map eC = (out ++ l.filter notDI).map eC := by
  induction n generalizing out l with
  | zero =>
    cases l with
    | nil => simp [deleteDI]
    | cons g tl => simp at hn
  | succ n ih =>
    cases l with
    | nil => simp [deleteDI]
    | cons g tl =>
      have hn' : tl.length ≤ n := by simp at hn; omega
      simp only [deleteDI]
      by_cases hdi : g.isDI = true
      · have hf : (g :: tl).filter notDI = tl.filter notDI := by simp [notDI, hdi]
        rw [if_pos hdi, hf]
        by_cases hs : sameClusterNext g tl = true
        · rw [if_pos hs]; exact ih out tl hn'
        · rw [if_neg hs]
          cases hl : out.getLast? with
          | some last =>
            simp only
            rw [ih _ tl hn', List.map_append, List.map_append]
            split
            · rw [mergeBackward_eC]
            · rfl
          | none =>
            simp only
            have hd := mergeForwardDrop_eC level g tl
            rw [ih _ _ (by rw [length_eq_of_map_eq hd]; exact hn'), List.map_append, List.map_append,
              filter_eC_congr notDI (by intro g; simp [notDI]) hd]
      · have hf : (g :: tl).filter notDI = g :: tl.filter notDI := by simp [notDI, hdi]
        rw [if_neg hdi, hf, ih _ tl hn']
        simp


/-! ## per-slot invariants through the cluster-only steps -/

theorem eq_of_eC_eq {a b : G} (h : eC a = eC b) : a = { b with cluster := a.cluster } := by
  cases a; cases b; simp [eC] at h ⊢; simp [h]

/-- every slot of `l'` is a slot of `l` up to its cluster -/
abbrev SubC (l l' : List G) : Prop := SubC0 l l'

theorem SubC.of_map_eq {l l' : List G} (h : l'.map eC = l.map eC) : SubC l l' := by
  intro g' hg'
  have : eC g' ∈ l.map eC := by rw [← h]; exact List.mem_map_of_mem hg'
  obtain ⟨g, hg, he⟩ := List.mem_map.mp this
  exact ⟨g, hg, he.symm⟩

theorem SubC.all {P : G → Prop} (hP : ∀ g c, P g → P { g with cluster := c }) {l l' : List G}
    (h : SubC l l') (hl : ∀ g ∈ l, P g) : ∀ g ∈ l', P g := by
  intro g' hg'
  obtain ⟨g, hg, he⟩ := h g' hg'
  rw [eq_of_eC_eq he]
  exact hP g _ (hl g hg)

theorem SubC.refl (l : List G) : SubC l l := fun g hg => ⟨g, hg, rfl⟩

theorem SubC.trans {a b c : List G} (h1 : SubC a b) (h2 : SubC b c) : SubC a c := by
  intro g hg
  obtain ⟨g1, hg1, e1⟩ := h2 g hg
  obtain ⟨g2, hg2, e2⟩ := h1 g1 hg1
  exact ⟨g2, hg2, e1.trans e2⟩

theorem formClusters_subC (c : Cfg) (l : List G) (s : Scratch) : SubC l (formClusters c l s) := by
  unfold formClusters
  split
  · exact SubC.of_map_eq (by rw [graphemeWalk_eC]; rfl)
  · exact SubC.refl l

theorem reverseGraphemes_subC (level : Nat) (l : List G) : SubC l (reverseGraphemes level l) := by
  unfold reverseGraphemes
  intro g hg
  have := graphemeWalk_subC (level == 1) level true l.length [] l g (List.mem_reverse.mp hg)
  simpa using this

theorem ensureNativeDirection_subC (c : Cfg) (l : List G) : SubC l (ensureNativeDirection c l).1 := by
  unfold ensureNativeDirection
  split
  · exact reverseGraphemes_subC _ _
  · exact SubC.refl l

theorem ensureNativeDirection_horizontal (c : Cfg) (l : List G) :
    (ensureNativeDirection c l).2.isHorizontal = c.dir.isHorizontal := by
  unfold ensureNativeDirection
  split
  · cases c.dir <;> rfl
  · rfl

theorem deleteDI_subC (level : Nat) (l : List G) : SubC l (deleteDI level l.length [] l) := by
  have h := deleteDI_eC level l.length [] l (Nat.le_refl _)
  intro g' hg'
  obtain ⟨g, hg, he⟩ := SubC.of_map_eq h g' hg'
  simp only [List.nil_append, List.mem_filter] at hg
  exact ⟨g, hg.1, he⟩

theorem deleteDI_notDI (level : Nat) (l : List G) : ∀ g ∈ deleteDI level l.length [] l, g.isDI = false := by
  have h := deleteDI_eC level l.length [] l (Nat.le_refl _)
  intro g' hg'
  obtain ⟨g, hg, he⟩ := SubC.of_map_eq h g' hg'
  simp only [List.nil_append, List.mem_filter, notDI] at hg
  have : (eC g').isDI = (eC g).isDI := by rw [he]
  simp only [isDI_eC] at this
  rw [this]; simpa using hg.2


/-! ## unicode props -/

theorem diExtra_gc (c : Nat) (p : UProps) : (diExtra c p).gc = p.gc := by
  unfold diExtra; repeat' split <;> try rfl
theorem diExtra_ign (c : Nat) (p : UProps) : (diExtra c p).ign = p.ign := by
  unfold diExtra; repeat' split <;> try rfl
theorem diExtra_cont (c : Nat) (p : UProps) : (diExtra c p).cont = p.cont := by
  unfold diExtra; repeat' split <;> try rfl

theorem initP_gc (u : Ucd) (c : Nat) : (initP u c).gc = u.gc c := by
  unfold initP; simp only
  split
  · rfl
  · split <;> split <;> simp [diExtra_gc]

theorem initP_ign (u : Ucd) (c : Nat) : (initP u c).ign = (decide (0x80 ≤ c) && u.isDI c) := by
  unfold initP; simp only
  split
  · rename_i h; simp; omega
  · rename_i h
    have : decide (0x80 ≤ c) = true := by simp; omega
    rw [this, Bool.true_and]
    split <;> split <;> simp_all [diExtra_ign]

/-- the scratch flags after `set_unicode_props` are the fold of `init_unicode_props`' flag updates -/
theorem setUnicodeProps_scratch (u : Ucd) (prev : Option G) (az : Bool) (l : List G) (s : Scratch) :
    (setUnicodeProps u prev az l s).2 = l.foldl (fun s g => initS u g.gid s) s := by
  induction l generalizing prev az s with
  | nil => rfl
  | cons g rest ih =>
    simp only [setUnicodeProps, G.init, List.foldl_cons]
    split <;> simp [ih]

theorem initS_hasDI (u : Ucd) (c : Nat) (s : Scratch) :
    (initS u c s).hasDI = (s.hasDI || (decide (0x80 ≤ c) && u.isDI c)) := by
  unfold initS
  split
  · rename_i h; have : decide (0x80 ≤ c) = false := by simp; omega
    simp [this]
  · rename_i h; have : decide (0x80 ≤ c) = true := by simp; omega
    simp only [this, Bool.true_and]
    split <;> simp_all

theorem initS_hasSpaceFb (u : Ucd) (c : Nat) (s : Scratch) : (initS u c s).hasSpaceFb = s.hasSpaceFb := by
  unfold initS; split
  · rfl
  · simp only; split <;> rfl

theorem foldl_initS_hasDI (u : Ucd) (l : List G) (s : Scratch) :
    (l.foldl (fun s g => initS u g.gid s) s).hasDI
      = (s.hasDI || l.any fun g => decide (0x80 ≤ g.gid) && u.isDI g.gid) := by
  induction l generalizing s with
  | nil => simp
  | cons g rest ih => simp [ih, initS_hasDI, Bool.or_assoc]

theorem foldl_initS_hasSpaceFb (u : Ucd) (l : List G) (s : Scratch) :
    (l.foldl (fun s g => initS u g.gid s) s).hasSpaceFb = s.hasSpaceFb := by
  induction l generalizing s with
  | nil => rfl
  | cons g rest ih => simp [ih, initS_hasSpaceFb]

theorem setCont_eq (g : G) : g.setCont = { g with props := { g.props with cont := true } } := rfl

/-- `classifyCont` only ever raises the continuation bit -/
theorem classifyCont_cases (prev : Option G) (g : G) : classifyCont prev g = g ∨ classifyCont prev g = g.setCont := by
  unfold classifyCont
  simp only
  split
  · exact Or.inl rfl
  · split
    · exact Or.inr rfl
    · split
      · split
        · split
          · exact Or.inr rfl
          · exact Or.inl rfl
        · exact Or.inl rfl
      · split
        · exact Or.inr rfl
        · split
          · exact Or.inr rfl
          · exact Or.inl rfl

/-- what `set_unicode_props` does to one slot: new props, whose every field but the continuation
    bit is what `init_unicode_props` computes from the code point -/
def PropsStep (u : Ucd) (g g' : G) : Prop :=
  ∃ cont, g' = { g with props := { initP u g.gid with cont := cont } }

theorem setUnicodeProps_step (u : Ucd) (prev : Option G) (az : Bool) (l : List G) (s : Scratch) :
    ∀ g' ∈ (setUnicodeProps u prev az l s).1, ∃ g ∈ l, PropsStep u g g' := by
  induction l generalizing prev az s with
  | nil => simp [setUnicodeProps]
  | cons g rest ih =>
    intro g' hg'
    simp only [setUnicodeProps, G.init] at hg'
    split at hg'
    · simp only [List.mem_cons] at hg'
      rcases hg' with h | h
      · exact ⟨g, List.mem_cons_self, ⟨true, by rw [h]; rfl⟩⟩
      · obtain ⟨g0, hg0, hs⟩ := ih _ _ _ g' h
        exact ⟨g0, List.mem_cons_of_mem _ hg0, hs⟩
    · simp only [List.mem_cons] at hg'
      rcases hg' with h | h
      · refine ⟨g, List.mem_cons_self, ?_⟩
        rcases classifyCont_cases prev { g with props := initP u g.gid } with hc | hc
        · exact ⟨(initP u g.gid).cont, by rw [h, hc]⟩
        · exact ⟨true, by rw [h, hc]; rfl⟩
      · obtain ⟨g0, hg0, hs⟩ := ih _ _ _ g' h
        exact ⟨g0, List.mem_cons_of_mem _ hg0, hs⟩


/-! ## normalizer (restricted) -/

theorem mem_of_mem_takeWhile {α} {p : α → Bool} {l : List α} {x : α} (h : x ∈ l.takeWhile p) : x ∈ l :=
  (List.takeWhile_sublist p).subset h
theorem mem_of_mem_dropWhile {α} {p : α → Bool} {l : List α} {x : α} (h : x ∈ l.dropWhile p) : x ∈ l :=
  (List.dropWhile_sublist p).subset h
theorem mem_of_mem_dropLast {α} {l : List α} {x : α} (h : x ∈ l.dropLast) : x ∈ l :=
  (List.dropLast_sublist l).subset h

theorem mapAccum_step (fn : G → Scratch → G × Scratch) (l : List G) (s : Scratch) :
    ∀ g' ∈ (mapAccum fn l s).1, ∃ g ∈ l, ∃ s', g' = (fn g s').1 := by
  induction l generalizing s with
  | nil => simp [mapAccum]
  | cons g tl ih =>
    intro g' hg'
    simp only [mapAccum, List.mem_cons] at hg'
    rcases hg' with h | h
    · exact ⟨g, List.mem_cons_self, s, h⟩
    · obtain ⟨g0, hg0, hs⟩ := ih _ g' h
      exact ⟨g0, List.mem_cons_of_mem _ hg0, hs⟩

/-- what the normalizer may do to one slot -/
def NormStep (u : Ucd) (f : Font) (g g' : G) : Prop :=
  g' = g ∨ (∃ s, g' = (decomposeCurrent u f g s).1) ∨ g' = setGlyph f g ∨ g' = setGlyph f (customizeVS g)

theorem vsCluster_step (u : Ucd) (f : Font) (n : Nat) (l : List G) :
    ∀ g' ∈ (vsCluster f n l).1, ∃ g ∈ l, NormStep u f g g' := by
  induction n generalizing l with
  | zero => intro g' hg'; simp only [vsCluster] at hg'; exact ⟨g', hg', Or.inl rfl⟩
  | succ n ih =>
    match l with
    | [] => simp [vsCluster]
    | [a] =>
      intro g' hg'
      simp only [vsCluster, List.mem_singleton] at hg'
      exact ⟨a, List.mem_singleton_self a, Or.inr (Or.inr (Or.inl hg'))⟩
    | a :: b :: rest =>
      intro g' hg'
      simp only [vsCluster] at hg'
      split at hg'
      · dsimp only at hg'
        rw [List.mem_append, List.mem_cons, List.mem_cons, List.mem_map] at hg'
        rcases hg' with (h | h | h) | h
        · exact ⟨a, by simp, Or.inr (Or.inr (Or.inl h))⟩
        · exact ⟨b, by simp, Or.inr (Or.inr (Or.inr h))⟩
        · obtain ⟨x, hx, hx'⟩ := h
          exact ⟨x, by simp [mem_of_mem_takeWhile hx], Or.inr (Or.inr (Or.inl hx'.symm))⟩
        · obtain ⟨x, hx, hx'⟩ := ih _ g' h
          exact ⟨x, by simp [mem_of_mem_dropWhile hx], hx'⟩
      · dsimp only at hg'
        rw [List.mem_cons] at hg'
        rcases hg' with h | h
        · exact ⟨a, by simp, Or.inr (Or.inr (Or.inl h))⟩
        · obtain ⟨x, hx, hx'⟩ := ih _ g' h
          exact ⟨x, List.mem_cons_of_mem _ hx, hx'⟩

theorem multiCharCluster_step (u : Ucd) (f : Font) (cl : List G) (s : Scratch) :
    ∀ g' ∈ (multiCharCluster u f cl s).1, ∃ g ∈ cl, NormStep u f g g' := by
  unfold multiCharCluster
  split
  · exact vsCluster_step u f _ _
  · intro g' hg'
    obtain ⟨g, hg, s', hs⟩ := mapAccum_step _ _ _ g' hg'
    exact ⟨g, hg, Or.inr (Or.inl ⟨s', hs⟩)⟩

theorem mem_dropLast_or_getLast {α} (g0 : α) (l : List α) (x : α) (hx : x ∈ l) :
    x ∈ l.dropLast ∨ x = l.getLast?.getD g0 := by
  induction l with
  | nil => simp at hx
  | cons a t ih =>
    cases t with
    | nil => simp at hx; right; simp [hx]
    | cons b t' =>
      simp only [List.mem_cons] at hx
      rcases hx with h | h
      · left; simp [h]
      · have := ih (by simpa using h)
        rcases this with h' | h'
        · left; simp only [List.dropLast_cons_cons, List.mem_cons]; right; exact h'
        · right; simpa using h'

theorem getLast?_getD_mem {α} (g0 : α) (l : List α) (hl : l ≠ []) : l.getLast?.getD g0 ∈ l := by
  cases h : l.getLast? with
  | none => simp at h; exact absurd h hl
  | some x => simp; exact List.mem_of_getLast? h

theorem normalizeRound1_step (u : Ucd) (f : Font) (n : Nat) (l : List G) (s : Scratch) :
    ∀ g' ∈ (normalizeRound1 u f n l s).1, ∃ g ∈ l, NormStep u f g g' := by
  induction n generalizing l s with
  | zero => intro g' hg'; simp only [normalizeRound1] at hg'; exact ⟨g', hg', Or.inl rfl⟩
  | succ n ih =>
    cases l with
    | nil => simp [normalizeRound1]
    | cons g0 rest =>
      intro g' hg'
      simp only [normalizeRound1] at hg'
      split at hg'
      · obtain ⟨g, hg, s', hs⟩ := mapAccum_step _ _ _ g' hg'
        refine ⟨g, ?_, Or.inr (Or.inl ⟨s', hs⟩)⟩
        simp only [List.mem_cons] at hg ⊢
        rcases hg with h | h
        · exact Or.inl h
        · exact Or.inr (mem_of_mem_takeWhile h)
      · rename_i a b hab
        have hrun : ∀ x ∈ g0 :: rest.takeWhile (fun g => !g.isMark), x ∈ g0 :: rest := by
          intro x hx
          simp only [List.mem_cons] at hx ⊢
          rcases hx with h | h
          · exact Or.inl h
          · exact Or.inr (mem_of_mem_takeWhile h)
        have hafter : ∀ x ∈ rest.dropWhile (fun g => !g.isMark), x ∈ g0 :: rest :=
          fun x hx => List.mem_cons_of_mem _ (mem_of_mem_dropWhile hx)
        simp only [List.mem_append] at hg'
        rcases hg' with (h | h) | h
        · obtain ⟨g, hg, s', hs⟩ := mapAccum_step _ _ _ g' h
          exact ⟨g, hrun g (mem_of_mem_dropLast hg), Or.inr (Or.inl ⟨s', hs⟩)⟩
        · obtain ⟨g, hg, hs⟩ := multiCharCluster_step u f _ _ g' h
          refine ⟨g, ?_, hs⟩
          simp only [List.mem_cons] at hg
          rcases hg with h1 | h1
          · rw [h1]; exact hrun _ (getLast?_getD_mem g0 _ (by simp))
          · exact hafter g (mem_of_mem_takeWhile h1)
        · obtain ⟨g, hg, hs⟩ := ih _ _ g' h
          exact ⟨g, hafter g (mem_of_mem_dropWhile hg), hs⟩

/-! ## mark zeroing -/

theorem positionMarksFb_step (adjust : Bool) (seen : Bool) (l : List G) :
    ∀ g' ∈ positionMarksFb adjust seen l, ∃ g ∈ l, g' = g ∨ g' = zeroMark adjust g := by
  induction l generalizing seen with
  | nil => simp [positionMarksFb]
  | cons g tl ih =>
    intro g' hg'
    simp only [positionMarksFb] at hg'
    split at hg'
    · simp only [List.mem_cons] at hg'
      rcases hg' with h | h
      · refine ⟨g, List.mem_cons_self, ?_⟩
        rw [h]; split
        · exact Or.inr rfl
        · exact Or.inl rfl
      · obtain ⟨x, hx, hx'⟩ := ih _ g' h
        exact ⟨x, List.mem_cons_of_mem _ hx, hx'⟩
    · simp only [List.mem_cons] at hg'
      rcases hg' with h | h
      · exact ⟨g, List.mem_cons_self, Or.inl h⟩
      · obtain ⟨x, hx, hx'⟩ := ih _ g' h
        exact ⟨x, List.mem_cons_of_mem _ hx, hx'⟩


/-! ## axis discipline -/

/-- horizontal ⇒ y_advance = 0, vertical ⇒ x_advance = 0 -/
def Axis (hor : Bool) (g : G) : Prop := (hor = true → g.ya = 0) ∧ (hor = false → g.xa = 0)

theorem axis_cluster (hor : Bool) (g : G) (c : Nat) (h : Axis hor g) : Axis hor { g with cluster := c } := h
theorem axis_gid (hor : Bool) (g : G) (c : Nat) (h : Axis hor g) : Axis hor { g with gid := c } := h

theorem axis_posDefault1 (f : Font) (dir : Dir) (g : G) : Axis dir.isHorizontal (posDefault1 f dir g) := by
  unfold posDefault1 Axis
  split <;> simp_all

theorem axis_setAdvance (dir : Dir) (g : G) (len : Int) (h : Axis dir.isHorizontal g) :
    Axis dir.isHorizontal (setAdvance dir g len) := by
  unfold setAdvance Axis at *
  split <;> simp_all

theorem axis_copyAdvance (f : Font) (dir : Dir) (g : G) (d : Nat) (h : Axis dir.isHorizontal g) :
    Axis dir.isHorizontal (copyAdvance f dir g d) := by
  unfold copyAdvance Axis at *
  split <;> simp_all

theorem axis_fallbackSpace1 (f : Font) (dir : Dir) (g : G) (h : Axis dir.isHorizontal g) :
    Axis dir.isHorizontal (fallbackSpace1 f dir g) := by
  unfold fallbackSpace1
  simp only
  split
  · split
    · exact axis_setAdvance _ _ _ h
    · split
      · exact axis_setAdvance _ _ _ h
      · split
        · split
          · exact axis_copyAdvance _ _ _ _ h
          · exact h
        · split
          · split
            · exact axis_copyAdvance _ _ _ _ h
            · exact h
          · split
            · unfold Axis at *
              split <;> simp_all
            · exact h
  · exact h

theorem axis_zeroMark (hor adjust : Bool) (g : G) (h : Axis hor g) : Axis hor (zeroMark adjust g) := by
  unfold zeroMark Axis at *
  split <;> simp_all

theorem axis_zeroGdef1 (hor adjust : Bool) (g : G) (h : Axis hor g) : Axis hor (zeroGdef1 adjust g) := by
  unfold zeroGdef1; split
  · exact axis_zeroMark _ _ _ h
  · exact h

theorem axis_zeroDI1 (hor : Bool) (g : G) (h : Axis hor g) : Axis hor (zeroDI1 g) := by
  unfold zeroDI1; split
  · unfold Axis; simp
  · exact h

theorem axis_hide1 (hor : Bool) (sp : Nat) (g : G) (h : Axis hor g) : Axis hor (hide1 sp g) := by
  unfold hide1; split
  · exact h
  · exact h

theorem all_map {P Q : G → Prop} (fn : G → G) (h : ∀ g, P g → Q (fn g)) {l : List G}
    (hl : ∀ g ∈ l, P g) : ∀ g ∈ l.map fn, Q g := by
  intro g hg
  obtain ⟨x, hx, rfl⟩ := List.mem_map.mp hg
  exact h x (hl x hx)

/-- every positioning step of the pipeline keeps the axis discipline -/
theorem position_axis (f : Font) (c : Cfg) (bdir : Dir) (s : Scratch) (l : List G) :
    ∀ g ∈ position f c bdir s l, Axis bdir.isHorizontal g := by
  unfold position
  simp only
  have h1 : ∀ g ∈ positionDefault f bdir l, Axis bdir.isHorizontal g :=
    all_map (P := fun _ => True) _ (fun g _ => axis_posDefault1 f bdir g) (fun _ _ => trivial)
  have h2 : ∀ g ∈ (if s.hasSpaceFb then fallbackSpaces f bdir (positionDefault f bdir l) else positionDefault f bdir l),
      Axis bdir.isHorizontal g := by
    split
    · exact all_map _ (fun g h => axis_fallbackSpace1 f bdir g h) h1
    · exact h1
  have h3 := all_map (zeroGdef1 bdir.isForward) (fun g h => axis_zeroGdef1 bdir.isHorizontal _ g h) h2
  have h4 : ∀ g ∈ zeroWidthDI c s (zeroMarkWidthsByGdef bdir.isForward
      (if s.hasSpaceFb then fallbackSpaces f bdir (positionDefault f bdir l) else positionDefault f bdir l)),
      Axis bdir.isHorizontal g := by
    unfold zeroWidthDI
    split
    · exact all_map _ (fun g h => axis_zeroDI1 _ g h) h3
    · exact h3
  intro g hg
  obtain ⟨x, hx, hx'⟩ := positionMarksFb_step _ _ _ g hg
  rcases hx' with h | h
  · rw [h]; exact h4 x hx
  · rw [h]; exact axis_zeroMark _ _ _ (h4 x hx)

theorem finish_axis (f : Font) (c : Cfg) (bdir : Dir) (s : Scratch) (hor : Bool) (l : List G)
    (hl : ∀ g ∈ l, Axis hor g) : ∀ g ∈ finish f c bdir s l, Axis hor g := by
  unfold finish
  have h1 : ∀ g ∈ (if bdir.isBackward then l.reverse else l), Axis hor g := by
    split
    · intro g hg; exact hl g (List.mem_reverse.mp hg)
    · exact hl
  unfold hideDI
  split
  · split
    · exact all_map _ (fun g h => axis_hide1 hor _ g h) h1
    · exact SubC.all (axis_cluster hor) (deleteDI_subC _ _) h1
  · exact h1

theorem prepare_horizontal (u : Ucd) (f : Font) (c : Cfg) (l : List G) :
    (prepare u f c l).2.2.isHorizontal = c.dir.isHorizontal := by
  unfold prepare
  exact ensureNativeDirection_horizontal _ _

theorem shape_ok_cases {u : Ucd} {f : Font} {c : Cfg} {text : List (Nat × Nat)} {out : List G}
    (h : shape u f c text = .ok out) :
    inScope u (initial text) = true ∧ (out = [] ∨ out = shapeCore u f c (initial text)) := by
  unfold shape at h
  simp only at h
  split at h
  · cases h
  · rename_i hs
    split at h
    · simp at hs; injection h with h; exact ⟨by simpa using hs, Or.inl h.symm⟩
    · simp at hs; injection h with h; exact ⟨by simpa using hs, Or.inr h.symm⟩


/-! ## generic per-slot transport through the four phases -/

theorem initS_hasDI_mono (u : Ucd) (c : Nat) (s : Scratch) (h : s.hasDI = true) : (initS u c s).hasDI = true := by
  rw [initS_hasDI, h]; rfl

theorem insertDottedCircle_cases (u : Ucd) (f : Font) (c : Cfg) (l : List G) (s : Scratch) :
    insertDottedCircle u f c l s = (l, s) ∨
    ∃ cl, insertDottedCircle u f c l s =
      (({ cp0 := 0x25CC, gid := 0x25CC, cluster := cl, props := initP u 0x25CC } : G) :: l, initS u 0x25CC s) := by
  unfold insertDottedCircle
  cases l with
  | nil => exact Or.inl rfl
  | cons g0 tl =>
    simp only
    split
    · exact Or.inr ⟨g0.cluster, rfl⟩
    · exact Or.inl rfl

/-- slot-wise transport through `prepare` -/
theorem prepare_all (u : Ucd) (f : Font) (c : Cfg) (l : List G) (P : G → Prop)
    (hstep : ∀ g ∈ l, ∀ cont, P { g with props := { initP u g.gid with cont := cont } })
    (hdot : ∀ cl, P { cp0 := 0x25CC, gid := 0x25CC, cluster := cl, props := initP u 0x25CC })
    (hcl : ∀ g cl, P g → P { g with cluster := cl }) :
    ∀ g ∈ (prepare u f c l).1, P g := by
  unfold prepare
  simp only
  have h1 : ∀ g ∈ (setUnicodeProps u none false l {}).1, P g := by
    intro g' hg'
    obtain ⟨g, hg, cont, he⟩ := setUnicodeProps_step u none false l {} g' hg'
    rw [he]; exact hstep g hg cont
  have h2 : ∀ g ∈ (insertDottedCircle u f c (setUnicodeProps u none false l {}).1
      (setUnicodeProps u none false l {}).2).1, P g := by
    rcases insertDottedCircle_cases u f c (setUnicodeProps u none false l {}).1
      (setUnicodeProps u none false l {}).2 with h | ⟨cl, h⟩
    · rw [h]; exact h1
    · rw [h]; intro g hg
      simp only [List.mem_cons] at hg
      rcases hg with h' | h'
      · rw [h']; exact hdot cl
      · exact h1 g h'
  exact SubC.all hcl (SubC.trans (formClusters_subC _ _ _) (ensureNativeDirection_subC _ _)) h2

/-- whenever a slot carries the IGNORABLE bit after `prepare`, the HAS_DEFAULT_IGNORABLES flag is set -/
theorem prepare_hasDI (u : Ucd) (f : Font) (c : Cfg) (l : List G) :
    ∀ g ∈ (prepare u f c l).1, g.props.ign = true → (prepare u f c l).2.1.hasDI = true := by
  have key : ∀ g ∈ (prepare u f c l).1, g.props.ign = true →
      ((l.any fun g => decide (0x80 ≤ g.gid) && u.isDI g.gid) = true) ∨
        ((decide (0x80 ≤ 0x25CC) && u.isDI 0x25CC) = true ∧
          ∃ cl, insertDottedCircle u f c (setUnicodeProps u none false l {}).1 (setUnicodeProps u none false l {}).2 =
            (({ cp0 := 0x25CC, gid := 0x25CC, cluster := cl, props := initP u 0x25CC } : G)
              :: (setUnicodeProps u none false l {}).1, initS u 0x25CC (setUnicodeProps u none false l {}).2)) := by
    unfold prepare
    simp only
    intro g' hg' hign
    obtain ⟨g1, hg1, he1⟩ := (SubC.trans (formClusters_subC _ _ _) (ensureNativeDirection_subC c _)) g' hg'
    have hign1 : g1.props.ign = true := by
      have := congrArg (fun x => x.props.ign) he1
      simp only [eC] at this
      rw [← this]; exact hign
    rcases insertDottedCircle_cases u f c (setUnicodeProps u none false l {}).1
      (setUnicodeProps u none false l {}).2 with h | ⟨cl, h⟩
    · rw [h] at hg1
      obtain ⟨g, hg, cont, he⟩ := setUnicodeProps_step u none false l {} g1 hg1
      left
      rw [he] at hign1
      simp only at hign1
      rw [initP_ign] at hign1
      exact List.any_eq_true.mpr ⟨g, hg, hign1⟩
    · rw [h] at hg1
      simp only [List.mem_cons] at hg1
      rcases hg1 with h' | h'
      · right
        rw [h'] at hign1
        simp only at hign1
        rw [initP_ign] at hign1
        exact ⟨hign1, cl, h⟩
      · obtain ⟨g, hg, cont, he⟩ := setUnicodeProps_step u none false l {} g1 h'
        left
        rw [he] at hign1
        simp only at hign1
        rw [initP_ign] at hign1
        exact List.any_eq_true.mpr ⟨g, hg, hign1⟩
  intro g hg hign
  have hs : (setUnicodeProps u none false l {}).2.hasDI
      = (l.any fun g => decide (0x80 ≤ g.gid) && u.isDI g.gid) := by
    rw [setUnicodeProps_scratch, foldl_initS_hasDI]; rfl
  rcases key g hg hign with h | ⟨h25, cl, h⟩
  · unfold prepare
    simp only
    rcases insertDottedCircle_cases u f c (setUnicodeProps u none false l {}).1
      (setUnicodeProps u none false l {}).2 with h' | ⟨cl, h'⟩
    · rw [h']; simp only; rw [hs]; exact h
    · rw [h']; simp only; exact initS_hasDI_mono _ _ _ (by rw [hs]; exact h)
  · unfold prepare
    simp only
    rw [h]; simp only
    rw [initS_hasDI, h25, Bool.or_true]


/-- what `rotate_chars` may do to one slot: replace the code point -/
def RotStep (g g1 : G) : Prop := ∃ x, g1 = { g with gid := x }

theorem RotStep.refl (g : G) : RotStep g g := ⟨g.gid, rfl⟩

theorem mirror1_rot (u : Ucd) (f : Font) (g : G) : RotStep g (mirror1 u f g) := by
  unfold mirror1
  split
  · split
    · exact ⟨_, rfl⟩
    · exact RotStep.refl g
  · exact RotStep.refl g

theorem vert1_rot (u : Ucd) (f : Font) (g : G) : RotStep g (vert1 u f g) := by
  unfold vert1
  split
  · split
    · exact ⟨_, rfl⟩
    · exact RotStep.refl g
  · exact RotStep.refl g

theorem RotStep.trans {a b c : G} (h1 : RotStep a b) (h2 : RotStep b c) : RotStep a c := by
  obtain ⟨x, hx⟩ := h1
  obtain ⟨y, hy⟩ := h2
  exact ⟨y, by rw [hy, hx]⟩

theorem rotateChars_step (u : Ucd) (f : Font) (c : Cfg) (l : List G) :
    ∀ g1 ∈ rotateChars u f c l, ∃ g ∈ l, RotStep g g1 := by
  unfold rotateChars
  simp only
  have h1 : ∀ g1 ∈ (if c.dir.isBackward then l.map (mirror1 u f) else l), ∃ g ∈ l, RotStep g g1 := by
    split
    · intro g1 hg1
      obtain ⟨g, hg, rfl⟩ := List.mem_map.mp hg1
      exact ⟨g, hg, mirror1_rot u f g⟩
    · intro g1 hg1; exact ⟨g1, hg1, RotStep.refl g1⟩
  split
  · intro g2 hg2
    obtain ⟨g1, hg1, rfl⟩ := List.mem_map.mp hg2
    obtain ⟨g, hg, hr⟩ := h1 g1 hg1
    exact ⟨g, hg, hr.trans (vert1_rot u f g1)⟩
  · exact h1

/-- slot-wise transport through `substitute` -/
theorem substitute_all (u : Ucd) (f : Font) (c : Cfg) (l : List G) (s : Scratch) (P Q : G → Prop)
    (h : ∀ g, P g → ∀ g1, RotStep g g1 → ∀ g2, NormStep u f g1 g2 → Q (mapGlyph1 g2))
    (hl : ∀ g ∈ l, P g) : ∀ g ∈ (substitute u f c l s).1, Q g := by
  unfold substitute mapGlyphsAndClasses
  simp only
  intro g' hg'
  obtain ⟨g2, hg2, rfl⟩ := List.mem_map.mp hg'
  obtain ⟨g1, hg1, hn⟩ := normalizeRound1_step u f _ _ _ g2 hg2
  obtain ⟨g, hg, hr⟩ := rotateChars_step u f c l g1 hg1
  exact h g (hl g hg) g1 hr g2 hn

/-! scratch flags through the normalizer -/

theorem decomposeCurrent_hasDI (u : Ucd) (f : Font) (g : G) (s : Scratch) :
    (decomposeCurrent u f g s).2.hasDI = s.hasDI := by
  unfold decomposeCurrent
  split
  · rfl
  · simp only
    split
    · rfl
    · split
      · split <;> rfl
      · rfl

theorem mapAccum_hasDI (u : Ucd) (f : Font) (l : List G) (s : Scratch) :
    (mapAccum (decomposeCurrent u f) l s).2.hasDI = s.hasDI := by
  induction l generalizing s with
  | nil => rfl
  | cons g tl ih => simp only [mapAccum]; rw [ih, decomposeCurrent_hasDI]

theorem multiCharCluster_hasDI (u : Ucd) (f : Font) (cl : List G) (s : Scratch) :
    (multiCharCluster u f cl s).2.hasDI = s.hasDI := by
  unfold multiCharCluster
  split
  · simp only; split <;> rfl
  · exact mapAccum_hasDI u f cl s

theorem normalizeRound1_hasDI (u : Ucd) (f : Font) (n : Nat) (l : List G) (s : Scratch) :
    (normalizeRound1 u f n l s).2.hasDI = s.hasDI := by
  induction n generalizing l s with
  | zero => rfl
  | succ n ih =>
    cases l with
    | nil => rfl
    | cons g0 rest =>
      simp only [normalizeRound1]
      split
      · exact mapAccum_hasDI _ _ _ _
      · simp only; rw [ih, multiCharCluster_hasDI, mapAccum_hasDI]

theorem substitute_hasDI (u : Ucd) (f : Font) (c : Cfg) (l : List G) (s : Scratch) :
    (substitute u f c l s).2.hasDI = s.hasDI := by
  unfold substitute
  exact normalizeRound1_hasDI _ _ _ _ _

/-! positioning: what happens to one slot -/

/-- the chain of per-slot updates `position` applies -/
def PosChain (f : Font) (c : Cfg) (bdir : Dir) (s : Scratch) (g g' : G) : Prop :=
  ∃ g2 g4,
    (g2 = posDefault1 f bdir g ∨ g2 = fallbackSpace1 f bdir (posDefault1 f bdir g)) ∧
    (g4 = zeroGdef1 bdir.isForward g2 ∨
      ((s.hasDI && !hasFlag c.flags BF_PRESERVE && !hasFlag c.flags BF_REMOVE) = true ∧
        g4 = zeroDI1 (zeroGdef1 bdir.isForward g2))) ∧
    ((s.hasDI && !hasFlag c.flags BF_PRESERVE && !hasFlag c.flags BF_REMOVE) = true →
        g4 = zeroDI1 (zeroGdef1 bdir.isForward g2)) ∧
    (g' = g4 ∨ g' = zeroMark bdir.isForward g4)

theorem position_step (f : Font) (c : Cfg) (bdir : Dir) (s : Scratch) (l : List G) :
    ∀ g' ∈ position f c bdir s l, ∃ g ∈ l, PosChain f c bdir s g g' := by
  unfold position
  simp only
  intro g' hg'
  obtain ⟨g4, hg4, h4⟩ := positionMarksFb_step _ _ _ g' hg'
  have h3 : ∃ g2 ∈ (if s.hasSpaceFb then fallbackSpaces f bdir (positionDefault f bdir l)
      else positionDefault f bdir l),
      (g4 = zeroGdef1 bdir.isForward g2 ∨
        ((s.hasDI && !hasFlag c.flags BF_PRESERVE && !hasFlag c.flags BF_REMOVE) = true ∧
          g4 = zeroDI1 (zeroGdef1 bdir.isForward g2))) ∧
      ((s.hasDI && !hasFlag c.flags BF_PRESERVE && !hasFlag c.flags BF_REMOVE) = true →
          g4 = zeroDI1 (zeroGdef1 bdir.isForward g2)) := by
    unfold zeroWidthDI at hg4
    split at hg4
    · rename_i hact
      obtain ⟨g3, hg3, rfl⟩ := List.mem_map.mp hg4
      unfold zeroMarkWidthsByGdef at hg3
      obtain ⟨g2, hg2, rfl⟩ := List.mem_map.mp hg3
      exact ⟨g2, hg2, Or.inr ⟨hact, rfl⟩, fun _ => rfl⟩
    · rename_i hact
      unfold zeroMarkWidthsByGdef at hg4
      obtain ⟨g2, hg2, rfl⟩ := List.mem_map.mp hg4
      exact ⟨g2, hg2, Or.inl rfl, fun h => absurd h hact⟩
  obtain ⟨g2, hg2, h34, h34'⟩ := h3
  have h1 : ∃ g ∈ l, g2 = posDefault1 f bdir g ∨ g2 = fallbackSpace1 f bdir (posDefault1 f bdir g) := by
    split at hg2
    · unfold fallbackSpaces positionDefault at hg2
      obtain ⟨g1, hg1, rfl⟩ := List.mem_map.mp hg2
      obtain ⟨g, hg, rfl⟩ := List.mem_map.mp hg1
      exact ⟨g, hg, Or.inr rfl⟩
    · unfold positionDefault at hg2
      obtain ⟨g, hg, rfl⟩ := List.mem_map.mp hg2
      exact ⟨g, hg, Or.inl rfl⟩
  obtain ⟨g, hg, h12⟩ := h1
  exact ⟨g, hg, g2, g4, h12, h34, h34', h4⟩

/-- what `finish` does to one slot -/
theorem finish_step (f : Font) (c : Cfg) (bdir : Dir) (s : Scratch) (l : List G) :
    ∀ g' ∈ finish f c bdir s l, ∃ g ∈ l,
      (g' = g ∧ ¬ (s.hasDI && !hasFlag c.flags BF_PRESERVE) = true) ∨
      (∃ sp, nominal f 0x20 = some sp ∧ hasFlag c.flags BF_REMOVE = false ∧ g' = hide1 sp g) ∨
      (eC g' = eC g ∧ g'.isDI = false) := by
  unfold finish
  have hrev : ∀ g, g ∈ (if bdir.isBackward then l.reverse else l) → g ∈ l := by
    intro g hg
    split at hg
    · exact List.mem_reverse.mp hg
    · exact hg
  unfold hideDI
  intro g' hg'
  split at hg'
  · split at hg'
    · rename_i sp hsp
      obtain ⟨g, hg, rfl⟩ := List.mem_map.mp hg'
      refine ⟨g, hrev g hg, Or.inr (Or.inl ⟨sp, ?_, ?_, rfl⟩)⟩
      · split at hsp
        · exact hsp
        · cases hsp
      · split at hsp
        · rename_i h; simpa using h
        · cases hsp
    · obtain ⟨g, hg, he⟩ := deleteDI_subC _ _ g' hg'
      exact ⟨g, hrev g hg, Or.inr (Or.inr ⟨he, deleteDI_notDI _ _ g' hg'⟩)⟩
  · rename_i h
    exact ⟨g', hrev g' hg', Or.inl ⟨rfl, h⟩⟩


/-! ## default ignorables end up hidden or deleted -/

/-- the IGNORABLE bit of a slot says that its character is default-ignorable (and not ASCII) -/
def IgnOK (u : Ucd) (g : G) : Prop := g.props.ign = (decide (0x80 ≤ g.cp0) && u.isDI g.cp0)

/-- only the four position fields differ -/
def NonPos (g g' : G) : Prop :=
  g'.cp0 = g.cp0 ∧ g'.gid = g.gid ∧ g'.cluster = g.cluster ∧ g'.props = g.props ∧ g'.var1 = g.var1

def ZeroPos (g : G) : Prop := g.xa = 0 ∧ g.ya = 0 ∧ g.xo = 0 ∧ g.yo = 0

theorem NonPos.refl (g : G) : NonPos g g := ⟨rfl, rfl, rfl, rfl, rfl⟩
theorem NonPos.trans {a b c : G} (h1 : NonPos a b) (h2 : NonPos b c) : NonPos a c :=
  ⟨h2.1.trans h1.1, h2.2.1.trans h1.2.1, h2.2.2.1.trans h1.2.2.1, h2.2.2.2.1.trans h1.2.2.2.1,
   h2.2.2.2.2.trans h1.2.2.2.2⟩

theorem posDefault1_nonPos (f : Font) (dir : Dir) (g : G) : NonPos g (posDefault1 f dir g) := by
  unfold posDefault1; split <;> exact ⟨rfl, rfl, rfl, rfl, rfl⟩
theorem setAdvance_nonPos (dir : Dir) (g : G) (len : Int) : NonPos g (setAdvance dir g len) := by
  unfold setAdvance; split <;> exact ⟨rfl, rfl, rfl, rfl, rfl⟩
theorem copyAdvance_nonPos (f : Font) (dir : Dir) (g : G) (d : Nat) : NonPos g (copyAdvance f dir g d) := by
  unfold copyAdvance; split <;> exact ⟨rfl, rfl, rfl, rfl, rfl⟩
theorem fallbackSpace1_nonPos (f : Font) (dir : Dir) (g : G) : NonPos g (fallbackSpace1 f dir g) := by
  unfold fallbackSpace1
  simp only
  split
  · split
    · exact setAdvance_nonPos _ _ _
    · split
      · exact setAdvance_nonPos _ _ _
      · split
        · split
          · exact copyAdvance_nonPos _ _ _ _
          · exact NonPos.refl g
        · split
          · split
            · exact copyAdvance_nonPos _ _ _ _
            · exact NonPos.refl g
          · split
            · split <;> exact ⟨rfl, rfl, rfl, rfl, rfl⟩
            · exact NonPos.refl g
  · exact NonPos.refl g
theorem zeroMark_nonPos (adjust : Bool) (g : G) : NonPos g (zeroMark adjust g) := by
  unfold zeroMark; split <;> exact ⟨rfl, rfl, rfl, rfl, rfl⟩
theorem zeroGdef1_nonPos (adjust : Bool) (g : G) : NonPos g (zeroGdef1 adjust g) := by
  unfold zeroGdef1; split
  · exact zeroMark_nonPos _ _
  · exact NonPos.refl g
theorem zeroDI1_nonPos (g : G) : NonPos g (zeroDI1 g) := by
  unfold zeroDI1; split
  · exact ⟨rfl, rfl, rfl, rfl, rfl⟩
  · exact NonPos.refl g

theorem isDI_of_nonPos {g g' : G} (h : NonPos g g') : g'.isDI = g.isDI := by
  unfold G.isDI; rw [h.2.2.2.1, h.2.2.2.2]

theorem zeroMark_zero (adjust : Bool) (g : G) (h : ZeroPos g) : ZeroPos (zeroMark adjust g) := by
  obtain ⟨h1, h2, h3, h4⟩ := h
  unfold zeroMark ZeroPos; split <;> simp [h1, h2, h3, h4]

theorem zeroDI1_zero (g : G) (h : g.isDI = true) : ZeroPos (zeroDI1 g) := by
  unfold zeroDI1; rw [if_pos h]; exact ⟨rfl, rfl, rfl, rfl⟩

/-- consequences of the positioning chain for one slot -/
theorem PosChain.facts {f : Font} {c : Cfg} {bdir : Dir} {s : Scratch} {g g' : G}
    (h : PosChain f c bdir s g g') :
    NonPos g g' ∧
    ((s.hasDI && !hasFlag c.flags BF_PRESERVE && !hasFlag c.flags BF_REMOVE) = true → g.isDI = true → ZeroPos g') := by
  obtain ⟨g2, g4, h2, h4, h4', h'⟩ := h
  have n2 : NonPos g g2 := by
    rcases h2 with h2 | h2
    · rw [h2]; exact posDefault1_nonPos _ _ _
    · rw [h2]; exact (posDefault1_nonPos _ _ _).trans (fallbackSpace1_nonPos _ _ _)
  have n4 : NonPos g2 g4 := by
    rcases h4 with h4 | ⟨_, h4⟩
    · rw [h4]; exact zeroGdef1_nonPos _ _
    · rw [h4]; exact (zeroGdef1_nonPos _ _).trans (zeroDI1_nonPos _)
  have n' : NonPos g4 g' := by
    rcases h' with h' | h'
    · rw [h']; exact NonPos.refl _
    · rw [h']; exact zeroMark_nonPos _ _
  refine ⟨(n2.trans n4).trans n', ?_⟩
  intro hact hdi
  have h4e := h4' hact
  have hz : ZeroPos g4 := by
    rw [h4e]
    apply zeroDI1_zero
    rw [isDI_of_nonPos (zeroGdef1_nonPos _ _), isDI_of_nonPos n2]; exact hdi
  rcases h' with h' | h'
  · rw [h']; exact hz
  · rw [h']; exact zeroMark_zero _ _ hz

theorem decomposeCurrent_ign (u : Ucd) (f : Font) (g : G) (s : Scratch) :
    (decomposeCurrent u f g s).1.props.ign = g.props.ign ∧ (decomposeCurrent u f g s).1.cp0 = g.cp0 := by
  unfold decomposeCurrent
  split
  · exact ⟨rfl, rfl⟩
  · simp only
    split
    · exact ⟨rfl, rfl⟩
    · split
      · split <;> exact ⟨rfl, rfl⟩
      · exact ⟨rfl, rfl⟩

theorem setGlyph_ign (f : Font) (g : G) : (setGlyph f g).props = g.props ∧ (setGlyph f g).cp0 = g.cp0 := by
  unfold setGlyph; split <;> exact ⟨rfl, rfl⟩

theorem normStep_ign {u : Ucd} {f : Font} {g g' : G} (h : NormStep u f g g') :
    g'.props.ign = g.props.ign ∧ g'.cp0 = g.cp0 := by
  rcases h with h | ⟨s, h⟩ | h | h
  · rw [h]; exact ⟨rfl, rfl⟩
  · rw [h]; exact decomposeCurrent_ign u f g s
  · rw [h]; exact ⟨by rw [(setGlyph_ign f g).1], (setGlyph_ign f g).2⟩
  · rw [h]; exact ⟨by rw [(setGlyph_ign f _).1]; rfl, by rw [(setGlyph_ign f _).2]; rfl⟩

theorem mapGlyph1_facts (g : G) :
    (mapGlyph1 g).props = g.props ∧ (mapGlyph1 g).cp0 = g.cp0 ∧ (mapGlyph1 g).gid = g.var1 ∧
    ((mapGlyph1 g).var1 = 2 ∨ (mapGlyph1 g).var1 = 8) := by
  unfold mapGlyph1
  refine ⟨rfl, rfl, rfl, ?_⟩
  dsimp only
  split
  · exact Or.inl rfl
  · exact Or.inr rfl

theorem isDI_eq_ign {g : G} (h : g.var1 = 2 ∨ g.var1 = 8) : g.isDI = g.props.ign := by
  unfold G.isDI
  rcases h with h | h <;> rw [h] <;> simp

theorem initial_gid (text : List (Nat × Nat)) : ∀ g ∈ initial text, g.gid = g.cp0 ∧ g.var1 = 0 := by
  intro g hg
  unfold initial at hg
  obtain ⟨t, _, rfl⟩ := List.mem_map.mp hg
  exact ⟨rfl, rfl⟩

/-- The state of every slot of the result of `shapeCore` on a fresh buffer: the IGNORABLE bit is
    right, and a default-ignorable slot is, unless PRESERVE, either hidden (space glyph, zero
    position) or gone. -/
theorem shapeCore_di (u : Ucd) (f : Font) (c : Cfg) (text : List (Nat × Nat))
    (hP : hasFlag c.flags BF_PRESERVE = false) :
    ∀ g ∈ shapeCore u f c (initial text), (decide (0x80 ≤ g.cp0) && u.isDI g.cp0) = true →
      ∃ sp, nominal f 0x20 = some sp ∧ hasFlag c.flags BF_REMOVE = false ∧ g.gid = sp ∧ ZeroPos g := by
  intro g' hg' hdi
  unfold shapeCore at hg'
  simp only at hg'
  -- names for the phases
  generalize hp : prepare u f c (initial text) = p at hg'
  generalize hq : substitute u f c p.1 p.2.1 = q at hg'
  have hA : ∀ g ∈ p.1, IgnOK u g := by
    rw [← hp]
    apply prepare_all u f c (initial text) (IgnOK u)
    · intro g hg cont
      have := (initial_gid text g hg).1
      unfold IgnOK; simp only; rw [initP_ign, this]
    · intro cl; unfold IgnOK; simp only; rw [initP_ign]
    · intro g cl h; exact h
  have hAflag : ∀ g ∈ p.1, g.props.ign = true → p.2.1.hasDI = true := by
    rw [← hp]; exact prepare_hasDI u f c (initial text)
  have hB : ∀ g ∈ q.1, IgnOK u g ∧ (g.var1 = 2 ∨ g.var1 = 8) ∧ (g.props.ign = true → q.2.hasDI = true) := by
    rw [← hq]
    apply substitute_all u f c p.1 p.2.1 (fun g => IgnOK u g ∧ (g.props.ign = true → p.2.1.hasDI = true))
    · intro g ⟨hg, hgf⟩ g1 hr g2 hn
      obtain ⟨x, rfl⟩ := hr
      obtain ⟨hi, hc⟩ := normStep_ign hn
      obtain ⟨mp, mc, _, mv⟩ := mapGlyph1_facts g2
      refine ⟨?_, mv, ?_⟩
      · unfold IgnOK at *; rw [mp, mc, hi, hc]; exact hg
      · rw [mp, hi, substitute_hasDI]; exact hgf
    · intro g hg; exact ⟨hA g hg, hAflag g hg⟩
  obtain ⟨g3, hg3, hfin⟩ := finish_step f c p.2.2 q.2 _ g' hg'
  obtain ⟨g2, hg2, hchain⟩ := position_step f c p.2.2 q.2 q.1 g3 hg3
  obtain ⟨hnp, hzero⟩ := hchain.facts
  obtain ⟨hI2, hv2, hf2⟩ := hB g2 hg2
  -- facts about g3
  have hI3 : g3.props.ign = (decide (0x80 ≤ g3.cp0) && u.isDI g3.cp0) := by
    rw [hnp.2.2.2.1, hnp.1]; exact hI2
  have hv3 : g3.var1 = 2 ∨ g3.var1 = 8 := by rw [hnp.2.2.2.2]; exact hv2
  rcases hfin with ⟨he, hno⟩ | ⟨sp, hsp, hrem, he⟩ | ⟨he, hnd⟩
  · -- nothing hidden: impossible, the flag is set
    exfalso
    rw [he] at hdi
    have hign3 : g3.props.ign = true := by rw [hI3]; exact hdi
    have : q.2.hasDI = true := hf2 (by rw [← hnp.2.2.2.1]; exact hign3)
    apply hno; rw [this, hP]; rfl
  · -- hidden
    have hcp : g'.cp0 = g3.cp0 := by rw [he]; unfold hide1; split <;> rfl
    rw [hcp] at hdi
    have hign3 : g3.props.ign = true := by rw [hI3]; exact hdi
    have hdi3 : g3.isDI = true := by rw [isDI_eq_ign hv3]; exact hign3
    have hflag : q.2.hasDI = true := hf2 (by rw [← hnp.2.2.2.1]; exact hign3)
    have hz3 : ZeroPos g3 := hzero (by rw [hflag, hP, hrem]; rfl) (by rw [← isDI_of_nonPos hnp]; exact hdi3)
    refine ⟨sp, hsp, hrem, ?_, ?_⟩
    · rw [he]; unfold hide1; rw [if_pos hdi3]
    · rw [he]; unfold hide1; rw [if_pos hdi3]; exact hz3
  · -- deleted: the survivor is not a default ignorable
    exfalso
    have hcp : g'.cp0 = g3.cp0 := congrArg (fun x => x.cp0) he
    have hpr : g'.props = g3.props := congrArg (fun x => x.props) he
    have hvr : g'.var1 = g3.var1 := congrArg (fun x => x.var1) he
    rw [hcp] at hdi
    have hign3 : g3.props.ign = true := by rw [hI3]; exact hdi
    have : g'.isDI = true := by rw [isDI_eq_ign (by rw [hvr]; exact hv3), hpr]; exact hign3
    rw [this] at hnd; cases hnd


/-! ## glyph ids stay 16-bit -/

/-- every glyph id the parsed cmap subtables can return fits in 16 bits (ttf-parser's `GlyphId(u16)`) -/
def FontOK (f : Font) : Prop := ∀ s ∈ f.subs, ∀ c g, s.map c = some g → g < 65536

theorem nominal_lt {f : Font} (hf : FontOK f) {c g : Nat} (h : nominal f c = some g) : g < 65536 := by
  unfold nominal at h
  split at h
  · cases h
  · split at h
    · cases h
    · rename_i i _ s hs
      have hmem : s ∈ f.subs := List.mem_of_getElem? hs
      unfold nominalIn at h
      dsimp only at h
      generalize (if (s.platform == 1 && decide (c > RbModel.Gen.Cmap.macAsciiMax)) = true then toMacRoman c else c) = c' at h
      cases hm : s.map c' with
      | some g' =>
        rw [hm] at h
        injection h with h; subst h
        exact hf s hmem _ _ hm
      | none =>
        rw [hm] at h
        dsimp only at h
        split at h
        · exact hf s hmem _ _ h
        · cases h

theorem decomposeCurrent_var1 {u : Ucd} {f : Font} (hf : FontOK f) (g : G) (s : Scratch) :
    (decomposeCurrent u f g s).1.var1 < 65536 := by
  unfold decomposeCurrent
  split
  · rename_i gl h; exact nominal_lt hf h
  · simp only
    split
    · rename_i spg h
      split at h
      · exact nominal_lt hf h
      · cases h
    · split
      · split
        · rename_i o h; exact nominal_lt hf h
        · show (0 : Nat) < 65536; decide
      · show (0 : Nat) < 65536; decide

theorem setGlyph_var1 {f : Font} (hf : FontOK f) (g : G) (h : g.var1 < 65536) : (setGlyph f g).var1 < 65536 := by
  unfold setGlyph
  split
  · rename_i gl hgl; exact nominal_lt hf hgl
  · exact h

theorem normStep_var1 {u : Ucd} {f : Font} (hf : FontOK f) {g g' : G} (h : NormStep u f g g')
    (hg : g.var1 < 65536) : g'.var1 < 65536 := by
  rcases h with h | ⟨s, h⟩ | h | h
  · rw [h]; exact hg
  · rw [h]; exact decomposeCurrent_var1 hf g s
  · rw [h]; exact setGlyph_var1 hf g hg
  · rw [h]; exact setGlyph_var1 hf _ hg

theorem shapeCore_gid16 (u : Ucd) (f : Font) (c : Cfg) (text : List (Nat × Nat)) (hf : FontOK f) :
    ∀ g ∈ shapeCore u f c (initial text), g.gid < 65536 := by
  intro g' hg'
  unfold shapeCore at hg'
  simp only at hg'
  generalize hp : prepare u f c (initial text) = p at hg'
  generalize hq : substitute u f c p.1 p.2.1 = q at hg'
  have hA : ∀ g ∈ p.1, g.var1 < 65536 := by
    rw [← hp]
    apply prepare_all u f c (initial text) (fun g => g.var1 < 65536)
    · intro g hg cont
      show g.var1 < 65536; rw [(initial_gid text g hg).2]; decide
    · intro cl; show (0 : Nat) < 65536; decide
    · intro g cl h; exact h
  have hB : ∀ g ∈ q.1, g.gid < 65536 := by
    rw [← hq]
    apply substitute_all u f c p.1 p.2.1 (fun g => g.var1 < 65536)
    · intro g hg g1 hr g2 hn
      obtain ⟨x, rfl⟩ := hr
      rw [(mapGlyph1_facts g2).2.2.1]
      exact normStep_var1 hf hn hg
    · exact hA
  obtain ⟨g3, hg3, hfin⟩ := finish_step f c p.2.2 q.2 _ g' hg'
  obtain ⟨g2, hg2, hchain⟩ := position_step f c p.2.2 q.2 q.1 g3 hg3
  have h3 : g3.gid < 65536 := by rw [hchain.facts.1.2.1]; exact hB g2 hg2
  rcases hfin with ⟨he, _⟩ | ⟨sp, hsp, _, he⟩ | ⟨he, _⟩
  · rw [he]; exact h3
  · rw [he]; unfold hide1; split
    · exact nominal_lt hf hsp
    · exact h3
  · have : g'.gid = g3.gid := congrArg (fun x => x.gid) he
    rw [this]; exact h3


/-! ## cmap subtable preference -/

/-- the documented preference order of cmap subtables, (platform id, encoding id): Windows Symbol,
    the 32-bit Unicode encodings, the 16-bit ones, MacRoman (hb-ot-cmap-table.hh `find_best_subtable`;
    face.rs `find_best_cmap_subtable`) -/
def cmapPreference : List (Nat × Nat) :=
  [(3, 0), (3, 10), (0, 6), (0, 4), (3, 1), (0, 3), (0, 2), (0, 1), (0, 0), (1, 0)]

theorem bestSub_eq (subs : List CmapSub) :
    bestSub subs = cmapPreference.findSome? fun pe => findSub subs pe.1 pe.2 := by
  unfold bestSub cmapPreference
  simp only [List.findSome?]
  repeat (first | rfl | (cases findSub subs _ _ <;> simp only [Option.orElse]))

/-- `nominal` once the chosen subtable is known -/
theorem nominal_of_best (f : Font) (i : Nat) (s : CmapSub) (hbest : bestSub f.subs = some i) (hs : f.subs[i]? = some s)
    (c : Nat) : nominal f c = nominalIn s c := by
  unfold nominal
  rw [hbest]
  simp only [hs]

theorem findSub_some (subs : List CmapSub) (p e i : Nat) (h : findSub subs p e = some i) :
    (∃ s, subs[i]? = some s ∧ s.platform = p ∧ s.encoding = e) ∧
    ∀ j, j < i → ∀ s, subs[j]? = some s → ¬ (s.platform = p ∧ s.encoding = e) := by
  unfold findSub at h
  rw [List.findIdx?_eq_some_iff_getElem] at h
  obtain ⟨hi, hp, hj⟩ := h
  refine ⟨⟨subs[i], by simp [hi], by simpa using hp⟩, ?_⟩
  intro j hji s hs
  have hjl : j < subs.length := Nat.lt_trans hji hi
  have := hj j hji
  rw [List.getElem?_eq_getElem hjl] at hs
  injection hs with hs; subst hs
  simpa using this

theorem findSub_none (subs : List CmapSub) (p e : Nat) (h : findSub subs p e = none) :
    ∀ s ∈ subs, ¬ (s.platform = p ∧ s.encoding = e) := by
  unfold findSub at h
  rw [List.findIdx?_eq_none_iff] at h
  intro s hs
  simpa using h s hs

/-! ## texts without continuation characters -/

/-- code points that `set_unicode_props` may turn into grapheme continuations although they are not
    marks (emoji modifiers, regional indicators, ZWJ, halfwidth katakana sound marks, tags) -/
def contTrigger (u : Ucd) (c : Nat) : Bool :=
  (u.gc c == GC_MODIFIER_SYMBOL && decide (0x1F3FB ≤ c) && decide (c ≤ 0x1F3FF)) || inRI c || c == 0x200D
    || (decide (0xFF9E ≤ c) && decide (c ≤ 0xFF9F)) || (decide (0xE0020 ≤ c) && decide (c ≤ 0xE007F))

/-- a character that is not a mark and cannot become a grapheme continuation -/
structure PlainChar (u : Ucd) (c : Nat) : Prop where
  mark : isMarkGc (u.gc c) = false
  trig : contTrigger u c = false

theorem diExtra_hi_even (c : Nat) (p : UProps) (hc : c ≠ 0x200D) (hp : p.hi = 0) : (diExtra c p).hi % 2 = 0 := by
  unfold diExtra
  split
  · simp [hp]
  · split
    · rename_i h; simp at h; exact absurd h hc
    · split
      · simp [hp]
      · split
        · simp [hp]
        · split <;> simp [hp]

theorem initP_plain (u : Ucd) (c : Nat) (h : PlainChar u c) :
    (initP u c).cont = false ∧ (initP u c).hi % 2 = 0 := by
  have hc : c ≠ 0x200D := by
    intro hc; have := h.trig; simp [contTrigger, hc] at this
  unfold initP
  dsimp only
  split
  · exact ⟨rfl, rfl⟩
  · rw [if_neg (by simp [h.mark])]
    split
    · exact ⟨by rw [diExtra_cont], diExtra_hi_even c _ hc rfl⟩
    · exact ⟨rfl, rfl⟩

theorem classifyCont_plain (u : Ucd) (prev : Option G) (g : G) (h : PlainChar u g.gid) :
    classifyCont prev { g with props := initP u g.gid } = { g with props := initP u g.gid } ∧
    takesZwjBranch prev { g with props := initP u g.gid } = false := by
  have ht := h.trig
  simp only [contTrigger, Bool.or_eq_false_iff, Bool.and_eq_false_iff] at ht
  obtain ⟨⟨⟨⟨h1, h2⟩, h3⟩, h4⟩, h5⟩ := ht
  have hz : ({ g with props := initP u g.gid } : G).isZwj = false := by
    unfold G.isZwj; simp only; rw [(initP_plain u g.gid h).2]; simp
  constructor
  · unfold classifyCont
    simp only [initP_gc, hz, h2]
    split
    · rfl
    · split
      · rename_i hm; simp only [Bool.and_eq_true, decide_eq_true_eq] at hm
        rcases h1 with (h1 | h1) | h1 <;> simp_all
      · simp only [Bool.and_false, Bool.false_eq_true, if_false]
        split
        · rename_i hm; simp only [Bool.or_eq_true, Bool.and_eq_true, decide_eq_true_eq] at hm
          simp only [decide_eq_false_iff_not] at h4 h5
          omega
        · rfl
  · unfold takesZwjBranch; simp [hz]

theorem setUnicodeProps_plain (u : Ucd) (prev : Option G) (l : List G) (s : Scratch)
    (h : ∀ g ∈ l, PlainChar u g.gid) :
    (setUnicodeProps u prev false l s).1 = l.map fun g => { g with props := initP u g.gid } := by
  induction l generalizing prev s with
  | nil => rfl
  | cons g rest ih =>
    have hg := h g List.mem_cons_self
    simp only [setUnicodeProps, G.init, Bool.false_and, Bool.false_eq_true, if_false, List.map_cons]
    rw [(classifyCont_plain u prev g hg).1, (classifyCont_plain u prev g hg).2,
      ih _ _ (fun x hx => h x (List.mem_cons_of_mem _ hx))]


theorem takeWhile_eq_nil_of_all_false {α} (p : α → Bool) (l : List α) (h : ∀ x ∈ l, p x = false) :
    l.takeWhile p = [] ∧ l.dropWhile p = l := by
  cases l with
  | nil => exact ⟨rfl, rfl⟩
  | cons a t => simp [h a List.mem_cons_self]

theorem takeWhile_eq_self_of_all {α} (p : α → Bool) (l : List α) (h : ∀ x ∈ l, p x = true) :
    l.takeWhile p = l ∧ l.dropWhile p = [] := by
  induction l with
  | nil => exact ⟨rfl, rfl⟩
  | cons a t ih =>
    have := ih (fun x hx => h x (List.mem_cons_of_mem _ hx))
    simp [h a List.mem_cons_self, this]

theorem graphemeWalk_noCont (merge : Bool) (level : Nat) (rev : Bool) (n : Nat) (done l : List G)
    (h : ∀ g ∈ l, g.cont = false) : graphemeWalk merge level rev n done l = done ++ l := by
  induction n generalizing done l with
  | zero => rfl
  | succ n ih =>
    cases l with
    | nil => simp [graphemeWalk]
    | cons g tl =>
      have htl : ∀ x ∈ tl, x.cont = false := fun x hx => h x (List.mem_cons_of_mem _ hx)
      obtain ⟨ht, hd⟩ := takeWhile_eq_nil_of_all_false G.cont tl htl
      simp only [graphemeWalk, ht, hd]
      have : (if merge = true then mergeClusters level done [g] tl else (done, [g] ++ tl)) = (done, g :: tl) := by
        split
        · unfold mergeClusters; simp
        · rfl
      rw [this]
      simp only [List.length_singleton, List.take_succ_cons, List.take_zero, List.drop_succ_cons, List.drop_zero,
        List.reverse_singleton, ite_self]
      rw [ih _ tl htl]; simp

theorem formClusters_noCont (c : Cfg) (l : List G) (s : Scratch) (h : ∀ g ∈ l, g.cont = false) :
    formClusters c l s = l := by
  unfold formClusters
  split
  · rw [graphemeWalk_noCont _ _ _ _ _ _ h]; rfl
  · rfl

theorem reverseGraphemes_noCont (level : Nat) (l : List G) (h : ∀ g ∈ l, g.cont = false) :
    reverseGraphemes level l = l.reverse := by
  unfold reverseGraphemes
  rw [graphemeWalk_noCont _ _ _ _ _ _ h]; rfl

theorem mapAccum_found (u : Ucd) (f : Font) (l : List G) (s : Scratch)
    (h : ∀ g ∈ l, (nominal f g.gid).isSome = true) :
    mapAccum (decomposeCurrent u f) l s = (l.map fun g => { g with var1 := (nominal f g.gid).getD 0 }, s) := by
  induction l generalizing s with
  | nil => rfl
  | cons g tl ih =>
    have hg := h g List.mem_cons_self
    have hd : decomposeCurrent u f g s = ({ g with var1 := (nominal f g.gid).getD 0 }, s) := by
      unfold decomposeCurrent
      cases hn : nominal f g.gid with
      | none => rw [hn] at hg; cases hg
      | some gl => rfl
    simp only [mapAccum, hd, List.map_cons]
    rw [ih s (fun x hx => h x (List.mem_cons_of_mem _ hx))]

theorem normalizeRound1_noMarks (u : Ucd) (f : Font) (n : Nat) (l : List G) (s : Scratch)
    (hn : 0 < n) (h : ∀ g ∈ l, g.isMark = false) :
    normalizeRound1 u f n l s = mapAccum (decomposeCurrent u f) l s := by
  cases n with
  | zero => cases hn
  | succ n =>
    cases l with
    | nil => rfl
    | cons g0 rest =>
      have hr : ∀ x ∈ rest, (!x.isMark) = true := by
        intro x hx; rw [h x (List.mem_cons_of_mem _ hx)]; rfl
      have hd : rest.dropWhile (fun g => !g.isMark) = [] := (takeWhile_eq_self_of_all _ rest hr).2
      have ht : rest.takeWhile (fun g => !g.isMark) = rest := (takeWhile_eq_self_of_all _ rest hr).1
      simp only [normalizeRound1, hd, ht]

theorem positionMarksFb_noMarks (adjust seen : Bool) (l : List G) (h : ∀ g ∈ l, g.isMark = false) :
    positionMarksFb adjust seen l = l := by
  induction l generalizing seen with
  | nil => rfl
  | cons g tl ih =>
    simp only [positionMarksFb, h g List.mem_cons_self, Bool.false_eq_true, if_false]
    rw [ih true (fun x hx => h x (List.mem_cons_of_mem _ hx))]


/-- what `rotate_chars` does to one slot for the requested direction -/
def rot1 (u : Ucd) (f : Font) (c : Cfg) (g : G) : G :=
  let g := if c.dir.isBackward then mirror1 u f g else g
  if c.dir.isVertical then vert1 u f g else g

theorem rotateChars_eq_map (u : Ucd) (f : Font) (c : Cfg) (l : List G) :
    rotateChars u f c l = l.map (rot1 u f c) := by
  unfold rotateChars rot1
  cases c.dir.isBackward <;> cases c.dir.isVertical <;> simp [List.map_map, Function.comp_def]

theorem mirror1_props (u : Ucd) (f : Font) (g : G) :
    (mirror1 u f g).props = g.props ∧ (mirror1 u f g).cp0 = g.cp0 ∧ (mirror1 u f g).cluster = g.cluster
      ∧ (mirror1 u f g).var1 = g.var1 := by
  unfold mirror1; split
  · split <;> exact ⟨rfl, rfl, rfl, rfl⟩
  · exact ⟨rfl, rfl, rfl, rfl⟩
theorem vert1_props (u : Ucd) (f : Font) (g : G) :
    (vert1 u f g).props = g.props ∧ (vert1 u f g).cp0 = g.cp0 ∧ (vert1 u f g).cluster = g.cluster
      ∧ (vert1 u f g).var1 = g.var1 := by
  unfold vert1; split
  · split <;> exact ⟨rfl, rfl, rfl, rfl⟩
  · exact ⟨rfl, rfl, rfl, rfl⟩
theorem rot1_props (u : Ucd) (f : Font) (c : Cfg) (g : G) :
    (rot1 u f c g).props = g.props ∧ (rot1 u f c g).cp0 = g.cp0 ∧ (rot1 u f c g).cluster = g.cluster
      ∧ (rot1 u f c g).var1 = g.var1 := by
  unfold rot1
  cases c.dir.isBackward <;> cases c.dir.isVertical <;>
    simp [mirror1_props, vert1_props]

/-- the slot a plain character ends up as (before the orientation of the whole run) -/
def renderPlain (u : Ucd) (f : Font) (c : Cfg) (g : G) : G :=
  let g1 := rot1 u f c { g with props := initP u g.gid }
  posDefault1 f c.dir (mapGlyph1 { g1 with var1 := (nominal f g1.gid).getD 0 })

theorem posDefault1_congr (f : Font) (d d' : Dir) (h : d.isHorizontal = d'.isHorizontal) (g : G) :
    posDefault1 f d g = posDefault1 f d' g := by
  unfold posDefault1; rw [h]

theorem insertDottedCircle_noMark (u : Ucd) (f : Font) (c : Cfg) (l : List G) (s : Scratch)
    (h : ∀ g ∈ l.head?, g.isMark = false) : insertDottedCircle u f c l s = (l, s) := by
  unfold insertDottedCircle
  cases l with
  | nil => rfl
  | cons g0 tl =>
    simp only
    rw [h g0 (by simp)]
    simp

theorem map_id_of_forall {l : List G} {fn : G → G} (h : ∀ g ∈ l, fn g = g) : l.map fn = l := by
  induction l with
  | nil => rfl
  | cons a t ih =>
    rw [List.map_cons, h a List.mem_cons_self, ih (fun x hx => h x (List.mem_cons_of_mem _ hx))]


theorem prepare_plain (u : Ucd) (f : Font) (c : Cfg) (l : List G) (h : ∀ g ∈ l, PlainChar u g.gid) :
    prepare u f c l =
      let l1 := l.map fun g => { g with props := initP u g.gid }
      let s1 := l.foldl (fun s g => initS u g.gid s) {}
      (if needsReverse c l1 then l1.reverse else l1, s1, if needsReverse c l1 then c.dir.reverse else c.dir) := by
  have hsu := setUnicodeProps_plain u none l {} h
  have hsc := setUnicodeProps_scratch u none false l {}
  have hnm : ∀ g ∈ l.map (fun g => ({ g with props := initP u g.gid } : G)), g.isMark = false ∧ g.cont = false := by
    intro g hg
    obtain ⟨x, hx, rfl⟩ := List.mem_map.mp hg
    exact ⟨by unfold G.isMark; simp only; rw [initP_gc]; exact (h x hx).mark, (initP_plain u x.gid (h x hx)).1⟩
  unfold prepare
  simp only
  rw [hsu, hsc, insertDottedCircle_noMark u f c _ _ (by
    intro g hg; exact (hnm g (List.mem_of_mem_head? hg)).1)]
  simp only
  rw [formClusters_noCont c _ _ (fun g hg => (hnm g hg).2)]
  unfold ensureNativeDirection
  split
  · rw [reverseGraphemes_noCont _ _ (fun g hg => (hnm g hg).2)]
  · rfl

theorem substitute_plain (u : Ucd) (f : Font) (c : Cfg) (l : List G) (s : Scratch)
    (hm : ∀ g ∈ l, g.isMark = false)
    (hg : ∀ g ∈ l, (nominal f (rot1 u f c g).gid).isSome = true) :
    substitute u f c l s =
      (l.map fun g => mapGlyph1 { rot1 u f c g with var1 := (nominal f (rot1 u f c g).gid).getD 0 }, s) := by
  unfold substitute
  simp only
  rw [rotateChars_eq_map]
  cases l with
  | nil => rfl
  | cons a t =>
    rw [normalizeRound1_noMarks u f _ _ s (by simp) (by
      intro g hg'
      obtain ⟨x, hx, rfl⟩ := List.mem_map.mp hg'
      unfold G.isMark; rw [(rot1_props u f c x).1]; exact hm x hx)]
    rw [mapAccum_found u f _ s (by
      intro g hg'
      obtain ⟨x, hx, rfl⟩ := List.mem_map.mp hg'
      exact hg x hx)]
    simp only [mapGlyphsAndClasses, List.map_map, Function.comp_def]

theorem zeroGdef1_base (adjust : Bool) (g : G) (h : g.var1 = 2) : zeroGdef1 adjust g = g := by
  unfold zeroGdef1; rw [h]; rfl

theorem position_plain (f : Font) (c : Cfg) (bdir : Dir) (s : Scratch) (l : List G)
    (hm : ∀ g ∈ l, g.isMark = false) (hv : ∀ g ∈ l, g.var1 = 2)
    (hs : s.hasSpaceFb = false)
    (hd : (s.hasDI && !hasFlag c.flags BF_PRESERVE) = false) :
    position f c bdir s l = l.map (posDefault1 f bdir) := by
  unfold position
  simp only [hs, Bool.false_eq_true, if_false]
  have h1 : zeroMarkWidthsByGdef bdir.isForward (positionDefault f bdir l) = positionDefault f bdir l := by
    unfold zeroMarkWidthsByGdef positionDefault
    apply map_id_of_forall
    intro g hg
    obtain ⟨x, hx, rfl⟩ := List.mem_map.mp hg
    exact zeroGdef1_base _ _ (by rw [(posDefault1_nonPos f bdir x).2.2.2.2]; exact hv x hx)
  rw [h1]
  have h2 : zeroWidthDI c s (positionDefault f bdir l) = positionDefault f bdir l := by
    unfold zeroWidthDI
    rw [if_neg]
    rw [Bool.and_assoc]
    intro hh
    simp only [Bool.and_eq_true] at hh
    rw [Bool.and_eq_false_iff] at hd
    rcases hd with hd | hd
    · rw [hd] at hh; exact absurd hh.1 (by decide)
    · rw [hd] at hh; exact absurd hh.2.1 (by decide)
  rw [h2]
  apply positionMarksFb_noMarks
  intro g hg
  unfold positionDefault at hg
  obtain ⟨x, hx, rfl⟩ := List.mem_map.mp hg
  unfold G.isMark; rw [(posDefault1_nonPos f bdir x).2.2.2.1]; exact hm x hx

theorem finish_plain (f : Font) (c : Cfg) (bdir : Dir) (s : Scratch) (l : List G)
    (hd : (s.hasDI && !hasFlag c.flags BF_PRESERVE) = false) :
    finish f c bdir s l = if bdir.isBackward then l.reverse else l := by
  unfold finish hideDI
  rw [hd]; rfl


theorem isBackward_reverse (d : Dir) : d.reverse.isBackward = !d.isBackward := by cases d <;> rfl
theorem isHorizontal_reverse (d : Dir) : d.reverse.isHorizontal = d.isHorizontal := by cases d <;> rfl

/-- a text of plain characters that all have glyphs, with nothing to hide: every slot is rendered on
    its own, and the run is reversed exactly when the requested direction is backward -/
theorem shapeCore_plain (u : Ucd) (f : Font) (c : Cfg) (l : List G)
    (h1 : ∀ g ∈ l, PlainChar u g.gid)
    (h2 : ∀ g ∈ l, (nominal f (rot1 u f c { g with props := initP u g.gid }).gid).isSome = true)
    (h3 : (∀ g ∈ l, (decide (0x80 ≤ g.gid) && u.isDI g.gid) = false) ∨ hasFlag c.flags BF_PRESERVE = true) :
    shapeCore u f c l =
      if c.dir.isBackward then (l.map (renderPlain u f c)).reverse else l.map (renderPlain u f c) := by
  unfold shapeCore
  simp only
  rw [prepare_plain u f c l h1]
  simp only
  generalize hl1 : l.map (fun g => ({ g with props := initP u g.gid } : G)) = l1
  generalize hs1 : l.foldl (fun s g => initS u g.gid s) {} = s1
  have hs1f : s1.hasSpaceFb = false := by rw [← hs1, foldl_initS_hasSpaceFb]
  have hs1d : (s1.hasDI && !hasFlag c.flags BF_PRESERVE) = false := by
    rcases h3 with h3 | h3
    · have : s1.hasDI = false := by
        rw [← hs1, foldl_initS_hasDI]
        simp only [Bool.false_or, List.any_eq_false]
        intro g hg; rw [h3 g hg]; decide
      rw [this]; rfl
    · rw [h3]; simp
  have hm1 : ∀ g ∈ l1, g.isMark = false := by
    rw [← hl1]; intro g hg
    obtain ⟨x, hx, rfl⟩ := List.mem_map.mp hg
    unfold G.isMark; simp only; rw [initP_gc]; exact (h1 x hx).mark
  have hg1 : ∀ g ∈ l1, (nominal f (rot1 u f c g).gid).isSome = true := by
    rw [← hl1]; intro g hg
    obtain ⟨x, hx, rfl⟩ := List.mem_map.mp hg
    exact h2 x hx
  -- the two buffers that can come out of `prepare`
  have key : ∀ (l2 : List G) (bdir : Dir), (∀ g ∈ l2, g ∈ l1) → bdir.isHorizontal = c.dir.isHorizontal →
      finish f c bdir (substitute u f c l2 s1).2
        (position f c bdir (substitute u f c l2 s1).2 (substitute u f c l2 s1).1) =
      if bdir.isBackward then
        (l2.map fun g => posDefault1 f c.dir (mapGlyph1 { rot1 u f c g with var1 := (nominal f (rot1 u f c g).gid).getD 0 })).reverse
      else l2.map fun g => posDefault1 f c.dir (mapGlyph1 { rot1 u f c g with var1 := (nominal f (rot1 u f c g).gid).getD 0 }) := by
    intro l2 bdir hsub hhor
    rw [substitute_plain u f c l2 s1 (fun g hg => hm1 g (hsub g hg)) (fun g hg => hg1 g (hsub g hg))]
    simp only
    rw [position_plain f c bdir s1 _ ?_ ?_ hs1f hs1d, finish_plain f c bdir s1 _ hs1d]
    · simp only [List.map_map, Function.comp_def, posDefault1_congr f bdir c.dir hhor]
    · intro g hg
      obtain ⟨x, hx, rfl⟩ := List.mem_map.mp hg
      unfold G.isMark
      rw [(mapGlyph1_facts _).1]
      show isMarkGc (rot1 u f c x).props.gc = false
      rw [(rot1_props u f c x).1]; exact hm1 x (hsub x hx)
    · intro g hg
      obtain ⟨x, hx, rfl⟩ := List.mem_map.mp hg
      unfold mapGlyph1
      dsimp only
      rw [if_pos]
      have : (rot1 u f c x).props.gc != GC_NON_SPACING_MARK := by
        rw [(rot1_props u f c x).1]
        have := hm1 x (hsub x hx)
        unfold G.isMark isMarkGc at this
        simp only [Bool.or_eq_false_iff] at this
        simpa using this.2
      rw [this]; rfl
  have hrender : ∀ g, posDefault1 f c.dir (mapGlyph1 { rot1 u f c ({ g with props := initP u g.gid } : G) with
      var1 := (nominal f (rot1 u f c ({ g with props := initP u g.gid } : G)).gid).getD 0 }) = renderPlain u f c g := by
    intro g; rfl
  split
  · rename_i hnr
    rw [key l1.reverse c.dir.reverse (fun g hg => List.mem_reverse.mp hg) (isHorizontal_reverse _)]
    rw [isBackward_reverse, ← hl1]
    simp only [List.map_reverse, List.map_map, Function.comp_def, hrender]
    cases c.dir.isBackward <;> simp
  · rw [key l1 c.dir (fun g hg => hg) rfl, ← hl1]
    simp only [List.map_map, Function.comp_def, hrender]


/-- the mirrored form of `cp` when the font has it -/
def mirrorCp (u : Ucd) (f : Font) (cp : Nat) : Nat :=
  match u.mirror cp with
  | some m => if (nominal f m).isSome then m else cp
  | none => cp

/-- the vertical form of `cp` when the font has it -/
def vertCp (u : Ucd) (f : Font) (cp : Nat) : Nat :=
  match u.vert cp with
  | some v => if (nominal f v).isSome then v else cp
  | none => cp

/-- the code point `rotate_chars` leaves for `cp`: the mirrored form when the requested direction is
    backward and the font has it, then the vertical form when the direction is vertical and the font has it -/
def rotCp (u : Ucd) (f : Font) (c : Cfg) (cp : Nat) : Nat :=
  let cp := if c.dir.isBackward then mirrorCp u f cp else cp
  if c.dir.isVertical then vertCp u f cp else cp

theorem mirror1_gid (u : Ucd) (f : Font) (g : G) : (mirror1 u f g).gid = mirrorCp u f g.gid := by
  unfold mirror1 mirrorCp
  cases u.mirror g.gid with
  | none => rfl
  | some m => dsimp only; split <;> rfl

theorem vert1_gid (u : Ucd) (f : Font) (g : G) : (vert1 u f g).gid = vertCp u f g.gid := by
  unfold vert1 vertCp
  cases u.vert g.gid with
  | none => rfl
  | some m => dsimp only; split <;> rfl

theorem rot1_gid (u : Ucd) (f : Font) (c : Cfg) (g : G) : (rot1 u f c g).gid = rotCp u f c g.gid := by
  unfold rot1 rotCp
  cases c.dir.isBackward <;> cases c.dir.isVertical <;> simp [mirror1_gid, vert1_gid]

/-- the slot of a plain character `t = (code point, cluster)` in the result, written out -/
def glyphOf (u : Ucd) (f : Font) (c : Cfg) (t : Nat × Nat) : G :=
  let gl := (nominal f (rotCp u f c t.1)).getD 0
  if c.dir.isHorizontal then
    { cp0 := t.1, gid := gl, cluster := t.2, props := initP u t.1, var1 := 2,
      xa := hAdvance f gl, ya := 0, xo := 0, yo := 0 }
  else
    { cp0 := t.1, gid := gl, cluster := t.2, props := initP u t.1, var1 := 2,
      xa := 0, ya := vAdvance f gl, xo := -(hOrigin f gl), yo := -(vOrigin f gl) }

theorem renderPlain_initial (u : Ucd) (f : Font) (c : Cfg) (t : Nat × Nat)
    (hm : isMarkGc (u.gc t.1) = false) :
    renderPlain u f c { cp0 := t.1, gid := t.1, cluster := t.2 } = glyphOf u f c t := by
  unfold renderPlain glyphOf
  simp only
  rw [rot1_gid]
  have hp := rot1_props u f c ({ cp0 := t.1, gid := t.1, cluster := t.2, props := initP u t.1 } : G)
  have hcls : (mapGlyph1 { rot1 u f c ({ cp0 := t.1, gid := t.1, cluster := t.2, props := initP u t.1 } : G) with
      var1 := (nominal f (rotCp u f c t.1)).getD 0 }).var1 = 2 := by
    unfold mapGlyph1
    dsimp only
    rw [if_pos]
    have : (rot1 u f c ({ cp0 := t.1, gid := t.1, cluster := t.2, props := initP u t.1 } : G)).props.gc
        != GC_NON_SPACING_MARK := by
      rw [hp.1]; simp only; rw [initP_gc]
      unfold isMarkGc at hm
      simp only [Bool.or_eq_false_iff] at hm
      simpa using hm.2
    rw [this]; rfl
  unfold posDefault1
  split
  · congr 1
    · exact hp.2.1
    · exact hp.2.2.1
    · exact hp.1
  · simp only [Int.zero_sub]
    congr 1
    · exact hp.2.1
    · exact hp.2.2.1
    · exact hp.1

/-- `shape` on a text of plain characters that all have glyphs, when nothing is to be hidden -/
theorem shape_plain (u : Ucd) (f : Font) (c : Cfg) (text : List (Nat × Nat))
    (hs : ∀ t ∈ text, u.norm t.1 = false ∧ u.mcc t.1 = 0)
    (h1 : ∀ t ∈ text, PlainChar u t.1)
    (h2 : ∀ t ∈ text, (nominal f (rotCp u f c t.1)).isSome = true)
    (h3 : (∀ t ∈ text, (decide (0x80 ≤ t.1) && u.isDI t.1) = false) ∨ hasFlag c.flags BF_PRESERVE = true) :
    shape u f c text = .ok
      (if c.dir.isBackward then (text.map (glyphOf u f c)).reverse else text.map (glyphOf u f c)) := by
  unfold shape
  simp only
  have hsc : inScope u (initial text) = true := by
    unfold inScope initial
    simp only [List.all_map, List.all_eq_true, Function.comp_def]
    intro t ht
    obtain ⟨a, b⟩ := hs t ht
    simp [a, b]
  rw [hsc]
  simp only [Bool.not_true, Bool.false_eq_true, if_false]
  split
  · rename_i he
    have : text = [] := by
      cases text with
      | nil => rfl
      | cons a b => simp [initial] at he
    subst this; simp
  · rw [shapeCore_plain u f c (initial text)]
    · have : (initial text).map (renderPlain u f c) = text.map (glyphOf u f c) := by
        unfold initial
        rw [List.map_map]
        apply List.map_congr_left
        intro t ht
        exact renderPlain_initial u f c t (h1 t ht).mark
      rw [this]
    · intro g hg
      unfold initial at hg
      obtain ⟨t, ht, rfl⟩ := List.mem_map.mp hg
      exact h1 t ht
    · intro g hg
      unfold initial at hg
      obtain ⟨t, ht, rfl⟩ := List.mem_map.mp hg
      rw [rot1_gid]; exact h2 t ht
    · rcases h3 with h3 | h3
      · left
        intro g hg
        unfold initial at hg
        obtain ⟨t, ht, rfl⟩ := List.mem_map.mp hg
        exact h3 t ht
      · exact Or.inr h3

/-! ## slot-by-slot relations between two buffers of the same length -/

inductive Rel2 (R : G → G → Prop) : List G → List G → Prop
  | nil : Rel2 R [] []
  | cons {a b : G} {l l' : List G} : R a b → Rel2 R l l' → Rel2 R (a :: l) (b :: l')

theorem Rel2.refl {R : G → G → Prop} (hR : ∀ g, R g g) (l : List G) : Rel2 R l l := by
  induction l with
  | nil => exact .nil
  | cons a t ih => exact .cons (hR a) ih

theorem Rel2.map {R : G → G → Prop} (fn : G → G) (h : ∀ g, R g (fn g)) (l : List G) : Rel2 R l (l.map fn) := by
  induction l with
  | nil => exact .nil
  | cons a t ih => exact .cons (h a) ih

theorem Rel2.append {R : G → G → Prop} {a b a' b' : List G} (h1 : Rel2 R a a') (h2 : Rel2 R b b') :
    Rel2 R (a ++ b) (a' ++ b') := by
  induction h1 with
  | nil => exact h2
  | cons h _ ih => exact .cons h ih

theorem Rel2.mono {R S : G → G → Prop} (h : ∀ a b, R a b → S a b) {l l' : List G} (hr : Rel2 R l l') :
    Rel2 S l l' := by
  induction hr with
  | nil => exact .nil
  | cons hab _ ih => exact .cons (h _ _ hab) ih

/-- the same, when the implication is only needed for slots of the first buffer -/
theorem Rel2.mono_mem {R S : G → G → Prop} {l l' : List G} (hr : Rel2 R l l')
    (h : ∀ a ∈ l, ∀ b, R a b → S a b) : Rel2 S l l' := by
  induction hr with
  | nil => exact .nil
  | cons hab _ ih =>
    exact .cons (h _ List.mem_cons_self _ hab) (ih (fun a ha b hb => h a (List.mem_cons_of_mem _ ha) b hb))

theorem Rel2.comp {R S : G → G → Prop} {a b c : List G} (h1 : Rel2 R a b) (h2 : Rel2 S b c) :
    Rel2 (fun x z => ∃ y, R x y ∧ S y z) a c := by
  induction h1 generalizing c with
  | nil => cases h2; exact .nil
  | cons hab _ ih =>
    cases h2 with
    | cons hbc h2' => exact .cons ⟨_, hab, hbc⟩ (ih h2')

theorem Rel2.of_map_eq {α} (key : G → α) {l l' : List G} (h : l'.map key = l.map key) :
    Rel2 (fun a b => key b = key a) l l' := by
  induction l generalizing l' with
  | nil =>
    cases l' with
    | nil => exact .nil
    | cons b t => simp at h
  | cons a t ih =>
    cases l' with
    | nil => simp at h
    | cons b t' =>
      simp only [List.map_cons, List.cons.injEq] at h
      exact .cons h.1 (ih h.2)

theorem Rel2.length {R : G → G → Prop} {l l' : List G} (h : Rel2 R l l') : l'.length = l.length := by
  induction h with
  | nil => rfl
  | cons _ _ ih => simp [ih]

/-- filtering both buffers by a predicate the relation preserves, then projecting -/
theorem Rel2.filter_map {R : G → G → Prop} {α} (D : G → Bool) (ψ φ : G → α) {l l' : List G}
    (hr : Rel2 R l l')
    (hD : ∀ a ∈ l, ∀ b, R a b → D b = D a)
    (hφ : ∀ a ∈ l, ∀ b, R a b → D a = false → ψ b = φ a) :
    (l'.filter fun g => !D g).map ψ = (l.filter fun g => !D g).map φ := by
  induction hr with
  | nil => rfl
  | @cons a b l l' hab _ ih =>
    have hDab := hD a List.mem_cons_self b hab
    have ih' := ih (fun x hx y hy => hD x (List.mem_cons_of_mem _ hx) y hy)
      (fun x hx y hy => hφ x (List.mem_cons_of_mem _ hx) y hy)
    simp only [List.filter_cons, hDab]
    cases hda : D a with
    | true => simpa using ih'
    | false =>
      simp only [Bool.not_false, if_true, List.map_cons]
      rw [hφ a List.mem_cons_self b hab hda, ih']


theorem setUnicodeProps_rel (u : Ucd) (prev : Option G) (az : Bool) (l : List G) (s : Scratch) :
    Rel2 (PropsStep u) l (setUnicodeProps u prev az l s).1 := by
  induction l generalizing prev az s with
  | nil => exact .nil
  | cons g rest ih =>
    simp only [setUnicodeProps, G.init]
    split
    · exact .cons ⟨true, rfl⟩ (ih _ _ _)
    · refine .cons ?_ (ih _ _ _)
      rcases classifyCont_cases prev { g with props := initP u g.gid } with hc | hc
      · exact ⟨(initP u g.gid).cont, by rw [hc]⟩
      · exact ⟨true, by rw [hc]; rfl⟩

/-- what the normalizer does to one slot when it runs to the end -/
def NormStep' (u : Ucd) (f : Font) (g g' : G) : Prop :=
  (∃ s, g' = (decomposeCurrent u f g s).1) ∨ g' = setGlyph f g ∨
    (isVS g.gid = true ∧ g' = setGlyph f (customizeVS g))

theorem mapAccum_rel (u : Ucd) (f : Font) (l : List G) (s : Scratch) :
    Rel2 (NormStep' u f) l (mapAccum (decomposeCurrent u f) l s).1 := by
  induction l generalizing s with
  | nil => exact .nil
  | cons g tl ih => exact .cons (Or.inl ⟨s, rfl⟩) (ih _)

theorem vsCluster_rel (u : Ucd) (f : Font) (n : Nat) (l : List G) (hn : l.length ≤ n) :
    Rel2 (NormStep' u f) l (vsCluster f n l).1 := by
  induction n generalizing l with
  | zero =>
    cases l with
    | nil => exact .nil
    | cons a t => simp at hn
  | succ n ih =>
    match l, hn with
    | [], _ => exact .nil
    | [a], _ => exact .cons (Or.inr (Or.inl rfl)) .nil
    | a :: b :: rest, hn =>
      simp only [vsCluster]
      split
      · rename_i hvs
        dsimp only
        have hsplit : a :: b :: rest = (a :: b :: rest.takeWhile fun g => isVS g.gid) ++ rest.dropWhile fun g => isVS g.gid := by
          simp [List.takeWhile_append_dropWhile]
        rw [hsplit]
        apply Rel2.append
        · refine .cons (Or.inr (Or.inl rfl)) (.cons (Or.inr (Or.inr ⟨hvs, rfl⟩)) ?_)
          exact Rel2.map _ (fun g => Or.inr (Or.inl rfl)) _
        · apply ih
          have := (List.dropWhile_sublist (l := rest) fun g => isVS g.gid).length_le
          simp at hn; omega
      · dsimp only
        exact .cons (Or.inr (Or.inl rfl)) (ih _ (by simp at hn ⊢; omega))

theorem multiCharCluster_rel (u : Ucd) (f : Font) (cl : List G) (s : Scratch) :
    Rel2 (NormStep' u f) cl (multiCharCluster u f cl s).1 := by
  unfold multiCharCluster
  split
  · exact vsCluster_rel u f _ _ (Nat.le_refl _)
  · exact mapAccum_rel u f cl s

theorem dropLast_append_getLast?_getD {α} (d : α) (l : List α) (h : l ≠ []) :
    l.dropLast ++ [l.getLast?.getD d] = l := by
  induction l with
  | nil => exact absurd rfl h
  | cons a t ih =>
    cases t with
    | nil => simp
    | cons b t' =>
      have := ih (by simp)
      simp only [List.dropLast_cons_cons, List.cons_append, List.getLast?_cons_cons]
      rw [this]

theorem normalizeRound1_rel (u : Ucd) (f : Font) (n : Nat) (l : List G) (s : Scratch) (hn : l.length ≤ n) :
    Rel2 (NormStep' u f) l (normalizeRound1 u f n l s).1 := by
  induction n generalizing l s with
  | zero =>
    cases l with
    | nil => exact .nil
    | cons a t => simp at hn
  | succ n ih =>
    cases l with
    | nil => exact .nil
    | cons g0 rest =>
      simp only [normalizeRound1]
      have hrest : rest = rest.takeWhile (fun g => !g.isMark) ++ rest.dropWhile (fun g => !g.isMark) :=
        (List.takeWhile_append_dropWhile).symm
      split
      · rename_i hafter
        have : g0 :: rest = g0 :: rest.takeWhile (fun g => !g.isMark) := by
          rw [hafter, List.append_nil] at hrest; rw [← hrest]
        rw [this]
        exact mapAccum_rel u f _ s
      · rename_i a b hafter
        dsimp only
        generalize hrun : g0 :: rest.takeWhile (fun g => !g.isMark) = run
        have hrun_ne : run ≠ [] := by rw [← hrun]; simp
        have hafter2 : rest.dropWhile (fun g => !g.isMark)
            = (rest.dropWhile fun g => !g.isMark).takeWhile G.isMark ++ (rest.dropWhile fun g => !g.isMark).dropWhile G.isMark :=
          (List.takeWhile_append_dropWhile).symm
        have hl : g0 :: rest = run.dropLast ++ (run.getLast?.getD g0 :: (rest.dropWhile fun g => !g.isMark).takeWhile G.isMark)
            ++ (rest.dropWhile fun g => !g.isMark).dropWhile G.isMark := by
          have h1 : g0 :: rest = run ++ rest.dropWhile (fun g => !g.isMark) := by
            rw [← hrun]; simp only [List.cons_append]; rw [← hrest]
          rw [h1]
          conv => lhs; rw [← dropLast_append_getLast?_getD g0 run hrun_ne, hafter2]
          simp [List.append_assoc]
        rw [hl]
        apply Rel2.append
        · apply Rel2.append
          · exact mapAccum_rel u f _ s
          · exact multiCharCluster_rel u f _ _
        · apply ih
          have h1 := (List.dropWhile_sublist (l := rest) fun g => !g.isMark).length_le
          have h2 := (List.dropWhile_sublist (l := rest.dropWhile fun g => !g.isMark) G.isMark).length_le
          simp at hn; omega

theorem positionMarksFb_rel (adjust seen : Bool) (l : List G) :
    Rel2 (fun g g' => g' = g ∨ (g.isMark = true ∧ g' = zeroMark adjust g)) l (positionMarksFb adjust seen l) := by
  induction l generalizing seen with
  | nil => exact .nil
  | cons g tl ih =>
    simp only [positionMarksFb]
    split
    · rename_i hm
      refine .cons ?_ (ih _)
      split
      · exact Or.inr ⟨hm, rfl⟩
      · exact Or.inl rfl
    · exact .cons (Or.inl rfl) (ih _)


/-! ## one plain slot through the left-to-right pipeline -/

theorem fallbackSpace1_hi0 (f : Font) (dir : Dir) (g : G) (h : g.props.hi = 0) : fallbackSpace1 f dir g = g := by
  unfold fallbackSpace1
  split
  · simp only [h]
    have e1 : ((0 : Nat) == SPACE_EM || (0 : Nat) == SPACE_EM_2 || (0 : Nat) == SPACE_EM_3 || (0 : Nat) == SPACE_EM_4
        || (0 : Nat) == SPACE_EM_5 || (0 : Nat) == SPACE_EM_6 || (0 : Nat) == SPACE_EM_16) = false := by decide
    have e2 : ((0 : Nat) == SPACE_4_EM_18) = false := by decide
    have e3 : ((0 : Nat) == SPACE_FIGURE) = false := by decide
    have e4 : ((0 : Nat) == SPACE_PUNCTUATION) = false := by decide
    have e5 : ((0 : Nat) == SPACE_NARROW) = false := by decide
    simp only [e1, e2, e3, e4, e5, Bool.false_eq_true, if_false]
  · rfl

/-- the version of `positionMarksFb`'s relation inside the positioning chain -/
def PosChain' (f : Font) (c : Cfg) (bdir : Dir) (s : Scratch) (g g' : G) : Prop :=
  ∃ g2 g4,
    (g2 = posDefault1 f bdir g ∨ g2 = fallbackSpace1 f bdir (posDefault1 f bdir g)) ∧
    (g4 = zeroGdef1 bdir.isForward g2 ∨ g4 = zeroDI1 (zeroGdef1 bdir.isForward g2)) ∧
    (g' = g4 ∨ (g4.isMark = true ∧ g' = zeroMark bdir.isForward g4))

theorem position_rel (f : Font) (c : Cfg) (bdir : Dir) (s : Scratch) (l : List G) :
    Rel2 (PosChain' f c bdir s) l (position f c bdir s l) := by
  unfold position
  simp only
  have h1 : Rel2 (fun g g2 => g2 = posDefault1 f bdir g ∨ g2 = fallbackSpace1 f bdir (posDefault1 f bdir g)) l
      (if s.hasSpaceFb then fallbackSpaces f bdir (positionDefault f bdir l) else positionDefault f bdir l) := by
    split
    · unfold fallbackSpaces positionDefault
      rw [List.map_map]
      exact Rel2.map _ (fun g => Or.inr rfl) l
    · unfold positionDefault
      exact Rel2.map _ (fun g => Or.inl rfl) l
  have h2 : ∀ l2 : List G, Rel2 (fun g2 g4 => g4 = zeroGdef1 bdir.isForward g2 ∨ g4 = zeroDI1 (zeroGdef1 bdir.isForward g2))
      l2 (zeroWidthDI c s (zeroMarkWidthsByGdef bdir.isForward l2)) := by
    intro l2
    unfold zeroWidthDI zeroMarkWidthsByGdef
    split
    · rw [List.map_map]
      exact Rel2.map _ (fun g => Or.inr rfl) l2
    · exact Rel2.map _ (fun g => Or.inl rfl) l2
  have h3 := positionMarksFb_rel bdir.isForward false
    (zeroWidthDI c s (zeroMarkWidthsByGdef bdir.isForward
      (if s.hasSpaceFb then fallbackSpaces f bdir (positionDefault f bdir l) else positionDefault f bdir l)))
  have := (h1.comp (h2 _)).comp h3
  refine this.mono ?_
  intro a b ⟨g4, ⟨g2, h12, h24⟩, h4b⟩
  exact ⟨g2, g4, h12, h24, h4b⟩

theorem PosChain'.plain {f : Font} {c : Cfg} {bdir : Dir} {s : Scratch} {g g' : G}
    (h : PosChain' f c bdir s g g') (hm : g.isMark = false) (hv : g.var1 = 2) (hd : g.isDI = false)
    (hh : g.props.hi = 0) : g' = posDefault1 f bdir g := by
  obtain ⟨g2, g4, h2, h4, h'⟩ := h
  have np := posDefault1_nonPos f bdir g
  have e2 : g2 = posDefault1 f bdir g := by
    rcases h2 with h2 | h2
    · exact h2
    · rw [h2]; exact fallbackSpace1_hi0 _ _ _ (by rw [np.2.2.2.1]; exact hh)
  have e4 : g4 = g2 := by
    have hz : zeroGdef1 bdir.isForward g2 = g2 := zeroGdef1_base _ _ (by rw [e2, np.2.2.2.2]; exact hv)
    rcases h4 with h4 | h4
    · rw [h4, hz]
    · rw [h4, hz]; unfold zeroDI1; rw [if_neg]; rw [e2, isDI_of_nonPos np, hd]; decide
  rcases h' with h' | ⟨hmk, _⟩
  · rw [h', e4, e2]
  · exfalso
    rw [e4, e2] at hmk
    unfold G.isMark at hmk hm
    rw [np.2.2.2.1] at hmk
    rw [hm] at hmk; cases hmk

theorem initP_nonDI (u : Ucd) (c : Nat) (hd : u.isDI c = false) (hm : isMarkGc (u.gc c) = false) :
    initP u c = { gc := u.gc c } := by
  unfold initP
  simp only [hd, hm, Bool.false_eq_true, if_false]
  split <;> rfl

/-- the visible fields of a slot -/
def vis (g : G) : Nat × Int × Int × Int × Int := (g.gid, g.xa, g.ya, g.xo, g.yo)

theorem plain_slot_ltr (u : Ucd) (f : Font) (c : Cfg) (s : Scratch) (g0 g1 g2 g3 g5 : G) (gl : Nat)
    (hpl : PlainChar u g0.gid) (hvs : isVS g0.gid = false) (hnd : u.isDI g0.gid = false)
    (hgl : nominal f g0.gid = some gl)
    (h1 : PropsStep u g0 g1) (h2 : eC g2 = eC g1) (h3 : NormStep' u f g2 g3)
    (h5 : PosChain' f c .ltr s (mapGlyph1 g3) g5) :
    vis g5 = (gl, hAdvance f gl, 0, 0, 0) := by
  obtain ⟨cont, e1⟩ := h1
  have e2 := eq_of_eC_eq h2
  have hprops2 : g2.props = { gc := u.gc g0.gid, cont := cont } := by
    rw [e2, e1]; simp only; rw [initP_nonDI u _ hnd hpl.mark]
  have hgid2 : g2.gid = g0.gid := by rw [e2, e1]
  have hnom2 : nominal f g2.gid = some gl := by rw [hgid2]; exact hgl
  have e3 : g3 = { g2 with var1 := gl } := by
    rcases h3 with ⟨s', h3⟩ | h3 | ⟨hv, _⟩
    · rw [h3]; unfold decomposeCurrent; rw [hnom2]
    · rw [h3]; unfold setGlyph; rw [hnom2]
    · rw [hgid2, hvs] at hv; cases hv
  have hm : (mapGlyph1 g3).isMark = false := by
    unfold G.isMark; rw [(mapGlyph1_facts g3).1, e3]; simp only; rw [hprops2]; exact hpl.mark
  have hnm : (u.gc g0.gid != GC_NON_SPACING_MARK) = true := by
    have := hpl.mark
    unfold isMarkGc at this
    simp only [Bool.or_eq_false_iff] at this
    simpa using this.2
  have hv : (mapGlyph1 g3).var1 = 2 := by
    unfold mapGlyph1; dsimp only; rw [if_pos]
    rw [e3]; simp only; rw [hprops2]; simp only; rw [hnm]; rfl
  have hd : (mapGlyph1 g3).isDI = false := by
    unfold G.isDI; rw [(mapGlyph1_facts g3).1, e3]; simp only; rw [hprops2]; rfl
  have hh : (mapGlyph1 g3).props.hi = 0 := by
    rw [(mapGlyph1_facts g3).1, e3]; simp only; rw [hprops2]
  rw [h5.plain hm hv hd hh]
  have hg : (mapGlyph1 g3).gid = gl := by rw [(mapGlyph1_facts g3).2.2.1, e3]
  unfold vis posDefault1
  simp only [Dir.isHorizontal, if_true, hg]


theorem Rel2.mem_right {R : G → G → Prop} {l l' : List G} (h : Rel2 R l l') :
    ∀ b ∈ l', ∃ a ∈ l, R a b := by
  induction h with
  | nil => intro b hb; cases hb
  | cons hab _ ih =>
    intro b hb
    simp only [List.mem_cons] at hb
    rcases hb with rfl | hb
    · exact ⟨_, List.mem_cons_self, hab⟩
    · obtain ⟨a, ha, hr⟩ := ih b hb
      exact ⟨a, List.mem_cons_of_mem _ ha, hr⟩

theorem Rel2.head {R : G → G → Prop} {l l' : List G} (h : Rel2 R l l') :
    ∀ b ∈ l'.head?, ∃ a ∈ l.head?, R a b := by
  cases h with
  | nil => intro b hb; simp at hb
  | cons hab _ => intro b hb; simp at hb; subst hb; exact ⟨_, by simp, hab⟩

/-- the whole left-to-right chain for one slot -/
def LtrChain (u : Ucd) (f : Font) (c : Cfg) (s : Scratch) (g0 g5 : G) : Prop :=
  ∃ g1 g2 g3, PropsStep u g0 g1 ∧ eC g2 = eC g1 ∧ NormStep' u f g2 g3 ∧ PosChain' f c .ltr s (mapGlyph1 g3) g5

theorem normStep'_ign {u : Ucd} {f : Font} {g g' : G} (h : NormStep' u f g g') :
    g'.props.ign = g.props.ign ∧ g'.cp0 = g.cp0 := by
  rcases h with ⟨s, h⟩ | h | ⟨_, h⟩
  · rw [h]; exact decomposeCurrent_ign u f g s
  · rw [h]; exact ⟨by rw [(setGlyph_ign f g).1], (setGlyph_ign f g).2⟩
  · rw [h]; exact ⟨by rw [(setGlyph_ign f _).1]; rfl, by rw [(setGlyph_ign f _).2]; rfl⟩

theorem PosChain'.nonPos {f : Font} {c : Cfg} {bdir : Dir} {s : Scratch} {g g' : G}
    (h : PosChain' f c bdir s g g') : NonPos g g' := by
  obtain ⟨g2, g4, h2, h4, h'⟩ := h
  have n2 : NonPos g g2 := by
    rcases h2 with h2 | h2
    · rw [h2]; exact posDefault1_nonPos _ _ _
    · rw [h2]; exact (posDefault1_nonPos _ _ _).trans (fallbackSpace1_nonPos _ _ _)
  have n4 : NonPos g2 g4 := by
    rcases h4 with h4 | h4
    · rw [h4]; exact zeroGdef1_nonPos _ _
    · rw [h4]; exact (zeroGdef1_nonPos _ _).trans (zeroDI1_nonPos _)
  have n' : NonPos g4 g' := by
    rcases h' with h' | ⟨_, h'⟩
    · rw [h']; exact NonPos.refl _
    · rw [h']; exact zeroMark_nonPos _ _
  exact (n2.trans n4).trans n'

theorem LtrChain.facts {u : Ucd} {f : Font} {c : Cfg} {s : Scratch} {g0 g5 : G} (h : LtrChain u f c s g0 g5) :
    g5.cp0 = g0.cp0 ∧ (g5.isDI = true → (decide (0x80 ≤ g0.gid) && u.isDI g0.gid) = true) := by
  obtain ⟨g1, g2, g3, ⟨cont, e1⟩, h2, h3, h5⟩ := h
  have e2 := eq_of_eC_eq h2
  obtain ⟨i3, c3⟩ := normStep'_ign h3
  have np := h5.nonPos
  obtain ⟨mp, mc, _, _⟩ := mapGlyph1_facts g3
  refine ⟨?_, ?_⟩
  · rw [np.1, mc, c3, e2, e1]
  · intro hdi
    unfold G.isDI at hdi
    simp only [Bool.and_eq_true] at hdi
    have := hdi.1
    rw [np.2.2.2.1, mp, i3, e2, e1] at this
    simp only at this
    rw [initP_ign] at this
    exact this


/-! ## inserting default ignorables into left-to-right text -/

theorem needsReverse_ltr (c : Cfg) (l : List G) (hdir : c.dir = .ltr) (hnat : c.nat = none ∨ c.nat = some .ltr) :
    needsReverse c l = false := by
  have he : effectiveHor c l = c.nat := by
    unfold effectiveHor
    rcases hnat with h | h <;> rw [h] <;> rfl
  unfold needsReverse
  rw [he, hdir]
  rcases hnat with h | h <;> rw [h] <;> rfl

theorem rotateChars_ltr (u : Ucd) (f : Font) (c : Cfg) (l : List G) (hdir : c.dir = .ltr) :
    rotateChars u f c l = l := by
  unfold rotateChars; rw [hdir]; rfl

/-- `insert_dotted_circle` is off, or the text does not start with a mark -/
def NoDottedCircle (u : Ucd) (f : Font) (c : Cfg) (text : List (Nat × Nat)) : Prop :=
  hasFlag c.flags BF_BOT = false ∨ hasFlag c.flags BF_NO_DOTTED = true ∨ c.preLen ≠ 0 ∨
    nominal f 0x25CC = none ∨ ∀ t ∈ text.head?, isMarkGc (u.gc t.1) = false

theorem insertDottedCircle_off (u : Ucd) (f : Font) (c : Cfg) (l : List G) (s : Scratch)
    (h : hasFlag c.flags BF_BOT = false ∨ hasFlag c.flags BF_NO_DOTTED = true ∨ c.preLen ≠ 0 ∨
      nominal f 0x25CC = none ∨ ∀ g ∈ l.head?, g.isMark = false) :
    insertDottedCircle u f c l s = (l, s) := by
  unfold insertDottedCircle
  cases l with
  | nil => rfl
  | cons g0 tl =>
    simp only
    rw [if_neg]
    intro hc
    simp only [Bool.and_eq_true, Bool.not_eq_true', beq_iff_eq] at hc
    obtain ⟨⟨⟨⟨h1, h2⟩, h3⟩, h4⟩, h5⟩ := hc
    rcases h with h | h | h | h | h
    · rw [h] at h2; cases h2
    · rw [h] at h1; cases h1
    · exact h h3
    · rw [h] at h5; cases h5
    · rw [h g0 (by simp)] at h4; cases h4

theorem hideDI_filter (u : Ucd) (f : Font) (c : Cfg) (s : Scratch) (l : List G)
    (h : ∀ g ∈ l, g.isDI = true → u.isDI g.cp0 = true) :
    ((hideDI f c s l).filter fun g => !u.isDI g.cp0).map vis = (l.filter fun g => !u.isDI g.cp0).map vis := by
  unfold hideDI
  split
  · split
    · rename_i sp _
      -- hidden: only default-ignorable slots change
      have : ∀ l' : List G, (∀ g ∈ l', g.isDI = true → u.isDI g.cp0 = true) →
          ((l'.map (hide1 sp)).filter fun g => !u.isDI g.cp0) = l'.filter fun g => !u.isDI g.cp0 := by
        intro l' hl'
        induction l' with
        | nil => rfl
        | cons a t ih =>
          have iht := ih (fun g hg => hl' g (List.mem_cons_of_mem _ hg))
          have hcp : (hide1 sp a).cp0 = a.cp0 := by unfold hide1; split <;> rfl
          simp only [List.map_cons, List.filter_cons, hcp]
          cases hd : u.isDI a.cp0 with
          | true => simpa using iht
          | false =>
            have : a.isDI = false := by
              cases hdi : a.isDI with
              | false => rfl
              | true => rw [hl' a List.mem_cons_self hdi] at hd; cases hd
            simp only [Bool.not_false, if_true]
            rw [iht]; unfold hide1; rw [this]; rfl
      rw [this l h]
    · -- deleted
      have he := deleteDI_eC c.level l.length [] l (Nat.le_refl _)
      simp only [List.nil_append] at he
      have hvis : ∀ g, vis (eC g) = vis g := fun g => rfl
      have hcp : ∀ g, u.isDI (eC g).cp0 = u.isDI g.cp0 := fun g => rfl
      have key : ∀ a b : List G, a.map eC = b.map eC →
          (a.filter fun g => !u.isDI g.cp0).map vis = (b.filter fun g => !u.isDI g.cp0).map vis := by
        intro a b hab
        have h1 := filter_eC_congr (fun g => !u.isDI g.cp0) (fun g => by rw [hcp]) hab
        have := congrArg (List.map vis) h1
        simpa only [List.map_map, Function.comp_def, hvis] using this
      rw [key _ _ he, List.filter_filter]
      congr 1
      apply List.filter_congr
      intro g hg
      cases hd : u.isDI g.cp0 with
      | true => simp
      | false =>
        have : g.isDI = false := by
          cases hdi : g.isDI with
          | false => rfl
          | true => rw [h g hg hdi] at hd; cases hd
        simp [notDI, this]
  · rfl


theorem formClusters_eC (c : Cfg) (l : List G) (s : Scratch) : (formClusters c l s).map eC = l.map eC := by
  unfold formClusters
  split
  · rw [graphemeWalk_eC]; rfl
  · rfl

/-- left-to-right, script not right-to-left, no dotted circle: `shapeCore` is the slot-wise chain
    followed by `hide_default_ignorables` -/
theorem shapeCore_ltr_chain (u : Ucd) (f : Font) (c : Cfg) (text : List (Nat × Nat))
    (hdir : c.dir = .ltr) (hnat : c.nat = none ∨ c.nat = some .ltr) (hdot : NoDottedCircle u f c text) :
    ∃ s l5, shapeCore u f c (initial text) = hideDI f c s l5 ∧
      Rel2 (LtrChain u f c s) (initial text) l5 := by
  generalize hl0 : initial text = l0
  have hr1 := setUnicodeProps_rel u none false l0 {}
  generalize hsu : setUnicodeProps u none false l0 {} = r at hr1
  have hd : insertDottedCircle u f c r.1 r.2 = (r.1, r.2) := by
    apply insertDottedCircle_off
    rcases hdot with h | h | h | h | h
    · exact Or.inl h
    · exact Or.inr (Or.inl h)
    · exact Or.inr (Or.inr (Or.inl h))
    · exact Or.inr (Or.inr (Or.inr (Or.inl h)))
    · refine Or.inr (Or.inr (Or.inr (Or.inr ?_)))
      intro g hg
      obtain ⟨g0, hg0, cont, e⟩ := hr1.head g hg
      rw [← hl0] at hg0
      unfold initial at hg0
      rw [List.head?_map] at hg0
      simp only [Option.mem_def, Option.map_eq_some_iff] at hg0
      obtain ⟨t, ht, rfl⟩ := hg0
      rw [e]; unfold G.isMark; simp only; rw [initP_gc]
      exact h t ht
  generalize hl2 : formClusters c r.1 r.2 = l2
  have hr2 : Rel2 (fun a b => eC b = eC a) r.1 l2 := by
    rw [← hl2]; exact Rel2.of_map_eq eC (formClusters_eC c r.1 r.2)
  have hprep : prepare u f c l0 = (l2, r.2, .ltr) := by
    unfold prepare
    simp only
    rw [hsu, hd]
    simp only
    rw [hl2]
    unfold ensureNativeDirection
    rw [needsReverse_ltr c l2 hdir hnat, hdir]
    rfl
  generalize hnr : normalizeRound1 u f l2.length l2 r.2 = nr
  have hr3 : Rel2 (NormStep' u f) l2 nr.1 := by
    rw [← hnr]; exact normalizeRound1_rel u f _ _ _ (Nat.le_refl _)
  have hsub : substitute u f c l2 r.2 = (mapGlyphsAndClasses nr.1, nr.2) := by
    unfold substitute
    simp only
    rw [rotateChars_ltr u f c l2 hdir, hnr]
  have hr4 : Rel2 (fun a b => b = mapGlyph1 a) nr.1 (mapGlyphsAndClasses nr.1) := by
    unfold mapGlyphsAndClasses; exact Rel2.map (R := fun a b => b = mapGlyph1 a) mapGlyph1 (fun g => rfl) _
  have hr5 := position_rel f c .ltr nr.2 (mapGlyphsAndClasses nr.1)
  refine ⟨nr.2, position f c .ltr nr.2 (mapGlyphsAndClasses nr.1), ?_, ?_⟩
  · unfold shapeCore
    simp only
    rw [hprep]
    simp only
    rw [hsub]
    unfold finish
    rfl
  · have := (((hr1.comp hr2).comp hr3).comp hr4).comp hr5
    refine this.mono ?_
    intro a b ⟨g4, ⟨g3, ⟨g2, ⟨g1, h1, h2⟩, h3⟩, h4⟩, h5⟩
    subst h4
    exact ⟨g1, g2, g3, h1, h2, h3, h5⟩


/-- what a plain character with a glyph looks like in a left-to-right result -/
def visOf (f : Font) (cp : Nat) : Nat × Int × Int × Int × Int :=
  ((nominal f cp).getD 0, hAdvance f ((nominal f cp).getD 0), 0, 0, 0)

theorem shape_insert_noninterference (u : Ucd) (f : Font) (c : Cfg) (text : List (Nat × Nat))
    (hdir : c.dir = .ltr) (hnat : c.nat = none ∨ c.nat = some .ltr)
    (hscope : ∀ t ∈ text, u.norm t.1 = false ∧ u.mcc t.1 = 0)
    (hplain : ∀ t ∈ text, u.isDI t.1 = false →
      PlainChar u t.1 ∧ isVS t.1 = false ∧ (nominal f t.1).isSome = true)
    (hdot : NoDottedCircle u f c text) :
    ∃ out, shape u f c text = .ok out ∧
      (out.filter fun g => !u.isDI g.cp0).map vis = (text.filter fun t => !u.isDI t.1).map fun t => visOf f t.1 := by
  have hsc : inScope u (initial text) = true := by
    unfold inScope initial
    simp only [List.all_map, List.all_eq_true, Function.comp_def]
    intro t ht
    obtain ⟨a, b⟩ := hscope t ht
    simp [a, b]
  cases text with
  | nil => exact ⟨[], by unfold shape; simp [initial, inScope], rfl⟩
  | cons t0 ts =>
    obtain ⟨s, l5, hcore, hrel⟩ := shapeCore_ltr_chain u f c (t0 :: ts) hdir hnat hdot
    refine ⟨shapeCore u f c (initial (t0 :: ts)), ?_, ?_⟩
    · unfold shape
      simp only [hsc, Bool.not_true, Bool.false_eq_true, if_false]
      rw [if_neg (by simp [initial])]
    · rw [hcore, hideDI_filter u f c s l5 (by
        intro g hg hdi
        obtain ⟨g0, hg0, hch⟩ := hrel.mem_right g hg
        obtain ⟨hcp, hd⟩ := hch.facts
        have := hd hdi
        simp only [Bool.and_eq_true] at this
        rw [hcp, ← (initial_gid _ g0 hg0).1]; exact this.2)]
      rw [Rel2.filter_map (fun g => u.isDI g.cp0) vis (fun g0 => visOf f g0.gid) hrel
        (fun a _ b hab => by rw [hab.facts.1])
        (fun a ha b hab hda => by
          obtain ⟨g1, g2, g3, h1, h2, h3, h5⟩ := hab
          have hgid := (initial_gid _ a ha).1
          unfold initial at ha
          obtain ⟨t, ht, rfl⟩ := List.mem_map.mp ha
          simp only at hda hgid
          obtain ⟨hp, hv, hg⟩ := hplain t ht hda
          cases hn : nominal f t.1 with
          | none => rw [hn] at hg; cases hg
          | some gl =>
            have := plain_slot_ltr u f c s _ g1 g2 g3 b gl hp hv hda hn h1 h2 h3 h5
            rw [this]; unfold visOf; simp only; rw [hn]; rfl)]
      unfold initial
      rw [List.filter_map, List.map_map]
      rfl


theorem rotCp_ltr (u : Ucd) (f : Font) (c : Cfg) (cp : Nat) (hdir : c.dir = .ltr) : rotCp u f c cp = cp := by
  unfold rotCp; rw [hdir]; rfl

theorem vis_glyphOf_ltr (u : Ucd) (f : Font) (c : Cfg) (t : Nat × Nat) (hdir : c.dir = .ltr) :
    vis (glyphOf u f c t) = visOf f t.1 := by
  unfold glyphOf visOf vis
  rw [rotCp_ltr u f c _ hdir, hdir]
  rfl

/-! ## cluster values come from the input -/

theorem foldl_min_cluster (S : Nat → Prop) (l : List G) (c0 : Nat) (h0 : S c0) (hl : ∀ g ∈ l, S g.cluster) :
    S (l.foldl (fun c g => min c g.cluster) c0) := by
  induction l generalizing c0 with
  | nil => exact h0
  | cons a t ih =>
    rw [List.foldl_cons]
    apply ih
    · rcases Nat.le_total c0 a.cluster with h | h
      · rw [Nat.min_eq_left h]; exact h0
      · rw [Nat.min_eq_right h]; exact hl a List.mem_cons_self
    · exact fun g hg => hl g (List.mem_cons_of_mem _ hg)

theorem mergeSeg_cl (S : Nat → Prop) (pre seg post : List G)
    (hp : ∀ g ∈ pre, S g.cluster) (hs : ∀ g ∈ seg, S g.cluster) (ho : ∀ g ∈ post, S g.cluster) :
    (∀ g ∈ (mergeSeg pre seg post).1, S g.cluster) ∧ (∀ g ∈ (mergeSeg pre seg post).2, S g.cluster) := by
  unfold mergeSeg
  cases seg with
  | nil => exact ⟨hp, ho⟩
  | cons g0 tl =>
    dsimp only
    have hc : S (tl.foldl (fun c g => min c g.cluster) g0.cluster) :=
      foldl_min_cluster S tl _ (hs g0 List.mem_cons_self) (fun g hg => hs g (List.mem_cons_of_mem _ hg))
    constructor
    · intro g hg
      simp only [List.mem_append, List.mem_map] at hg
      rcases hg with hg | ⟨x, _, rfl⟩
      · exact hp g (List.mem_of_mem_take hg)
      · exact hc
    · intro g hg
      simp only [List.mem_append, List.mem_map] at hg
      rcases hg with ⟨x, _, rfl⟩ | hg
      · exact hc
      · exact ho g (List.mem_of_mem_drop hg)

theorem mergeClusters_cl (S : Nat → Prop) (level : Nat) (pre seg post : List G)
    (hp : ∀ g ∈ pre, S g.cluster) (hs : ∀ g ∈ seg, S g.cluster) (ho : ∀ g ∈ post, S g.cluster) :
    (∀ g ∈ (mergeClusters level pre seg post).1, S g.cluster) ∧
    (∀ g ∈ (mergeClusters level pre seg post).2, S g.cluster) := by
  have hso : ∀ g ∈ seg ++ post, S g.cluster := by
    intro g hg; rcases List.mem_append.mp hg with h | h
    · exact hs g h
    · exact ho g h
  unfold mergeClusters
  split
  · exact ⟨hp, hso⟩
  · split
    · exact ⟨hp, hso⟩
    · exact mergeSeg_cl S pre seg post hp hs ho

theorem graphemeWalk_cl (S : Nat → Prop) (merge : Bool) (level : Nat) (rev : Bool) (n : Nat) (done l : List G)
    (hd : ∀ g ∈ done, S g.cluster) (hl : ∀ g ∈ l, S g.cluster) :
    ∀ g ∈ graphemeWalk merge level rev n done l, S g.cluster := by
  induction n generalizing done l with
  | zero =>
    intro g hg
    simp only [graphemeWalk, List.mem_append] at hg
    rcases hg with h | h
    · exact hd g h
    · exact hl g h
  | succ n ih =>
    cases l with
    | nil => intro g hg; simp only [graphemeWalk] at hg; exact hd g hg
    | cons a tl =>
      simp only [graphemeWalk]
      have hseg : ∀ g ∈ a :: tl.takeWhile G.cont, S g.cluster := by
        intro g hg
        simp only [List.mem_cons] at hg
        rcases hg with rfl | hg
        · exact hl _ List.mem_cons_self
        · exact hl g (List.mem_cons_of_mem _ (mem_of_mem_takeWhile hg))
      have hpost : ∀ g ∈ tl.dropWhile G.cont, S g.cluster :=
        fun g hg => hl g (List.mem_cons_of_mem _ (mem_of_mem_dropWhile hg))
      have hr : (∀ g ∈ (if merge = true then mergeClusters level done (a :: tl.takeWhile G.cont) (tl.dropWhile G.cont)
            else (done, a :: tl.takeWhile G.cont ++ tl.dropWhile G.cont)).1, S g.cluster) ∧
          (∀ g ∈ (if merge = true then mergeClusters level done (a :: tl.takeWhile G.cont) (tl.dropWhile G.cont)
            else (done, a :: tl.takeWhile G.cont ++ tl.dropWhile G.cont)).2, S g.cluster) := by
        split
        · exact mergeClusters_cl S level done _ _ hd hseg hpost
        · refine ⟨hd, ?_⟩
          intro g hg
          rcases List.mem_append.mp hg with h | h
          · exact hseg g h
          · exact hpost g h
      apply ih
      · intro g hg
        rcases List.mem_append.mp hg with h | h
        · exact hr.1 g h
        · split at h
          · exact hr.2 g (List.mem_of_mem_take (List.mem_reverse.mp h))
          · exact hr.2 g (List.mem_of_mem_take h)
      · exact fun g hg => hr.2 g (List.mem_of_mem_drop hg)

theorem deleteDI_cl (S : Nat → Prop) (level n : Nat) (out l : List G)
    (ho : ∀ g ∈ out, S g.cluster) (hl : ∀ g ∈ l, S g.cluster) :
    ∀ g ∈ deleteDI level n out l, S g.cluster := by
  induction n generalizing out l with
  | zero =>
    intro g hg
    simp only [deleteDI, List.mem_append] at hg
    rcases hg with h | h
    · exact ho g h
    · exact hl g h
  | succ n ih =>
    cases l with
    | nil => intro g hg; simp only [deleteDI] at hg; exact ho g hg
    | cons a tl =>
      have ha := hl a List.mem_cons_self
      have htl : ∀ g ∈ tl, S g.cluster := fun g hg => hl g (List.mem_cons_of_mem _ hg)
      simp only [deleteDI]
      split
      · split
        · exact ih out tl ho htl
        · cases hlast : out.getLast? with
          | some last =>
            simp only
            apply ih _ tl _ htl
            split
            · intro g hg
              unfold mergeBackward at hg
              simp only [List.mem_append, List.mem_map] at hg
              rcases hg with h | ⟨x, _, rfl⟩
              · exact ho g (List.mem_of_mem_take h)
              · exact ha
            · exact ho
          | none =>
            simp only
            apply ih _ _ ho
            intro g hg
            cases tl with
            | nil => simp [mergeForwardDrop] at hg
            | cons b tl' =>
              simp only [mergeForwardDrop] at hg
              have := (mergeClusters_cl S level [] [a, b] tl' (by simp)
                (by intro x hx; simp only [List.mem_cons, List.not_mem_nil, or_false] at hx
                    rcases hx with rfl | rfl
                    · exact ha
                    · exact htl _ List.mem_cons_self)
                (fun x hx => htl x (List.mem_cons_of_mem _ hx))).2
              exact this g (List.mem_of_mem_drop hg)
      · apply ih _ tl _ htl
        intro g hg
        rcases List.mem_append.mp hg with h | h
        · exact ho g h
        · simp only [List.mem_singleton] at h; rw [h]; exact ha


theorem decomposeCurrent_cluster (u : Ucd) (f : Font) (g : G) (s : Scratch) :
    (decomposeCurrent u f g s).1.cluster = g.cluster := by
  unfold decomposeCurrent
  split
  · rfl
  · simp only
    split
    · rfl
    · split
      · split <;> rfl
      · rfl

theorem setGlyph_cluster (f : Font) (g : G) : (setGlyph f g).cluster = g.cluster := by
  unfold setGlyph; split <;> rfl

theorem normStep_cluster {u : Ucd} {f : Font} {g g' : G} (h : NormStep u f g g') : g'.cluster = g.cluster := by
  rcases h with h | ⟨s, h⟩ | h | h
  · rw [h]
  · rw [h]; exact decomposeCurrent_cluster u f g s
  · rw [h]; exact setGlyph_cluster f g
  · rw [h, setGlyph_cluster]; rfl

theorem insertDottedCircle_cl (S : Nat → Prop) (u : Ucd) (f : Font) (c : Cfg) (l : List G) (s : Scratch)
    (hl : ∀ g ∈ l, S g.cluster) : ∀ g ∈ (insertDottedCircle u f c l s).1, S g.cluster := by
  unfold insertDottedCircle
  cases l with
  | nil => exact hl
  | cons g0 tl =>
    simp only
    split
    · intro g hg
      simp only [G.init, List.mem_cons] at hg
      rcases hg with rfl | hg
      · exact hl g0 List.mem_cons_self
      · exact hl g (by simpa using hg)
    · exact hl

theorem prepare_cl (S : Nat → Prop) (u : Ucd) (f : Font) (c : Cfg) (l : List G) (hl : ∀ g ∈ l, S g.cluster) :
    ∀ g ∈ (prepare u f c l).1, S g.cluster := by
  unfold prepare
  simp only
  have h1 : ∀ g ∈ (setUnicodeProps u none false l {}).1, S g.cluster := by
    intro g' hg'
    obtain ⟨g, hg, cont, he⟩ := setUnicodeProps_step u none false l {} g' hg'
    rw [he]; exact hl g hg
  have h2 := insertDottedCircle_cl S u f c _ (setUnicodeProps u none false l {}).2 h1
  have h3 : ∀ g ∈ formClusters c (insertDottedCircle u f c (setUnicodeProps u none false l {}).1
      (setUnicodeProps u none false l {}).2).1 (insertDottedCircle u f c (setUnicodeProps u none false l {}).1
      (setUnicodeProps u none false l {}).2).2, S g.cluster := by
    unfold formClusters
    split
    · exact graphemeWalk_cl S _ _ _ _ [] _ (by simp) h2
    · exact h2
  unfold ensureNativeDirection
  split
  · unfold reverseGraphemes
    intro g hg
    exact graphemeWalk_cl S _ _ _ _ [] _ (by simp) h3 g (List.mem_reverse.mp hg)
  · exact h3

theorem finish_cl (S : Nat → Prop) (f : Font) (c : Cfg) (bdir : Dir) (s : Scratch) (l : List G)
    (hl : ∀ g ∈ l, S g.cluster) : ∀ g ∈ finish f c bdir s l, S g.cluster := by
  unfold finish
  have h1 : ∀ g ∈ (if bdir.isBackward then l.reverse else l), S g.cluster := by
    split
    · exact fun g hg => hl g (List.mem_reverse.mp hg)
    · exact hl
  unfold hideDI
  split
  · split
    · rename_i sp _
      intro g hg
      obtain ⟨x, hx, rfl⟩ := List.mem_map.mp hg
      have : (hide1 sp x).cluster = x.cluster := by unfold hide1; split <;> rfl
      rw [this]; exact h1 x hx
    · exact deleteDI_cl S _ _ [] _ (by simp) h1
  · exact h1

/-- every cluster value in the result of `shapeCore` is the cluster of some input character -/
theorem shapeCore_cl (u : Ucd) (f : Font) (c : Cfg) (text : List (Nat × Nat)) :
    ∀ g ∈ shapeCore u f c (initial text), ∃ t ∈ text, g.cluster = t.2 := by
  let S : Nat → Prop := fun cl => ∃ t ∈ text, cl = t.2
  have h0 : ∀ g ∈ initial text, S g.cluster := by
    intro g hg
    unfold initial at hg
    obtain ⟨t, ht, rfl⟩ := List.mem_map.mp hg
    exact ⟨t, ht, rfl⟩
  unfold shapeCore
  simp only
  apply finish_cl S
  intro g3 hg3
  obtain ⟨g2, hg2, hchain⟩ := position_step _ _ _ _ _ g3 hg3
  rw [hchain.facts.1.2.2.1]
  have hsub : ∀ g ∈ (substitute u f c (prepare u f c (initial text)).1 (prepare u f c (initial text)).2.1).1,
      S g.cluster := by
    apply substitute_all u f c _ _ (fun g => S g.cluster) (fun g => S g.cluster)
    · intro g hg g1 ⟨x, hx⟩ g2 hn
      have : (mapGlyph1 g2).cluster = g2.cluster := rfl
      rw [this, normStep_cluster hn, hx]; exact hg
    · exact prepare_cl S u f c _ h0
  exact hsub g2 hg2

end RbModel.Pipeline
