/-
  Contextual GSUB lookups, step 5a: lookups that MIX contextual subtables with single / alternate / multiple substitution
  subtables (OpenType lookups are homogeneous; the model's `Lookup` and the Spec's `firstSubtable` are not).  A simple
  subtable at the top level is one more `SubSimC` instance: it consumes one input glyph and adds at most `K` glyphs.
-/
import RbModel.Lemmas.GsubCtxFwd

namespace RbModel.Gsub
open RbModel RbModel.Buf RbModel.Mem RbModel.Spec.Subst

theorem simple_subSimC (hg : Gen.Buf.ensureGrowOnly = true) (recurse : Ctx → Nat → M (Ctx × Bool)) (full : Bool) (f : Font)
    (l : Lookup) (lm level K Rn : Nat) (hlm : lm < 2 ^ 32) (hlmf : lm &&& (U32MAX - Flag.DEFINED) = lm)
    (st : Subtable) (hst : NestedSts K [st]) :
    SubSimC recurse full f l lm level K Rn st := by
  intro c x R gs hf h hin hrel
  subst hf
  obtain ⟨hall, halt, hseq⟩ := hst
  have hol := outP_length c.buf h.inv
  obtain ⟨hcur, hx⟩ := inP_head c.buf h.inv x R hin
  have hxG : CtxG x := h.glyph x (List.mem_append_right _ (by rw [hin]; exact List.mem_cons_self))
  obtain ⟨g, hgs, hgx⟩ := hrel.get c.buf.outLen x (by rw [hin, List.getElem?_append_right (by omega), hol]; simp)
  have hggid : g.gid = x.gid := congrArg (fun p : Nat × Nat × Nat => p.1) hgx
  have hgfb : featBits g.mask = featBits x.mask := congrArg (fun p : Nat × Nat × Nat => p.2.2) hgx
  have hmodel := applySubtables_simple recurse full c [st] hall x h.rnd hx
  rw [applySubtables_singleton, h.mask] at hmodel
  have hspec := firstSubtable_simple c.font level l.props lm hlm gs c.buf.outLen g hgs (by rw [hggid]; exact hxG.2.1) [st] hall
    (by intro st' hst' cov alts he set hset; exact halt st' hst' cov alts he set hset)
  rw [firstSubtable_singleton] at hspec
  have hsel : simpleSeqG? lm [st] g = simpleSeq? lm [st] x := by
    unfold simpleSeqG? simpleSeq?
    rw [hggid]
    apply simpleSeqGM_congr
    rw [Nat.and_comm lm, Nat.and_comm lm]
    exact mask_and_of_featBits g.mask x.mask lm hlmf hgfb
  rw [hspec, hsel]
  cases hss : simpleSeq? lm [st] x with
  | none =>
    rw [hss] at hmodel
    exact hmodel
  | some ss =>
    rw [hss] at hmodel
    simp only [Option.map_some] at hmodel ⊢
    obtain ⟨hne, hlen, hgids⟩ := simpleSeqGM_ok lm K [st] ⟨hall, halt, hseq⟩ x.gid x.mask ss hss
    have hbud := h.budget
    rw [hin] at hbud
    simp only [List.length_cons] at hbud
    have hops := h.ops
    rw [hin] at hops
    simp only [List.length_cons] at hops
    have hb1 := budget_first c.buf.outLen R.length K K c.buf.maxLen (Nat.le_refl _) hbud
    obtain ⟨b', outs, hrun, hinv', ho, hi, hmo, hov, hsu, hml⟩ :=
      applySeqV_spec hg c ss hne x R h.inv hin (by omega)
    have hfr := applySeq_fr hne hrun
    have houtl : outs.length = ss.length := by
      have := congrArg List.length hmo
      simpa using this
    have hol' : b'.outLen = c.buf.outLen + ss.length := by
      have := outP_length b' hinv'
      rw [ho] at this
      simp [hol, houtl] at this
      omega
    have hL : outP c.buf ++ inP c.buf = outP c.buf ++ x :: R := by rw [hin]
    have htk : (outP c.buf ++ x :: R).take c.buf.outLen = outP c.buf := List.take_left' hol
    have hdr : (outP c.buf ++ x :: R).drop (c.buf.outLen + 1) = R := drop_succ_append _ _ _ _ hol
    have hrel2 := relF_replace (outP c.buf ++ x :: R) gs c.buf.outLen x g outs ss (by rw [← hL]; exact hrel) hgx hmo
    rw [htk, hdr] at hrel2
    have hglyph2 : ∀ y ∈ outP c.buf ++ outs ++ R, CtxG y := by
      intro y hy
      simp only [List.mem_append] at hy
      rcases hy with (hy | hy) | hy
      · exact h.glyph y (List.mem_append_left _ hy)
      · have hv := hov y hy
        obtain ⟨k, hk⟩ := List.getElem?_of_mem hy
        have hpk := congrArg (fun l => l[k]?) hmo
        simp only [List.getElem?_map, hk, Option.map_some] at hpk
        cases hsk : ss[k]? with
        | none => rw [hsk] at hpk; cases hpk
        | some sv =>
          rw [hsk] at hpk
          simp only [Option.map_some, Option.some.injEq] at hpk
          have h1 : y.gid = sv := congrArg G.gid hpk
          have h2 : y.mask = x.mask := congrArg G.mask hpk
          refine ⟨?_, ?_, ?_⟩
          · unfold unicodeProps; rw [hv]; exact hxG.1
          · rw [h1]; exact hgids sv (List.mem_of_getElem? hsk)
          · rw [h2]; exact hxG.2.2
      · exact h.glyph y (List.mem_append_right _ (by rw [hin]; exact List.mem_cons_of_mem _ hy))
    refine ⟨b', ?_, ⟨?_, by rw [ho, hi]; exact hrel2, hol', ?_, hml⟩⟩
    · rw [hmodel, hrun]; rfl
    · refine ⟨hinv', by show b'.successful = true; rw [hsu]; exact h.succ, h.props, h.mask, h.nosyl,
        by show b'.flags &&& _ = 0; rw [hfr.flags]; exact h.noconcat, h.rnd, ?_, ?_, ?_,
        by show ∀ y ∈ outP b' ++ inP b', CtxG y; rw [ho, hi]; exact hglyph2⟩
      · show b'.outLen + (inP b').length * (1 + K) ≤ b'.maxLen
        rw [hol', hi, hml]
        have e1 : (R.length + 1) * (1 + K) = R.length * (1 + K) + (1 + K) := by rw [Nat.add_mul, Nat.one_mul]
        generalize R.length * (1 + K) = A at *
        generalize (R.length + 1) * (1 + K) = B at *
        omega
      · show ((((inP b').length * Rn : Nat)) : Int) ≤ b'.maxOps
        rw [hi, hfr.maxOps]
        have e1 : (R.length + 1) * Rn = R.length * Rn + Rn := by rw [Nat.add_mul, Nat.one_mul]
        generalize R.length * Rn = A at *
        generalize (R.length + 1) * Rn = B at *
        omega
      · intro y hy
        have hy' : y ∈ inP b' := hy
        rw [hi] at hy'
        exact h.plain y (by rw [hin]; exact List.mem_cons_of_mem _ hy')
    · have : ss.length ≠ 0 := by intro h0; exact hne (List.eq_nil_of_length_eq_zero h0)
      omega

/-- a subtable of a mixed lookup: contextual of the Spec's domain, or simple with sequences of at most `Rn · Gr + 1` glyphs -/
def MixStOk (f : Font) (Gr Rn : Nat) (st : Subtable) : Prop := CtxStOk f Gr Rn st ∨ NestedSts (Rn * Gr) [st]

theorem mix_not_reverse (f : Font) (Gr Rn : Nat) (l : Lookup) (hall : ∀ st ∈ l.subtables, MixStOk f Gr Rn st) : l.reverse = false := by
  unfold Lookup.reverse
  cases hs : l.subtables with
  | nil => simp
  | cons st rest =>
    have h1 := hall st (by rw [hs]; exact List.mem_cons_self)
    have : st.isReverse = false := by
      rcases h1 with h1 | h1
      · have := h1.1
        cases st <;> simp [Subtable.isCtx] at this <;> rfl
      · have := h1.1
        simp only [List.all_cons, List.all_nil, Bool.and_true] at this
        cases st <;> simp [Subtable.isSimple] at this <;> rfl
    simp [this]

end RbModel.Gsub
