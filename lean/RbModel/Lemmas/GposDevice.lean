/-
  Lemmas about value records with device tables (`Gpos.lean: valueApplyToPosD`): the exact result, the frame.
-/
import RbModel.Gpos

namespace RbModel.Gpos

theorem valueApplyToPos_exact (v : ValueRecord) (d : Dir) (q : Pos) :
    (valueApplyToPos v d q).1 =
      { q with xo := q.xo + v.xPlacement, yo := q.yo + v.yPlacement,
               xa := if d.isHorizontal then q.xa + v.xAdvance else q.xa,
               ya := if d.isHorizontal then q.ya else q.ya - v.yAdvance } := by
  unfold valueApplyToPos
  cases d.isHorizontal <;>
    by_cases h1 : v.xPlacement = 0 <;> by_cases h2 : v.yPlacement = 0 <;>
    by_cases h3 : v.xAdvance = 0 <;> by_cases h4 : v.yAdvance = 0 <;> simp [h1, h2, h3, h4]

/-- the delta a device contributes: only when the face state enables it and the table is present -/
def devDelta (use : Bool) (dev : Option Int) : Int := if use then dev.getD 0 else 0

/-- the whole of `apply_to_pos` in closed form -/
theorem valueApplyToPosD_exact (v : ValueRecordD) (useX useY : Bool) (d : Dir) (q : Pos) :
    (valueApplyToPosD v useX useY d q).1 =
      { q with xo := q.xo + v.xPlacement + devDelta useX v.xPlaDevice,
               yo := q.yo + v.yPlacement + devDelta useY v.yPlaDevice,
               xa := if d.isHorizontal then q.xa + v.xAdvance + devDelta useX v.xAdvDevice else q.xa,
               ya := if d.isHorizontal then q.ya else q.ya - v.yAdvance - devDelta useY v.yAdvDevice } := by
  have h0 := valueApplyToPos_exact v.toValueRecord d q
  unfold valueApplyToPosD
  generalize valueApplyToPos v.toValueRecord d q = r0 at h0 ⊢
  obtain ⟨q0, w0⟩ := r0
  simp only at h0
  subst h0
  obtain ⟨v0, a, b, c, e⟩ := v
  cases useX <;> cases useY <;> cases d.isHorizontal <;> cases a <;> cases b <;> cases c <;> cases e <;>
    simp [devDelta] <;> omega

end RbModel.Gpos
