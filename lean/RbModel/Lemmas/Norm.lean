/-
  Helper definitions and lemmas for Props/C09.lean (normalizer).
  Part 1: table machinery — linear-time checkers for generated tables (sortedness, merge, subsequence,
  a fuel-based merge sort) with their soundness lemmas, and the binary search of
  `slice::binary_search_by` with the generic lemma that on a strictly sorted table it returns what the
  contract model `Norm.lookup` returns.
-/
import RbModel.Norm

namespace RbModel.Norm

/-! ### strictly sorted keys -/

/-- keys strictly increasing (linear-time Bool checker) -/
def sortedKeys {β : Type} : List (Nat × β) → Bool
  | [] => true
  | [_] => true
  | a :: b :: r => Nat.blt a.1 b.1 && sortedKeys (b :: r)

theorem sortedKeys_tail {β : Type} {a : Nat × β} {l : List (Nat × β)} (h : sortedKeys (a :: l) = true) :
    sortedKeys l = true := by
  cases l with
  | nil => rfl
  | cons b r => simp only [sortedKeys, Bool.and_eq_true] at h; exact h.2

theorem sortedKeys_head_lt {β : Type} {a : Nat × β} {l : List (Nat × β)} (h : sortedKeys (a :: l) = true) :
    ∀ x ∈ l, a.1 < x.1 := by
  induction l generalizing a with
  | nil => intro x hx; cases hx
  | cons b r ih =>
    simp only [sortedKeys, Bool.and_eq_true, Nat.blt_eq] at h
    intro x hx
    cases hx with
    | head => exact h.1
    | tail _ hx => exact Nat.lt_trans h.1 (ih h.2 x hx)

theorem lookup_of_mem_sorted {β : Type} {t : List (Nat × β)} (hs : sortedKeys t = true) {k : Nat} {v : β}
    (hm : (k, v) ∈ t) : lookup t k = some v := by
  induction t with
  | nil => cases hm
  | cons a r ih =>
    unfold lookup
    simp only [List.find?_cons]
    cases hm with
    | head => simp
    | tail _ hm =>
      have hlt := sortedKeys_head_lt hs _ hm
      have hne : (a.1 == k) = false := by
        simp only [beq_eq_false_iff_ne, ne_eq]; intro h; simp only [h] at hlt; omega
      rw [hne]
      have := ih (sortedKeys_tail hs) hm
      unfold lookup at this
      exact this

theorem lookup_mem {β : Type} {t : List (Nat × β)} {k : Nat} {v : β} (h : lookup t k = some v) : (k, v) ∈ t := by
  unfold lookup at h
  cases hf : t.find? (fun r => r.1 == k) with
  | none => rw [hf] at h; cases h
  | some r =>
    rw [hf] at h
    simp only [Option.map_some, Option.some.injEq] at h
    have h1 := List.find?_some hf
    have h2 := List.mem_of_find?_eq_some hf
    simp only [beq_iff_eq] at h1
    have : r = (k, v) := by cases r; simp_all
    rw [← this]; exact h2

/-! ### merge of two key-sorted tables -/

/-- standard merge by first component, fuel = sum of lengths -/
def mergeKeys {β : Type} : Nat → List (Nat × β) → List (Nat × β) → List (Nat × β)
  | 0, xs, ys => xs ++ ys
  | _ + 1, [], ys => ys
  | _ + 1, xs, [] => xs
  | n + 1, x :: xs, y :: ys =>
    if Nat.ble x.1 y.1 then x :: mergeKeys n xs (y :: ys) else y :: mergeKeys n (x :: xs) ys

theorem mem_mergeKeys {β : Type} (n : Nat) (xs ys : List (Nat × β)) (z : Nat × β) :
    z ∈ mergeKeys n xs ys ↔ z ∈ xs ∨ z ∈ ys := by
  induction n generalizing xs ys with
  | zero => simp [mergeKeys]
  | succ n ih =>
    cases xs with
    | nil => simp [mergeKeys]
    | cons x xs =>
      cases ys with
      | nil => simp [mergeKeys]
      | cons y ys =>
        simp only [mergeKeys]
        split
        · simp only [List.mem_cons, ih]; grind
        · simp only [List.mem_cons, ih]; grind

/-! ### subsequence check and merge sort (for the comp ↔ decomp inverse check) -/

/-- `xs` is a subsequence of `ys` (two-pointer walk; rows compared with `==`) -/
def isSubseq : List (Nat × Nat × Nat) → List (Nat × Nat × Nat) → Bool
  | [], _ => true
  | _ :: _, [] => false
  | x :: xs, y :: ys =>
    if Nat.beq x.1 y.1 && Nat.beq x.2.1 y.2.1 && Nat.beq x.2.2 y.2.2 then isSubseq xs ys
    else isSubseq (x :: xs) ys

theorem isSubseq_mem {xs ys : List (Nat × Nat × Nat)} (h : isSubseq xs ys = true) : ∀ x ∈ xs, x ∈ ys := by
  induction ys generalizing xs with
  | nil =>
    cases xs with
    | nil => intro x hx; cases hx
    | cons a r => simp [isSubseq] at h
  | cons y ys ih =>
    cases xs with
    | nil => intro x hx; cases hx
    | cons a r =>
      simp only [isSubseq] at h
      split at h
      · rename_i hc
        simp only [Bool.and_eq_true, Nat.beq_eq] at hc
        have hay : a = y := by
          rcases a with ⟨a1, a2, a3⟩; rcases y with ⟨y1, y2, y3⟩; simp_all
        intro x hx
        cases hx with
        | head => rw [hay]; exact List.mem_cons_self
        | tail _ hx => exact List.mem_cons_of_mem _ (ih h x hx)
      · intro x hx; exact List.mem_cons_of_mem _ (ih h x hx)

/-- split a list into two halves by alternation -/
def halve {α : Type} : List α → List α × List α
  | [] => ([], [])
  | [a] => ([a], [])
  | a :: b :: r => let h := halve r; (a :: h.1, b :: h.2)

theorem mem_halve {α : Type} (l : List α) (z : α) : z ∈ l ↔ z ∈ (halve l).1 ∨ z ∈ (halve l).2 := by
  induction l using halve.induct with
  | case1 => simp [halve]
  | case2 a => simp [halve]
  | case3 a b r ih =>
    simp only [halve, List.mem_cons, ih]
    grind

/-- merge sort by first component with explicit fuel (structural, so the kernel can run it) -/
def msort : Nat → List (Nat × Nat × Nat) → List (Nat × Nat × Nat)
  | 0, l => l
  | _ + 1, [] => []
  | _ + 1, [a] => [a]
  | n + 1, a :: b :: r =>
    let h := halve (a :: b :: r)
    let s1 := msort n h.1
    let s2 := msort n h.2
    mergeKeys (s1.length + s2.length) s1 s2

theorem mem_msort (n : Nat) (l : List (Nat × Nat × Nat)) (z : Nat × Nat × Nat) : z ∈ msort n l ↔ z ∈ l := by
  induction n generalizing l with
  | zero => simp [msort]
  | succ n ih =>
    match l with
    | [] => simp [msort]
    | [a] => simp [msort]
    | a :: b :: r =>
      simp only [msort, mem_mergeKeys, ih]
      exact (mem_halve (a :: b :: r) z).symm

/-! ### binary search -/

/-- `slice::binary_search_by(|item| item.0.cmp(&k))` (the std implementation: halve `[lo, hi)` until
    empty), on an array; `fuel` bounds the number of halvings. Returns the value of a matching row. -/
def bsearchGo {β : Type} (a : Array (Nat × β)) (k : Nat) : Nat → Nat → Nat → Option β
  | 0, _, _ => none
  | fuel + 1, lo, hi =>
    if h : lo < hi ∧ hi ≤ a.size then
      let mid := lo + (hi - lo) / 2
      have : mid < a.size := by omega
      if a[mid].1 < k then bsearchGo a k fuel (mid + 1) hi
      else if k < a[mid].1 then bsearchGo a k fuel lo mid
      else some a[mid].2
    else none

def bsearch {β : Type} (a : Array (Nat × β)) (k : Nat) : Option β := bsearchGo a k (a.size + 1) 0 a.size

/-- pairwise strict order of keys, the form the binary-search proof uses -/
theorem sortedKeys_pairwise {β : Type} {t : List (Nat × β)} (hs : sortedKeys t = true) :
    t.Pairwise (fun x y => x.1 < y.1) := by
  induction t with
  | nil => exact List.Pairwise.nil
  | cons a r ih => exact List.Pairwise.cons (sortedKeys_head_lt hs) (ih (sortedKeys_tail hs))

theorem key_lt_of_sorted {β : Type} {t : List (Nat × β)} (hp : t.Pairwise (fun x y => x.1 < y.1))
    {i j : Nat} (hi : i < t.length) (hj : j < t.length) (hij : i < j) : t[i].1 < t[j].1 :=
  List.pairwise_iff_getElem.mp hp i j hi hj hij

theorem lookup_of_mem_pairwise {β : Type} {t : List (Nat × β)} (hp : t.Pairwise (fun x y => x.1 < y.1))
    {k : Nat} {v : β} (hm : (k, v) ∈ t) : lookup t k = some v := by
  induction t with
  | nil => cases hm
  | cons a r ih =>
    unfold lookup
    simp only [List.find?_cons]
    rw [List.pairwise_cons] at hp
    cases hm with
    | head => simp
    | tail _ hm =>
      have hlt := hp.1 _ hm
      have hne : (a.1 == k) = false := by
        simp only [beq_eq_false_iff_ne, ne_eq]; intro h; simp only [h] at hlt; omega
      rw [hne]
      have := ih hp.2 hm
      unfold lookup at this
      exact this

theorem lookup_none_of_forall {β : Type} {t : List (Nat × β)} {k : Nat} (h : ∀ x ∈ t, x.1 ≠ k) :
    lookup t k = none := by
  unfold lookup
  rw [List.find?_eq_none.mpr]
  · rfl
  · intro x hx; simp only [beq_iff_eq]; exact h x hx

/-- Generic lemma: on a strictly key-sorted table the binary search returns exactly what the contract
    model (`lookup`: the row with that key, if any) returns. -/
theorem bsearchGo_eq_lookup {β : Type} (t : List (Nat × β)) (hp : t.Pairwise (fun x y => x.1 < y.1)) (k : Nat)
    (fuel lo hi : Nat) (hhi : hi ≤ t.length) (hf : hi - lo < fuel)
    (hout : ∀ i (hi' : i < t.length), t[i].1 = k → lo ≤ i ∧ i < hi) :
    bsearchGo t.toArray k fuel lo hi = lookup t k := by
  induction fuel generalizing lo hi with
  | zero => omega
  | succ fuel ih =>
    unfold bsearchGo
    by_cases hlh : lo < hi
    · have hc : lo < hi ∧ hi ≤ t.toArray.size := ⟨hlh, by simpa using hhi⟩
      rw [dif_pos hc]
      simp only
      have hmid : lo + (hi - lo) / 2 < t.length := by omega
      have hget : (t.toArray[lo + (hi - lo) / 2]'(by simpa using hmid)) = t[lo + (hi - lo) / 2] := by simp
      simp only [List.getElem_toArray]
      by_cases h1 : t[lo + (hi - lo) / 2].1 < k
      · rw [if_pos h1]
        apply ih
        · exact hhi
        · omega
        · intro i hi' hik
          have := hout i hi' hik
          refine ⟨?_, this.2⟩
          apply Classical.byContradiction
          intro hcon
          have hle : i ≤ lo + (hi - lo) / 2 := by omega
          rcases Nat.lt_or_eq_of_le hle with hlt | heq
          · have := key_lt_of_sorted hp hi' hmid hlt; omega
          · subst heq; omega
      · rw [if_neg h1]
        by_cases h2 : k < t[lo + (hi - lo) / 2].1
        · rw [if_pos h2]
          apply ih
          · omega
          · omega
          · intro i hi' hik
            have := hout i hi' hik
            refine ⟨this.1, ?_⟩
            apply Classical.byContradiction
            intro hcon
            have hle : lo + (hi - lo) / 2 ≤ i := by omega
            rcases Nat.lt_or_eq_of_le hle with hlt | heq
            · have := key_lt_of_sorted hp hmid hi' hlt; omega
            · subst heq; omega
        · rw [if_neg h2]
          have hk : t[lo + (hi - lo) / 2].1 = k := by omega
          symm
          have hmem : (k, t[lo + (hi - lo) / 2].2) ∈ t := by
            have := List.getElem_mem hmid
            rw [← hk]; exact this
          -- lookup on a pairwise-sorted list finds that row
          exact lookup_of_mem_pairwise hp hmem
    · have hc : ¬(lo < hi ∧ hi ≤ t.toArray.size) := by intro h; exact hlh h.1
      rw [dif_neg hc]
      symm
      apply lookup_none_of_forall
      intro x hx hxk
      obtain ⟨i, hi', rfl⟩ := List.getElem_of_mem hx
      have := hout i hi' hxk
      omega

/-! ## Part 2: Hangul arithmetic -/

/-- the real Hangul constants, as equations (keeps literals out of `whnf`) -/
structure HangulStd (H : Hangul) : Prop where
  s : H.sBase = 44032
  l : H.lBase = 4352
  v : H.vBase = 4449
  t : H.tBase = 4519
  lc : H.lCount = 19
  vc : H.vCount = 21
  tc : H.tCount = 28
  nc : H.nCount = 588
  sc : H.sCount = 11172

theorem genH_std : HangulStd genH := ⟨rfl, rfl, rfl, rfl, rfl, rfl, rfl, rfl, rfl⟩

theorem wrap_sub (W ab sb : Nat) (h1 : sb ≤ ab) (h2 : ab < W) : (ab + W - sb) % W = ab - sb := by
  have : ab + W - sb = (ab - sb) + W := by omega
  rw [this, Nat.add_mod_right, Nat.mod_eq_of_lt (by omega)]

theorem hangul_rt1 (H : Hangul) (hH : HangulStd H) (s a b : Nat) (hs : s < 2 ^ 32)
    (h : decomposeHangul H s = some (a, b)) : composeHangul H a b = some s := by
  obtain ⟨h1, h2, h3, h4, h5, h6, h7, h8, h9⟩ := hH
  have hW : (2:Nat) ^ 32 = 4294967296 := by decide
  unfold decomposeHangul at h
  unfold composeHangul
  simp only [h5, h6, h7, h8, h9] at h ⊢
  by_cases hlo : s < H.sBase
  · have e : (s + 2 ^ 32 - H.sBase) % 2 ^ 32 = s + 2 ^ 32 - H.sBase := Nat.mod_eq_of_lt (by omega)
    rw [e] at h
    rw [if_pos (by omega)] at h
    cases h
  · rw [wrap_sub _ _ _ (by omega) hs] at h
    generalize hx : s - H.sBase = x at h
    have hsx : s = H.sBase + x := by omega
    subst hsx
    clear hlo hx
    split at h
    · cases h
    · rename_i hx
      split at h
      · rename_i hm
        simp only [Option.some.injEq, Prod.mk.injEq] at h
        obtain ⟨rfl, rfl⟩ := h
        rw [if_neg (by omega), if_pos ⟨by omega, by omega, by omega, by omega, by
          rw [Nat.add_sub_cancel_left]; exact Nat.mul_mod_left _ _⟩]
        refine congrArg some ?_
        omega
      · rename_i hm
        simp only [Option.some.injEq, Prod.mk.injEq] at h
        obtain ⟨rfl, rfl⟩ := h
        rw [if_pos ⟨by omega, by omega, by omega, by omega⟩]
        refine congrArg some ?_
        simp only [Nat.add_sub_cancel_left]
        omega

theorem lv_arith (d e : Nat) (hd : d < 19) (he : e < 21) :
    ¬(d * 588 + e * 28 ≥ 11172) ∧ ¬((d * 588 + e * 28) % 28 ≠ 0) ∧ (d * 588 + e * 28) / 588 = d ∧
      (d * 588 + e * 28) % 588 / 28 = e := by
  refine ⟨by omega, by omega, by omega, by omega⟩

theorem lvt_arith (x e : Nat) (hx : x ≤ 11172 - 28) (hm : x % 28 = 0) (he : e < 28) (he0 : e ≠ 0) :
    ¬(x + e ≥ 11172) ∧ (x + e) % 28 ≠ 0 ∧ (x + e) / 28 * 28 = x ∧ (x + e) % 28 = e := by
  refine ⟨by omega, by omega, by omega, by omega⟩

theorem hangul_rt2 (H : Hangul) (hH : HangulStd H) (a b s : Nat)
    (h : composeHangul H a b = some s) : decomposeHangul H s = some (a, b) := by
  obtain ⟨h1, h2, h3, h4, h5, h6, h7, h8, h9⟩ := hH
  have hW : (2:Nat) ^ 32 = 4294967296 := by decide
  unfold composeHangul at h
  unfold decomposeHangul
  simp only [h5, h6, h7, h8, h9] at h ⊢
  split at h
  · rename_i hc
    simp only [Option.some.injEq] at h
    subst h
    generalize hd : a - H.lBase = d
    generalize he : b - H.vBase = e
    have hd' : d < 19 := by omega
    have he' : e < 21 := by omega
    have ha : a = H.lBase + d := by omega
    have hb' : b = H.vBase + e := by omega
    have hsi : (H.sBase + d * 588 + e * 28 + 2 ^ 32 - H.sBase) % 2 ^ 32 = d * 588 + e * 28 := by
      rw [wrap_sub _ _ _ (by omega) (by omega)]; omega
    rw [hsi]
    obtain ⟨a1, a2, a3, a4⟩ := lv_arith d e hd' he'
    rw [if_neg a1, if_neg a2, a3, a4, ha, hb']
  · split at h
    · rename_i hc
      simp only [Option.some.injEq] at h
      subst h
      generalize hx : a - H.sBase = x at hc
      generalize he : b - H.tBase = e
      have hx' : a = H.sBase + x := by omega
      have he' : b = H.tBase + e := by omega
      have he0 : e ≠ 0 := by omega
      have he1 : e < 28 := by omega
      have hx1 : x ≤ 11172 - 28 := by omega
      have hx2 : x % 28 = 0 := hc.2.2.2.2
      subst hx' he'
      have hsi : (H.sBase + x + e + 2 ^ 32 - H.sBase) % 2 ^ 32 = x + e := by
        rw [wrap_sub _ _ _ (by omega) (by omega)]; omega
      rw [hsi]
      obtain ⟨a1, a2, a3, a4⟩ := lvt_arith x e hx1 hx2 he1 he0
      rw [if_neg a1, if_pos a2, a3, a4]
    · cases h

/-! ## Part 3: `decompose` picks the shortest / longest supported candidate -/

/-- the second component of a decomposition as a list (`'\0'` = none) -/
def bl (b : Nat) : List Nat := if b = 0 then [] else [b]

/-- `Cand U F c k out`: following `k` decomposition links (first components) from `c` reaches a
    character `a_k` the font maps, every second component `b_1 … b_k` on the way is absent or mapped,
    and `out = a_k :: b_k :: … :: b_1`. -/
inductive Cand (U : UData) (F : Font) : Nat → Nat → List Nat → Prop
  | base {c a b : Nat} : U.decomp c = some (a, b) → F.has a = true → (b = 0 ∨ F.has b = true) →
      Cand U F c 1 (a :: bl b)
  | step {c a b k : Nat} {out : List Nat} : U.decomp c = some (a, b) → (b = 0 ∨ F.has b = true) →
      Cand U F a k out → Cand U F c (k + 1) (out ++ bl b)

theorem Cand.pos {U : UData} {F : Font} {c k : Nat} {out : List Nat} (h : Cand U F c k out) : 1 ≤ k := by
  cases h <;> omega

/-- the `b` part of `decompose`'s output -/
def bOut (F : Font) (b : Nat) : List (Nat × Nat) :=
  if b ≠ 0 then (match F.glyph b with | some g => [(b, g)] | none => []) else []

theorem bOut_map (F : Font) (b : Nat) (h : b = 0 ∨ F.has b = true) : (bOut F b).map (·.1) = bl b := by
  unfold bOut bl
  by_cases hb : b = 0
  · simp [hb]
  · simp only [hb, ne_eq, not_false_eq_true, ↓reduceIte]
    rcases h with h | h
    · exact absurd h hb
    · unfold Font.has at h
      cases hg : F.glyph b with
      | none => rw [hg] at h; cases h
      | some g => simp

theorem bOut_glyph (F : Font) (b : Nat) : ∀ p ∈ bOut F b, F.glyph p.1 = some p.2 := by
  unfold bOut
  intro p hp
  by_cases hb : b = 0
  · simp [hb] at hp
  · simp only [hb, ne_eq, not_false_eq_true, ↓reduceIte] at hp
    cases hg : F.glyph b with
    | none => rw [hg] at hp; cases hp
    | some g => rw [hg] at hp; simp at hp; subst hp; exact hg

/-- unfolding of `decompose` at `fuel + 1` when the character decomposes and `b` is usable -/
theorem decompose_succ (U : UData) (F : Font) (s : Bool) (fuel ab a b : Nat) (hd : U.decomp ab = some (a, b))
    (hb : b = 0 ∨ F.has b = true) :
    decompose U F s (fuel + 1) ab =
      match (if !s || (F.glyph a).isNone then decompose U F s fuel a else some []) with
      | none => none
      | some (r :: rs) => some (r :: rs ++ bOut F b)
      | some [] => match F.glyph a with
        | some g => some ((a, g) :: bOut F b)
        | none => some [] := by
  have hc : ¬(b ≠ 0 ∧ (F.glyph b).isNone = true) := by
    intro ⟨h1, h2⟩
    rcases hb with hb | hb
    · exact h1 hb
    · unfold Font.has at hb; rw [Option.isNone_iff_eq_none] at h2; rw [h2] at hb; cases hb
  rw [decompose]
  simp only [hd, hc, if_false]
  rfl

theorem decompose_shortest (U : UData) (F : Font) (fuel c : Nat) (r : List (Nat × Nat))
    (h : decompose U F true fuel c = some r) :
    (r ≠ [] → ∃ k, Cand U F c k (r.map (·.1)) ∧ (∀ p ∈ r, F.glyph p.1 = some p.2) ∧
        ∀ k' out', Cand U F c k' out' → k ≤ k') ∧
    (r = [] → ∀ k out, ¬Cand U F c k out) := by
  induction fuel generalizing c r with
  | zero => simp [decompose] at h
  | succ fuel ih =>
    cases hd : U.decomp c with
    | none =>
      rw [decompose] at h
      simp only [hd] at h
      cases h
      refine ⟨fun h => absurd rfl h, fun _ k out hc => ?_⟩
      cases hc <;> simp_all
    | some ab =>
      obtain ⟨a, b⟩ := ab
      by_cases hb : b = 0 ∨ F.has b = true
      · rw [decompose_succ U F true fuel c a b hd hb] at h
        cases hg : F.glyph a with
        | none =>
          simp only [hg, Bool.not_true, Option.isNone_none, Bool.or_true, ↓reduceIte] at h
          cases hr : decompose U F true fuel a with
          | none => rw [hr] at h; cases h
          | some r' =>
            rw [hr] at h
            have ih' := ih a r' hr
            cases r' with
            | nil =>
              simp only [Option.some.injEq] at h
              subst h
              refine ⟨fun h => absurd rfl h, fun _ k out hc => ?_⟩
              cases hc with
              | base h1 h2 h3 =>
                rw [hd] at h1; cases h1
                unfold Font.has at h2; rw [hg] at h2; cases h2
              | step h1 h2 h3 =>
                rw [hd] at h1; cases h1
                exact ih'.2 rfl _ _ h3
            | cons x xs =>
              simp only [Option.some.injEq] at h
              subst h
              refine ⟨fun _ => ?_, fun h => by simp at h⟩
              obtain ⟨k, hk1, hk2, hk3⟩ := ih'.1 (by simp)
              refine ⟨k + 1, ?_, ?_, ?_⟩
              · have := Cand.step hd hb hk1
                simpa [bOut_map F b hb] using this
              · intro p hp
                simp only [List.cons_append, List.mem_cons, List.mem_append] at hp
                rcases hp with hp | hp | hp
                · exact hk2 p (by simp [hp])
                · exact hk2 p (by simp [hp])
                · exact bOut_glyph F b p hp
              · intro k' out' hc
                cases hc with
                | base h1 h2 h3 =>
                  rw [hd] at h1; cases h1
                  unfold Font.has at h2; rw [hg] at h2; cases h2
                | step h1 h2 h3 =>
                  rw [hd] at h1; cases h1
                  have := hk3 _ _ h3
                  omega
        | some g =>
          simp only [hg, Bool.not_true, Option.isNone_some, Bool.or_false, Bool.false_eq_true, ↓reduceIte,
            Option.some.injEq] at h
          subst h
          refine ⟨fun _ => ?_, fun h => by simp at h⟩
          refine ⟨1, ?_, ?_, ?_⟩
          · have : Cand U F c 1 (a :: bl b) := Cand.base hd (by unfold Font.has; rw [hg]; rfl) hb
            simpa [bOut_map F b hb] using this
          · intro p hp
            simp only [List.mem_cons] at hp
            rcases hp with hp | hp
            · subst hp; exact hg
            · exact bOut_glyph F b p hp
          · intro k' out' hc; exact hc.pos
      · rw [decompose] at h
        have hc : b ≠ 0 ∧ (F.glyph b).isNone = true := by
          refine ⟨fun h0 => hb (Or.inl h0), ?_⟩
          cases hgb : F.glyph b with
          | none => rfl
          | some g => exact absurd (Or.inr (by unfold Font.has; rw [hgb]; rfl)) hb
        simp only [hd] at h
        rw [if_pos hc] at h
        simp only [Option.some.injEq] at h
        subst h
        refine ⟨fun h => absurd rfl h, fun _ k out hc' => ?_⟩
        cases hc' with
        | base h1 h2 h3 => rw [hd] at h1; cases h1; exact hb h3
        | step h1 h2 h3 => rw [hd] at h1; cases h1; exact hb h2

theorem decompose_full (U : UData) (F : Font) (fuel c : Nat) (r : List (Nat × Nat))
    (h : decompose U F false fuel c = some r) :
    (r ≠ [] → ∃ k, Cand U F c k (r.map (·.1)) ∧ (∀ p ∈ r, F.glyph p.1 = some p.2) ∧
        ∀ k' out', Cand U F c k' out' → k' ≤ k) ∧
    (r = [] → ∀ k out, ¬Cand U F c k out) := by
  induction fuel generalizing c r with
  | zero => simp [decompose] at h
  | succ fuel ih =>
    cases hd : U.decomp c with
    | none =>
      rw [decompose] at h
      simp only [hd] at h
      cases h
      refine ⟨fun h => absurd rfl h, fun _ k out hc => ?_⟩
      cases hc <;> simp_all
    | some ab =>
      obtain ⟨a, b⟩ := ab
      by_cases hb : b = 0 ∨ F.has b = true
      · rw [decompose_succ U F false fuel c a b hd hb] at h
        simp only [Bool.not_false, Bool.true_or, ↓reduceIte] at h
        cases hr : decompose U F false fuel a with
        | none => rw [hr] at h; cases h
        | some r' =>
          rw [hr] at h
          have ih' := ih a r' hr
          cases r' with
          | nil =>
            cases hg : F.glyph a with
            | none =>
              simp only [hg, Option.some.injEq] at h
              subst h
              refine ⟨fun h => absurd rfl h, fun _ k out hc => ?_⟩
              cases hc with
              | base h1 h2 h3 =>
                rw [hd] at h1; cases h1
                unfold Font.has at h2; rw [hg] at h2; cases h2
              | step h1 h2 h3 =>
                rw [hd] at h1; cases h1
                exact ih'.2 rfl _ _ h3
            | some g =>
              simp only [hg, Option.some.injEq] at h
              subst h
              refine ⟨fun _ => ?_, fun h => by simp at h⟩
              refine ⟨1, ?_, ?_, ?_⟩
              · have : Cand U F c 1 (a :: bl b) := Cand.base hd (by unfold Font.has; rw [hg]; rfl) hb
                simpa [bOut_map F b hb] using this
              · intro p hp
                simp only [List.mem_cons] at hp
                rcases hp with hp | hp
                · subst hp; exact hg
                · exact bOut_glyph F b p hp
              · intro k' out' hc
                cases hc with
                | base h1 h2 h3 => exact Nat.le_refl _
                | step h1 h2 h3 =>
                  rw [hd] at h1; cases h1
                  exact absurd h3 (ih'.2 rfl _ _)
          | cons x xs =>
            simp only [Option.some.injEq] at h
            subst h
            refine ⟨fun _ => ?_, fun h => by simp at h⟩
            obtain ⟨k, hk1, hk2, hk3⟩ := ih'.1 (by simp)
            refine ⟨k + 1, ?_, ?_, ?_⟩
            · have := Cand.step hd hb hk1
              simpa [bOut_map F b hb] using this
            · intro p hp
              simp only [List.cons_append, List.mem_cons, List.mem_append] at hp
              rcases hp with hp | hp | hp
              · exact hk2 p (by simp [hp])
              · exact hk2 p (by simp [hp])
              · exact bOut_glyph F b p hp
            · intro k' out' hc
              cases hc with
              | base h1 h2 h3 => have := hk1.pos; omega
              | step h1 h2 h3 =>
                rw [hd] at h1; cases h1
                have := hk3 _ _ h3
                omega
      · rw [decompose] at h
        have hc : b ≠ 0 ∧ (F.glyph b).isNone = true := by
          refine ⟨fun h0 => hb (Or.inl h0), ?_⟩
          cases hgb : F.glyph b with
          | none => rfl
          | some g => exact absurd (Or.inr (by unfold Font.has; rw [hgb]; rfl)) hb
        simp only [hd] at h
        rw [if_pos hc] at h
        simp only [Option.some.injEq] at h
        subst h
        refine ⟨fun h => absurd rfl h, fun _ k out hc' => ?_⟩
        cases hc' with
        | base h1 h2 h3 => rw [hd] at h1; cases h1; exact hb h3
        | step h1 h2 h3 => rw [hd] at h1; cases h1; exact hb h2

/-- candidates are deterministic in the depth -/
theorem Cand.out_unique {U : UData} {F : Font} {c k : Nat} {o1 o2 : List Nat}
    (h1 : Cand U F c k o1) (h2 : Cand U F c k o2) : o1 = o2 := by
  induction h1 generalizing o2 with
  | base d1 a1 b1 =>
    cases h2 with
    | base d2 a2 b2 => rw [d1] at d2; cases d2; rfl
    | step d2 b2 c2 => have := c2.pos; omega
  | step d1 b1 c1 ih =>
    cases h2 with
    | base d2 a2 b2 => have := c1.pos; omega
    | step d2 b2 c2 => rw [d1] at d2; cases d2; rw [ih c2]

/-- full canonical decomposition along first components, as a relation -/
inductive FullDecomp (U : UData) : Nat → List Nat → Prop
  | leaf {c : Nat} : U.decomp c = none → FullDecomp U c [c]
  | node {c a b : Nat} {l : List Nat} : U.decomp c = some (a, b) → FullDecomp U a l → FullDecomp U c (l ++ bl b)

/-- C08 (normalizer part, first round): what `decompose` outputs, decomposed to the end, is the full
    decomposition of the character. -/
theorem Cand.full {U : UData} {F : Font} {c k : Nat} {out : List Nat} (h : Cand U F c k out)
    {l : List Nat} (hl : FullDecomp U c l) :
    ∃ a bs la, out = a :: bs ∧ FullDecomp U a la ∧ l = la ++ bs := by
  induction h generalizing l with
  | base d1 a1 b1 =>
    cases hl with
    | leaf d2 => rw [d1] at d2; cases d2
    | node d2 f2 => rw [d1] at d2; cases d2; exact ⟨_, _, _, rfl, f2, rfl⟩
  | @step c0 a0 b0 k0 out0 d1 b1 c1 ih =>
    cases hl with
    | leaf d2 => rw [d1] at d2; cases d2
    | node d2 f2 =>
      rw [d1] at d2; cases d2
      obtain ⟨a, bs, la, e1, e2, e3⟩ := ih f2
      refine ⟨a, bs ++ bl b0, la, ?_, e2, ?_⟩
      · rw [e1]; rfl
      · rw [e3, List.append_assoc]


/-! ## Part 4: one-character buffers -/

theorem outputChars_spec (U : UData) (K : Consts) (cur : Info) (ps : List (Nat × Nat)) (flags : Nat) :
    (outputChars U K cur ps flags).1.map (·.cp) = ps.map (·.1) ∧
    (outputChars U K cur ps flags).1.map (·.gidx) = ps.map (·.2) ∧
    (∀ x ∈ (outputChars U K cur ps flags).1, x.cluster = cur.cluster ∧ x.mask = cur.mask) := by
  induction ps generalizing flags with
  | nil => simp [outputChars]
  | cons p ps ih =>
    obtain ⟨u, g⟩ := p
    simp only [outputChars]
    have := ih (initProps U K u flags).2
    refine ⟨?_, ?_, ?_⟩
    · simp [this.1]
    · simp [this.2.1]
    · intro x hx
      simp only [List.mem_cons] at hx
      rcases hx with hx | hx
      · subst hx; simp
      · exact this.2.2 x hx

theorem cgjGo_spec (p : Info) (l : List Info) :
    (cgjGo p l).map (·.cp) = l.map (·.cp) ∧ (cgjGo p l).map (·.gidx) = l.map (·.gidx) ∧
    (cgjGo p l).map (·.cluster) = l.map (·.cluster) ∧ (cgjGo p l).map (·.mask) = l.map (·.mask) := by
  induction l generalizing p with
  | nil => simp [cgjGo]
  | cons x r ih =>
    cases r with
    | nil => simp [cgjGo]
    | cons y r =>
      simp only [cgjGo, List.map_cons]
      have := ih x
      refine ⟨?_, ?_, ?_, ?_⟩
      · rw [this.1]; split <;> simp [Info.unhide]
      · rw [this.2.1]; split <;> simp [Info.unhide]
      · rw [this.2.2.1]; split <;> simp [Info.unhide]
      · rw [this.2.2.2]; split <;> simp [Info.unhide]

theorem cgjRound_spec (l : List Info) :
    (cgjRound l).map (·.cp) = l.map (·.cp) ∧ (cgjRound l).map (·.gidx) = l.map (·.gidx) ∧
    (cgjRound l).map (·.cluster) = l.map (·.cluster) ∧ (cgjRound l).map (·.mask) = l.map (·.mask) := by
  cases l with
  | nil => simp [cgjRound]
  | cons x r =>
    have := cgjGo_spec x r
    simp [cgjRound, this.1, this.2.1, this.2.2.1, this.2.2.2]

theorem cgjRound_single (x : Info) : cgjRound [x] = [x] := by simp [cgjRound, cgjGo]

/-- the fast path of the first round is `decompose_current_character` for a supported character -/
theorem simpleRun_single (U : UData) (F : Font) (K : Consts) (fuel : Nat) (might : Bool) (x : Info) (flags : Nat) :
    simpleRun U F K fuel might [x] flags = decomposeCurrentCharacter U F K fuel might x flags := by
  have hrun : decomposeRun U F K fuel might [x] flags = decomposeCurrentCharacter U F K fuel might x flags := by
    simp only [decomposeRun]
    cases decomposeCurrentCharacter U F K fuel might x flags with
    | none => rfl
    | some r => obtain ⟨o, f⟩ := r; simp
  cases might with
  | false => simp only [simpleRun, Bool.false_eq_true, ↓reduceIte]; exact hrun
  | true =>
    simp only [simpleRun, ↓reduceIte]
    cases hg : F.glyph x.cp with
    | none => simp only; exact hrun
    | some g =>
      simp only [decomposeCurrentCharacter, hg, Bool.not_true, Option.isNone_some, Bool.or_self,
        Bool.false_eq_true, ↓reduceIte]

theorem round1_single (U : UData) (F : Font) (K : Consts) (fuel : Nat) (might always : Bool) (out : List Info)
    (x : Info) (flags : Nat) (as : Bool) :
    round1 U F K fuel might always out [x] flags as =
      match decomposeCurrentCharacter U F K fuel might x flags with
      | none => none
      | some (o, f) => some (out ++ o, f, as) := by
  rw [round1]
  simp only [List.takeWhile_nil, List.dropWhile_nil]
  rw [simpleRun_single]
  cases decomposeCurrentCharacter U F K fuel might x flags with
  | none => rfl
  | some r => rfl

/-- `_hb_ot_shape_normalize` on a one-character buffer -/
theorem normalize_single (U : UData) (F : Font) (K : Consts) (fuel pref : Nat) (x : Info) (flags : Nat) :
    normalize U F K fuel pref [x] flags =
      match decomposeCurrentCharacter U F K fuel
          ((if pref = 4 then 2 else pref) == 0 || ((if pref = 4 then 2 else pref) != 1 && (if pref = 4 then 2 else pref) != 3))
          x flags with
      | none => none
      | some (o, f) => some (if f &&& K.flagCGJ ≠ 0 then cgjRound o else o, f) := by
  unfold normalize
  simp only [List.isEmpty_cons, Bool.false_eq_true, ↓reduceIte]
  rw [round1_single]
  cases decomposeCurrentCharacter U F K fuel _ x flags with
  | none => rfl
  | some r => obtain ⟨o, f⟩ := r; simp


/-! ## Part 5: helpers for C09_single -/

/-- normalization preferences that may short-circuit (none, composed diacritics, auto) -/
def mightPref (pref : Nat) : Prop := pref = 0 ∨ pref = 2 ∨ pref = 4
/-- normalization preferences that never short-circuit (decomposed, composed no-short-circuit) -/
def fullPref (pref : Nat) : Prop := pref = 1 ∨ pref = 3

theorem might_of (pref : Nat) (h : mightPref pref) :
    ((if pref = 4 then 2 else pref) == 0 || ((if pref = 4 then 2 else pref) != 1 && (if pref = 4 then 2 else pref) != 3)) = true := by
  rcases h with h | h | h <;> subst h <;> decide

theorem full_of (pref : Nat) (h : fullPref pref) :
    ((if pref = 4 then 2 else pref) == 0 || ((if pref = 4 then 2 else pref) != 1 && (if pref = 4 then 2 else pref) != 3)) = false := by
  rcases h with h | h <;> subst h <;> decide

/-- what `decompose_current_character` does once `decompose` produced something -/
theorem dcc_decomposed (U : UData) (F : Font) (K : Consts) (fuel : Nat) (s : Bool) (x : Info) (flags : Nat)
    (r : List (Nat × Nat)) (hr : r ≠ [])
    (h : (if !s || (F.glyph x.cp).isNone then decompose U F s fuel x.cp else some []) = some r) :
    decomposeCurrentCharacter U F K fuel s x flags = some (outputChars U K x r flags) := by
  unfold decomposeCurrentCharacter
  simp only [h]
  cases r with
  | nil => exact absurd rfl hr
  | cons p ps => rfl

/-- and when it produced nothing: the character is kept, with some glyph index -/
theorem dcc_kept (U : UData) (F : Font) (K : Consts) (fuel : Nat) (s : Bool) (x : Info) (flags : Nat)
    (h : (if !s || (F.glyph x.cp).isNone then decompose U F s fuel x.cp else some []) = some []) :
    ∃ g p f, decomposeCurrentCharacter U F K fuel s x flags = some ([{ x with gidx := g, props := p }], f) ∧
      (∀ g', F.glyph x.cp = some g' → g = g' ∧ p = x.props ∧ f = flags) := by
  unfold decomposeCurrentCharacter
  simp only [h]
  cases hg : F.glyph x.cp with
  | some g => exact ⟨g, x.props, flags, rfl, fun g' hg' => by cases hg'; exact ⟨rfl, rfl, rfl⟩⟩
  | none =>
    simp only
    split
    · exact ⟨_, _, _, rfl, fun g' hg' => by cases hg'⟩
    · split
      · exact ⟨_, x.props, _, rfl, fun g' hg' => by cases hg'⟩
      · exact ⟨_, x.props, _, rfl, fun g' hg' => by cases hg'⟩

theorem zip_mem {α : Type} (l : List α) (f g : α → Nat) (r : List (Nat × Nat))
    (h1 : l.map f = r.map (·.1)) (h2 : l.map g = r.map (·.2)) : ∀ i ∈ l, (f i, g i) ∈ r := by
  induction l generalizing r with
  | nil => intro i hi; cases hi
  | cons a l ih =>
    cases r with
    | nil => simp at h1
    | cons p r =>
      simp only [List.map_cons, List.cons.injEq] at h1 h2
      intro i hi
      simp only [List.mem_cons] at hi
      rcases hi with hi | hi
      · subst hi; rw [h1.1, h2.1]; exact List.mem_cons_self
      · exact List.mem_cons_of_mem _ (ih r h1.2 h2.2 i hi)

/-- output of `normalize` on `[x]` when `decompose` produced `r ≠ []` -/
theorem normalize_single_decomposed (U : UData) (F : Font) (K : Consts) (fuel pref : Nat) (x : Info) (flags : Nat)
    (s : Bool)
    (hs : ((if pref = 4 then 2 else pref) == 0 || ((if pref = 4 then 2 else pref) != 1 && (if pref = 4 then 2 else pref) != 3)) = s)
    (r : List (Nat × Nat)) (hr : r ≠ [])
    (h : (if !s || (F.glyph x.cp).isNone then decompose U F s fuel x.cp else some []) = some r)
    (hg : ∀ p ∈ r, F.glyph p.1 = some p.2) :
    ∃ l f, normalize U F K fuel pref [x] flags = some (l, f) ∧ l.map (·.cp) = r.map (·.1) ∧
      (∀ i ∈ l, F.glyph i.cp = some i.gidx ∧ i.cluster = x.cluster ∧ i.mask = x.mask) := by
  rw [normalize_single, hs, dcc_decomposed U F K fuel s x flags r hr h]
  have sp := outputChars_spec U K x r flags
  generalize outputChars U K x r flags = oc at sp
  obtain ⟨o, f⟩ := oc
  simp only at sp
  by_cases hc : f &&& K.flagCGJ ≠ 0
  · refine ⟨cgjRound o, f, by simp [hc], ?_, ?_⟩
    · rw [(cgjRound_spec o).1, sp.1]
    · have c := cgjRound_spec o
      have hz := zip_mem (cgjRound o) (·.cp) (·.gidx) r (by rw [c.1, sp.1]) (by rw [c.2.1, sp.2.1])
      intro i hi
      refine ⟨hg _ (hz i hi), ?_⟩
      -- cluster and mask: positionwise equal to those of `o`
      have hcl : ∀ j ∈ (cgjRound o).map (·.cluster), j = x.cluster := by
        rw [c.2.2.1]; intro j hj
        obtain ⟨y, hy, rfl⟩ := List.mem_map.mp hj
        exact (sp.2.2 y hy).1
      have hmk : ∀ j ∈ (cgjRound o).map (·.mask), j = x.mask := by
        rw [c.2.2.2]; intro j hj
        obtain ⟨y, hy, rfl⟩ := List.mem_map.mp hj
        exact (sp.2.2 y hy).2
      exact ⟨hcl _ (List.mem_map.mpr ⟨i, hi, rfl⟩), hmk _ (List.mem_map.mpr ⟨i, hi, rfl⟩)⟩
  · refine ⟨o, f, by simp [hc], sp.1, ?_⟩
    have hz := zip_mem o (·.cp) (·.gidx) r sp.1 sp.2.1
    intro i hi
    exact ⟨hg _ (hz i hi), sp.2.2 i hi⟩

theorem normalize_single_kept (U : UData) (F : Font) (K : Consts) (fuel pref : Nat) (x : Info) (flags : Nat)
    (s : Bool)
    (hs : ((if pref = 4 then 2 else pref) == 0 || ((if pref = 4 then 2 else pref) != 1 && (if pref = 4 then 2 else pref) != 3)) = s)
    (h : (if !s || (F.glyph x.cp).isNone then decompose U F s fuel x.cp else some []) = some []) :
    ∃ g p f, normalize U F K fuel pref [x] flags = some ([{ x with gidx := g, props := p }], f) ∧
      (∀ g', F.glyph x.cp = some g' → g = g' ∧ p = x.props ∧ f = flags) := by
  obtain ⟨g, p, f, h1, h2⟩ := dcc_kept U F K fuel s x flags h
  refine ⟨g, p, f, ?_, h2⟩
  rw [normalize_single, hs, h1]
  simp only [cgjRound_single, ite_self]


/-! ## Part 6: the reorder round -/

/-- a record without its cluster and mask (what the reorder round does not permute freely) -/
def strip (i : Info) : Info := { i with cluster := 0, mask := 0 }

theorem strip_setCluster (K : Consts) (i : Info) (c : Nat) : strip (setCluster K i c) = strip i := by
  unfold setCluster strip; split <;> rfl

theorem mcc_setCluster (K : Consts) (i : Info) (c : Nat) : (setCluster K i c).mcc = i.mcc := by
  unfold setCluster; split <;> rfl

theorem mcc_strip (i : Info) : (strip i).mcc = i.mcc := rfl

theorem map_strip_setCluster (K : Consts) (l : List Info) (c : Nat) :
    (l.map (setCluster K · c)).map strip = l.map strip := by
  simp [List.map_map, Function.comp_def, strip_setCluster]

/-- stable insertion from the right: `x` goes after every element that is not greater -/
def insertRight (seg : List Info) (x : Info) : List Info :=
  (seg.reverse.dropWhile (fun y => y.mcc > x.mcc)).reverse ++
    x :: (seg.reverse.takeWhile (fun y => y.mcc > x.mcc)).reverse

/-- insertion sort, left to right -/
def insertAll : List Info → List Info → List Info
  | seg, [] => seg
  | seg, x :: xs => insertAll (insertRight seg x) xs

theorem takeWhile_map_strip (v : Nat) (l : List Info) :
    (l.map strip).takeWhile (fun y => y.mcc > v) = (l.takeWhile (fun y => y.mcc > v)).map strip := by
  induction l with
  | nil => rfl
  | cons a l ih =>
    simp only [List.map_cons, List.takeWhile_cons, mcc_strip]
    by_cases h : a.mcc > v <;> simp [h, ih]

theorem dropWhile_map_strip (v : Nat) (l : List Info) :
    (l.map strip).dropWhile (fun y => y.mcc > v) = (l.dropWhile (fun y => y.mcc > v)).map strip := by
  induction l with
  | nil => rfl
  | cons a l ih =>
    simp only [List.map_cons, List.dropWhile_cons, mcc_strip]
    by_cases h : a.mcc > v <;> simp [h, ih]

theorem insertRight_strip (seg : List Info) (x : Info) :
    insertRight (seg.map strip) (strip x) = (insertRight seg x).map strip := by
  unfold insertRight
  rw [mcc_strip, ← List.map_reverse, takeWhile_map_strip, dropWhile_map_strip]
  simp only [List.map_append, List.map_cons, List.map_reverse]

theorem takeWhile_append_drop_length {α : Type} (p : α → Bool) (l : List α) :
    l.takeWhile p ++ l.drop (l.takeWhile p).length = l := by
  induction l with
  | nil => rfl
  | cons a l ih =>
    simp only [List.takeWhile_cons]
    by_cases h : p a <;> simp [h, ih]

theorem rotateRight1_snoc (l : List Info) (x : Info) : rotateRight1 (l ++ [x]) = x :: l := by
  unfold rotateRight1
  simp

theorem extendStart_strip (K : Consts) (pre : List Info) (c0 cluster : Nat) :
    (extendStart K pre c0 cluster).map strip = pre.map strip := by
  unfold extendStart
  rw [List.map_append, map_strip_setCluster, ← List.map_append, ← List.reverse_append,
    List.takeWhile_append_dropWhile, List.reverse_reverse]

theorem mergeClusters_strip (K : Consts) (pre : List Info) (x : Info) (xs tl : List Info) :
    (mergeClusters K pre x xs tl).1.map strip = pre.map strip ∧
    (mergeClusters K pre x xs tl).2.1.map strip = (x :: xs).map strip ∧
    (mergeClusters K pre x xs tl).2.2.map strip = tl.map strip := by
  simp only [mergeClusters]
  refine ⟨?_, map_strip_setCluster _ _ _, ?_⟩
  · split
    · exact extendStart_strip _ _ _ _
    · rfl
  · split
    · rw [List.map_append, map_strip_setCluster, ← List.map_append, takeWhile_append_drop_length]
    · simp

theorem sortStep_strip (K : Consts) (pre seg : List Info) (x : Info) (tl : List Info) :
    (sortStep K pre seg x tl).1.map strip = pre.map strip ∧
    (sortStep K pre seg x tl).2.1.map strip = insertRight (seg.map strip) (strip x) ∧
    (sortStep K pre seg x tl).2.2.map strip = tl.map strip := by
  rw [insertRight_strip]
  unfold sortStep insertRight
  simp only
  have hsplit : seg = (seg.reverse.dropWhile (fun y => y.mcc > x.mcc)).reverse ++
      (seg.reverse.takeWhile (fun y => y.mcc > x.mcc)).reverse := by
    rw [← List.reverse_append, List.takeWhile_append_dropWhile, List.reverse_reverse]
  split
  · rename_i hm
    rw [hm, List.append_nil] at hsplit
    refine ⟨rfl, ?_, rfl⟩
    rw [← hsplit]
    have hm' : seg.reverse.takeWhile (fun y => decide (y.mcc > x.mcc)) = [] := List.reverse_eq_nil_iff.mp hm
    simp [hm']
  · rename_i m ms hm
    rw [hm]
    have mc := mergeClusters_strip K (pre ++ (seg.reverse.dropWhile (fun y => y.mcc > x.mcc)).reverse) m (ms ++ [x]) tl
    have ml := length_mergeClusters K (pre ++ (seg.reverse.dropWhile (fun y => y.mcc > x.mcc)).reverse) m (ms ++ [x]) tl
    refine ⟨?_, ?_, mc.2.2⟩
    · rw [List.map_take, mc.1, List.map_append, List.take_left' (by simp)]
    · rw [List.map_append, List.map_drop, mc.1, List.map_append, List.drop_left' (by simp)]
      -- the merged range, rotated
      simp only [mergeClusters]
      have : (m :: (ms ++ [x])).map (setCluster K · (minCluster m.cluster (ms ++ [x]))) =
          ((m :: ms).map (setCluster K · (minCluster m.cluster (ms ++ [x])))) ++
            [setCluster K x (minCluster m.cluster (ms ++ [x]))] := by simp
      rw [this, rotateRight1_snoc]
      simp only [List.map_cons, List.map_append, strip_setCluster, map_strip_setCluster]

theorem sortGo_strip (K : Consts) (pre seg : List Info) (n : Nat) (tl : List Info) (h : n ≤ tl.length) :
    (sortGo K pre seg n tl).map strip =
      pre.map strip ++ (insertAll (seg.map strip) ((tl.take n).map strip) ++ (tl.drop n).map strip) := by
  induction n generalizing pre seg tl with
  | zero => simp [sortGo, insertAll]
  | succ n ih =>
    cases tl with
    | nil => simp at h
    | cons x tl =>
      simp only [sortGo]
      have hs := sortStep_strip K pre seg x tl
      rw [ih _ _ _ (by rw [(length_sortStep K pre seg x tl).2.2]; simpa using h)]
      rw [hs.1, hs.2.1, List.map_take, List.map_drop, hs.2.2]
      simp [insertAll]

/-! ### the pure insertion sort is a stable sort by modified ccc -/

theorem insertRight_perm (seg : List Info) (x : Info) : (insertRight seg x).Perm (seg ++ [x]) := by
  unfold insertRight
  have hsplit : seg = (seg.reverse.dropWhile (fun y => y.mcc > x.mcc)).reverse ++
      (seg.reverse.takeWhile (fun y => y.mcc > x.mcc)).reverse := by
    rw [← List.reverse_append, List.takeWhile_append_dropWhile, List.reverse_reverse]
  generalize (seg.reverse.dropWhile (fun y => y.mcc > x.mcc)).reverse = k at hsplit
  generalize (seg.reverse.takeWhile (fun y => y.mcc > x.mcc)).reverse = m at hsplit
  subst hsplit
  rw [List.append_assoc]
  refine List.Perm.append_left k ?_
  have := List.perm_append_comm (l₁ := [x]) (l₂ := m)
  simpa using this

theorem insertAll_perm (seg xs : List Info) : (insertAll seg xs).Perm (seg ++ xs) := by
  induction xs generalizing seg with
  | nil => simp [insertAll]
  | cons x xs ih =>
    simp only [insertAll]
    refine (ih _).trans ?_
    have := (insertRight_perm seg x).append_right xs
    simpa using this

theorem mem_takeWhile_imp {α : Type} (p : α → Bool) (l : List α) : ∀ x ∈ l.takeWhile p, p x = true := by
  induction l with
  | nil => intro x hx; cases hx
  | cons a l ih =>
    intro x hx
    simp only [List.takeWhile_cons] at hx
    by_cases h : p a
    · simp only [h, ↓reduceIte, List.mem_cons] at hx
      rcases hx with hx | hx
      · subst hx; exact h
      · exact ih x hx
    · simp [h] at hx

/-- the two halves `insertRight` splits the sorted prefix into -/
theorem insertRight_split (seg : List Info) (x : Info) :
    ∃ k m, seg = k ++ m ∧ insertRight seg x = k ++ x :: m ∧ (∀ b ∈ m, x.mcc < b.mcc) ∧
      (k = [] ∨ ∃ k' z, k = k' ++ [z] ∧ z.mcc ≤ x.mcc) := by
  refine ⟨(seg.reverse.dropWhile (fun y => y.mcc > x.mcc)).reverse,
    (seg.reverse.takeWhile (fun y => y.mcc > x.mcc)).reverse, ?_, rfl, ?_, ?_⟩
  · rw [← List.reverse_append, List.takeWhile_append_dropWhile, List.reverse_reverse]
  · intro b hb
    have := mem_takeWhile_imp _ _ b (List.mem_reverse.mp hb)
    simpa using this
  · cases hd : seg.reverse.dropWhile (fun y => y.mcc > x.mcc) with
    | nil => left; rfl
    | cons z d =>
      right
      refine ⟨d.reverse, z, by simp, ?_⟩
      have hne : seg.reverse.dropWhile (fun y => decide (y.mcc > x.mcc)) ≠ [] := by rw [hd]; simp
      have := List.head_dropWhile_not (fun y : Info => decide (y.mcc > x.mcc)) hne
      simp only [hd, List.head_cons, decide_eq_false_iff_not] at this
      omega

def SortedMcc (l : List Info) : Prop := l.Pairwise (fun a b => a.mcc ≤ b.mcc)

theorem insertRight_sorted (seg : List Info) (x : Info) (h : SortedMcc seg) : SortedMcc (insertRight seg x) := by
  obtain ⟨k, m, e1, e2, hm, hk⟩ := insertRight_split seg x
  rw [e2]
  subst e1
  unfold SortedMcc at *
  rw [List.pairwise_append] at h ⊢
  obtain ⟨h1, h2, h3⟩ := h
  have hkx : ∀ a ∈ k, a.mcc ≤ x.mcc := by
    rcases hk with hk | ⟨k', z, hk, hz⟩
    · subst hk; intro a ha; cases ha
    · subst hk
      intro a ha
      rw [List.pairwise_append] at h1
      simp only [List.mem_append, List.mem_singleton] at ha
      rcases ha with ha | ha
      · have := h1.2.2 a ha z (by simp); omega
      · subst ha; exact hz
  refine ⟨h1, ?_, ?_⟩
  · rw [List.pairwise_cons]
    exact ⟨fun b hb => Nat.le_of_lt (hm b hb), h2⟩
  · intro a ha b hb
    simp only [List.mem_cons] at hb
    rcases hb with hb | hb
    · subst hb; exact hkx a ha
    · exact h3 a ha b hb

theorem insertAll_sorted (seg xs : List Info) (h : SortedMcc seg) : SortedMcc (insertAll seg xs) := by
  induction xs generalizing seg with
  | nil => exact h
  | cons x xs ih => exact ih _ (insertRight_sorted seg x h)

theorem insertRight_stable (seg : List Info) (x : Info) (c : Nat) :
    (insertRight seg x).filter (fun y => y.mcc == c) = (seg ++ [x]).filter (fun y => y.mcc == c) := by
  obtain ⟨k, m, e1, e2, hm, _⟩ := insertRight_split seg x
  rw [e2]
  subst e1
  simp only [List.filter_append, List.filter_cons, List.filter_nil]
  by_cases hx : x.mcc = c
  · have : m.filter (fun y => y.mcc == c) = [] := by
      rw [List.filter_eq_nil_iff]
      intro a ha
      have := hm a ha
      simp only [beq_iff_eq]; omega
    simp [hx, this]
  · simp [hx]

theorem insertAll_stable (seg xs : List Info) (c : Nat) :
    (insertAll seg xs).filter (fun y => y.mcc == c) = (seg ++ xs).filter (fun y => y.mcc == c) := by
  induction xs generalizing seg with
  | nil => simp [insertAll]
  | cons x xs ih =>
    simp only [insertAll]
    rw [ih, List.filter_append, insertRight_stable, ← List.filter_append]
    simp

/-! ### the reorder round against the canonical ordering spec -/

/-- UAX #15 canonical ordering (stable sort of every maximal run of characters with non-zero combining
    class), with the modified classes and the crate's cap: a run of more than `maxMarks` is left alone. -/
def canonReorder (maxMarks : Nat) : List Info → List Info
  | [] => []
  | x :: r =>
    if x.mcc = 0 then x :: canonReorder maxMarks r
    else
      (if 1 + (r.takeWhile (fun i => i.mcc ≠ 0)).length ≤ maxMarks
        then insertAll [] (x :: r.takeWhile (fun i => i.mcc ≠ 0))
        else x :: r.takeWhile (fun i => i.mcc ≠ 0)) ++
      canonReorder maxMarks (r.dropWhile (fun i => i.mcc ≠ 0))
termination_by l => l.length
decreasing_by
  · simp
  · have := length_dropWhile_le (fun i => i.mcc ≠ 0) r
    simp only [List.length_cons]; omega

theorem takeWhile_nz_strip (l : List Info) :
    (l.map strip).takeWhile (fun i => i.mcc ≠ 0) = (l.takeWhile (fun i => i.mcc ≠ 0)).map strip := by
  rw [List.takeWhile_map]; rfl

theorem dropWhile_nz_strip (l : List Info) :
    (l.map strip).dropWhile (fun i => i.mcc ≠ 0) = (l.dropWhile (fun i => i.mcc ≠ 0)).map strip := by
  rw [List.dropWhile_map]; rfl

theorem canonReorder_head_zero (maxMarks : Nat) (d : List Info)
    (h : ∀ y t, d = y :: t → y.mcc = 0) :
    d.take 1 ++ canonReorder maxMarks (d.drop 1) = canonReorder maxMarks d := by
  cases d with
  | nil => simp [canonReorder]
  | cons y t =>
    have := h y t rfl
    rw [canonReorder]
    simp [this]

theorem dropWhile_nz_head (r : List Info) : ∀ y t, r.dropWhile (fun i => i.mcc ≠ 0) = y :: t → y.mcc = 0 := by
  intro y t h
  have hne : r.dropWhile (fun i => decide (i.mcc ≠ 0)) ≠ [] := by rw [h]; simp
  have := List.head_dropWhile_not (fun i : Info => decide (i.mcc ≠ 0)) hne
  simp only [h, List.head_cons, decide_eq_false_iff_not, ne_eq, Decidable.not_not] at this
  exact this

theorem insertAll_length (seg xs : List Info) : (insertAll seg xs).length = seg.length + xs.length := by
  rw [(insertAll_perm seg xs).length_eq, List.length_append]

theorem round2_strip (K : Consts) (pre l : List Info) :
    (round2 K pre l).map strip = pre.map strip ++ canonReorder K.maxMarks (l.map strip) := by
  fun_induction round2 K pre l with
  | case1 pre => simp [canonReorder]
  | case2 pre x r hx ih =>
    rw [ih, List.map_cons, canonReorder]
    simp [mcc_strip, hx]
  | case3 pre x r hx ih =>
    have hsplit : x :: r = (x :: r.takeWhile (fun i => i.mcc ≠ 0)) ++ r.dropWhile (fun i => i.mcc ≠ 0) := by
      simp [List.takeWhile_append_dropWhile]
    have htake : (x :: r).take (runLen r) = x :: r.takeWhile (fun i => i.mcc ≠ 0) := by
      conv => lhs; rw [hsplit]
      rw [List.take_left' (by simp [runLen]; omega)]
    have hdrop : (x :: r).drop (runLen r) = r.dropWhile (fun i => i.mcc ≠ 0) := by
      conv => lhs; rw [hsplit]
      rw [List.drop_left' (by simp [runLen]; omega)]
    -- the sorted buffer, stripped
    have hM : ∃ S, S.length = runLen r ∧
        (sortRun K pre (runLen r) (x :: r)).map strip =
          pre.map strip ++ (S ++ (r.dropWhile (fun i => i.mcc ≠ 0)).map strip) ∧
        S = (if 1 + ((r.map strip).takeWhile (fun i => i.mcc ≠ 0)).length ≤ K.maxMarks
          then insertAll [] (strip x :: (r.map strip).takeWhile (fun i => i.mcc ≠ 0))
          else strip x :: (r.map strip).takeWhile (fun i => i.mcc ≠ 0)) := by
      unfold sortRun
      rw [takeWhile_nz_strip]
      simp only [List.length_map]
      have hn : runLen r = 1 + (r.takeWhile (fun i => i.mcc ≠ 0)).length := rfl
      by_cases hle : runLen r ≤ K.maxMarks
      · rw [if_pos hle, if_pos (hn ▸ hle)]
        refine ⟨_, ?_, ?_, rfl⟩
        · rw [insertAll_length]; simp [runLen]; omega
        · rw [sortGo_strip K pre [] _ _ (runLen_le x r), htake, hdrop]
          simp
      · rw [if_neg hle, if_neg (hn ▸ hle)]
        refine ⟨_, ?_, ?_, rfl⟩
        · simp [runLen]; omega
        · conv => lhs; rw [hsplit]
          rw [List.map_append, List.map_append, List.map_cons]
    obtain ⟨S, hS, hM, hSdef⟩ := hM
    rw [ih, List.map_take, List.map_drop, hM]
    have hpl : (pre.map strip).length = pre.length := List.length_map _
    have e1 : (pre.map strip ++ (S ++ (r.dropWhile (fun i => i.mcc ≠ 0)).map strip)).take (pre.length + runLen r + 1) =
        pre.map strip ++ (S ++ ((r.dropWhile (fun i => i.mcc ≠ 0)).map strip).take 1) := by
      rw [List.take_append, hpl, List.take_of_length_le (by rw [hpl]; omega)]
      congr 1
      have : pre.length + runLen r + 1 - pre.length = runLen r + 1 := by omega
      rw [this, List.take_append, hS]; simp [List.take_of_length_le (Nat.le_succ_of_le (Nat.le_of_eq hS))]
    have e2 : (pre.map strip ++ (S ++ (r.dropWhile (fun i => i.mcc ≠ 0)).map strip)).drop (pre.length + runLen r + 1) =
        ((r.dropWhile (fun i => i.mcc ≠ 0)).map strip).drop 1 := by
      rw [List.drop_append, hpl, List.drop_of_length_le (by rw [hpl]; omega), List.nil_append]
      have : pre.length + runLen r + 1 - pre.length = runLen r + 1 := by omega
      rw [this, List.drop_append, hS]; simp [List.drop_of_length_le (Nat.le_succ_of_le (Nat.le_of_eq hS))]
    rw [e1, e2, List.append_assoc, List.append_assoc, canonReorder_head_zero]
    · rw [List.map_cons, canonReorder]
      simp only [mcc_strip, hx, ↓reduceIte]
      rw [← hSdef, dropWhile_nz_strip]
    · intro y t hyt
      rw [← dropWhile_nz_strip] at hyt
      exact dropWhile_nz_head _ y t hyt


theorem canonReorder_perm (maxMarks : Nat) (l : List Info) : (canonReorder maxMarks l).Perm l := by
  fun_induction canonReorder maxMarks l with
  | case1 => exact List.Perm.refl _
  | case2 x r hx ih => exact List.Perm.cons x ih
  | case3 x r hx ih =>
    have hsplit : x :: r = (x :: r.takeWhile (fun i => i.mcc ≠ 0)) ++ r.dropWhile (fun i => i.mcc ≠ 0) := by
      simp [List.takeWhile_append_dropWhile]
    conv => rhs; rw [hsplit]
    refine List.Perm.append ?_ ih
    split
    · have := insertAll_perm [] (x :: r.takeWhile (fun i => i.mcc ≠ 0))
      simpa using this
    · exact List.Perm.refl _


/-! ## Part 7: the recomposition round -/

/-- the view of a record the recomposition round decides on: code point and modified ccc -/
def cm (i : Info) : Nat × Nat := (i.cp, i.mcc)

/-- not blocked: nothing kept so far, or the last kept mark has a smaller class -/
def unblockedCm (kept : List (Nat × Nat)) (m : Nat × Nat) : Bool :=
  match kept.getLast? with
  | none => true
  | some p => decide (p.2 < m.2)

/-- Spec of recomposing `starter + marks`: `a` = current starter, `kept` = marks not absorbed so far (in
    order), then the incoming marks.  A mark is absorbed iff it is not blocked, `comp a m` is defined and
    the font maps the result. -/
def recomposeSpec (comp : Nat → Nat → Option Nat) (has : Nat → Bool) :
    Nat → List (Nat × Nat) → List (Nat × Nat) → Nat × List (Nat × Nat)
  | a, kept, [] => (a, kept)
  | a, kept, m :: ms =>
    match (if unblockedCm kept m then comp a m.1 else none) with
    | some c => if has c then recomposeSpec comp has c kept ms else recomposeSpec comp has a (kept ++ [m]) ms
    | none => recomposeSpec comp has a (kept ++ [m]) ms

theorem unblockedCm_map (mid : List Info) (cur : Info) : unblockedCm (mid.map cm) (cm cur) = unblocked mid cur := by
  unfold unblockedCm unblocked
  rw [List.getLast?_map]
  cases mid.getLast? <;> rfl

theorem cm_setCluster (K : Consts) (i : Info) (c : Nat) : cm (setCluster K i c) = cm i := by
  unfold setCluster cm; split <;> rfl

theorem map_cm_setCluster (K : Consts) (l : List Info) (c : Nat) : (l.map (setCluster K · c)).map cm = l.map cm := by
  simp [List.map_map, Function.comp_def, cm_setCluster]

theorem cp_setCluster (K : Consts) (i : Info) (c : Nat) : (setCluster K i c).cp = i.cp := by
  unfold setCluster; split <;> rfl

theorem isMark_setCluster (K : Consts) (i : Info) (c : Nat) : (setCluster K i c).isMark = i.isMark := by
  unfold setCluster; split <;> rfl

theorem mergeOutClusters_spec (K : Consts) (pre : List Info) (s : Info) (mid rest : List Info) :
    (mergeOutClusters K pre s mid rest).1.map (·.cp) = pre.map (·.cp) ∧
    (mergeOutClusters K pre s mid rest).2.1.cp = s.cp ∧
    (mergeOutClusters K pre s mid rest).2.2.1.map cm = mid.map cm ∧
    (mergeOutClusters K pre s mid rest).2.2.2.map cm = rest.map cm ∧
    (∀ m ∈ (mergeOutClusters K pre s mid rest).2.2.2, ∃ m' ∈ rest, m.isMark = m'.isMark ∧ m.mcc = m'.mcc) := by
  unfold mergeOutClusters
  simp only
  refine ⟨?_, cp_setCluster _ _ _, map_cm_setCluster _ _ _, ?_, ?_⟩
  · rw [List.map_append, List.map_map]
    have : ((fun x => x.cp) ∘ fun x => setCluster K x (minCluster s.cluster mid)) = fun x => x.cp := by
      funext x; exact cp_setCluster _ _ _
    rw [this, ← List.map_append, List.take_append_drop]
  · rw [List.map_append, map_cm_setCluster, ← List.map_append, List.take_append_drop]
  · intro m hm
    simp only [List.mem_append, List.mem_map] at hm
    rcases hm with ⟨m', hm', rfl⟩ | hm
    · exact ⟨m', List.mem_of_mem_take hm', isMark_setCluster _ _ _, mcc_setCluster _ _ _⟩
    · exact ⟨m, List.mem_of_mem_drop hm, rfl, rfl⟩

theorem getLast?_map_cm (l : List Info) : (l.map cm).getLast? = l.getLast?.map cm := by
  simp [List.getLast?_map]

theorem dropLast_snoc_map (K : Consts) (mid : List Info) (cur : Info) (c : Nat) :
    (((mid ++ [cur]).map (setCluster K · c)).dropLast).map cm = mid.map cm := by
  simp only [List.map_append, List.map_cons, List.map_nil, List.dropLast_concat, map_cm_setCluster]

/-- the recomposition loop on `starter + marks` computes `recomposeSpec` -/
theorem round3Go_spec (U : UData) (F : Font) (K : Consts) (rest pre : List Info) (s : Info) (mid : List Info)
    (flags : Nat) (hrest : ∀ m ∈ rest, m.isMark = true ∧ m.mcc ≠ 0) :
    (round3Go U F K rest pre s mid flags).1.map (·.cp) =
      pre.map (·.cp) ++
        (recomposeSpec U.comp F.has s.cp (mid.map cm) (rest.map cm)).1 ::
        (recomposeSpec U.comp F.has s.cp (mid.map cm) (rest.map cm)).2.map (·.1) := by
  generalize hn : rest.length = n
  induction n generalizing rest pre s mid flags with
  | zero =>
    have : rest = [] := List.length_eq_zero_iff.mp hn
    subst this
    rw [round3Go]
    simp [recomposeSpec, cm, List.map_map, Function.comp_def]
  | succ n ih =>
    cases rest with
    | nil => simp at hn
    | cons cur rest =>
      have hcur := hrest cur List.mem_cons_self
      have hrest' : ∀ m ∈ rest, m.isMark = true ∧ m.mcc ≠ 0 := fun m hm => hrest m (List.mem_cons_of_mem _ hm)
      rw [round3Go]
      simp only [List.map_cons, recomposeSpec]
      rw [unblockedCm_map]
      simp only [hcur.1, Bool.true_and]
      have hcp : (cm cur).1 = cur.cp := rfl
      rw [hcp]
      by_cases hu : unblocked mid cur = true
      · simp only [hu, ↓reduceIte]
        unfold composeMapped
        cases hc : U.comp s.cp cur.cp with
        | none =>
          simp only [hcur.2, ↓reduceIte]
          rw [ih rest pre s (mid ++ [cur]) flags hrest' (by simpa using hn)]
          simp
        | some c =>
          simp only
          cases hg : F.glyph c with
          | none =>
            have hh : F.has c = false := by unfold Font.has; rw [hg]; rfl
            simp only [hcur.2, ↓reduceIte, hh, Bool.false_eq_true]
            rw [ih rest pre s (mid ++ [cur]) flags hrest' (by simpa using hn)]
            simp
          | some g =>
            have hh : F.has c = true := by unfold Font.has; rw [hg]; rfl
            simp only [hh, ↓reduceIte]
            have sp := mergeOutClusters_spec K pre s (mid ++ [cur]) rest
            rw [ih _ _ _ _ _ (by
              intro m hm
              obtain ⟨m', hm', e1, e2⟩ := sp.2.2.2.2 m hm
              rw [e1, e2]; exact hrest' m' hm') (by rw [length_mergeOutClusters]; simpa using hn)]
            rw [sp.1, sp.2.2.2.1]
            have : (mergeOutClusters K pre s (mid ++ [cur]) rest).2.2.1.dropLast.map cm = mid.map cm := by
              unfold mergeOutClusters
              exact dropLast_snoc_map K mid cur _
            rw [this]
      · have hu' : unblocked mid cur = false := by simpa using hu
        simp only [hu', Bool.false_eq_true, ↓reduceIte, hcur.2]
        rw [ih rest pre s (mid ++ [cur]) flags hrest' (by simpa using hn)]
        simp


/-! ## Part 7b: one cluster through the three rounds -/

theorem takeWhile_all {α : Type} (p : α → Bool) (l : List α) (h : ∀ x ∈ l, p x = true) : l.takeWhile p = l := by
  induction l with
  | nil => rfl
  | cons a l ih =>
    simp only [List.takeWhile_cons, h a List.mem_cons_self, ↓reduceIte]
    rw [ih (fun x hx => h x (List.mem_cons_of_mem _ hx))]

theorem dropWhile_all {α : Type} (p : α → Bool) (l : List α) (h : ∀ x ∈ l, p x = true) : l.dropWhile p = [] := by
  induction l with
  | nil => rfl
  | cons a l ih =>
    simp only [List.dropWhile_cons, h a List.mem_cons_self, ↓reduceIte]
    exact ih (fun x hx => h x (List.mem_cons_of_mem _ hx))

theorem takeWhile_append_stop {α : Type} (p : α → Bool) (l tl : List α) (h : ∀ x ∈ l, p x = true)
    (ht : ∀ z ∈ tl.head?, p z = false) : (l ++ tl).takeWhile p = l ∧ (l ++ tl).dropWhile p = tl := by
  induction l with
  | nil =>
    cases tl with
    | nil => simp
    | cons z tl => have := ht z (by simp); simp [this]
  | cons a l ih =>
    have ha := h a List.mem_cons_self
    have := ih (fun x hx => h x (List.mem_cons_of_mem _ hx))
    simp [ha, this.1, this.2]

/-- **first round, one cluster `base + marks` without a variation selector, whatever follows it** (`tl`
    starts with a non-mark or is empty): everything of the cluster goes through
    `decompose_current_character` (with `shortest = always_short_circuit`), `all_simple` becomes false and the
    round continues with `tl` untouched. -/
theorem round1_cluster_then (U : UData) (F : Font) (K : Consts) (fuel : Nat) (might always : Bool)
    (out : List Info) (s m : Info) (ms tl : List Info) (flags : Nat) (as : Bool)
    (hm : ∀ x ∈ m :: ms, x.isMark = true) (htl : ∀ z ∈ tl.head?, z.isMark = false)
    (hvs : ∀ x ∈ s :: m :: ms, U.isVS x.cp = false) :
    round1 U F K fuel might always out (s :: m :: (ms ++ tl)) flags as =
      match decomposeRun U F K fuel always (s :: m :: ms) flags with
      | none => none
      | some (o, f) => round1 U F K fuel might always (out ++ o) tl f false := by
  rw [round1]
  have h1 : (m :: (ms ++ tl)).takeWhile (fun i => !i.isMark) = [] := by
    simp [hm m List.mem_cons_self]
  have h2 : (m :: (ms ++ tl)).dropWhile (fun i => !i.isMark) = m :: (ms ++ tl) := by
    simp [hm m List.mem_cons_self]
  have h34 := takeWhile_append_stop (fun i : Info => i.isMark) (m :: ms) tl hm htl
  have h3 : (m :: (ms ++ tl)).takeWhile (fun i => i.isMark) = m :: ms := by simpa using h34.1
  have hn : 1 + ((m :: (ms ++ tl)).takeWhile (fun i => i.isMark)).length = (s :: m :: ms).length := by
    rw [h3]; simp only [List.length_cons]; omega
  have htake : (s :: m :: (ms ++ tl)).take (s :: m :: ms).length = s :: m :: ms := by
    have : s :: m :: (ms ++ tl) = (s :: m :: ms) ++ tl := by simp
    rw [this, List.take_left]
  have hdrop : (s :: m :: (ms ++ tl)).drop (s :: m :: ms).length = tl := by
    have : s :: m :: (ms ++ tl) = (s :: m :: ms) ++ tl := by simp
    rw [this, List.drop_left]
  have h5 : (s :: m :: ms).any (fun i => U.isVS i.cp) = false := by
    rw [List.any_eq_false]; intro x hx; simp [hvs x hx]
  have hmc : multiCharCluster U F K fuel always (out ++ []) (s :: m :: (ms ++ tl))
      (1 + ((m :: (ms ++ tl)).takeWhile (fun i => i.isMark)).length) flags =
      match decomposeRun U F K fuel always (s :: m :: ms) flags with
      | none => none
      | some (o, f) => some (out ++ o, tl, f) := by
    unfold multiCharCluster
    rw [hn, htake, hdrop, h5]
    simp only [Bool.false_eq_true, ↓reduceIte, List.append_nil]
    cases decomposeRun U F K fuel always (s :: m :: ms) flags <;> rfl
  split
  · rename_i h; rw [h2] at h; cases h
  · rename_i z zs h
    rw [h2] at h
    have hz : z = m := (List.cons.inj h).1.symm
    have hzs : zs = ms ++ tl := (List.cons.inj h).2.symm
    subst hz hzs
    simp only [h1, splitLast, simpleRun]
    split
    · rename_i hc
      simp only [h1, splitLast] at hc
      rw [hmc] at hc
      cases hd : decomposeRun U F K fuel always (s :: z :: ms) flags with
      | none => rfl
      | some r => rw [hd] at hc; cases hc
    · rename_i r hc
      simp only [h1, splitLast] at hc
      rw [hmc] at hc
      cases hd : decomposeRun U F K fuel always (s :: z :: ms) flags with
      | none => rw [hd] at hc; cases hc
      | some r' =>
        obtain ⟨o, f⟩ := r'
        rw [hd] at hc
        cases hc
        rfl

/-- first round on a buffer that is one cluster `base + marks` -/
theorem round1_cluster (U : UData) (F : Font) (K : Consts) (fuel : Nat) (might always : Bool)
    (s m : Info) (ms : List Info) (flags : Nat) (as : Bool)
    (hm : ∀ x ∈ m :: ms, x.isMark = true) (hvs : ∀ x ∈ s :: m :: ms, U.isVS x.cp = false) :
    round1 U F K fuel might always [] (s :: m :: ms) flags as =
      match decomposeRun U F K fuel always (s :: m :: ms) flags with
      | none => none
      | some (o, f) => some (o, f, false) := by
  have h := round1_cluster_then U F K fuel might always [] s m ms [] flags as hm (by simp) hvs
  simp only [List.append_nil] at h
  rw [h]
  cases decomposeRun U F K fuel always (s :: m :: ms) flags with
  | none => rfl
  | some r =>
    obtain ⟨o, f⟩ := r
    simp only [List.nil_append]
    rw [round1]

theorem normalize_cluster (U : UData) (F : Font) (K : Consts) (fuel pref : Nat)
    (s m : Info) (ms : List Info) (flags : Nat)
    (hm : ∀ x ∈ m :: ms, x.isMark = true) (hvs : ∀ x ∈ s :: m :: ms, U.isVS x.cp = false) :
    normalize U F K fuel pref (s :: m :: ms) flags =
      match decomposeRun U F K fuel (pref == 0) (s :: m :: ms) flags with
      | none => none
      | some (o, f) =>
        if pref = 2 ∨ pref = 3 ∨ pref = 4 then
          some (round3 U F K (if f &&& K.flagCGJ ≠ 0 then cgjRound (round2 K [] o) else round2 K [] o) f)
        else some (if f &&& K.flagCGJ ≠ 0 then cgjRound (round2 K [] o) else round2 K [] o, f) := by
  unfold normalize
  simp only [List.isEmpty_cons, Bool.false_eq_true, ↓reduceIte]
  rw [round1_cluster U F K fuel _ _ s m ms flags true hm hvs]
  have halways : ((if pref = 4 then 2 else pref) == 0) = (pref == 0) := by
    by_cases h4 : pref = 4
    · subst h4; rfl
    · simp [h4]
  rw [halways]
  cases decomposeRun U F K fuel (pref == 0) (s :: m :: ms) flags with
  | none => rfl
  | some r =>
    obtain ⟨o, f⟩ := r
    simp only [Bool.not_false, ↓reduceIte, Bool.true_and]
    by_cases h4 : pref = 4
    · subst h4; simp
    · by_cases h2 : pref = 2
      · subst h2; simp
      · by_cases h3 : pref = 3
        · subst h3; simp
        · simp [h4, h2, h3]


/-! ## Part 8: generated-table facts used by C09_tables_consistent -/

set_option maxRecDepth 100000 in
theorem decompTable_sorted : sortedKeys Gen.Norm.decompTable = true := by decide +kernel
set_option maxRecDepth 100000 in
theorem compTable_sorted : sortedKeys Gen.Norm.compTable = true := by decide +kernel

set_option maxRecDepth 100000 in
theorem comp_rows_in_decomp :
    isSubseq (msort 12 (Gen.Norm.compTable.map (fun r => (r.2, r.1 / 2 ^ 32, r.1 % 2 ^ 32)))) Gen.Norm.decompTable = true := by
  decide +kernel


/-! ## Part 9: combining classes -/

/-- `(lo, hi, v)` ranges expanded to `(c, v)` per character (`fuel` ≥ the longest range) -/
def expandRange : Nat → Nat → Nat → Nat → List (Nat × Nat)
  | 0, _, _, _ => []
  | fuel + 1, lo, hi, v => if lo ≤ hi then (lo, v) :: expandRange fuel (lo + 1) hi v else []

def expandRanges (t : List (Nat × Nat × Nat)) : List (Nat × Nat) :=
  t.flatMap (fun r => expandRange (r.2.1 - r.1 + 1) r.1 r.2.1 r.2.2)

def dedupNat : List Nat → List Nat → List Nat
  | acc, [] => acc.reverse
  | acc, x :: xs => if acc.contains x then dedupNat acc xs else dedupNat (x :: acc) xs

/-- the canonical combining classes that occur in the crate's data, with their modified class -/
def classVals : List (Nat × Nat) :=
  (dedupNat [] (Gen.Norm.cccRanges.map (·.2.2))).filterMap (fun k => (Gen.Norm.mccTab[k]?).map (fun m => (k, m)))

/-- `CharExt::modified_combining_class` as the source defines it: three per-character overrides, else
    `MODIFIED_COMBINING_CLASS[ccc]` -/
def mccFromCcc (vals : List (Nat × Nat)) (c k : Nat) : Option Nat :=
  if c = 0x1A60 ∨ c = 0x0FC6 then some 254 else if c = 0x0F39 then some 127 else lookup vals k

def mccExpected (vals : List (Nat × Nat)) : List (Nat × Nat) → Option (List (Nat × Nat))
  | [] => some []
  | (c, k) :: r =>
    match mccFromCcc vals c k, mccExpected vals r with
    | some m, some rest => some (if m = 0 then rest else (c, m) :: rest)
    | _, _ => none


set_option maxRecDepth 100000 in
theorem mcc_from_ccc_check :
    mccExpected classVals (expandRanges Gen.Norm.cccRanges) = some (expandRanges Gen.Norm.mccRanges) := by
  decide +kernel

set_option maxRecDepth 100000 in
theorem classVals_inj_check :
    classVals.all (fun p => classVals.all (fun q => p.1 == q.1 || p.2 != q.2 || p.2 == 0)) = true := by
  decide +kernel

set_option maxRecDepth 100000 in
theorem classVals_zero_check : classVals.all (fun p => p.2 != 0 || p.1 == 84 || p.1 == 91) = true := by
  decide +kernel

end RbModel.Norm
