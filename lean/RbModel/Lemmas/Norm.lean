/-
  Helper definitions and lemmas for Props/C09.lean (normalizer).
  Part 1: table machinery — linear-time checkers for generated tables (sortedness, merge, subsequence,
  a fuel-based merge sort) with their soundness lemmas, and the binary search of
  `slice::binary_search_by` with the generic lemma that on a strictly sorted table it returns what the
  contract model `Norm.lookup` returns.
-/
import RbModel.Norm

namespace RbModel.Norm

/-! ### strictly sorted keys -/

/-- keys strictly increasing (linear-time Bool checker) -/
def sortedKeys {β : Type} : List (Nat × β) → Bool
  | [] => true
  | [_] => true
  | a :: b :: r => Nat.blt a.1 b.1 && sortedKeys (b :: r)

theorem sortedKeys_tail {β : Type} {a : Nat × β} {l : List (Nat × β)} (h : sortedKeys (a :: l) = true) :
    sortedKeys l = true := by
  cases l with
  | nil => rfl
  | cons b r => simp only [sortedKeys, Bool.and_eq_true] at h; exact h.2

theorem sortedKeys_head_lt {β : Type} {a : Nat × β} {l : List (Nat × β)} (h : sortedKeys (a :: l) = true) :
    ∀ x ∈ l, a.1 < x.1 := by
  induction l generalizing a with
  | nil => intro x hx; cases hx
  | cons b r ih =>
    simp only [sortedKeys, Bool.and_eq_true, Nat.blt_eq] at h
    intro x hx
    cases hx with
    | head => exact h.1
    | tail _ hx => exact Nat.lt_trans h.1 (ih h.2 x hx)

theorem lookup_of_mem_sorted {β : Type} {t : List (Nat × β)} (hs : sortedKeys t = true) {k : Nat} {v : β}
    (hm : (k, v) ∈ t) : lookup t k = some v := by
  induction t with
  | nil => cases hm
  | cons a r ih =>
    unfold lookup
    simp only [List.find?_cons]
    cases hm with
    | head => simp
    | tail _ hm =>
      have hlt := sortedKeys_head_lt hs _ hm
      have hne : (a.1 == k) = false := by
        simp only [beq_eq_false_iff_ne, ne_eq]; intro h; simp only [h] at hlt; omega
      rw [hne]
      have := ih (sortedKeys_tail hs) hm
      unfold lookup at this
      exact this

theorem lookup_mem {β : Type} {t : List (Nat × β)} {k : Nat} {v : β} (h : lookup t k = some v) : (k, v) ∈ t := by
  unfold lookup at h
  cases hf : t.find? (fun r => r.1 == k) with
  | none => rw [hf] at h; cases h
  | some r =>
    rw [hf] at h
    simp only [Option.map_some, Option.some.injEq] at h
    have h1 := List.find?_some hf
    have h2 := List.mem_of_find?_eq_some hf
    simp only [beq_iff_eq] at h1
    have : r = (k, v) := by cases r; simp_all
    rw [← this]; exact h2

/-! ### merge of two key-sorted tables -/

/-- standard merge by first component, fuel = sum of lengths -/
def mergeKeys {β : Type} : Nat → List (Nat × β) → List (Nat × β) → List (Nat × β)
  | 0, xs, ys => xs ++ ys
  | _ + 1, [], ys => ys
  | _ + 1, xs, [] => xs
  | n + 1, x :: xs, y :: ys =>
    if Nat.ble x.1 y.1 then x :: mergeKeys n xs (y :: ys) else y :: mergeKeys n (x :: xs) ys

theorem mem_mergeKeys {β : Type} (n : Nat) (xs ys : List (Nat × β)) (z : Nat × β) :
    z ∈ mergeKeys n xs ys ↔ z ∈ xs ∨ z ∈ ys := by
  induction n generalizing xs ys with
  | zero => simp [mergeKeys]
  | succ n ih =>
    cases xs with
    | nil => simp [mergeKeys]
    | cons x xs =>
      cases ys with
      | nil => simp [mergeKeys]
      | cons y ys =>
        simp only [mergeKeys]
        split
        · simp only [List.mem_cons, ih]; grind
        · simp only [List.mem_cons, ih]; grind

/-! ### subsequence check and merge sort (for the comp ↔ decomp inverse check) -/

/-- `xs` is a subsequence of `ys` (two-pointer walk; rows compared with `==`) -/
def isSubseq : List (Nat × Nat × Nat) → List (Nat × Nat × Nat) → Bool
  | [], _ => true
  | _ :: _, [] => false
  | x :: xs, y :: ys =>
    if Nat.beq x.1 y.1 && Nat.beq x.2.1 y.2.1 && Nat.beq x.2.2 y.2.2 then isSubseq xs ys
    else isSubseq (x :: xs) ys

theorem isSubseq_mem {xs ys : List (Nat × Nat × Nat)} (h : isSubseq xs ys = true) : ∀ x ∈ xs, x ∈ ys := by
  induction ys generalizing xs with
  | nil =>
    cases xs with
    | nil => intro x hx; cases hx
    | cons a r => simp [isSubseq] at h
  | cons y ys ih =>
    cases xs with
    | nil => intro x hx; cases hx
    | cons a r =>
      simp only [isSubseq] at h
      split at h
      · rename_i hc
        simp only [Bool.and_eq_true, Nat.beq_eq] at hc
        have hay : a = y := by
          rcases a with ⟨a1, a2, a3⟩; rcases y with ⟨y1, y2, y3⟩; simp_all
        intro x hx
        cases hx with
        | head => rw [hay]; exact List.mem_cons_self
        | tail _ hx => exact List.mem_cons_of_mem _ (ih h x hx)
      · intro x hx; exact List.mem_cons_of_mem _ (ih h x hx)

/-- split a list into two halves by alternation -/
def halve {α : Type} : List α → List α × List α
  | [] => ([], [])
  | [a] => ([a], [])
  | a :: b :: r => let h := halve r; (a :: h.1, b :: h.2)

theorem mem_halve {α : Type} (l : List α) (z : α) : z ∈ l ↔ z ∈ (halve l).1 ∨ z ∈ (halve l).2 := by
  induction l using halve.induct with
  | case1 => simp [halve]
  | case2 a => simp [halve]
  | case3 a b r ih =>
    simp only [halve, List.mem_cons, ih]
    grind

/-- merge sort by first component with explicit fuel (structural, so the kernel can run it) -/
def msort : Nat → List (Nat × Nat × Nat) → List (Nat × Nat × Nat)
  | 0, l => l
  | _ + 1, [] => []
  | _ + 1, [a] => [a]
  | n + 1, a :: b :: r =>
    let h := halve (a :: b :: r)
    let s1 := msort n h.1
    let s2 := msort n h.2
    mergeKeys (s1.length + s2.length) s1 s2

theorem mem_msort (n : Nat) (l : List (Nat × Nat × Nat)) (z : Nat × Nat × Nat) : z ∈ msort n l ↔ z ∈ l := by
  induction n generalizing l with
  | zero => simp [msort]
  | succ n ih =>
    match l with
    | [] => simp [msort]
    | [a] => simp [msort]
    | a :: b :: r =>
      simp only [msort, mem_mergeKeys, ih]
      exact (mem_halve (a :: b :: r) z).symm

/-! ### binary search -/

/-- `slice::binary_search_by(|item| item.0.cmp(&k))` (the std implementation: halve `[lo, hi)` until
    empty), on an array; `fuel` bounds the number of halvings. Returns the value of a matching row. -/
def bsearchGo {β : Type} (a : Array (Nat × β)) (k : Nat) : Nat → Nat → Nat → Option β
  | 0, _, _ => none
  | fuel + 1, lo, hi =>
    if h : lo < hi ∧ hi ≤ a.size then
      let mid := lo + (hi - lo) / 2
      have : mid < a.size := by omega
      if a[mid].1 < k then bsearchGo a k fuel (mid + 1) hi
      else if k < a[mid].1 then bsearchGo a k fuel lo mid
      else some a[mid].2
    else none

def bsearch {β : Type} (a : Array (Nat × β)) (k : Nat) : Option β := bsearchGo a k (a.size + 1) 0 a.size

/-- pairwise strict order of keys, the form the binary-search proof uses -/
theorem sortedKeys_pairwise {β : Type} {t : List (Nat × β)} (hs : sortedKeys t = true) :
    t.Pairwise (fun x y => x.1 < y.1) := by
  induction t with
  | nil => exact List.Pairwise.nil
  | cons a r ih => exact List.Pairwise.cons (sortedKeys_head_lt hs) (ih (sortedKeys_tail hs))

theorem key_lt_of_sorted {β : Type} {t : List (Nat × β)} (hp : t.Pairwise (fun x y => x.1 < y.1))
    {i j : Nat} (hi : i < t.length) (hj : j < t.length) (hij : i < j) : t[i].1 < t[j].1 :=
  List.pairwise_iff_getElem.mp hp i j hi hj hij

theorem lookup_of_mem_pairwise {β : Type} {t : List (Nat × β)} (hp : t.Pairwise (fun x y => x.1 < y.1))
    {k : Nat} {v : β} (hm : (k, v) ∈ t) : lookup t k = some v := by
  induction t with
  | nil => cases hm
  | cons a r ih =>
    unfold lookup
    simp only [List.find?_cons]
    rw [List.pairwise_cons] at hp
    cases hm with
    | head => simp
    | tail _ hm =>
      have hlt := hp.1 _ hm
      have hne : (a.1 == k) = false := by
        simp only [beq_eq_false_iff_ne, ne_eq]; intro h; simp only [h] at hlt; omega
      rw [hne]
      have := ih hp.2 hm
      unfold lookup at this
      exact this

theorem lookup_none_of_forall {β : Type} {t : List (Nat × β)} {k : Nat} (h : ∀ x ∈ t, x.1 ≠ k) :
    lookup t k = none := by
  unfold lookup
  rw [List.find?_eq_none.mpr]
  · rfl
  · intro x hx; simp only [beq_iff_eq]; exact h x hx

/-- Generic lemma: on a strictly key-sorted table the binary search returns exactly what the contract
    model (`lookup`: the row with that key, if any) returns. -/
theorem bsearchGo_eq_lookup {β : Type} (t : List (Nat × β)) (hp : t.Pairwise (fun x y => x.1 < y.1)) (k : Nat)
    (fuel lo hi : Nat) (hhi : hi ≤ t.length) (hf : hi - lo < fuel)
    (hout : ∀ i (hi' : i < t.length), t[i].1 = k → lo ≤ i ∧ i < hi) :
    bsearchGo t.toArray k fuel lo hi = lookup t k := by
  induction fuel generalizing lo hi with
  | zero => omega
  | succ fuel ih =>
    unfold bsearchGo
    by_cases hlh : lo < hi
    · have hc : lo < hi ∧ hi ≤ t.toArray.size := ⟨hlh, by simpa using hhi⟩
      rw [dif_pos hc]
      simp only
      have hmid : lo + (hi - lo) / 2 < t.length := by omega
      have hget : (t.toArray[lo + (hi - lo) / 2]'(by simpa using hmid)) = t[lo + (hi - lo) / 2] := by simp
      simp only [List.getElem_toArray]
      by_cases h1 : t[lo + (hi - lo) / 2].1 < k
      · rw [if_pos h1]
        apply ih
        · exact hhi
        · omega
        · intro i hi' hik
          have := hout i hi' hik
          refine ⟨?_, this.2⟩
          apply Classical.byContradiction
          intro hcon
          have hle : i ≤ lo + (hi - lo) / 2 := by omega
          rcases Nat.lt_or_eq_of_le hle with hlt | heq
          · have := key_lt_of_sorted hp hi' hmid hlt; omega
          · subst heq; omega
      · rw [if_neg h1]
        by_cases h2 : k < t[lo + (hi - lo) / 2].1
        · rw [if_pos h2]
          apply ih
          · omega
          · omega
          · intro i hi' hik
            have := hout i hi' hik
            refine ⟨this.1, ?_⟩
            apply Classical.byContradiction
            intro hcon
            have hle : lo + (hi - lo) / 2 ≤ i := by omega
            rcases Nat.lt_or_eq_of_le hle with hlt | heq
            · have := key_lt_of_sorted hp hmid hi' hlt; omega
            · subst heq; omega
        · rw [if_neg h2]
          have hk : t[lo + (hi - lo) / 2].1 = k := by omega
          symm
          have hmem : (k, t[lo + (hi - lo) / 2].2) ∈ t := by
            have := List.getElem_mem hmid
            rw [← hk]; exact this
          -- lookup on a pairwise-sorted list finds that row
          exact lookup_of_mem_pairwise hp hmem
    · have hc : ¬(lo < hi ∧ hi ≤ t.toArray.size) := by intro h; exact hlh h.1
      rw [dif_neg hc]
      symm
      apply lookup_none_of_forall
      intro x hx hxk
      obtain ⟨i, hi', rfl⟩ := List.getElem_of_mem hx
      have := hout i hi' hxk
      omega

/-! ## Part 2: Hangul arithmetic -/

/-- the real Hangul constants, as equations (keeps literals out of `whnf`) -/
structure HangulStd (H : Hangul) : Prop where
  s : H.sBase = 44032
  l : H.lBase = 4352
  v : H.vBase = 4449
  t : H.tBase = 4519
  lc : H.lCount = 19
  vc : H.vCount = 21
  tc : H.tCount = 28
  nc : H.nCount = 588
  sc : H.sCount = 11172

theorem genH_std : HangulStd genH := ⟨rfl, rfl, rfl, rfl, rfl, rfl, rfl, rfl, rfl⟩

theorem wrap_sub (W ab sb : Nat) (h1 : sb ≤ ab) (h2 : ab < W) : (ab + W - sb) % W = ab - sb := by
  have : ab + W - sb = (ab - sb) + W := by omega
  rw [this, Nat.add_mod_right, Nat.mod_eq_of_lt (by omega)]

theorem hangul_rt1 (H : Hangul) (hH : HangulStd H) (s a b : Nat) (hs : s < 2 ^ 32)
    (h : decomposeHangul H s = some (a, b)) : composeHangul H a b = some s := by
  obtain ⟨h1, h2, h3, h4, h5, h6, h7, h8, h9⟩ := hH
  have hW : (2:Nat) ^ 32 = 4294967296 := by decide
  unfold decomposeHangul at h
  unfold composeHangul
  simp only [h5, h6, h7, h8, h9] at h ⊢
  by_cases hlo : s < H.sBase
  · have e : (s + 2 ^ 32 - H.sBase) % 2 ^ 32 = s + 2 ^ 32 - H.sBase := Nat.mod_eq_of_lt (by omega)
    rw [e] at h
    rw [if_pos (by omega)] at h
    cases h
  · rw [wrap_sub _ _ _ (by omega) hs] at h
    generalize hx : s - H.sBase = x at h
    have hsx : s = H.sBase + x := by omega
    subst hsx
    clear hlo hx
    split at h
    · cases h
    · rename_i hx
      split at h
      · rename_i hm
        simp only [Option.some.injEq, Prod.mk.injEq] at h
        obtain ⟨rfl, rfl⟩ := h
        rw [if_neg (by omega), if_pos ⟨by omega, by omega, by omega, by omega, by
          rw [Nat.add_sub_cancel_left]; exact Nat.mul_mod_left _ _⟩]
        refine congrArg some ?_
        omega
      · rename_i hm
        simp only [Option.some.injEq, Prod.mk.injEq] at h
        obtain ⟨rfl, rfl⟩ := h
        rw [if_pos ⟨by omega, by omega, by omega, by omega⟩]
        refine congrArg some ?_
        simp only [Nat.add_sub_cancel_left]
        omega

theorem lv_arith (d e : Nat) (hd : d < 19) (he : e < 21) :
    ¬(d * 588 + e * 28 ≥ 11172) ∧ ¬((d * 588 + e * 28) % 28 ≠ 0) ∧ (d * 588 + e * 28) / 588 = d ∧
      (d * 588 + e * 28) % 588 / 28 = e := by
  refine ⟨by omega, by omega, by omega, by omega⟩

theorem lvt_arith (x e : Nat) (hx : x ≤ 11172 - 28) (hm : x % 28 = 0) (he : e < 28) (he0 : e ≠ 0) :
    ¬(x + e ≥ 11172) ∧ (x + e) % 28 ≠ 0 ∧ (x + e) / 28 * 28 = x ∧ (x + e) % 28 = e := by
  refine ⟨by omega, by omega, by omega, by omega⟩

theorem hangul_rt2 (H : Hangul) (hH : HangulStd H) (a b s : Nat) (hb : b ≠ H.tBase)
    (h : composeHangul H a b = some s) : decomposeHangul H s = some (a, b) := by
  obtain ⟨h1, h2, h3, h4, h5, h6, h7, h8, h9⟩ := hH
  have hW : (2:Nat) ^ 32 = 4294967296 := by decide
  unfold composeHangul at h
  unfold decomposeHangul
  simp only [h5, h6, h7, h8, h9] at h ⊢
  split at h
  · rename_i hc
    simp only [Option.some.injEq] at h
    subst h
    generalize hd : a - H.lBase = d
    generalize he : b - H.vBase = e
    have hd' : d < 19 := by omega
    have he' : e < 21 := by omega
    have ha : a = H.lBase + d := by omega
    have hb' : b = H.vBase + e := by omega
    have hsi : (H.sBase + d * 588 + e * 28 + 2 ^ 32 - H.sBase) % 2 ^ 32 = d * 588 + e * 28 := by
      rw [wrap_sub _ _ _ (by omega) (by omega)]; omega
    rw [hsi]
    obtain ⟨a1, a2, a3, a4⟩ := lv_arith d e hd' he'
    rw [if_neg a1, if_neg a2, a3, a4, ha, hb']
  · split at h
    · rename_i hc
      simp only [Option.some.injEq] at h
      subst h
      generalize hx : a - H.sBase = x at hc
      generalize he : b - H.tBase = e
      have hx' : a = H.sBase + x := by omega
      have he' : b = H.tBase + e := by omega
      have he0 : e ≠ 0 := by omega
      have he1 : e < 28 := by omega
      have hx1 : x ≤ 11172 - 28 := by omega
      have hx2 : x % 28 = 0 := hc.2.2.2.2
      subst hx' he'
      have hsi : (H.sBase + x + e + 2 ^ 32 - H.sBase) % 2 ^ 32 = x + e := by
        rw [wrap_sub _ _ _ (by omega) (by omega)]; omega
      rw [hsi]
      obtain ⟨a1, a2, a3, a4⟩ := lvt_arith x e hx1 hx2 he1 he0
      rw [if_neg a1, if_pos a2, a3, a4]
    · cases h

end RbModel.Norm
