/-
  Helper lemmas for C11 (Arabic joining).  Core Lean only.

  Route:  imperative loops of `RbModel.Arabic`  =  look-ahead recursion `go` (Step A, for every table
  lookup that succeeds)  =  recursive form of the spec `specGo` (Step B, one finite check of the
  generated state table against `Spec.Joining.form`, closed by `decide`)  =  the index-based
  `Spec.Joining.forms` (Step C, list lemmas).
-/
import RbModel.Arabic
import RbModel.Spec.Joining
import RbModel.Gen.Arabic

namespace RbModel.Arabic
open RbModel.Spec.Joining

/-- the state table of the compiled crate -/
abbrev tbl : StateTable := RbModel.Gen.Arabic.stateTable

/-- how the crate's table classifies a Unicode joining type (join-causing is treated as dual-joining) -/
def toCode : JT → JoiningType
  | .U => .U | .L => .L | .R => .R | .D => .D | .C => .D | .T => .T
  | .Alaph => .GroupAlaph | .DalathRish => .GroupDalathRish

/-- a right inverse of `toCode` on the resolved types (`X` never reaches the automaton) -/
def ofCode : JoiningType → JT
  | .U => .U | .L => .L | .R => .R | .D => .D | .T => .T
  | .GroupAlaph => .Alaph | .GroupDalathRish => .DalathRish | .X => .U

/-- the action number of a form -/
def toAction : Form → Nat
  | .isol => ISOL | .fina => FINA | .fin2 => FIN2 | .fin3 => FIN3
  | .medi => MEDI | .med2 => MED2 | .init => INIT | .none => NONE

/-- the six columns of the table -/
def letters : List JoiningType := [.U, .L, .R, .D, .GroupAlaph, .GroupDalathRish]

theorem mem_letters {t : JoiningType} (h1 : t ≠ .T) (h2 : t ≠ .X) : t ∈ letters := by
  cases t <;> simp_all [letters]

/-- total accessor used in the lemmas only (the model itself uses the checked `lookup`) -/
def entry (s : Nat) (t : JoiningType) : Entry := (tbl.getD s []).getD t.toNat (NONE, NONE, 0)

def lookupIsEntry (s : Nat) (t : JoiningType) : Bool :=
  match lookup tbl s t with
  | .ok e => e == entry s t && decide (e.2.2 < 7)
  | .error _ => false

/-- table shape: 7 × 6, every next state is a row. -/
theorem table_shape : ∀ s ∈ List.range 7, ∀ t ∈ letters, lookupIsEntry s t = true := by decide

theorem lookup_ok {s : Nat} {t : JoiningType} (hs : s < 7) (h1 : t ≠ .T) (h2 : t ≠ .X) :
    lookup tbl s t = .ok (entry s t) ∧ (entry s t).2.2 < 7 := by
  have h := table_shape s (List.mem_range.mpr hs) t (mem_letters h1 h2)
  unfold lookupIsEntry at h
  split at h
  · rename_i e he
    simp only [Bool.and_eq_true, beq_iff_eq, decide_eq_true_eq] at h
    rw [he, ← h.1]; exact ⟨rfl, h.2⟩
  · cases h

/-! ## Step A — the imperative loops compute the look-ahead recursion -/

/-- no `X` in a list of joining types (what `get_joining_type` guarantees) -/
def Resolved (l : List JoiningType) : Prop := ∀ t ∈ l, t ≠ .X

instance (l : List JoiningType) : Decidable (Resolved l) := by unfold Resolved; infer_instance

theorem Resolved.tail {t : JoiningType} {l : List JoiningType} (h : Resolved (t :: l)) : Resolved l :=
  fun x hx => h x (List.mem_cons_of_mem _ hx)
theorem Resolved.head {t : JoiningType} {l : List JoiningType} (h : Resolved (t :: l)) : t ≠ .X :=
  h t List.mem_cons_self

def firstLetter (l : List JoiningType) : Option JoiningType := l.find? (· ≠ .T)

/-- the action the next letter will write back into the previous one (`NONE` = leave it) -/
def peek (s : Nat) (rest : List JoiningType) : Nat :=
  match firstLetter rest with
  | none => NONE
  | some t => (entry s t).1

def patch (a b : Nat) : Nat := if b ≠ NONE then b else a

/-- the final actions of `ws` from state `s`, `after` being what follows the buffer -/
def go (s : Nat) : List JoiningType → List JoiningType → List Nat
  | [], _ => []
  | t :: rest, after =>
    if t = .T then NONE :: go s rest after
    else
      let e := entry s t
      patch e.2.1 (peek e.2.2 (rest ++ after)) :: go e.2.2 rest after

theorem peek_T (s : Nat) (rest : List JoiningType) : peek s (.T :: rest) = peek s rest := by
  simp [peek, firstLetter]

theorem peek_letter (s : Nat) {t : JoiningType} (h : t ≠ .T) (rest : List JoiningType) :
    peek s (t :: rest) = (entry s t).1 := by
  simp [peek, firstLetter, h]

theorem setAt_mid (A : List Nat) (a x : Nat) (R : List Nat) :
    setAt (A ++ a :: R) A.length x = .ok (A ++ x :: R) := by
  unfold setAt
  rw [if_pos (by simp)]
  simp

theorem backPatch_some (A : List Nat) (a : Nat) (R : List Nat) (e : Entry) :
    backPatch (A ++ a :: R) (some A.length) e = .ok (A ++ patch a e.1 :: R) := by
  unfold backPatch patch
  split
  · exact setAt_mid A a e.1 R
  · rfl

theorem backPatch_none (A : List Nat) (e : Entry) : backPatch A none e = .ok A := by
  unfold backPatch; split <;> rfl

/-- post-context loop with a pending previous letter -/
theorem postLoop_some (A : List Nat) (a : Nat) (R : List Nat) (s : Nat) (hs : s < 7) :
    ∀ post : List JoiningType, Resolved post →
    postLoop tbl post ⟨A ++ a :: R, some A.length, s⟩ = .ok (A ++ patch a (peek s post) :: R)
  | [], _ => by simp [postLoop, peek, firstLetter, patch]
  | t :: rest, hr => by
    unfold postLoop
    by_cases ht : t = .T
    · subst ht; rw [if_pos rfl, peek_T]; exact postLoop_some A a R s hs rest hr.tail
    · rw [if_neg ht, peek_letter s ht]
      have := (lookup_ok hs ht hr.head).1
      simp only [this, bind, Except.bind]
      exact backPatch_some A a R _

theorem postLoop_none (A : List Nat) (s : Nat) (hs : s < 7) :
    ∀ post : List JoiningType, Resolved post → postLoop tbl post ⟨A, none, s⟩ = .ok A
  | [], _ => by simp [postLoop]
  | t :: rest, hr => by
    unfold postLoop
    by_cases ht : t = .T
    · subst ht; rw [if_pos rfl]; exact postLoop_none A s hs rest hr.tail
    · rw [if_neg ht]
      have := (lookup_ok hs ht hr.head).1
      simp only [this, bind, Except.bind]
      exact backPatch_none A _

/-- main loop + post loop, previous letter pending at index `A.length`, followed by `k` transparent items -/
theorem run_some (post : List JoiningType) (hp : Resolved post) :
    ∀ (ws : List JoiningType), Resolved ws → ∀ (A : List Nat) (a k s : Nat), s < 7 →
    (mainLoop tbl ws (A.length + 1 + k) ⟨A ++ a :: List.replicate k NONE, some A.length, s⟩
        >>= postLoop tbl post)
      = .ok (A ++ patch a (peek s (ws ++ post)) :: List.replicate k NONE ++ go s ws post)
  | [], _, A, a, k, s, hs => by
    simp only [mainLoop, bind, Except.bind, go, List.nil_append, List.append_nil]
    exact postLoop_some A a _ s hs post hp
  | t :: rest, hr, A, a, k, s, hs => by
    unfold mainLoop
    by_cases ht : t = .T
    · subst ht
      rw [if_pos rfl]
      have ih := run_some post hp rest hr.tail A a (k + 1) s hs
      have e1 : A ++ a :: List.replicate k NONE ++ [NONE] = A ++ a :: List.replicate (k + 1) NONE := by
        simp [List.replicate_succ']
      simp only [e1]
      rw [show A.length + 1 + k + 1 = A.length + 1 + (k + 1) by omega, ih]
      simp [go, peek_T, List.replicate_succ']
    · rw [if_neg ht]
      obtain ⟨hl, hn⟩ := lookup_ok hs ht hr.head
      simp only [hl, bind, Except.bind, backPatch_some]
      have hlen : (A ++ patch a (entry s t).1 :: List.replicate k NONE).length = A.length + 1 + k := by
        simp; omega
      have ih := run_some post hp rest hr.tail (A ++ patch a (entry s t).1 :: List.replicate k NONE)
        (entry s t).2.1 0 (entry s t).2.2 hn
      simp only [hlen, List.replicate_zero, Nat.add_zero, bind, Except.bind] at ih
      rw [show (A ++ patch a (entry s t).1 :: List.replicate k NONE ++ [(entry s t).2.1])
            = (A ++ patch a (entry s t).1 :: List.replicate k NONE) ++ (entry s t).2.1 :: [] by simp]
      rw [ih]
      simp [go, ht, peek_letter s ht]

/-- main loop + post loop while no letter has been seen yet -/
theorem run_none (post : List JoiningType) (hp : Resolved post) :
    ∀ (ws : List JoiningType), Resolved ws → ∀ (A : List Nat) (s : Nat), s < 7 →
    (mainLoop tbl ws A.length ⟨A, none, s⟩ >>= postLoop tbl post) = .ok (A ++ go s ws post)
  | [], _, A, s, hs => by
    simp only [mainLoop, bind, Except.bind, go, List.append_nil]
    exact postLoop_none A s hs post hp
  | t :: rest, hr, A, s, hs => by
    unfold mainLoop
    by_cases ht : t = .T
    · subst ht
      rw [if_pos rfl]
      have ih := run_none post hp rest hr.tail (A ++ [NONE]) s hs
      simp only [List.length_append, List.length_cons, List.length_nil, Nat.zero_add] at ih
      simp only [ih]
      simp [go]
    · rw [if_neg ht]
      obtain ⟨hl, hn⟩ := lookup_ok hs ht hr.head
      simp only [hl, bind, Except.bind, backPatch_none]
      have ih := run_some post hp rest hr.tail A (entry s t).2.1 0 (entry s t).2.2 hn
      simp only [List.replicate_zero, Nat.add_zero, bind, Except.bind] at ih
      rw [ih]
      simp [go, ht]

/-- the state in which the main loop starts: the nearest non-transparent pre-context character is
    fed to the automaton from state 0 -/
def preState (ctx : List JoiningType) : Nat :=
  match firstLetter ctx with
  | none => 0
  | some t => (entry 0 t).2.2

theorem preLoop_eq : ∀ ctx : List JoiningType, Resolved ctx →
    preLoop tbl ctx 0 = .ok (preState ctx) ∧ preState ctx < 7
  | [], _ => by simp [preLoop, preState, firstLetter]
  | t :: rest, hr => by
    unfold preLoop
    by_cases ht : t = .T
    · subst ht
      rw [if_pos rfl]
      have := preLoop_eq rest hr.tail
      simpa [preState, firstLetter] using this
    · rw [if_neg ht]
      obtain ⟨hl, hn⟩ := lookup_ok (by decide : 0 < 7) ht hr.head
      simp only [hl, bind, Except.bind]
      simp [preState, firstLetter, ht, hn]

/-- Step A: the model of `arabic_joining` never fails on resolved types and computes `go`. -/
theorem arabicJoining_eq_go (pre ws post : List JoiningType)
    (h1 : Resolved pre) (h2 : Resolved ws) (h3 : Resolved post) :
    arabicJoining tbl pre ws post = .ok (go (preState pre) ws post) := by
  obtain ⟨hp, hlt⟩ := preLoop_eq pre h1
  have h := run_none post h3 ws h2 [] (preState pre) hlt
  simp only [List.length_nil, List.nil_append, bind, Except.bind] at h
  unfold arabicJoining
  simp only [hp, bind, Except.bind]
  exact h

theorem go_length (s : Nat) (ws after : List JoiningType) : (go s ws after).length = ws.length := by
  induction ws generalizing s with
  | nil => rfl
  | cons t rest ih => unfold go; split <;> simp [ih]

/-! ## Step B — the look-ahead recursion is the local rule of the spec -/

/-- recursive form of the spec: `p` = nearest non-transparent character before the current position -/
def specGo (p : Option JT) : List JT → List JT → List Form
  | [], _ => []
  | t :: rest, after =>
    if t = .T then Form.none :: specGo p rest after
    else form p t (firstNonT (rest ++ after)) :: specGo (some t) rest after

/-- what the automaton state knows about the previous letter -/
def compat (p : Option JT) (s : Nat) : Bool :=
  match p with
  | none | some .U => s == 0
  | some .L => s == 2
  | some .R => s == 1
  | some .D | some .C => s == 2 || s == 3
  | some .Alaph => s == 1 || s == 4 || s == 5
  | some .DalathRish => s == 6
  | some .T => false

def optAll : List (Option JT) := none :: JT.all.map some

theorem mem_JT_all (t : JT) : t ∈ JT.all := by cases t <;> simp [JT.all]
theorem mem_optAll (p : Option JT) : p ∈ optAll := by
  cases p with
  | none => simp [optAll]
  | some t => simp [optAll, mem_JT_all t]

/-- what the next letter (type `n`, `none` = end of text) writes back from state `s` -/
def peekJT (s : Nat) (n : Option JT) : Nat :=
  match n with
  | none => NONE
  | some t => (entry s (toCode t)).1

/-- THE finite obligation on the generated state table: in every state compatible with the
    previous letter `p`, for every letter `t` and every next letter `n`, the action written for `t`
    — after the back-patch by `n` — is the spec's form, and the next state is compatible with `t`. -/
def localCheck (p : Option JT) (s : Nat) (t : JT) (n : Option JT) : Bool :=
  !(compat p s) || t == .T || n == some .T ||
    (patch (entry s (toCode t)).2.1 (peekJT (entry s (toCode t)).2.2 n) == toAction (form p t n)
      && compat (some t) (entry s (toCode t)).2.2)

theorem table_local : ∀ p ∈ optAll, ∀ s ∈ List.range 7, ∀ t ∈ JT.all, ∀ n ∈ optAll,
    localCheck p s t n = true := by decide

theorem compat_lt {p : Option JT} {s : Nat} (h : compat p s = true) : s < 7 := by
  unfold compat at h
  split at h <;> simp at h <;> omega

theorem local_step {p : Option JT} {s : Nat} (hc : compat p s = true) {t : JT} (ht : t ≠ .T)
    {n : Option JT} (hn : n ≠ some .T) :
    patch (entry s (toCode t)).2.1 (peekJT (entry s (toCode t)).2.2 n) = toAction (form p t n)
      ∧ compat (some t) (entry s (toCode t)).2.2 = true := by
  have h := table_local p (mem_optAll p) s (List.mem_range.mpr (compat_lt hc)) t (mem_JT_all t) n (mem_optAll n)
  unfold localCheck at h
  simp only [hc, Bool.not_true, Bool.false_or, Bool.or_eq_true, beq_iff_eq, Bool.and_eq_true] at h
  rcases h with (h | h) | h
  · exact absurd h ht
  · exact absurd h hn
  · exact h

theorem toCode_eq_T {t : JT} : toCode t = .T ↔ t = .T := by cases t <;> simp [toCode]

theorem firstLetter_map (l : List JT) : firstLetter (l.map toCode) = (firstNonT l).map toCode := by
  induction l with
  | nil => rfl
  | cons t rest ih =>
    by_cases ht : t = .T
    · subst ht; simpa [firstLetter, firstNonT, toCode] using ih
    · have : toCode t ≠ .T := fun h => ht (toCode_eq_T.mp h)
      simp [firstLetter, firstNonT, ht, this]

theorem firstNonT_ne_T (l : List JT) : firstNonT l ≠ some .T := by
  intro h
  have := List.find?_some h
  simp at this

theorem peek_map (s : Nat) (l : List JT) : peek s (l.map toCode) = peekJT s (firstNonT l) := by
  unfold peek peekJT
  rw [firstLetter_map]
  cases firstNonT l <;> rfl

/-- Step B: from any state compatible with the previous letter, `go` computes the spec. -/
theorem go_eq_specGo : ∀ (ws after : List JT) (p : Option JT) (s : Nat), compat p s = true →
    go s (ws.map toCode) (after.map toCode) = (specGo p ws after).map toAction
  | [], _, _, _, _ => rfl
  | t :: rest, after, p, s, hc => by
    simp only [List.map_cons, go, specGo]
    by_cases ht : t = .T
    · subst ht
      simp only [toCode, if_true, List.map_cons, toAction]
      rw [go_eq_specGo rest after p s hc]
    · have hct : toCode t ≠ .T := fun h => ht (toCode_eq_T.mp h)
      rw [if_neg hct, if_neg ht, List.map_cons]
      have hstep := local_step hc ht (firstNonT_ne_T (rest ++ after))
      rw [← List.map_append, peek_map, hstep.1, go_eq_specGo rest after (some t) _ hstep.2]

/-! ## Step C — the recursive form of the spec is the index-based one -/

theorem lastNonT_snoc (pre : List JT) (t : JT) :
    lastNonT (pre ++ [t]) = if t = .T then lastNonT pre else some t := by
  unfold lastNonT firstNonT
  rw [List.reverse_append]
  by_cases ht : t = .T <;> simp [ht]

theorem formAt_mid (pre : List JT) (t : JT) (rest : List JT) :
    formAt (pre ++ t :: rest) pre.length = form (lastNonT pre) t (firstNonT rest) := by
  unfold formAt
  simp

theorem form_T (p n : Option JT) : form p .T n = Form.none := rfl

theorem forms_eq_specGo : ∀ (ws pre post : List JT), forms pre ws post = specGo (lastNonT pre) ws post
  | [], _, _ => rfl
  | t :: rest, pre, post => by
    have ih := forms_eq_specGo rest (pre ++ [t]) post
    unfold forms at ih ⊢
    rw [List.length_cons, List.range_succ_eq_map, List.map_cons, List.map_map]
    have e : pre ++ t :: rest ++ post = pre ++ t :: (rest ++ post) := by simp
    have e2 : (fun i => formAt (pre ++ t :: rest ++ post) (pre.length + i)) ∘ Nat.succ
        = fun i => formAt (pre ++ [t] ++ rest ++ post) ((pre ++ [t]).length + i) := by
      funext i
      simp only [Function.comp, List.length_append, List.length_cons, List.length_nil]
      congr 1
      · simp
      · omega
    rw [e2, ih, Nat.add_zero, e, formAt_mid, lastNonT_snoc]
    by_cases ht : t = .T
    · subst ht; simp [specGo, form_T]
    · simp [specGo, ht]

/-- the state after the pre-context is compatible with the nearest non-transparent context character -/
theorem compat_preState (ctx : List JT) : compat (firstNonT ctx) (preState (ctx.map toCode)) = true := by
  unfold preState
  rw [firstLetter_map]
  cases h : firstNonT ctx with
  | none => rfl
  | some t =>
    have ht : t ≠ .T := fun e => firstNonT_ne_T ctx (e ▸ h)
    exact (local_step (p := none) (s := 0) rfl ht (n := none) (by simp)).2

theorem resolved_map (l : List JT) : Resolved (l.map toCode) := by
  intro t ht
  obtain ⟨x, _, rfl⟩ := List.mem_map.mp ht
  cases x <;> simp [toCode]

theorem toCode_ofCode {t : JoiningType} (h : t ≠ .X) : toCode (ofCode t) = t := by
  cases t <;> simp_all [toCode, ofCode]

theorem map_toCode_ofCode {l : List JoiningType} (h : Resolved l) : (l.map ofCode).map toCode = l := by
  induction l with
  | nil => rfl
  | cons t rest ih =>
    simp only [List.map_cons, toCode_ofCode h.head, ih h.tail]

/-- Steps A+B+C: the joining pass on stored contexts (`pre` is given in text order and stored
    reversed, as `set_pre_context` does) computes the spec. -/
theorem arabicJoining_eq_forms (pre ws post : List JT) :
    arabicJoining tbl (pre.reverse.map toCode) (ws.map toCode) (post.map toCode)
      = .ok ((forms pre ws post).map toAction) := by
  rw [arabicJoining_eq_go _ _ _ (resolved_map _) (resolved_map _) (resolved_map _)]
  rw [go_eq_specGo ws post (firstNonT pre.reverse) _ (compat_preState pre.reverse), forms_eq_specGo]
  rfl

/-! ## contexts as text -/

theorem forms_nil (text : List JT) : forms [] text [] = formsOfText text := by
  simp [forms, formsOfText]

/-- the forms in context are the middle slice of the forms of the concatenated text -/
theorem forms_slice (pre ws post : List JT) :
    forms pre ws post = ((formsOfText (pre ++ ws ++ post)).drop pre.length).take ws.length := by
  apply List.ext_getElem
  · simp [forms, formsOfText]
  · intro i h1 h2
    simp [forms, formsOfText]

/-- the last `n` elements -/
def lastN (n : Nat) (l : List α) : List α := (l.reverse.take n).reverse

theorem setPreContext_map (n : Nat) (pre : List JT) :
    setPreContext n (pre.map toCode) = ((lastN n pre).reverse).map toCode := by
  simp [setPreContext, lastN, List.map_reverse, List.map_take]

theorem setPostContext_map (n : Nat) (post : List JT) :
    setPostContext n (post.map toCode) = (post.take n).map toCode := by
  simp [setPostContext, List.map_take]

theorem lastN_of_le {n : Nat} {l : List α} (h : l.length ≤ n) : lastN n l = l := by
  unfold lastN
  rw [List.take_of_length_le (by simpa using h), List.reverse_reverse]

/-! ## transparent characters -/

def nonT (t : JoiningType) : Bool := t != .T

theorem firstLetter_filter (l : List JoiningType) : firstLetter (l.filter nonT) = firstLetter l := by
  induction l with
  | nil => rfl
  | cons t rest ih =>
    by_cases ht : t = .T
    · subst ht; simp [firstLetter, nonT]
    · simp [firstLetter, nonT, ht]

theorem peek_filter (s : Nat) (l : List JoiningType) : peek s (l.filter nonT) = peek s l := by
  unfold peek; rw [firstLetter_filter]

theorem preState_filter (l : List JoiningType) : preState (l.filter nonT) = preState l := by
  unfold preState; rw [firstLetter_filter]

/-- put `NONE` back at the transparent positions of `ws` -/
def spread : List JoiningType → List Nat → List Nat
  | [], _ => []
  | t :: rest, as =>
    if t = .T then NONE :: spread rest as
    else match as with
      | [] => []
      | a :: as => a :: spread rest as

theorem go_filter (after : List JoiningType) : ∀ (ws : List JoiningType) (s : Nat),
    go s ws after = spread ws (go s (ws.filter nonT) (after.filter nonT))
  | [], _ => rfl
  | t :: rest, s => by
    by_cases ht : t = .T
    · subst ht
      simp only [go, spread, if_true, nonT, bne_self_eq_false, List.filter_cons_of_neg,
        Bool.false_eq_true, not_false_eq_true]
      rw [go_filter after rest s]
    · have hf : (t :: rest).filter nonT = t :: rest.filter nonT :=
        List.filter_cons_of_pos (by simp [nonT, ht])
      rw [hf]
      simp only [go, spread, if_neg ht]
      rw [← go_filter after rest _, ← List.filter_append, peek_filter]

theorem resolved_filter {l : List JoiningType} (h : Resolved l) : Resolved (l.filter nonT) :=
  fun t ht => h t (List.mem_filter.mp ht).1

theorem firstLetter_insert_T (a b : List JoiningType) :
    firstLetter (a ++ .T :: b) = firstLetter (a ++ b) := by
  induction a with
  | nil => simp [firstLetter]
  | cons t rest ih =>
    by_cases ht : t = .T
    · subst ht; simp [firstLetter]
    · simp [firstLetter, ht]

theorem peek_insert_T (s : Nat) (a b : List JoiningType) : peek s (a ++ .T :: b) = peek s (a ++ b) := by
  unfold peek; rw [firstLetter_insert_T]

theorem preState_insert_T (a b : List JoiningType) : preState (a ++ .T :: b) = preState (a ++ b) := by
  unfold preState; rw [firstLetter_insert_T]

/-- a transparent item inserted into the buffer gets `NONE` and changes nothing else -/
theorem go_insert_T (after : List JoiningType) : ∀ (a b : List JoiningType) (s : Nat),
    go s (a ++ .T :: b) after
      = (go s (a ++ b) after).take a.length ++ NONE :: (go s (a ++ b) after).drop a.length
  | [], b, s => by simp [go]
  | t :: rest, b, s => by
    by_cases ht : t = .T
    · subst ht
      simp only [List.cons_append, go, if_true, List.length_cons, List.take_succ_cons, List.drop_succ_cons]
      rw [go_insert_T after rest b s]
    · simp only [List.cons_append, go, if_neg ht, List.length_cons, List.take_succ_cons, List.drop_succ_cons]
      rw [go_insert_T after rest b _, List.append_assoc, List.cons_append, peek_insert_T, ← List.append_assoc]

theorem go_after_insert_T (s : Nat) (c d : List JoiningType) : ∀ ws : List JoiningType,
    go s ws (c ++ .T :: d) = go s ws (c ++ d)
  | [] => rfl
  | t :: rest => by
    by_cases ht : t = .T
    · subst ht; simp only [go, if_true]; rw [go_after_insert_T s c d rest]
    · simp only [go, if_neg ht]
      rw [go_after_insert_T _ c d rest, ← List.append_assoc, peek_insert_T, List.append_assoc]

theorem resolved_insert_T {a b : List JoiningType} (h : Resolved (a ++ b)) : Resolved (a ++ .T :: b) := by
  intro t ht
  rcases List.mem_append.mp ht with h1 | h1
  · exact h t (List.mem_append_left _ h1)
  · rcases List.mem_cons.mp h1 with h2 | h2
    · subst h2; simp
    · exact h t (List.mem_append_right _ h2)

/-! ## Mongolian FVS copy and masks -/

theorem mongolianGo_map {α β : Type} (f : α → β) : ∀ (l : List (Nat × α)) (p : α),
    mongolianGo (f p) (l.map (fun x => (x.1, f x.2))) = (mongolianGo p l).map f
  | [], _ => rfl
  | (g, a) :: rest, p => by
    simp only [List.map_cons, mongolianGo]
    split
    · rw [mongolianGo_map f rest p]
    · rw [mongolianGo_map f rest a]

theorem mongolianCopy_map {α β : Type} (f : α → β) (l : List (Nat × α)) :
    mongolianCopy (l.map (fun x => (x.1, f x.2))) = (mongolianCopy l).map f := by
  cases l with
  | nil => rfl
  | cons x rest => obtain ⟨g, a⟩ := x; simp [mongolianCopy, mongolianGo_map]

theorem mongolianGo_length {α : Type} : ∀ (l : List (Nat × α)) (p : α), (mongolianGo p l).length = l.length
  | [], _ => rfl
  | (g, a) :: rest, p => by simp [mongolianGo, mongolianGo_length rest]

theorem mongolianCopy_length {α : Type} (l : List (Nat × α)) : (mongolianCopy l).length = l.length := by
  cases l with
  | nil => rfl
  | cons x rest => obtain ⟨g, a⟩ := x; simp [mongolianCopy, mongolianGo_length]

/-- the 1-mask a form stands for -/
def featureMask (oneMask : String → Nat) (f : Form) : Nat :=
  match f.tag with
  | none => 0
  | some t => oneMask t

theorem dataCreate_get (oneMask : String → Nat) (f : Form) :
    (dataCreate RbModel.Gen.Arabic.features oneMask)[toAction f]? = some (featureMask oneMask f) := by
  cases f <;> rfl

theorem applyMasks_forms (oneMask : String → Nat) : ∀ (l : List (Form × Nat)),
    applyMasks (dataCreate RbModel.Gen.Arabic.features oneMask) (l.map (fun x => (toAction x.1, x.2)))
      = .ok (l.map (fun x => (toAction x.1, x.2 ||| featureMask oneMask x.1)))
  | [] => rfl
  | (f, m) :: rest => by
    simp only [List.map_cons, applyMasks, dataCreate_get, applyMasks_forms oneMask rest, bind, Except.bind]

/-! ### raw context arrays -/

theorem storeContext_visible {α : Type} (slots new : List α) (h : new.length ≤ slots.length) :
    (storeContext slots new).1.take (storeContext slots new).2 = new
    ∧ (storeContext slots new).1.length = slots.length := by
  unfold storeContext
  simp only [List.take_of_length_le h]
  constructor
  · simp
  · simp; omega

theorem ctxCall_lengths {α : Type} (st : CtxState α) (c : CtxCall α) :
    (st.call c).pre.length = st.pre.length ∧ (st.call c).post.length = st.post.length := by
  cases c with
  | pre t =>
    have := (storeContext_visible st.pre (t.reverse.take st.pre.length) (by simp; omega)).2
    simp [CtxState.call, this]
  | post t =>
    have := (storeContext_visible st.post (t.take st.post.length) (by simp; omega)).2
    simp [CtxState.call, this]
  | add t =>
    simp only [CtxState.call]
    split <;> simp

theorem ctxCalls_lengths {α : Type} (cs : List (CtxCall α)) (st : CtxState α) :
    (st.calls cs).pre.length = st.pre.length ∧ (st.calls cs).post.length = st.post.length := by
  induction cs generalizing st with
  | nil => simp [CtxState.calls]
  | cons c cs ih =>
    have h := ih (st.call c)
    have h2 := ctxCall_lengths st c
    simp only [CtxState.calls, List.foldl_cons] at h ⊢
    omega

end RbModel.Arabic
